import PdfModel.Model.Offsets
import PdfModel.Lemmas.Xref

/-! The `/Prev` walk of `Backend::read_xref_table_and_trailer` (`Offsets.loadTable` / `prevLoop`, over an
    abstract "section at offset" function `P.xrefAt`) visits exactly the chain of sections of a
    well-formed file, newest first, and hands back the trailer of the newest section. -/

namespace Offsets
open Xref OffLex

variable {V T : Type}

/-- one section of a file as the walk sees it: its offset (relative to the header), its subsections and
    its trailer -/
structure Rev (T : Type) where
  off : Nat
  subs : List Sub
  trailer : T

/-- the section reader, handed the file from `start + off` on, returns this section -/
def ReadsAt (P : Parsers V T) (buf : Bytes) (start : Nat) (r : Rev T) : Prop :=
  start + r.off ≤ usizeMax ∧ start + r.off ≤ buf.length ∧
    P.xrefAt (buf.drop (start + r.off)) = .ok (r.subs, r.trailer)

/-- a chain, newest section first: every trailer's `/Prev` is the offset of the next older section, the
    oldest trailer has no `/Prev` -/
def Linked (P : Parsers V T) : List (Rev T) → Prop
  | [] => True
  | [r] => P.prevOf r.trailer = none
  | r :: r' :: rest => P.prevOf r.trailer = some (.ok r'.off) ∧ Linked P (r' :: rest)

theorem Linked.tail {P : Parsers V T} {r : Rev T} {rest : List (Rev T)} (h : Linked P (r :: rest)) :
    Linked P rest := by
  cases rest with
  | nil => trivial
  | cons r' rest' => exact h.2

/-- what the code does with the trailer of `r` when `rest` are the older sections -/
theorem Linked.prevOf {P : Parsers V T} {r : Rev T} {rest : List (Rev T)} (h : Linked P (r :: rest)) :
    P.prevOf r.trailer = (rest.head?.map fun r' => Out.ok r'.off) := by
  cases rest with
  | nil => exact h
  | cons r' rest' => exact h.1

theorem suffixAt_of_readsAt {P : Parsers V T} {buf : Bytes} {start : Nat} {r : Rev T} (h : ReadsAt P buf start r) :
    suffixAt buf start r.off = .ok (start + r.off, buf.drop (start + r.off)) := by
  obtain ⟨h1, h2, _⟩ := h
  unfold suffixAt checkedAdd readFrom
  have : ¬ start + r.off > usizeMax := by omega
  simp [this, h2]

/-- lifting of a table-valued outcome to the pair the walk returns -/
def withTrailer (tr : T) : Out Table → Out (Table × T)
  | .ok t => .ok (t, tr)
  | .err => .err | .panic => .panic | .oof => .oof

/-- the `while let Some(prev_xref_offset) = prev_trailer` loop merges exactly the older sections, in chain
    order, provided their offsets are distinct (the `seen` check) and the fuel covers their number -/
theorem prevLoop_chain (P : Parsers V T) (buf : Bytes) (start : Nat) :
    ∀ (older : List (Rev T)) (fuel : Nat) (seen : List Nat) (t : Table),
      (∀ r ∈ older, ReadsAt P buf start r) → Linked P older → (older.map (·.off)).Nodup →
      (∀ r ∈ older, r.off ∉ seen) → older.length ≤ fuel →
      prevLoop P buf start fuel seen (older.head?.map (·.off)) t = mergeAll t (older.map (·.subs)) := by
  intro older
  induction older with
  | nil => intro fuel seen t _ _ _ _ _; cases fuel <;> simp [prevLoop, mergeAll]
  | cons r rest ih =>
    intro fuel seen t hread hlink hnd hseen hfuel
    cases fuel with
    | zero => simp at hfuel
    | succ fuel =>
      have hr := hread r (by simp)
      have hns : seen.contains r.off = false := by
        have := hseen r (by simp)
        simpa using this
      simp only [List.head?_cons, Option.map_some, prevLoop, hns, Bool.false_eq_true, if_false,
        suffixAt_of_readsAt hr, hr.2.2, List.map_cons, mergeAll]
      cases hadd : addSubs t r.subs with
      | err => rfl
      | panic => rfl
      | oof => rfl
      | ok t' =>
        simp only [hlink.prevOf]
        have hnd' : (rest.map (·.off)).Nodup := by
          simp only [List.map_cons, List.nodup_cons] at hnd; exact hnd.2
        have hnotin : ∀ r' ∈ rest, r'.off ∉ r.off :: seen := by
          intro r' hr' hmem
          simp only [List.mem_cons] at hmem
          rcases hmem with heq | hmem
          · simp only [List.map_cons, List.nodup_cons, List.mem_map] at hnd
            exact hnd.1 ⟨r', hr', heq⟩
          · exact hseen r' (by simp [hr']) hmem
        have := ih fuel (r.off :: seen) t' (fun x hx => hread x (by simp [hx])) hlink.tail hnd' hnotin
          (by simp at hfuel; omega)
        cases rest with
        | nil => simp [mergeAll]
        | cons r' rest' =>
          simp only [List.head?_cons, Option.map_some] at this ⊢
          exact this

/-- **`read_xref_table_and_trailer` on a well-formed chain.** `startxref` names the newest section, which
    lies inside the file; its trailer has a `/Size` within `MAX_ID`; the chain is linked by `/Prev`; the
    older offsets are pairwise distinct.  Then the walk builds the table of `/Size + 1` slots, merges the
    newest section and then every older one in chain order (nothing else, nothing twice), and returns
    the *newest* trailer. -/
theorem loadTable_chain (P : Parsers V T) (buf : Bytes) (start fuel : Nat) (newest : Rev T) (older : List (Rev T))
    (size : Nat) (hx : locateXref buf = .ok newest.off) (hin : start + newest.off < buf.length)
    (hfit : start + newest.off ≤ usizeMax)
    (hnew : P.xrefAt (buf.drop (start + newest.off)) = .ok (newest.subs, newest.trailer))
    (hsize : P.sizeOf newest.trailer = .ok size) (hmax : size ≤ maxId)
    (hread : ∀ r ∈ older, ReadsAt P buf start r) (hlink : Linked P (newest :: older))
    (hnd : (older.map (·.off)).Nodup) (hfuel : older.length ≤ fuel) :
    loadTable P fuel buf start
      = withTrailer newest.trailer (mergeAll (newTable size) ((newest :: older).map (·.subs))) := by
  have hstrict : suffixAtStrict buf start newest.off = .ok (start + newest.off, buf.drop (start + newest.off)) := by
    unfold suffixAtStrict checkedAdd
    have h1 : ¬ start + newest.off > usizeMax := by omega
    have h2 : ¬ start + newest.off ≥ buf.length := by omega
    simp [h1, h2]
  have hm : ¬ size > maxId := by omega
  simp only [loadTable, hx, hstrict, hnew, hsize, hm, if_false, List.map_cons, mergeAll]
  cases hadd : addSubs (newTable size) newest.subs with
  | err => rfl
  | panic => rfl
  | oof => rfl
  | ok t =>
    simp only [hlink.prevOf]
    cases older with
    | nil => simp [mergeAll, withTrailer]
    | cons r rest =>
      have := prevLoop_chain P buf start (r :: rest) fuel [] t hread hlink.tail hnd (by simp) hfuel
      simp only [List.head?_cons, Option.map_some] at this ⊢
      rw [this]
      cases mergeAll t ((r :: rest).map (·.subs)) <;> rfl

/-! ### the merged table keeps its size -/

theorem addEntry_length {t t' : Table} {i : Nat} {e : XRef} (h : addEntry t i e = .ok t') : t'.length = t.length := by
  unfold addEntry at h
  split at h
  · simp at h; subst h; rfl
  · split at h <;> simp at h
    · subst h; simp
    · subst h; rfl

theorem addFrom_length : ∀ (es : List XRef) {t t' : Table} {i : Nat}, addFrom t i es = .ok t' → t'.length = t.length := by
  intro es
  induction es with
  | nil => intro t t' i h; simp [addFrom] at h; subst h; rfl
  | cons e es ih =>
    intro t t' i h
    simp only [addFrom] at h
    cases h1 : addEntry t i e with
    | ok t1 => rw [h1] at h; rw [ih h, addEntry_length h1]
    | err => rw [h1] at h; simp at h
    | panic => rw [h1] at h; simp at h
    | oof => rw [h1] at h; simp at h

theorem addSubs_length : ∀ (ss : List Sub) {t t' : Table}, addSubs t ss = .ok t' → t'.length = t.length := by
  intro ss
  induction ss with
  | nil => intro t t' h; simp [addSubs] at h; subst h; rfl
  | cons s ss ih =>
    intro t t' h
    simp only [addSubs, addSub] at h
    cases h1 : addFrom t s.first s.entries with
    | ok t1 => rw [h1] at h; rw [ih h, addFrom_length _ h1]
    | err => rw [h1] at h; simp at h
    | panic => rw [h1] at h; simp at h
    | oof => rw [h1] at h; simp at h

theorem mergeAll_length : ∀ (secs : List (List Sub)) {t t' : Table}, mergeAll t secs = .ok t' → t'.length = t.length := by
  intro secs
  induction secs with
  | nil => intro t t' h; simp [mergeAll] at h; subst h; rfl
  | cons s ss ih =>
    intro t t' h
    simp only [mergeAll] at h
    cases h1 : addSubs t s with
    | ok t1 => rw [h1] at h; rw [ih h, addSubs_length _ h1]
    | err => rw [h1] at h; simp at h
    | panic => rw [h1] at h; simp at h
    | oof => rw [h1] at h; simp at h

theorem newTable_length (n : Nat) : (newTable n).length = n + 1 := by simp [newTable]

end Offsets
