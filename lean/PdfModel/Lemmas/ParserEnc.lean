import PdfModel.Spec.SyntaxEnc
import PdfModel.Lemmas.ShiftDecrypt
import PdfModel.Lemmas.Indirect
import PdfModel.Lemmas.Render
import PdfModel.Lemmas.ParserFlags

/-! Encrypted spellings: parsing with the context of a decryptor that inverts the encryptor returns the plaintext
    value (on top of the C11 package's `parseCtx_dec` / `parseIndirectObject_dec`). -/

namespace PdfLex
open PdfSyntax (LitBody HexBody Gap Bnd Spells needsBnd WF WFL WFE KeysDistinct KeysDistinctL KeysDistinctE namesUtf8 namesUtf8L namesUtf8E
  vdepth vdepthL vdepthE need needL needE keysOf mapStrings mapStringsL mapStringsE SpellsEnc encrypted)
open PdfShift (mapStr mapStrL mapStrE withDec noDec parseCtx_dec parseIndirectObject_dec mapStr_inverts omap decV ctxFn)

variable {R : Type}

mutual
theorem mapStrings_eq (f : List UInt8 → List UInt8) : ∀ v : Prim R, mapStrings f v = mapStr f v
  | .str s => by simp [mapStrings, mapStr]
  | .stream info inner => by simp [mapStrings, mapStr, mapStringsE_eq f info]
  | .dict kvs => by simp [mapStrings, mapStr, mapStringsE_eq f kvs]
  | .arr xs => by simp [mapStrings, mapStr, mapStringsL_eq f xs]
  | .null => by simp [mapStrings, mapStr]
  | .int i => by simp [mapStrings, mapStr]
  | .real r => by simp [mapStrings, mapStr]
  | .bool b => by simp [mapStrings, mapStr]
  | .ref i g => by simp [mapStrings, mapStr]
  | .name n => by simp [mapStrings, mapStr]
theorem mapStringsL_eq (f : List UInt8 → List UInt8) : ∀ xs : List (Prim R), mapStringsL f xs = mapStrL f xs
  | [] => by simp [mapStringsL, mapStrL]
  | x :: xs => by simp [mapStringsL, mapStrL, mapStrings_eq f x, mapStringsL_eq f xs]
theorem mapStringsE_eq (f : List UInt8 → List UInt8) : ∀ kvs : List (List UInt8 × Prim R), mapStringsE f kvs = mapStrE f kvs
  | [] => by simp [mapStringsE, mapStrE]
  | (k, v) :: rest => by simp [mapStringsE, mapStrE, mapStrings_eq f v, mapStringsE_eq f rest]
end

/-- what encryption leaves alone: structure, keys, names, depth, fuel, kind -/
structure SameShape (a b : Prim R) : Prop where
  kd : KeysDistinct a ↔ KeysDistinct b
  nu : namesUtf8 a = namesUtf8 b
  vd : vdepth a = vdepth b
  nd : need a = need b
  nb : needsBnd a = needsBnd b
  fl : flagOf a = flagOf b

structure SameShapeL (a b : List (Prim R)) : Prop where
  kd : KeysDistinctL a ↔ KeysDistinctL b
  nu : namesUtf8L a = namesUtf8L b
  vd : vdepthL a = vdepthL b
  nd : needL a = needL b

structure SameShapeE (a b : List (List UInt8 × Prim R)) : Prop where
  kd : KeysDistinctE a ↔ KeysDistinctE b
  nu : namesUtf8E a = namesUtf8E b
  vd : vdepthE a = vdepthE b
  nd : needE a = needE b
  ks : keysOf a = keysOf b

mutual
theorem sameShape_mapStrings (f : List UInt8 → List UInt8) : ∀ v : Prim R, SameShape (mapStrings f v) v
  | .str s => ⟨by simp [mapStrings, KeysDistinct], by simp [mapStrings, namesUtf8], by simp [mapStrings, vdepth],
      by simp [mapStrings, need], by simp [mapStrings, needsBnd], by simp [mapStrings, flagOf]⟩
  | .stream info inner => by
      have h := sameShapeE_mapStrings f info
      exact ⟨by simp [mapStrings, KeysDistinct, h.kd, h.ks], by simp [mapStrings, namesUtf8, h.nu],
        by simp [mapStrings, vdepth, h.vd], by simp [mapStrings, need, h.nd], by simp [mapStrings, needsBnd],
        by simp [mapStrings, flagOf]⟩
  | .dict kvs => by
      have h := sameShapeE_mapStrings f kvs
      exact ⟨by simp [mapStrings, KeysDistinct, h.kd, h.ks], by simp [mapStrings, namesUtf8, h.nu],
        by simp [mapStrings, vdepth, h.vd], by simp [mapStrings, need, h.nd], by simp [mapStrings, needsBnd],
        by simp [mapStrings, flagOf]⟩
  | .arr xs => by
      have h := sameShapeL_mapStrings f xs
      exact ⟨by simp [mapStrings, KeysDistinct, h.kd], by simp [mapStrings, namesUtf8, h.nu],
        by simp [mapStrings, vdepth, h.vd], by simp [mapStrings, need, h.nd], by simp [mapStrings, needsBnd],
        by simp [mapStrings, flagOf]⟩
  | .null => ⟨by simp [mapStrings], by simp [mapStrings], by simp [mapStrings], by simp [mapStrings], by simp [mapStrings], by simp [mapStrings]⟩
  | .int i => ⟨by simp [mapStrings], by simp [mapStrings], by simp [mapStrings], by simp [mapStrings], by simp [mapStrings], by simp [mapStrings]⟩
  | .real r => ⟨by simp [mapStrings], by simp [mapStrings], by simp [mapStrings], by simp [mapStrings], by simp [mapStrings], by simp [mapStrings]⟩
  | .bool b => ⟨by simp [mapStrings], by simp [mapStrings], by simp [mapStrings], by simp [mapStrings], by simp [mapStrings], by simp [mapStrings]⟩
  | .ref i g => ⟨by simp [mapStrings], by simp [mapStrings], by simp [mapStrings], by simp [mapStrings], by simp [mapStrings], by simp [mapStrings]⟩
  | .name n => ⟨by simp [mapStrings], by simp [mapStrings], by simp [mapStrings], by simp [mapStrings], by simp [mapStrings], by simp [mapStrings]⟩
theorem sameShapeL_mapStrings (f : List UInt8 → List UInt8) : ∀ xs : List (Prim R), SameShapeL (mapStringsL f xs) xs
  | [] => ⟨by simp [mapStringsL], by simp [mapStringsL], by simp [mapStringsL], by simp [mapStringsL]⟩
  | x :: xs => by
      have h1 := sameShape_mapStrings f x
      have h2 := sameShapeL_mapStrings f xs
      exact ⟨by simp [mapStringsL, KeysDistinctL, h1.kd, h2.kd], by simp [mapStringsL, namesUtf8L, h1.nu, h2.nu],
        by simp [mapStringsL, vdepthL, h1.vd, h2.vd], by simp [mapStringsL, needL, h1.nd, h2.nd]⟩
theorem sameShapeE_mapStrings (f : List UInt8 → List UInt8) :
    ∀ kvs : List (List UInt8 × Prim R), SameShapeE (mapStringsE f kvs) kvs
  | [] => ⟨by simp [mapStringsE], by simp [mapStringsE], by simp [mapStringsE], by simp [mapStringsE], by simp [mapStringsE]⟩
  | (k, v) :: rest => by
      have h1 := sameShape_mapStrings f v
      have h2 := sameShapeE_mapStrings f rest
      exact ⟨by simp [mapStringsE, KeysDistinctE, h1.kd, h2.kd], by simp [mapStringsE, namesUtf8E, h1.nu, h2.nu],
        by simp [mapStringsE, vdepthE, h1.vd, h2.vd], by simp [mapStringsE, needE, h1.nd, h2.nd],
        by simp [mapStringsE, keysOf] at h2 ⊢; simpa [keysOf] using h2.ks⟩
end


/-- **Encrypted spellings are read as the plaintext value**: with the context of the object `id gen` and a decryptor
    that inverts the encryptor on that object's key, `parse_with_lexer_ctx` returns `v` itself -/
theorem parseCtx_enc (env : Env R) (d e : Nat → Nat → List UInt8 → List UInt8) (id gen : Nat)
    (hinv : ∀ s, d id gen (e id gen s) = s) (v : Prim R) (txt : List UInt8) (hsp : SpellsEnc env.parseReal e id gen v txt)
    (hk : KeysDistinct v) (hu : namesUtf8 v = true) (hdepth : vdepth v ≤ maxDepth) {buf : Buf} (hsz : buf.size ≤ 2147483647)
    (g rest : List UInt8) (pos fuel : Nat) (hg : Gap g) (hs : Suffix buf pos (g ++ txt ++ rest))
    (hb : needsBnd v = true → Bnd rest) (hah : Ahead buf (pos + g.length + txt.length)) (hfuel : need v ≤ fuel)
    (flags : Nat) (hfl : flags &&& flagOf v ≠ 0) :
    parseCtx (withDec env d) buf fuel pos (some (id, gen)) flags maxDepth = .ok (v, pos + g.length + txt.length) := by
  have sh := sameShape_mapStrings (e id gen) v
  have hwf : WF (mapStrings (e id gen) v) := PdfSyntax.wf_of _ (sh.kd.mpr hk) (by rw [sh.nu]; exact hu)
  have h := parseCtx_spells (noDec env) rfl (mapStrings (e id gen) v) txt hsp hwf hsz g rest pos fuel (some (id, gen)) maxDepth flags hg
    (by rw [sh.fl]; exact hfl) hs (by rw [sh.nb]; exact hb) hah (by rw [sh.nd]; exact hfuel) (by rw [sh.vd]; exact hdepth)
  rw [parseCtx_dec, h]
  simp only [omap, decV, ctxFn, mapStrings_eq, mapStr_inverts (e id gen) (d id gen) hinv v]

/-- the same for `parse_indirect_object` with a decoder: the object is decrypted with the key of the number and
    generation in its own header -/
theorem parseIndirectObject_enc (env : Env R) (d e : Nat → Nat → List UInt8 → List UInt8) (id gen : Nat)
    (hinv : ∀ s, d id gen (e id gen s) = s) (v : Prim R) (txt : List UInt8) (hsp : SpellsEnc env.parseReal e id gen v txt)
    (hk : KeysDistinct v) (hu : namesUtf8 v = true) (hdepth : vdepth v ≤ maxDepth) {buf : Buf} (hsz : buf.size ≤ 2147483647)
    (g0 a g1 b g2 g3 g4 rest : List UInt8) (pos fuel : Nat) (hg0 : Gap g0)
    (ha : PdfSyntax.NatTok a id) (hb : PdfSyntax.NatTok b gen) (hg1 : Gap g1) (hg1ne : g1 ≠ []) (hg2 : Gap g2)
    (hg2ne : g2 ≠ []) (hid : id ≤ 18446744073709551615) (hgen : gen ≤ 18446744073709551615) (hg3 : Gap g3) (hg4 : Gap g4)
    (h : Suffix buf pos (g0 ++ a ++ g1 ++ b ++ g2 ++ kwObj ++ g3 ++ txt ++ g4 ++ kwEndobj ++ rest))
    (hb3 : Bnd (g3 ++ txt)) (hb4 : needsBnd v = true → g4 ≠ []) (hbnd : Bnd rest) (hfuel : need v ≤ fuel)
    (flags : Nat) (hfl : flags &&& flagOf v ≠ 0) :
    parseIndirectObject (withDec env d) buf fuel pos flags =
      .ok (((id, gen), v), pos + (g0 ++ a ++ g1 ++ b ++ g2 ++ kwObj ++ g3 ++ txt ++ g4 ++ kwEndobj).length) := by
  have sh := sameShape_mapStrings (e id gen) v
  have hwf : WF (mapStrings (e id gen) v) := PdfSyntax.wf_of _ (sh.kd.mpr hk) (by rw [sh.nu]; exact hu)
  have h0 := parseIndirectObject_spells (noDec env) rfl (mapStrings (e id gen) v) txt hsp hwf hsz g0 a g1 b g2 g3 g4 rest id gen pos
    fuel hg0 ha hb hg1 hg1ne hg2 hg2ne hid hgen hg3 hg4 h hb3 (by rw [sh.nb]; exact hb4) hbnd (by rw [sh.nd]; exact hfuel)
    (by rw [sh.vd]; exact hdepth) flags (by rw [sh.fl]; exact hfl)
  rw [parseIndirectObject_dec, h0]
  simp only [omap, mapStrings_eq, mapStr_inverts (e id gen) (d id gen) hinv v]


/-! ### strings with an arbitrary (possibly failing) decryptor -/

theorem parseInner_lit_dec (env : Env R) {buf : Buf} (body s : List UInt8) (g rest : List UInt8)
    (pos f : Nat) (ctx : Option (Nat × Nat)) (flags depth : Nat) (hfl : flags &&& Flags.string ≠ 0) (hg : Gap g)
    (hl : LitBody body 0 s)
    (hsz : buf.size ≤ 2147483647) (h : Suffix buf pos (g ++ (40 :: body) ++ rest)) :
    parseInner env buf (f + 1) pos ctx flags depth =
      (decryptStr env ctx s).bind fun s' => .ok (.str s', pos + g.length + (40 :: body).length) := by
  have h' : Suffix buf pos (g ++ (40 :: (body ++ rest))) := by simpa using h
  have h2 : Suffix buf (pos + g.length) (40 :: (body ++ rest)) := h'.drop
  have hn : next buf pos = .ok (pos + g.length, pos + g.length + 1) := by
    rw [next_gap g _ hg ⟨40, _, rfl, by decide, by decide⟩ pos h']
    exact lexemeAt_delim 40 _ _ h2 (by decide) (by decide) (by simp)
  have hsl : slice buf (pos + g.length) (pos + g.length + 1) = [40] := by
    have := Suffix.slice (a := [40]) (s := body ++ rest) (by simpa using h2)
    simpa using this
  have h3 : Suffix buf (pos + g.length + 1) (body ++ rest) := h2.tail
  have hsize := h3.size_eq
  simp at hsize
  have hcs := collectString_lit s body 0 hl buf (pos + g.length + 1) rest [] (buf.size - (pos + g.length + 1) + 2) h3
    (by omega) (by omega)
  rw [show ((0 : Nat) : Int) = 0 from rfl] at hcs
  have hoff : offsetPos buf (pos + g.length + 1) (pos + g.length + 1 + body.length - (pos + g.length + 1)) =
      .ok (pos + g.length + 1 + body.length) := by
    have : pos + g.length + 1 + body.length - (pos + g.length + 1) = body.length := by omega
    rw [this]; exact offsetPos_ok (by omega) hsz
  have c1 : check flags Flags.string = .ok () := check_ok hfl
  simp only [parseInner, remainingStart_ok h.le, hn, Out.bind_ok, hsl]
  have hint : isInteger [40] = false := by decide
  have hreal : realNumber [40] = none := by decide
  have e1 : (([40] : List UInt8) == [60, 60]) = false := by decide
  have e2 : ((([40] : List UInt8).head?) == some 47) = false := by decide
  have e3 : (([40] : List UInt8) == [91]) = false := by decide
  have e4 : (([40] : List UInt8) == [40]) = true := by decide
  simp only [e1, e2, e3, e4, hint, hreal, Bool.false_eq_true, if_false, if_true, c1, Out.bind_ok,
    remainingStart_ok h3.le, hcs, hoff, List.reverse_nil, List.nil_append]
  cases decryptStr env ctx s <;> simp [Out.bind] <;> omega

theorem parseInner_hex_dec (env : Env R) {buf : Buf} (body s : List UInt8) (g rest : List UInt8)
    (pos f : Nat) (ctx : Option (Nat × Nat)) (flags depth : Nat) (hfl : flags &&& Flags.string ≠ 0) (hg : Gap g)
    (hl : HexBody body s)
    (hsz : buf.size ≤ 2147483647) (h : Suffix buf pos (g ++ (60 :: body) ++ rest)) :
    parseInner env buf (f + 1) pos ctx flags depth =
      (decryptStr env ctx s).bind fun s' => .ok (.str s', pos + g.length + (60 :: body).length) := by
  have h' : Suffix buf pos (g ++ (60 :: (body ++ rest))) := by simpa using h
  have h2 : Suffix buf (pos + g.length) (60 :: (body ++ rest)) := h'.drop
  have hhead : (body ++ rest).head? ≠ some 60 := by
    have := hexBody_head hl
    cases body with
    | nil => exact absurd rfl (hexBody_ne_nil hl)
    | cons c b => simpa using this
  have hn : next buf pos = .ok (pos + g.length, pos + g.length + 1) := by
    rw [next_gap g _ hg ⟨60, _, rfl, by decide, by decide⟩ pos h']
    exact lexemeAt_delim 60 _ _ h2 (by decide) (by decide) (by simpa using hhead)
  have hsl : slice buf (pos + g.length) (pos + g.length + 1) = [60] := by
    have := Suffix.slice (a := [60]) (s := body ++ rest) (by simpa using h2)
    simpa using this
  have h3 : Suffix buf (pos + g.length + 1) (body ++ rest) := h2.tail
  have hsize := h3.size_eq
  simp at hsize
  have hcs := collectHex_hex body s hl buf (pos + g.length + 1) (pos + g.length + 1) rest []
    (buf.size - (pos + g.length + 1) + 2) h3 (by omega) (by omega)
  have hoff : offsetPos buf (pos + g.length + 1) (pos + g.length + 1 + body.length - (pos + g.length + 1)) =
      .ok (pos + g.length + 1 + body.length) := by
    have : pos + g.length + 1 + body.length - (pos + g.length + 1) = body.length := by omega
    rw [this]; exact offsetPos_ok (by omega) hsz
  have c1 : check flags Flags.string = .ok () := check_ok hfl
  simp only [parseInner, remainingStart_ok h.le, hn, Out.bind_ok, hsl]
  have hint : isInteger [60] = false := by decide
  have hreal : realNumber [60] = none := by decide
  have e1 : (([60] : List UInt8) == [60, 60]) = false := by decide
  have e2 : ((([60] : List UInt8).head?) == some 47) = false := by decide
  have e3 : (([60] : List UInt8) == [91]) = false := by decide
  have e4 : (([60] : List UInt8) == [40]) = false := by decide
  have e5 : (([60] : List UInt8) == [60]) = true := by decide
  simp only [e1, e2, e3, e4, e5, hint, hreal, Bool.false_eq_true, if_false, if_true, c1, Out.bind_ok,
    remainingStart_ok h3.le, hcs, hoff, List.reverse_nil, List.nil_append]
  cases decryptStr env ctx s <;> simp [Out.bind] <;> omega

/-- **a failing decryptor ⇒ `Err`**: a string object (literal or hexadecimal, any layout) whose ciphertext the decryptor
    rejects (AES: not a multiple of the block size, bad padding) makes `parse_with_lexer_ctx` return `Err` -/
theorem parseCtx_str_decrypt_fails (env : Env R) (f : Nat → Nat → List UInt8 → Out (List UInt8)) (hdec : env.decrypt = some f)
    (id gen : Nat) (c : List UInt8) (hfail : f id gen c = .err) (txt : List UInt8) (hsp : Spells env.parseReal (.str c) txt)
    {buf : Buf} (hsz : buf.size ≤ 2147483647) (g rest : List UInt8) (pos fuel : Nat) (depth flags : Nat)
    (hfl : flags &&& Flags.string ≠ 0) (hg : Gap g) (hs : Suffix buf pos (g ++ txt ++ rest)) (hfuel : 2 ≤ fuel) :
    parseCtx env buf fuel pos (some (id, gen)) flags depth = .err := by
  obtain ⟨k, rfl⟩ : ∃ k, fuel = k + 2 := ⟨fuel - 2, by omega⟩
  have hds : decryptStr env (some (id, gen)) c = .err := by simp [decryptStr, hdec, hfail]
  apply parseCtx_of_inner_err env (k + 1) pos (some (id, gen)) flags depth hs.le
  simp only [Spells] at hsp
  rcases hsp with ⟨body, rfl, hl⟩ | ⟨body, rfl, hl⟩
  · rw [parseInner_lit_dec env body c g rest pos k (some (id, gen)) flags depth hfl hg hl hsz hs, hds]; rfl
  · rw [parseInner_hex_dec env body c g rest pos k (some (id, gen)) flags depth hfl hg hl hsz hs, hds]; rfl


open PdfSpec (Renderable RenderableL RenderableE)

mutual
theorem renderable_mapStrings (fmt : R → List UInt8) (pr : List UInt8 → Option R) (f : List UInt8 → List UInt8) :
    ∀ v : Prim R, Renderable fmt pr v → Renderable fmt pr (mapStrings f v)
  | .str s => fun _ => by simp [mapStrings, Renderable]
  | .stream info inner => fun h => by simp [Renderable] at h
  | .dict kvs => fun h => by
      simp only [Renderable] at h; simp only [mapStrings, Renderable]; exact renderableE_mapStrings fmt pr f kvs h
  | .arr xs => fun h => by
      simp only [Renderable] at h; simp only [mapStrings, Renderable]; exact renderableL_mapStrings fmt pr f xs h
  | .null => fun h => by simpa [mapStrings] using h
  | .int i => fun h => by simpa [mapStrings] using h
  | .real r => fun h => by simpa [mapStrings] using h
  | .bool b => fun h => by simpa [mapStrings] using h
  | .ref i g => fun h => by simpa [mapStrings] using h
  | .name n => fun h => by simpa [mapStrings] using h
theorem renderableL_mapStrings (fmt : R → List UInt8) (pr : List UInt8 → Option R) (f : List UInt8 → List UInt8) :
    ∀ xs : List (Prim R), RenderableL fmt pr xs → RenderableL fmt pr (mapStringsL f xs)
  | [] => fun _ => by simp [mapStringsL, RenderableL]
  | x :: xs => fun h => by
      simp only [RenderableL] at h; simp only [mapStringsL, RenderableL]
      exact ⟨renderable_mapStrings fmt pr f x h.1, renderableL_mapStrings fmt pr f xs h.2⟩
theorem renderableE_mapStrings (fmt : R → List UInt8) (pr : List UInt8 → Option R) (f : List UInt8 → List UInt8) :
    ∀ kvs : List (List UInt8 × Prim R), RenderableE fmt pr kvs → RenderableE fmt pr (mapStringsE f kvs)
  | [] => fun _ => by simp [mapStringsE, RenderableE]
  | (k, v) :: rest => fun h => by
      simp only [RenderableE] at h; simp only [mapStringsE, RenderableE]
      exact ⟨renderable_mapStrings fmt pr f v h.1, renderableE_mapStrings fmt pr f rest h.2⟩
end


theorem mapStrE_inverts (e d : List UInt8 → List UInt8) (h : ∀ s, d (e s) = s) (kvs : List (List UInt8 × Prim R)) :
    mapStrE d (mapStrE e kvs) = kvs := by
  rw [PdfShift.mapStrE_comp]; exact PdfShift.mapStrE_id _ h kvs

theorem lengthIs_mapStringsE (env : Env R) (f : List UInt8 → List UInt8) (info : Dict R) (n : Nat)
    (h : LengthIs env info n) : LengthIs (noDec env) (mapStringsE f info) n := by
  have key : ∀ v, dictGet info kwLength = some v → dictGet (mapStringsE f info) kwLength = some (mapStrings f v) := by
    intro v hv
    rw [mapStringsE_eq, PdfShift.dictGet_mapStr, hv, mapStrings_eq]; rfl
  rcases h with h | ⟨i, g, h, hr⟩
  · left; simpa [mapStrings] using key _ h
  · right; exact ⟨i, g, by simpa [mapStrings] using key _ h, hr⟩

/-- an encrypted stream object: the strings of its dictionary are decrypted, the data range is returned as is -/
theorem parseIndirectObject_stream_enc (env : Env R) (d e : Nat → Nat → List UInt8 → List UInt8) (id gen : Nat)
    (hinv : ∀ s, d id gen (e id gen s) = s) (info : Dict R) (data txt : List UInt8)
    (hsp : PdfSyntax.SpellsStreamEnc env.parseReal e id gen info data txt) (hk : KeysDistinctE info)
    (hnd : (keysOf info).Nodup) (hu : namesUtf8E info = true) (hlen : LengthIs env info data.length)
    {buf : Buf} (hsz : buf.size ≤ 2147483647)
    (g0 a g1 b g2 g3 g4 rest : List UInt8) (pos fuel : Nat) (hg0 : Gap g0)
    (ha : PdfSyntax.NatTok a id) (hb : PdfSyntax.NatTok b gen) (hg1 : Gap g1) (hg1ne : g1 ≠ []) (hg2 : Gap g2)
    (hg2ne : g2 ≠ []) (hid : id ≤ 18446744073709551615) (hgen : gen ≤ 18446744073709551615) (hg3 : Gap g3) (hg4 : Gap g4)
    (hg4ne : g4 ≠ [])
    (h : Suffix buf pos (g0 ++ a ++ g1 ++ b ++ g2 ++ kwObj ++ g3 ++ txt ++ g4 ++ kwEndobj ++ rest))
    (hbnd : Bnd rest) (hfuel : 2 + needE info ≤ fuel) (hdepth : 1 + vdepthE info ≤ maxDepth) :
    ∃ dataPos, parseIndirectObject (withDec env d) buf fuel pos Flags.any =
        .ok (((id, gen), streamAt env info (id, gen) dataPos data.length),
          pos + (g0 ++ a ++ g1 ++ b ++ g2 ++ kwObj ++ g3 ++ txt ++ g4 ++ kwEndobj).length) ∧
      slice buf dataPos (dataPos + data.length) = data := by
  have sh := sameShapeE_mapStrings (e id gen) info
  have hwf : WFE (mapStringsE (e id gen) info) := PdfSyntax.wfE_of _ (sh.kd.mpr hk) (by rw [sh.nu]; exact hu)
  obtain ⟨dataPos, h0, hdata⟩ := parseIndirectObject_stream (noDec env) rfl (mapStringsE (e id gen) info) data txt hsp hwf
    (by rw [sh.ks]; exact hnd) (lengthIs_mapStringsE env (e id gen) info data.length hlen) hsz g0 a g1 b g2 g3 g4 rest id gen pos fuel
    hg0 ha hb hg1 hg1ne hg2 hg2ne hid hgen hg3 hg4 hg4ne h hbnd (by rw [sh.nd]; exact hfuel) (by rw [sh.vd]; exact hdepth)
    Flags.any (by decide)
  refine ⟨dataPos, ?_, hdata⟩
  rw [parseIndirectObject_dec, h0]
  simp only [omap, streamAt, mapStr, mapStringsE_eq, mapStrE_inverts (e id gen) (d id gen) hinv info]
  rfl

end PdfLex
