import PdfModel.Lemmas.ParserS
import PdfModel.Lemmas.Serialize

/-! The writer only produces conformant spellings — also for values with stream objects anywhere (`SpellsS`);
    indirect-object framing read back (`Reads`). -/

namespace PdfLex
open PdfSyntax (Gap Bnd NatTok Spells SpellsS SpellsElemsS SpellsEntriesS needsBnd Reads LengthOK
  WF WFL WFE vdepth need keysOf)

variable {R : Type}

mutual
/-- every value of the object model whose numbers fit their Rust types, whose reals satisfy the `f32` text
    hypotheses and whose streams (anywhere) are `Pending` with a `/Length` that is the length of their data -/
def Storable (fmt : R → List UInt8) (env : Env R) : Prim R → Prop
  | .int i => -2147483648 ≤ i ∧ i ≤ 2147483647
  | .real r => PdfSyntax.RealTok (serializeReal (fmt r)) ∧ env.parseReal (serializeReal (fmt r)) = some r
  | .ref id gen => id ≤ 18446744073709551615 ∧ gen ≤ 18446744073709551615
  | .arr xs => StorableL fmt env xs
  | .dict kvs => StorableE fmt env kvs
  | .stream info inner => ∃ data, inner = .pending data ∧ StorableE fmt env info ∧ LengthOK env info data.length
  | _ => True
def StorableL (fmt : R → List UInt8) (env : Env R) : List (Prim R) → Prop
  | [] => True
  | x :: xs => Storable fmt env x ∧ StorableL fmt env xs
def StorableE (fmt : R → List UInt8) (env : Env R) : List (List UInt8 × Prim R) → Prop
  | [] => True
  | (_, v) :: rest => Storable fmt env v ∧ StorableE fmt env rest
end

theorem bnd_trail_sep (trail sep r : List UInt8) (h3 : trail = [] ∨ trail = [10]) (hs : sep = [] ∨ sep = [32])
    (hr : sep = [] → Bnd r) : Bnd ((trail ++ sep) ++ r) := by
  rcases h3 with rfl | rfl
  · rcases hs with rfl | rfl
    · simpa using hr rfl
    · simp [Bnd]; decide
  · simp [Bnd]; decide

mutual

theorem serialize_spellsS (fmt : R → List UInt8) (env : Env R) (v : Prim R) :
    Storable fmt env v → ∃ txt trail, serialize fmt v = .ok (txt ++ trail) ∧ SpellsS env v txt ∧
      (trail = [] ∨ trail = [10]) := by
  intro h
  have atom : Serialisable fmt env.parseReal v → (∀ t, Spells env.parseReal v t → SpellsS env v t) →
      ∃ txt trail, serialize fmt v = .ok (txt ++ trail) ∧ SpellsS env v txt ∧ (trail = [] ∨ trail = [10]) := by
    intro hs hconv
    obtain ⟨txt, trail, h1, h2, h3, _⟩ := serialize_spells fmt env.parseReal v hs
    exact ⟨txt, trail, h1, hconv txt h2, h3⟩
  cases v with
  | null => exact atom (by simp [Serialisable]) (fun t ht => by simpa [SpellsS] using ht)
  | bool b => exact atom (by simp [Serialisable]) (fun t ht => by simpa [SpellsS] using ht)
  | str s => exact atom (by simp [Serialisable]) (fun t ht => by simpa [SpellsS] using ht)
  | name s => exact atom (by simp [Serialisable]) (fun t ht => by simpa [SpellsS] using ht)
  | int i => exact atom (by simpa [Serialisable, Storable] using h) (fun t ht => by simpa [SpellsS] using ht)
  | real r => exact atom (by simpa [Serialisable, Storable] using h) (fun t ht => by simpa [SpellsS] using ht)
  | ref a b => exact atom (by simpa [Serialisable, Storable] using h) (fun t ht => by simpa [SpellsS] using ht)
  | arr xs =>
    simp only [Storable] at h
    obtain ⟨r, hr, hs⟩ := serializeList_spellsS fmt env xs h true
    refine ⟨91 :: r, [], ?_, ?_, Or.inl rfl⟩
    · simp [serialize, hs]
    · simp only [SpellsS]; exact ⟨[], r, rfl, Gap.nil, hr⟩
  | dict kvs =>
    simp only [Storable] at h
    obtain ⟨d, hd, hs⟩ := serializeEntries_spellsS fmt env kvs h
    refine ⟨60 :: 60 :: ([10] ++ (d ++ [62, 62])), [10], ?_, ?_, Or.inr rfl⟩
    · simp [serialize, hs]
    · simp only [SpellsS]; exact ⟨[10], d ++ [62, 62], rfl, Gap.ws 10 [] (by decide) Gap.nil, hd⟩
  | stream info inner =>
    simp only [Storable] at h
    obtain ⟨data, rfl, hinfo, hlen⟩ := h
    obtain ⟨d, hd, hs⟩ := serializeEntries_spellsS fmt env info hinfo
    have hnl : Gap [10] := Gap.ws 10 [] (by decide) Gap.nil
    refine ⟨60 :: 60 :: ([10] ++ (d ++ [62, 62]) ++ [10] ++ PdfSyntax.kwStream ++ [10] ++ data ++ [10] ++ PdfSyntax.kwEndstream),
      [10], ?_, ?_, Or.inr rfl⟩
    · simp [serialize, hs, PdfSyntax.kwStream, PdfSyntax.kwEndstream, kwStream, kwEndstream]
    · simp only [SpellsS]
      exact ⟨data, rfl, [10], d ++ [62, 62], [10], [10], [10], rfl, hnl, hd, hnl, Or.inl rfl, hnl, hlen⟩

theorem serializeList_spellsS (fmt : R → List UInt8) (env : Env R) (xs : List (Prim R)) :
    StorableL fmt env xs → ∀ (first : Bool), ∃ r, SpellsElemsS env xs r ∧
      serializeList fmt xs first = .ok ((if first || xs.isEmpty then [] else [32]) ++ r) := by
  intro h first
  cases xs with
  | nil => exact ⟨[93], by simp [SpellsElemsS], by simp [serializeList]⟩
  | cons x xs =>
    simp only [StorableL] at h
    obtain ⟨tx, trail, h1, h2, h3⟩ := serialize_spellsS fmt env x h.1
    obtain ⟨r', hr', hs'⟩ := serializeList_spellsS fmt env xs h.2 false
    refine ⟨tx ++ (trail ++ (if xs.isEmpty then [] else [32])) ++ r', ?_, ?_⟩
    · simp only [SpellsElemsS]
      refine ⟨tx, trail ++ (if xs.isEmpty then [] else [32]), r', rfl, h2, ?_, hr', ?_⟩
      · apply gap_append (gap_trail h3)
        split
        · exact Gap.nil
        · exact Gap.ws 32 [] (by decide) Gap.nil
      · intro _
        apply bnd_trail_sep trail _ r' h3
        · split
          · exact Or.inl rfl
          · exact Or.inr rfl
        · intro he
          cases xs with
          | nil => simp only [SpellsElemsS] at hr'; subst hr'; simp [Bnd]; decide
          | cons y ys => simp at he
    · simp only [serializeList, h1, Out.bind_ok, hs']
      cases first <;> simp

theorem serializeEntries_spellsS (fmt : R → List UInt8) (env : Env R) (kvs : List (List UInt8 × Prim R)) :
    StorableE fmt env kvs → ∃ d, SpellsEntriesS env kvs (d ++ [62, 62]) ∧ serializeEntries fmt kvs = .ok d := by
  intro h
  cases kvs with
  | nil => exact ⟨[], by simp [SpellsEntriesS], by simp [serializeEntries]⟩
  | cons kv kvs =>
    obtain ⟨k, v⟩ := kv
    simp only [StorableE] at h
    obtain ⟨tv, trail, h1, h2, h3⟩ := serialize_spellsS fmt env v h.1
    obtain ⟨d', hd', hs'⟩ := serializeEntries_spellsS fmt env kvs h.2
    refine ⟨serializeName k ++ [32] ++ (tv ++ trail) ++ [10] ++ d', ?_, ?_⟩
    · simp only [SpellsEntriesS]
      refine ⟨k.flatMap nameEscape, [32], tv, trail ++ [10], d' ++ [62, 62], by simp [serializeName], serializeName_body k,
        Gap.ws 32 [] (by decide) Gap.nil, by simp [Bnd]; decide, h2, ?_, hd', ?_⟩
      · exact gap_append (gap_trail h3) (Gap.ws 10 [] (by decide) Gap.nil)
      · intro _
        rcases h3 with rfl | rfl <;> (simp [Bnd]; decide)
    · simp only [serializeEntries, h1, Out.bind_ok, hs']

end


/-- `n g obj <value with streams anywhere> endobj` -/
theorem parseIndirectObject_spellsS (env : Env R) (hd : env.decrypt = none) (v : Prim R) (txt : List UInt8)
    (hsp : SpellsS env v txt) (hwf : WF v) {buf : Buf} (hsz : buf.size ≤ 2147483647)
    (g0 a g1 b g2 g3 g4 rest : List UInt8) (id gen pos fuel : Nat) (hg0 : Gap g0)
    (ha : NatTok a id) (hb : NatTok b gen) (hg1 : Gap g1) (hg1ne : g1 ≠ []) (hg2 : Gap g2) (hg2ne : g2 ≠ [])
    (hid : id ≤ 18446744073709551615) (hgen : gen ≤ 18446744073709551615) (hg3 : Gap g3) (hg4 : Gap g4)
    (h : Suffix buf pos (g0 ++ a ++ g1 ++ b ++ g2 ++ kwObj ++ g3 ++ txt ++ g4 ++ kwEndobj ++ rest))
    (hb3 : Bnd (g3 ++ txt)) (hb4 : needsBnd v = true → g4 ≠ []) (hbnd : Bnd rest)
    (hfuel : need v ≤ fuel) (hdepth : vdepth v ≤ maxDepth) (flags : Nat) (hfl : flags &&& flagOf v ≠ 0) :
    ∃ p, parseIndirectObject env buf fuel pos flags =
        .ok (((id, gen), p), pos + (g0 ++ a ++ g1 ++ b ++ g2 ++ kwObj ++ g3 ++ txt ++ g4 ++ kwEndobj).length) ∧
      Reads env buf (id, gen) p v := by
  have hne : g3 ++ txt ≠ [] := by simp [spellsS_ne_nil env v txt hsp]
  have hhead := parseObjHeader_spec g0 a g1 b g2 (g3 ++ txt ++ g4 ++ kwEndobj ++ rest) id gen pos hg0 ha hb hg1 hg1ne hg2
    hg2ne hid hgen (by simpa using h) (by simpa using bnd_append (t := g4 ++ kwEndobj ++ rest) hb3 hne)
  have h2 : Suffix buf (pos + (g0 ++ a ++ g1 ++ b ++ g2 ++ kwObj).length) (g3 ++ txt ++ (g4 ++ kwEndobj ++ rest)) := by
    have := Suffix.drop (a := g0 ++ a ++ g1 ++ b ++ g2 ++ kwObj) (s := g3 ++ txt ++ (g4 ++ kwEndobj ++ rest)) (by simpa using h)
    simpa using this
  have h3 : Suffix buf (pos + (g0 ++ a ++ g1 ++ b ++ g2 ++ kwObj).length + g3.length + txt.length) (g4 ++ kwEndobj ++ rest) := by
    have := Suffix.drop (a := g3 ++ txt) (by simpa using h2)
    simpa [Nat.add_assoc] using this
  obtain ⟨p, hv, hp⟩ := parseCtx_spellsS env hd v txt hsp hwf hsz g3 (g4 ++ kwEndobj ++ rest) _ fuel (id, gen) maxDepth flags hg3 hfl h2
    (fun hbv => by simpa using gap_bnd hg4 (hb4 hbv) (kwEndobj ++ rest))
    (ahead_endobj g4 rest _ hg4 h3 hbnd) hfuel hdepth
  have he := nextExpect_regular g4 kwEndobj rest _ hg4 h3 (by decide) kw_endobj_regular hbnd
  refine ⟨p, ?_, hp⟩
  simp only [parseIndirectObject, hhead, Out.bind_ok, hv, he]
  cases env.allowMissingEndobj <;> simp <;> omega


/-! ### without streams `Reads` is equality; `Serialisable` values are `Storable` values without streams -/

mutual
/-- no stream object anywhere in the value -/
def noStreams : Prim R → Bool
  | .stream _ _ => false
  | .arr xs => noStreamsL xs
  | .dict kvs => noStreamsE kvs
  | _ => true
def noStreamsL : List (Prim R) → Bool
  | [] => true
  | x :: xs => noStreams x && noStreamsL xs
def noStreamsE : List (List UInt8 × Prim R) → Bool
  | [] => true
  | (_, v) :: rest => noStreams v && noStreamsE rest
end

open PdfSyntax (ReadsL ReadsE) in
mutual
theorem reads_eq_of_noStreams (env : Env R) (buf : Buf) (id : Nat × Nat) :
    ∀ (v p : Prim R), Reads env buf id p v → noStreams v = true → p = v
  | .stream info inner, p => fun _ h => by simp [noStreams] at h
  | .arr xs, p => fun h hn => by
      simp only [Reads] at h; obtain ⟨ps, rfl, hl⟩ := h
      simp only [noStreams] at hn
      rw [readsL_eq_of_noStreams env buf id xs ps hl hn]
  | .dict kvs, p => fun h hn => by
      simp only [Reads] at h; obtain ⟨ps, rfl, hl⟩ := h
      simp only [noStreams] at hn
      rw [readsE_eq_of_noStreams env buf id kvs ps hl hn]
  | .null, p => fun h _ => by simpa [Reads] using h
  | .int i, p => fun h _ => by simpa [Reads] using h
  | .real r, p => fun h _ => by simpa [Reads] using h
  | .bool b, p => fun h _ => by simpa [Reads] using h
  | .str s, p => fun h _ => by simpa [Reads] using h
  | .ref a b, p => fun h _ => by simpa [Reads] using h
  | .name n, p => fun h _ => by simpa [Reads] using h
theorem readsL_eq_of_noStreams (env : Env R) (buf : Buf) (id : Nat × Nat) :
    ∀ (xs ps : List (Prim R)), ReadsL env buf id ps xs → noStreamsL xs = true → ps = xs
  | [], ps => fun h _ => by simpa [ReadsL] using h
  | x :: xs, ps => fun h hn => by
      simp only [ReadsL] at h; obtain ⟨p, ps', rfl, hp, hl⟩ := h
      simp only [noStreamsL, Bool.and_eq_true] at hn
      rw [reads_eq_of_noStreams env buf id x p hp hn.1, readsL_eq_of_noStreams env buf id xs ps' hl hn.2]
theorem readsE_eq_of_noStreams (env : Env R) (buf : Buf) (id : Nat × Nat) :
    ∀ (kvs ps : List (List UInt8 × Prim R)), ReadsE env buf id ps kvs → noStreamsE kvs = true → ps = kvs
  | [], ps => fun h _ => by simpa [ReadsE] using h
  | (k, v) :: rest, ps => fun h hn => by
      simp only [ReadsE] at h; obtain ⟨p, ps', rfl, hp, hl⟩ := h
      simp only [noStreamsE, Bool.and_eq_true] at hn
      rw [reads_eq_of_noStreams env buf id v p hp hn.1, readsE_eq_of_noStreams env buf id rest ps' hl hn.2]
end

mutual
theorem storable_of_serialisable (fmt : R → List UInt8) (env : Env R) :
    ∀ v : Prim R, Serialisable fmt env.parseReal v → Storable fmt env v ∧ noStreams v = true
  | .stream info inner => fun h => by simp [Serialisable] at h
  | .arr xs => fun h => by
      simp only [Serialisable] at h; simpa [Storable, noStreams] using storableL_of_serialisable fmt env xs h
  | .dict kvs => fun h => by
      simp only [Serialisable] at h; simpa [Storable, noStreams] using storableE_of_serialisable fmt env kvs h
  | .null => fun _ => by simp [Storable, noStreams]
  | .int i => fun h => by simpa [Storable, Serialisable, noStreams] using h
  | .real r => fun h => by simpa [Storable, Serialisable, noStreams] using h
  | .bool b => fun _ => by simp [Storable, noStreams]
  | .str s => fun _ => by simp [Storable, noStreams]
  | .ref a b => fun h => by simpa [Storable, Serialisable, noStreams] using h
  | .name n => fun _ => by simp [Storable, noStreams]
theorem storableL_of_serialisable (fmt : R → List UInt8) (env : Env R) :
    ∀ xs : List (Prim R), SerialisableL fmt env.parseReal xs → StorableL fmt env xs ∧ noStreamsL xs = true
  | [] => fun _ => by simp [StorableL, noStreamsL]
  | x :: xs => fun h => by
      simp only [SerialisableL] at h
      have h1 := storable_of_serialisable fmt env x h.1
      have h2 := storableL_of_serialisable fmt env xs h.2
      simp [StorableL, noStreamsL, h1.1, h1.2, h2.1, h2.2]
theorem storableE_of_serialisable (fmt : R → List UInt8) (env : Env R) :
    ∀ kvs : List (List UInt8 × Prim R), SerialisableE fmt env.parseReal kvs → StorableE fmt env kvs ∧ noStreamsE kvs = true
  | [] => fun _ => by simp [StorableE, noStreamsE]
  | (k, v) :: rest => fun h => by
      simp only [SerialisableE] at h
      have h1 := storable_of_serialisable fmt env v h.1
      have h2 := storableE_of_serialisable fmt env rest h.2
      simp [StorableE, noStreamsE, h1.1, h1.2, h2.1, h2.2]
end

end PdfLex
