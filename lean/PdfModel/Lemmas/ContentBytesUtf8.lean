import PdfModel.Model.ContentBytes

/-! C08 byte level: the UTF-8 bytes of a Lean `String` (a list of Unicode scalar values encoded by
    `String.utf8EncodeChar`) pass the shared model's `utf8Valid` (`str::from_utf8`, Unicode table 3-7): names and
    keywords of `Model/Content` are values of the Rust type `Name`. -/

namespace ContentBytes
open PdfLex

theorem u8_ofNat_toNat (n : Nat) (h : n < 256) : (UInt8.ofNat n).toNat = n := by
  simp [UInt8.toNat_ofNat']; omega

/-- a byte given by a natural number below 256 lies between two literal bytes when the number does -/
theorem u8_between (n lo hi : Nat) (h : n < 256) (h1 : lo ≤ n) (h2 : n ≤ hi) (h3 : hi < 256) :
    UInt8.ofNat lo ≤ UInt8.ofNat n ∧ UInt8.ofNat n ≤ UInt8.ofNat hi := by
  rw [UInt8.le_iff_toNat_le, UInt8.le_iff_toNat_le, u8_ofNat_toNat n h, u8_ofNat_toNat lo (by omega), u8_ofNat_toNat hi h3]
  exact ⟨h1, h2⟩

theorem u8_ne (n k : Nat) (h : n < 256) (hk : k < 256) (hne : n ≠ k) : UInt8.ofNat n ≠ UInt8.ofNat k := by
  intro e
  have := congrArg UInt8.toNat e
  rw [u8_ofNat_toNat n h, u8_ofNat_toNat k hk] at this
  exact hne this

theorem lt128_of (b : UInt8) (h : b ≤ UInt8.ofNat 127) : b < 128 := by
  rw [UInt8.lt_iff_toNat_lt]; rw [UInt8.le_iff_toNat_le] at h; exact Nat.lt_of_le_of_lt h (by decide)

theorem not_lt128_of (b : UInt8) (h : UInt8.ofNat 128 ≤ b) : ¬ b < 128 := by
  rw [UInt8.lt_iff_toNat_lt]; rw [UInt8.le_iff_toNat_le] at h
  have : (UInt8.ofNat 128).toNat = 128 := rfl
  have : (128 : UInt8).toNat = 128 := rfl
  omega

theorem utf8Valid_ascii (b : UInt8) (rest : List UInt8) (h : b < 128) : utf8Valid (b :: rest) = utf8Valid rest := by
  rcases rest with _ | ⟨b1, _ | ⟨b2, _ | ⟨b3, r⟩⟩⟩ <;> simp [utf8Valid, h]

theorem utf8Valid_char (c : Char) (rest : List UInt8) :
    utf8Valid (String.utf8EncodeChar c ++ rest) = utf8Valid rest := by
  have hv := c.valid
  simp only [Nat.isValidChar, UInt32.isValidChar] at hv
  unfold String.utf8EncodeChar
  simp only
  generalize hvn : c.val.toNat = v at *
  by_cases h1 : v ≤ 127
  · simp only [h1, if_true, List.cons_append, List.nil_append]
    obtain ⟨_, a⟩ := u8_between v 0 127 (by omega) (by omega) h1 (by decide)
    generalize UInt8.ofNat v = b0 at a
    have := lt128_of b0 a
    exact utf8Valid_ascii b0 rest this
  · by_cases h2 : v ≤ 2047
    · simp only [h1, h2, if_true, if_false, List.cons_append, List.nil_append]
      obtain ⟨a2, a3⟩ := u8_between (v / 64 % 32 + 192) 194 223 (by omega) (by omega) (by omega) (by decide)
      obtain ⟨a4, a5⟩ := u8_between (v % 64 + 128) 128 191 (by omega) (by omega) (by omega) (by decide)
      generalize UInt8.ofNat (v / 64 % 32 + 192) = b0 at a2 a3
      generalize UInt8.ofNat (v % 64 + 128) = b1 at a4 a5
      have a1 : ¬ b0 < 128 := not_lt128_of b0 (UInt8.le_trans (by decide) a2)
      have a2' : (194 : UInt8) ≤ b0 := a2
      have a3' : b0 ≤ (223 : UInt8) := a3
      have a4' : (128 : UInt8) ≤ b1 := a4
      have a5' : b1 ≤ (191 : UInt8) := a5
      simp [utf8Valid, a1, isCont, a2', a3', a4', a5']
    · by_cases h3 : v ≤ 65535
      · simp only [h1, h2, h3, if_true, if_false, List.cons_append, List.nil_append]
        obtain ⟨a2, a3⟩ := u8_between (v / 4096 % 16 + 224) 224 239 (by omega) (by omega) (by omega) (by decide)
        obtain ⟨a6, a7⟩ := u8_between (v % 64 + 128) 128 191 (by omega) (by omega) (by omega) (by decide)
        by_cases e0 : v / 4096 % 16 = 0
        · -- E0: second byte A0..BF
          obtain ⟨a4, a5⟩ := u8_between (v / 64 % 64 + 128) 160 191 (by omega) (by omega) (by omega) (by decide)
          have e224 : UInt8.ofNat (v / 4096 % 16 + 224) = 224 := by rw [e0]; rfl
          generalize UInt8.ofNat (v / 64 % 64 + 128) = b1 at a4 a5
          generalize UInt8.ofNat (v % 64 + 128) = b2 at a6 a7
          rw [e224]
          have a4' : (160 : UInt8) ≤ b1 := a4
          have a5' : b1 ≤ (191 : UInt8) := a5
          have a6' : (128 : UInt8) ≤ b2 := a6
          have a7' : b2 ≤ (191 : UInt8) := a7
          simp [utf8Valid, isCont, a4', a5', a6', a7']
        · by_cases e13 : v / 4096 % 16 = 13
          · -- ED: second byte 80..9F (no surrogates)
            obtain ⟨a4, a5⟩ := u8_between (v / 64 % 64 + 128) 128 159 (by omega) (by omega) (by omega) (by decide)
            have e237 : UInt8.ofNat (v / 4096 % 16 + 224) = 237 := by rw [e13]; rfl
            generalize UInt8.ofNat (v / 64 % 64 + 128) = b1 at a4 a5
            generalize UInt8.ofNat (v % 64 + 128) = b2 at a6 a7
            rw [e237]
            have a4' : (128 : UInt8) ≤ b1 := a4
            have a5' : b1 ≤ (159 : UInt8) := a5
            have a6' : (128 : UInt8) ≤ b2 := a6
            have a7' : b2 ≤ (191 : UInt8) := a7
            simp [utf8Valid, isCont, a4', a5', a6', a7']
          · obtain ⟨a4, a5⟩ := u8_between (v / 64 % 64 + 128) 128 191 (by omega) (by omega) (by omega) (by decide)
            have n224 := u8_ne (v / 4096 % 16 + 224) 224 (by omega) (by decide) (by omega)
            have n237 := u8_ne (v / 4096 % 16 + 224) 237 (by omega) (by decide) (by omega)
            generalize UInt8.ofNat (v / 4096 % 16 + 224) = b0 at a2 a3 n224 n237
            generalize UInt8.ofNat (v / 64 % 64 + 128) = b1 at a4 a5
            generalize UInt8.ofNat (v % 64 + 128) = b2 at a6 a7
            have a1 : ¬ b0 < 128 := not_lt128_of b0 (UInt8.le_trans (by decide) a2)
            have a2' : (224 : UInt8) ≤ b0 := a2
            have a3' : b0 ≤ (239 : UInt8) := a3
            have a4' : (128 : UInt8) ≤ b1 := a4
            have a5' : b1 ≤ (191 : UInt8) := a5
            have a6' : (128 : UInt8) ≤ b2 := a6
            have a7' : b2 ≤ (191 : UInt8) := a7
            have n1 : ¬ (b0 = 224) := n224
            have n2 : ¬ (b0 = 237) := n237
            have x1 : ¬ ((194 : UInt8) ≤ b0 ∧ b0 ≤ 223) := by
              intro h
              have := UInt8.le_trans a2' h.2
              exact absurd this (by decide)
            simp [utf8Valid, isCont, a1, x1, a2', a3', a4', a5', a6', a7', n1, n2]
      · simp only [h1, h2, h3, if_false, List.cons_append, List.nil_append]
        have hv' : v < 1114112 := by omega
        obtain ⟨a2, a3⟩ := u8_between (v / 262144 % 8 + 240) 240 244 (by omega) (by omega) (by omega) (by decide)
        obtain ⟨a6, a7⟩ := u8_between (v / 64 % 64 + 128) 128 191 (by omega) (by omega) (by omega) (by decide)
        obtain ⟨a8, a9⟩ := u8_between (v % 64 + 128) 128 191 (by omega) (by omega) (by omega) (by decide)
        by_cases e0 : v / 262144 % 8 = 0
        · obtain ⟨a4, a5⟩ := u8_between (v / 4096 % 64 + 128) 144 191 (by omega) (by omega) (by omega) (by decide)
          have e240 : UInt8.ofNat (v / 262144 % 8 + 240) = 240 := by rw [e0]; rfl
          generalize UInt8.ofNat (v / 4096 % 64 + 128) = b1 at a4 a5
          generalize UInt8.ofNat (v / 64 % 64 + 128) = b2 at a6 a7
          generalize UInt8.ofNat (v % 64 + 128) = b3 at a8 a9
          rw [e240]
          have a4' : (144 : UInt8) ≤ b1 := a4
          have a5' : b1 ≤ (191 : UInt8) := a5
          have a6' : (128 : UInt8) ≤ b2 := a6
          have a7' : b2 ≤ (191 : UInt8) := a7
          have a8' : (128 : UInt8) ≤ b3 := a8
          have a9' : b3 ≤ (191 : UInt8) := a9
          simp [utf8Valid, isCont, a4', a5', a6', a7', a8', a9']
        · by_cases e4 : v / 262144 % 8 = 4
          · obtain ⟨a4, a5⟩ := u8_between (v / 4096 % 64 + 128) 128 143 (by omega) (by omega) (by omega) (by decide)
            have e244 : UInt8.ofNat (v / 262144 % 8 + 240) = 244 := by rw [e4]; rfl
            generalize UInt8.ofNat (v / 4096 % 64 + 128) = b1 at a4 a5
            generalize UInt8.ofNat (v / 64 % 64 + 128) = b2 at a6 a7
            generalize UInt8.ofNat (v % 64 + 128) = b3 at a8 a9
            rw [e244]
            have a4' : (128 : UInt8) ≤ b1 := a4
            have a5' : b1 ≤ (143 : UInt8) := a5
            have a6' : (128 : UInt8) ≤ b2 := a6
            have a7' : b2 ≤ (191 : UInt8) := a7
            have a8' : (128 : UInt8) ≤ b3 := a8
            have a9' : b3 ≤ (191 : UInt8) := a9
            simp [utf8Valid, isCont, a4', a5', a6', a7', a8', a9']
          · obtain ⟨a4, a5⟩ := u8_between (v / 4096 % 64 + 128) 128 191 (by omega) (by omega) (by omega) (by decide)
            have n240 := u8_ne (v / 262144 % 8 + 240) 240 (by omega) (by decide) (by omega)
            have n244 := u8_ne (v / 262144 % 8 + 240) 244 (by omega) (by decide) (by omega)
            generalize UInt8.ofNat (v / 262144 % 8 + 240) = b0 at a2 a3 n240 n244
            generalize UInt8.ofNat (v / 4096 % 64 + 128) = b1 at a4 a5
            generalize UInt8.ofNat (v / 64 % 64 + 128) = b2 at a6 a7
            generalize UInt8.ofNat (v % 64 + 128) = b3 at a8 a9
            have a1 : ¬ b0 < 128 := not_lt128_of b0 (UInt8.le_trans (by decide) a2)
            have a2' : (240 : UInt8) ≤ b0 := a2
            have a3' : b0 ≤ (244 : UInt8) := a3
            have a4' : (128 : UInt8) ≤ b1 := a4
            have a5' : b1 ≤ (191 : UInt8) := a5
            have a6' : (128 : UInt8) ≤ b2 := a6
            have a7' : b2 ≤ (191 : UInt8) := a7
            have a8' : (128 : UInt8) ≤ b3 := a8
            have a9' : b3 ≤ (191 : UInt8) := a9
            have n1 : ¬ (b0 = 240) := n240
            have n2 : ¬ (b0 = 244) := n244
            have x1 : ¬ ((194 : UInt8) ≤ b0 ∧ b0 ≤ 223) := by
              intro h
              exact absurd (UInt8.le_trans a2' h.2) (by decide)
            have x2 : ¬ ((224 : UInt8) ≤ b0 ∧ b0 ≤ 239) := by
              intro h
              exact absurd (UInt8.le_trans a2' h.2) (by decide)
            simp [utf8Valid, isCont, a1, x1, x2, a2', a3', a4', a5', a6', a7', a8', a9', n1, n2]

theorem utf8Valid_chars (m : List Char) : utf8Valid (m.flatMap String.utf8EncodeChar) = true := by
  induction m with
  | nil => rfl
  | cons c m ih => rw [List.flatMap_cons, utf8Valid_char, ih]

/-- the UTF-8 bytes of a Lean string pass the model's `str::from_utf8` check -/
theorem utf8Valid_strBytes (s : String) : utf8Valid (strBytes s) = true := by
  obtain ⟨m, hm⟩ := s.isValidUTF8
  unfold strBytes
  have : s.toUTF8 = m.utf8Encode := hm
  rw [this]
  simp only [List.utf8Encode]
  simpa using utf8Valid_chars m

end ContentBytes
