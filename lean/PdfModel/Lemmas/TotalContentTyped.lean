import PdfModel.Model.ContentBytes
import PdfModel.Lemmas.TotalContent

/-!
  `content::parse_ops` WITH the typed conversion of the operators is total (C01; the model is C08's
  `Model/ContentBytes.parseBytes` over `Model/Content.add`: all 73 operators, their operand conversions, the
  graphics-state bookkeeping).

  `Lemmas/TotalContent` proves the loop over an oracle for "did the operands convert". Here the conversion is the
  model itself: for EVERY byte string, both option sets, every error-kind oracle and every inline-image reader that
  stays inside the data, `parse_ops` returns the operations or `Err` within `len + 1` rounds.
-/

namespace ContentBytes
open Content PdfLex

variable {R : Type}

theorem step_returns (ro : RealOps R) (allow : Bool) (c : PCfg R) (t : Tok R) :
    (∃ c', Content.step ro allow c t = .ok c') ∨ Content.step ro allow c t = .err := by
  unfold Content.step
  split
  · exact Or.inl ⟨_, rfl⟩
  · simp only []; split
    · exact Or.inl ⟨_, rfl⟩
    · exact Or.inr rfl
  · exact Or.inl ⟨_, rfl⟩
  · split
    · exact Or.inl ⟨_, rfl⟩
    · exact Or.inr rfl
  · exact Or.inr rfl

/-- the inline-image reader below the loop: an image (or a failure the loop may skip) and a cursor inside the data,
    or `Err` (`Lemmas/TotalContent.inlineImage_spec` proves this of `inline_image`'s position arithmetic) -/
def ImgOk (o : Oracle) : Prop :=
  ∀ (buf : Buf) (pos : Nat), pos ≤ buf.size →
    o.inlineImage buf pos = .err ∨ ∃ img p, o.inlineImage buf pos = .ok (img, p) ∧ pos ≤ p ∧ p ≤ buf.size

/-- one round: `Err`, `break`, or a builder and a cursor strictly further, inside the data -/
theorem bytesStep_spec (ro : RealOps R) (env : Env R) (henv : EnvOk env) (o : Oracle) (ho : ImgOk o) (allow : Bool)
    (buf : Buf) (hs : RealSize buf) (c : PCfg R) (pos : Nat) (h : pos ≤ buf.size) :
    bytesStep ro env o allow buf c pos = .err ∨ bytesStep ro env o allow buf c pos = .ok none ∨
    ∃ c' p, bytesStep ro env o allow buf c pos = .ok (some (c', p)) ∧ pos < p ∧ p ≤ buf.size := by
  unfold bytesStep
  rcases parseWithLexer_good env henv buf hs (defaultFuel buf) pos Flags.any h
      (by have := defaultFuel_enough buf pos; omega) with he | ⟨v, p, hp, h1, h2⟩
  · rw [he]; simp only []
    split
    · right; left; rfl
    · rw [setPos_spec buf pos pos h]; simp only [Out.bind_ok]
      have hmin : min pos buf.size = pos := by omega
      rw [hmin]
      rcases next_spec buf pos h with he | ⟨w, hw, a1, a2, a3⟩
      · left; simp [he]
      · rw [hw]; simp only [Out.bind_ok]
        split
        · left; rfl
        · split
          · rcases ho buf w.2 a3 with hi | ⟨img, q, hq, q1, q2⟩
            · left; simp [hi]
            · rw [hq]; simp only [Out.bind_ok]
              rcases step_returns ro allow c (.bi img) with ⟨c', hc⟩ | hc
              · rw [hc]; right; right; exact ⟨c', q, rfl, by omega, q2⟩
              · rw [hc]; left; rfl
          · rename_i s _ _
            rcases step_returns ro allow c (.kw s) with ⟨c', hc⟩ | hc
            · rw [hc]; right; right; exact ⟨c', w.2, rfl, by omega, a3⟩
            · rw [hc]; left; rfl
  · rw [hp]; simp only []
    split
    · right; right; exact ⟨_, p, rfl, h1, h2⟩
    · left; rfl

theorem bytesLoop_spec (ro : RealOps R) (env : Env R) (henv : EnvOk env) (o : Oracle) (ho : ImgOk o) (allow : Bool)
    (buf : Buf) (hs : RealSize buf) (fuel : Nat) (c : PCfg R) (pos : Nat) (h : pos ≤ buf.size)
    (hf : buf.size - pos < fuel) :
    bytesLoop ro env o allow buf fuel c pos = .err ∨ ∃ c', bytesLoop ro env o allow buf fuel c pos = .ok c' := by
  induction fuel generalizing c pos with
  | zero => omega
  | succ fuel ih =>
    unfold bytesLoop
    rcases bytesStep_spec ro env henv o ho allow buf hs c pos h with he | he | ⟨c', p, hp, h1, h2⟩
    · left; simp [he]
    · right; rw [he]; exact ⟨c, rfl⟩
    · rw [hp]; simp only []
      have hn : ¬ p > buf.size := by omega
      simp only [hn, if_false]
      by_cases hlt : p < buf.size
      · simp only [hlt, if_true]
        exact ih c' p h2 (by omega)
      · simp only [hlt, if_false]
        right; exact ⟨c', rfl⟩

/-- **`parse_ops` with the typed conversion of every operator answers on every byte string.** -/
theorem parseBytes_total (ro : RealOps R) (env : Env R) (henv : EnvOk env) (o : Oracle) (ho : ImgOk o) (allow : Bool)
    (data : List UInt8) (hs : RealSize data.toArray) : (parseBytes ro env o allow data).Returns := by
  unfold parseBytes
  simp only []
  rcases bytesLoop_spec ro env henv o ho allow data.toArray hs (data.toArray.size + 1) ⟨initState ro, []⟩ 0
      (Nat.zero_le _) (by omega) with he | ⟨c, hc⟩
  · rw [he]; simp [Out.Returns]
  · rw [hc]; simp [Out.Returns]

end ContentBytes
