import PdfModel.Model.ConcurrentLocks
import PdfModel.Lemmas.ConcurrentLive
import PdfModel.Lemmas.ConcurrentLazyLive

/-! Invariants of the explicit-lock system `Model/ConcurrentLocks.lean` (the code under test: `logUnderLock = false`):
a thread that holds a mutex is at a control point whose step takes exactly that mutex, is therefore not inside
user code, and can take its step whatever the others do; no mutex has two holders. -/

namespace Conc
open Cache
variable {V E : Type}

/-- a slot that holds a value keeps holding one -/
theorem stepT_computed {d : Doc V E} {cfg : Cfg} {i : Nat} {sh sh' : Shared V E} {t t' : Thread V E}
    (hs : stepT d cfg i sh t = some (sh', t')) (r : Nat) (T : Nat) (res : Res V E)
    (h : sh.slots.lookup r = some (.computed T res)) : ∃ T' res', sh'.slots.lookup r = some (.computed T' res') := by
  obtain ⟨ctl, stack, chain, todo, out⟩ := t
  have same : ∀ (x : Shared V E × Thread V E), some x = some (sh', t') → x.1.slots = sh.slots →
      ∃ T' res', sh'.slots.lookup r = some (.computed T' res') := by
    intro x hx h1
    simp only [Option.some.injEq] at hx
    subst hx
    exact ⟨T, res, by rw [h1]; exact h⟩
  cases ctl with
  | done => simp [stepT] at hs
  | panicked => simp [stepT] at hs
  | start =>
    cases todo with
    | nil => simp only [stepT] at hs; exact same _ hs rfl
    | cons p ps => simp only [stepT] at hs; exact same _ hs (runTo_store d cfg sh _ p).1
  | logging T0 r0 k => simp only [stepT] at hs; exact same _ hs rfl
  | loading r0 p => simp only [stepT] at hs; exact same _ hs (runTo_store d cfg sh _ p).1
  | enter T0 r0 k =>
    simp only [stepT] at hs
    split at hs
    · split at hs
      · exact same _ hs rfl
      · split at hs
        · exact same _ hs (runTo_store d cfg sh _ _).1
        · split at hs
          · exact same _ hs (runTo_store d cfg sh _ _).1
          · exact same _ hs rfl
    · split at hs
      · exact same _ hs (runTo_store d cfg sh _ _).1
      · split at hs
        · exact same _ hs (runTo_store d cfg sh _ _).1
        · exact same _ hs rfl
  | pushed T0 r0 k =>
    simp only [stepT] at hs
    split at hs
    · split at hs
      · rename_i hl
        simp only [Option.some.injEq] at hs
        have h1 := (startLoad_store d cfg { sh with slots := (r0, .inProcess i) :: sh.slots }
          ⟨.pushed T0 r0 k, ⟨T0, r0, true, k⟩ :: stack, chain, todo, out⟩ r0 (d.compute T0 r0)).1
        rw [hs] at h1
        simp only at h1
        refine ⟨T, res, ?_⟩
        rw [h1]
        simp only [List.lookup_cons]
        by_cases e : r = r0
        · subst e; rw [hl] at h; cases h
        · have : (r == r0) = false := by simpa using e
          rw [this]; exact h
      · exact same _ hs rfl
      · exact same _ hs (afterLookup_store d cfg sh _ T0 r0 k _ _).1
    · exact same _ hs (startLoad_store d cfg sh _ _ _).1
  | waiting T0 r0 k =>
    simp only [stepT] at hs
    split at hs
    · exact same _ hs (afterLookup_store d cfg sh _ T0 r0 k _ _).1
    · simp at hs
  | storing res0 =>
    cases stack with
    | nil => simp [stepT] at hs
    | cons g rest =>
      simp only [stepT, Option.some.injEq, Prod.mk.injEq] at hs
      obtain ⟨e1, _⟩ := hs
      subst e1
      simp only [List.lookup_cons]
      by_cases e : r = g.r
      · subst e; exact ⟨g.T, res0, by simp⟩
      · have : (r == g.r) = false := by simpa using e
        rw [this]; exact ⟨T, res, h⟩
  | popping T0 r0 k res0 =>
    simp only [stepT] at hs
    split at hs
    · split at hs
      · exact same _ hs rfl
      · split at hs
        · split at hs
          · exact same _ hs (runTo_store d cfg _ _ _).1
          · exact same _ hs rfl
        · exact same _ hs rfl
    · split at hs
      · split at hs
        · exact same _ hs (runTo_store d cfg sh _ _).1
        · exact same _ hs rfl
      · exact same _ hs rfl

/-- when can a thread take its step: it is not finished, a store has its frame, a waiting thread's slot is stored -/
theorem stepT_isSome_iff (d : Doc V E) (cfg : Cfg) (i : Nat) (sh : Shared V E) (t : Thread V E) :
    (stepT d cfg i sh t).isSome = true ↔
      (t.ctl.isFinal = false ∧ (∀ res, t.ctl = .storing res → t.stack ≠ []) ∧
        (∀ T r k, t.ctl = .waiting T r k → ∃ T' res, sh.slots.lookup r = some (.computed T' res))) := by
  constructor
  · intro h
    obtain ⟨ctl, stack, chain, todo, out⟩ := t
    cases ctl with
    | done => simp [stepT] at h
    | panicked => simp [stepT] at h
    | waiting T r k =>
      refine ⟨rfl, (by intro res e; cases e), ?_⟩
      intro T1 r1 k1 e
      cases e
      simp only [stepT] at h
      split at h
      · rename_i T' res hl; exact ⟨T', res, hl⟩
      · simp at h
    | storing res =>
      refine ⟨rfl, ?_, (by intro T r k e; cases e)⟩
      intro res1 e
      cases stack with
      | nil => simp [stepT] at h
      | cons f rest => simp
    | start => exact ⟨rfl, (by intro res e; cases e), (by intro T r k e; cases e)⟩
    | logging T r k => exact ⟨rfl, (by intro res e; cases e), (by intro T r k e; cases e)⟩
    | loading r p => exact ⟨rfl, (by intro res e; cases e), (by intro T r k e; cases e)⟩
    | enter T r k => exact ⟨rfl, (by intro res e; cases e), (by intro T r k e; cases e)⟩
    | pushed T r k => exact ⟨rfl, (by intro res e; cases e), (by intro T r k e; cases e)⟩
    | popping T r k res => exact ⟨rfl, (by intro res e; cases e), (by intro T r k e; cases e)⟩
  · intro ⟨h1, h2, h3⟩
    exact stepT_enabled d cfg i sh t h1 h2 h3

/-- a step of another thread never disables a thread -/
theorem step_enabled_stable {d : Doc V E} {cfg : Cfg} {s s' : State V E} {i j : Nat} (hs : step d cfg s i = some s')
    (hj : j ≠ i) (h : (step d cfg s j).isSome = true) : (step d cfg s' j).isSome = true := by
  have hth := step_other hs j hj
  unfold step at hs
  cases hti : s.threads[i]? with
  | none => simp [hti] at hs
  | some t =>
    simp only [hti] at hs
    cases hst : stepT d cfg i s.sh t with
    | none => simp [hst] at hs
    | some x =>
      obtain ⟨sh', t'⟩ := x
      simp only [hst, Option.some.injEq] at hs
      subst hs
      simp only at hth
      unfold step at h ⊢
      rw [hth]
      cases htj : s.threads[j]? with
      | none => simp [htj] at h
      | some u =>
        simp only [htj] at h ⊢
        have h' : (stepT d cfg j s.sh u).isSome = true := by
          cases hu : stepT d cfg j s.sh u with
          | none => simp [hu] at h
          | some y => rfl
        have h2 : (stepT d cfg j sh' u).isSome = true := by
          rw [stepT_isSome_iff] at h' ⊢
          refine ⟨h'.1, h'.2.1, ?_⟩
          intro T r k e
          obtain ⟨T', res, hl⟩ := h'.2.2 T r k e
          exact stepT_computed hst r T' res hl
        cases hu : stepT d cfg j sh' u with
        | none => simp [hu] at h2
        | some y => rfl

end Conc

namespace Conc
open Cache
variable {V E : Type}

theorem lockOf_not_callback {cfg : Cfg} {c : Ctl V E} {L : Lock} (h : lockOf cfg c = some L) : isCallback c = false := by
  cases c <;> simp_all [lockOf, isCallback]

theorem wlockOf_eq {wc : WCfg} (hw : wc.logUnderLock = false) (c : Ctl V E) : wlockOf wc c = lockOf wc.cfg c := by
  simp [wlockOf, hw]

theorem userStep_some {d : Doc V E} {cfg : Cfg} {gate : Nat → State V E → Bool} {s s' : State V E} {i : Nat} {t : Thread V E}
    (h : userStep d cfg gate s i t = some s') : step d cfg s i = some s' := by
  unfold userStep at h
  split at h
  · cases h
  · exact h

theorem set_get {α : Type} {l : List α} {i j : Nat} {a b : α} (h : (l.set i a)[j]? = some b) :
    (j = i ∧ b = a) ∨ (j ≠ i ∧ l[j]? = some b) := by
  simp only [List.getElem?_set] at h
  split at h
  · rename_i e
    subst e
    split at h
    · simp only [Option.some.injEq] at h
      exact .inl ⟨rfl, h.symm⟩
    · cases h
  · rename_i e
    exact .inr ⟨fun e' => e e'.symm, h⟩

section Inv
variable (d : Doc V E)

/-- who holds what: a holder stands at a control point whose step takes that mutex, and can take the step -/
structure WInv (wc : WCfg) (s : WState V E) : Prop where
  len : s.held.length = s.inner.threads.length
  holds : ∀ (i : Nat) (t : Thread V E) (L : Lock), s.inner.threads[i]? = some t → s.held[i]? = some (some L) →
    lockOf wc.cfg t.ctl = some L ∧ (step d wc.cfg s.inner i).isSome = true
  excl : ∀ (i j : Nat) (L : Lock), s.held[i]? = some (some L) → s.held[j]? = some (some L) → i = j

theorem init_WInv (wc : WCfg) (s : State V E) : WInv d wc (WState.init s) := by
  refine ⟨by simp [WState.init], ?_, ?_⟩
  · intro i t L _ h
    simp [WState.init] at h
  · intro i j L h
    simp [WState.init] at h

variable {d}

theorem wstep_WInv {wc : WCfg} (hw : wc.logUnderLock = false) {gate : Nat → State V E → Bool} {s s' : WState V E} {i : Nat}
    (h : WInv d wc s) (hs : wstep d wc gate s i = some s') : WInv d wc s' := by
  unfold wstep at hs
  cases hti : s.inner.threads[i]? with
  | none => simp [hti] at hs
  | some t =>
  cases hhi : s.held[i]? with
  | none => simp [hti, hhi] at hs
  | some hl =>
  -- the other threads after an inner step of `i`
  have others : ∀ (inner' : State V E) (held' : List (Option Lock)), step d wc.cfg s.inner i = some inner' →
      (∀ (j : Nat) x, held'[j]? = some (some x) → j ≠ i ∧ s.held[j]? = some (some x)) → held'.length = s.held.length →
      WInv d wc ⟨inner', held'⟩ := by
    intro inner' held' hst hheld hlen
    refine ⟨by rw [hlen, h.len, step_length hst], ?_, ?_⟩
    · intro j u L hu hj
      obtain ⟨hne, hold⟩ := hheld j L hj
      simp only at hu
      rw [step_other hst j hne] at hu
      obtain ⟨h1, h2⟩ := h.holds j u L hu hold
      exact ⟨h1, step_enabled_stable hst hne h2⟩
    · intro j k L hj hk
      exact h.excl j k L (hheld j L hj).2 (hheld k L hk).2
  cases hl with
  | some L =>
    simp only [hti, hhi, hw, Bool.false_and, Bool.false_eq_true, if_false, Option.map_eq_some_iff] at hs
    obtain ⟨inner', hu, rfl⟩ := hs
    refine others inner' _ (userStep_some hu) ?_ (by simp)
    intro j x hj
    rcases set_get hj with ⟨_, e⟩ | ⟨hne, hold⟩
    · cases e
    · exact ⟨hne, hold⟩
  | none =>
    simp only [hti, hhi, wlockOf_eq hw] at hs
    cases hlo : lockOf wc.cfg t.ctl with
    | none =>
      simp only [hlo, Option.map_eq_some_iff] at hs
      obtain ⟨inner', hu, rfl⟩ := hs
      refine others inner' _ (userStep_some hu) ?_ rfl
      intro j x hj
      by_cases e : j = i
      · subst e; rw [hhi] at hj; cases hj
      · exact ⟨e, hj⟩
    | some L =>
      simp only [hlo] at hs
      split at hs
      · rename_i hcond
        simp only [Bool.and_eq_true] at hcond
        simp only [Option.some.injEq] at hs
        subst hs
        refine ⟨by simp [h.len], ?_, ?_⟩
        · intro j u L' hu hj
          rcases set_get hj with ⟨rfl, e⟩ | ⟨_, hold⟩
          · simp only [Option.some.injEq] at e
            subst e
            simp only at hu
            rw [hti] at hu
            simp only [Option.some.injEq] at hu
            subst hu
            exact ⟨hlo, hcond.2⟩
          · exact h.holds j u L' hu hold
        · intro j k L' hj hk
          have free : ∀ (m : Nat), s.held[m]? = some (some L) → False := by
            intro m hm
            have := hcond.1
            simp only [lockFree, List.all_eq_true] at this
            have := this (some L) (List.mem_of_getElem? hm)
            simp at this
          rcases set_get hj with ⟨rfl, ej⟩ | ⟨hnj, hoj⟩
          · rcases set_get hk with ⟨rfl, _⟩ | ⟨_, hok⟩
            · rfl
            · simp only [Option.some.injEq] at ej; subst ej; exact (free k hok).elim
          · rcases set_get hk with ⟨rfl, ek⟩ | ⟨_, hok⟩
            · simp only [Option.some.injEq] at ek; subst ek; exact (free j hoj).elim
            · exact h.excl j k L' hoj hok
      · cases hs

theorem reachable_WInv {wc : WCfg} (hw : wc.logUnderLock = false) {gate : Nat → State V E → Bool} {s0 s : WState V E}
    (h0 : WInv d wc s0) (hr : WReachable d wc gate s0 s) : WInv d wc s := by
  induction hr with
  | init => exact h0
  | step i _ hs ih => exact wstep_WInv hw ih hs

/-- every step of the explicit-lock system is a step of `Model/Concurrent.lean`, or leaves its state alone (`lock`) -/
theorem wstep_inner {wc : WCfg} {gate : Nat → State V E → Bool} {s s' : WState V E} {i : Nat}
    (hs : wstep d wc gate s i = some s') : s'.inner = s.inner ∨ step d wc.cfg s.inner i = some s'.inner := by
  unfold wstep at hs
  cases hti : s.inner.threads[i]? with
  | none => simp [hti] at hs
  | some t =>
  cases hhi : s.held[i]? with
  | none => simp [hti, hhi] at hs
  | some hl =>
  cases hl with
  | some L =>
    simp only [hti, hhi, Option.map_eq_some_iff] at hs
    obtain ⟨inner', hu, rfl⟩ := hs
    exact .inr (userStep_some hu)
  | none =>
    simp only [hti, hhi] at hs
    split at hs
    · simp only [Option.map_eq_some_iff] at hs
      obtain ⟨inner', hu, rfl⟩ := hs
      exact .inr (userStep_some hu)
    · split at hs
      · simp only [Option.some.injEq] at hs; subst hs; exact .inl rfl
      · cases hs

theorem reachable_inner {wc : WCfg} {gate : Nat → State V E → Bool} {s0 s : WState V E}
    (hr : WReachable d wc gate s0 s) : Reachable d wc.cfg s0.inner s.inner := by
  induction hr with
  | init => exact .init
  | step i _ hs ih =>
    rcases wstep_inner hs with e | e
    · rw [e]; exact ih
    · exact .step i ih e

end Inv
end Conc
