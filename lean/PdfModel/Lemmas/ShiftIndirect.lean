import PdfModel.Lemmas.ShiftOffset

/-! `parse_indirect_object` under a prefix and under a change of the lexer's file offset. -/

namespace PdfShift
open PdfLex

variable {R : Type}

def shH (k : Nat) (r : (Nat × Nat) × Nat) : (Nat × Nat) × Nat := (r.1, k + r.2)

theorem parseObjHeader_shift (p b : Buf) (pos : Nat) :
    parseObjHeader (p ++ b) (p.size + pos) = omap (shH p.size) (parseObjHeader b pos) := by
  unfold parseObjHeader
  apply bind_shift _ _ (sh2 p.size) (shH p.size) _ _ (next_shift p b pos)
  intro w1
  simp only [sh2, slice_shift]
  cases parseU64 (slice b w1.1 w1.2) with
  | none => rfl
  | some id =>
    simp only
    apply bind_shift _ _ (sh2 p.size) (shH p.size) _ _ (next_shift p b w1.2)
    intro w2
    simp only [sh2, slice_shift]
    cases parseU64 (slice b w2.1 w2.2) with
    | none => rfl
    | some gen =>
      simp only
      apply bind_shift _ _ (p.size + ·) (shH p.size) _ _ (nextExpect_shift p b w2.2 kwObj)
      intro q; rfl

def shI (k : Nat) (r : ((Nat × Nat) × Prim R) × Nat) : ((Nat × Nat) × Prim R) × Nat := (r.1, k + r.2)
def mapI (k : Nat) (r : ((Nat × Nat) × Prim R) × Nat) : ((Nat × Nat) × Prim R) × Nat := ((r.1.1, shiftR k r.1.2), r.2)

/-- **`parse_indirect_object` under a prefix** -/
theorem parseIndirectObject_shift (env : Env R) (p b : Buf) (hsz : (p ++ b).size ≤ 2147483647) (hlen : LenBounded env)
    (fuel pos flags : Nat) :
    parseIndirectObject env (p ++ b) fuel (p.size + pos) flags
      = omap (shI p.size) (parseIndirectObject (env.shiftOffset p.size) b fuel pos flags) := by
  unfold parseIndirectObject
  apply bind_shift _ _ (shH p.size) (shI p.size) _ _ (parseObjHeader_shift p b pos)
  rintro ⟨id, q⟩
  simp only [shH]
  apply bind_shift _ _ (shV p.size) (shI p.size) _ _ (parseCtx_shift env p b hsz hlen fuel q (some id) flags maxDepth)
  rintro ⟨obj, q2⟩
  simp only [shV]
  have hm : (env.shiftOffset p.size).allowMissingEndobj = env.allowMissingEndobj := rfl
  rw [hm]
  split
  · rw [nextExpect_shift]
    cases nextExpect b q2 kwEndobj with
    | ok q3 => rfl
    | err =>
      simp only [omap_err]
      apply bind_shift _ _ (p.size + ·) (shI p.size) _ _ (setPos_shift p b q2 q2)
      intro q4; rfl
    | panic => rfl
    | oof => rfl
  · apply bind_shift _ _ (p.size + ·) (shI p.size) _ _ (nextExpect_shift p b q2 kwEndobj)
    intro q3; rfl

/-- **the lexer's file offset only moves the reported ranges** -/
theorem parseIndirectObject_offset (env : Env R) (k : Nat) (buf : Buf) (fuel pos flags : Nat) :
    parseIndirectObject (env.shiftOffset k) buf fuel pos flags
      = omap (mapI k) (parseIndirectObject env buf fuel pos flags) := by
  unfold parseIndirectObject
  apply bind_same
  rintro ⟨id, q⟩
  simp only
  apply bind_shift _ _ (mapV k) (mapI k) _ _ (parseCtx_offset env k buf fuel q (some id) flags maxDepth)
  rintro ⟨obj, q2⟩
  simp only [mapV]
  have hm : (env.shiftOffset k).allowMissingEndobj = env.allowMissingEndobj := rfl
  rw [hm]
  split
  · cases nextExpect buf q2 kwEndobj with
    | ok q3 => rfl
    | err => simp only; apply bind_same; intro q4; rfl
    | panic => rfl
    | oof => rfl
  · apply bind_same; intro q3; rfl

/-- **suffix view**: parsing the suffix `buf[q ..]` from 0 with lexer offset `o + q` is parsing the whole
    buffer from `q` with lexer offset `o` (cursor counted from `q`) — `Lexer::with_offset(read(q ..), q)` -/
theorem parseIndirectObject_suffix (env : Env R) (pre sfx : Buf) (hsz : (pre ++ sfx).size ≤ 2147483647)
    (hlen : LenBounded env) (fuel flags : Nat) :
    parseIndirectObject env (pre ++ sfx) fuel pre.size flags
      = omap (shI pre.size) (parseIndirectObject (env.shiftOffset pre.size) sfx fuel 0 flags) := by
  have := parseIndirectObject_shift env pre sfx hsz hlen fuel 0 flags
  simpa using this

end PdfShift
