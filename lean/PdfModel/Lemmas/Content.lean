import PdfModel.Model.Content
import PdfModel.Spec.ContentEquiv

/-! Helper lemmas for C08 (round trip of `serializeOps` / `parseOps`). -/

namespace Content

/-- What the proofs assume about the real numbers (for `f32`: `==` is an equivalence on finite values,
    unary minus respects it, and an integral value printed by `{}` as an integer token that fits an `i32`
    converts back (`i32 as f32`) to a value `==` to the original).  These are *hypotheses* of the theorems;
    the check validates them for the `f32` instance on sampled and boundary values (stream `c08.real`). -/
structure RealLaws {R : Type} (ro : RealOps R) : Prop where
  beq_refl : ∀ r, ro.special r = none → ro.beq r r = true
  beq_symm : ∀ a b, ro.beq a b = true → ro.beq b a = true
  beq_trans : ∀ a b c, ro.beq a b = true → ro.beq b c = true → ro.beq a c = true
  neg_congr : ∀ a b, ro.beq a b = true → ro.beq (ro.neg a) (ro.neg b) = true
  /-- an integral value below 2^31 in magnitude is printed as an integer that converts back to it -/
  digits_small : ∀ r n, ro.special r = none → ro.intDigits? r = some n → ro.big r = false →
    ro.beq (ro.ofInt n) r = true
  /-- printed digits that fit an `i32` convert back to the value -/
  digits_i32 : ∀ r n, ro.special r = none → ro.intDigits? r = some n → inI32 n = true →
    ro.beq (ro.ofInt n) r = true

section
variable {R : Type} (ro : RealOps R)

/-- the operand read for a finite real written with `Real` -/
def numQ (r : R) : Prim R := (numPrim? ro r).getD (.real r)

/-- the value read back for it -/
def rb (r : R) : R :=
  match numQ ro r with
  | .int n => ro.ofInt n
  | _ => r

theorem numPrim?_fin {r : R} (h : finiteR ro r = true) : numPrim? ro r = some (numQ ro r) := by
  unfold finiteR at h
  unfold numQ numPrim?
  cases hs : ro.special r with
  | some s => simp [hs] at h
  | none =>
    simp only
    cases ro.intDigits? r with
    | none => rfl
    | some n => by_cases hb : ro.big r = true <;> simp [hb]

theorem numTok_fin {r : R} (h : finiteR ro r = true) : numTok ro r = .prim (numQ ro r) := by
  unfold numTok; rw [numPrim?_fin ro h]

theorem numQ_cases (r : R) : (numQ ro r = .real r) ∨
    (∃ n, numQ ro r = .int n ∧ ro.intDigits? r = some n ∧ ro.big r = false) := by
  unfold numQ numPrim?
  cases hs : ro.special r with
  | some s => left; rfl
  | none =>
    simp only
    cases hd : ro.intDigits? r with
    | none => left; rfl
    | some n =>
      by_cases hb : ro.big r = true
      · left; simp [hb]
      · right; exact ⟨n, by simp [hb], rfl, by simpa using hb⟩

theorem asNumber_numQ (r : R) : asNumber ro (numQ ro r) = some (rb ro r) := by
  unfold rb
  rcases numQ_cases ro r with h | ⟨n, h, _, _⟩ <;> rw [h] <;> rfl

theorem rb_beq (laws : RealLaws ro) {r : R} (h : finiteR ro r = true) : ro.beq (rb ro r) r = true := by
  have hs : ro.special r = none := by simpa [finiteR] using h
  unfold rb
  rcases numQ_cases ro r with h1 | ⟨n, h1, h2, h3⟩ <;> rw [h1]
  · exact laws.beq_refl r hs
  · exact laws.digits_small r n hs h2 h3


-- arrays of reals (dash pattern)

theorem allSome_map_some {α β : Type} (f : α → β) (xs : List α) :
    allSome (xs.map fun x => some (f x)) = some (xs.map f) := by
  induction xs with
  | nil => rfl
  | cons x xs ih => simp [allSome, ih]

theorem all_finite_cons {x : R} {xs : List R} (h : (x :: xs).all (finiteR ro) = true) :
    finiteR ro x = true ∧ xs.all (finiteR ro) = true := by
  simpa using h

theorem numArrayTok_fin {xs : List R} (h : xs.all (finiteR ro) = true) :
    numArrayTok ro xs = .prim (.arr (xs.map (numQ ro))) := by
  have : xs.map (numPrim? ro) = xs.map (fun x => some (numQ ro x)) := by
    induction xs with
    | nil => rfl
    | cons x xs ih =>
      obtain ⟨h1, h2⟩ := all_finite_cons ro h
      simp [numPrim?_fin ro h1, ih h2]
  unfold numArrayTok
  rw [this, allSome_map_some]

theorem allSome_asNumber_numQ (xs : List R) :
    allSome ((xs.map (numQ ro)).map (asNumber ro)) = some (xs.map (rb ro)) := by
  induction xs with
  | nil => rfl
  | cons x xs ih =>
    simp only [List.map_cons, allSome, asNumber_numQ]
    rw [ih]

theorem realsEquiv_rb (laws : RealLaws ro) {xs : List R} (h : xs.all (finiteR ro) = true) :
    realsEquiv ro (xs.map (rb ro)) xs = true := by
  induction xs with
  | nil => rfl
  | cons x xs ih =>
    obtain ⟨h1, h2⟩ := all_finite_cons ro h
    simp [realsEquiv, rb_beq ro laws h1, ih h2]

-- arrays of `TJ`

def tdaQ : TDA R → Prim R
  | .text bs => .str bs
  | .spacing s => numQ ro s

def tdaRb : TDA R → TDA R
  | .text bs => .text bs
  | .spacing s => .spacing (rb ro s)

theorem tdaPrim?_fin {x : TDA R} (h : finiteTDA ro x = true) : tdaPrim? ro x = some (tdaQ ro x) := by
  cases x with
  | text bs => rfl
  | spacing s => exact numPrim?_fin ro h

theorem tdaArrayTok_fin {xs : List (TDA R)} (h : xs.all (finiteTDA ro) = true) :
    tdaArrayTok ro xs = .prim (.arr (xs.map (tdaQ ro))) := by
  have : xs.map (tdaPrim? ro) = xs.map (fun x => some (tdaQ ro x)) := by
    induction xs with
    | nil => rfl
    | cons x xs ih =>
      have h' : finiteTDA ro x = true ∧ xs.all (finiteTDA ro) = true := by simpa using h
      simp [tdaPrim?_fin ro h'.1, ih h'.2]
  unfold tdaArrayTok
  rw [this, allSome_map_some]

theorem tdaOfPrim_tdaQ (x : TDA R) : tdaOfPrim ro (tdaQ ro x) = some (tdaRb ro x) := by
  cases x with
  | text bs => rfl
  | spacing s =>
    show tdaOfPrim ro (numQ ro s) = some (.spacing (rb ro s))
    unfold rb
    rcases numQ_cases ro s with h | ⟨n, h, _, _⟩ <;> rw [h] <;> rfl

theorem allSome_tdaOfPrim (xs : List (TDA R)) :
    allSome ((xs.map (tdaQ ro)).map (tdaOfPrim ro)) = some (xs.map (tdaRb ro)) := by
  induction xs with
  | nil => rfl
  | cons x xs ih =>
    simp only [List.map_cons, allSome, tdaOfPrim_tdaQ]
    rw [ih]

theorem tdasEquiv_rb (laws : RealLaws ro) {xs : List (TDA R)} (h : xs.all (finiteTDA ro) = true) :
    tdasEquiv ro (xs.map (tdaRb ro)) xs = true := by
  induction xs with
  | nil => rfl
  | cons x xs ih =>
    have h' : finiteTDA ro x = true ∧ xs.all (finiteTDA ro) = true := by simpa using h
    cases x with
    | text bs => simp [tdasEquiv, tdaRb, tdaEquiv, ih h'.2]
    | spacing s =>
      have : finiteR ro s = true := h'.1
      simp [tdasEquiv, tdaRb, tdaEquiv, rb_beq ro laws this, ih h'.2]

-- `Primitive` operands

theorem primReal?_equiv (laws : RealLaws ro) (cfg : Cfg) {r : R} {q : Prim R}
    (hf : finiteR ro r = true) (h : primReal? ro cfg r = some q) : primEquiv ro q (.real r) = true := by
  have hs : ro.special r = none := by simpa [finiteR] using hf
  unfold primReal? at h
  simp only [hs] at h
  by_cases hd : cfg.primDot = true
  · simp [hd] at h; subst h; simpa [primEquiv] using laws.beq_refl r hs
  · simp [hd] at h
    cases hi : ro.intDigits? r with
    | none => simp [hi] at h; subst h; simpa [primEquiv] using laws.beq_refl r hs
    | some n =>
      simp [hi] at h
      obtain ⟨h1, h2⟩ := h
      subst h2
      simpa [primEquiv] using laws.digits_i32 r n hs hi h1

mutual
theorem serPrim?_equiv (laws : RealLaws ro) (cfg : Cfg) : (p q : Prim R) → finitePrim ro p = true →
    serPrim? ro cfg p = some q → primEquiv ro q p = true
  | .null, q, _, h => by simp [serPrim?] at h; subst h; simp [primEquiv]
  | .bool b, q, _, h => by simp [serPrim?] at h; subst h; simp [primEquiv]
  | .int i, q, _, h => by simp [serPrim?] at h; subst h; simp [primEquiv]
  | .real r, q, hf, h => by
    simp [serPrim?] at h
    exact primReal?_equiv ro laws cfg (by simpa [finitePrim] using hf) h
  | .str bs, q, _, h => by simp [serPrim?] at h; subst h; simp [primEquiv]
  | .name s, q, _, h => by simp [serPrim?] at h; subst h; simp [primEquiv]
  | .ref a b, q, _, h => by simp [serPrim?] at h; subst h; simp [primEquiv]
  | .arr xs, q, hf, h => by
    simp only [serPrim?] at h
    cases hx : serPrims? ro cfg xs with
    | none => simp [hx] at h
    | some ys =>
      simp [hx] at h; subst h
      simpa [primEquiv] using serPrims?_equiv laws cfg xs ys (by simpa [finitePrim] using hf) hx
  | .dict ks xs, q, hf, h => by
    simp only [serPrim?] at h
    cases hx : serPrims? ro cfg xs with
    | none => simp [hx] at h
    | some ys =>
      simp [hx] at h; subst h
      simpa [primEquiv] using serPrims?_equiv laws cfg xs ys (by simpa [finitePrim] using hf) hx
theorem serPrims?_equiv (laws : RealLaws ro) (cfg : Cfg) : (ps qs : List (Prim R)) → finitePrims ro ps = true →
    serPrims? ro cfg ps = some qs → primsEquiv ro qs ps = true
  | [], qs, _, h => by simp [serPrims?] at h; subst h; simp [primsEquiv]
  | p :: ps, qs, hf, h => by
    simp only [serPrims?] at h
    have hf' : finitePrim ro p = true ∧ finitePrims ro ps = true := by simpa [finitePrims] using hf
    cases hp : serPrim? ro cfg p with
    | none => simp [hp] at h
    | some q =>
      cases hps : serPrims? ro cfg ps with
      | none => simp [hp, hps] at h
      | some qs' =>
        simp [hp, hps] at h; subst h
        simp [primsEquiv, serPrim?_equiv laws cfg p q hf'.1 hp, serPrims?_equiv laws cfg ps qs' hf'.2 hps]
end


-- the loop of the reader

theorem parseLoop_append (allow : Bool) (c : PCfg R) (ts us : List (Tok R)) :
    parseLoop ro allow c (ts ++ us) =
      match parseLoop ro allow c ts with
      | .ok c' => parseLoop ro allow c' us
      | .err => .err
      | .panic => .panic
      | .oof => .oof := by
  induction ts generalizing c with
  | nil => rfl
  | cons t ts ih =>
    simp only [List.cons_append, parseLoop]
    cases step ro allow c t <;> simp [ih]

/-- serializer state and reader state agree on the current point and on the start of the subpath,
    as far as the serializer knows them -/
def Inv (s : SState R) (st : PState R) : Prop :=
  (∀ q, s.cur = some q → ptEquiv ro st.last q = true) ∧ (∀ q, s.start = some q → ptEquiv ro st.start q = true)

theorem ptEquiv_symm (laws : RealLaws ro) {a b : Pt R} (h : ptEquiv ro a b = true) : ptEquiv ro b a = true := by
  simp only [ptEquiv, Bool.and_eq_true] at *
  exact ⟨laws.beq_symm _ _ h.1, laws.beq_symm _ _ h.2⟩

theorem ptEquiv_trans (laws : RealLaws ro) {a b c : Pt R} (h1 : ptEquiv ro a b = true) (h2 : ptEquiv ro b c = true) :
    ptEquiv ro a c = true := by
  simp only [ptEquiv, Bool.and_eq_true] at *
  exact ⟨laws.beq_trans _ _ _ h1.1 h2.1, laws.beq_trans _ _ _ h1.2 h2.2⟩

theorem opsEquiv_append {a b c d : List (Op R)} (h1 : opsEquiv ro a b = true) (h2 : opsEquiv ro c d = true) :
    opsEquiv ro (a ++ c) (b ++ d) = true := by
  induction a generalizing b with
  | nil => cases b with
    | nil => simpa using h2
    | cons y ys => simp [opsEquiv] at h1
  | cons x xs ih => cases b with
    | nil => simp [opsEquiv] at h1
    | cons y ys =>
      simp only [opsEquiv, Bool.and_eq_true] at h1
      simp [opsEquiv, h1.1, ih h1.2]

end
end Content
