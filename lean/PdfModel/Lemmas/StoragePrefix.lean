import PdfModel.Lemmas.Storage

/-! The backend only grows: no operation, successful or not, changes or removes what is in it. This
    needs no invariant at all. -/

namespace Storage
open Xref

variable {V : Type}

/-- `s'` extends `s`: same objects and sections at the same offsets, anything new starts at or after
    the old end of the file -/
structure Extends (s s' : St V) : Prop where
  objs : ∃ e, s'.objs = s.objs ++ e ∧ ∀ o ∈ e, s.len ≤ o.off
  secs : ∃ e, s'.secs = s.secs ++ e ∧ ∀ x ∈ e, s.len ≤ x.off
  len : s.len ≤ s'.len
  start : s'.start = s.start

theorem Extends.refl (s : St V) : Extends s s :=
  ⟨⟨[], by simp⟩, ⟨[], by simp⟩, Nat.le_refl _, rfl⟩

theorem Extends.trans {a b c : St V} (h1 : Extends a b) (h2 : Extends b c) : Extends a c := by
  obtain ⟨e1, a1, b1⟩ := h1.objs
  obtain ⟨e2, a2, b2⟩ := h2.objs
  obtain ⟨f1, c1, d1⟩ := h1.secs
  obtain ⟨f2, c2, d2⟩ := h2.secs
  refine ⟨⟨e1 ++ e2, by rw [a2, a1]; simp, ?_⟩, ⟨f1 ++ f2, by rw [c2, c1]; simp, ?_⟩,
    Nat.le_trans h1.len h2.len, by rw [h2.start, h1.start]⟩
  · intro o ho
    rcases List.mem_append.mp ho with h | h
    · exact b1 o h
    · exact Nat.le_trans h1.len (b2 o h)
  · intro o ho
    rcases List.mem_append.mp ho with h | h
    · exact d1 o h
    · exact Nat.le_trans h1.len (d2 o h)

theorem writeChanges_extends (P : Params V) (L : Layout) (start : Nat) :
    ∀ (ch : List (Nat × V × Nat)) (w : Written V),
      (∃ e, (writeChanges P L start ch w).1.objs = w.objs ++ e ∧ ∀ o ∈ e, w.len ≤ o.off) ∧
      w.len ≤ (writeChanges P L start ch w).1.len := by
  intro ch
  induction ch with
  | nil => intro w; exact ⟨⟨[], by simp [writeChanges]⟩, by simp [writeChanges]⟩
  | cons hd rest ih =>
    obtain ⟨i, v, g⟩ := hd
    intro w
    simp only [writeChanges]
    split
    · split
      · obtain ⟨⟨e, a, b⟩, c⟩ := ih ⟨w.refs.set i (.raw (w.len - start) g), w.objs ++ [⟨w.len, i, g, v, []⟩], w.len + L.recLen i⟩
        simp only at a b c
        refine ⟨⟨(⟨w.len, i, g, v, []⟩ : Obj V) :: e, by rw [a]; simp, ?_⟩, by omega⟩
        intro o ho
        simp only [List.mem_cons] at ho
        rcases ho with rfl | ho
        · simp
        · have := b o ho; omega
      · exact ⟨⟨[], by simp⟩, Nat.le_refl _⟩
    · exact ⟨⟨[], by simp⟩, Nat.le_refl _⟩

theorem prep_same (d : Doc V) : (prep d).st2.objs = d.st.objs ∧ (prep d).st2.secs = d.st.secs ∧
    (prep d).st2.len = d.st.len ∧ (prep d).st2.start = d.st.start := by
  unfold prep prepInfo
  cases d.tr.info <;> simp [promise, alloc, create]

theorem save_extends (P : Params V) (L : Layout) (d : Doc V) : Extends d.st (save P L d).1.st := by
  obtain ⟨p1, p2, p3, p4⟩ := prep_same d
  have hsame : Extends d.st (prep d).st2 :=
    ⟨⟨[], by simp [p1]⟩, ⟨[], by simp [p2]⟩, by omega, p4⟩
  have hwe := writeChanges_extends P L (prep d).st2.start (prep d).st2.changes
    ⟨(prep d).st2.refs, (prep d).st2.objs, (prep d).st2.len⟩
  unfold save
  by_cases hbig : d.st.refs.length + 2 > MAX_ID
  · simp only [hbig, if_true]; exact Extends.refl _
  simp only [hbig, if_false]
  generalize writeChanges P L (prep d).st2.start (prep d).st2.changes
      ⟨(prep d).st2.refs, (prep d).st2.objs, (prep d).st2.len⟩ = res at hwe
  obtain ⟨w, o⟩ := res
  obtain ⟨⟨e, a, b⟩, c⟩ := hwe
  simp only at a b c
  have hroll : ∀ R : List XRef, Extends d.st ({ (prep d).st2 with refs := R } : St V) := by
    intro R; exact ⟨⟨[], by simp [p1]⟩, ⟨[], by simp [p2]⟩, by simp only; omega, by simp only; exact p4⟩
  cases o with
  | ok u =>
    cases u
    simp only
    split
    · exact hroll _
    · rename_i rows _
      have hcommit : Extends d.st (commit P L d (prep d) w (w.refs.set (prep d).xid (.raw (w.len - (prep d).st2.start) 0)) rows) := by
        refine ⟨⟨e ++ [⟨w.len, (prep d).xid, 0, P.xrefRec d.tr (prep d).infoRef (saveInfoOf (prep d) w (w.refs.set (prep d).xid (.raw (w.len - (prep d).st2.start) 0)) rows), []⟩], ?_, ?_⟩,
          ⟨[⟨w.len, [⟨0, rows⟩], (prep d).size, d.tr.prev, d.tr.root, (prep d).infoRef⟩], ?_, ?_⟩, ?_, ?_⟩
        · simp only [commit]; rw [a, p1]; simp
        · intro o ho
          simp only [List.mem_append, List.mem_singleton] at ho
          rcases ho with ho | rfl
          · have := b o ho; omega
          · simp only; omega
        · simp only [commit]; rw [p2]
        · intro x hx; simp only [List.mem_singleton] at hx; subst hx; simp only; omega
        · simp only [commit]; omega
        · simp only [commit]; exact p4
      split
      · split <;> exact hcommit
      all_goals exact hcommit
  | err => exact hroll _
  | panic => exact hroll _
  | oof => exact hroll _

theorem update_extends (st : St V) (id : Nat) (v : V) : Extends st (update st id v).1 := by
  unfold update
  split <;> first | exact Extends.refl _ | exact ⟨⟨[], by simp⟩, ⟨[], by simp⟩, Nat.le_refl _, rfl⟩

/-- **prefix preservation, one step** -/
theorem step_extends (P : Params V) (d : Doc V) (op : Op V) : Extends d.st (step P d op).1.st := by
  cases op with
  | create v => exact ⟨⟨[], by simp [step, create, alloc]⟩, ⟨[], by simp [step, create, alloc]⟩, Nat.le_refl _, rfl⟩
  | promise => exact ⟨⟨[], by simp [step, promise, alloc]⟩, ⟨[], by simp [step, promise, alloc]⟩, Nat.le_refl _, rfl⟩
  | update id v =>
    have := update_extends d.st id v
    simp only [step]; split <;> simp_all
  | fulfil id v =>
    have := update_extends d.st id v
    simp only [step]; split <;> simp_all
  | get id =>
    simp only [step, get]
    split
    · split
      · exact Extends.refl _
      · exact ⟨⟨[], by simp⟩, ⟨[], by simp⟩, Nat.le_refl _, rfl⟩
    · exact Extends.refl _
  | resolve id => exact Extends.refl _
  | save L =>
    have := save_extends P L d
    simp only [step]; split <;> simp_all

theorem run_extends (P : Params V) : ∀ (ops : List (Op V)) (d : Doc V), Extends d.st (run P d ops).1.st := by
  intro ops
  induction ops with
  | nil => intro d; exact Extends.refl _
  | cons op ops ih =>
    intro d
    simp only [run]
    exact Extends.trans (step_extends P d op) (ih _)

end Storage
