import PdfModel.Lemmas.Indirect
import PdfModel.Model.XrefTable
import PdfModel.Spec.XrefTable

/-! The classic table reader (`Model/XrefTable`) reads back what the relation `TableText` of
    `Spec/XrefTable` permits a conforming writer to emit.  The induction runs over the relation; the
    reader's position is tracked by `At buf p s`: at `p` only a gap separates the reader from `s`. -/

namespace XrefTable
open PdfLex Xref XrefTableSpec
open PdfSyntax (Gap Bnd NatTok Digits digitsVal isDig)

/-- at position `p` of `buf` a gap (white-space, comments) and then `s` follow -/
def At (buf : Buf) (p : Nat) (s : List UInt8) : Prop := ∃ g, Gap g ∧ Suffix buf p (g ++ s)

theorem At.of_suffix {buf : Buf} {p : Nat} {g s : List UInt8} (hg : Gap g) (h : Suffix buf p (g ++ s)) :
    At buf p s := ⟨g, hg, h⟩

theorem kwSpec_eq : XrefTable.kwTrailer = XrefTableSpec.kwTrailer ∧ XrefTable.kwXref = XrefTableSpec.kwXref :=
  ⟨rfl, rfl⟩

theorem kw_trailer_regular : ∀ b ∈ XrefTable.kwTrailer, isRegular b = true := by decide +kernel
theorem kw_xref_regular : ∀ b ∈ XrefTable.kwXref, isRegular b = true := by decide +kernel

/-- one regular token followed by a separator: it is the next lexeme, and the reader rests right behind it -/
theorem next_tok {buf : Buf} (p : Nat) (t g1 s : List UInt8) (hat : At buf p (t ++ g1 ++ s)) (hne : t ≠ [])
    (ht : ∀ b ∈ t, isRegular b = true) (hs : Sep g1) :
    ∃ w, next buf p = .ok w ∧ slice buf w.1 w.2 = t ∧ Suffix buf w.2 (g1 ++ s) := by
  obtain ⟨g, hg, h⟩ := hat
  have h1 : Suffix buf p (g ++ t ++ (g1 ++ s)) := by simpa using h
  obtain ⟨hn, hsl⟩ := next_regular g t (g1 ++ s) p hg h1 hne ht (gap_bnd hs.1 hs.2 _)
  refine ⟨_, hn, hsl, ?_⟩
  have := Suffix.drop (a := g ++ t) (by simpa using h1)
  simpa [Nat.add_assoc] using this

theorem parseU32_digits (ds : List UInt8) (hne : ds ≠ []) (h : Digits ds) (hr : digitsVal ds ≤ 4294967295) :
    parseU32 ds = some (digitsVal ds) := by
  cases ds with
  | nil => exact absurd rfl hne
  | cons d ds' =>
    have hd := dig_ne_sign d (h d (by simp))
    unfold parseU32
    rw [stripPlus_digit d ds' hd.2.1]; simp only [allDigits_of _ h]
    simp [decVal_eq]; omega

theorem natTok_u32 (t : List UInt8) (n : Nat) (h : NatTok t n) (hr : n ≤ 4294967295) :
    parseU32 t = some n ∧ t ≠ [] ∧ (∀ b ∈ t, isRegular b = true) := by
  obtain ⟨hne, hd, rfl⟩ := h
  exact ⟨parseU32_digits _ hne hd hr, hne, digits_regular _ hd⟩

theorem natTok_ne_trailer (t : List UInt8) (n : Nat) (h : NatTok t n) : (t == XrefTable.kwTrailer) = false := by
  obtain ⟨_, hd, _⟩ := h
  cases hb : t == XrefTable.kwTrailer with
  | false => rfl
  | true =>
    have : t = XrefTable.kwTrailer := by simpa using hb
    subst this
    exact absurd (hd 116 (by decide)) (by decide)

/-- `next_as::<u32>` on a header number -/
theorem nextAsU32_tok {buf : Buf} (p : Nat) (t g1 s : List UInt8) (n : Nat) (hat : At buf p (t ++ g1 ++ s))
    (ht : NatTok t n) (hn : n ≤ 4294967295) (hs : Sep g1) :
    ∃ q, nextAsU32 buf p = .ok (n, q) ∧ Suffix buf q (g1 ++ s) := by
  obtain ⟨h1, h2, h3⟩ := natTok_u32 t n ht hn
  obtain ⟨w, hw, hsl, hsuf⟩ := next_tok p t g1 s hat h2 h3 hs
  exact ⟨w.2, by simp [nextAsU32, hw, hsl, h1], hsuf⟩

theorem entryOfTokens_n (a b : List UInt8) (pos gen : Nat) (ha : parseU64 a = some pos) (hb : parseU64 b = some gen) :
    entryOfTokens a b [110] = .ok (.raw pos gen) := by
  have h1 : ([110] == kwF) = false := by decide
  have h2 : ([110] == kwN) = true := by decide
  simp [entryOfTokens, h1, h2, ha, hb]

theorem entryOfTokens_f (a b : List UInt8) (nxt gen : Nat) (ha : parseU64 a = some nxt) (hb : parseU64 b = some gen) :
    entryOfTokens a b [102] = .ok (.free nxt gen) := by
  have h1 : ([102] == kwF) = true := by decide
  simp [entryOfTokens, h1, ha, hb]

/-- three tokens of one entry -/
theorem readEntry_tokens {buf : Buf} (p : Nat) (a g1 b g2 g3 s : List UInt8) (kw : UInt8) (x y : Nat) (e : XRef)
    (hat : At buf p ((a ++ g1 ++ b ++ g2 ++ kw :: g3) ++ s))
    (ha : NatTok a x) (hb : NatTok b y) (hx : x ≤ u64Max) (hy : y ≤ u64Max)
    (h1 : Sep g1) (h2 : Sep g2) (h3 : Sep g3) (hkw : isRegular kw = true)
    (he : entryOfTokens a b [kw] = .ok e) :
    ∃ q, readEntry buf p = .ok (e, q) ∧ Suffix buf q (g3 ++ s) := by
  obtain ⟨_, a2, a3, a4⟩ := natTok_spec a x ha hx
  obtain ⟨_, b2, b3, b4⟩ := natTok_spec b y hb hy
  have hat1 : At buf p (a ++ g1 ++ (b ++ g2 ++ kw :: g3 ++ s)) := by simpa using hat
  obtain ⟨w1, hw1, hs1, hsuf1⟩ := next_tok p a g1 _ hat1 a3 a4 h1
  have hat2 : At buf w1.2 (b ++ g2 ++ ([kw] ++ g3 ++ s)) := ⟨g1, h1.1, by simpa using hsuf1⟩
  obtain ⟨w2, hw2, hs2, hsuf2⟩ := next_tok w1.2 b g2 _ hat2 b3 b4 h2
  have hat3 : At buf w2.2 ([kw] ++ g3 ++ s) := ⟨g2, h2.1, by simpa using hsuf2⟩
  obtain ⟨w3, hw3, hs3, hsuf3⟩ := next_tok w2.2 [kw] g3 s hat3 (by simp) (by simpa using hkw) h3
  refine ⟨w3.2, ?_, hsuf3⟩
  have hnt : (a == XrefTable.kwTrailer) = false := natTok_ne_trailer a x ha
  simp [readEntry, hw1, hs1, hnt, hw2, hs2, hw3, hs3, he]

theorem readEntry_spec {buf : Buf} (p : Nat) (e : XRef) (txt s : List UInt8) (het : EntryText e txt)
    (hat : At buf p (txt ++ s)) :
    ∃ q, readEntry buf p = .ok (e, q) ∧ At buf q s := by
  cases het with
  | inuse a g1 b g2 g3 pos gen ha hb h1 h2 h3 hx hy =>
    obtain ⟨_, a2, _, _⟩ := natTok_spec a pos ha hx
    obtain ⟨_, b2, _, _⟩ := natTok_spec b gen hb hy
    obtain ⟨q, hq, hsuf⟩ := readEntry_tokens p a g1 b g2 g3 s 110 pos gen _ hat ha hb hx hy h1 h2 h3 (by decide)
      (entryOfTokens_n a b pos gen a2 b2)
    exact ⟨q, hq, g3, h3.1, hsuf⟩
  | free a g1 b g2 g3 nxt gen ha hb h1 h2 h3 hx hy =>
    obtain ⟨_, a2, _, _⟩ := natTok_spec a nxt ha hx
    obtain ⟨_, b2, _, _⟩ := natTok_spec b gen hb hy
    obtain ⟨q, hq, hsuf⟩ := readEntry_tokens p a g1 b g2 g3 s 102 nxt gen _ hat ha hb hx hy h1 h2 h3 (by decide)
      (entryOfTokens_f a b nxt gen a2 b2)
    exact ⟨q, hq, g3, h3.1, hsuf⟩

/-- `for i in 0..num_ids` over the text of `num_ids` entries -/
theorem entryLoop_spec {buf : Buf} (es : List XRef) (body s : List UInt8) (het : EntriesText es body) :
    ∀ (p : Nat) (acc : List XRef), At buf p (body ++ s) →
      ∃ q, entryLoop buf es.length p acc = .ok (acc.reverse ++ es, q) ∧ At buf q s := by
  induction het with
  | nil => intro p acc hat; exact ⟨p, by simp [entryLoop], by simpa using hat⟩
  | cons e es t ts he _ ih =>
    intro p acc hat
    have hat1 : At buf p (t ++ (ts ++ s)) := by simpa using hat
    obtain ⟨q1, hq1, hat2⟩ := readEntry_spec p e t _ he hat1
    obtain ⟨q, hq, hat3⟩ := ih q1 (e :: acc) hat2
    exact ⟨q, by simp [entryLoop, hq1, hq], hat3⟩

/-- one subsection: header numbers, then the entries -/
theorem readSub_spec {buf : Buf} (sub : Sub) (txt s : List UInt8) (hst : SubText sub txt) (p : Nat)
    (hat : At buf p (txt ++ s)) :
    ∃ q, readSub buf p = .ok (sub, q) ∧ At buf q s := by
  obtain ⟨a, g1, b, g2, body, rfl, ha, hb, h1, h2, hf, hl, hes⟩ := hst
  have hat1 : At buf p (a ++ g1 ++ (b ++ g2 ++ body ++ s)) := by simpa using hat
  obtain ⟨q1, hq1, hsuf1⟩ := nextAsU32_tok p a g1 _ sub.first hat1 ha hf h1
  have hat2 : At buf q1 (b ++ g2 ++ (body ++ s)) := ⟨g1, h1.1, by simpa using hsuf1⟩
  obtain ⟨q2, hq2, hsuf2⟩ := nextAsU32_tok q1 b g2 _ sub.entries.length hat2 hb hl h2
  have hat3 : At buf q2 (body ++ s) := ⟨g2, h2.1, hsuf2⟩
  obtain ⟨q, hq, hat4⟩ := entryLoop_spec sub.entries body s hes q2 [] hat3
  refine ⟨q, ?_, hat4⟩
  simp [readSub, hq1, hq2, hq]

/-- the text of a subsection starts with a header number: `peek` does not see `trailer` -/
theorem peek_sub {buf : Buf} (sub : Sub) (txt s : List UInt8) (hst : SubText sub txt) (p : Nat)
    (hat : At buf p (txt ++ s)) :
    ∃ w, peek buf p = .ok w ∧ (slice buf w.1 w.2 == XrefTable.kwTrailer) = false := by
  obtain ⟨a, g1, b, g2, body, rfl, ha, hb, h1, h2, hf, hl, hes⟩ := hst
  have hat1 : At buf p (a ++ g1 ++ (b ++ g2 ++ body ++ s)) := by simpa using hat
  obtain ⟨_, a2, a3⟩ := natTok_u32 a sub.first ha hf
  obtain ⟨w, hw, hsl, _⟩ := next_tok p a g1 _ hat1 a2 a3 h1
  exact ⟨w, peek_ok hw, by rw [hsl]; exact natTok_ne_trailer a _ ha⟩

/-- `peek` at the keyword -/
theorem peek_trailer {buf : Buf} (rest : List UInt8) (p : Nat) (hat : At buf p (XrefTable.kwTrailer ++ rest))
    (hb : Bnd rest) : ∃ w, peek buf p = .ok w ∧ slice buf w.1 w.2 = XrefTable.kwTrailer := by
  obtain ⟨g, hg, h⟩ := hat
  have h1 : Suffix buf p (g ++ XrefTable.kwTrailer ++ rest) := by simpa using h
  obtain ⟨hn, hsl⟩ := next_regular g XrefTable.kwTrailer rest p hg h1 (by decide) kw_trailer_regular hb
  exact ⟨_, peek_ok hn, hsl⟩

/-- `while lexer.peek()? != "trailer"`: all subsections are read, the loop stops in front of the keyword
    (at the position where the last entry ended: `peek` does not move the lexer) -/
theorem tableLoop_spec {buf : Buf} (subs : List Sub) (tbl rest : List UInt8) (htt : TableText subs tbl)
    (hb : Bnd rest) :
    ∀ (fuel p : Nat) (acc : List Sub), subs.length < fuel → At buf p (tbl ++ XrefTable.kwTrailer ++ rest) →
      ∃ q, tableLoop buf fuel p acc = .ok (acc.reverse ++ subs, q) ∧ At buf q (XrefTable.kwTrailer ++ rest) := by
  induction htt with
  | nil =>
    intro fuel p acc hf hat
    cases fuel with
    | zero => omega
    | succ fuel =>
      have hat' : At buf p (XrefTable.kwTrailer ++ rest) := by simpa using hat
      obtain ⟨w, hw, hsl⟩ := peek_trailer rest p hat' hb
      exact ⟨p, by simp [tableLoop, hw, hsl], hat'⟩
  | cons sub ss t ts hs _ ih =>
    intro fuel p acc hf hat
    cases fuel with
    | zero => omega
    | succ fuel =>
      have hat1 : At buf p (t ++ (ts ++ XrefTable.kwTrailer ++ rest)) := by simpa using hat
      obtain ⟨w, hw, hne⟩ := peek_sub sub t _ hs p hat1
      obtain ⟨q1, hq1, hat2⟩ := readSub_spec sub t _ hs p hat1
      obtain ⟨q, hq, hat3⟩ := ih fuel q1 (sub :: acc) (by simp at hf; omega) hat2
      exact ⟨q, by simp [tableLoop, hw, hne, hq1, hq], hat3⟩

theorem suffix_pos_eq {buf : Buf} {p q : Nat} {y x : List UInt8} (h1 : Suffix buf p (y ++ x)) (h2 : Suffix buf q x) :
    q = p + y.length := by
  have a := h1.size_eq
  have b := h2.size_eq
  simp at a; omega

/-- **the table part**: the subsections are read back and the reader rests right behind `trailer` -/
theorem parseTable_spec {buf : Buf} (subs : List Sub) (g tbl rest : List UInt8) (hg : Gap g)
    (htt : TableText subs tbl) (hb : Bnd rest) (fuel p : Nat) (hf : subs.length < fuel)
    (h : Suffix buf p (g ++ tbl ++ XrefTable.kwTrailer ++ rest)) :
    parseTable buf fuel p = .ok (subs, p + (g ++ tbl ++ XrefTable.kwTrailer).length) := by
  have hat : At buf p (tbl ++ XrefTable.kwTrailer ++ rest) := ⟨g, hg, by simpa using h⟩
  obtain ⟨q, hq, g', hg', hsuf⟩ := tableLoop_spec subs tbl rest htt hb fuel p [] hf hat
  have h1 : Suffix buf q (g' ++ XrefTable.kwTrailer ++ rest) := by simpa using hsuf
  have hne := nextExpect_regular g' XrefTable.kwTrailer rest q hg' h1 (by decide) kw_trailer_regular hb
  have hend : Suffix buf (q + g'.length + XrefTable.kwTrailer.length) rest := by
    have := Suffix.drop (a := g' ++ XrefTable.kwTrailer) (by simpa using h1)
    simpa [Nat.add_assoc] using this
  have hpos := suffix_pos_eq (y := g ++ tbl ++ XrefTable.kwTrailer) (by simpa using h) hend
  simp only [parseTable, hq, List.reverse_nil, List.nil_append, hne]
  rw [hpos]


/-! ### the trailer dictionary and the whole section -/

open PdfSyntax (Spells WF vdepth need)

variable {R : Type}

theorem spells_dict_head (pr : List UInt8 → Option R) (d : Dict R) (txt : List UInt8) (h : Spells pr (.dict d) txt) :
    ∃ x, txt = 60 :: x := by
  simp only [Spells] at h
  obtain ⟨g, r, rfl, _⟩ := h
  exact ⟨_, rfl⟩

theorem gap_bnd_delim {g : List UInt8} (hg : Gap g) (x : List UInt8) : Bnd (g ++ 60 :: x) := by
  cases g with
  | nil => simp [Bnd]; decide
  | cons b r => exact gap_bnd hg (by simp) _

/-- `parse_with_lexer(DICT)` + `into_dictionary` on a conformant spelling of the trailer dictionary -/
theorem trailerDict_spec (env : Env R) (hd : env.decrypt = none) (d : Dict R) (txt : List UInt8)
    (hsp : Spells env.parseReal (.dict d) txt) (hwf : WF (Prim.dict d)) {buf : Buf} (hsz : buf.size ≤ 2147483647)
    (g rest : List UInt8) (pos pfuel : Nat) (hg : Gap g) (hs : Suffix buf pos (g ++ txt ++ rest))
    (hah : Ahead buf (pos + g.length + txt.length)) (hfuel : need (Prim.dict d) ≤ pfuel)
    (hdepth : vdepth (Prim.dict d) ≤ maxDepth) :
    trailerDict env buf pfuel pos = .ok (d, pos + g.length + txt.length) := by
  have := parseCtx_spells env hd (.dict d) txt hsp hwf hsz g rest pos pfuel none maxDepth Flags.dict hg
    (by simp only [flagOf]; decide) hs (by intro h; simp [PdfSyntax.needsBnd] at h) hah hfuel hdepth
  simp [trailerDict, parseWithLexer, this]

/-- **`parse_xref_table_and_trailer`** on the text behind the keyword `xref`: separator, table, `trailer`,
    optional gap, a conformant spelling of the trailer dictionary, anything that does not merge with it -/
theorem parseXrefTableAndTrailer_spec (env : Env R) (hd : env.decrypt = none) (subs : List Sub) (d : Dict R)
    (g1 tbl g2 dtxt rest : List UInt8) (hg1 : Gap g1) (htt : TableText subs tbl) (hg2 : Gap g2)
    (hsp : Spells env.parseReal (.dict d) dtxt) (hwf : WF (Prim.dict d)) (hdepth : vdepth (Prim.dict d) ≤ maxDepth)
    {buf : Buf} (hsz : buf.size ≤ 2147483647) (fuel pfuel p : Nat) (hf : subs.length < fuel)
    (hpf : need (Prim.dict d) ≤ pfuel)
    (h : Suffix buf p (g1 ++ tbl ++ XrefTable.kwTrailer ++ g2 ++ dtxt ++ rest))
    (hah : Ahead buf (p + (g1 ++ tbl ++ XrefTable.kwTrailer ++ g2 ++ dtxt).length)) :
    parseXrefTableAndTrailer env buf fuel pfuel p
      = .ok ((subs, d), p + (g1 ++ tbl ++ XrefTable.kwTrailer ++ g2 ++ dtxt).length) := by
  obtain ⟨x, hx⟩ := spells_dict_head env.parseReal d dtxt hsp
  have hb : Bnd (g2 ++ dtxt ++ rest) := by
    subst hx
    simpa using gap_bnd_delim hg2 (x ++ rest)
  have h1 : Suffix buf p (g1 ++ tbl ++ XrefTable.kwTrailer ++ (g2 ++ dtxt ++ rest)) := by simpa using h
  have ht := parseTable_spec subs g1 tbl _ hg1 htt hb fuel p hf h1
  have h2 : Suffix buf (p + (g1 ++ tbl ++ XrefTable.kwTrailer).length) (g2 ++ dtxt ++ rest) := by
    have := Suffix.drop (a := g1 ++ tbl ++ XrefTable.kwTrailer) (by simpa using h1)
    simpa using this
  have hd2 := trailerDict_spec env hd d dtxt hsp hwf hsz g2 rest _ pfuel hg2 h2
    (by
      have e : p + (g1 ++ tbl ++ XrefTable.kwTrailer).length + g2.length + dtxt.length
          = p + (g1 ++ tbl ++ XrefTable.kwTrailer ++ g2 ++ dtxt).length := by simp; omega
      rw [e]; exact hah) hpf hdepth
  simp only [parseXrefTableAndTrailer, ht, hd2]
  congr 2
  simp; omega

/-- **`read_xref_and_trailer_at`** on a whole classic section (`SectionText`): whatever the stream branch
    `stm` would do, the keyword `xref` selects the table reader, which returns the subsections and the trailer -/
theorem readXrefAndTrailerAt_table (env : Env R) (hd : env.decrypt = none)
    (stm : Buf → Nat → Out (List Sub × Dict R)) (subs : List Sub) (d : Dict R)
    (dtxt txt rest : List UInt8) (hst : SectionText subs dtxt txt)
    (hsp : Spells env.parseReal (.dict d) dtxt) (hwf : WF (Prim.dict d)) (hdepth : vdepth (Prim.dict d) ≤ maxDepth)
    {buf : Buf} (hsz : buf.size ≤ 2147483647) (fuel pfuel p : Nat) (hf : subs.length < fuel)
    (hpf : need (Prim.dict d) ≤ pfuel) (h : Suffix buf p (txt ++ rest)) (hah : Ahead buf (p + txt.length)) :
    readXrefAndTrailerAt env stm buf fuel pfuel p = .ok (subs, d) := by
  obtain ⟨g0, g1, tbl, g2, rfl, hg0, hg1, htt, hg2⟩ := hst
  have hk : XrefTableSpec.kwTrailer = XrefTable.kwTrailer := rfl
  have hkx : XrefTableSpec.kwXref = XrefTable.kwXref := rfl
  rw [hk, hkx] at h hah
  have h1 : Suffix buf p (g0 ++ XrefTable.kwXref ++ (g1 ++ tbl ++ XrefTable.kwTrailer ++ g2 ++ dtxt ++ rest)) := by
    simpa using h
  obtain ⟨hn, hsl⟩ := next_regular g0 XrefTable.kwXref _ p hg0 h1 (by decide) kw_xref_regular
    (by simpa using gap_bnd hg1.1 hg1.2 (tbl ++ XrefTable.kwTrailer ++ g2 ++ dtxt ++ rest))
  have h2 : Suffix buf (p + g0.length + XrefTable.kwXref.length)
      (g1 ++ tbl ++ XrefTable.kwTrailer ++ g2 ++ dtxt ++ rest) := by
    have := Suffix.drop (a := g0 ++ XrefTable.kwXref) (by simpa using h1)
    simpa [Nat.add_assoc] using this
  have hp := parseXrefTableAndTrailer_spec env hd subs d g1 tbl g2 dtxt rest hg1.1 htt hg2 hsp hwf hdepth hsz
    fuel pfuel _ hf hpf h2
    (by
      have e : p + g0.length + XrefTable.kwXref.length + (g1 ++ tbl ++ XrefTable.kwTrailer ++ g2 ++ dtxt).length
          = p + (g0 ++ XrefTable.kwXref ++ g1 ++ tbl ++ XrefTable.kwTrailer ++ g2 ++ dtxt).length := by
        simp; omega
      rw [e]; exact hah)
  simp [readXrefAndTrailerAt, hn, hsl, hp]

end XrefTable
