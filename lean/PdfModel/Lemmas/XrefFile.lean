import PdfModel.Lemmas.XrefTable
import PdfModel.Lemmas.XrefWalk
import PdfModel.Lemmas.Sequence
import PdfModel.Model.XrefFile

/-! The concrete section reader (`XrefTable.xrefAt`) satisfies the contract `Offsets.ReadsAt` of the
    `/Prev` walk on every classic section a conforming writer emits. -/

namespace XrefTable
open PdfLex Xref XrefTableSpec
open PdfSyntax (Gap Bnd NatTok Spells WF vdepth need)

variable {R V : Type}

theorem subText_ne_nil (s : Sub) (t : List UInt8) (h : SubText s t) : 1 ≤ t.length := by
  obtain ⟨a, g1, b, g2, body, rfl, ha, _⟩ := h
  have : a ≠ [] := ha.1
  cases a with
  | nil => exact absurd rfl this
  | cons x xs => simp

theorem tableText_length (subs : List Sub) (tbl : List UInt8) (h : TableText subs tbl) : subs.length ≤ tbl.length := by
  induction h with
  | nil => simp
  | cons s ss t ts hs _ ih =>
    have := subText_ne_nil s t hs
    simp; omega

/-- a classic section, written in any conforming layout, at the beginning of `txt ++ rest`:
    the section reader returns its subsections and its trailer dictionary -/
theorem xrefAt_table (env : Env R) (hd : env.decrypt = none) (stm : Buf → Nat → Out (List Sub × Dict R))
    (subs : List Sub) (d : Dict R) (dtxt txt rest : List UInt8) (hst : SectionText subs dtxt txt)
    (hsp : Spells env.parseReal (.dict d) dtxt) (hwf : WF (Prim.dict d)) (hdepth : vdepth (Prim.dict d) ≤ maxDepth)
    (hsz : (txt ++ rest).length ≤ 2147483647) (hah : Ahead (txt ++ rest).toArray txt.length) :
    xrefAt env stm (txt ++ rest) = .ok (subs, d) := by
  unfold xrefAt
  have hsec := hst
  obtain ⟨g0, g1, tbl, g2, htxt, _, _, htt, _⟩ := hst
  have hlen := tableText_length subs tbl htt
  have hneed := need_bound env.parseReal (.dict d) dtxt hsp
  apply readXrefAndTrailerAt_table env hd stm subs d dtxt txt rest hsec hsp hwf hdepth (by simpa using hsz)
  · simp only [XrefTable.defaultFuel]
    have : tbl.length ≤ (txt ++ rest).length := by rw [htxt]; simp; omega
    simp at this ⊢; omega
  · simp only [PdfLex.defaultFuel]
    have : dtxt.length ≤ (txt ++ rest).length := by rw [htxt]; simp; omega
    simp at this ⊢; omega
  · simpa using suffix_zero (txt ++ rest)
  · simpa using hah

/-- a classic section at offset `off` of a file (relative to the header at `start`) -/
def ClassicAt (env : Env R) (buf : List UInt8) (start : Nat) (r : Offsets.Rev (Dict R)) : Prop :=
  ∃ dtxt txt rest, buf.drop (start + r.off) = txt ++ rest ∧ start + r.off ≤ buf.length ∧
    SectionText r.subs dtxt txt ∧ Spells env.parseReal (.dict r.trailer) dtxt ∧ WF (Prim.dict r.trailer) ∧
    vdepth (Prim.dict r.trailer) ≤ maxDepth ∧ Ahead (txt ++ rest).toArray txt.length

theorem readsAt_classic (env : Env R) (hd : env.decrypt = none) (stm : Buf → Nat → Out (List Sub × Dict R))
    (base : Offsets.Parsers V (Dict R)) (buf : List UInt8) (start : Nat) (r : Offsets.Rev (Dict R))
    (hsz : buf.length ≤ 2147483647) (h : ClassicAt env buf start r) :
    Offsets.ReadsAt (fileParsers env stm base) buf start r := by
  obtain ⟨dtxt, txt, rest, hdrop, hle, hst, hsp, hwf, hdepth, hah⟩ := h
  refine ⟨by unfold OffLex.usizeMax; omega, hle, ?_⟩
  show xrefAt env stm (buf.drop (start + r.off)) = _
  rw [hdrop]
  apply xrefAt_table env hd stm r.subs r.trailer dtxt txt rest hst hsp hwf hdepth _ hah
  have : (buf.drop (start + r.off)).length ≤ buf.length := by simp
  rw [hdrop] at this; omega

/-- the `/Prev` links as they stand in the trailer dictionaries -/
def PrevLinked : List (Offsets.Rev (Dict R)) → Prop
  | [] => True
  | [r] => dictGet r.trailer keyPrev = none
  | r :: r' :: rest => dictGet r.trailer keyPrev = some (.int (r'.off : Int)) ∧ PrevLinked (r' :: rest)

theorem linked_of_prevLinked (env : Env R) (stm : Buf → Nat → Out (List Sub × Dict R))
    (base : Offsets.Parsers V (Dict R)) :
    ∀ chain : List (Offsets.Rev (Dict R)), PrevLinked chain → Offsets.Linked (fileParsers env stm base) chain := by
  intro chain
  induction chain with
  | nil => intro _; trivial
  | cons r rest ih =>
    intro h
    cases rest with
    | nil =>
      show trailerPrev r.trailer = none
      simp only [PrevLinked] at h
      simp [trailerPrev, h]
    | cons r' rest' =>
      obtain ⟨h1, h2⟩ := h
      refine ⟨?_, ih h2⟩
      show trailerPrev r.trailer = _
      simp [trailerPrev, h1, asUnsigned]

end XrefTable
