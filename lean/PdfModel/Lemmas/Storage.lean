import PdfModel.Model.Storage
import PdfModel.Lemmas.Xref

/-! Helper lemmas for C09 / C10: the finite map `changes`, lookups in an append-only backend, the loop of
    `save` over the changes, `write_stream` rows, the `/Prev` walk, and the table a reload rebuilds. -/

namespace Storage
open Xref

variable {V : Type}

/-! ### `changes` -/

theorem chLookup_chInsert (l : List (Nat × V × Nat)) (id : Nat) (x : V × Nat) (j : Nat) :
    chLookup (chInsert l id x) j = if j = id then some x else chLookup l j := by
  induction l with
  | nil => simp only [chInsert, chLookup]; split <;> simp_all [eq_comm]
  | cons h t ih =>
    obtain ⟨i, y⟩ := h
    simp only [chInsert]
    split
    · simp only [chLookup]; split <;> simp_all [eq_comm]
    · split
      · subst_vars
        simp only [chLookup]
        split <;> simp_all [eq_comm]
      · simp only [chLookup, ih]
        split
        · subst_vars; split <;> simp_all
        · rfl

def keys (l : List (Nat × V × Nat)) : List Nat := l.map (·.1)

theorem mem_keys_chInsert (l : List (Nat × V × Nat)) (id : Nat) (x : V × Nat) (j : Nat) :
    j ∈ keys (chInsert l id x) ↔ j = id ∨ j ∈ keys l := by
  induction l with
  | nil => simp [chInsert, keys]
  | cons h t ih =>
    obtain ⟨i, y⟩ := h
    simp only [chInsert]
    split
    · simp [keys]
    · split
      · subst_vars; simp [keys]
      · simp only [keys, List.map_cons, List.mem_cons] at ih ⊢
        rw [ih]
        constructor
        · rintro (h | h | h) <;> simp [h]
        · rintro (h | h | h) <;> simp [h]

theorem chLookup_none_iff (l : List (Nat × V × Nat)) (j : Nat) : chLookup l j = none ↔ j ∉ keys l := by
  induction l with
  | nil => simp [chLookup, keys]
  | cons h t ih =>
    obtain ⟨i, y⟩ := h
    simp only [chLookup, keys, List.map_cons, List.mem_cons]
    split
    · subst_vars; simp
    · rw [ih]; simp only [keys]; constructor
      · intro h1 h2; rcases h2 with h2 | h2
        · exact absurd h2.symm ‹_›
        · exact h1 h2
      · intro h1 h2; exact h1 (Or.inr h2)

/-- strictly increasing keys: what `chInsert` maintains (and more than `save` needs: distinct keys) -/
def Sorted : List (Nat × V × Nat) → Prop
  | [] => True
  | (i, _) :: rest => (∀ k ∈ keys rest, i < k) ∧ Sorted rest

theorem sorted_chInsert (l : List (Nat × V × Nat)) (id : Nat) (x : V × Nat) (h : Sorted l) :
    Sorted (chInsert l id x) := by
  induction l with
  | nil => simp [chInsert, Sorted, keys]
  | cons hd t ih =>
    obtain ⟨i, y⟩ := hd
    obtain ⟨h1, h2⟩ := h
    simp only [chInsert]
    split
    · refine ⟨?_, h1, h2⟩
      intro k hk
      simp only [keys, List.map_cons, List.mem_cons] at hk
      rcases hk with hk | hk
      · omega
      · have := h1 k hk; omega
    · split
      · subst_vars; exact ⟨h1, h2⟩
      · refine ⟨?_, ih h2⟩
        intro k hk
        rw [mem_keys_chInsert] at hk
        rcases hk with hk | hk
        · omega
        · exact h1 k hk

theorem chLookup_head_of_sorted (i : Nat) (y : V × Nat) (rest : List (Nat × V × Nat)) (h : Sorted ((i, y) :: rest)) :
    chLookup rest i = none := by
  rw [chLookup_none_iff]
  intro hk
  have := h.1 i hk
  omega

/-! ### lookups in the backend -/

theorem objAt_append_left (a b : List (Obj V)) (off : Nat) (o : Obj V) (h : objAt a off = some o) :
    objAt (a ++ b) off = some o := by
  simp only [objAt] at h ⊢
  simp [List.find?_append, h]

theorem objAt_append_right (a b : List (Obj V)) (off : Nat) (h : ∀ o ∈ a, o.off ≠ off) :
    objAt (a ++ b) off = objAt b off := by
  have : objAt a off = none := by
    simp only [objAt, List.find?_eq_none]
    intro o ho; simp; exact h o ho
  simp only [objAt] at this ⊢
  simp [List.find?_append, this]

theorem objAt_append_old (a b : List (Obj V)) (off : Nat) (h : ∀ o ∈ b, o.off ≠ off) :
    objAt (a ++ b) off = objAt a off := by
  have : objAt b off = none := by
    simp only [objAt, List.find?_eq_none]
    intro o ho; simp; exact h o ho
  simp only [objAt] at this ⊢
  simp [List.find?_append, this]

theorem objAt_off (a : List (Obj V)) (off : Nat) (o : Obj V) (h : objAt a off = some o) : o.off = off ∧ o ∈ a := by
  simp only [objAt] at h
  have h1 := List.find?_some h
  have h2 := List.mem_of_find?_eq_some h
  simp at h1
  exact ⟨h1, h2⟩

theorem secAt_append_left (a b : List Sec) (off : Nat) (s : Sec) (h : secAt a off = some s) :
    secAt (a ++ b) off = some s := by
  simp only [secAt] at h ⊢
  simp [List.find?_append, h]

theorem secAt_append_right (a b : List Sec) (off : Nat) (h : ∀ s ∈ a, s.off ≠ off) :
    secAt (a ++ b) off = secAt b off := by
  have : secAt a off = none := by
    simp only [secAt, List.find?_eq_none]
    intro o ho; simp; exact h o ho
  simp only [secAt] at this ⊢
  simp [List.find?_append, this]

/-! ### the loop of `save` over the changes -/

theorem chLookup_cons (i : Nat) (y : V × Nat) (rest : List (Nat × V × Nat)) (j : Nat) :
    chLookup ((i, y) :: rest) j = if i = j then some y else chLookup rest j := rfl

/-- what `writeChanges` leaves behind, whatever the outcome -/
theorem writeChanges_frame (P : Params V) (L : Layout) (start : Nat) :
    ∀ (ch : List (Nat × V × Nat)) (w w' : Written V) (o : Out Unit),
      writeChanges P L start ch w = (w', o) → Sorted ch →
      w'.refs.length = w.refs.length ∧
      (∀ id, chLookup ch id = none → w'.refs[id]? = w.refs[id]?) ∧
      (∀ id v g, chLookup ch id = some (v, g) →
          w'.refs[id]? = w.refs[id]? ∨ ∃ pos, w'.refs[id]? = some (.raw pos g)) ∧
      o ≠ .oof := by
  intro ch
  induction ch with
  | nil =>
    intro w w' o h _
    simp only [writeChanges, Prod.mk.injEq] at h
    obtain ⟨rfl, rfl⟩ := h
    refine ⟨rfl, fun _ _ => rfl, ?_, by simp⟩
    intro id v g h; simp [chLookup] at h
  | cons hd rest ih =>
    obtain ⟨i, v0, g0⟩ := hd
    intro w w' o h hs
    have hnone : chLookup rest i = none := chLookup_head_of_sorted i (v0, g0) rest hs
    simp only [writeChanges] at h
    split at h
    · rename_i hlt
      split at h
      · -- serialisable: recurse
        obtain ⟨h1, h2, h3, h4⟩ := ih _ _ _ h hs.2
        simp only [List.length_set] at h1
        refine ⟨h1, ?_, ?_, h4⟩
        · intro id hid
          rw [chLookup_cons] at hid
          split at hid
          · simp at hid
          · rename_i hne
            rw [h2 id hid]
            simp [hne]
        · intro id v g hid
          rw [chLookup_cons] at hid
          split at hid
          · rename_i heq
            subst heq
            simp only [Option.some.injEq, Prod.mk.injEq] at hid
            obtain ⟨rfl, rfl⟩ := hid
            right
            refine ⟨w.len - start, ?_⟩
            rw [h2 i hnone]
            simp [hlt]
          · rename_i hne
            rcases h3 id v g hid with h | ⟨pos, h⟩
            · left; rw [h]; simp [hne]
            · right; exact ⟨pos, h⟩
      · -- not serialisable
        simp only [Prod.mk.injEq] at h
        obtain ⟨rfl, rfl⟩ := h
        refine ⟨by simp, ?_, ?_, by simp⟩
        · intro id hid
          rw [chLookup_cons] at hid
          split at hid
          · simp at hid
          · rename_i hne; simp [hne]
        · intro id v g hid
          rw [chLookup_cons] at hid
          split at hid
          · rename_i heq; subst heq
            simp only [Option.some.injEq, Prod.mk.injEq] at hid
            obtain ⟨rfl, rfl⟩ := hid
            right; exact ⟨w.len - start, by simp [hlt]⟩
          · rename_i hne; left; simp [hne]
    · simp only [Prod.mk.injEq] at h
      obtain ⟨rfl, rfl⟩ := h
      exact ⟨rfl, fun _ _ => rfl, fun _ _ _ _ => Or.inl rfl, by simp⟩

/-- a successful run of the loop: every change got a record at a fresh offset and its row points there -/
theorem writeChanges_ok (P : Params V) (L : Layout) (start : Nat) (hL : ∀ id, 0 < L.recLen id) :
    ∀ (ch : List (Nat × V × Nat)) (w w' : Written V),
      writeChanges P L start ch w = (w', .ok ()) → Sorted ch → (∀ x ∈ w.objs, x.off < w.len) →
      w.len ≤ w'.len ∧
      (∃ ext, w'.objs = w.objs ++ ext ∧ ∀ x ∈ ext, w.len ≤ x.off) ∧
      (∀ x ∈ w'.objs, x.off < w'.len) ∧
      (∀ id v g, chLookup ch id = some (v, g) → id < w.refs.length ∧ P.ok v = true ∧
        ∃ off, w.len ≤ off ∧ w'.refs[id]? = some (.raw (off - start) g) ∧
          objAt w'.objs off = some ⟨off, id, g, v, []⟩) := by
  intro ch
  induction ch with
  | nil =>
    intro w w' h _ hw
    simp only [writeChanges, Prod.mk.injEq] at h
    obtain ⟨rfl, _⟩ := h
    refine ⟨Nat.le_refl _, ⟨[], by simp⟩, hw, ?_⟩
    intro id v g h; simp [chLookup] at h
  | cons hd rest ih =>
    obtain ⟨i, v0, g0⟩ := hd
    intro w w' h hs hw
    have hnone : chLookup rest i = none := chLookup_head_of_sorted i (v0, g0) rest hs
    simp only [writeChanges] at h
    split at h
    · rename_i hlt
      split at h
      · rename_i hok
        have hw1 : ∀ x ∈ (w.objs ++ [(⟨w.len, i, g0, v0, []⟩ : Obj V)]), x.off < w.len + L.recLen i := by
          intro x hx
          simp only [List.mem_append, List.mem_singleton] at hx
          rcases hx with hx | rfl
          · have := hw x hx; omega
          · have := hL i; simp; omega
        obtain ⟨k1, ⟨ext, k2, k3⟩, k4, k5⟩ := ih _ _ h hs.2 hw1
        obtain ⟨f1, f2, _, _⟩ := writeChanges_frame P L start _ _ _ _ h hs.2
        simp only at k1 k2 k3 k4 k5 f1 f2
        refine ⟨by have := hL i; omega, ⟨(⟨w.len, i, g0, v0, []⟩ : Obj V) :: ext, by simp [k2], ?_⟩, k4, ?_⟩
        · intro x hx
          simp only [List.mem_cons] at hx
          rcases hx with rfl | hx
          · simp
          · have := k3 x hx; have := hL i; omega
        · intro id v g hid
          rw [chLookup_cons] at hid
          split at hid
          · rename_i heq; subst heq
            simp only [Option.some.injEq, Prod.mk.injEq] at hid
            obtain ⟨rfl, rfl⟩ := hid
            refine ⟨hlt, hok, w.len, Nat.le_refl _, ?_, ?_⟩
            · rw [f2 i hnone]; simp [hlt]
            · rw [k2, List.append_assoc, objAt_append_right]
              · simp [objAt]
              · intro o ho; have := hw o ho; omega
          · obtain ⟨a1, a2, off, a3, a4, a5⟩ := k5 id v g hid
            simp only [List.length_set] at a1
            exact ⟨a1, a2, off, by have := hL i; omega, a4, a5⟩
      · simp at h
    · simp at h

/-- every pending value can be serialised -/
def allOk (P : Params V) (ch : List (Nat × V × Nat)) : Bool := ch.all (fun x => P.ok x.2.1)

/-- the loop fails exactly on an unserialisable change -/
theorem writeChanges_outcome (P : Params V) (L : Layout) (start : Nat) :
    ∀ (ch : List (Nat × V × Nat)) (w : Written V), (∀ id ∈ keys ch, id < w.refs.length) →
      (writeChanges P L start ch w).2 = if allOk P ch then Out.ok () else Out.err := by
  intro ch
  induction ch with
  | nil => intro w _; simp [writeChanges, allOk]
  | cons hd rest ih =>
    obtain ⟨i, v0, g0⟩ := hd
    intro w hk
    have hlt : i < w.refs.length := hk i (by simp [keys])
    simp only [writeChanges, hlt, if_true]
    cases hok : P.ok v0 with
    | true =>
      simp only [if_true]
      rw [ih]
      · simp only [allOk, List.all_cons, hok, Bool.true_and]
        first | rfl | congr
      · intro id hid; simp only [List.length_set]; exact hk id (by simp [keys] at hid ⊢; exact Or.inr hid)
    | false => simp [allOk, hok]

/-! ### `write_stream` rows -/

theorem rowOf_isEntry (e r : XRef) (h : rowOf e = some r) : isEntry r = true := by
  cases e <;> simp [rowOf] at h <;> subst h <;> rfl

theorem rowOf_some_of_ne (e : XRef) (h : e ≠ .promised) : ∃ r, rowOf e = some r := by
  cases e <;> simp_all [rowOf]

theorem rowsOf_spec : ∀ (t rows : List XRef), rowsOf t = some rows →
    rows.length = t.length ∧ ∀ (j : Nat) (e : XRef), t[j]? = some e → ∃ r, rowOf e = some r ∧ rows[j]? = some r := by
  intro t
  induction t with
  | nil => intro rows h; simp [rowsOf] at h; subst h; simp
  | cons e es ih =>
    intro rows h
    simp only [rowsOf] at h
    split at h
    · rename_i r rs hr hrs
      simp only [Option.some.injEq] at h; subst h
      obtain ⟨h1, h2⟩ := ih rs hrs
      refine ⟨by simp [h1], ?_⟩
      intro j e' hj
      cases j with
      | zero => simp at hj; subst hj; exact ⟨r, hr, by simp⟩
      | succ j => simp at hj; obtain ⟨r', a, b⟩ := h2 j e' hj; exact ⟨r', a, by simp [b]⟩
    · simp at h

theorem rowsOf_isSome : ∀ (t : List XRef), (∀ e ∈ t, e ≠ .promised) → ∃ rows, rowsOf t = some rows := by
  intro t
  induction t with
  | nil => intro _; exact ⟨[], rfl⟩
  | cons e es ih =>
    intro h
    obtain ⟨r, hr⟩ := rowOf_some_of_ne e (h e (by simp))
    obtain ⟨rs, hrs⟩ := ih (fun x hx => h x (by simp [hx]))
    exact ⟨r :: rs, by simp [rowsOf, hr, hrs]⟩

theorem rowsOf_none_of_promised : ∀ (t : List XRef), .promised ∈ t → rowsOf t = none := by
  intro t
  induction t with
  | nil => intro h; simp at h
  | cons e es ih =>
    intro h
    simp only [List.mem_cons] at h
    rcases h with h | h
    · subst h; simp [rowsOf, rowOf]
    · simp only [rowsOf, ih h]
      split <;> simp_all

theorem rows_all_entries (t rows : List XRef) (h : rowsOf t = some rows) : ∀ r ∈ rows, isEntry r = true := by
  intro r hr
  obtain ⟨h1, h2⟩ := rowsOf_spec t rows h
  obtain ⟨j, hj⟩ := List.getElem?_of_mem hr
  have hjl : j < t.length := by
    have := (List.getElem?_eq_some_iff.mp hj).1
    omega
  obtain ⟨r', a, b⟩ := h2 j t[j] (by simp [hjl])
  rw [hj] at b; simp at b; subst b
  exact rowOf_isEntry _ _ a

/-! ### the `/Prev` walk -/

/-- more fuel and more (appended) sections do not change a walk that succeeded -/
theorem prevChain_mono (secs ext : List Sec) (start : Nat) :
    ∀ (fuel fuel' : Nat) (p : Option Nat) (seen : List Nat) (r : List (List Sub)),
      prevChain secs start fuel p seen = .ok r → fuel ≤ fuel' →
      prevChain (secs ++ ext) start fuel' p seen = .ok r := by
  intro fuel
  induction fuel with
  | zero =>
    intro fuel' p seen r h _
    cases p with
    | none => cases fuel' <;> simpa [prevChain] using h
    | some p => simp [prevChain] at h
  | succ f ih =>
    intro fuel' p seen r h hle
    cases p with
    | none => cases fuel' <;> simpa [prevChain] using h
    | some p =>
      cases fuel' with
      | zero => omega
      | succ f' =>
        simp only [prevChain] at h ⊢
        split at h
        · simp at h
        · rename_i hseen
          simp only [hseen]
          cases hs : secAt secs (start + p) with
          | none => simp [hs] at h
          | some s =>
            simp only [hs] at h
            rw [secAt_append_left _ _ _ _ hs]
            simp only
            cases hr : prevChain secs start f s.prev (p :: seen) with
            | ok r' =>
              simp only [hr, Out.ok.injEq] at h
              rw [ih f' s.prev (p :: seen) r' hr (by omega)]
              simp [h]
            | err => simp [hr] at h
            | panic => simp [hr] at h
            | oof => simp [hr] at h

/-! ### the table a reload rebuilds from a full first section followed by older ones -/

theorem mentions_append (a b : List (Nat × XRef)) (j : Nat) :
    mentions (a ++ b) j = mentions a j ++ mentions b j := by
  simp [mentions, List.filter_append]

theorem mentions_pairsFrom (rows : List XRef) : ∀ (i j : Nat),
    mentions (pairsFrom i rows) j = if i ≤ j then (rows[j - i]?).toList else [] := by
  induction rows with
  | nil => intro i j; simp [pairsFrom, mentions]
  | cons r rs ih =>
    intro i j
    simp only [pairsFrom]
    have hcons : mentions ((i, r) :: pairsFrom (i + 1) rs) j =
        (if i = j then [r] else []) ++ mentions (pairsFrom (i + 1) rs) j := by
      simp only [mentions, List.filter_cons]
      by_cases h : i = j
      · simp [h]
      · have : (i == j) = false := by simpa using h
        simp [h, this]
    rw [hcons, ih]
    by_cases h1 : i = j
    · subst h1
      have h3 : ¬ (i + 1 ≤ i) := by omega
      simp [h3]
    · by_cases h2 : i ≤ j
      · have h3 : i + 1 ≤ j := by omega
        have h4 : j - i = (j - (i + 1)) + 1 := by omega
        simp [h1, h2, h3, h4]
      · have h3 : ¬ (i + 1 ≤ j) := by omega
        simp [h1, h2, h3]

theorem mem_mentions (ps : List (Nat × XRef)) (j : Nat) (m : XRef) (h : m ∈ mentions ps j) : (j, m) ∈ ps := by
  simp only [mentions, List.mem_map, List.mem_filter] at h
  obtain ⟨p, ⟨hp, hj⟩, rfl⟩ := h
  have : p.1 = j := by simpa using hj
  rw [← this]; exact hp

theorem pureAdd_length (t : Table) (ps : List (Nat × XRef)) : (pureAdd t ps).length = t.length := by
  induction ps generalizing t with
  | nil => rfl
  | cons p ps ih => simp only [pureAdd, List.foldl_cons] at *; rw [ih, setAt_length]

theorem newTable_noProm (size : Nat) : noProm (newTable size) := by
  intro e he; simp [newTable] at he; rcases he with ⟨_, rfl⟩ | rfl <;> simp

theorem reload_table (size : Nat) (rows : List XRef) (chain : List (List Sub))
    (hrows : ∀ r ∈ rows, isEntry r = true) (hlen : rows.length ≤ size)
    (hent : pairsOK (allPairs chain))
    (hdom : ∀ p ∈ allPairs chain, ∃ r, rows[p.1]? = some r ∧ gen p.2 ≤ gen r) :
    ∃ t, mergeAll (newTable size) ([⟨0, rows⟩] :: chain) = .ok t ∧ t.length = size + 1 ∧
      (∀ (j : Nat) (r : XRef), rows[j]? = some r → t[j]? = some r) ∧
      (∀ j : Nat, rows.length ≤ j → t[j]? = (newTable size)[j]?) := by
  have hall : allPairs ([⟨0, rows⟩] :: chain) = pairsFrom 0 rows ++ allPairs chain := by
    simp [allPairs, secPairs, subPairs]
  have hrowsOK : pairsOK (pairsFrom 0 rows) := by
    intro p hp
    have : p.2 ∈ mentions (pairsFrom 0 rows) p.1 := by
      simp only [mentions, List.mem_map, List.mem_filter]
      exact ⟨p, ⟨hp, by simp⟩, rfl⟩
    rw [mentions_pairsFrom] at this
    simp only [Nat.zero_le, if_true, Nat.sub_zero] at this
    cases hr : rows[p.1]? with
    | none => simp [hr] at this
    | some r =>
      simp [hr] at this
      rw [this]; exact hrows r (List.mem_of_getElem? hr)
  have hok : pairsOK (allPairs ([⟨0, rows⟩] :: chain)) := by
    rw [hall]; intro p hp
    rcases List.mem_append.mp hp with h | h
    · exact hrowsOK p h
    · exact hent p h
  refine ⟨_, mergeAll_eq _ _ (newTable_noProm size) hok, ?_, ?_, ?_⟩
  · rw [pureAdd_length]; simp [newTable]
  · intro j r hj
    have hjl : j < rows.length := (List.getElem?_eq_some_iff.mp hj).1
    rw [pureAdd_get, hall, mentions_append, mentions_pairsFrom]
    have h1 : (newTable size)[j]? = some .invalid := by
      simp [newTable, List.getElem?_append_left, show j < size by omega]
    simp only [Nat.zero_le, if_true, Nat.sub_zero, hj, h1, Option.map_some, Option.toList_some,
      List.singleton_append, mergeList_invalid]
    congr 1
    apply mergeList_keep r (hrows r (List.mem_of_getElem? hj))
    right
    intro m hm
    obtain ⟨r', hr', hg⟩ := hdom (j, m) (mem_mentions _ _ _ hm)
    simp only at hr' hg
    rw [hj] at hr'; simp at hr'; subst hr'
    exact hg
  · intro j hj
    rw [pureAdd_get, hall, mentions_append, mentions_pairsFrom]
    have h1 : rows[j]? = none := by simp [hj]
    have h2 : mentions (allPairs chain) j = [] := by
      cases hm : mentions (allPairs chain) j with
      | nil => rfl
      | cons m ms =>
        have : m ∈ mentions (allPairs chain) j := by rw [hm]; simp
        obtain ⟨r', hr', _⟩ := hdom (j, m) (mem_mentions _ _ _ this)
        simp only at hr'
        rw [h1] at hr'; simp at hr'
    simp only [Nat.zero_le, if_true, Nat.sub_zero, h1, h2, Option.toList_none, List.append_nil]
    cases (newTable size)[j]? <;> simp [mergeList]

end Storage
