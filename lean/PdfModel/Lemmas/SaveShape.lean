import PdfModel.Lemmas.StorageReload

/-! The shape of the revision a successful `save` appends (for C10's structural-validity theorems). -/

namespace Storage
open Xref

variable {V : Type}

theorem save_ok_widths_c (P : Params V) (L : Layout) (d d' : Doc V) (i : SaveInfo) (h : Committed P L d d'.st i) :
    (i.aw, i.bw) = widths d'.st.refs := by
  obtain ⟨w, rows, hw, hr, hst, hl, _, _, _, _, _⟩ := h.spec'
  have hrefs : d'.st.refs = w.refs.set (prep d).xid (.raw (w.len - (prep d).st2.start) 0) := by rw [hst]; rfl
  rw [hrefs]
  have := h.info w rows hw hr
  rw [this]; rfl

theorem save_ok_widths (P : Params V) (L : Layout) (d d' : Doc V) (i : SaveInfo) (h : save P L d = (d', .ok i)) :
    (i.aw, i.bw) = widths d'.st.refs :=
  save_ok_widths_c P L d d' i (committed_of_ok P L d d' i h)

theorem writeChanges_ext_ids (P : Params V) (L : Layout) (start : Nat) :
    ∀ (ch : List (Nat × V × Nat)) (w0 w1 : Written V), writeChanges P L start ch w0 = (w1, .ok ()) →
      ∃ ext, w1.objs = w0.objs ++ ext ∧ ∀ x ∈ ext, x.id < w0.refs.length := by
  intro ch
  induction ch with
  | nil =>
    intro w0 w1 hh
    simp only [writeChanges, Prod.mk.injEq] at hh
    exact ⟨[], by rw [← hh.1]; simp, by intro x hx; cases hx⟩
  | cons hd rest ih =>
    obtain ⟨id, v, g⟩ := hd
    intro w0 w1 hh
    simp only [writeChanges] at hh
    split at hh
    · rename_i hlt
      split at hh
      · obtain ⟨ext, a, b⟩ := ih _ _ hh
        simp only [List.length_set] at a b
        refine ⟨(⟨w0.len, id, g, v, []⟩ : Obj V) :: ext, by rw [a]; simp, ?_⟩
        intro x hx
        simp only [List.mem_cons] at hx
        rcases hx with rfl | hx
        · exact hlt
        · exact b x hx
      · simp at hh
    · simp at hh

structure SaveShape (P : Params V) (d d' : Doc V) (i : SaveInfo) : Prop where
  /-- `startxref` points at the new cross-reference section, which lists rows `0 .. rows.length` -/
  section_at : ∃ s, secAt d'.st.secs (d'.st.start + i.xpos) = some s ∧ s.subs = [⟨0, i.rows⟩] ∧ s.size = i.size ∧
      s.root = d.tr.root ∧ s.prev = d.tr.prev
  rows_len : i.rows.length = i.xid + 1 ∧ i.xid + 1 ≤ i.size
  table_len : d'.st.refs.length = i.xid + 1
  /-- every row is the entry of the table (an undefined number as a free entry) -/
  rows_of_table : ∀ (j : Nat) (e : XRef), d'.st.refs[j]? = some e → ∃ r, rowOf e = some r ∧ i.rows[j]? = some r
  /-- the row of every object written by this save points at the record of that object -/
  pending : ∀ (j : Nat) (v : V) (g : Nat), chLookup d'.st.changes j = some (v, g) →
      ∃ off, d'.st.start ≤ off ∧ i.rows[j]? = some (.raw (off - d'.st.start) g) ∧
        ∃ o, objAt d'.st.objs off = some o ∧ o.off = off ∧ o.id = j ∧ o.gen = g ∧ (j ≠ i.xid → o.val = v)
  /-- every object appended has a number below /Size -/
  ids_lt : ∃ ext, d'.st.objs = d.st.objs ++ ext ∧ ∀ o ∈ ext, o.id < i.size
  xid_fresh : d.st.refs.length ≤ i.xid

theorem save_shape_c (P : Params V) (L : Layout) (hL : L.Pos) (d0 d d' : Doc V) (chain0) (i : SaveInfo)
    (hb : BaseOK d0 chain0) (hi : Inv d0 d) (h : Committed P L d d'.st i) : SaveShape P d d' i := by
  have pf := prep_facts d0 d chain0 hb hi
  obtain ⟨w, rows, hw, hr, hst, hl, hxid, hxpos, hsize, hrows, _⟩ := h.spec'
  have hinfo := (h.info w rows hw hr).symm
  subst hrows
  obtain ⟨f1, f2, f3, _⟩ := writeChanges_frame P L _ _ _ _ _ hw pf.inv.sorted
  obtain ⟨k1, ⟨ext, k2, k3⟩, k4, k5⟩ := writeChanges_ok P L _ hL.1 _ _ _ hw pf.inv.sorted pf.inv.objs_lt
  simp only at f1 f2 f3 k1 k2 k3 k4 k5
  have hxlt : (prep d).xid < w.refs.length := by rw [f1, pf.len_eq]; omega
  have hstart : (prep d).st2.start ≤ (prep d).st2.len := by
    have := hb.start_le; have := pf.inv.start_eq; have := pf.inv.len_ge
    simp only at *; omega
  have hlen4 : (w.refs.set (prep d).xid (.raw (w.len - (prep d).st2.start) 0)).length = (prep d).xid + 1 := by
    rw [List.length_set, f1, pf.len_eq]
  rw [take_all _ _ (by omega)] at hr
  obtain ⟨r1, r2⟩ := rowsOf_spec _ _ hr
  have hrefs : d'.st.refs = w.refs.set (prep d).xid (.raw (w.len - (prep d).st2.start) 0) := by rw [hst]; rfl
  have hobjs : d'.st.objs = w.objs ++ [⟨w.len, (prep d).xid, 0, P.xrefRec d.tr (prep d).infoRef i, []⟩] := by
    rw [hst]; simp only [commit]; rw [hinfo]
  have hst' : d'.st.start = (prep d).st2.start := by rw [hst]; rfl
  have hlook : ∀ j, chLookup d'.st.changes j =
      if j = (prep d).xid then some (P.xrefVal i, 0) else chLookup (prep d).st2.changes j := by
    intro j; rw [hst]; simp only [commit]; rw [hinfo]; simp [chLookup_chInsert]
  refine
    { section_at := ?_, rows_len := ?_, table_len := by rw [hrefs, hlen4, hxid], rows_of_table := ?_,
      pending := ?_, ids_lt := ?_, xid_fresh := by rw [hxid]; exact pf.xid_ge }
  · refine ⟨⟨w.len, [⟨0, i.rows⟩], (prep d).size, d.tr.prev, d.tr.root, (prep d).infoRef⟩, ?_, rfl, hsize.symm, rfl, rfl⟩
    have hpos : d'.st.start + i.xpos = w.len := by rw [hst', hxpos]; omega
    have hsecs : d'.st.secs = (prep d).st2.secs ++ [⟨w.len, [⟨0, i.rows⟩], (prep d).size, d.tr.prev, d.tr.root, (prep d).infoRef⟩] := by
      rw [hst]; rfl
    rw [hpos, hsecs, secAt_append_right]
    · simp [secAt]
    · intro s hs; have := pf.inv.secs_lt s hs; simp only at this; omega
  · rw [r1, hlen4, hxid, hsize]; exact ⟨rfl, pf.size_ge⟩
  · intro j e he
    rw [hrefs] at he
    exact r2 j e he
  · intro j v g hc
    rw [hlook] at hc
    rw [hst']
    split at hc
    · rename_i heq
      simp only [Option.some.injEq, Prod.mk.injEq] at hc
      obtain ⟨rfl, rfl⟩ := hc
      obtain ⟨r, ra, rb⟩ := r2 (prep d).xid _ (set_get_self _ _ _ hxlt)
      simp only [rowOf, Option.some.injEq] at ra; subst ra
      refine ⟨w.len, by omega, by rw [heq]; exact rb, ⟨w.len, (prep d).xid, 0, P.xrefRec d.tr (prep d).infoRef i, []⟩, ?_, rfl, heq.symm, rfl, fun hne => absurd (heq.trans hxid.symm) hne⟩
      rw [hobjs, objAt_append_right]
      · simp [objAt]
      · intro o ho; have := k4 o ho; omega
    · rename_i hne
      obtain ⟨_, _, off, a, b, c⟩ := k5 j v g hc
      obtain ⟨r, ra, rb⟩ := r2 j _ (by rw [set_get_ne _ _ _ _ (Ne.symm hne)]; exact b)
      simp only [rowOf, Option.some.injEq] at ra; subst ra
      exact ⟨off, by omega, rb, _, by rw [hobjs]; exact objAt_append_left _ _ _ _ c, rfl, rfl, rfl, fun _ => rfl⟩
  · obtain ⟨ext2, e1, e2⟩ := writeChanges_ext_ids P L _ _ _ _ hw
    simp only at e1 e2
    refine ⟨ext2 ++ [⟨w.len, (prep d).xid, 0, P.xrefRec d.tr (prep d).infoRef i, []⟩], by rw [hobjs, e1, pf.objs_eq]; simp, ?_⟩
    intro o ho
    rw [hsize]
    simp only [List.mem_append, List.mem_singleton] at ho
    rcases ho with ho | rfl
    · have := e2 o ho
      rw [pf.len_eq] at this
      have := pf.size_ge; omega
    · simp only; have := pf.size_ge; omega

theorem save_shape (P : Params V) (L : Layout) (hL : L.Pos) (d0 d d' : Doc V) (chain0) (i : SaveInfo)
    (hb : BaseOK d0 chain0) (hi : Inv d0 d) (h : save P L d = (d', .ok i)) : SaveShape P d d' i :=
  save_shape_c P L hL d0 d d' chain0 i hb hi (committed_of_ok P L d d' i h)

end Storage
