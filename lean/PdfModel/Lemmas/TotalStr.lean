import PdfModel.Model.StrLexer
import PdfModel.Lemmas.TotalLexer

/-!
  Totality of `Model/StrLexer` on ARBITRARY buffers (C01): `StringLexer::next_lexeme`, the iterator loops of
  the literal and the hexadecimal string, `HexStringLexer::next_hex_byte`.

  * no `panic`: the only panic site of the model is the overflow of the nesting counter; the counter grows
    by at most one per byte read, so it stays below `i64::MAX` on every buffer a Rust slice can be
    (`buf.size ≤ isize::MAX`).  With the `i32` counter the code had before the repair the same argument needs
    `buf.size < 2^31`, and `nested_i32_overflows` is the step that panicked.
  * no `oof`: every iteration of `next_lexeme` consumes at least one byte (two for a line continuation), every
    lexeme of the iterator loops at least one.
-/

namespace PdfLex

def i64Max : Int := 9223372036854775807

theorem nextByte_spec (buf : Buf) (pos : Nat) :
    (nextByte buf pos = .err ∧ buf.size ≤ pos) ∨
    ∃ b, nextByte buf pos = .ok (b, pos + 1) ∧ buf[pos]? = some b ∧ pos < buf.size := by
  unfold nextByte
  cases h : buf[pos]? with
  | none => left; simp at h; exact ⟨rfl, h⟩
  | some b => right; exact ⟨b, rfl, rfl, getElem?_lt h⟩

theorem peekByte_spec (buf : Buf) (pos : Nat) :
    peekByte buf pos = .err ∨ ∃ b, peekByte buf pos = .ok b ∧ pos < buf.size := by
  unfold peekByte
  cases h : buf[pos]? with
  | none => left; rfl
  | some b => right; exact ⟨b, rfl, getElem?_lt h⟩

theorem octalMore_spec (buf : Buf) (n code pos : Nat) (h : pos ≤ buf.size) :
    octalMore buf n code pos = .err ∨
    ∃ c p, octalMore buf n code pos = .ok (c, p) ∧ pos ≤ p ∧ p ≤ buf.size := by
  induction n generalizing code pos with
  | zero => right; exact ⟨code, pos, rfl, Nat.le_refl _, h⟩
  | succ n ih =>
    unfold octalMore
    rcases peekByte_spec buf pos with he | ⟨c, hc, hlt⟩
    · left; simp [he]
    · rw [hc]; simp only [Out.bind_ok]
      by_cases ho : isOctal c = true
      · simp only [ho, if_true]
        rcases ih (code * 8 + (c.toNat - 48)) (pos + 1) hlt with he | ⟨c', p, hp, h1, h2⟩
        · left; exact he
        · right; exact ⟨c', p, hp, by omega, h2⟩
      · right; exact ⟨code, pos, by simp [ho], Nat.le_refl _, h⟩

theorem skipIf_bounds (buf : Buf) (pos : Nat) (b : UInt8) (h : pos ≤ buf.size) :
    pos ≤ skipIf buf pos b ∧ skipIf buf pos b ≤ buf.size := by
  unfold skipIf
  by_cases hc : (buf[pos]? == some b) = true
  · have : buf[pos]? = some b := by simpa using hc
    have := getElem?_lt this
    simp [hc]; omega
  · simp [hc]; omega

/-- `StringLexer::next_lexeme`: `Err(EOF)`, or a lexeme (`Some(byte)`, or `None` at the closing parenthesis)
    with the cursor strictly further and inside the buffer; the nesting counter moves by at most one and is
    negative only at the closing parenthesis.  No panic while the counter has room for the bytes that are
    left; no `oof` when the fuel exceeds the number of bytes left. -/
theorem nextLexeme_spec (buf : Buf) (fuel pos : Nat) (nested : Int) (h : pos ≤ buf.size) (hn : 0 ≤ nested)
    (hm : nested + ((buf.size - pos : Nat) : Int) ≤ i64Max) (hf : buf.size - pos < fuel) :
    nextLexeme buf fuel pos nested = .err ∨
    ∃ r p n', nextLexeme buf fuel pos nested = .ok (r, p, n') ∧ pos < p ∧ p ≤ buf.size ∧
      n' ≤ nested + 1 ∧ (r ≠ none → 0 ≤ n') := by
  induction fuel generalizing pos with
  | zero => omega
  | succ fuel ih =>
    unfold nextLexeme
    rcases nextByte_spec buf pos with ⟨he, _⟩ | ⟨c, hc, _, hlt⟩
    · left; simp [he]
    · rw [hc]; simp only [Out.bind_ok]
      by_cases c92 : (c == 92) = true
      · simp only [c92, if_true]
        rcases nextByte_spec buf (pos + 1) with ⟨he, _⟩ | ⟨d, hd, _, hlt2⟩
        · left; simp [he]
        · rw [hd]; simp only [Out.bind_ok]
          cases hne : namedEsc d with
          | some v => right; exact ⟨some v, pos + 1 + 1, nested, rfl, by omega, by omega, by omega, fun _ => hn⟩
          | none =>
            simp only []
            by_cases d10 : (d == 10) = true
            · simp only [d10, if_true]
              have hm' : nested + ((buf.size - (pos + 1 + 1) : Nat) : Int) ≤ i64Max := by omega
              rcases ih (pos + 1 + 1) (by omega) hm' (by omega) with he | ⟨r, p, n', hp, h1, h2, h3, h4⟩
              · left; exact he
              · right; exact ⟨r, p, n', hp, by omega, h2, h3, h4⟩
            · simp only [d10, Bool.false_eq_true, if_false]
              by_cases d13 : (d == 13) = true
              · simp only [d13, if_true]
                have hs := skipIf_bounds buf (pos + 1 + 1) 10 (by omega)
                have hm' : nested + ((buf.size - skipIf buf (pos + 1 + 1) 10 : Nat) : Int) ≤ i64Max := by omega
                rcases ih (skipIf buf (pos + 1 + 1) 10) hs.2 hm' (by omega) with he | ⟨r, p, n', hp, h1, h2, h3, h4⟩
                · left; exact he
                · right; exact ⟨r, p, n', hp, by omega, h2, h3, h4⟩
              · simp only [d13, Bool.false_eq_true, if_false]
                by_cases doct : isOctal d = true
                · simp only [doct, if_true]
                  rcases octalMore_spec buf 2 (d.toNat - 48) (pos + 1 + 1) (by omega) with he | ⟨code, p, hp, h1, h2⟩
                  · left; simp [he]
                  · right; rw [hp]; simp only [Out.bind_ok]
                    exact ⟨_, p, nested, rfl, by omega, h2, by omega, fun _ => hn⟩
                · right; simp only [doct, Bool.false_eq_true, if_false]
                  exact ⟨some d, pos + 1 + 1, nested, rfl, by omega, by omega, by omega, fun _ => hn⟩
      · simp only [c92, Bool.false_eq_true, if_false]
        by_cases c40 : (c == 40) = true
        · simp only [c40, if_true]
          have : ¬ (nested + 1 > 9223372036854775807) := by unfold i64Max at hm; omega
          right; simp only [this, if_false]
          exact ⟨some 40, pos + 1, nested + 1, rfl, by omega, by omega, by omega, fun _ => by omega⟩
        · simp only [c40, Bool.false_eq_true, if_false]
          by_cases c41 : (c == 41) = true
          · simp only [c41, if_true]
            right
            by_cases hneg : nested - 1 < 0
            · simp only [hneg, if_true]
              exact ⟨none, pos + 1, nested - 1, rfl, by omega, by omega, by omega, fun hh => absurd rfl hh⟩
            · simp only [hneg, if_false]
              exact ⟨some 41, pos + 1, nested - 1, rfl, by omega, by omega, by omega, fun _ => by omega⟩
          · simp only [c41, Bool.false_eq_true, if_false]
            right
            by_cases c13 : (c == 13) = true
            · simp only [c13, if_true]
              have hs := skipIf_bounds buf (pos + 1) 10 (by omega)
              exact ⟨some 10, _, nested, rfl, by omega, hs.2, by omega, fun _ => hn⟩
            · simp only [c13, Bool.false_eq_true, if_false]
              exact ⟨some c, pos + 1, nested, rfl, by omega, by omega, by omega, fun _ => hn⟩

/-- the code before the repair counted the nesting in an `i32`: the 2^31-th unbalanced `(` panicked -/
def nestedStepOld32 (nested : Int) : Out Int := if nested + 1 > 2147483647 then .panic else .ok (nested + 1)

theorem nested_i32_overflows : nestedStepOld32 2147483647 = .panic := by decide

/-- the iterator loop over a literal string: `Err(EOF)` or the bytes and a cursor strictly further -/
theorem collectString_spec (buf : Buf) (fuel pos : Nat) (nested : Int) (acc : List UInt8) (h : pos ≤ buf.size)
    (hn : 0 ≤ nested) (hm : nested + ((buf.size - pos : Nat) : Int) ≤ i64Max) (hf : buf.size - pos + 1 < fuel) :
    collectString buf fuel pos nested acc = .err ∨
    ∃ s p, collectString buf fuel pos nested acc = .ok (s, p) ∧ pos < p ∧ p ≤ buf.size := by
  induction fuel generalizing pos nested acc with
  | zero => omega
  | succ fuel ih =>
    unfold collectString
    rcases nextLexeme_spec buf (fuel + 1) pos nested h hn hm (by omega) with he | ⟨r, p, n', hp, h1, h2, h3, h4⟩
    · left; simp [he]
    · rw [hp]; simp only [Out.bind_ok]
      cases r with
      | none => right; exact ⟨_, p, rfl, h1, h2⟩
      | some b =>
        simp only []
        have hn' : 0 ≤ n' := h4 (by simp)
        have hm' : n' + ((buf.size - p : Nat) : Int) ≤ i64Max := by omega
        rcases ih p n' (b :: acc) h2 hn' hm' (by omega) with he | ⟨s, q, hq, hq1, hq2⟩
        · left; exact he
        · right; exact ⟨s, q, hq, by omega, hq2⟩

/-! ### hexadecimal strings -/

theorem nextNonWs_spec (buf : Buf) (fuel pos : Nat) :
    nextNonWs buf fuel pos = .err ∨ ∃ c p, nextNonWs buf fuel pos = .ok (c, p) ∧ pos < p ∧ p ≤ buf.size := by
  induction fuel generalizing pos with
  | zero => left; rfl
  | succ fuel ih =>
    unfold nextNonWs
    cases hb : buf[pos]? with
    | none => left; rfl
    | some b =>
      have := getElem?_lt hb
      simp only []
      by_cases hw : isHexWs b = true
      · simp only [hw, if_true]
        rcases ih (pos + 1) with he | ⟨c, p, hp, h1, h2⟩
        · left; exact he
        · right; exact ⟨c, p, hp, by omega, h2⟩
      · right; simp only [hw, Bool.false_eq_true, if_false]
        exact ⟨b, pos + 1, rfl, by omega, by omega⟩

/-- `HexStringLexer::next_hex_byte`: the `back()` before a lone `>` cannot fail (two bytes were read) -/
theorem nextHexByte_spec (buf : Buf) (base pos : Nat) (hb : base ≤ pos) :
    nextHexByte buf base pos = .err ∨
    ∃ r p, nextHexByte buf base pos = .ok (r, p) ∧ pos < p ∧ p ≤ buf.size := by
  unfold nextHexByte
  rcases nextNonWs_spec buf (buf.size - pos + 1) pos with he | ⟨c1, p1, hp1, h1, h2⟩
  · left; simp [he]
  · rw [hp1]; simp only [Out.bind_ok]
    by_cases c62 : (c1 == 62) = true
    · right; simp only [c62, if_true]; exact ⟨none, p1, rfl, h1, h2⟩
    · simp only [c62, Bool.false_eq_true, if_false]
      cases hd : hexDigitVal c1 with
      | none => left; rfl
      | some hi =>
        simp only []
        rcases nextNonWs_spec buf (buf.size - p1 + 1) p1 with he | ⟨c2, p2, hp2, h3, h4⟩
        · left; simp [he]
        · rw [hp2]; simp only [Out.bind_ok]
          by_cases d62 : (c2 == 62) = true
          · right; simp only [d62, if_true]
            have hbk : hexBack base p2 = .ok (p2 - 1) := by simp [hexBack]; omega
            rw [hbk]; simp only [Out.bind_ok]
            exact ⟨_, p2 - 1, rfl, by omega, by omega⟩
          · simp only [d62, Bool.false_eq_true, if_false]
            cases hd2 : hexDigitVal c2 with
            | none => left; rfl
            | some lo => right; exact ⟨_, p2, rfl, by omega, h4⟩

/-- the iterator loop over a hexadecimal string -/
theorem collectHex_spec (buf : Buf) (base fuel pos : Nat) (acc : List UInt8) (hb : base ≤ pos)
    (h : pos ≤ buf.size) (hf : buf.size - pos < fuel) :
    collectHex buf base fuel pos acc = .err ∨
    ∃ s p, collectHex buf base fuel pos acc = .ok (s, p) ∧ pos < p ∧ p ≤ buf.size := by
  induction fuel generalizing pos acc with
  | zero => omega
  | succ fuel ih =>
    unfold collectHex
    rcases nextHexByte_spec buf base pos hb with he | ⟨r, p, hp, h1, h2⟩
    · left; simp [he]
    · rw [hp]; simp only [Out.bind_ok]
      cases r with
      | none => right; exact ⟨_, p, rfl, h1, h2⟩
      | some b =>
        simp only []
        rcases ih p (b :: acc) (by omega) h2 (by omega) with he | ⟨s, q, hq, hq1, hq2⟩
        · left; exact he
        · right; exact ⟨s, q, hq, by omega, hq2⟩

end PdfLex
