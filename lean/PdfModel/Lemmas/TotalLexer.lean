import PdfModel.Model.Lexer

/-!
  Totality of `Model/Lexer` on ARBITRARY buffers (C01): every cursor operation, started at a cursor
  `pos ≤ buf.size`, returns `ok` or `err` (never `panic`, never `oof`) and leaves a cursor `≤ buf.size`.
  Each lemma states the exact shape of the result (`… = .err ∨ ∃ …, … = .ok … ∧ bounds`), from which the
  `≠ .panic` / `≠ .oof` forms of `Props/C01` follow by `cases`.

  The progress facts the parser's fuel argument needs are here as well: a lexeme that `next_word` returns is
  never empty and lies at or behind the cursor (`nextWord_spec`).
-/

namespace PdfLex

theorem getElem?_lt {buf : Buf} {pos : Nat} {b : UInt8} (h : buf[pos]? = some b) : pos < buf.size := by
  rcases Nat.lt_or_ge pos buf.size with hc | hc
  · exact hc
  · have : buf[pos]? = none := by simp; omega
    simp [this] at h

theorem getElem?_of_lt {buf : Buf} {pos : Nat} (h : pos < buf.size) : ∃ b, buf[pos]? = some b :=
  ⟨buf[pos], by simp [h]⟩

/-! ### scans -/

theorem scanWhile_bounds (buf : Buf) (cond : UInt8 → Bool) (fuel pos : Nat) (h : pos ≤ buf.size) :
    pos ≤ scanWhile buf cond fuel pos ∧ scanWhile buf cond fuel pos ≤ buf.size := by
  fun_induction scanWhile buf cond fuel pos <;> grind [getElem?_lt]

/-- where the scan stops before the end, the byte does not satisfy the condition -/
theorem scanWhile_stop_byte (buf : Buf) (cond : UInt8 → Bool) (fuel pos : Nat)
    (h : scanWhile buf cond fuel pos < buf.size) :
    ∃ b, buf[scanWhile buf cond fuel pos]? = some b ∧ cond b = false := by
  fun_induction scanWhile buf cond fuel pos <;> grind

/-- a first byte that satisfies the condition is consumed -/
theorem scanWhile_first (buf : Buf) (cond : UInt8 → Bool) (pos : Nat) (b : UInt8)
    (hb : buf[pos]? = some b) (hc : cond b = true) :
    pos + 1 ≤ scanWhile buf cond (buf.size - pos) pos := by
  have hlt := getElem?_lt hb
  obtain ⟨k, hk⟩ : ∃ k, buf.size - pos = k + 1 := ⟨buf.size - pos - 1, by omega⟩
  rw [hk]
  simp only [scanWhile, hb, hc, if_true]
  exact (scanWhile_bounds buf cond k (pos + 1) hlt).1

theorem boundary_spec (buf : Buf) (pos : Nat) (cond : UInt8 → Bool) (h : pos ≤ buf.size) :
    ∃ p, boundary buf pos cond = .ok p ∧ pos ≤ p ∧ p ≤ buf.size := by
  refine ⟨scanWhile buf cond (buf.size - pos) pos, ?_, scanWhile_bounds buf cond _ pos h⟩
  simp [boundary]; omega

theorem scanBack_le (buf : Buf) (cond : UInt8 → Bool) (pos : Nat) : scanBack buf cond pos ≤ pos := by
  fun_induction scanBack buf cond pos <;> grind

theorem boundaryRev_spec (buf : Buf) (pos : Nat) (cond : UInt8 → Bool) (h : pos ≤ buf.size) :
    ∃ p, boundaryRev buf pos cond = .ok p ∧ p ≤ pos :=
  ⟨scanBack buf cond pos, by simp [boundaryRev]; omega, scanBack_le buf cond pos⟩

/-! ### `skip_whitespace`, comments -/

/-- `skip_whitespace`: `Err(EOF)` or the position of a byte that is not white-space -/
theorem skipWhitespace_spec (buf : Buf) (pos : Nat) (h : pos ≤ buf.size) :
    skipWhitespace buf pos = .err ∨
    ∃ p, skipWhitespace buf pos = .ok p ∧ pos ≤ p ∧ p < buf.size ∧ isWsAt buf p = false := by
  have hb := scanWhile_bounds buf isWhitespace (buf.size - pos) pos h
  have hnp : ¬ pos > buf.size := by omega
  unfold skipWhitespace boundary
  simp only [hnp, if_false, Out.bind_ok]
  by_cases hge : scanWhile buf isWhitespace (buf.size - pos) pos ≥ buf.size
  · left; simp [hge]
  · right
    refine ⟨_, by simp [hge], hb.1, by omega, ?_⟩
    obtain ⟨b, hb1, hb2⟩ := scanWhile_stop_byte buf isWhitespace (buf.size - pos) pos (by omega)
    simp [isWsAt, hb1, hb2]

theorem findEol_bounds (buf : Buf) (fuel pos p : Nat) (h : findEol buf fuel pos = some p) :
    pos ≤ p ∧ p < buf.size := by
  fun_induction findEol buf fuel pos <;> grind [getElem?_lt]

/-- the comment loop: no `oof` when the fuel covers the rest of the buffer (every round consumes the `%`),
    no panic; the result is the position of a byte that is neither white-space nor `%` -/
theorem skipComments_spec (buf : Buf) (fuel pos : Nat) (h : pos < buf.size) (hw : isWsAt buf pos = false)
    (hf : buf.size ≤ fuel + pos) :
    skipComments buf fuel pos = .err ∨
    ∃ p, skipComments buf fuel pos = .ok p ∧ pos ≤ p ∧ p < buf.size ∧ isWsAt buf p = false ∧ buf[p]? ≠ some 37 := by
  induction fuel generalizing pos with
  | zero => omega
  | succ fuel ih =>
    unfold skipComments
    by_cases hc : buf[pos]? = some 37
    · simp only [hc, beq_self_eq_true, if_true]
      have h1 : ¬ pos + 1 > buf.size := by omega
      simp only [h1, if_false]
      -- whatever the position behind the comment is
      have key : ∀ pos2, pos + 1 ≤ pos2 → pos2 ≤ buf.size →
          ((skipWhitespace buf pos2).bind fun p => skipComments buf fuel p) = .err ∨
          ∃ p, ((skipWhitespace buf pos2).bind fun p => skipComments buf fuel p) = .ok p ∧
            pos ≤ p ∧ p < buf.size ∧ isWsAt buf p = false ∧ buf[p]? ≠ some 37 := by
        intro pos2 hlo hhi
        rcases skipWhitespace_spec buf pos2 hhi with he | ⟨p, hp, hp1, hp3, hp4⟩
        · left; simp [he]
        · rw [hp]; simp only [Out.bind_ok]
          rcases ih p hp3 hp4 (by omega) with he | ⟨q, hq, hq1, hq2, hq3, hq4⟩
          · left; exact he
          · right; exact ⟨q, hq, by omega, hq2, hq3, hq4⟩
      cases he : findEol buf (buf.size - (pos + 1)) (pos + 1) with
      | none => exact key (pos + 1) (Nat.le_refl _) (by omega)
      | some q =>
        have := findEol_bounds buf _ _ _ he
        exact key (q + 1) (by omega) (by omega)
    · right
      refine ⟨pos, ?_, Nat.le_refl _, h, hw, hc⟩
      have : (buf[pos]? == some 37) = false := by simpa using hc
      simp [this]

/-- `next_word`, first part: `Err(EOF)` or the position of a byte that starts a lexeme -/
theorem tokenStart_spec (buf : Buf) (pos : Nat) (h : pos ≤ buf.size) :
    tokenStart buf pos = .err ∨
    ∃ p, tokenStart buf pos = .ok p ∧ pos ≤ p ∧ p < buf.size ∧ isWsAt buf p = false := by
  unfold tokenStart
  rcases skipWhitespace_spec buf pos h with he | ⟨p, hp, hp1, hp2, hp3⟩
  · left; simp [he]
  · rw [hp]; simp only [Out.bind_ok]
    rcases skipComments_spec buf buf.size p hp2 hp3 (by omega) with he | ⟨q, hq, hq1, hq2, hq3, _⟩
    · left; exact he
    · right; exact ⟨q, hq, by omega, hq2, hq3⟩

/-! ### lexemes -/

theorem newSubstr_fwd {buf : Buf} {a b : Nat} (h1 : a ≤ b) (h2 : b ≤ buf.size) : newSubstr buf a b = .ok (a, b) := by
  unfold newSubstr
  have : ¬ a > b := by omega
  simp [this]; omega

/-- a backward range is turned round; in range when the old start lies inside the buffer -/
theorem newSubstr_bwd {buf : Buf} {a b : Nat} (h1 : b < a) (h2 : a < buf.size) :
    newSubstr buf a b = .ok (b + 1, a + 1) := by
  unfold newSubstr
  simp [h1]; omega

theorem scanRegular_bounds (buf : Buf) (pos : Nat) (h : pos ≤ buf.size) :
    pos ≤ scanRegular buf pos ∧ scanRegular buf pos ≤ buf.size :=
  scanWhile_bounds buf isRegular _ pos h

theorem isDouble_next {buf : Buf} {pos : Nat} (h : isDouble buf pos = true) : pos + 1 < buf.size := by
  unfold isDouble at h
  split at h
  · rename_i a c h1 h2; exact getElem?_lt h2
  · simp at h

/-- `next_word`, second part: at the position of a byte that is not white-space a non-empty lexeme starts -/
theorem lexemeAt_spec (buf : Buf) (start : Nat) (h : start < buf.size) (hw : isWsAt buf start = false) :
    ∃ stop, lexemeAt buf start = .ok (start, stop) ∧ start < stop ∧ stop ≤ buf.size := by
  obtain ⟨b, hb⟩ := getElem?_of_lt h
  unfold lexemeAt
  by_cases hd : isDelimAt buf start = true
  · simp only [hd, if_true, hb]
    by_cases h47 : (b == 47) = true
    · simp only [h47, if_true, advancePos, h, Out.bind_ok]
      have := scanRegular_bounds buf (start + 1) (by omega)
      exact ⟨_, newSubstr_fwd (by omega) this.2, by omega, this.2⟩
    · simp only [h47, Bool.false_eq_true, if_false]
      by_cases hdd : isDouble buf start = true
      · have h2 := isDouble_next hdd
        have h2' : start + 1 < buf.size := h2
        simp only [hdd, if_true, advancePos, h, h2', Out.bind_ok]
        exact ⟨_, newSubstr_fwd (by omega) (by omega), by omega, by omega⟩
      · simp only [hdd, Bool.false_eq_true, if_false, advancePos, h, if_true, Out.bind_ok]
        exact ⟨_, newSubstr_fwd (by omega) (by omega), by omega, by omega⟩
  · simp only [hd, Bool.false_eq_true, if_false]
    have hreg : isRegular b = true := by
      simp only [isWsAt, hb] at hw
      simp only [isDelimAt, hb] at hd
      simp [isRegular, hw, hd]
    have h1 := scanWhile_first buf isRegular start b hb hreg
    have h2 := scanRegular_bounds buf start (by omega)
    exact ⟨_, newSubstr_fwd h2.1 h2.2, h1, h2.2⟩

/-- `Lexer::next_word` / `next`: `Err(EOF)`, or a non-empty lexeme at or behind the cursor, inside the buffer;
    the cursor moves behind it -/
theorem nextWord_spec (buf : Buf) (pos : Nat) (h : pos ≤ buf.size) :
    nextWord buf pos = .err ∨
    ∃ w, nextWord buf pos = .ok w ∧ pos ≤ w.1 ∧ w.1 < w.2 ∧ w.2 ≤ buf.size := by
  unfold nextWord
  by_cases he : (pos == buf.size) = true
  · left; simp [he]
  · simp only [he, Bool.false_eq_true, if_false]
    rcases tokenStart_spec buf pos h with he | ⟨p, hp, hp1, hp2, hp3⟩
    · left; simp [he]
    · right
      rw [hp]; simp only [Out.bind_ok]
      obtain ⟨stop, hs, hs1, hs2⟩ := lexemeAt_spec buf p hp2 hp3
      exact ⟨(p, stop), hs, hp1, hs1, hs2⟩

theorem next_spec (buf : Buf) (pos : Nat) (h : pos ≤ buf.size) :
    next buf pos = .err ∨ ∃ w, next buf pos = .ok w ∧ pos ≤ w.1 ∧ w.1 < w.2 ∧ w.2 ≤ buf.size :=
  nextWord_spec buf pos h

/-- `Lexer::peek` never fails: at the end of the data it returns the empty substring at the cursor -/
theorem peek_spec (buf : Buf) (pos : Nat) (h : pos ≤ buf.size) :
    ∃ w, peek buf pos = .ok w ∧ pos ≤ w.1 ∧ w.1 ≤ w.2 ∧ w.2 ≤ buf.size := by
  unfold peek
  rcases nextWord_spec buf pos h with he | ⟨w, hw, h1, h2, h3⟩
  · rw [he]; exact ⟨(pos, pos), newSubstr_fwd (Nat.le_refl _) h, Nat.le_refl _, Nat.le_refl _, h⟩
  · rw [hw]; exact ⟨w, rfl, h1, by omega, h3⟩

/-- `Lexer::back`: the previous lexeme; the cursor moves to its start, never forward -/
theorem back_spec (buf : Buf) (pos : Nat) (h : pos ≤ buf.size) :
    ∃ w, back buf pos = .ok w ∧ w.1 ≤ w.2 ∧ w.2 ≤ pos := by
  unfold back
  obtain ⟨e, he, he1⟩ := boundaryRev_spec buf pos isWhitespace h
  rw [he]; simp only [Out.bind_ok]
  obtain ⟨s, hs, hs1⟩ := boundaryRev_spec buf e (fun b => !isWhitespace b) (by omega)
  rw [hs]; simp only [Out.bind_ok]
  exact ⟨(s, e), newSubstr_fwd hs1 (by omega), hs1, he1⟩

theorem nextExpect_spec (buf : Buf) (pos : Nat) (expected : List UInt8) (h : pos ≤ buf.size) :
    nextExpect buf pos expected = .err ∨
    ∃ p, nextExpect buf pos expected = .ok p ∧ pos < p ∧ p ≤ buf.size := by
  unfold nextExpect
  rcases next_spec buf pos h with he | ⟨w, hw, h1, h2, h3⟩
  · left; simp [he]
  · rw [hw]; simp only [Out.bind_ok]
    by_cases hc : (slice buf w.1 w.2 == expected) = true
    · right; exact ⟨w.2, by simp [hc], by omega, h3⟩
    · left; simp [hc]

/-- `Lexer::next_stream`: the `end - word.len()` subtraction cannot underflow, the slice is in range -/
theorem nextStream_cases (buf : Buf) (pos : Nat) (h : pos ≤ buf.size) :
    nextStream buf pos = .err ∨ ∃ p, nextStream buf pos = .ok p ∧ pos < p ∧ p ≤ buf.size := by
  unfold nextStream
  rcases nextWord_spec buf pos h with he | ⟨w, hw, h1, h2, h3⟩
  · left; simp [he]
  · rw [hw]; simp only [Out.bind_ok]
    have e1 : ¬ (w.2 - w.1 > w.2) := by omega
    have e2 : w.2 - (w.2 - w.1) = w.1 := by omega
    have e3 : ¬ (w.1 > buf.size) := by omega
    simp only [e1, e2, e3, if_false]
    cases h6 : buf[w.1 + 6]? with
    | none => left; rfl
    | some b0 =>
      have := getElem?_lt h6
      simp only []
      by_cases c1 : (b0 == 10) = true
      · right; exact ⟨w.1 + 7, by simp [c1], by omega, by omega⟩
      · simp only [c1, Bool.false_eq_true, if_false]
        by_cases c2 : (b0 == 13) = true
        · simp only [c2, if_true]
          cases h7 : buf[w.1 + 7]? with
          | none => left; rfl
          | some b1 =>
            have := getElem?_lt h7
            simp only []
            by_cases c3 : (b1 != 10) = true
            · left; simp [c3]
            · right; exact ⟨w.1 + 8, by simp [c3], by omega, by omega⟩
        · left; simp [c2]

/-! ### moving the cursor -/

/-- `Lexer::set_pos` clamps to the end of the buffer -/
theorem setPos_spec (buf : Buf) (pos wanted : Nat) (h : pos ≤ buf.size) :
    setPos buf pos wanted = .ok (min wanted buf.size) := by
  unfold setPos
  simp only []
  by_cases hc : pos < min wanted buf.size
  · simp only [hc, if_true]; rw [newSubstr_fwd (by omega) (by omega)]; rfl
  · simp only [hc, if_false]; rw [newSubstr_fwd (by omega) h]; rfl

theorem offsetPos_spec (buf : Buf) (pos offset : Nat) (h : pos ≤ buf.size) :
    ∃ p, offsetPos buf pos offset = .ok p ∧ p ≤ buf.size :=
  ⟨_, setPos_spec buf pos _ h, by omega⟩

/-- without wrap-around (`pos + offset < 2^64`, true of every real buffer) `offset_pos` is `min (pos + offset) len` -/
theorem offsetPos_exact (buf : Buf) (pos offset : Nat) (h : pos ≤ buf.size) (hs : pos + offset ≤ usizeMax) :
    offsetPos buf pos offset = .ok (min (pos + offset) buf.size) := by
  unfold offsetPos
  rw [Nat.mod_eq_of_lt (by omega)]
  exact setPos_spec buf pos _ h

theorem setPosFromEnd_spec (buf : Buf) (pos n : Nat) (h : pos ≤ buf.size) :
    setPosFromEnd buf pos n = .ok (buf.size - n - 1) := by
  unfold setPosFromEnd
  rw [setPos_spec buf pos _ h]
  congr 1; omega

/-- `Lexer::read_n` (after the repair): total on every buffer; the cursor stays inside -/
theorem readN_total (buf : Buf) (pos n : Nat) (_h : pos ≤ buf.size) :
    ∃ s p, readN buf pos n = .ok (s, p) ∧ s.1 ≤ s.2 ∧ s.2 ≤ buf.size ∧ p ≤ buf.size := by
  unfold readN
  simp only []
  have hp' : (if min (pos + n) usizeMax ≥ buf.size then buf.size - 1 else min (pos + n) usizeMax) ≤ buf.size := by
    split <;> omega
  generalize (if min (pos + n) usizeMax ≥ buf.size then buf.size - 1 else min (pos + n) usizeMax) = p' at hp' ⊢
  by_cases hlt : pos < buf.size
  · simp only [hlt, if_true]
    by_cases hd : pos ≤ p'
    · rw [newSubstr_fwd hd hp']; exact ⟨_, _, rfl, hd, hp', hp'⟩
    · rw [newSubstr_bwd (by omega) hlt]; exact ⟨_, _, rfl, by simp; omega, by simp; omega, hp'⟩
  · simp only [hlt, if_false]
    rw [newSubstr_fwd (Nat.le_refl 0) (Nat.zero_le _)]
    exact ⟨_, _, rfl, Nat.le_refl _, Nat.zero_le _, hp'⟩

/-- `Lexer::read_n` on a buffer of a real size (`≤ usize::MAX`): the cursor may step back onto the last byte;
    a substring of the full length `n` means that the cursor moved by exactly `n` and is not at the end -/
theorem readN_spec (buf : Buf) (pos n : Nat) (h : pos ≤ buf.size) (hs : buf.size ≤ usizeMax) :
    ∃ s p, readN buf pos n = .ok (s, p) ∧ s.1 ≤ s.2 ∧ s.2 ≤ buf.size ∧ p ≤ buf.size ∧ pos ≤ p + 1 ∧
      (pos < buf.size → s.2 - s.1 = n → p = pos + n ∧ p < buf.size) := by
  unfold readN
  simp only []
  by_cases hlt : pos < buf.size
  · simp only [hlt, if_true]
    by_cases hc : min (pos + n) usizeMax ≥ buf.size
    · simp only [hc, if_true]
      rw [newSubstr_fwd (by omega) (by omega)]
      refine ⟨_, _, rfl, by simp; omega, by simp, by omega, by omega, ?_⟩
      intro _ hn; simp at hn; omega
    · simp only [hc, if_false]
      have hm : min (pos + n) usizeMax = pos + n := by omega
      rw [hm] at hc ⊢
      rw [newSubstr_fwd (by omega) (by omega)]
      exact ⟨_, _, rfl, by simp, by simp; omega, by omega, by omega, fun _ _ => ⟨rfl, by omega⟩⟩
  · simp only [hlt, if_false]
    rw [newSubstr_fwd (Nat.le_refl 0) (Nat.zero_le _)]
    have hc : min (pos + n) usizeMax ≥ buf.size := by omega
    simp only [hc, if_true]
    exact ⟨_, _, rfl, by simp, by simp, by omega, by omega, fun hh => False.elim hh⟩

/-- the code before the repair: an empty buffer, or a count near `usize::MAX`, is a panic -/
theorem readNOld_panics_empty (n : Nat) : readNOld #[] 0 n = .panic := by
  unfold readNOld
  simp

theorem remainingStart_spec (buf : Buf) (pos : Nat) (h : pos ≤ buf.size) : remainingStart buf pos = .ok pos := by
  simp [remainingStart]; omega

theorem ctxRange_spec (buf : Buf) (pos : Nat) (h : pos ≤ buf.size) (hs : buf.size + 40 ≤ usizeMax) :
    ∃ r, ctxRange buf pos = .ok r ∧ r.1 ≤ r.2 ∧ r.2 ≤ buf.size := by
  unfold ctxRange
  have h1 : ¬ pos + 40 > usizeMax := by omega
  simp only [h1, if_false]
  have h2 : ¬ (pos - 40 > min buf.size (pos + 40)) := by omega
  have h3 : ¬ (min buf.size (pos + 40) > buf.size) := by omega
  simp only [h2, h3, decide_false, Bool.or_self, Bool.false_eq_true, if_false]
  exact ⟨_, rfl, by simp; omega, by simp; omega⟩

/-! ### searching -/

theorem findFwd_bounds (buf : Buf) (pat : List UInt8) (fuel i j : Nat) (h : findFwd buf pat fuel i = some j) :
    i ≤ j ∧ j + pat.length ≤ buf.size := by
  fun_induction findFwd buf pat fuel i <;> grind

/-- `Lexer::seek_substr` with a non-empty pattern: total, the cursor only moves forward and stays inside -/
theorem seekSubstr_spec (buf : Buf) (pos : Nat) (pat : List UInt8) (h : pos ≤ buf.size) (hp : pat ≠ []) :
    ∃ r p, seekSubstr buf pos pat = .ok (r, p) ∧ pos ≤ p ∧ p ≤ buf.size ∧
      (r = none → p = buf.size) ∧ (∀ s, r = some s → s = (pos, p - pat.length) ∧ pos + pat.length ≤ p) := by
  unfold seekSubstr
  have h1 : ¬ pos > buf.size := by omega
  have h2 : ¬ (pat.length == 0) = true := by
    cases pat with
    | nil => exact absurd rfl hp
    | cons _ _ => simp
  simp only [h1, h2, if_false, Bool.false_eq_true]
  cases hf : findFwd buf pat (buf.size - pos + 1) pos with
  | none =>
    refine ⟨none, max pos buf.size, rfl, by omega, by omega, (fun _ => by omega), fun s hs => by cases hs⟩
  | some i =>
    have := findFwd_bounds buf pat _ _ _ hf
    simp only []
    have e : i + pat.length - pat.length = i := by omega
    rw [e, newSubstr_fwd this.1 (by omega)]
    simp only [Out.bind_ok]
    refine ⟨some (pos, i), i + pat.length, rfl, by omega, this.2, (fun hn => by cases hn), fun s hs => ?_⟩
    cases hs; exact ⟨by rw [e], by omega⟩

/-- `windows(0)` panics: an empty pattern is the caller's error (the library only passes constants) -/
theorem seekSubstr_empty_panics (buf : Buf) (pos : Nat) (h : pos ≤ buf.size) : seekSubstr buf pos [] = .panic := by
  unfold seekSubstr
  have h1 : ¬ pos > buf.size := by omega
  simp [h1]

theorem findBack_bounds (buf : Buf) (pat : List UInt8) (k i : Nat) (h : findBack buf pat k = some i) : i < k := by
  fun_induction findBack buf pat k <;> grind

/-- `Lexer::seek_substr_back` with a non-empty pattern: `Err(NotFound)` or a position at or before the cursor -/
theorem seekSubstrBack_spec (buf : Buf) (pos : Nat) (pat : List UInt8) (h : pos ≤ buf.size) (hp : pat ≠ []) :
    seekSubstrBack buf pos pat = .err ∨
    ∃ s p, seekSubstrBack buf pos pat = .ok (s, p) ∧ s = (p, pos) ∧ pat.length ≤ p ∧ p ≤ pos := by
  unfold seekSubstrBack
  have h1 : ¬ pos > buf.size := by omega
  have h2 : ¬ (pat.length == 0) = true := by
    cases pat with
    | nil => exact absurd rfl hp
    | cons _ _ => simp
  simp only [h1, h2, if_false, Bool.false_eq_true]
  by_cases h3 : pat.length > pos
  · left; simp [h3]
  · simp only [h3, if_false]
    cases hf : findBack buf pat (pos - pat.length + 1) with
    | none => left; rfl
    | some i =>
      right
      have := findBack_bounds buf pat _ _ hf
      simp only []
      rw [newSubstr_fwd (by omega) h]
      exact ⟨_, _, rfl, rfl, by omega, by omega⟩

theorem seekNewlineLoop_bounds (buf : Buf) (fuel pos : Nat) (h : pos ≤ buf.size) :
    pos ≤ seekNewlineLoop buf fuel pos ∧ seekNewlineLoop buf fuel pos ≤ buf.size := by
  fun_induction seekNewlineLoop buf fuel pos <;> grind [getElem?_lt]

/-- `Lexer::seek_newline` (after the repair): total -/
theorem seekNewline_spec (buf : Buf) (pos : Nat) (h : pos ≤ buf.size) :
    ∃ s p, seekNewline buf pos = .ok (s, p) ∧ pos ≤ p ∧ p ≤ buf.size := by
  unfold seekNewline
  have hb := seekNewlineLoop_bounds buf (buf.size - pos) pos h
  simp only []
  have hi : seekNewlineLoop buf (buf.size - pos) pos ≤ (incrPos buf (seekNewlineLoop buf (buf.size - pos) pos)).2 ∧
      (incrPos buf (seekNewlineLoop buf (buf.size - pos) pos)).2 ≤ buf.size := by
    unfold incrPos
    split <;> simp <;> omega
  rw [newSubstr_fwd (by omega) hi.2]
  exact ⟨_, _, rfl, by omega, hi.2⟩

end PdfLex
