import PdfModel.Model.ColorSpaceWrite

/-! `ColorSpace`: what the writer produces is read back as the value (C15, value side), against `CSLoad.csRead`. -/

namespace CSLoad
open Derive

/-- **read ∘ write = id** for every colour space the writer implements, within the reader's nesting budget, in every
    environment that holds the stream objects the writer made -/
theorem csRead_csWrite : ∀ (cs : CS), cs.writable = true →
    ∀ (n : Nat) (p : Prim) (made : Made) (n' : Nat), csWrite n cs = .ok (p, made, n') →
      ∀ (se : SEnv), Holds se made → ∀ depth, cs.nesting ≤ depth → csRead se depth p = .ok cs := by
  intro cs
  induction cs with
  | deviceCMYK =>
    intro _ n p made n' hw se _ depth _
    simp [csWrite] at hw
    obtain ⟨rfl, _, _⟩ := hw
    cases depth <;> simp [csRead, csHead, resolveO, ofName]
  | deviceRGB =>
    intro _ n p made n' hw se _ depth _
    simp [csWrite] at hw
    obtain ⟨rfl, _, _⟩ := hw
    cases depth <;> simp [csRead, csHead, resolveO, ofName]
  | indexed base hival lookup ih =>
    intro hwr n p made n' hw se hh depth hd
    cases lookup with
    | deferred i d => simp [CS.writable] at hwr
    | bytes bs =>
      simp only [CS.writable, Bool.and_eq_true, decide_eq_true_eq] at hwr
      obtain ⟨hbw, hh256⟩ := hwr
      simp only [csWrite] at hw
      cases hb : csWrite n base with
      | error e => simp [hb] at hw
      | ok r =>
        rcases r with ⟨pb, mb, n1⟩
        simp only [hb] at hw
        cases depth with
        | zero => simp [CS.nesting] at hd
        | succ d =>
          have hdb : base.nesting ≤ d := by simp [CS.nesting] at hd; omega
          have hu8 : asU8 (.int (hival : Int)) = .ok hival := by
            simp [asU8]; omega
          by_cases hlen : bs.length < 100
          · simp only [hlen, if_true] at hw
            cases hw
            have hbase := ih hbw n pb made n' hb se hh d hdb
            simp [csRead, csHead, resolveO, csFamily, hbase, hu8, readLookup, lookupObj]
          · simp only [hlen, if_false] at hw
            cases hw
            have hhb : Holds se mb := fun e he => hh e (List.mem_append_left _ he)
            have hbase := ih hbw n pb mb n1 hb se hhb d hdb
            have hs : se.streams n1 = some ([("Length", .int bs.length)], bs) :=
              hh (n1, [("Length", .int bs.length)], bs) (by simp)
            have hn : ¬ ((bs.length : Int) < 0) := by omega
            simp [csRead, csHead, resolveO, csFamily, hbase, hu8, readLookup, lookupObj, hs, hasFileKeys,
              unitStreamData, dget, hn]
  | _ => intro hwr; simp [CS.writable] at hwr

/-- what the writer does not implement (`unimplemented!()`): every family but DeviceRGB, DeviceCMYK and Indexed -/
theorem csWrite_unimplemented (n : Nat) :
    csWrite n .deviceGray = .error .oof ∧ csWrite n .pattern = .error .oof ∧
    (∀ x, csWrite n (.named x) = .error .oof) ∧
    (∀ a b c, csWrite n (.separation a b c) = .error .oof) ∧
    (∀ a, csWrite n (.icc a) = .error .oof) ∧
    (∀ a b c d, csWrite n (.deviceN a b c d) = .error .oof) ∧
    (∀ d, csWrite n (.calGray d) = .error .oof) ∧ (∀ d, csWrite n (.calRGB d) = .error .oof) ∧
    (∀ d, csWrite n (.calCMYK d) = .error .oof) ∧ (∀ a, csWrite n (.other a) = .error .oof) := by
  refine ⟨rfl, rfl, fun _ => rfl, fun _ _ _ => rfl, fun _ => rfl, fun _ _ _ _ => rfl, fun _ => rfl, fun _ => rfl,
    fun _ => rfl, fun _ => rfl⟩

end CSLoad
