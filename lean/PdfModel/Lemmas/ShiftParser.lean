import PdfModel.Model.Parser
import PdfModel.Lemmas.ShiftStrLexer
import PdfModel.Lemmas.ParserBasics

/-!
  Shift lemma for the parser model (`Model/Parser.lean`): parsing `p ++ b` from `p.size + k` with the lexer's
  `file_offset` = `o` is parsing `b` from `k` with `file_offset` = `o + p.size`: the same value (stream
  ranges included), the cursor `p.size` further on.  Hypotheses: the buffer is shorter than 2 GiB and the
  resolver's lengths are `i32`s (`usize` arithmetic of `read_n` / `offset_pos` cannot overflow).
-/

namespace PdfShift
open PdfLex

variable {R : Type}

def shV {α : Type} (k : Nat) (r : α × Nat) : α × Nat := (r.1, k + r.2)

/-- the environment of the un-prefixed run: the lexer's file offset absorbs the prefix -/
def _root_.PdfLex.Env.shiftOffset (env : Env R) (k : Nat) : Env R := { env with fileOffset := env.fileOffset + k }

def LenBounded (env : Env R) : Prop := ∀ i g n, env.resolveLen i g = .ok n → n ≤ 2147483647

/-- a top-level integer value is an `i32` -/
def IntOK (v : Prim R) : Prop := ∀ n, v = .int n → n ≤ 2147483647

def IntOKres (r : Out (Prim R × Nat)) : Prop := ∀ v q, r = .ok (v, q) → IntOK v

/-- a direct `/Length` is an `i32` -/
def LenOK (d : Dict R) : Prop := ∀ n, dictGet d kwLength = some (.int n) → n ≤ 2147483647

theorem lenOK_nil : LenOK ([] : Dict R) := by intro n h; simp [dictGet] at h

theorem dictGet_insert (d : Dict R) (k k' : List UInt8) (v : Prim R) :
    dictGet (dictInsert d k v) k' = if k = k' then some v else dictGet d k' := by
  induction d with
  | nil => simp [dictInsert, dictGet]
  | cons kv d ih =>
    obtain ⟨a, w⟩ := kv
    simp only [dictInsert]
    by_cases h1 : a = k
    · subst h1
      simp only [if_true, dictGet]
      by_cases h2 : a = k' <;> simp [h2]
    · simp only [h1, if_false, dictGet]
      by_cases h2 : a = k'
      · subst h2; simp [Ne.symm h1]
      · simp only [h2, if_false, ih]

theorem lenOK_insert (d : Dict R) (k : List UInt8) (v : Prim R) (hd : LenOK d) (hv : IntOK v) :
    LenOK (dictInsert d k v) := by
  intro n h
  rw [dictGet_insert] at h
  split at h
  · cases h; exact hv n rfl
  · exact hd n h

theorem parseI32_le (t : List UInt8) (i : Int) (h : parseI32 t = some i) : i ≤ 2147483647 := by
  unfold parseI32 at h
  split at h
  · split at h
    · cases h
    · split at h
      · cases h
      · cases h; omega
  · simp only at h
    split at h
    · cases h
    · split at h
      · cases h
      · cases h; omega

/-! ### positions stay inside the buffer -/

theorem skipComments_ge (b : Buf) : ∀ (fuel q a : Nat), skipComments b fuel q = .ok a → q ≤ a := by
  intro fuel
  induction fuel with
  | zero =>
    intro q a h
    rw [skipComments_zero] at h
    split at h <;> cases h; omega
  | succ fuel ih =>
    intro q a h
    rw [skipComments_succ] at h
    split at h
    · split at h
      · cases h
      · cases hs : skipWhitespace b (afterComment b q) with
        | ok c =>
          simp only [hs, Out.bind] at h
          have h1 := afterComment_gt b q
          have h2 := skipWhitespace_ge b _ c hs
          have h3 := ih c a h
          omega
        | err => simp [hs, Out.bind] at h
        | panic => simp [hs, Out.bind] at h
        | oof => simp [hs, Out.bind] at h
    · cases h; omega

theorem skipWhitespace_lt (b : Buf) (pos a : Nat) (h : skipWhitespace b pos = .ok a) : a < b.size := by
  unfold skipWhitespace boundary at h
  by_cases hp : pos > b.size
  · simp [hp, Out.bind] at h
  · simp only [hp, if_false, Out.bind] at h
    split at h
    · cases h
    · cases h; omega

theorem tokenStart_ge (b : Buf) (pos a : Nat) (h : tokenStart b pos = .ok a) : pos ≤ a := by
  unfold tokenStart at h
  cases hs : skipWhitespace b pos with
  | ok c =>
    simp only [hs, Out.bind] at h
    have := skipWhitespace_ge b pos c hs
    have := skipComments_ge b _ c a h
    omega
  | err => simp [hs, Out.bind] at h
  | panic => simp [hs, Out.bind] at h
  | oof => simp [hs, Out.bind] at h

theorem newSubstr_fst (b : Buf) (s t : Nat) (w : Nat × Nat) (hst : s ≤ t) (h : newSubstr b s t = .ok w) : w.1 = s := by
  unfold newSubstr at h
  have : ¬ s > t := by omega
  simp only [this, if_false] at h
  split at h
  · cases h
  · cases h; rfl

theorem lexemeAt_fst (b : Buf) (a : Nat) (w : Nat × Nat) (ha : a ≤ b.size) (h : lexemeAt b a = .ok w) : w.1 = a := by
  unfold lexemeAt at h
  have hreg : a ≤ scanRegular b a := scanWhile_ge b isRegular _ a ha
  split at h
  · cases hb : b[a]? with
    | none => simp [hb] at h
    | some c =>
      have hlt : a < b.size := by
        rcases Nat.lt_or_ge a b.size with hlt | hge
        · exact hlt
        · have : b[a]? = none := by simp; omega
          rw [this] at hb; cases hb
      have hadv : advancePos b a = .ok (a + 1) := by simp [advancePos, hlt]
      simp only [hb, hadv, Out.bind] at h
      split at h
      · have : a + 1 ≤ scanRegular b (a + 1) := scanWhile_ge b isRegular _ (a + 1) (by omega)
        exact newSubstr_fst b a _ w (by omega) h
      · by_cases hd : isDouble b a = true
        · simp only [hd, if_true] at h
          unfold advancePos at h
          by_cases h2 : a + 1 < b.size
          · simp only [h2, if_true] at h; exact newSubstr_fst b a _ w (by omega) h
          · simp [h2] at h
        · simp only [hd, Bool.false_eq_true, if_false, hadv] at h
          exact newSubstr_fst b a _ w (by omega) h
  · exact newSubstr_fst b a _ w hreg h

/-- a lexeme found from `q` on starts at or behind `q` and ends inside the buffer -/
theorem nextWord_range (b : Buf) (q : Nat) (w : Nat × Nat) (h : nextWord b q = .ok w) :
    q ≤ w.1 ∧ w.1 ≤ w.2 ∧ w.2 ≤ b.size := by
  have hb := nextWord_bounds h
  refine ⟨?_, hb.1, hb.2⟩
  unfold nextWord at h
  split at h
  · cases h
  · cases ht : tokenStart b q with
    | ok a =>
      simp only [ht, Out.bind] at h
      have h1 := tokenStart_ge b q a ht
      have ha : a ≤ b.size := by
        unfold tokenStart at ht
        cases hs : skipWhitespace b q with
        | ok c =>
          simp only [hs, Out.bind] at ht
          -- `skipComments` ends at a position that `skipWhitespace` returned (inside the buffer) or at `c`
          have hc := skipWhitespace_lt b q c hs
          have : ∀ (fuel s r : Nat), s < b.size → skipComments b fuel s = .ok r → r < b.size := by
            intro fuel
            induction fuel with
            | zero => intro s r hs' hr; rw [skipComments_zero] at hr; split at hr <;> cases hr; exact hs'
            | succ fuel ih =>
              intro s r hs' hr
              rw [skipComments_succ] at hr
              split at hr
              · split at hr
                · cases hr
                · cases hw : skipWhitespace b (afterComment b s) with
                  | ok d =>
                    simp only [hw, Out.bind] at hr
                    exact ih d r (skipWhitespace_lt b _ d hw) hr
                  | err => simp [hw, Out.bind] at hr
                  | panic => simp [hw, Out.bind] at hr
                  | oof => simp [hw, Out.bind] at hr
              · cases hr; exact hs'
          have := this _ c a hc ht
          omega
        | err => simp [hs, Out.bind] at ht
        | panic => simp [hs, Out.bind] at ht
        | oof => simp [hs, Out.bind] at ht
      have := lexemeAt_fst b a w ha h
      omega
    | err => simp [ht, Out.bind] at h
    | panic => simp [ht, Out.bind] at h
    | oof => simp [ht, Out.bind] at h

/-! ### the string lexers stay inside the buffer -/

theorem get_some_lt (b : Buf) (pos : Nat) (c : UInt8) (h : b[pos]? = some c) : pos < b.size := by
  rcases Nat.lt_or_ge pos b.size with hlt | hge
  · exact hlt
  · have : b[pos]? = none := by simp; omega
    rw [this] at h; cases h

theorem nextByte_le (b : Buf) (pos : Nat) (c : UInt8) (q : Nat) (h : nextByte b pos = .ok (c, q)) : q ≤ b.size := by
  unfold nextByte at h
  cases hb : b[pos]? with
  | none => simp [hb] at h
  | some d => simp [hb] at h; have := get_some_lt b pos d hb; omega

theorem octalMore_le (b : Buf) : ∀ (n code pos code' q : Nat), pos ≤ b.size →
    octalMore b n code pos = .ok (code', q) → q ≤ b.size := by
  intro n
  induction n with
  | zero => intro code pos code' q hp h; simp [octalMore] at h; omega
  | succ n ih =>
    intro code pos code' q hp h
    simp only [octalMore, peekByte] at h
    cases hb : b[pos]? with
    | none => simp [hb, Out.bind] at h
    | some d =>
      simp only [hb, Out.bind] at h
      split at h
      · exact ih _ _ _ _ (by have := get_some_lt b pos d hb; omega) h
      · simp at h; omega

theorem skipIf_le (b : Buf) (pos : Nat) (c : UInt8) (hp : pos ≤ b.size) : skipIf b pos c ≤ b.size := by
  unfold skipIf
  split
  · rename_i h
    have : b[pos]? = some c := by simpa using h
    have := get_some_lt b pos c this; omega
  · exact hp

theorem nextLexeme_le (b : Buf) : ∀ (fuel pos : Nat) (nested : Int) (r : Option UInt8) (q : Nat) (n' : Int),
    nextLexeme b fuel pos nested = .ok (r, q, n') → q ≤ b.size := by
  intro fuel
  induction fuel with
  | zero => intro pos nested r q n' h; simp [nextLexeme] at h
  | succ fuel ih =>
    intro pos nested r q n' h
    simp only [nextLexeme] at h
    cases h1 : nextByte b pos with
    | ok cq =>
      obtain ⟨c, q1⟩ := cq
      have hq1 := nextByte_le b pos c q1 h1
      simp only [h1, Out.bind] at h
      split at h
      · cases h2 : nextByte b q1 with
        | ok cq2 =>
          obtain ⟨c2, q2⟩ := cq2
          have hq2 := nextByte_le b q1 c2 q2 h2
          simp only [h2] at h
          cases hne : namedEsc c2 with
          | some v => simp [hne] at h; omega
          | none =>
            simp only [hne] at h
            split at h
            · exact ih _ _ _ _ _ h
            · split at h
              · exact ih _ _ _ _ _ h
              · split at h
                · cases ho : octalMore b 2 (c2.toNat - 48) q2 with
                  | ok cq3 =>
                    obtain ⟨code, q3⟩ := cq3
                    have := octalMore_le b 2 _ q2 code q3 hq2 ho
                    simp [ho] at h; omega
                  | err => simp [ho] at h
                  | panic => simp [ho] at h
                  | oof => simp [ho] at h
                · simp at h; omega
        | err => simp [h2] at h
        | panic => simp [h2] at h
        | oof => simp [h2] at h
      · split at h
        · split at h
          · cases h
          · simp at h; omega
        · split at h
          · split at h <;> (simp at h; omega)
          · split at h
            · simp at h; have := skipIf_le b q1 10 hq1; omega
            · simp at h; omega
    | err => simp [h1, Out.bind] at h
    | panic => simp [h1, Out.bind] at h
    | oof => simp [h1, Out.bind] at h

theorem collectString_le (b : Buf) : ∀ (fuel pos : Nat) (nested : Int) (acc s : List UInt8) (q : Nat),
    collectString b fuel pos nested acc = .ok (s, q) → q ≤ b.size := by
  intro fuel
  induction fuel with
  | zero => intro pos nested acc s q h; simp [collectString] at h
  | succ fuel ih =>
    intro pos nested acc s q h
    simp only [collectString] at h
    cases h1 : nextLexeme b (fuel + 1) pos nested with
    | ok r3 =>
      obtain ⟨r, q1, n1⟩ := r3
      have := nextLexeme_le b _ _ _ _ _ _ h1
      simp only [h1, Out.bind] at h
      cases r with
      | none => simp at h; omega
      | some c => exact ih _ _ _ _ _ h
    | err => simp [h1, Out.bind] at h
    | panic => simp [h1, Out.bind] at h
    | oof => simp [h1, Out.bind] at h

theorem nextNonWs_le (b : Buf) : ∀ (fuel pos : Nat) (c : UInt8) (q : Nat),
    nextNonWs b fuel pos = .ok (c, q) → q ≤ b.size := by
  intro fuel
  induction fuel with
  | zero => intro pos c q h; simp [nextNonWs] at h
  | succ fuel ih =>
    intro pos c q h
    simp only [nextNonWs] at h
    cases hb : b[pos]? with
    | none => simp [hb] at h
    | some d =>
      simp only [hb] at h
      split at h
      · exact ih _ _ _ h
      · simp at h; have := get_some_lt b pos d hb; omega

theorem nextHexByte_le (b : Buf) (base pos : Nat) (r : Option UInt8) (q : Nat)
    (h : nextHexByte b base pos = .ok (r, q)) : q ≤ b.size := by
  unfold nextHexByte at h
  cases h1 : nextNonWs b (b.size - pos + 1) pos with
  | ok cq =>
    obtain ⟨c1, q1⟩ := cq
    have hq1 := nextNonWs_le b _ _ _ _ h1
    simp only [h1, Out.bind] at h
    split at h
    · simp at h; omega
    · cases hv : hexDigitVal c1 with
      | none => simp [hv] at h
      | some hi =>
        simp only [hv] at h
        cases h2 : nextNonWs b (b.size - q1 + 1) q1 with
        | ok cq2 =>
          obtain ⟨c2, q2⟩ := cq2
          have hq2 := nextNonWs_le b _ _ _ _ h2
          simp only [h2] at h
          split at h
          · unfold hexBack at h
            by_cases hgt : q2 > base
            · simp [hgt, Out.bind] at h; omega
            · simp [hgt, Out.bind] at h
          · cases hv2 : hexDigitVal c2 with
            | none => simp [hv2] at h
            | some lo => simp [hv2] at h; omega
        | err => simp [h2] at h
        | panic => simp [h2] at h
        | oof => simp [h2] at h
  | err => simp [h1, Out.bind] at h
  | panic => simp [h1, Out.bind] at h
  | oof => simp [h1, Out.bind] at h

theorem collectHex_le (b : Buf) (base : Nat) : ∀ (fuel pos : Nat) (acc s : List UInt8) (q : Nat),
    collectHex b base fuel pos acc = .ok (s, q) → q ≤ b.size := by
  intro fuel
  induction fuel with
  | zero => intro pos acc s q h; simp [collectHex] at h
  | succ fuel ih =>
    intro pos acc s q h
    simp only [collectHex] at h
    cases h1 : nextHexByte b base pos with
    | ok rq =>
      obtain ⟨r, q1⟩ := rq
      have := nextHexByte_le b base pos r q1 h1
      simp only [h1, Out.bind] at h
      cases r with
      | none => simp at h; omega
      | some c => exact ih _ _ _ _ h
    | err => simp [h1, Out.bind] at h
    | panic => simp [h1, Out.bind] at h
    | oof => simp [h1, Out.bind] at h

/-! ### the integer / reference look-ahead -/

def shLa (k : Nat) (r : Option ((Nat × Nat) × (Nat × Nat)) × Nat) : Option ((Nat × Nat) × (Nat × Nat)) × Nat :=
  (r.1.map fun ww => (sh2 k ww.1, sh2 k ww.2), k + r.2)

theorem refLookahead_shift (p b : Buf) (posBk : Nat) :
    refLookahead (p ++ b) (p.size + posBk) = omap (shLa p.size) (refLookahead b posBk) := by
  unfold refLookahead
  rw [next_shift]
  cases next b posBk with
  | ok w2 =>
    simp only [omap_ok, sh2, slice_shift]
    split
    · rw [next_shift]
      cases next b w2.2 with
      | ok w3 => rfl
      | err => rfl
      | panic => rfl
      | oof => rfl
    · rfl
  | err => rfl
  | panic => rfl
  | oof => rfl

/-- a step that does not depend on the buffer, followed by a continuation that commutes with the shift -/
theorem bind_same {α β β' : Type} (x : Out α) (h : β → β') (f : α → Out β) (f' : α → Out β')
    (hf : ∀ a, f' a = omap h (f a)) : x.bind f' = omap h (x.bind f) := by
  cases x <;> simp [Out.bind, hf]

theorem parseIntOrRef_shift (p b : Buf) (posBk : Nat) (first : List UInt8) (flags : Nat) :
    parseIntOrRef (R := R) (p ++ b) (p.size + posBk) first flags
      = omap (shV p.size) (parseIntOrRef b posBk first flags) := by
  unfold parseIntOrRef
  apply bind_same
  intro _
  apply bind_shift _ _ (shLa p.size) (shV p.size) _ _ (refLookahead_shift p b posBk)
  rintro ⟨la, cur⟩
  simp only [shLa]
  have hint : ((check flags Flags.integer).bind fun _ =>
        (setPos (p ++ b) (p.size + cur) (p.size + posBk)).bind fun q =>
          match parseI32 first with
          | some i => (Out.ok (Prim.int i, q) : Out (Prim R × Nat))
          | none => .err)
      = omap (shV p.size) ((check flags Flags.integer).bind fun _ =>
        (setPos b cur posBk).bind fun q =>
          match parseI32 first with
          | some i => (Out.ok (Prim.int i, q) : Out (Prim R × Nat))
          | none => .err) := by
    apply bind_same
    intro _
    apply bind_shift _ _ (p.size + ·) (shV p.size) _ _ (setPos_shift p b cur posBk)
    intro q
    cases parseI32 first <;> rfl
  cases la with
  | none => exact hint
  | some ww =>
    obtain ⟨w2, w3⟩ := ww
    simp only [Option.map_some, sh2, slice_shift]
    split
    · apply bind_same
      intro _
      cases parseU64 first with
      | none => rfl
      | some i =>
        simp only
        cases parseU64 (slice b w2.1 w2.2) <;> rfl
    · exact hint

theorem parseIntOrRef_intOK (b : Buf) (posBk : Nat) (first : List UInt8) (flags : Nat) :
    IntOKres (parseIntOrRef (R := R) b posBk first flags) := by
  intro v q h n hv
  subst hv
  unfold parseIntOrRef at h
  cases hc : check flags (Flags.integer ||| Flags.ref) with
  | ok u =>
    simp only [hc, Out.bind_ok] at h
    cases hl : refLookahead b posBk with
    | ok lc =>
      obtain ⟨la, cur⟩ := lc
      simp only [hl, Out.bind_ok] at h
      have key : ∀ (x : Out (Prim R × Nat)), x = ((check flags Flags.integer).bind fun _ =>
            (setPos b cur posBk).bind fun q =>
              match parseI32 first with
              | some i => (Out.ok (Prim.int i, q) : Out (Prim R × Nat))
              | none => .err) → x = .ok (.int n, q) → n ≤ 2147483647 := by
        intro x hx hxe
        subst hx
        cases hc2 : check flags Flags.integer with
        | ok u2 =>
          simp only [hc2, Out.bind_ok] at hxe
          cases hsp : setPos b cur posBk with
          | ok q' =>
            simp only [hsp, Out.bind_ok] at hxe
            cases hp : parseI32 first with
            | none => simp [hp] at hxe
            | some i =>
              simp only [hp] at hxe
              cases hxe
              exact parseI32_le first _ hp
          | err => simp [hsp] at hxe
          | panic => simp [hsp] at hxe
          | oof => simp [hsp] at hxe
        | err => simp [hc2, Out.bind] at hxe
        | panic => simp [hc2, Out.bind] at hxe
        | oof => simp [hc2, Out.bind] at hxe
      cases la with
      | none => exact key _ rfl h
      | some ww =>
        simp only at h
        split at h
        · cases hc3 : check flags Flags.ref with
          | ok u3 =>
            simp only [hc3, Out.bind_ok] at h
            cases hp1 : parseU64 first with
            | none => simp [hp1] at h
            | some i =>
              simp only [hp1] at h
              cases hp2 : parseU64 (slice b ww.1.1 ww.1.2) with
              | none => simp [hp2] at h
              | some g => simp [hp2] at h
          | err => simp [hc3, Out.bind] at h
          | panic => simp [hc3, Out.bind] at h
          | oof => simp [hc3, Out.bind] at h
        · exact key _ rfl h
    | err => simp [hl] at h
    | panic => simp [hl] at h
    | oof => simp [hl] at h
  | err => simp [hc, Out.bind] at h
  | panic => simp [hc, Out.bind] at h
  | oof => simp [hc, Out.bind] at h

/-! ### stream objects -/

theorem nextStream_le (b : Buf) (pos q : Nat) (h : nextStream b pos = .ok q) : q ≤ b.size ∧ 0 < b.size := by
  unfold nextStream at h
  cases hw : nextWord b pos with
  | ok w =>
    simp only [hw, Out.bind_ok] at h
    split at h
    · cases h
    · split at h
      · cases h
      · cases h6 : b[w.2 - (w.2 - w.1) + 6]? with
        | none => simp [h6] at h
        | some b0 =>
          have := get_some_lt b _ b0 h6
          simp only [h6] at h
          split at h
          · cases h; omega
          · split at h
            · cases h7 : b[w.2 - (w.2 - w.1) + 7]? with
              | none => simp [h7] at h
              | some b1 =>
                have := get_some_lt b _ b1 h7
                simp only [h7] at h
                split at h
                · cases h
                · cases h; omega
            · cases h
  | err => simp [hw, Out.bind] at h
  | panic => simp [hw, Out.bind] at h
  | oof => simp [hw, Out.bind] at h

/-- from the last byte of the buffer on there is no room for `endstream` -/
theorem nextExpect_last (b : Buf) (q : Nat) (hq : b.size ≤ q + 1) : ∀ r, nextExpect b q kwEndstream ≠ .ok r := by
  intro r h
  unfold nextExpect next at h
  cases hw : nextWord b q with
  | ok w =>
    have := nextWord_range b q w hw
    simp only [hw, Out.bind_ok] at h
    split at h
    · rename_i heq
      have hl : (slice b w.1 w.2).length = 9 := by
        have : slice b w.1 w.2 = kwEndstream := by simpa using heq
        rw [this]; rfl
      simp [slice] at hl
      omega
    · cases h
  | err => simp [hw, Out.bind] at h
  | panic => simp [hw, Out.bind] at h
  | oof => simp [hw, Out.bind] at h

/-- the part of `parse_stream_object` behind the length -/
def streamTail (env : Env R) (buf : Buf) (q n : Nat) (dict : Dict R) (id : Nat × Nat) : Out (Prim R × Nat) :=
  (readN buf q n).bind fun x =>
    if x.1.2 - x.1.1 != n then .err else
    (nextExpect buf x.2 kwEndstream).bind fun pos =>
    .ok (.stream dict (.inFile id.1 id.2 (env.fileOffset + x.1.1) (env.fileOffset + x.1.1 + (x.1.2 - x.1.1))), pos)

theorem streamTail_shift (env : Env R) (p b : Buf) (q n : Nat) (dict : Dict R) (id : Nat × Nat)
    (hsz : p.size + b.size ≤ 2147483647) (hq : q ≤ b.size) (hb0 : 0 < b.size) (hn : n ≤ 2147483647) :
    streamTail env (p ++ b) (p.size + q) n dict id
      = omap (shV p.size) (streamTail (env.shiftOffset p.size) b q n dict id) := by
  unfold streamTail
  by_cases hlt : q < b.size
  · rw [readN_shift p b q n (by simp [usizeMax]; omega) hlt]
    cases readN b q n with
    | ok r =>
      obtain ⟨sub, q2⟩ := r
      simp only [omap_ok, Out.bind_ok, sh2]
      have e : p.size + sub.2 - (p.size + sub.1) = sub.2 - sub.1 := Nat.add_sub_add_left _ _ _
      rw [e]
      split
      · rfl
      · rw [nextExpect_shift]
        cases nextExpect b q2 kwEndstream with
        | ok q3 =>
          simp only [omap_ok, Out.bind_ok, shV, Env.shiftOffset, e, Nat.add_assoc]
        | err => rfl
        | panic => rfl
        | oof => rfl
    | err => rfl
    | panic => rfl
    | oof => rfl
  · -- the data would start at the very end of the buffer: no `endstream` can follow
    have hqe : q = b.size := by omega
    subst hqe
    have hL1 : readN (p ++ b) (p.size + b.size) n = .ok ((0, 0), p.size + (b.size - 1)) := by
      unfold readN
      simp only [size_shift]
      have m : min (p.size + b.size + n) usizeMax = p.size + b.size + n :=
        Nat.min_eq_left (by simp [usizeMax]; omega)
      have h2 : p.size + b.size + n ≥ p.size + b.size := by omega
      have h4 : ¬ (p.size + b.size < p.size + b.size) := by omega
      rw [m]
      simp only [h2, h4, if_true, if_false]
      have : newSubstr (p ++ b) 0 0 = .ok (0, 0) := by simp [newSubstr]
      rw [this]
      simp only [Out.bind_ok]
      congr 2; omega
    have hR1 : readN b b.size n = .ok ((0, 0), b.size - 1) := by
      unfold readN
      have m : min (b.size + n) usizeMax = b.size + n := Nat.min_eq_left (by simp [usizeMax]; omega)
      have h2 : b.size + n ≥ b.size := by omega
      have h4 : ¬ (b.size < b.size) := by omega
      rw [m]
      simp only [h2, h4, if_true, if_false]
      have : newSubstr b 0 0 = .ok (0, 0) := by simp [newSubstr]
      rw [this]
      rfl
    rw [hL1, hR1]
    simp only [Out.bind_ok]
    split
    · rfl
    · rw [nextExpect_shift]
      have := nextExpect_last b (b.size - 1) (by omega)
      cases hne : nextExpect b (b.size - 1) kwEndstream with
      | ok q3 => exact absurd hne (this q3)
      | err => rfl
      | panic => rfl
      | oof => rfl

theorem parseStreamObject_shift (env : Env R) (p b : Buf) (pos : Nat) (dict : Dict R) (id : Nat × Nat)
    (hsz : (p ++ b).size ≤ 2147483647) (hlen : LenBounded env) (hd : LenOK dict) :
    parseStreamObject env (p ++ b) (p.size + pos) dict id
      = omap (shV p.size) (parseStreamObject (env.shiftOffset p.size) b pos dict id) := by
  rw [size_shift] at hsz
  unfold parseStreamObject
  rw [nextStream_shift]
  cases hns : nextStream b pos with
  | ok q =>
    obtain ⟨hq, hb0⟩ := nextStream_le b pos q hns
    simp only [omap_ok, Out.bind_ok]
    cases hg : dictGet dict kwLength with
    | none => rfl
    | some v =>
      cases v with
      | int i =>
        simp only
        by_cases hi : i ≥ 0
        · simp only [hi, if_true, Out.bind_ok]
          have := hd i hg
          exact streamTail_shift env p b q i.toNat dict id hsz hq hb0 (by omega)
        · simp only [hi, if_false]; rfl
      | ref i g =>
        simp only
        have hro : (env.shiftOffset p.size).resolveLen i g = env.resolveLen i g := rfl
        rw [hro]
        cases hr : env.resolveLen i g with
        | ok n =>
          simp only [Out.bind_ok]
          exact streamTail_shift env p b q n dict id hsz hq hb0 (hlen i g n hr)
        | err => rfl
        | panic => rfl
        | oof => rfl
      | null => rfl
      | real _ => rfl
      | bool _ => rfl
      | str _ => rfl
      | stream _ _ => rfl
      | dict _ => rfl
      | arr _ => rfl
      | name _ => rfl
  | err => rfl
  | panic => rfl
  | oof => rfl

/-! ### shapes: integers are `i32`s, a direct `/Length` is an `i32` -/

theorem intOKres_bind {α : Type} (x : Out α) (f : α → Out (Prim R × Nat)) (h : ∀ a, IntOKres (f a)) :
    IntOKres (x.bind f) := by
  cases x with
  | ok a => simpa using h a
  | err => intro v q h; cases h
  | panic => intro v q h; cases h
  | oof => intro v q h; cases h

theorem intOKres_fail_err : IntOKres (.err : Out (Prim R × Nat)) := by intro v q h; cases h
theorem intOKres_fail_oof : IntOKres (.oof : Out (Prim R × Nat)) := by intro v q h; cases h
theorem intOKres_fail_panic : IntOKres (.panic : Out (Prim R × Nat)) := by intro v q h; cases h

theorem intOKres_of (v : Prim R) (q : Nat) (h : ∀ n, v ≠ .int n) : IntOKres (.ok (v, q)) := by
  intro v' q' he n hn
  cases he
  exact absurd hn (h n)

theorem parseStreamObject_intOK (env : Env R) (buf : Buf) (pos : Nat) (dict : Dict R) (id : Nat × Nat) :
    IntOKres (parseStreamObject env buf pos dict id) := by
  unfold parseStreamObject
  apply intOKres_bind; intro q
  apply intOKres_bind; intro n
  apply intOKres_bind; intro x
  obtain ⟨sub, q1⟩ := x
  simp only
  split
  · exact intOKres_fail_err
  · apply intOKres_bind; intro q2
    exact intOKres_of _ _ (by intro n h; cases h)

theorem bind_eq_ok {α β : Type} {x : Out α} {f : α → Out β} {r : β} (h : x.bind f = .ok r) :
    ∃ a, x = .ok a ∧ f a = .ok r := by
  cases x with
  | ok a => exact ⟨a, rfl, by simpa using h⟩
  | err => cases h
  | panic => cases h
  | oof => cases h

structure Shapes (env : Env R) (buf : Buf) (fuel : Nat) : Prop where
  ctx : ∀ pos ctx flags depth, IntOKres (parseCtx env buf fuel pos ctx flags depth)
  inner : ∀ pos ctx flags depth, IntOKres (parseInner env buf fuel pos ctx flags depth)
  arr : ∀ pos ctx depth acc, IntOKres (parseArray env buf fuel pos ctx depth acc)
  dict : ∀ pos ctx depth acc, LenOK acc → ∀ d q, parseDict env buf fuel pos ctx depth acc = .ok (d, q) → LenOK d

theorem shapes (env : Env R) (buf : Buf) : ∀ fuel, Shapes env buf fuel := by
  intro fuel
  induction fuel with
  | zero =>
    refine ⟨?_, ?_, ?_, ?_⟩
    · intro pos ctx flags depth; simp only [parseCtx]; exact intOKres_fail_oof
    · intro pos ctx flags depth; simp only [parseInner]; exact intOKres_fail_oof
    · intro pos ctx depth acc; simp only [parseArray]; exact intOKres_fail_oof
    · intro pos ctx depth acc _ d q h; simp [parseDict] at h
  | succ fuel ih =>
    refine ⟨?_, ?_, ?_, ?_⟩
    · intro pos ctx flags depth
      simp only [parseCtx]
      have := ih.inner pos ctx flags depth
      cases hi : parseInner env buf fuel pos ctx flags depth with
      | ok r => simp only; rw [hi] at this; exact this
      | err => simp only; apply intOKres_bind; intro _; exact intOKres_fail_err
      | panic => exact intOKres_fail_panic
      | oof => exact intOKres_fail_oof
    · intro pos ctx flags depth
      simp only [parseInner]
      apply intOKres_bind; intro _
      apply intOKres_bind; intro w
      split
      · apply intOKres_bind; intro _
        split
        · exact intOKres_fail_err
        · apply intOKres_bind; intro dq
          apply intOKres_bind; intro pk
          split
          · cases ctx with
            | none => exact intOKres_fail_err
            | some id => exact parseStreamObject_intOK _ _ _ _ _
          · exact intOKres_of _ _ (by intro n h; cases h)
      · split
        · exact parseIntOrRef_intOK _ _ _ _
        · split
          · apply intOKres_bind; intro _
            split
            · exact intOKres_of _ _ (by intro n h; cases h)
            · exact intOKres_fail_err
          · split
            · apply intOKres_bind; intro _
              apply intOKres_bind; intro s
              exact intOKres_of _ _ (by intro n h; cases h)
            · split
              · apply intOKres_bind; intro _
                split
                · exact intOKres_fail_err
                · exact ih.arr _ _ _ _
              · split
                · apply intOKres_bind; intro _
                  apply intOKres_bind; intro _
                  apply intOKres_bind; intro sp
                  apply intOKres_bind; intro q
                  apply intOKres_bind; intro s
                  exact intOKres_of _ _ (by intro n h; cases h)
                · split
                  · apply intOKres_bind; intro _
                    apply intOKres_bind; intro _
                    apply intOKres_bind; intro sp
                    apply intOKres_bind; intro q
                    apply intOKres_bind; intro s
                    exact intOKres_of _ _ (by intro n h; cases h)
                  · split
                    · apply intOKres_bind; intro _
                      exact intOKres_of _ _ (by intro n h; cases h)
                    · split
                      · apply intOKres_bind; intro _
                        exact intOKres_of _ _ (by intro n h; cases h)
                      · split
                        · apply intOKres_bind; intro _
                          exact intOKres_of _ _ (by intro n h; cases h)
                        · apply intOKres_bind; intro _
                          exact intOKres_fail_err
    · intro pos ctx depth acc
      simp only [parseArray]
      apply intOKres_bind; intro pk
      split
      · apply intOKres_bind; intro w
        exact intOKres_of _ _ (by intro n h; cases h)
      · apply intOKres_bind; intro eq
        exact ih.arr _ _ _ _
    · intro pos ctx depth acc hacc d q h
      simp only [parseDict] at h
      obtain ⟨w, hn, h⟩ := bind_eq_ok h
      split at h
      · obtain ⟨key, hk, h⟩ := bind_eq_ok h
        obtain ⟨vq, hv, h⟩ := bind_eq_ok h
        obtain ⟨v, q1⟩ := vq
        have hvi : IntOK v := ih.ctx _ _ _ _ v q1 hv
        exact ih.dict _ _ _ _ (lenOK_insert acc key v hacc hvi) d q h
      · split at h
        · cases h; exact hacc
        · cases h

/-! ### the shift of the recursive parser -/

/-- `bind_shift` where the continuation may use that its argument is what the first step returned -/
theorem bind_shift' {α β α' β' : Type} (x : Out α) (x' : Out α') (g : α → α') (h : β → β')
    (f : α → Out β) (f' : α' → Out β') (hx : x' = omap g x) (hf : ∀ a, x = .ok a → f' (g a) = omap h (f a)) :
    x'.bind f' = omap h (x.bind f) := by
  subst hx
  cases x with
  | ok a => simpa using hf a rfl
  | err => rfl
  | panic => rfl
  | oof => rfl

theorem remainingStart_le (b : Buf) (pos a : Nat) (h : remainingStart b pos = .ok a) : pos ≤ b.size := by
  unfold remainingStart at h
  split at h
  · cases h
  · omega

/-- `read_n` whose result is thrown away: only the outcome kind matters -/
theorem readN_discard_shift {β β' : Type} (p b : Buf) (pos n : Nat) (g : β → β')
    (hsz : p.size + b.size ≤ 2147483647) (hn : n ≤ 2147483647) (hpos : pos ≤ b.size) (hb0 : 0 < b.size) :
    ((readN (p ++ b) (p.size + pos) n).bind fun _ => (Out.err : Out β'))
      = omap g ((readN b pos n).bind fun _ => (Out.err : Out β)) := by
  by_cases hlt : pos < b.size
  · rw [readN_shift p b pos n (by simp [usizeMax]; omega) hlt]
    cases readN b pos n <;> rfl
  · have hqe : pos = b.size := by omega
    subst hqe
    have hL1 : readN (p ++ b) (p.size + b.size) n = .ok ((0, 0), p.size + (b.size - 1)) := by
      unfold readN
      simp only [size_shift]
      have m : min (p.size + b.size + n) usizeMax = p.size + b.size + n :=
        Nat.min_eq_left (by simp [usizeMax]; omega)
      have h2 : p.size + b.size + n ≥ p.size + b.size := by omega
      have h4 : ¬ (p.size + b.size < p.size + b.size) := by omega
      rw [m]
      simp only [h2, h4, if_true, if_false]
      have : newSubstr (p ++ b) 0 0 = .ok (0, 0) := by simp [newSubstr]
      rw [this]
      simp only [Out.bind_ok]
      congr 2; omega
    have hR1 : readN b b.size n = .ok ((0, 0), b.size - 1) := by
      unfold readN
      have m : min (b.size + n) usizeMax = b.size + n := Nat.min_eq_left (by simp [usizeMax]; omega)
      have h2 : b.size + n ≥ b.size := by omega
      have h4 : ¬ (b.size < b.size) := by omega
      rw [m]
      simp only [h2, h4, if_true, if_false]
      have : newSubstr b 0 0 = .ok (0, 0) := by simp [newSubstr]
      rw [this]
      rfl
    rw [hL1, hR1]; rfl

theorem decryptStr_shiftOffset (env : Env R) (k : Nat) (ctx : Option (Nat × Nat)) (s : List UInt8) :
    decryptStr (env.shiftOffset k) ctx s = decryptStr env ctx s := rfl

structure Shifts (env : Env R) (p b : Buf) (fuel : Nat) : Prop where
  ctx : ∀ pos ctx flags depth, parseCtx env (p ++ b) fuel (p.size + pos) ctx flags depth
      = omap (shV p.size) (parseCtx (env.shiftOffset p.size) b fuel pos ctx flags depth)
  inner : ∀ pos ctx flags depth, parseInner env (p ++ b) fuel (p.size + pos) ctx flags depth
      = omap (shV p.size) (parseInner (env.shiftOffset p.size) b fuel pos ctx flags depth)
  arr : ∀ pos ctx depth acc, parseArray env (p ++ b) fuel (p.size + pos) ctx depth acc
      = omap (shV p.size) (parseArray (env.shiftOffset p.size) b fuel pos ctx depth acc)
  dict : ∀ pos ctx depth acc, LenOK acc → parseDict env (p ++ b) fuel (p.size + pos) ctx depth acc
      = omap (shV p.size) (parseDict (env.shiftOffset p.size) b fuel pos ctx depth acc)

theorem shifts (env : Env R) (p b : Buf) (hsz : (p ++ b).size ≤ 2147483647) (hlen : LenBounded env) :
    ∀ fuel, Shifts env p b fuel := by
  have hsz' : p.size + b.size ≤ 2147483647 := by rw [size_shift] at hsz; exact hsz
  intro fuel
  induction fuel with
  | zero =>
    refine ⟨?_, ?_, ?_, ?_⟩
    · intro pos ctx flags depth; simp only [parseCtx]; rfl
    · intro pos ctx flags depth; simp only [parseInner]; rfl
    · intro pos ctx depth acc; simp only [parseArray]; rfl
    · intro pos ctx depth acc _; simp only [parseDict]; rfl
  | succ fuel ih =>
    have hshape := shapes (env.shiftOffset p.size) b fuel
    refine ⟨?_, ?_, ?_, ?_⟩
    · -- parseCtx
      intro pos ctx flags depth
      simp only [parseCtx]
      rw [ih.inner]
      cases parseInner (env.shiftOffset p.size) b fuel pos ctx flags depth with
      | ok r => rfl
      | err =>
        simp only [omap_err]
        apply bind_shift _ _ (p.size + ·) (shV p.size) _ _ (setPos_shift p b pos pos)
        intro _; rfl
      | panic => rfl
      | oof => rfl
    · -- parseInner
      intro pos ctx flags depth
      simp only [parseInner]
      apply bind_shift' _ _ (p.size + ·) (shV p.size) _ _ (remainingStart_shift p b pos)
      intro a0 hrs
      have hpos := remainingStart_le b pos a0 hrs
      apply bind_shift' _ _ (sh2 p.size) (shV p.size) _ _ (next_shift p b pos)
      intro w hw
      obtain ⟨hw1, hw2, hw3⟩ := nextWord_range b pos w hw
      have hb0 : 0 < b.size := by
        unfold next nextWord at hw
        split at hw
        · cases hw
        · rename_i hne; simp at hne; omega
      simp only [sh2, slice_shift]
      split
      · -- dictionary / stream
        apply bind_same; intro _
        split
        · rfl
        · have hD := ih.dict w.2 ctx (depth - 1) [] lenOK_nil
          apply bind_shift' _ _ (shV p.size) (shV p.size) _ _ hD
          rintro ⟨dict, q⟩ hpd
          have hdl : LenOK dict := hshape.dict _ _ _ _ lenOK_nil dict q hpd
          simp only [shV]
          apply bind_shift _ _ (sh2 p.size) (shV p.size) _ _ (peek_shift p b q)
          intro pk
          simp only [sh2, slice_shift]
          split
          · cases ctx with
            | none => rfl
            | some id => exact parseStreamObject_shift env p b q dict id hsz hlen hdl
          · rfl
      · split
        · exact parseIntOrRef_shift p b w.2 _ flags
        · split
          · apply bind_same; intro _
            have : (env.shiftOffset p.size).parseReal = env.parseReal := rfl
            rw [this]
            split <;> rfl
          · split
            · apply bind_same; intro _
              apply bind_same; intro s
              rfl
            · split
              · apply bind_same; intro _
                split
                · rfl
                · exact ih.arr _ _ _ _
              · split
                · -- literal string
                  apply bind_same; intro _
                  apply bind_shift _ _ (p.size + ·) (shV p.size) _ _ (remainingStart_shift p b w.2)
                  intro _
                  have e : (p ++ b).size - (p.size + w.2) + 2 = b.size - w.2 + 2 := by rw [size_shift]; omega
                  rw [e]
                  apply bind_shift' _ _ (shL p.size) (shV p.size) _ _ (collectString_shift p b _ w.2 0 [])
                  rintro ⟨str, q⟩ hcs
                  have hq := collectString_le b _ _ _ _ _ _ hcs
                  simp only [shL]
                  have e2 : p.size + q - (p.size + w.2) = q - w.2 := Nat.add_sub_add_left _ _ _
                  rw [e2]
                  apply bind_shift _ _ (p.size + ·) (shV p.size) _ _
                    (offsetPos_shift p b w.2 (q - w.2) (by simp [usizeMax]; omega))
                  intro q2
                  rw [decryptStr_shiftOffset]
                  apply bind_same; intro s2
                  rfl
                · split
                  · -- hexadecimal string
                    apply bind_same; intro _
                    apply bind_shift _ _ (p.size + ·) (shV p.size) _ _ (remainingStart_shift p b w.2)
                    intro _
                    have e : (p ++ b).size - (p.size + w.2) + 2 = b.size - w.2 + 2 := by rw [size_shift]; omega
                    rw [e]
                    apply bind_shift' _ _ (shL p.size) (shV p.size) _ _ (collectHex_shift p b w.2 _ w.2 [])
                    rintro ⟨str, q⟩ hcs
                    have hq := collectHex_le b _ _ _ _ _ _ hcs
                    simp only [shL]
                    have e2 : p.size + q - (p.size + w.2) = q - w.2 := Nat.add_sub_add_left _ _ _
                    rw [e2]
                    apply bind_shift _ _ (p.size + ·) (shV p.size) _ _
                      (offsetPos_shift p b w.2 (q - w.2) (by simp [usizeMax]; omega))
                    intro q2
                    rw [decryptStr_shiftOffset]
                    apply bind_same; intro s2
                    rfl
                  · split
                    · apply bind_same; intro _; rfl
                    · split
                      · apply bind_same; intro _; rfl
                      · split
                        · apply bind_same; intro _; rfl
                        · exact readN_discard_shift p b w.2 50 (shV p.size) hsz' (by omega) hw3 hb0
    · -- parseArray
      intro pos ctx depth acc
      simp only [parseArray]
      apply bind_shift _ _ (sh2 p.size) (shV p.size) _ _ (peek_shift p b pos)
      intro pk
      simp only [sh2, slice_shift]
      split
      · apply bind_shift _ _ (sh2 p.size) (shV p.size) _ _ (next_shift p b pos)
        intro w; rfl
      · apply bind_shift _ _ (shV p.size) (shV p.size) _ _ (ih.ctx pos ctx Flags.any depth)
        rintro ⟨e, q⟩
        exact ih.arr _ _ _ _
    · -- parseDict
      intro pos ctx depth acc hacc
      simp only [parseDict]
      apply bind_shift _ _ (sh2 p.size) (shV p.size) _ _ (next_shift p b pos)
      intro w
      simp only [sh2, slice_shift]
      split
      · apply bind_same; intro key
        apply bind_shift' _ _ (shV p.size) (shV p.size) _ _ (ih.ctx w.2 ctx Flags.any depth)
        rintro ⟨obj, q⟩ hobj
        have hoi : IntOK obj := hshape.ctx _ _ _ _ obj q hobj
        exact ih.dict _ _ _ _ (lenOK_insert acc key obj hacc hoi)
      · split <;> rfl

/-- **The parser under a prefix.** Parsing `p ++ b` from `p.size + pos` (lexer offset `o`) gives the value
    that parsing `b` from `pos` (lexer offset `o + p.size`) gives — stream ranges included — with the
    cursor `p.size` further on; errors, panics and fuel exhaustion correspond. -/
theorem parseCtx_shift (env : Env R) (p b : Buf) (hsz : (p ++ b).size ≤ 2147483647) (hlen : LenBounded env)
    (fuel pos : Nat) (ctx : Option (Nat × Nat)) (flags depth : Nat) :
    parseCtx env (p ++ b) fuel (p.size + pos) ctx flags depth
      = omap (shV p.size) (parseCtx (env.shiftOffset p.size) b fuel pos ctx flags depth) :=
  (shifts env p b hsz hlen fuel).ctx pos ctx flags depth

end PdfShift
