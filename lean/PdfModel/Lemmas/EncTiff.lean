import PdfModel.Lemmas.EncImage

set_option linter.unusedSimpArgs false
set_option linter.unusedVariables false

/-! TIFF predictor 2: the in-place summing loop of `tiff_unpredict` undoes horizontal differencing for
    samples of 1, 2, 4, 8 and 16 bits. The argument is generic in the sample accessors (`Lens`); the three
    packings are instances (bit fields by case analysis on the shift + `omega`). -/

namespace Enc
open Codecs

def fieldGet (B bpc s : Nat) : Nat := B / 2 ^ s % 2 ^ bpc
def fieldPut (B bpc s v : Nat) : Nat := B - (B / 2 ^ s % 2 ^ bpc) * 2 ^ s + (v % 2 ^ bpc) * 2 ^ s

/-- byte-level laws of a `bpc`-bit field at shift `s` (and a second field at `s'`) -/
def FieldLaws (bpc s s' B v v2 : Nat) : Prop :=
  fieldPut B bpc s v < 256 ∧ fieldGet (fieldPut B bpc s v) bpc s = v % 2 ^ bpc ∧
  (s' ≠ s → fieldGet (fieldPut B bpc s v) bpc s' = fieldGet B bpc s') ∧
  (v % 2 ^ bpc = fieldGet B bpc s → fieldPut B bpc s v = B) ∧
  fieldPut (fieldPut B bpc s v) bpc s v2 = fieldPut B bpc s v2 ∧ fieldGet B bpc s < 2 ^ bpc

theorem fieldLaws4 (s s' B v v2 : Nat) (hB : B < 256) (hs : s = 0 ∨ s = 4) (hs' : s' = 0 ∨ s' = 4) :
    FieldLaws 4 s s' B v v2 := by
  unfold FieldLaws fieldGet fieldPut
  rcases hs with rfl | rfl <;> rcases hs' with rfl | rfl <;>
    simp only [Nat.reducePow, Nat.div_one, Nat.mul_one] <;> omega

theorem fieldLaws2 (s s' B v v2 : Nat) (hB : B < 256) (hs : s = 0 ∨ s = 2 ∨ s = 4 ∨ s = 6) (hs' : s' = 0 ∨ s' = 2 ∨ s' = 4 ∨ s' = 6) :
    FieldLaws 2 s s' B v v2 := by
  unfold FieldLaws fieldGet fieldPut
  rcases hs with rfl | rfl | rfl | rfl <;> rcases hs' with rfl | rfl | rfl | rfl <;>
    simp only [Nat.reducePow, Nat.div_one, Nat.mul_one] <;> omega

theorem fieldLaws1_same (s B v v2 : Nat) (hB : B < 256) (hs : s ≤ 7) :
    fieldPut B 1 s v < 256 ∧ fieldGet (fieldPut B 1 s v) 1 s = v % 2 ^ 1 ∧
    (v % 2 ^ 1 = fieldGet B 1 s → fieldPut B 1 s v = B) ∧
    fieldPut (fieldPut B 1 s v) 1 s v2 = fieldPut B 1 s v2 ∧ fieldGet B 1 s < 2 ^ 1 := by
  unfold fieldGet fieldPut
  have h1 : s = 0 ∨ s = 1 ∨ s = 2 ∨ s = 3 ∨ s = 4 ∨ s = 5 ∨ s = 6 ∨ s = 7 := by omega
  rcases h1 with rfl | rfl | rfl | rfl | rfl | rfl | rfl | rfl <;>
    simp only [Nat.reducePow, Nat.div_one, Nat.mul_one] <;> omega

theorem fieldLaws1_other_aux (s s' B v : Nat) (hB : B < 256) (hs : s ≤ 7) (hs' : s' < s) :
    fieldGet (fieldPut B 1 s v) 1 s' = fieldGet B 1 s' ∧ fieldGet (fieldPut B 1 s' v) 1 s = fieldGet B 1 s := by
  unfold fieldGet fieldPut
  have h1 : s = 1 ∨ s = 2 ∨ s = 3 ∨ s = 4 ∨ s = 5 ∨ s = 6 ∨ s = 7 := by omega
  rcases h1 with rfl | rfl | rfl | rfl | rfl | rfl | rfl
  · have h2 : s' = 0 := by omega
    subst h2; simp only [Nat.reducePow, Nat.div_one, Nat.mul_one]; omega
  · have h2 : s' = 0 ∨ s' = 1 := by omega
    rcases h2 with rfl | rfl <;> simp only [Nat.reducePow, Nat.div_one, Nat.mul_one] <;> omega
  · have h2 : s' = 0 ∨ s' = 1 ∨ s' = 2 := by omega
    rcases h2 with rfl | rfl | rfl <;> simp only [Nat.reducePow, Nat.div_one, Nat.mul_one] <;> omega
  · have h2 : s' = 0 ∨ s' = 1 ∨ s' = 2 ∨ s' = 3 := by omega
    rcases h2 with rfl | rfl | rfl | rfl <;> simp only [Nat.reducePow, Nat.div_one, Nat.mul_one] <;> omega
  · have h2 : s' = 0 ∨ s' = 1 ∨ s' = 2 ∨ s' = 3 ∨ s' = 4 := by omega
    rcases h2 with rfl | rfl | rfl | rfl | rfl <;> simp only [Nat.reducePow, Nat.div_one, Nat.mul_one] <;> omega
  · have h2 : s' = 0 ∨ s' = 1 ∨ s' = 2 ∨ s' = 3 ∨ s' = 4 ∨ s' = 5 := by omega
    rcases h2 with rfl | rfl | rfl | rfl | rfl | rfl <;> simp only [Nat.reducePow, Nat.div_one, Nat.mul_one] <;> omega
  · have h2 : s' = 0 ∨ s' = 1 ∨ s' = 2 ∨ s' = 3 ∨ s' = 4 ∨ s' = 5 ∨ s' = 6 := by omega
    rcases h2 with rfl | rfl | rfl | rfl | rfl | rfl | rfl <;> simp only [Nat.reducePow, Nat.div_one, Nat.mul_one] <;> omega

theorem fieldLaws1 (s s' B v v2 : Nat) (hB : B < 256) (hs : s ≤ 7) (hs' : s' ≤ 7) :
    FieldLaws 1 s s' B v v2 := by
  obtain ⟨a, b, c, d, e⟩ := fieldLaws1_same s B v v2 hB hs
  refine ⟨a, b, ?_, c, d, e⟩
  intro hne
  rcases Nat.lt_or_gt_of_ne hne with h | h
  · exact (fieldLaws1_other_aux s s' B v hB hs h).1
  · exact (fieldLaws1_other_aux s' s B v hB hs' h).2

/-- what the proofs need to know about the sample accessors of one bit depth (`n` samples are addressable) -/
structure Lens (get : Bytes → Nat → Nat) (set : Bytes → Nat → Nat → Bytes) (M n : Nat) (len : Nat) : Prop where
  len_set : ∀ r k v, (set r k v).length = r.length
  get_set : ∀ r k v, r.length = len → k < n → get (set r k v) k = v % M
  get_set_ne : ∀ r k j v, r.length = len → k < n → j < n → j ≠ k → get (set r k v) j = get r j
  set_get : ∀ r k v, r.length = len → k < n → v % M = get r k → set r k v = r
  set_set : ∀ r k a b, r.length = len → k < n → set (set r k a) k b = set r k b
  get_lt : ∀ r k, get r k < M

theorem diffFrom_length {get set M n len colors} (L : Lens get set M n len) (row : Bytes) :
    ∀ cnt lo, (diffFrom get set M colors row lo cnt).length = row.length := by
  intro cnt
  induction cnt with
  | zero => intro lo; rfl
  | succ c ih => intro lo; simp [diffFrom, L.len_set, ih]

/-- samples below `lo` are untouched by `diffFrom … lo cnt` -/
theorem diffFrom_get_below {get set M n len colors} (L : Lens get set M n len) (row : Bytes) (hl : row.length = len) :
    ∀ cnt lo j, lo + cnt ≤ n → j < lo → get (diffFrom get set M colors row lo cnt) j = get row j := by
  intro cnt
  induction cnt with
  | zero => intro lo j _ _; rfl
  | succ c ih =>
    intro lo j hn hj
    simp only [diffFrom]
    rw [L.get_set_ne _ lo j _ (by rw [diffFrom_length L, hl]) (by omega) (by omega) (by omega)]
    exact ih (lo + 1) j (by omega) (by omega)

/-- the decoder loop (as in `tiffRow`) undoes `diffFrom` -/
theorem undiff {get set M n len colors} (L : Lens get set M n len) (hM : 0 < M) (hc : 1 ≤ colors) (hM16 : 65536 % M = 0)
    (row : Bytes) (hl : row.length = len) :
    ∀ cnt lo, colors ≤ lo → lo + cnt = n →
      forFrom (fun k r => set r k ((get r k + get r (k - colors)) % 65536)) lo cnt (diffFrom get set M colors row lo cnt) = row := by
  intro cnt
  induction cnt with
  | zero => intro lo _ _; rfl
  | succ c ih =>
    intro lo hlo hn
    simp only [forFrom, diffFrom]
    have hlen : (diffFrom get set M colors row (lo + 1) c).length = len := by rw [diffFrom_length L, hl]
    rw [L.get_set _ lo _ hlen (by omega), L.get_set_ne _ lo (lo - colors) _ hlen (by omega) (by omega) (by omega),
      diffFrom_get_below L row hl c (lo + 1) (lo - colors) (by omega) (by omega), L.set_set _ lo _ _ hlen (by omega)]
    have hk := diffFrom_get_below (colors := colors) L row hl c (lo + 1) lo (by omega) (by omega)
    have hv : ((get row lo + M - get row (lo - colors)) % M % M + get row (lo - colors)) % 65536 % M = get (diffFrom get set M colors row (lo + 1) c) lo := by
      rw [hk]
      have h1 := L.get_lt row lo
      have h2 := L.get_lt row (lo - colors)
      rw [Nat.mod_mod_of_dvd _ (Nat.dvd_of_mod_eq_zero hM16), Nat.mod_mod, Nat.mod_add_mod]
      have : get row lo + M - get row (lo - colors) + get row (lo - colors) = get row lo + M := by omega
      rw [this, Nat.add_mod_right, Nat.mod_eq_of_lt h1]
    rw [L.set_get _ lo _ hlen (by omega) hv]
    exact ih (lo + 1) (by omega) (by omega)

/-! ### accessor facts -/

theorem getD_set_self (r : Bytes) (i : Nat) (x : UInt8) (h : i < r.length) : (r.set i x).getD i 0 = x := by
  simp [List.getD, h]

theorem getD_set_ne (r : Bytes) (i j : Nat) (x : UInt8) (h : i ≠ j) : (r.set i x).getD j 0 = r.getD j 0 := by
  simp [List.getD, List.getElem?_set_ne h]

theorem set_getD_self (r : Bytes) (i : Nat) (h : i < r.length) : r.set i (r.getD i 0) = r := by
  simp [List.getD, h]

theorem toNat_lt (b : UInt8) : b.toNat < 256 := by
  have := b.toNat_lt_size; simpa [UInt8.size] using this

/-- 8-bit samples -/
theorem lens8 (len n : Nat) (hn : n ≤ len) :
    Lens (fun r k => tiffGet r 8 k) (fun r k v => tiffSet r 8 k v) (2 ^ 8) n len where
  len_set := by intro r k v; simp [tiffSet]
  get_set := by
    intro r k v hl hk
    simp only [tiffGet, tiffSet, show (8 : Nat) ≠ 16 by decide, if_false, if_true]
    rw [getD_set_self r k _ (by omega), toNat_ofNat_mod]
  get_set_ne := by
    intro r k j v hl hk hj hne
    simp only [tiffGet, tiffSet, show (8 : Nat) ≠ 16 by decide, if_false, if_true]
    rw [getD_set_ne r k j _ (by omega)]
  set_get := by
    intro r k v hl hk hv
    simp only [tiffGet, tiffSet, show (8 : Nat) ≠ 16 by decide, if_false, if_true] at hv ⊢
    rw [ofNat_eq_of_mod (b := r.getD k 0) (by simpa using hv), set_getD_self r k (by omega)]
  set_set := by
    intro r k a b hl hk
    simp [tiffSet, List.set_set]
  get_lt := by
    intro r k
    simp only [tiffGet, show (8 : Nat) ≠ 16 by decide, if_false, if_true]
    exact toNat_lt _

/-- 16-bit big-endian samples -/
theorem lens16 (len n : Nat) (hn : n ≤ len * 8 / 16) :
    Lens (fun r k => tiffGet r 16 k) (fun r k v => tiffSet r 16 k v) (2 ^ 16) n len where
  len_set := by intro r k v; simp [tiffSet]
  get_set := by
    intro r k v hl hk
    simp only [tiffGet, tiffSet, if_true]
    rw [getD_set_self _ (2 * k + 1) _ (by simp; omega), getD_set_ne _ (2 * k + 1) (2 * k) _ (by omega),
      getD_set_self r (2 * k) _ (by omega), toNat_ofNat_mod, toNat_ofNat_mod]
    omega
  get_set_ne := by
    intro r k j v hl hk hj hne
    simp only [tiffGet, tiffSet, if_true]
    rw [getD_set_ne _ (2 * k + 1) (2 * j) _ (by omega), getD_set_ne _ (2 * k) (2 * j) _ (by omega),
      getD_set_ne _ (2 * k + 1) (2 * j + 1) _ (by omega), getD_set_ne _ (2 * k) (2 * j + 1) _ (by omega)]
  set_get := by
    intro r k v hl hk hv
    simp only [tiffGet, tiffSet, if_true] at hv ⊢
    have h0 := toNat_lt (r.getD (2 * k) 0)
    have h1 := toNat_lt (r.getD (2 * k + 1) 0)
    rw [ofNat_eq_of_mod (b := r.getD (2 * k) 0) (by omega), ofNat_eq_of_mod (b := r.getD (2 * k + 1) 0) (by omega),
      set_getD_self r (2 * k) (by omega), set_getD_self r (2 * k + 1) (by omega)]
  set_set := by
    intro r k a b hl hk
    simp only [tiffSet, if_true]
    have e1 : ((r.set (2 * k) (UInt8.ofNat (a / 256))).set (2 * k + 1) (UInt8.ofNat a)).set (2 * k) (UInt8.ofNat (b / 256))
        = ((r.set (2 * k) (UInt8.ofNat (a / 256))).set (2 * k) (UInt8.ofNat (b / 256))).set (2 * k + 1) (UInt8.ofNat a) :=
      List.set_comm _ _ (by omega)
    rw [e1, List.set_set, List.set_set]
  get_lt := by
    intro r k
    simp only [tiffGet, if_true]
    have h0 := toNat_lt (r.getD (2 * k) 0)
    have h1 := toNat_lt (r.getD (2 * k + 1) 0)
    omega

theorem tiffGet_field (r : Bytes) (bpc k : Nat) (h16 : bpc ≠ 16) (h8 : bpc ≠ 8) :
    tiffGet r bpc k = fieldGet (r.getD (k * bpc / 8) 0).toNat bpc (8 - bpc - k * bpc % 8) := by
  simp [tiffGet, h16, h8, fieldGet]

theorem tiffSet_field (r : Bytes) (bpc k v : Nat) (h16 : bpc ≠ 16) (h8 : bpc ≠ 8) :
    tiffSet r bpc k v = r.set (k * bpc / 8)
      (UInt8.ofNat (fieldPut (r.getD (k * bpc / 8) 0).toNat bpc (8 - bpc - k * bpc % 8) v)) := by
  simp [tiffSet, h16, h8, fieldPut]

theorem fieldLaws_any (bpc : Nat) (hb : bpc = 1 ∨ bpc = 2 ∨ bpc = 4) (k j B v v2 : Nat) (hB : B < 256) :
    FieldLaws bpc (8 - bpc - k * bpc % 8) (8 - bpc - j * bpc % 8) B v v2 := by
  rcases hb with rfl | rfl | rfl
  · exact fieldLaws1 _ _ B v v2 hB (by omega) (by omega)
  · exact fieldLaws2 _ _ B v v2 hB (by omega) (by omega)
  · exact fieldLaws4 _ _ B v v2 hB (by omega) (by omega)

/-- samples of 1, 2 or 4 bits -/
theorem lensSub (bpc : Nat) (hb : bpc = 1 ∨ bpc = 2 ∨ bpc = 4) (len n : Nat) (hn : n ≤ len * 8 / bpc) :
    Lens (fun r k => tiffGet r bpc k) (fun r k v => tiffSet r bpc k v) (2 ^ bpc) n len := by
  have h16 : bpc ≠ 16 := by omega
  have h8 : bpc ≠ 8 := by omega
  have hidx : ∀ k, k < n → k * bpc / 8 < len := by
    intro k hk; rcases hb with rfl | rfl | rfl <;> omega
  have hsh : ∀ k j, j ≠ k → j * bpc / 8 = k * bpc / 8 → 8 - bpc - j * bpc % 8 ≠ 8 - bpc - k * bpc % 8 := by
    intro k j hne he; rcases hb with rfl | rfl | rfl <;> omega
  refine ⟨?_, ?_, ?_, ?_, ?_, ?_⟩
  · intro r k v; rw [tiffSet_field r bpc k v h16 h8]; simp
  · intro r k v hl hk
    have hi := hidx k hk
    obtain ⟨f1, f2, _, _, _, _⟩ := fieldLaws_any bpc hb k k (r.getD (k * bpc / 8) 0).toNat v v (toNat_lt _)
    rw [tiffSet_field r bpc k v h16 h8, tiffGet_field _ bpc k h16 h8, getD_set_self r _ _ (by omega), toNat_ofNat_lt f1, f2]
  · intro r k j v hl hk hj hne
    have hi := hidx k hk
    obtain ⟨f1, _, f3, _, _, _⟩ := fieldLaws_any bpc hb k j (r.getD (k * bpc / 8) 0).toNat v v (toNat_lt _)
    rw [tiffSet_field r bpc k v h16 h8, tiffGet_field _ bpc j h16 h8, tiffGet_field _ bpc j h16 h8]
    by_cases he : j * bpc / 8 = k * bpc / 8
    · rw [he, getD_set_self r _ _ (by omega), toNat_ofNat_lt f1, f3 (hsh k j hne he)]
    · rw [getD_set_ne r _ _ _ (fun h => he h.symm)]
  · intro r k v hl hk hv
    have hi := hidx k hk
    obtain ⟨_, _, _, f4, _, _⟩ := fieldLaws_any bpc hb k k (r.getD (k * bpc / 8) 0).toNat v v (toNat_lt _)
    rw [tiffGet_field _ bpc k h16 h8] at hv
    rw [tiffSet_field r bpc k v h16 h8, f4 hv, UInt8.ofNat_toNat, set_getD_self r _ (by omega)]
  · intro r k a b hl hk
    have hi := hidx k hk
    obtain ⟨f1, _, _, _, f5, _⟩ := fieldLaws_any bpc hb k k (r.getD (k * bpc / 8) 0).toNat a b (toNat_lt _)
    rw [tiffSet_field r bpc k a h16 h8, tiffSet_field _ bpc k b h16 h8, getD_set_self r _ _ (by omega), toNat_ofNat_lt f1,
      f5, List.set_set, tiffSet_field r bpc k b h16 h8]
  · intro r k
    rw [tiffGet_field _ bpc k h16 h8]
    unfold fieldGet
    exact Nat.mod_lt _ (Nat.pow_pos (by decide))

def ValidBpc (bpc : Nat) : Prop := bpc = 1 ∨ bpc = 2 ∨ bpc = 4 ∨ bpc = 8 ∨ bpc = 16

theorem tiffGet_eq_sampleGet (bpc : Nat) (hb : ValidBpc bpc) (r : Bytes) (k : Nat) : tiffGet r bpc k = sampleGet bpc r k := by
  rcases hb with rfl | rfl | rfl | rfl | rfl
  · have e1 : k * 1 / 8 = k / 8 := by omega
    have e2 : 8 - 1 - k * 1 % 8 = 1 * (8 - 1 - k % 8) := by omega
    simp only [tiffGet, sampleGet, show (1:Nat) ≠ 16 by decide, show (1:Nat) ≠ 8 by decide, if_false, e1, e2, show 8 / 1 = 8 by decide]
  · have e1 : k * 2 / 8 = k / 4 := by omega
    have e2 : 8 - 2 - k * 2 % 8 = 2 * (4 - 1 - k % 4) := by omega
    simp only [tiffGet, sampleGet, show (2:Nat) ≠ 16 by decide, show (2:Nat) ≠ 8 by decide, if_false, e1, e2, show 8 / 2 = 4 by decide]
  · have e1 : k * 4 / 8 = k / 2 := by omega
    have e2 : 8 - 4 - k * 4 % 8 = 4 * (2 - 1 - k % 2) := by omega
    simp only [tiffGet, sampleGet, show (4:Nat) ≠ 16 by decide, show (4:Nat) ≠ 8 by decide, if_false, e1, e2, show 8 / 4 = 2 by decide]
  · simp [tiffGet, sampleGet]
  · simp [tiffGet, sampleGet]

theorem tiffSet_eq_samplePut (bpc : Nat) (hb : ValidBpc bpc) (r : Bytes) (k v : Nat) : tiffSet r bpc k v = samplePut bpc r k v := by
  rcases hb with rfl | rfl | rfl | rfl | rfl
  · have e1 : k * 1 / 8 = k / 8 := by omega
    have e2 : 8 - 1 - k * 1 % 8 = 1 * (8 - 1 - k % 8) := by omega
    simp only [tiffSet, samplePut, show (1:Nat) ≠ 16 by decide, show (1:Nat) ≠ 8 by decide, if_false, e1, e2, show 8 / 1 = 8 by decide]
  · have e1 : k * 2 / 8 = k / 4 := by omega
    have e2 : 8 - 2 - k * 2 % 8 = 2 * (4 - 1 - k % 4) := by omega
    simp only [tiffSet, samplePut, show (2:Nat) ≠ 16 by decide, show (2:Nat) ≠ 8 by decide, if_false, e1, e2, show 8 / 2 = 4 by decide]
  · have e1 : k * 4 / 8 = k / 2 := by omega
    have e2 : 8 - 4 - k * 4 % 8 = 4 * (2 - 1 - k % 2) := by omega
    simp only [tiffSet, samplePut, show (4:Nat) ≠ 16 by decide, show (4:Nat) ≠ 8 by decide, if_false, e1, e2, show 8 / 4 = 2 by decide]
  · simp [tiffSet, samplePut]
  · simp [tiffSet, samplePut]

theorem lensAny (bpc : Nat) (hb : ValidBpc bpc) (len n : Nat) (hn : n ≤ len * 8 / bpc) :
    Lens (fun r k => tiffGet r bpc k) (fun r k v => tiffSet r bpc k v) (2 ^ bpc) n len := by
  rcases hb with rfl | rfl | rfl | rfl | rfl
  · exact lensSub 1 (by omega) len n hn
  · exact lensSub 2 (by omega) len n hn
  · exact lensSub 4 (by omega) len n hn
  · exact lens8 len n (by omega)
  · exact lens16 len n hn

/-- **one row**: the summing loop of `tiff_unpredict` restores a horizontally differenced row, for every
    bit depth, any number of colour components and columns, padding bits included -/
theorem tiffRow_diffRow (colors bpc columns : Nat) (hc : 1 ≤ colors) (hb : ValidBpc bpc) (row : Bytes) :
    tiffRow colors bpc columns (tiffDiffRow colors bpc columns row) = row := by
  have hget : sampleGet bpc = fun r k => tiffGet r bpc k := by
    funext r k; exact (tiffGet_eq_sampleGet bpc hb r k).symm
  have hput : samplePut bpc = fun r k v => tiffSet r bpc k v := by
    funext r k v; exact (tiffSet_eq_samplePut bpc hb r k v).symm
  unfold tiffDiffRow
  rw [hget, hput]
  generalize hn : min (colors * columns) (row.length * 8 / bpc) = n
  have L := lensAny bpc hb row.length n (by omega)
  unfold tiffRow
  rw [diffFrom_length L, hn]
  dsimp only
  by_cases hle : n ≤ colors
  · have : n - colors = 0 := by omega
    rw [this]; rfl
  · have hM16 : 65536 % 2 ^ bpc = 0 := by rcases hb with rfl | rfl | rfl | rfl | rfl <;> decide
    exact undiff L (Nat.pow_pos (by decide)) hc hM16 row rfl (n - colors) colors (Nat.le_refl _) (by omega)

theorem chunksLoop_rows (f : Bytes → Bytes) (S : Nat) (hS : 1 ≤ S) :
    ∀ (rows : List Bytes) (fuel : Nat), (∀ r ∈ rows, r.length = S) → rows.length < fuel →
      chunksLoop f S fuel rows.flatten = .ok (rows.map f).flatten := by
  intro rows
  induction rows with
  | nil =>
    intro fuel _ hf
    cases fuel with
    | zero => simp at hf
    | succ n => simp [chunksLoop]
  | cons r rs ih =>
    intro fuel hr hf
    cases fuel with
    | zero => simp at hf
    | succ n =>
      have hrl : r.length = S := hr r (by simp)
      cases r with
      | nil => simp at hrl; omega
      | cons b r' =>
        have htake : (b :: r' ++ rs.flatten).take S = b :: r' := by
          rw [List.take_append_of_le_length (by omega), ← hrl, List.take_length]
        have hdrop : (b :: r' ++ rs.flatten).drop S = rs.flatten := by
          rw [← hrl]; simp
        simp only [List.flatten_cons, List.cons_append, chunksLoop]
        have h1 : (b :: (r' ++ rs.flatten)).take S = b :: r' := by simpa using htake
        have h2 : (b :: (r' ++ rs.flatten)).drop S = rs.flatten := by simpa using hdrop
        rw [h1, h2, ih n (fun r hr' => hr r (by simp [hr'])) (by simp at hf; omega)]
        simp

theorem chunksLoop_returns (f : Bytes → Bytes) (S : Nat) (hS : 1 ≤ S) :
    ∀ (fuel : Nat) (d : Bytes), d.length < fuel → chunksLoop f S fuel d ≠ .panic ∧ chunksLoop f S fuel d ≠ .oof := by
  intro fuel
  induction fuel with
  | zero => intro d h; simp at h
  | succ n ih =>
    intro d hf
    cases d with
    | nil => simp [chunksLoop]
    | cons b rest =>
      simp only [chunksLoop]
      have := ih ((b :: rest).drop S) (by simp at hf ⊢; omega)
      cases hr : chunksLoop f S n ((b :: rest).drop S) <;> simp_all

theorem geometry_valid {p : Params} {g : Nat × Nat} (h : predictorGeometry p = .ok g) :
    1 ≤ p.colors.toNat ∧ 1 ≤ p.columns.toNat ∧ ValidBpc p.bpc.toNat := by
  unfold predictorGeometry at h
  split at h
  · simp at h
  · rename_i hv
    refine ⟨by omega, by omega, ?_⟩
    unfold ValidBpc
    omega

theorem tiffDiffRow_length (colors bpc columns : Nat) (hb : ValidBpc bpc) (row : Bytes) :
    (tiffDiffRow colors bpc columns row).length = row.length := by
  have hget : sampleGet bpc = fun r k => tiffGet r bpc k := by
    funext r k; exact (tiffGet_eq_sampleGet bpc hb r k).symm
  have hput : samplePut bpc = fun r k v => tiffSet r bpc k v := by
    funext r k v; exact (tiffSet_eq_samplePut bpc hb r k v).symm
  unfold tiffDiffRow
  rw [hget, hput]
  dsimp only
  exact diffFrom_length (lensAny bpc hb row.length (min (colors * columns) (row.length * 8 / bpc)) (Nat.min_le_right _ _)) row _ _

/-- **whole image, TIFF predictor 2**: every image made of complete rows is restored -/
theorem unpredict_tiff (p : Params) (bpp S : Nat) (hp : p.predictor = 2)
    (hg : predictorGeometry p = .ok (bpp, S)) (rows : List Bytes) (hrows : ∀ r ∈ rows, r.length = S) :
    unpredict (rows.map (tiffDiffRow p.colors.toNat p.bpc.toNat p.columns.toNat)).flatten p = .ok rows.flatten := by
  obtain ⟨hb1, hbs⟩ := geometry_bounds hg
  obtain ⟨hc, hcol, hb⟩ := geometry_valid hg
  unfold unpredict
  simp only [hp, show ¬ ((2 : Int) ≥ 10) by decide, if_false, if_true, hg]
  unfold tiffUnpredict
  simp only [show S ≠ 0 by omega, if_false]
  have hlens : ∀ r ∈ rows.map (tiffDiffRow p.colors.toNat p.bpc.toNat p.columns.toNat), r.length = S := by
    intro r hr
    simp only [List.mem_map] at hr
    obtain ⟨r0, h0, rfl⟩ := hr
    rw [tiffDiffRow_length _ _ _ hb, hrows r0 h0]
  have hfuel : (rows.map (tiffDiffRow p.colors.toNat p.bpc.toNat p.columns.toNat)).length <
      (rows.map (tiffDiffRow p.colors.toNat p.bpc.toNat p.columns.toNat)).flatten.length + 1 := by
    generalize rows.map (tiffDiffRow p.colors.toNat p.bpc.toNat p.columns.toNat) = rs at hlens
    have : ∀ (l : List Bytes), (∀ r ∈ l, r.length = S) → l.length ≤ l.flatten.length := by
      intro l
      induction l with
      | nil => intro _; simp
      | cons a l ih =>
        intro h
        have ha : a.length = S := h a (by simp)
        have := ih (fun r hr => h r (by simp [hr]))
        simp only [List.length_cons, List.flatten_cons, List.length_append]
        omega
    have := this rs hlens
    omega
  rw [chunksLoop_rows _ S (by omega) _ _ hlens hfuel]
  congr 1
  simp only [List.map_map]
  congr 1
  have : ∀ r ∈ rows, (tiffRow p.colors.toNat p.bpc.toNat p.columns.toNat ∘ tiffDiffRow p.colors.toNat p.bpc.toNat p.columns.toNat) r = id r := by
    intro r _; simp [tiffRow_diffRow _ _ _ hc hb]
  rw [List.map_congr_left this]; simp

end Enc
