import PdfModel.Model.BuildBytes
import PdfModel.Lemmas.HistBytes

/-!
  The empty storage a builder starts from is a base document of the byte-level theorems (its bytes — the header
  line — represent it trivially), and the operations of `CatalogBuilder::build` write values within the limits of
  the round-trip theorems whenever the page payloads are.
-/

namespace BuildBytes
open Storage PdfLex Xref SaveBytes RepBytes
open PdfSyntax (WF WFE WFL keysOf vdepth vdepthE vdepthL)

variable {R : Type}

theorem baseOK_empty (info : Option (Prim R)) (n : Nat) : BaseOK (emptyB info n).doc [] where
  start_le := by simp [emptyB]
  chain := by simp [emptyB, prevChain]
  pairs_entry := by simp [allPairs, pairsOK]
  pairs_dom := by intro p hp; simp [allPairs] at hp
  objs_lt := by intro o ho; simp [emptyB] at ho
  secs_lt := by intro s hs; simp [emptyB] at hs
  raw_lt := by
    intro j pos g h
    simp only [emptyB] at h
    cases j <;> simp at h
  stream_lt := by
    intro j sid idx h
    simp only [emptyB] at h
    cases j <;> simp at h
  no_prom := by intro e he; simp [emptyB] at he; subst he; simp
  changes_nil := rfl
  cache_nil := rfl

theorem locateStart_header (ext : List UInt8) : Offsets.locateStart (headerBytes ++ ext) = .ok 0 := by
  have hk : ∃ k, min Offsets.headerWindow (headerBytes ++ ext).length = k + 5 := by
    refine ⟨min Offsets.headerWindow (headerBytes ++ ext).length - 5, ?_⟩
    simp [Offsets.headerWindow, headerBytes]; omega
  obtain ⟨k, hk⟩ := hk
  unfold Offsets.locateStart
  rw [hk]
  simp [headerBytes, OffLex.findFirst, Offsets.headerMarker, List.isPrefixOf]

/-- the header line represents the empty storage -/
theorem rep_empty (P : Offsets.Parsers (Prim R) (Dict R)) (info : Option (Prim R)) (n : Nat) :
    Rep P (emptyB info n).bytes (emptyB info n).doc.st where
  len := rfl
  small := by simp [emptyB, headerBytes, fileMax]
  header := fun ext _ => locateStart_header ext
  xref := by intro h; exact absurd rfl h
  objs := by intro o ho; simp [emptyB] at ho
  secs := by intro s hs; simp [emptyB] at hs

theorem baseVals_empty (fmt : R → List UInt8) (pr : List UInt8 → Option R) (info : Option (Prim R)) (n : Nat)
    (hinfo : ∀ v, info = some v → OKVal fmt pr v) (hn : n ≤ 1000000) : BaseVals fmt pr (emptyB info n).doc where
  info := hinfo
  prev := by intro p hp; simp [emptyB] at hp
  root := by simp only [emptyB]; omega
  fields := by
    intro e he
    simp only [emptyB, List.mem_singleton] at he
    subst he
    intro t a b hf
    simp only [Storage.fieldsOf, Option.some.injEq, Prod.mk.injEq] at hf
    obtain ⟨_, rfl, rfl⟩ := hf
    simp [Storage.U64]

/-! ### the values the builder writes -/

theorem serialisableE_append (fmt : R → List UInt8) (pr : List UInt8 → Option R) :
    ∀ (a b : Dict R), SerialisableE fmt pr a → SerialisableE fmt pr b → SerialisableE fmt pr (a ++ b) := by
  intro a
  induction a with
  | nil => intro b _ hb; exact hb
  | cons kv a ih =>
    obtain ⟨k, v⟩ := kv
    intro b ha hb
    simp only [SerialisableE, List.cons_append] at ha ⊢
    exact ⟨ha.1, ih b ha.2 hb⟩

theorem wfe_append : ∀ (a b : Dict R), WFE a → WFE b → WFE (a ++ b) := by
  intro a
  induction a with
  | nil => intro b _ hb; exact hb
  | cons kv a ih =>
    obtain ⟨k, v⟩ := kv
    intro b ha hb
    simp only [WFE, List.cons_append] at ha ⊢
    exact ⟨ha.1, ha.2.1, ih b ha.2.2 hb⟩

theorem vdepthE_append (n : Nat) : ∀ (a b : Dict R), vdepthE a ≤ n → vdepthE b ≤ n → vdepthE (a ++ b) ≤ n := by
  intro a
  induction a with
  | nil => intro b _ hb; exact hb
  | cons kv a ih =>
    obtain ⟨k, v⟩ := kv
    intro b ha hb
    simp only [vdepthE, List.cons_append] at ha ⊢
    have := ih b (by omega) hb
    omega

/-- what the theorems ask of the payloads of a page -/
structure PageOK (fmt : R → List UInt8) (pr : List UInt8 → Option R) (p : PageB R) : Prop where
  other_ser : SerialisableE fmt pr p.other
  other_wf : WFE p.other
  other_nd : (keysOf p.other).Nodup
  other_depth : vdepthE p.other ≤ 18
  boxes_ser : SerialisableE fmt pr p.boxes
  boxes_wf : WFE p.boxes
  boxes_depth : vdepthE p.boxes ≤ 18
  rest_ser : SerialisableE fmt pr p.rest
  rest_wf : WFE p.rest
  rest_depth : vdepthE p.rest ≤ 18
  res : OKVal fmt pr p.res
  content : p.content.length ≤ 2147483647

theorem okVal_tree (fmt : R → List UInt8) (pr : List UInt8 → Option R) (kids : List Nat)
    (hk : ∀ k ∈ kids, k ≤ 18446744073709551615) (hl : kids.length ≤ 2147483647) : OKVal fmt pr (treeVal kids) := by
  have h1 : ∀ ks : List Nat, (∀ k ∈ ks, k ≤ 18446744073709551615) →
      SerialisableL fmt pr (ks.map fun k => (Prim.ref k 0 : Prim R)) ∧ WFL (ks.map fun k => (Prim.ref k 0 : Prim R)) ∧
        vdepthL (ks.map fun k => (Prim.ref k 0 : Prim R)) = 0 := by
    intro ks
    induction ks with
    | nil => intro _; simp [SerialisableL, WFL, vdepthL]
    | cons k ks ih =>
      intro h
      obtain ⟨a, b, c⟩ := ih (fun x hx => h x (by simp [hx]))
      have := h k (by simp)
      simp [SerialisableL, Serialisable, WFL, WF, vdepthL, vdepth, a, b, c, this]
  obtain ⟨a, b, c⟩ := h1 kids hk
  refine .direct _ ?_ ?_ ?_
  · simp [treeVal, Serialisable, SerialisableE, a]; omega
  · simp only [treeVal, WF, WFE, keysOf, List.map_cons, List.map_nil, b, and_true, true_and]
    decide
  · simp [treeVal, vdepth, vdepthE, c, maxDepth]

theorem okVal_catalog (fmt : R → List UInt8) (pr : List UInt8 → Option R) (tree : Nat) (h : tree ≤ 18446744073709551615) :
    OKVal fmt pr (catalogVal tree : Prim R) := by
  refine .direct _ ?_ ?_ ?_
  · simp [catalogVal, Serialisable, SerialisableE, h]
  · simp only [catalogVal, WF, WFE, keysOf, List.map_cons, List.map_nil, and_true, true_and]
    decide
  · simp [catalogVal, vdepth, vdepthE, maxDepth]

theorem okVal_content (fmt : R → List UInt8) (pr : List UInt8 → Option R) (data : List UInt8) (h : data.length ≤ 2147483647) :
    OKVal fmt pr (contentVal data : Prim R) := by
  refine .stream _ _ ?_ ?_ ?_ ?_ ?_
  · simp [SerialisableE, Serialisable]; omega
  · simp only [WFE, WF, and_true]; decide
  · simp [keysOf]
  · simp [dictGet]
  · simp [vdepthE, vdepth, maxDepth]

theorem okVal_page (fmt : R → List UInt8) (pr : List UInt8 → Option R) (tree res c : Nat) (p : PageB R)
    (hp : PageOK fmt pr p) (h1 : tree ≤ 18446744073709551615) (h2 : res ≤ 18446744073709551615)
    (h3 : c ≤ 18446744073709551615) : OKVal fmt pr (pageVal tree res c p) := by
  have hhead : SerialisableE fmt pr ([(kType, .name kPage), (kParent, .ref tree 0), (kResources, .ref res 0)] : Dict R) ∧
      WFE ([(kType, .name kPage), (kParent, .ref tree 0), (kResources, .ref res 0)] : Dict R) ∧
      vdepthE ([(kType, .name kPage), (kParent, .ref tree 0), (kResources, .ref res 0)] : Dict R) ≤ 18 := by
    refine ⟨by simp [SerialisableE, Serialisable, h1, h2], ?_, by simp [vdepthE, vdepth]⟩
    simp only [WFE, WF, and_true]; decide
  have hc : SerialisableE fmt pr ([(kContents, .ref c 0)] : Dict R) ∧ WFE ([(kContents, .ref c 0)] : Dict R) ∧
      vdepthE ([(kContents, .ref c 0)] : Dict R) ≤ 18 := by
    refine ⟨by simp [SerialisableE, Serialisable, h3], ?_, by simp [vdepthE, vdepth]⟩
    simp only [WFE, WF, and_true]; decide
  have e1 := serialisableE_append fmt pr _ _ (serialisableE_append fmt pr _ _ (serialisableE_append fmt pr _ _ hhead.1 hp.boxes_ser) hc.1) hp.rest_ser
  have e2 := wfe_append _ _ (wfe_append _ _ (wfe_append _ _ hhead.2.1 hp.boxes_wf) hc.2.1) hp.rest_wf
  have e3 := vdepthE_append 18 _ _ (vdepthE_append 18 _ _ (vdepthE_append 18 _ _ hhead.2.2 hp.boxes_depth) hc.2.2) hp.rest_depth
  obtain ⟨m1, m2, m3, m4⟩ := mergeDict_props fmt pr 18 _ p.other hp.other_ser hp.other_wf hp.other_nd hp.other_depth e1 e2 e3
  exact .direct _ (by simp only [pageVal, Serialisable]; exact m1) (by simp only [pageVal, WF]; exact ⟨m2, m3⟩)
    (by simp only [pageVal, vdepth, maxDepth]; omega)

/-- a history without saves whose values are within the limits is good -/
theorem goodHist_of_vals (fmt : R → List UInt8) (pr : List UInt8 → Option R) :
    ∀ (ops : List (OpB R)), (∀ op ∈ ops, ∀ b : BDoc R, GoodOp fmt pr b op) → ∀ b : BDoc R, GoodHist fmt pr b ops := by
  intro ops
  induction ops with
  | nil => intro _ _; trivial
  | cons op ops ih =>
    intro h b
    exact ⟨h op (by simp) b, ih (fun o ho => h o (by simp [ho])) _⟩

theorem goodOp_pageOps (fmt : R → List UInt8) (pr : List UInt8 → Option R) (n : Nat) (hn : n ≤ 1000000) :
    ∀ (ps : List (PageB R)) (k : Nat), k + ps.length ≤ n → (∀ p ∈ ps, PageOK fmt pr p) →
      ∀ op ∈ pageOps n k ps, ∀ b : BDoc R, GoodOp fmt pr b op := by
  intro ps
  induction ps with
  | nil => intro k _ _ op ho; simp [pageOps] at ho
  | cons p ps ih =>
    intro k hk hp op ho b
    have hpk := hp p (by simp)
    simp only [pageOps, List.mem_cons] at ho
    simp only [List.length_cons] at hk
    rcases ho with rfl | rfl | rfl | ho
    · exact hpk.res
    · exact okVal_content fmt pr _ hpk.content
    · exact okVal_page fmt pr _ _ _ p hpk (by omega) (by omega) (by omega)
    · exact ih (k + 1) (by omega) (fun q hq => hp q (by simp [hq])) op ho b

/-- **the builder's history is within the limits of the byte-level theorems** -/
theorem goodHist_buildOps (fmt : R → List UInt8) (pr : List UInt8 → Option R) (pages : List (PageB R))
    (hn : pages.length ≤ 1000000) (hp : ∀ p ∈ pages, PageOK fmt pr p) (b : BDoc R) :
    GoodHist fmt pr b (buildOps pages) := by
  apply goodHist_of_vals
  intro op ho b
  simp only [buildOps, List.mem_append, List.mem_replicate, List.mem_singleton] at ho
  rcases ho with ((⟨_, rfl⟩ | rfl) | ho) | rfl
  · trivial
  · refine okVal_tree fmt pr _ ?_ (by simp; omega)
    intro k hk
    simp only [List.mem_range'_1] at hk
    omega
  · exact goodOp_pageOps fmt pr pages.length hn pages 0 (by omega) hp op ho b
  · exact okVal_catalog fmt pr _ (by omega)

/-! ### nothing is written before the final `save` -/

theorem SameBackend.trans' {V : Type} {a b c : St V} (h1 : SameBackend a b) (h2 : SameBackend b c) : SameBackend a c := by
  obtain ⟨a1, a2, a3, a4, a5⟩ := h1
  obtain ⟨b1, b2, b3, b4, b5⟩ := h2
  exact ⟨b1.trans a1, b2.trans a2, b3.trans a3, b4.trans a4, b5.trans a5⟩

theorem runB_nosave (fmt : R → List UInt8) : ∀ (ops : List (OpB R)) (b : BDoc R), (∀ op ∈ ops, ∀ t, op ≠ .save t) →
    SameBackend b.doc.st (runB fmt b ops).1.doc.st ∧ (runB fmt b ops).1.bytes = b.bytes := by
  intro ops
  induction ops with
  | nil => intro b _; exact ⟨SameBackend.rfl' _, rfl⟩
  | cons op ops ih =>
    intro b h
    have hop := h op (by simp)
    obtain ⟨s1, _, _⟩ := stepB_step fmt b op
    have hbk := step_backend (params fmt b.ids) b.doc (op.toOp (layoutOf fmt op.typed b)) (fun L => toOp_not_save op hop _ L)
    rw [← s1] at hbk
    have hbytes : (stepB fmt b op).1.bytes = b.bytes := by
      rcases stepB_bytes fmt b op with hbt | ⟨t, _, _, hx, _⟩
      · exact hbt
      · exact absurd hx (hop t)
    obtain ⟨i1, i2⟩ := ih (stepB fmt b op).1 (fun o ho => h o (by simp [ho]))
    simp only [runB]
    exact ⟨SameBackend.trans' hbk i1, by rw [i2, hbytes]⟩

theorem pageOps_nosave (n : Nat) : ∀ (ps : List (PageB R)) (k : Nat), ∀ op ∈ pageOps n k ps, ∀ t, op ≠ .save t := by
  intro ps
  induction ps with
  | nil => intro k op ho; simp [pageOps] at ho
  | cons p ps ih =>
    intro k op ho
    simp only [pageOps, List.mem_cons] at ho
    rcases ho with rfl | rfl | rfl | ho
    · simp
    · simp
    · simp
    · exact ih (k + 1) op ho

theorem buildOps_nosave (pages : List (PageB R)) : ∀ op ∈ buildOps pages, ∀ t, op ≠ .save t := by
  intro op ho
  simp only [buildOps, List.mem_append, List.mem_replicate, List.mem_singleton] at ho
  rcases ho with ((⟨_, rfl⟩ | rfl) | ho) | rfl
  · simp
  · simp
  · exact pageOps_nosave _ pages 0 op ho
  · simp

/-- when the builder calls `save`, the backend is still the header line -/
theorem prepared_backend (fmt : R → List UInt8) (pages : List (PageB R)) (info : Option (Prim R)) :
    (prepared fmt pages info).bytes = headerBytes ∧ (prepared fmt pages info).doc.st.secs = [] ∧
    (prepared fmt pages info).doc.st.objs = [] ∧ (prepared fmt pages info).doc.st.start = 0 ∧
    (prepared fmt pages info).doc.st.len = 9 := by
  obtain ⟨⟨h1, h2, h3, h4, _⟩, hb⟩ := runB_nosave fmt (buildOps pages) (emptyB info pages.length) (buildOps_nosave pages)
  exact ⟨hb, h2, h1, h4, h3⟩

/-! ### the object numbers the builder hands out, and what it leaves pending under them -/

theorem stepB_create (fmt : R → List UInt8) (b : BDoc R) (v : Prim R) :
    (stepB fmt b (.create v)).1.doc.st = (create b.doc.st v).1 := rfl

theorem stepB_promise (fmt : R → List UInt8) (b : BDoc R) : (stepB fmt b .promise).1.doc.st = (promise b.doc.st).1 := rfl

theorem stepB_fulfil (fmt : R → List UInt8) (b : BDoc R) (id : Nat) (v : Prim R) (h : b.doc.st.refs[id]? = some .promised) :
    (stepB fmt b (.fulfil id v)).1.doc.st = { b.doc.st with changes := chInsert b.doc.st.changes id (v, 0), cache := [] } := by
  simp [stepB, OpB.toOp, step, update, h]

/-- `n` promises: the table grows by `n` promised slots, nothing else changes -/
theorem runB_promises (fmt : R → List UInt8) : ∀ (n : Nat) (b : BDoc R),
    (runB fmt b (List.replicate n .promise)).1.doc.st.refs = b.doc.st.refs ++ List.replicate n .promised ∧
    (runB fmt b (List.replicate n .promise)).1.doc.st.changes = b.doc.st.changes := by
  intro n
  induction n with
  | zero => intro b; simp [runB]
  | succ n ih =>
    intro b
    simp only [List.replicate_succ, runB]
    obtain ⟨i1, i2⟩ := ih (stepB fmt b .promise).1
    rw [stepB_promise] at i1 i2
    simp only [promise, alloc] at i1 i2
    exact ⟨by rw [i1]; simp, i2⟩

/-- the state of the loop over the pages before page `k`: what is pending under which number -/
structure Mid (pages : List (PageB R)) (k : Nat) (st : St (Prim R)) : Prop where
  len : st.refs.length = pages.length + 2 + 2 * k
  prom : ∀ j, k < j → j ≤ pages.length → st.refs[j]? = some .promised
  tree : chLookup st.changes (pages.length + 1) = some (treeVal (List.range' 1 pages.length), 0)
  done : ∀ k' p, k' < k → pages[k']? = some p →
    chLookup st.changes (k' + 1) = some (pageVal (pages.length + 1) (pages.length + 2 + 2 * k') (pages.length + 3 + 2 * k') p, 0) ∧
    chLookup st.changes (pages.length + 2 + 2 * k') = some (p.res, 0) ∧
    chLookup st.changes (pages.length + 3 + 2 * k') = some (contentVal p.content, 0)

theorem runB_pageOps (fmt : R → List UInt8) (pages : List (PageB R)) :
    ∀ (ps : List (PageB R)) (k : Nat) (b : BDoc R), pages.drop k = ps → Mid pages k b.doc.st →
      Mid pages (k + ps.length) (runB fmt b (pageOps pages.length k ps)).1.doc.st := by
  intro ps
  induction ps with
  | nil => intro k b _ h; simpa [pageOps, runB] using h
  | cons p ps ih =>
    intro k b hdrop h
    have hk : k < pages.length := by
      have := congrArg List.length hdrop
      simp at this; omega
    have hpk : pages[k]? = some p := by
      have := congrArg (fun l => l[0]?) hdrop
      simpa using this
    have hdrop' : pages.drop (k + 1) = ps := by
      have := congrArg List.tail hdrop
      simpa [List.tail_drop] using this
    simp only [pageOps, runB]
    -- the three operations of page `k`
    have e1 := stepB_create fmt b p.res
    have hlen1 : (stepB fmt b (.create p.res)).1.doc.st.refs.length = pages.length + 3 + 2 * k := by
      rw [e1]; simp [create, alloc, h.len]; omega
    have e2 := stepB_create fmt (stepB fmt b (.create p.res)).1 (contentVal p.content)
    have hrefs2 : (stepB fmt (stepB fmt b (.create p.res)).1 (.create (contentVal p.content))).1.doc.st.refs
        = b.doc.st.refs ++ [.promised, .promised] := by
      rw [e2, e1]; simp [create, alloc]
    have hprom : (stepB fmt (stepB fmt b (.create p.res)).1 (.create (contentVal p.content))).1.doc.st.refs[k + 1]? = some .promised := by
      rw [hrefs2, List.getElem?_append_left (by rw [h.len]; omega)]
      exact h.prom (k + 1) (by omega) (by omega)
    have e3 := stepB_fulfil fmt _ (k + 1) (pageVal (pages.length + 1) (pages.length + 2 + 2 * k) (pages.length + 3 + 2 * k) p) hprom
    have hch : ∀ j, chLookup (stepB fmt (stepB fmt (stepB fmt b (.create p.res)).1 (.create (contentVal p.content))).1
          (.fulfil (k + 1) (pageVal (pages.length + 1) (pages.length + 2 + 2 * k) (pages.length + 3 + 2 * k) p))).1.doc.st.changes j =
        if j = k + 1 then some (pageVal (pages.length + 1) (pages.length + 2 + 2 * k) (pages.length + 3 + 2 * k) p, 0)
        else if j = pages.length + 3 + 2 * k then some (contentVal p.content, 0)
        else if j = pages.length + 2 + 2 * k then some (p.res, 0)
        else chLookup b.doc.st.changes j := by
      intro j
      rw [e3]; simp only [chLookup_chInsert]
      rw [e2]; simp only [create, alloc, chLookup_chInsert]
      rw [e1]; simp only [create, alloc, chLookup_chInsert, List.length_append, List.length_singleton, h.len]
      have e : pages.length + 2 + 2 * k + 1 = pages.length + 3 + 2 * k := by omega
      rw [e]
    have hmid : Mid pages (k + 1) (stepB fmt (stepB fmt (stepB fmt b (.create p.res)).1 (.create (contentVal p.content))).1
          (.fulfil (k + 1) (pageVal (pages.length + 1) (pages.length + 2 + 2 * k) (pages.length + 3 + 2 * k) p))).1.doc.st := by
      refine ⟨?_, ?_, ?_, ?_⟩
      · rw [e3]; simp only; rw [hrefs2]; simp [h.len]; omega
      · intro j h1 h2
        rw [e3]; simp only; rw [hrefs2, List.getElem?_append_left (by rw [h.len]; omega)]
        exact h.prom j (by omega) h2
      · rw [hch, if_neg (by omega), if_neg (by omega), if_neg (by omega)]; exact h.tree
      · intro k' q hk' hq
        by_cases hkk : k' = k
        · subst hkk
          rw [hpk] at hq; simp only [Option.some.injEq] at hq; subst hq
          refine ⟨by rw [hch, if_pos rfl], ?_, ?_⟩
          · rw [hch, if_neg (by omega), if_neg (by omega), if_pos rfl]
          · rw [hch, if_neg (by omega), if_pos rfl]
        · obtain ⟨d1, d2, d3⟩ := h.done k' q (by omega) hq
          refine ⟨?_, ?_, ?_⟩
          · rw [hch, if_neg (by omega), if_neg (by omega), if_neg (by omega)]; exact d1
          · rw [hch, if_neg (by omega), if_neg (by omega), if_neg (by omega)]; exact d2
          · rw [hch, if_neg (by omega), if_neg (by omega), if_neg (by omega)]; exact d3
    have := ih (k + 1) _ hdrop' hmid
    simp only [List.length_cons]
    rw [show k + (ps.length + 1) = k + 1 + ps.length by omega]
    exact this

/-- **the numbering of `CatalogBuilder::build`**: when `save` is called, the page tree is pending under `n + 1`, the
    leaf of page `k` under `k + 1`, its resources and content stream under `n + 2 + 2k` and `n + 3 + 2k`, the catalog
    under `3n + 2` — the number the trailer names as `/Root` -/
theorem prepared_changes (fmt : R → List UInt8) (pages : List (PageB R)) (info : Option (Prim R)) :
    (prepared fmt pages info).doc.st.refs.length = 3 * pages.length + 3 ∧
    chLookup (prepared fmt pages info).doc.st.changes (3 * pages.length + 2) = some (catalogVal (pages.length + 1), 0) ∧
    chLookup (prepared fmt pages info).doc.st.changes (pages.length + 1) = some (treeVal (List.range' 1 pages.length), 0) ∧
    ∀ k p, pages[k]? = some p →
      chLookup (prepared fmt pages info).doc.st.changes (k + 1) =
        some (pageVal (pages.length + 1) (pages.length + 2 + 2 * k) (pages.length + 3 + 2 * k) p, 0) ∧
      chLookup (prepared fmt pages info).doc.st.changes (pages.length + 2 + 2 * k) = some (p.res, 0) ∧
      chLookup (prepared fmt pages info).doc.st.changes (pages.length + 3 + 2 * k) = some (contentVal p.content, 0) := by
  have happ : ∀ (a c : List (OpB R)) (b : BDoc R), (runB fmt b (a ++ c)).1 = (runB fmt (runB fmt b a).1 c).1 := by
    intro a
    induction a with
    | nil => intro c b; rfl
    | cons op a ih => intro c b; simp only [List.cons_append, runB]; exact ih c _
  -- the promises
  obtain ⟨p1, p2⟩ := runB_promises fmt pages.length (emptyB info pages.length)
  have p1' : (runB fmt (emptyB info pages.length) (List.replicate pages.length .promise)).1.doc.st.refs
      = .free 0 65535 :: List.replicate pages.length .promised := by rw [p1]; rfl
  have p2' : (runB fmt (emptyB info pages.length) (List.replicate pages.length .promise)).1.doc.st.changes = [] := by
    rw [p2]; rfl
  generalize hB : (runB fmt (emptyB info pages.length) (List.replicate pages.length .promise)).1 = bP at p1' p2'
  -- the tree
  have e1 := stepB_create fmt bP (treeVal (List.range' 1 pages.length))
  have hmid0 : Mid pages 0 (stepB fmt bP (.create (treeVal (List.range' 1 pages.length)))).1.doc.st := by
    refine ⟨?_, ?_, ?_, by intro k' p hk; omega⟩
    · rw [e1]; simp [create, alloc, p1']
    · intro j h1 h2
      rw [e1]; simp only [create, alloc, p1']
      rw [List.getElem?_append_left (by simp; omega)]
      obtain ⟨j', rfl⟩ : ∃ j', j = j' + 1 := ⟨j - 1, by omega⟩
      rw [List.getElem?_cons_succ]
      simp [List.getElem?_replicate]; omega
    · rw [e1]; simp only [create, alloc, chLookup_chInsert, p1', p2']
      simp
  have hm := runB_pageOps fmt pages pages 0 _ (by simp) hmid0
  simp only [Nat.zero_add] at hm
  -- the catalog
  have hprep : (prepared fmt pages info) =
      (stepB fmt (runB fmt (stepB fmt bP (.create (treeVal (List.range' 1 pages.length)))).1 (pageOps pages.length 0 pages)).1
        (.create (catalogVal (pages.length + 1)))).1 := by
    rw [← hB]
    simp only [prepared, buildOps]
    rw [happ, happ, happ]
    simp [runB]
  have e2 := stepB_create fmt (runB fmt (stepB fmt bP (.create (treeVal (List.range' 1 pages.length)))).1
    (pageOps pages.length 0 pages)).1 (catalogVal (pages.length + 1))
  have hch : ∀ j, chLookup (prepared fmt pages info).doc.st.changes j =
      if j = 3 * pages.length + 2 then some (catalogVal (pages.length + 1), 0)
      else chLookup (runB fmt (stepB fmt bP (.create (treeVal (List.range' 1 pages.length)))).1
        (pageOps pages.length 0 pages)).1.doc.st.changes j := by
    intro j
    rw [hprep, e2]; simp only [create, alloc, chLookup_chInsert, hm.len]
    have : pages.length + 2 + 2 * pages.length = 3 * pages.length + 2 := by omega
    rw [this]
  refine ⟨by rw [hprep, e2]; simp [create, alloc, hm.len]; omega, by rw [hch, if_pos rfl], by rw [hch, if_neg (by omega)]; exact hm.tree, ?_⟩
  intro k p hp
  have hk : k < pages.length := (List.getElem?_eq_some_iff.mp hp).1
  obtain ⟨d1, d2, d3⟩ := hm.done k p hk hp
  exact ⟨by rw [hch, if_neg (by omega)]; exact d1, by rw [hch, if_neg (by omega)]; exact d2,
    by rw [hch, if_neg (by omega)]; exact d3⟩

end BuildBytes
