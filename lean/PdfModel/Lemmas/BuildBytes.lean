import PdfModel.Model.BuildBytes
import PdfModel.Lemmas.HistBytes

/-!
  The empty storage a builder starts from is a base document of the byte-level theorems (its bytes — the header
  line — represent it trivially), and the operations of `CatalogBuilder::build` write values within the limits of
  the round-trip theorems whenever the page payloads are.
-/

namespace BuildBytes
open Storage PdfLex Xref SaveBytes RepBytes
open PdfSyntax (WF WFE WFL keysOf vdepth vdepthE vdepthL)

variable {R : Type}

theorem baseOK_empty (info : Option (Prim R)) (n : Nat) : BaseOK (emptyB info n).doc [] where
  start_le := by simp [emptyB]
  chain := by simp [emptyB, prevChain]
  pairs_entry := by simp [allPairs, pairsOK]
  pairs_dom := by intro p hp; simp [allPairs] at hp
  objs_lt := by intro o ho; simp [emptyB] at ho
  secs_lt := by intro s hs; simp [emptyB] at hs
  raw_lt := by
    intro j pos g h
    simp only [emptyB] at h
    cases j <;> simp at h
  stream_lt := by
    intro j sid idx h
    simp only [emptyB] at h
    cases j <;> simp at h
  no_prom := by intro e he; simp [emptyB] at he; subst he; simp
  changes_nil := rfl
  cache_nil := rfl

theorem locateStart_header (ext : List UInt8) : Offsets.locateStart (headerBytes ++ ext) = .ok 0 := by
  have hk : ∃ k, min Offsets.headerWindow (headerBytes ++ ext).length = k + 5 := by
    refine ⟨min Offsets.headerWindow (headerBytes ++ ext).length - 5, ?_⟩
    simp [Offsets.headerWindow, headerBytes]; omega
  obtain ⟨k, hk⟩ := hk
  unfold Offsets.locateStart
  rw [hk]
  simp [headerBytes, OffLex.findFirst, Offsets.headerMarker, List.isPrefixOf]

/-- the header line represents the empty storage -/
theorem rep_empty (P : Offsets.Parsers (Prim R) (Dict R)) (info : Option (Prim R)) (n : Nat) :
    Rep P (emptyB info n).bytes (emptyB info n).doc.st where
  len := rfl
  small := by simp [emptyB, headerBytes, fileMax]
  header := fun ext _ => locateStart_header ext
  xref := by intro h; exact absurd rfl h
  objs := by intro o ho; simp [emptyB] at ho
  secs := by intro s hs; simp [emptyB] at hs

theorem baseVals_empty (fmt : R → List UInt8) (pr : List UInt8 → Option R) (info : Option (Prim R)) (n : Nat)
    (hinfo : ∀ v, info = some v → OKVal fmt pr v) (hn : n ≤ 1000000) : BaseVals fmt pr (emptyB info n).doc where
  info := hinfo
  prev := by intro p hp; simp [emptyB] at hp
  root := by simp only [emptyB]; omega
  fields := by
    intro e he
    simp only [emptyB, List.mem_singleton] at he
    subst he
    intro t a b hf
    simp only [Storage.fieldsOf, Option.some.injEq, Prod.mk.injEq] at hf
    obtain ⟨_, rfl, rfl⟩ := hf
    simp [Storage.U64]

/-! ### the values the builder writes -/

theorem serialisableE_append (fmt : R → List UInt8) (pr : List UInt8 → Option R) :
    ∀ (a b : Dict R), SerialisableE fmt pr a → SerialisableE fmt pr b → SerialisableE fmt pr (a ++ b) := by
  intro a
  induction a with
  | nil => intro b _ hb; exact hb
  | cons kv a ih =>
    obtain ⟨k, v⟩ := kv
    intro b ha hb
    simp only [SerialisableE, List.cons_append] at ha ⊢
    exact ⟨ha.1, ih b ha.2 hb⟩

theorem wfe_append : ∀ (a b : Dict R), WFE a → WFE b → WFE (a ++ b) := by
  intro a
  induction a with
  | nil => intro b _ hb; exact hb
  | cons kv a ih =>
    obtain ⟨k, v⟩ := kv
    intro b ha hb
    simp only [WFE, List.cons_append] at ha ⊢
    exact ⟨ha.1, ha.2.1, ih b ha.2.2 hb⟩

theorem vdepthE_append (n : Nat) : ∀ (a b : Dict R), vdepthE a ≤ n → vdepthE b ≤ n → vdepthE (a ++ b) ≤ n := by
  intro a
  induction a with
  | nil => intro b _ hb; exact hb
  | cons kv a ih =>
    obtain ⟨k, v⟩ := kv
    intro b ha hb
    simp only [vdepthE, List.cons_append] at ha ⊢
    have := ih b (by omega) hb
    omega

/-- what the theorems ask of the payloads of a page -/
structure PageOK (fmt : R → List UInt8) (pr : List UInt8 → Option R) (p : PageB R) : Prop where
  other_ser : SerialisableE fmt pr p.other
  other_wf : WFE p.other
  other_nd : (keysOf p.other).Nodup
  other_depth : vdepthE p.other ≤ 18
  boxes_ser : SerialisableE fmt pr p.boxes
  boxes_wf : WFE p.boxes
  boxes_depth : vdepthE p.boxes ≤ 18
  rest_ser : SerialisableE fmt pr p.rest
  rest_wf : WFE p.rest
  rest_depth : vdepthE p.rest ≤ 18
  res : OKVal fmt pr p.res
  content : p.content.length ≤ 2147483647

theorem okVal_tree (fmt : R → List UInt8) (pr : List UInt8 → Option R) (kids : List Nat)
    (hk : ∀ k ∈ kids, k ≤ 18446744073709551615) (hl : kids.length ≤ 2147483647) : OKVal fmt pr (treeVal kids) := by
  have h1 : ∀ ks : List Nat, (∀ k ∈ ks, k ≤ 18446744073709551615) →
      SerialisableL fmt pr (ks.map fun k => (Prim.ref k 0 : Prim R)) ∧ WFL (ks.map fun k => (Prim.ref k 0 : Prim R)) ∧
        vdepthL (ks.map fun k => (Prim.ref k 0 : Prim R)) = 0 := by
    intro ks
    induction ks with
    | nil => intro _; simp [SerialisableL, WFL, vdepthL]
    | cons k ks ih =>
      intro h
      obtain ⟨a, b, c⟩ := ih (fun x hx => h x (by simp [hx]))
      have := h k (by simp)
      simp [SerialisableL, Serialisable, WFL, WF, vdepthL, vdepth, a, b, c, this]
  obtain ⟨a, b, c⟩ := h1 kids hk
  refine .direct _ ?_ ?_ ?_
  · simp [treeVal, Serialisable, SerialisableE, a]; omega
  · simp only [treeVal, WF, WFE, keysOf, List.map_cons, List.map_nil, b, and_true, true_and]
    decide
  · simp [treeVal, vdepth, vdepthE, c, maxDepth]

theorem okVal_catalog (fmt : R → List UInt8) (pr : List UInt8 → Option R) (tree : Nat) (h : tree ≤ 18446744073709551615) :
    OKVal fmt pr (catalogVal tree : Prim R) := by
  refine .direct _ ?_ ?_ ?_
  · simp [catalogVal, Serialisable, SerialisableE, h]
  · simp only [catalogVal, WF, WFE, keysOf, List.map_cons, List.map_nil, and_true, true_and]
    decide
  · simp [catalogVal, vdepth, vdepthE, maxDepth]

theorem okVal_content (fmt : R → List UInt8) (pr : List UInt8 → Option R) (data : List UInt8) (h : data.length ≤ 2147483647) :
    OKVal fmt pr (contentVal data : Prim R) := by
  refine .stream _ _ ?_ ?_ ?_ ?_ ?_
  · simp [SerialisableE, Serialisable]; omega
  · simp only [WFE, WF, and_true]; decide
  · simp [keysOf]
  · simp [dictGet]
  · simp [vdepthE, vdepth, maxDepth]

theorem okVal_page (fmt : R → List UInt8) (pr : List UInt8 → Option R) (tree res c : Nat) (p : PageB R)
    (hp : PageOK fmt pr p) (h1 : tree ≤ 18446744073709551615) (h2 : res ≤ 18446744073709551615)
    (h3 : c ≤ 18446744073709551615) : OKVal fmt pr (pageVal tree res c p) := by
  have hhead : SerialisableE fmt pr ([(kType, .name kPage), (kParent, .ref tree 0), (kResources, .ref res 0)] : Dict R) ∧
      WFE ([(kType, .name kPage), (kParent, .ref tree 0), (kResources, .ref res 0)] : Dict R) ∧
      vdepthE ([(kType, .name kPage), (kParent, .ref tree 0), (kResources, .ref res 0)] : Dict R) ≤ 18 := by
    refine ⟨by simp [SerialisableE, Serialisable, h1, h2], ?_, by simp [vdepthE, vdepth]⟩
    simp only [WFE, WF, and_true]; decide
  have hc : SerialisableE fmt pr ([(kContents, .ref c 0)] : Dict R) ∧ WFE ([(kContents, .ref c 0)] : Dict R) ∧
      vdepthE ([(kContents, .ref c 0)] : Dict R) ≤ 18 := by
    refine ⟨by simp [SerialisableE, Serialisable, h3], ?_, by simp [vdepthE, vdepth]⟩
    simp only [WFE, WF, and_true]; decide
  have e1 := serialisableE_append fmt pr _ _ (serialisableE_append fmt pr _ _ (serialisableE_append fmt pr _ _ hhead.1 hp.boxes_ser) hc.1) hp.rest_ser
  have e2 := wfe_append _ _ (wfe_append _ _ (wfe_append _ _ hhead.2.1 hp.boxes_wf) hc.2.1) hp.rest_wf
  have e3 := vdepthE_append 18 _ _ (vdepthE_append 18 _ _ (vdepthE_append 18 _ _ hhead.2.2 hp.boxes_depth) hc.2.2) hp.rest_depth
  obtain ⟨m1, m2, m3, m4⟩ := mergeDict_props fmt pr 18 _ p.other hp.other_ser hp.other_wf hp.other_nd hp.other_depth e1 e2 e3
  exact .direct _ (by simp only [pageVal, Serialisable]; exact m1) (by simp only [pageVal, WF]; exact ⟨m2, m3⟩)
    (by simp only [pageVal, vdepth, maxDepth]; omega)

/-- a history without saves whose values are within the limits is good -/
theorem goodHist_of_vals (fmt : R → List UInt8) (pr : List UInt8 → Option R) :
    ∀ (ops : List (OpB R)), (∀ op ∈ ops, ∀ b : BDoc R, GoodOp fmt pr b op) → ∀ b : BDoc R, GoodHist fmt pr b ops := by
  intro ops
  induction ops with
  | nil => intro _ _; trivial
  | cons op ops ih =>
    intro h b
    exact ⟨h op (by simp) b, ih (fun o ho => h o (by simp [ho])) _⟩

theorem goodOp_pageOps (fmt : R → List UInt8) (pr : List UInt8 → Option R) (n : Nat) (hn : n ≤ 1000000) :
    ∀ (ps : List (PageB R)) (k : Nat), k + ps.length ≤ n → (∀ p ∈ ps, PageOK fmt pr p) →
      ∀ op ∈ pageOps n k ps, ∀ b : BDoc R, GoodOp fmt pr b op := by
  intro ps
  induction ps with
  | nil => intro k _ _ op ho; simp [pageOps] at ho
  | cons p ps ih =>
    intro k hk hp op ho b
    have hpk := hp p (by simp)
    simp only [pageOps, List.mem_cons] at ho
    simp only [List.length_cons] at hk
    rcases ho with rfl | rfl | rfl | ho
    · exact hpk.res
    · exact okVal_content fmt pr _ hpk.content
    · exact okVal_page fmt pr _ _ _ p hpk (by omega) (by omega) (by omega)
    · exact ih (k + 1) (by omega) (fun q hq => hp q (by simp [hq])) op ho b

/-- **the builder's history is within the limits of the byte-level theorems** -/
theorem goodHist_buildOps (fmt : R → List UInt8) (pr : List UInt8 → Option R) (pages : List (PageB R))
    (hn : pages.length ≤ 1000000) (hp : ∀ p ∈ pages, PageOK fmt pr p) (b : BDoc R) :
    GoodHist fmt pr b (buildOps pages) := by
  apply goodHist_of_vals
  intro op ho b
  simp only [buildOps, List.mem_append, List.mem_replicate, List.mem_singleton] at ho
  rcases ho with ((⟨_, rfl⟩ | rfl) | ho) | rfl
  · trivial
  · refine okVal_tree fmt pr _ ?_ (by simp; omega)
    intro k hk
    simp only [List.mem_range'_1] at hk
    omega
  · exact goodOp_pageOps fmt pr pages.length hn pages 0 (by omega) hp op ho b
  · exact okVal_catalog fmt pr _ (by omega)

/-! ### nothing is written before the final `save` -/

theorem SameBackend.trans' {V : Type} {a b c : St V} (h1 : SameBackend a b) (h2 : SameBackend b c) : SameBackend a c := by
  obtain ⟨a1, a2, a3, a4, a5⟩ := h1
  obtain ⟨b1, b2, b3, b4, b5⟩ := h2
  exact ⟨b1.trans a1, b2.trans a2, b3.trans a3, b4.trans a4, b5.trans a5⟩

theorem runB_nosave (fmt : R → List UInt8) : ∀ (ops : List (OpB R)) (b : BDoc R), (∀ op ∈ ops, op ≠ .save) →
    SameBackend b.doc.st (runB fmt b ops).1.doc.st ∧ (runB fmt b ops).1.bytes = b.bytes := by
  intro ops
  induction ops with
  | nil => intro b _; exact ⟨SameBackend.rfl' _, rfl⟩
  | cons op ops ih =>
    intro b h
    have hop := h op (by simp)
    obtain ⟨s1, _, _⟩ := stepB_step fmt b op
    have hbk := step_backend (params fmt b.ids) b.doc (op.toOp (layoutOf fmt b)) (fun L => toOp_not_save op hop _ L)
    rw [← s1] at hbk
    have hbytes : (stepB fmt b op).1.bytes = b.bytes := by
      rcases stepB_bytes fmt b op with hbt | ⟨hx, _⟩
      · exact hbt
      · exact absurd hx hop
    obtain ⟨i1, i2⟩ := ih (stepB fmt b op).1 (fun o ho => h o (by simp [ho]))
    simp only [runB]
    exact ⟨SameBackend.trans' hbk i1, by rw [i2, hbytes]⟩

theorem pageOps_nosave (n : Nat) : ∀ (ps : List (PageB R)) (k : Nat), ∀ op ∈ pageOps n k ps, op ≠ .save := by
  intro ps
  induction ps with
  | nil => intro k op ho; simp [pageOps] at ho
  | cons p ps ih =>
    intro k op ho
    simp only [pageOps, List.mem_cons] at ho
    rcases ho with rfl | rfl | rfl | ho
    · simp
    · simp
    · simp
    · exact ih (k + 1) op ho

theorem buildOps_nosave (pages : List (PageB R)) : ∀ op ∈ buildOps pages, op ≠ .save := by
  intro op ho
  simp only [buildOps, List.mem_append, List.mem_replicate, List.mem_singleton] at ho
  rcases ho with ((⟨_, rfl⟩ | rfl) | ho) | rfl
  · simp
  · simp
  · exact pageOps_nosave _ pages 0 op ho
  · simp

/-- when the builder calls `save`, the backend is still the header line -/
theorem prepared_backend (fmt : R → List UInt8) (pages : List (PageB R)) (info : Option (Prim R)) :
    (prepared fmt pages info).bytes = headerBytes ∧ (prepared fmt pages info).doc.st.secs = [] ∧
    (prepared fmt pages info).doc.st.objs = [] ∧ (prepared fmt pages info).doc.st.start = 0 ∧
    (prepared fmt pages info).doc.st.len = 9 := by
  obtain ⟨⟨h1, h2, h3, h4, _⟩, hb⟩ := runB_nosave fmt (buildOps pages) (emptyB info pages.length) (buildOps_nosave pages)
  exact ⟨hb, h2, h1, h4, h3⟩

end BuildBytes
