import PdfModel.Lemmas.DeriveBase

/-! Lifting the laws through nested derived models: `structSem`, `semN`. -/

namespace Derive

theorem findSchema_mem {n : String} : ∀ {Ss : List Schema} {S : Schema}, findSchema n Ss = some S → S ∈ Ss ∧ S.name = n := by
  intro Ss
  induction Ss with
  | nil => intro S h; simp [findSchema] at h
  | cons T Ts ih =>
    intro S h
    simp only [findSchema] at h
    by_cases hn : T.name = n
    · simp [hn] at h; subst h; exact ⟨by simp, hn⟩
    · simp [hn] at h; exact ⟨by simp [(ih h).1], (ih h).2⟩

theorem FieldsOk_mono {P Q : Field → Val → Prop} (h : ∀ f v, P f v → Q f v) :
    ∀ (fs : List Field) (vs : List Val), FieldsOk P fs vs → FieldsOk Q fs vs := by
  intro fs
  induction fs with
  | nil => intro vs hv; simpa [FieldsOk] using hv
  | cons f fs ih =>
    intro vs hv
    simp only [FieldsOk] at hv ⊢
    cases hso : (f.skip || f.other) with
    | true => simp only [hso, if_true] at hv ⊢; exact ih vs hv
    | false =>
      simp [hso] at hv ⊢
      cases vs with
      | nil => simp at hv
      | cons v vs' => simp only at hv ⊢; exact ⟨h f v hv.1, ih vs' hv.2⟩

/-! ## `indirect` fields -/

/-- `Option<MaybeRef<T>>` with `indirect` (`Page::resources`): a direct value goes into a new object, and is read
    back as `MaybeRef::Indirect` of that object -/
theorem fieldLaw_indirect_maybeRef (cfg : Cfg) (sem : Sem) (env : Env) (lok : Shape → Val → Prop)
    (law : sem.Law env lok) (f : Field) (a : Shape) (hs : f.shape = .option (.maybeRef a)) (v : Val)
    (hv : ValOk cfg sem env lok f.shape v) : FieldLaw cfg sem env f v := by
  by_cases hind : f.indirect = false
  · exact fieldLaw_of_roundTrips cfg sem env f v hind (shape_law cfg sem env lok law f.shape v hv)
  have hind' : f.indirect = true := by simpa using hind
  intro e he
  rw [hs] at hv ⊢
  simp only [emit, hs] at he
  cases v with
  | none =>
    simp [writeShape, Prim.isNull] at he; subst he
    exact ⟨.none, by simp [readShape], by simp [emit, hs, writeShape, Prim.isNull]⟩
  | some w =>
    have hw : ValOk cfg sem env lok (.maybeRef a) w := by simpa [ValOk] using hv
    cases w with
    | direct x =>
      have hx : ValOk cfg sem env lok a x ∧ ∀ p, writeShape sem a x = .ok p → p.isRef = true →
          ∃ v', getTyped env (fun q => readShape cfg sem env a q) p = .ok v' := by simpa [ValOk] using hw
      simp only [writeShape] at he
      cases hwx : writeShape sem a x with
      | error err => simp [hwx] at he
      | ok p =>
        simp only [hwx] at he
        cases hpn : p.isNull with
        | true =>
          simp [hpn] at he; subst he
          exact ⟨.none, by simp [readShape], by simp [emit, hs, writeShape, Prim.isNull]⟩
        | false =>
          simp [hpn] at he; subst he
          cases hpr : p.isRef with
          | true =>
            obtain ⟨w', hg⟩ := hx.2 p hwx hpr
            refine ⟨.some (.indirect p w'), ?_, ?_⟩
            · simp only [indirectOf, hind', hpr, if_true, Option.getD]
              have := readShape_option_ok (cfg := cfg) (sem := sem) (env := env) (a := .maybeRef a) (p := p)
                (v := .indirect p w') (by simp [readShape, hpr, hg])
              simpa [hpn] using this
            · simp [emit, hs, writeShape, hpn]
          | false =>
            obtain ⟨x', hrx, hwx'⟩ := shape_law cfg sem env lok law a x hx.1 p hwx
            refine ⟨.some (.indirect (.created p) x'), ?_, ?_⟩
            · simp only [indirectOf, hind', hpr, if_true, Option.getD]
              have := readShape_option_ok (cfg := cfg) (sem := sem) (env := env) (a := .maybeRef a) (p := .created p)
                (v := .indirect (.created p) x') (by simp [readShape, Prim.isRef, getTyped, resolveP, hrx])
              simpa [Prim.isNull] using this
            · have hc : (Prim.created p).isRef = true := rfl
              have hcn : (Prim.created p).isNull = false := rfl
              simp [emit, hs, writeShape, hcn, indirectOf, hind', hpr, hc]
    | indirect r x =>
      have hx : r.isRef = true ∧ ∃ v', getTyped env (fun q => readShape cfg sem env a q) r = .ok v' := by
        simpa [ValOk] using hw
      obtain ⟨hr, w', hg⟩ := hx
      have hrn : r.isNull = false := by cases r <;> simp [Prim.isRef] at hr <;> rfl
      simp [writeShape, hrn] at he; subst he
      refine ⟨.some (.indirect r w'), ?_, ?_⟩
      · simp only [indirectOf, hind', hr, if_true, Option.getD]
        have := readShape_option_ok (cfg := cfg) (sem := sem) (env := env) (a := .maybeRef a) (p := r)
          (v := .indirect r w') (by simp [readShape, hr, hg])
        simpa [hrn] using this
      · simp [emit, hs, writeShape, hrn]
    | _ => simp [ValOk] at hw
  | _ => simp [ValOk] at hv

/-- the reader of a leaf-ish shape treats a reference to a fresh object like the object itself -/
def Transparent (sem : Sem) (env : Env) (s : Shape) : Prop :=
  ∀ q, q.isRef = false → sem.rd env s (.created q) = sem.rd env s q

/-- `Option<T>` with `indirect`, `T` a derived struct (`Trailer::info_dict`): the dictionary goes into a new
    object; the reader follows the reference; the next write makes another object with the same content -/
theorem fieldLaw_indirect_model (cfg : Cfg) (sem : Sem) (env : Env) (lok : Shape → Val → Prop)
    (law : sem.Law env lok) (f : Field) (m : String) (hs : f.shape = .option (.model m))
    (htr : Transparent sem env (.model m)) (v : Val)
    (hv : ValOk cfg sem env lok f.shape v) : FieldLaw cfg sem env f v := by
  by_cases hind : f.indirect = false
  · exact fieldLaw_of_roundTrips cfg sem env f v hind (shape_law cfg sem env lok law f.shape v hv)
  have hind' : f.indirect = true := by simpa using hind
  intro e he
  rw [hs] at hv ⊢
  simp only [emit, hs] at he
  cases v with
  | none =>
    simp [writeShape, Prim.isNull] at he; subst he
    exact ⟨.none, by simp [readShape], by simp [emit, hs, writeShape, Prim.isNull]⟩
  | some x =>
    have hx : lok (.model m) x := by simpa [ValOk] using hv
    simp only [writeShape] at he
    cases hwx : sem.wr (.model m) x with
    | error err => simp [hwx] at he
    | ok p =>
      simp only [hwx] at he
      obtain ⟨x', hrx, hwx'⟩ := law (.model m) x rfl hx p hwx
      cases hpn : p.isNull with
      | true =>
        simp [hpn] at he; subst he
        exact ⟨.none, by simp [readShape], by simp [emit, hs, writeShape, Prim.isNull]⟩
      | false =>
        simp [hpn] at he; subst he
        cases hpr : p.isRef with
        | true =>
          refine ⟨.some x', ?_, ?_⟩
          · simp only [indirectOf, hind', hpr, if_true, Option.getD]
            have := readShape_option_ok (cfg := cfg) (sem := sem) (env := env) (a := .model m) (p := p)
              (v := x') (by simpa [readShape] using hrx)
            simpa [hpn] using this
          · simp [emit, hs, writeShape, hwx', hpn]
        | false =>
          refine ⟨.some x', ?_, ?_⟩
          · simp only [indirectOf, hind', hpr, Option.getD]
            have := readShape_option_ok (cfg := cfg) (sem := sem) (env := env) (a := .model m) (p := .created p)
              (v := x') (by simp only [readShape]; rw [htr p hpr]; exact hrx)
            simpa [Prim.isNull] using this
          · simp [emit, hs, writeShape, hwx', hpn]
  | _ => simp [ValOk] at hv


/-! ## one more level of derived models -/

/-- `indirect` fields the lifting covers: `Option<MaybeRef<T>>`, and `Option<T>` for a `T` whose reader follows
    the reference to the new object -/
def IndirectCovered (inner : Sem) (env : Env) (f : Field) : Prop :=
  f.indirect = false ∨ (∃ a, f.shape = .option (.maybeRef a)) ∨
    (∃ m, f.shape = .option (.model m) ∧ Transparent inner env (.model m))

/-- a value of a derived struct: one well-formed value per keyed field, a catch-all of unrecognised entries only -/
def structOk (cfg : Cfg) (inner : Sem) (env : Env) (lok : Shape → Val → Prop) (S : Schema) (v : Val) : Prop :=
  ∃ vals other, v = .struct vals other ∧ (S.hasOther = true → otherUnrecognised S other) ∧
    FieldsOk (fun f w => IndirectCovered inner env f ∧ ValOk cfg inner env lok f.shape w ∧ DefaultedNonNull inner f w)
      S.fields vals

/-- values the level on top of `inner` speaks about -/
def modelOk (cfg : Cfg) (schemas : List Schema) (inner : Sem) (env : Env) (lok : Shape → Val → Prop) :
    Shape → Val → Prop
  | .model m, v => ∃ S, findSchema m schemas = some S ∧
      ((S.kind = .struct ∧ S.derivesRead = true ∧ structOk cfg inner env lok S v) ∨
       ((S.kind = .nameEnum ∨ S.kind = .intEnum) ∧ enumValid S v = true))
  | .modelApp _ _, _ => False
  | .leaf n, v =>
    if n = "PagesRc" then ∃ r w, v = .indirect r w ∧ ∃ v', readPagesRc cfg schemas inner env "Pages" r = .ok v'
    else if n = "PageRc" then ∃ r w, v = .indirect r w ∧ ∃ v', readPagesRc cfg schemas inner env "Page" r = .ok v'
    else if n = "PagesNode" then False
    else lok (.leaf n) v
  | s, v => lok s v

theorem readPagesRc_indirect {cfg : Cfg} {schemas : List Schema} {inner : Sem} {env : Env} {want : String}
    {p : Prim} {v : Val} (h : readPagesRc cfg schemas inner env want p = .ok v) : ∃ w, v = .indirect p w := by
  simp only [readPagesRc] at h
  split at h
  · split at h
    · simp at h
    · split at h
      · simp at h; exact ⟨_, h.symm⟩
      · simp at h
    · simp at h
  · simp at h

theorem struct_roundTrips (cfg : Cfg) (inner : Sem) (env : Env) (lok : Shape → Val → Prop)
    (law : inner.Law env lok) (S : Schema) (hk : S.kind = .struct) (hrd : S.derivesRead = true) (wf : S.WF)
    (v : Val) (hv : structOk cfg inner env lok S v) :
    RoundTrips (readStruct cfg inner env S) (writeStruct inner S) v := by
  obtain ⟨vals, other, rfl, hoth, hok⟩ := hv
  refine struct_law cfg inner env S hk hrd wf vals other hoth (FieldsOk_mono ?_ S.fields vals hok)
  intro f w ⟨hcov, hval, hnn⟩
  refine ⟨?_, hnn⟩
  rcases hcov with hni | ⟨a, hs⟩ | ⟨m, hs, htr⟩
  · exact fieldLaw_of_roundTrips cfg inner env f w hni (shape_law cfg inner env lok law f.shape w hval)
  · exact fieldLaw_indirect_maybeRef cfg inner env lok law f a hs w hval
  · exact fieldLaw_indirect_model cfg inner env lok law f m hs htr w hval

theorem structSem_law (cfg : Cfg) (schemas : List Schema) (inner : Sem) (env : Env) (lok : Shape → Val → Prop)
    (hwf : ∀ S ∈ schemas, S.WF) (law : inner.Law env lok) :
    (structSem cfg schemas inner).Law env (modelOk cfg schemas inner env lok) := by
  intro s v hnc hok p hw
  cases s with
  | model m =>
    simp only [modelOk] at hok
    obtain ⟨S, hfind, hcase⟩ := hok
    have hS := hwf S (findSchema_mem hfind).1
    rcases hcase with ⟨hk, hrd, hv⟩ | ⟨hk, hv⟩
    · have hw' : writeStruct inner S v = .ok p := by simpa [structSem, hfind, hk] using hw
      obtain ⟨v', hr, hw2⟩ := struct_roundTrips cfg inner env lok law S hk hrd hS v hv p hw'
      exact ⟨v', by simp [structSem, hfind, hk, hr], by simp [structSem, hfind, hk, hw2]⟩
    · have hw' : writeEnum S v = .ok p := by
        rcases hk with hk | hk <;> simpa [structSem, hfind, hk] using hw
      obtain ⟨hr, hvp⟩ := enum_write_read env S v p hw'
      refine ⟨v, ?_, ?_⟩
      · rcases hk with hk | hk <;> simp [structSem, hfind, hk, hr]
      · rcases hk with hk | hk <;> simp [structSem, hfind, hk, hw']
  | modelApp m a => simp [modelOk] at hok
  | leaf n =>
    simp only [modelOk] at hok
    by_cases h1 : n = "PagesRc"
    · subst h1
      rw [if_pos rfl] at hok
      obtain ⟨r, w, hv, v', hr⟩ := hok
      subst hv
      have : p = r := by simpa [structSem] using hw.symm
      subst this
      obtain ⟨w', hw'⟩ := readPagesRc_indirect hr
      exact ⟨v', by simpa [structSem] using hr, by subst hw'; simp [structSem]⟩
    · by_cases h2 : n = "PageRc"
      · subst h2
        rw [if_neg (by decide), if_pos rfl] at hok
        obtain ⟨r, w, hv, v', hr⟩ := hok
        subst hv
        have : p = r := by simpa [structSem] using hw.symm
        subst this
        obtain ⟨w', hw'⟩ := readPagesRc_indirect hr
        exact ⟨v', by simpa [structSem] using hr, by subst hw'; simp [structSem]⟩
      · by_cases h3 : n = "PagesNode"
        · simp [h3] at hok
        · simp only [h1, h2, h3, if_false] at hok
          have hrd : ∀ q, (structSem cfg schemas inner).rd env (.leaf n) q = inner.rd env (.leaf n) q := by
            intro q; simp only [structSem]; split <;> simp_all
          have hwr : ∀ w, (structSem cfg schemas inner).wr (.leaf n) w = inner.wr (.leaf n) w := by
            intro w; simp only [structSem]; split <;> simp_all
          rw [hwr] at hw
          obtain ⟨v', hr, hw2⟩ := law (.leaf n) v rfl hok p hw
          exact ⟨v', by rw [hrd]; exact hr, by rw [hwr]; exact hw2⟩
  | leafApp n a =>
    have hok' : lok (.leafApp n a) v := by simpa [modelOk] using hok
    obtain ⟨v', hr, hw2⟩ := law (.leafApp n a) v rfl hok' p (by simpa [structSem] using hw)
    exact ⟨v', by simpa [structSem] using hr, by simpa [structSem] using hw2⟩
  | param n =>
    have hok' : lok (.param n) v := by simpa [modelOk] using hok
    obtain ⟨v', hr, hw2⟩ := law (.param n) v rfl hok' p (by simpa [structSem] using hw)
    exact ⟨v', by simpa [structSem] using hr, by simpa [structSem] using hw2⟩
  | _ => simp [Shape.isContainer] at hnc

/-! ## every nesting depth -/

/-- the values the `n`-level semantics speaks about -/
def okN (cfg : Cfg) (schemas : List Schema) (env : Env) : Nat → Shape → Val → Prop
  | 0 => baseOk
  | n + 1 => modelOk cfg schemas (semN cfg schemas n) env (okN cfg schemas env n)

theorem semN_law (cfg : Cfg) (schemas : List Schema) (env : Env) (hwf : ∀ S ∈ schemas, S.WF) :
    ∀ n, (semN cfg schemas n).Law env (okN cfg schemas env n)
  | 0 => baseSem_law env
  | n + 1 => structSem_law cfg schemas (semN cfg schemas n) env (okN cfg schemas env n) hwf (semN_law cfg schemas env hwf n)

/-- a derived *struct* read through a reference to a fresh object is read like the object itself -/
theorem structSem_transparent (cfg : Cfg) (schemas : List Schema) (inner : Sem) (env : Env) (hd : 1 ≤ env.depth)
    (m : String) (S : Schema) (hf : findSchema m schemas = some S) (hk : S.kind = .struct) :
    Transparent (structSem cfg schemas inner) env (.model m) := by
  intro q hq
  obtain ⟨d, hd'⟩ : ∃ d, env.depth = d + 1 := ⟨env.depth - 1, by omega⟩
  have h1 : asDict env (.created q) = asDict env q := by
    simp only [asDict, hd', chase]
    have hc : (Prim.created q).isRef = true := rfl
    simp only [hc, if_true, resolveP, hq]
    simp [chase_nonref env d hq]
  simp [structSem, hf, hk, readStruct, h1]

/-- decidable form of `IndirectCovered` over a registry -/
def indirectCoveredB (schemas : List Schema) (f : Field) : Bool :=
  !f.indirect ||
    match f.shape with
    | .option (.maybeRef _) => true
    | .option (.model m) =>
      match findSchema m schemas with
      | some S => S.kind == .struct
      | none => false
    | _ => false

theorem indirectCovered_of_B (cfg : Cfg) (schemas : List Schema) (n : Nat) (env : Env) (hd : 1 ≤ env.depth)
    (f : Field) (h : indirectCoveredB schemas f = true) : IndirectCovered (semN cfg schemas (n + 1)) env f := by
  simp only [indirectCoveredB, Bool.or_eq_true] at h
  rcases h with h | h
  · exact Or.inl (by simpa using h)
  · cases hs : f.shape with
    | option a =>
      cases a with
      | maybeRef b => exact Or.inr (Or.inl ⟨b, hs⟩)
      | model m =>
        simp only [hs] at h
        cases hf : findSchema m schemas with
        | none => simp [hf] at h
        | some S =>
          simp [hf] at h
          exact Or.inr (Or.inr ⟨m, hs, structSem_transparent cfg schemas _ env hd m S hf h⟩)
      | _ => simp [hs] at h
    | _ => simp [hs] at h

end Derive
