import PdfModel.Spec.Import

/-! Invariants of the importer's state and the specification of `cloneRef` / `mapSt` they support. -/

namespace Import

@[simp] theorem lk_nil (a : Nat) : lk [] a = none := rfl
theorem lk_cons (k v : Nat) (m : List (Nat × Nat)) (a : Nat) :
    lk ((k, v) :: m) a = if a = k then some v else lk m a := rfl

theorem lk_none_not_mem : ∀ (m : List (Nat × Nat)) (a : Nat), lk m a = none → a ∉ m.map Prod.fst := by
  intro m
  induction m with
  | nil => intro a _; simp
  | cons p m ih =>
    intro a h
    obtain ⟨k, v⟩ := p
    rw [lk_cons] at h
    by_cases hk : a = k
    · simp [hk] at h
    · simp only [hk, if_false] at h
      simp only [List.map_cons, List.mem_cons, not_or]
      exact ⟨hk, ih a h⟩

theorem lk_some_mem : ∀ (m : List (Nat × Nat)) (a n : Nat), lk m a = some n → (a, n) ∈ m := by
  intro m
  induction m with
  | nil => intro a n h; simp at h
  | cons p m ih =>
    intro a n h
    obtain ⟨k, v⟩ := p
    rw [lk_cons] at h
    by_cases hk : a = k
    · simp only [hk, if_true, Option.some.injEq] at h; subst h; subst hk; simp
    · simp only [hk, if_false] at h
      exact List.mem_cons_of_mem _ (ih a n h)

/-! ### the generic traversal -/

theorem mapSt_nil {σ α β : Type} (g : α → σ → Out β × σ) (s : σ) : mapSt g [] s = (.ok [], s) := rfl

/-- Induction principle for `mapSt`: an invariant `I`, a pre-order `R` on states and a result property `Q`
    that is stable under `R` are carried through the traversal, whatever its outcome. -/
theorem mapSt_spec {σ α β : Type} (g : α → σ → Out β × σ) (I : σ → Prop) (R : σ → σ → Prop)
    (Q : α → β → σ → Prop) (QL : List α → List β → σ → Prop)
    (hrefl : ∀ s, R s s) (htrans : ∀ a b c, R a b → R b c → R a c)
    (hQLnil : ∀ s, QL [] [] s)
    (hQLcons : ∀ a b as bs s s', Q a b s → R s s' → QL as bs s' → QL (a :: as) (b :: bs) s')
    (l : List α)
    (hg : ∀ a ∈ l, ∀ s, I s → I (g a s).2 ∧ R s (g a s).2 ∧ ∀ b, (g a s).1 = .ok b → Q a b (g a s).2) :
    ∀ s, I s → I (mapSt g l s).2 ∧ R s (mapSt g l s).2 ∧
      ∀ bs, (mapSt g l s).1 = .ok bs → QL l bs (mapSt g l s).2 := by
  induction l with
  | nil =>
    intro s hs
    refine ⟨hs, hrefl s, ?_⟩
    intro bs h
    simp only [mapSt_nil, Out.ok.injEq] at h
    subst h
    exact hQLnil s
  | cons a as ih =>
    intro s hs
    have ha := hg a (by simp) s hs
    have ih' := ih (fun x hx => hg x (by simp [hx]))
    simp only [mapSt]
    cases h1 : (g a s).1 with
    | ok b =>
      simp only
      have hr := ih' (g a s).2 ha.1
      cases h2 : (mapSt g as (g a s).2).1 with
      | ok bs =>
        simp only
        refine ⟨hr.1, htrans _ _ _ ha.2.1 hr.2.1, ?_⟩
        intro bs' hbs'
        simp only [Out.ok.injEq] at hbs'
        subst hbs'
        exact hQLcons a b as bs _ _ (ha.2.2 b h1) hr.2.1 (hr.2.2 bs h2)
      | err => simp only; exact ⟨hr.1, htrans _ _ _ ha.2.1 hr.2.1, by intro bs' h; simp at h⟩
      | panic => simp only; exact ⟨hr.1, htrans _ _ _ ha.2.1 hr.2.1, by intro bs' h; simp at h⟩
      | oof => simp only; exact ⟨hr.1, htrans _ _ _ ha.2.1 hr.2.1, by intro bs' h; simp at h⟩
    | err => simp only; exact ⟨ha.1, ha.2.1, by intro bs' h; simp at h⟩
    | panic => simp only; exact ⟨ha.1, ha.2.1, by intro bs' h; simp at h⟩
    | oof => simp only; exact ⟨ha.1, ha.2.1, by intro bs' h; simp at h⟩


/-! ### the invariant -/

theorem mapped_mono (m m' : List (Nat × Nat)) (h : ∀ o n, lk m o = some n → lk m' o = some n) :
    ∀ (es : List Edge) (ks : List Nat), Mapped m es ks → Mapped m' es ks := by
  intro es
  induction es with
  | nil => intro ks hk; cases ks <;> simp_all [Mapped]
  | cons e es ih =>
    intro ks hk
    cases ks with
    | nil => simp [Mapped] at hk
    | cons k ks => exact ⟨h _ _ hk.1, ih ks hk.2⟩

theorem mapped_mem (m : List (Nat × Nat)) : ∀ (es : List Edge) (ks : List Nat), Mapped m es ks →
    ∀ k ∈ ks, ∃ e ∈ es, lk m e.tgt = some k := by
  intro es
  induction es with
  | nil => intro ks hk k hkm; cases ks <;> simp_all [Mapped]
  | cons e es ih =>
    intro ks hk k hkm
    cases ks with
    | nil => simp at hkm
    | cons k' ks =>
      simp only [List.mem_cons] at hkm
      rcases hkm with rfl | hkm
      · exact ⟨e, by simp, hk.1⟩
      · obtain ⟨e', he', hl⟩ := ih ks hk.2 k hkm
        exact ⟨e', by simp [he'], hl⟩

theorem mapped_length (m : List (Nat × Nat)) : ∀ (es : List Edge) (ks : List Nat), Mapped m es ks →
    ks.length = es.length := by
  intro es
  induction es with
  | nil => intro ks hk; cases ks <;> simp_all [Mapped]
  | cons e es ih =>
    intro ks hk
    cases ks with
    | nil => simp [Mapped] at hk
    | cons k ks => simp [ih ks hk.2]

/-- what holds of every state the importer can reach -/
structure Inv (src : Src) (st : St) : Prop where
  vals_lt : ∀ o n, lk st.map o = some n → n < st.next
  ids_lt : ∀ ob ∈ st.objs, ob.id < st.next
  inj : ∀ o o' n, lk st.map o = some n → lk st.map o' = some n → o = o'
  map_obj : ∀ o n, lk st.map o = some n → ∃ ob ∈ st.objs, ob.id = n
  obj_iso : ∀ ob ∈ st.objs, ∃ o node k, src o = some node ∧ lk st.map o = some ob.id ∧
      ob.payload = node.payload ∧ Mapped st.map (node.kids k) ob.kids
  keys_nodup : (st.map.map Prod.fst).Nodup
  ids_eq : st.objs.map (·.id) = st.map.map Prod.snd
  ids_nodup : (st.objs.map (·.id)).Nodup
  rc_sub : ∀ n ∈ st.rcrefs, ∃ o, lk st.map o = some n

/-- how a call changes the state -/
structure Ext (st st' : St) : Prop where
  map_ext : ∀ o n, lk st.map o = some n → lk st'.map o = some n
  pend_eq : st'.pending = st.pending
  pend_keep : ∀ o ∈ st.pending, lk st'.map o = lk st.map o
  next_le : st.next ≤ st'.next
  rc_ext : ∀ n ∈ st.rcrefs, n ∈ st'.rcrefs
  objs_ext : ∀ ob ∈ st.objs, ob ∈ st'.objs
  new_ids : ∀ ob ∈ st'.objs, ob ∈ st.objs ∨ st.next ≤ ob.id

theorem Ext.refl (st : St) : Ext st st :=
  ⟨fun _ _ h => h, rfl, fun _ _ => rfl, Nat.le_refl _, fun _ h => h, fun _ h => h, fun _ h => Or.inl h⟩

theorem Ext.trans {a b c : St} (h1 : Ext a b) (h2 : Ext b c) : Ext a c where
  map_ext := fun o n h => h2.map_ext o n (h1.map_ext o n h)
  pend_eq := by rw [h2.pend_eq, h1.pend_eq]
  pend_keep := fun o ho => by
    rw [h2.pend_keep o (by rw [h1.pend_eq]; exact ho), h1.pend_keep o ho]
  next_le := Nat.le_trans h1.next_le h2.next_le
  rc_ext := fun n h => h2.rc_ext n (h1.rc_ext n h)
  objs_ext := fun ob h => h2.objs_ext ob (h1.objs_ext ob h)
  new_ids := fun ob h => by
    rcases h2.new_ids ob h with hb | hb
    · exact h1.new_ids ob hb
    · exact Or.inr (Nat.le_trans h1.next_le hb)

theorem Inv.init (src : Src) (n : Nat) : Inv src (St.init n) where
  vals_lt := by intro o k h; simp [St.init] at h
  ids_lt := by intro ob h; simp [St.init] at h
  inj := by intro o o' k h; simp [St.init] at h
  map_obj := by intro o k h; simp [St.init] at h
  obj_iso := by intro ob h; simp [St.init] at h
  keys_nodup := by simp [St.init]
  ids_eq := by simp [St.init]
  ids_nodup := by simp [St.init]
  rc_sub := by intro k h; simp [St.init] at h

/-- the invariant does not mention `pending` -/
theorem Inv.push {src : Src} {st : St} (h : Inv src st) (o : Nat) : Inv src (st.push o) :=
  ⟨h.vals_lt, h.ids_lt, h.inj, h.map_obj, h.obj_iso, h.keys_nodup, h.ids_eq, h.ids_nodup, h.rc_sub⟩
theorem Inv.pop {src : Src} {st : St} (h : Inv src st) : Inv src st.pop :=
  ⟨h.vals_lt, h.ids_lt, h.inj, h.map_obj, h.obj_iso, h.keys_nodup, h.ids_eq, h.ids_nodup, h.rc_sub⟩

/-- push … (calls that keep `pending`) … pop is an extension of the state before the push -/
theorem Ext.push_pop {st st1 : St} (o : Nat) (h : Ext (st.push o) st1) : Ext st st1.pop where
  map_ext := h.map_ext
  pend_eq := by
    show st1.pending.tail = st.pending
    rw [h.pend_eq]; rfl
  pend_keep := fun x hx => h.pend_keep x (by show x ∈ o :: st.pending; simp [hx])
  next_le := h.next_le
  rc_ext := h.rc_ext
  objs_ext := h.objs_ext
  new_ids := h.new_ids

/-- allocation of the copy of a source object that has no memo entry yet -/
theorem Inv.alloc {src : Src} {st : St} (h : Inv src st) (old : Nat) (node : Node) (k : Kind) (ks : List Nat)
    (rc : Bool) (hsrc : src old = some node) (hfresh : lk st.map old = none) (hpend : old ∉ st.pending)
    (hks : Mapped st.map (node.kids k) ks) :
    Inv src (st.alloc old node.payload ks rc) ∧ Ext st (st.alloc old node.payload ks rc) ∧
      lk (st.alloc old node.payload ks rc).map old = some st.next := by
  have hmono : ∀ o n, lk st.map o = some n → lk ((old, st.next) :: st.map) o = some n := by
    intro o n hl
    rw [lk_cons]
    by_cases ho : o = old
    · subst ho; rw [hfresh] at hl; cases hl
    · simp [ho, hl]
  refine ⟨?_, ?_, ?_⟩
  · constructor
    · intro o n hl
      simp only [St.alloc, lk_cons] at hl ⊢
      by_cases ho : o = old
      · simp only [ho, if_true, Option.some.injEq] at hl; omega
      · simp only [ho, if_false] at hl; have := h.vals_lt o n hl; omega
    · intro ob hob
      simp only [St.alloc, List.mem_cons] at hob ⊢
      rcases hob with rfl | hob
      · simp
      · have := h.ids_lt ob hob; omega
    · intro o o' n h1 h2
      simp only [St.alloc, lk_cons] at h1 h2
      by_cases ho : o = old <;> by_cases ho' : o' = old
      · rw [ho, ho']
      · simp only [ho, if_true, Option.some.injEq, ho', if_false] at h1 h2
        have := h.vals_lt o' n h2; omega
      · simp only [ho, if_false, ho', if_true, Option.some.injEq] at h1 h2
        have := h.vals_lt o n h1; omega
      · simp only [ho, ho', if_false] at h1 h2
        exact h.inj o o' n h1 h2
    · intro o n hl
      simp only [St.alloc, lk_cons] at hl ⊢
      by_cases ho : o = old
      · simp only [ho, if_true, Option.some.injEq] at hl
        exact ⟨⟨st.next, node.payload, ks⟩, by simp, hl⟩
      · simp only [ho, if_false] at hl
        obtain ⟨ob, hob, hid⟩ := h.map_obj o n hl
        exact ⟨ob, by simp [hob], hid⟩
    · intro ob hob
      simp only [St.alloc, List.mem_cons] at hob ⊢
      rcases hob with rfl | hob
      · refine ⟨old, node, k, hsrc, ?_, rfl, mapped_mono _ _ hmono _ _ hks⟩
        simp [lk_cons]
      · obtain ⟨o, nd, k', h1, h2, h3, h4⟩ := h.obj_iso ob hob
        exact ⟨o, nd, k', h1, hmono _ _ h2, h3, mapped_mono _ _ hmono _ _ h4⟩
    · simp only [St.alloc, List.map_cons, List.nodup_cons]
      exact ⟨lk_none_not_mem _ _ hfresh, h.keys_nodup⟩
    · simp only [St.alloc, List.map_cons, h.ids_eq]
    · simp only [St.alloc, List.map_cons, List.nodup_cons]
      refine ⟨?_, h.ids_nodup⟩
      intro hm
      obtain ⟨ob, hob, hid⟩ := List.mem_map.mp hm
      have := h.ids_lt ob hob; omega
    · intro n hn
      simp only [St.alloc] at hn ⊢
      have old_case : ∀ n ∈ st.rcrefs, ∃ o, lk ((old, st.next) :: st.map) o = some n := by
        intro n hn
        obtain ⟨o, ho⟩ := h.rc_sub n hn
        exact ⟨o, hmono _ _ ho⟩
      cases rc with
      | false => simp only [Bool.false_eq_true, if_false] at hn; exact old_case n hn
      | true =>
        simp only [if_true, List.mem_cons] at hn
        rcases hn with rfl | hn
        · exact ⟨old, by simp [lk_cons]⟩
        · exact old_case n hn
  · constructor
    · exact hmono
    · rfl
    · intro o ho
      simp only [St.alloc, lk_cons]
      by_cases hoo : o = old
      · subst hoo; exact absurd ho hpend
      · simp [hoo]
    · simp [St.alloc]
    · intro n hn; simp only [St.alloc]; split <;> simp [hn]
    · intro ob hob; simp [St.alloc, hob]
    · intro ob hob
      simp only [St.alloc, List.mem_cons] at hob
      rcases hob with rfl | hob
      · exact Or.inr (Nat.le_refl _)
      · exact Or.inl hob
  · simp [St.alloc, lk_cons]


/-! ### specification of the cloner -/

/-- what one call guarantees, whatever its outcome -/
def RefSpec (src : Src) (g : Edge → St → Out Nat × St) : Prop :=
  ∀ (e : Edge) (st : St), Inv src st →
    Inv src (g e st).2 ∧ Ext st (g e st).2 ∧ ∀ n, (g e st).1 = .ok n → lk (g e st).2.map e.tgt = some n

/-- … and a traversal of a list of edges -/
theorem kids_spec (src : Src) (g : Edge → St → Out Nat × St) (hg : RefSpec src g) (es : List Edge) (st : St)
    (h : Inv src st) :
    Inv src (mapSt g es st).2 ∧ Ext st (mapSt g es st).2 ∧
      ∀ ks, (mapSt g es st).1 = .ok ks → Mapped (mapSt g es st).2.map es ks :=
  mapSt_spec g (Inv src) Ext (fun e k s => lk s.map e.tgt = some k) (fun es ks s => Mapped s.map es ks)
    Ext.refl (fun _ _ _ => Ext.trans) (fun _ => trivial)
    (fun _ _ _ _ _ _ hq hr hl => ⟨hr.map_ext _ _ hq, hl⟩) es (fun a _ s hs => hg a s hs) st h

theorem cloneRef_spec (src : Src) : ∀ (f : Nat), RefSpec src (cloneRef f src) := by
  intro f
  induction f with
  | zero =>
    intro e st h
    simp only [cloneRef]
    exact ⟨h, Ext.refl st, by intro n hn; simp at hn⟩
  | succ f ih =>
    intro e st h
    simp only [cloneRef]
    cases hlk : lk st.map e.tgt with
    | some n =>
      simp only
      cases hk : e.kind with
      | prim => simp only; exact ⟨h, Ext.refl st, by intro n' hn; simp at hn; rw [← hn]; exact hlk⟩
      | ref => simp only; exact ⟨h, Ext.refl st, by intro n' hn; simp at hn; rw [← hn]; exact hlk⟩
      | rc =>
        simp only
        by_cases hrc : n ∈ st.rcrefs
        · simp only [hrc, if_true]
          exact ⟨h, Ext.refl st, by intro n' hn; simp at hn; rw [← hn]; exact hlk⟩
        · simp only [hrc, if_false]
          by_cases hp : e.tgt ∈ st.pending
          · simp only [hp, if_true]
            exact ⟨h, Ext.refl st, by intro n' hn; simp at hn⟩
          · simp only [hp, if_false]
            cases hs : src e.tgt with
            | none => simp only; exact ⟨h, Ext.refl st, by intro n' hn; simp at hn⟩
            | some node =>
              simp only
              have hk := kids_spec src (cloneRef f src) ih (node.kids .rc) (st.push e.tgt) (h.push _)
              have hext := Ext.push_pop e.tgt hk.2.1
              have hinv := hk.1.pop
              cases hr : (mapSt (cloneRef f src) (node.kids .rc) (st.push e.tgt)).1 with
              | ok ks =>
                simp only
                refine ⟨?_, ?_, ?_⟩
                · exact ⟨hinv.vals_lt, hinv.ids_lt, hinv.inj, hinv.map_obj, hinv.obj_iso, hinv.keys_nodup,
                    hinv.ids_eq, hinv.ids_nodup, by
                      intro m hm
                      simp only [List.mem_cons] at hm
                      rcases hm with rfl | hm
                      · exact ⟨e.tgt, hext.map_ext _ _ hlk⟩
                      · exact hinv.rc_sub m hm⟩
                · exact ⟨hext.map_ext, hext.pend_eq, hext.pend_keep, hext.next_le,
                    fun m hm => by simp [hext.rc_ext m hm], hext.objs_ext, hext.new_ids⟩
                · intro n' hn
                  simp only [Out.ok.injEq] at hn
                  rw [← hn]
                  exact hext.map_ext _ _ hlk
              | err => simp only; exact ⟨hinv, hext, by intro n' hn; simp at hn⟩
              | panic => simp only; exact ⟨hinv, hext, by intro n' hn; simp at hn⟩
              | oof => simp only; exact ⟨hinv, hext, by intro n' hn; simp at hn⟩
    | none =>
      simp only
      by_cases hp : e.tgt ∈ st.pending
      · simp only [hp, if_true]
        exact ⟨h, Ext.refl st, by intro n' hn; simp at hn⟩
      · simp only [hp, if_false]
        cases hs : src e.tgt with
        | none => simp only; exact ⟨h, Ext.refl st, by intro n' hn; simp at hn⟩
        | some node =>
          simp only
          have hk := kids_spec src (cloneRef f src) ih (node.kids e.kind) (st.push e.tgt) (h.push _)
          have hext := Ext.push_pop e.tgt hk.2.1
          have hinv := hk.1.pop
          cases hr : (mapSt (cloneRef f src) (node.kids e.kind) (st.push e.tgt)).1 with
          | ok ks =>
            simp only
            have hfresh : lk (mapSt (cloneRef f src) (node.kids e.kind) (st.push e.tgt)).2.pop.map e.tgt = none := by
              have := hk.2.1.pend_keep e.tgt (by show e.tgt ∈ e.tgt :: st.pending; simp)
              show lk (mapSt (cloneRef f src) (node.kids e.kind) (st.push e.tgt)).2.map e.tgt = none
              rw [this]; exact hlk
            have hpend : e.tgt ∉ (mapSt (cloneRef f src) (node.kids e.kind) (st.push e.tgt)).2.pop.pending := by
              rw [hext.pend_eq]; exact hp
            have ha := hinv.alloc e.tgt node e.kind ks (decide (e.kind = .rc)) hs hfresh hpend (hk.2.2 ks hr)
            exact ⟨ha.1, hext.trans ha.2.1, by
              intro n' hn
              simp only [Out.ok.injEq] at hn
              rw [← hn]; exact ha.2.2⟩
          | err => simp only; exact ⟨hinv, hext, by intro n' hn; simp at hn⟩
          | panic => simp only; exact ⟨hinv, hext, by intro n' hn; simp at hn⟩
          | oof => simp only; exact ⟨hinv, hext, by intro n' hn; simp at hn⟩


/-! ### consequences of the invariant -/

theorem Inv.closed {src : Src} {st : St} (h : Inv src st) : Closed st := by
  intro ob hob k hk
  obtain ⟨o, node, kd, _, _, _, hm⟩ := h.obj_iso ob hob
  obtain ⟨e, _, hl⟩ := mapped_mem _ _ _ hm k hk
  exact h.map_obj _ _ hl

theorem Inv.once {src : Src} {st : St} (h : Inv src st) : Once st :=
  ⟨h.keys_nodup, h.ids_eq, h.ids_nodup⟩

theorem Inv.iso {src : Src} {st : St} (h : Inv src st) : Iso src st := by
  intro o n hl
  obtain ⟨ob, hob, hid⟩ := h.map_obj o n hl
  obtain ⟨o', node, k, h1, h2, h3, h4⟩ := h.obj_iso ob hob
  have : o' = o := h.inj o' o n (by rw [h2, hid]) hl
  subst this
  exact ⟨node, ob, k, h1, hob, hid, h3, h4⟩

/-! ### a sequence of requests -/

theorem cloneRoots_spec (src : Src) (f : Nat) : ∀ (es : List Edge) (st : St), Inv src st →
    Inv src (cloneRoots f src es st).2 ∧ Ext st (cloneRoots f src es st).2 := by
  intro es
  induction es with
  | nil => intro st h; exact ⟨h, Ext.refl st⟩
  | cons e es ih =>
    intro st h
    simp only [cloneRoots]
    have h1 := cloneRef_spec src f e st h
    have h2 := ih _ h1.1
    exact ⟨h2.1, h1.2.1.trans h2.2⟩

/-! ### outcomes: no panic, fuel, success on acyclic sources -/

theorem mapSt_ne_panic {σ α β : Type} (g : α → σ → Out β × σ) (hg : ∀ a s, (g a s).1 ≠ .panic) :
    ∀ (l : List α) (s : σ), (mapSt g l s).1 ≠ .panic := by
  intro l
  induction l with
  | nil => intro s; simp [mapSt]
  | cons a as ih =>
    intro s
    simp only [mapSt]
    cases h1 : (g a s).1 with
    | ok b =>
      simp only
      cases h2 : (mapSt g as (g a s).2).1 with
      | ok bs => simp
      | err => simp
      | panic => exact absurd h2 (ih _)
      | oof => simp
    | err => simp
    | panic => exact absurd h1 (hg a s)
    | oof => simp

theorem cloneRef_ne_panic (src : Src) : ∀ (f : Nat) (e : Edge) (st : St), (cloneRef f src e st).1 ≠ .panic := by
  intro f
  induction f with
  | zero => intro e st; simp [cloneRef]
  | succ f ih =>
    intro e st
    simp only [cloneRef]
    split
    · split
      · simp
      · simp
      · split
        · simp
        · split
          · simp
          · split
            · simp
            · split
              · simp
              · simp
              · rename_i hh; exact absurd hh (mapSt_ne_panic _ ih _ _)
              · simp
    · split
      · simp
      · split
        · simp
        · split
          · simp
          · simp
          · rename_i hh; exact absurd hh (mapSt_ne_panic _ ih _ _)
          · simp

/-- a projection of the state that every call leaves alone is left alone by a traversal -/
theorem mapSt_proj {σ α β γ : Type} (g : α → σ → Out β × σ) (π : σ → γ) (hg : ∀ a s, π (g a s).2 = π s) :
    ∀ (l : List α) (s : σ), π (mapSt g l s).2 = π s := by
  intro l
  induction l with
  | nil => intro s; rfl
  | cons a as ih =>
    intro s
    simp only [mapSt]
    cases h1 : (g a s).1 with
    | ok b =>
      simp only
      cases h2 : (mapSt g as (g a s).2).1 <;> simp only <;> rw [ih, hg]
    | err => simp only; exact hg a s
    | panic => simp only; exact hg a s
    | oof => simp only; exact hg a s

/-- `pending` is a stack: every call leaves it as it found it, whatever the outcome -/
theorem cloneRef_pending (src : Src) : ∀ (f : Nat) (e : Edge) (st : St),
    (cloneRef f src e st).2.pending = st.pending := by
  intro f
  induction f with
  | zero => intro e st; rfl
  | succ f ih =>
    intro e st
    have hk : ∀ (l : List Edge) (s : St), (mapSt (cloneRef f src) l (s.push e.tgt)).2.pop.pending = s.pending := by
      intro l s
      show (mapSt (cloneRef f src) l (s.push e.tgt)).2.pending.tail = s.pending
      rw [mapSt_proj (cloneRef f src) St.pending ih]; rfl
    simp only [cloneRef]
    split
    · split
      · rfl
      · rfl
      · split
        · rfl
        · split
          · rfl
          · split
            · rfl
            · split
              · exact hk _ _
              · exact hk _ _
              · exact hk _ _
              · exact hk _ _
    · split
      · rfl
      · split
        · rfl
        · split
          · show ((mapSt (cloneRef f src) _ (st.push e.tgt)).2.pop.alloc _ _ _ _).pending = st.pending
            simp only [St.alloc]; exact hk _ _
          · exact hk _ _
          · exact hk _ _
          · exact hk _ _


/-- pigeonhole: a duplicate-free list drawn from `s` is no longer than `s` -/
theorem nodup_subset_length : ∀ (l s : List Nat), l.Nodup → (∀ x ∈ l, x ∈ s) → l.length ≤ s.length := by
  intro l
  induction l with
  | nil => intro s _ _; simp
  | cons a l ih =>
    intro s hnd hsub
    rw [List.nodup_cons] at hnd
    have ha : a ∈ s := hsub a (by simp)
    have hsub' : ∀ x ∈ l, x ∈ s.erase a := by
      intro x hx
      have hne : x ≠ a := fun heq => hnd.1 (heq ▸ hx)
      exact (List.mem_erase_of_ne hne).mpr (hsub x (by simp [hx]))
    have := ih (s.erase a) hnd.2 hsub'
    rw [List.length_erase_of_mem ha] at this
    have hpos : 0 < s.length := List.length_pos_of_mem ha
    simp only [List.length_cons]
    omega

theorem mapSt_ne_oof {σ α β : Type} (g : α → σ → Out β × σ) (C : σ → Prop)
    (hC : ∀ a s, C s → C (g a s).2) :
    ∀ (l : List α), (∀ a ∈ l, ∀ s, C s → (g a s).1 ≠ .oof) → ∀ (s : σ), C s → (mapSt g l s).1 ≠ .oof := by
  intro l
  induction l with
  | nil => intro _ s _; simp [mapSt]
  | cons a as ih =>
    intro hg s hs
    simp only [mapSt]
    cases h1 : (g a s).1 with
    | ok b =>
      simp only
      cases h2 : (mapSt g as (g a s).2).1 with
      | ok bs => simp
      | err => simp
      | panic => simp
      | oof => exact absurd h2 (ih (fun x hx => hg x (by simp [hx])) _ (hC a s hs))
    | err => simp
    | panic => simp
    | oof => exact absurd h1 (hg a (by simp) s hs)

/-- **fuel**: with more fuel than the source has objects no call runs out of it — on any source graph,
    cyclic or not. (`pending` is duplicate-free and drawn from the existing objects, and it grows by one at
    every level of the recursion.) -/
theorem cloneRef_ne_oof (src : Src) (support : List Nat) (hsup : ∀ o, src o ≠ none → o ∈ support) :
    ∀ (f : Nat) (e : Edge) (st : St), st.pending.Nodup → (∀ o ∈ st.pending, o ∈ support) →
      support.length < f + st.pending.length → (cloneRef f src e st).1 ≠ .oof := by
  intro f
  induction f with
  | zero =>
    intro e st hnd hsub hlen
    have := nodup_subset_length _ _ hnd hsub
    omega
  | succ f ih =>
    intro e st hnd hsub hlen
    -- the traversal of the kids of `e.tgt`, entered with `e.tgt` pushed
    have hk : e.tgt ∉ st.pending → src e.tgt ≠ none → ∀ (l : List Edge),
        (mapSt (cloneRef f src) l (st.push e.tgt)).1 ≠ .oof := by
      intro hp hs l
      refine mapSt_ne_oof (cloneRef f src) (fun s => s.pending = e.tgt :: st.pending)
        (fun a s hs' => by rw [cloneRef_pending]; exact hs') l ?_ _ rfl
      intro a _ s hs'
      refine ih a s ?_ ?_ ?_
      · rw [hs', List.nodup_cons]; exact ⟨hp, hnd⟩
      · intro o ho
        rw [hs'] at ho
        simp only [List.mem_cons] at ho
        rcases ho with rfl | ho
        · exact hsup _ hs
        · exact hsub o ho
      · rw [hs']; simp only [List.length_cons]; omega
    simp only [cloneRef]
    split
    · split
      · simp
      · simp
      · split
        · simp
        · split
          · simp
          · rename_i hp
            split
            · simp
            · rename_i node hs
              split
              · simp
              · simp
              · simp
              · rename_i hh; exact absurd hh (hk hp (by rw [hs]; simp) _)
    · split
      · simp
      · rename_i hp
        split
        · simp
        · rename_i node hs
          split
          · simp
          · simp
          · simp
          · rename_i hh; exact absurd hh (hk hp (by rw [hs]; simp) _)

theorem mapSt_ok {σ α β : Type} (g : α → σ → Out β × σ) (C : σ → Prop)
    (hC : ∀ a s, C s → C (g a s).2) :
    ∀ (l : List α), (∀ a ∈ l, ∀ s, C s → ∃ b, (g a s).1 = .ok b) → ∀ (s : σ), C s →
      ∃ bs, (mapSt g l s).1 = .ok bs := by
  intro l
  induction l with
  | nil => intro _ s _; exact ⟨[], rfl⟩
  | cons a as ih =>
    intro hg s hs
    obtain ⟨b, hb⟩ := hg a (by simp) s hs
    obtain ⟨bs, hbs⟩ := ih (fun x hx => hg x (by simp [hx])) _ (hC a s hs)
    exact ⟨b :: bs, by simp only [mapSt, hb, hbs]⟩

/-- **success**: where the source is acyclic and has no dangling references below `e.tgt`, the call
    succeeds (the cycle guard and the error paths never fire), given fuel above the rank. -/
theorem cloneRef_ok_of_acyclic (src : Src) (rank : Nat → Nat) (hac : Acyclic src rank) :
    ∀ (f : Nat) (e : Edge) (st : St), src e.tgt ≠ none → rank e.tgt < f →
      (∀ o ∈ st.pending, rank e.tgt < rank o) → ∃ n, (cloneRef f src e st).1 = .ok n := by
  intro f
  induction f with
  | zero => intro e st _ hf; omega
  | succ f ih =>
    intro e st hsrc hf hpend
    have hnp : e.tgt ∉ st.pending := fun hm => by have := hpend _ hm; omega
    have hk : ∀ node k, src e.tgt = some node →
        ∃ ks, (mapSt (cloneRef f src) (node.kids k) (st.push e.tgt)).1 = .ok ks := by
      intro node k hs
      refine mapSt_ok (cloneRef f src) (fun s => s.pending = e.tgt :: st.pending)
        (fun a s hs' => by rw [cloneRef_pending]; exact hs') _ ?_ _ rfl
      intro a ha s hs'
      have hdown := hac.down _ _ _ _ hs ha
      refine ih a s (hac.total _ _ _ _ hs ha) (by omega) ?_
      intro o ho
      rw [hs'] at ho
      simp only [List.mem_cons] at ho
      rcases ho with rfl | ho
      · exact hdown
      · have := hpend o ho; omega
    simp only [cloneRef]
    cases hlk : lk st.map e.tgt with
    | some n =>
      simp only
      cases hkd : e.kind with
      | prim => exact ⟨n, rfl⟩
      | ref => exact ⟨n, rfl⟩
      | rc =>
        simp only
        by_cases hrc : n ∈ st.rcrefs
        · simp only [hrc, if_true]; exact ⟨n, rfl⟩
        · simp only [hrc, if_false, hnp]
          cases hs : src e.tgt with
          | none => exact absurd hs hsrc
          | some node =>
            simp only
            obtain ⟨ks, hks⟩ := hk node .rc hs
            rw [hks]
            exact ⟨n, rfl⟩
    | none =>
      simp only [hnp, if_false]
      cases hs : src e.tgt with
      | none => exact absurd hs hsrc
      | some node =>
        simp only
        obtain ⟨ks, hks⟩ := hk node e.kind hs
        rw [hks]
        exact ⟨_, rfl⟩


/-! ### pages -/

theorem resGet_cons {α : Type} (k' : RKind) (n' : Nat) (v : α) (t : ResTable α) (k : RKind) (n : Nat) :
    resGet (((k', n'), v) :: t) k n = if k' = k ∧ n' = n then some v else resGet t k n := rfl

/-- state of `clone_page` while the operations are processed: new resource table + importer -/
abbrev PSt := ResTable (Nat × List Nat) × St

/-- every entry of the new table is the copy of the entry of the same category and name of the old table -/
def ResInv (src : Src) (old : ResTable Entry) (s : PSt) : Prop :=
  Inv src s.2 ∧ ∀ k name p ks, resGet s.1 k name = some (p, ks) →
    handled k = true ∧ ∃ ent, resGet old k name = some ent ∧ p = ent.payload ∧ Mapped s.2.map ent.kids ks

def ResExt (s s' : PSt) : Prop :=
  Ext s.2 s'.2 ∧ ∀ k name v, resGet s.1 k name = some v → resGet s'.1 k name = some v

/-- the resource an operation names is in the new table (if the old table has it and `deep_clone_op`
    looks at the category) -/
def Covered (old : ResTable Entry) (op : OpM) (s : PSt) : Prop :=
  ∀ k name, op = .use k name → handled k = true → ∀ ent, resGet old k name = some ent →
    ∃ v, resGet s.1 k name = some v

theorem ResExt.refl (s : PSt) : ResExt s s := ⟨Ext.refl _, fun _ _ _ h => h⟩
theorem ResExt.trans {a b c : PSt} (h1 : ResExt a b) (h2 : ResExt b c) : ResExt a c :=
  ⟨h1.1.trans h2.1, fun k n v h => h2.2 k n v (h1.2 k n v h)⟩

theorem ResInv.step {src : Src} {old : ResTable Entry} {s : PSt} (h : ResInv src old s) (st1 : St)
    (hi : Inv src st1) (he : Ext s.2 st1) : ResInv src old (s.1, st1) := by
  refine ⟨hi, ?_⟩
  intro k name p ks hg
  obtain ⟨hh, ent, h1, h2, h3⟩ := h.2 k name p ks hg
  exact ⟨hh, ent, h1, h2, mapped_mono _ _ he.map_ext _ _ h3⟩

theorem cloneOp_spec (src : Src) (f : Nat) (old : ResTable Entry) (op : OpM) (s : PSt)
    (h : ResInv src old s) :
    ResInv src old (cloneOp f src old op s).2 ∧ ResExt s (cloneOp f src old op s).2 ∧
      ∀ u, (cloneOp f src old op s).1 = .ok u → Covered old op (cloneOp f src old op s).2 := by
  cases op with
  | other t =>
    simp only [cloneOp]
    exact ⟨h, ResExt.refl s, by intro _ _ k name hop; cases hop⟩
  | inline kids =>
    simp only [cloneOp]
    have hk := kids_spec src (cloneRef f src) (cloneRef_spec src f) kids s.2 h.1
    have hcov : ∀ (s' : PSt), Covered old (.inline kids) s' := by intro _ k name hop; cases hop
    cases hr : (cloneKids f src kids s.2).1 <;> simp only <;>
      exact ⟨h.step _ hk.1 hk.2.1, ⟨hk.2.1, fun _ _ _ hh => hh⟩, fun _ _ => hcov _⟩
  | use k name =>
    simp only [cloneOp]
    by_cases hh : handled k = true
    · simp only [hh, if_true]
      cases hnew : resGet s.1 k name with
      | some v =>
        simp only
        refine ⟨h, ResExt.refl s, ?_⟩
        intro _ _ k' name' hop _ _ _
        cases hop
        exact ⟨v, hnew⟩
      | none =>
        simp only
        cases hold : resGet old k name with
        | none =>
          simp only
          refine ⟨h, ResExt.refl s, ?_⟩
          intro _ _ k' name' hop _ ent hent
          cases hop
          rw [hold] at hent; cases hent
        | some ent =>
          simp only
          have hk := kids_spec src (cloneRef f src) (cloneRef_spec src f) ent.kids s.2 h.1
          cases hr : (cloneKids f src ent.kids s.2).1 with
          | ok ks =>
            simp only
            refine ⟨⟨hk.1, ?_⟩, ⟨hk.2.1, ?_⟩, ?_⟩
            · intro k' name' p ks' hg
              rw [resGet_cons] at hg
              by_cases heq : k = k' ∧ name = name'
              · simp only [heq, and_self, if_true, Option.some.injEq, Prod.mk.injEq] at hg
                obtain ⟨rfl, rfl⟩ := heq
                obtain ⟨rfl, rfl⟩ := hg
                exact ⟨hh, ent, hold, rfl, hk.2.2 ks hr⟩
              · simp only [heq, if_false] at hg
                obtain ⟨hh', ent', h1, h2, h3⟩ := h.2 k' name' p ks' hg
                exact ⟨hh', ent', h1, h2, mapped_mono _ _ hk.2.1.map_ext _ _ h3⟩
            · intro k' name' v hg
              rw [resGet_cons]
              by_cases heq : k = k' ∧ name = name'
              · obtain ⟨rfl, rfl⟩ := heq
                rw [hnew] at hg; cases hg
              · simp only [heq, if_false]; exact hg
            · intro _ _ k' name' hop _ _ _
              cases hop
              exact ⟨(ent.payload, ks), by rw [resGet_cons]; simp⟩
          | err => simp only; exact ⟨h.step _ hk.1 hk.2.1, ⟨hk.2.1, fun _ _ _ hg => hg⟩, by intro u hu; cases hu⟩
          | panic => simp only; exact ⟨h.step _ hk.1 hk.2.1, ⟨hk.2.1, fun _ _ _ hg => hg⟩, by intro u hu; cases hu⟩
          | oof => simp only; exact ⟨h.step _ hk.1 hk.2.1, ⟨hk.2.1, fun _ _ _ hg => hg⟩, by intro u hu; cases hu⟩
    · simp only [hh]
      refine ⟨h, ResExt.refl s, ?_⟩
      intro _ _ k' name' hop hh' _ _
      cases hop
      exact absurd hh' hh

theorem cloneOps_spec (src : Src) (f : Nat) (old : ResTable Entry) (ops : List OpM) (st : St) (h : Inv src st) :
    ResInv src old (cloneOps f src old ops st).2 ∧ Ext st (cloneOps f src old ops st).2.2 ∧
      ∀ us, (cloneOps f src old ops st).1 = .ok us → ∀ op ∈ ops, Covered old op (cloneOps f src old ops st).2 := by
  have h0 : ResInv src old (([] : ResTable (Nat × List Nat)), st) :=
    ⟨h, by intro k name p ks hg; simp [resGet] at hg⟩
  have := mapSt_spec (cloneOp f src old) (ResInv src old) ResExt (fun op _ s => Covered old op s)
    (fun ops _ s => ∀ op ∈ ops, Covered old op s) ResExt.refl (fun _ _ _ => ResExt.trans)
    (fun _ _ hop => by simp at hop)
    (fun a _ as _ s s' hq hr hl op hop => by
      simp only [List.mem_cons] at hop
      rcases hop with rfl | hop
      · intro k name e1 e2 ent e3
        obtain ⟨v, hv⟩ := hq k name e1 e2 ent e3
        exact ⟨v, hr.2 _ _ _ hv⟩
      · exact hl op hop)
    ops (fun a _ s hs => cloneOp_spec src f old a s hs) ([], st) h0
  exact ⟨this.1, this.2.1.1, this.2.2⟩

/-- what a successfully cloned page looks like -/
structure PageOK (p : PageM) (out : PageOut) (st' : St) : Prop where
  /-- every resource of a handled category that an operation names and the old table has is in the new table,
      as a copy of the old entry -/
  cover : ∀ k name, OpM.use k name ∈ p.ops → handled k = true → ∀ ent, resGet p.res k name = some ent →
    ∃ ks, resGet out.res k name = some (ent.payload, ks) ∧ Mapped st'.map ent.kids ks
  /-- and nothing else is -/
  only : ∀ k name pl ks, resGet out.res k name = some (pl, ks) → handled k = true ∧
    ∃ ent, resGet p.res k name = some ent ∧ pl = ent.payload ∧ Mapped st'.map ent.kids ks
  rest : Mapped st'.map p.rest out.rest

theorem clonePage_spec (src : Src) (f : Nat) (p : PageM) (st : St) (h : Inv src st) :
    Inv src (clonePage f src p st).2 ∧ Ext st (clonePage f src p st).2 ∧
      ∀ out, (clonePage f src p st).1 = .ok out → PageOK p out (clonePage f src p st).2 := by
  have ho := cloneOps_spec src f p.res p.ops st h
  have hk := kids_spec src (cloneRef f src) (cloneRef_spec src f) p.rest (cloneOps f src p.res p.ops st).2.2 ho.1.1
  simp only [clonePage]
  cases hr : (cloneOps f src p.res p.ops st).1 with
  | ok us =>
    simp only
    cases hr2 : (cloneKids f src p.rest (cloneOps f src p.res p.ops st).2.2).1 with
    | ok ks =>
      simp only
      refine ⟨hk.1, ho.2.1.trans hk.2.1, ?_⟩
      intro out hout
      simp only [Out.ok.injEq] at hout
      subst hout
      refine ⟨?_, ?_, hk.2.2 ks hr2⟩
      · intro k name hop hh ent hent
        obtain ⟨v, hv⟩ := ho.2.2 us hr _ hop k name rfl hh ent hent
        obtain ⟨pl, ks'⟩ := v
        obtain ⟨_, ent', h1, h2, h3⟩ := ho.1.2 k name pl ks' hv
        rw [hent] at h1; cases h1
        exact ⟨ks', by rw [hv, h2], mapped_mono _ _ hk.2.1.map_ext _ _ h3⟩
      · intro k name pl ks' hv
        obtain ⟨hh, ent', h1, h2, h3⟩ := ho.1.2 k name pl ks' hv
        exact ⟨hh, ent', h1, h2, mapped_mono _ _ hk.2.1.map_ext _ _ h3⟩
    | err => simp only; exact ⟨hk.1, ho.2.1.trans hk.2.1, by intro _ hh; cases hh⟩
    | panic => simp only; exact ⟨hk.1, ho.2.1.trans hk.2.1, by intro _ hh; cases hh⟩
    | oof => simp only; exact ⟨hk.1, ho.2.1.trans hk.2.1, by intro _ hh; cases hh⟩
  | err => simp only; exact ⟨ho.1.1, ho.2.1, by intro _ hh; cases hh⟩
  | panic => simp only; exact ⟨ho.1.1, ho.2.1, by intro _ hh; cases hh⟩
  | oof => simp only; exact ⟨ho.1.1, ho.2.1, by intro _ hh; cases hh⟩


theorem clonePages_spec (src : Src) (f : Nat) : ∀ (ps : List PageM) (st : St), Inv src st →
    Inv src (clonePages f src ps st).2 ∧ Ext st (clonePages f src ps st).2 := by
  intro ps
  induction ps with
  | nil => intro st h; exact ⟨h, Ext.refl st⟩
  | cons p ps ih =>
    intro st h
    simp only [clonePages]
    have h1 := clonePage_spec src f p st h
    have h2 := ih _ h1.1
    exact ⟨h2.1, h1.2.1.trans h2.2⟩

theorem clonePages_append (src : Src) (f : Nat) : ∀ (ps qs : List PageM) (st : St),
    (clonePages f src (ps ++ qs) st).2 = (clonePages f src qs (clonePages f src ps st).2).2 := by
  intro ps
  induction ps with
  | nil => intro qs st; rfl
  | cons p ps ih => intro qs st; simp only [List.cons_append, clonePages]; exact ih qs _

/-! ### pages: outcomes -/

theorem cloneOp_ne_panic (src : Src) (f : Nat) (old : ResTable Entry) (op : OpM) (s : PSt) :
    (cloneOp f src old op s).1 ≠ .panic := by
  have hk : ∀ l st, (cloneKids f src l st).1 ≠ .panic := fun l st => mapSt_ne_panic _ (cloneRef_ne_panic src f) l st
  cases op with
  | other t => simp [cloneOp]
  | inline kids =>
    simp only [cloneOp]
    split
    · simp
    · simp
    · rename_i hh; exact absurd hh (hk _ _)
    · simp
  | use k name =>
    simp only [cloneOp]
    split
    · split
      · simp
      · split
        · simp
        · split
          · simp
          · simp
          · rename_i hh; exact absurd hh (hk _ _)
          · simp
    · simp

theorem clonePage_ne_panic (src : Src) (f : Nat) (p : PageM) (st : St) : (clonePage f src p st).1 ≠ .panic := by
  simp only [clonePage]
  split
  · split
    · simp
    · simp
    · rename_i hh; exact absurd hh (mapSt_ne_panic _ (cloneRef_ne_panic src f) _ _)
    · simp
  · simp
  · rename_i hh; exact absurd hh (mapSt_ne_panic _ (cloneOp_ne_panic src f p.res) _ _)
  · simp

theorem cloneKids_pending (src : Src) (f : Nat) (l : List Edge) (st : St) :
    (cloneKids f src l st).2.pending = st.pending :=
  mapSt_proj (cloneRef f src) St.pending (cloneRef_pending src f) l st

theorem cloneOp_pending (src : Src) (f : Nat) (old : ResTable Entry) (op : OpM) (s : PSt) :
    (cloneOp f src old op s).2.2.pending = s.2.pending := by
  cases op with
  | other t => rfl
  | inline kids => simp only [cloneOp]; split <;> exact cloneKids_pending src f _ _
  | use k name =>
    simp only [cloneOp]
    split
    · split
      · rfl
      · split
        · rfl
        · split <;> exact cloneKids_pending src f _ _
    · rfl

theorem cloneOps_pending (src : Src) (f : Nat) (old : ResTable Entry) (ops : List OpM) (st : St) :
    (cloneOps f src old ops st).2.2.pending = st.pending :=
  mapSt_proj (cloneOp f src old) (fun s => s.2.pending) (cloneOp_pending src f old) ops ([], st)

theorem clonePage_pending (src : Src) (f : Nat) (p : PageM) (st : St) :
    (clonePage f src p st).2.pending = st.pending := by
  simp only [clonePage]
  split
  · split <;> (rw [cloneKids_pending, cloneOps_pending])
  · exact cloneOps_pending src f _ _ _
  · exact cloneOps_pending src f _ _ _
  · exact cloneOps_pending src f _ _ _

theorem clonePages_pending (src : Src) (f : Nat) : ∀ (ps : List PageM) (st : St),
    (clonePages f src ps st).2.pending = st.pending := by
  intro ps
  induction ps with
  | nil => intro st; rfl
  | cons p ps ih => intro st; simp only [clonePages]; rw [ih, clonePage_pending]

/-- fuel for a whole page: more than the number of objects of the source is enough -/
theorem clonePage_ne_oof (src : Src) (support : List Nat) (hsup : ∀ o, src o ≠ none → o ∈ support)
    (f : Nat) (hf : support.length < f) (p : PageM) (st : St) (hp : st.pending = []) :
    (clonePage f src p st).1 ≠ .oof := by
  have href : ∀ (e : Edge) (s : St), s.pending = [] → (cloneRef f src e s).1 ≠ .oof := by
    intro e s hs
    exact cloneRef_ne_oof src support hsup f e s (by simp [hs]) (by simp [hs]) (by simp [hs]; omega)
  have hkids : ∀ (l : List Edge) (s : St), s.pending = [] → (cloneKids f src l s).1 ≠ .oof := by
    intro l s hs
    exact mapSt_ne_oof (cloneRef f src) (fun s => s.pending = [])
      (fun a s hs' => by rw [cloneRef_pending]; exact hs') l (fun a _ s hs' => href a s hs') s hs
  have hop : ∀ (op : OpM) (s : PSt), s.2.pending = [] → (cloneOp f src p.res op s).1 ≠ .oof := by
    intro op s hs
    cases op with
    | other t => simp [cloneOp]
    | inline kids =>
      simp only [cloneOp]
      split
      · simp
      · simp
      · simp
      · rename_i hh; exact absurd hh (hkids _ _ hs)
    | use k name =>
      simp only [cloneOp]
      split
      · split
        · simp
        · split
          · simp
          · split
            · simp
            · simp
            · simp
            · rename_i hh; exact absurd hh (hkids _ _ hs)
      · simp
  have hops : (cloneOps f src p.res p.ops st).1 ≠ .oof :=
    mapSt_ne_oof (cloneOp f src p.res) (fun s => s.2.pending = [])
      (fun a s hs' => by rw [cloneOp_pending]; exact hs') p.ops (fun a _ s hs' => hop a s hs') ([], st) hp
  simp only [clonePage]
  split
  · split
    · simp
    · simp
    · simp
    · rename_i hh
      exact absurd hh (hkids _ _ (by rw [cloneOps_pending]; exact hp))
  · simp
  · simp
  · rename_i hh; exact absurd hh hops

/-- every reference a page holds outside its content stream's plain operations -/
def pageEdges (p : PageM) : List Edge :=
  (p.res.flatMap fun r => r.2.kids) ++ (p.ops.flatMap fun op => match op with | .inline ks => ks | _ => []) ++ p.rest

theorem resGet_mem {α : Type} : ∀ (t : ResTable α) (k : RKind) (n : Nat) (v : α), resGet t k n = some v →
    ((k, n), v) ∈ t := by
  intro t
  induction t with
  | nil => intro k n v h; simp [resGet] at h
  | cons p t ih =>
    intro k n v h
    obtain ⟨⟨k', n'⟩, v'⟩ := p
    rw [resGet_cons] at h
    by_cases heq : k' = k ∧ n' = n
    · simp only [heq, and_self, if_true, Option.some.injEq] at h
      obtain ⟨rfl, rfl⟩ := heq
      subst h; simp
    · simp only [heq, if_false] at h
      exact List.mem_cons_of_mem _ (ih k n v h)

/-- **success** for a page over an acyclic source without dangling references -/
theorem clonePage_ok_of_acyclic (src : Src) (rank : Nat → Nat) (hac : Acyclic src rank) (f : Nat) (p : PageM)
    (st : St) (hp : st.pending = []) (hedges : ∀ e ∈ pageEdges p, src e.tgt ≠ none ∧ rank e.tgt < f) :
    ∃ out, (clonePage f src p st).1 = .ok out := by
  have hkids : ∀ (l : List Edge), (∀ e ∈ l, e ∈ pageEdges p) → ∀ (s : St), s.pending = [] →
      ∃ ks, (cloneKids f src l s).1 = .ok ks := by
    intro l hl s hs
    refine mapSt_ok (cloneRef f src) (fun s => s.pending = [])
      (fun a s hs' => by rw [cloneRef_pending]; exact hs') l ?_ s hs
    intro a ha s' hs'
    have := hedges a (hl a ha)
    exact cloneRef_ok_of_acyclic src rank hac f a s' this.1 this.2 (by simp [hs'])
  have hop : ∀ op ∈ p.ops, ∀ (s : PSt), s.2.pending = [] → ∃ u, (cloneOp f src p.res op s).1 = .ok u := by
    intro op hopm s hs
    cases op with
    | other t => exact ⟨(), rfl⟩
    | inline kids =>
      have hl : ∀ e ∈ kids, e ∈ pageEdges p := by
        intro e he
        simp only [pageEdges, List.mem_append, List.mem_flatMap]
        exact Or.inl (Or.inr ⟨_, hopm, he⟩)
      obtain ⟨ks, hks⟩ := hkids kids hl s.2 hs
      simp only [cloneOp, hks]
      exact ⟨(), trivial⟩
    | use k name =>
      simp only [cloneOp]
      split
      · split
        · exact ⟨(), rfl⟩
        · split
          · exact ⟨(), rfl⟩
          · rename_i ent hent
            have hl : ∀ e ∈ ent.kids, e ∈ pageEdges p := by
              intro e he
              simp only [pageEdges, List.mem_append, List.mem_flatMap]
              exact Or.inl (Or.inl ⟨_, resGet_mem _ _ _ _ hent, he⟩)
            obtain ⟨ks, hks⟩ := hkids ent.kids hl s.2 hs
            simp only [hks]
            exact ⟨(), trivial⟩
      · exact ⟨(), rfl⟩
  obtain ⟨us, hus⟩ := mapSt_ok (cloneOp f src p.res) (fun s => s.2.pending = [])
    (fun a s hs' => by rw [cloneOp_pending]; exact hs') p.ops hop ([], st) hp
  have hrest : ∀ e ∈ p.rest, e ∈ pageEdges p := by
    intro e he
    simp only [pageEdges, List.mem_append]
    exact Or.inr he
  obtain ⟨ks, hks⟩ := hkids p.rest hrest (cloneOps f src p.res p.ops st).2.2 (by rw [cloneOps_pending]; exact hp)
  have hus' : (cloneOps f src p.res p.ops st).1 = .ok us := hus
  simp only [clonePage, hus', hks]
  exact ⟨_, rfl⟩

/-! ### the code before the fixes -/

/-- D41: an object whose first reference leads back to itself is cloned again and again -/
theorem Old.selfloop_diverges (src : Src) (r : Nat) (node : Node) (hs : src r = some node)
    (hk : ∀ k, ∃ k' rest, node.kids k = ⟨k', r⟩ :: rest) :
    ∀ (f : Nat) (k : Kind) (st : St), lk st.map r = none → (Old.cloneRef f src ⟨k, r⟩ st).1 = .oof := by
  intro f
  induction f with
  | zero => intro k st _; rfl
  | succ f ih =>
    intro k st hl
    obtain ⟨k', rest, hkids⟩ := hk k
    have h1 := ih k' st hl
    simp only [Old.cloneRef, hl, hs, hkids, mapSt, h1]


theorem lookup_some_mem : ∀ (nodes : List (Nat × Node)) (o : Nat) (node : Node),
    nodes.lookup o = some node → (o, node) ∈ nodes := by
  intro nodes
  induction nodes with
  | nil => intro o node h; simp at h
  | cons p nodes ih =>
    intro o node h
    obtain ⟨k, v⟩ := p
    rw [List.lookup_cons] at h
    cases hb : (o == k) with
    | true =>
      simp only [hb, Option.some.injEq] at h
      have : o = k := by simpa using hb
      subst this; subst h; simp
    | false =>
      simp only [hb] at h
      exact List.mem_cons_of_mem _ (ih o node h)

theorem acyclic_of_check (nodes : List (Nat × Node)) (rank : Nat → Nat) (h : acyclicCheck nodes rank = true) :
    Acyclic (srcOf nodes) rank := by
  have key : ∀ o node k e, srcOf nodes o = some node → e ∈ node.kids k →
      rank e.tgt < rank o ∧ (nodes.lookup e.tgt).isSome = true := by
    intro o node k e hs he
    have hm := lookup_some_mem nodes o node hs
    simp only [acyclicCheck, List.all_eq_true] at h
    have h1 := h (o, node) hm
    have he' : e ∈ node.kidsPrim ++ node.kidsTyped := by
      cases k <;> simp only [Node.kids] at he <;> simp [he]
    have h2 := h1 e he'
    simp only [Bool.and_eq_true, decide_eq_true_eq] at h2
    exact h2
  constructor
  · intro o node k e hs he; exact (key o node k e hs he).1
  · intro o node k e hs he
    have := (key o node k e hs he).2
    intro hn
    simp only [srcOf] at hn
    rw [hn] at this
    simp at this


/-! ### the answer does not depend on the fuel -/

theorem mapSt_congr_of_ne_oof {σ α β : Type} (g g' : α → σ → Out β × σ)
    (h : ∀ a s, (g a s).1 ≠ .oof → g' a s = g a s) :
    ∀ (l : List α) (s : σ), (mapSt g l s).1 ≠ .oof → mapSt g' l s = mapSt g l s := by
  intro l
  induction l with
  | nil => intro s _; rfl
  | cons a as ih =>
    intro s hne
    have key : (g a s).1 ≠ .oof := by
      intro h0; apply hne; simp only [mapSt, h0]
    have e1 := h a s key
    cases h1 : (g a s).1 with
    | ok b =>
      have key2 : (mapSt g as (g a s).2).1 ≠ .oof := by
        intro h0; apply hne; simp only [mapSt, h1, h0]
      have e2 := ih _ key2
      simp only [mapSt, e1, e2]
    | err => simp only [mapSt, e1, h1]
    | panic => simp only [mapSt, e1, h1]
    | oof => exact absurd h1 key

/-- the answer does not depend on the fuel once there is enough of it -/
theorem cloneRef_fuel_mono (src : Src) : ∀ (f : Nat) (e : Edge) (st : St),
    (cloneRef f src e st).1 ≠ .oof → cloneRef (f + 1) src e st = cloneRef f src e st := by
  intro f
  induction f with
  | zero => intro e st h; exact absurd rfl h
  | succ f ih =>
    intro e st hne
    have hm : ∀ (l : List Edge) (s : St), (mapSt (cloneRef f src) l s).1 ≠ .oof →
        mapSt (cloneRef (f + 1) src) l s = mapSt (cloneRef f src) l s :=
      mapSt_congr_of_ne_oof (cloneRef f src) (cloneRef (f + 1) src) (fun a s h => ih a s h)
    -- whenever the kids' traversal is reached, it did not run out of fuel
    rw [cloneRef.eq_2] at hne
    rw [cloneRef.eq_2, cloneRef.eq_2 _ _ _ f]
    cases hlk : lk st.map e.tgt with
    | some n =>
      simp only [hlk] at hne ⊢
      cases hkd : e.kind with
      | prim => rfl
      | ref => rfl
      | rc =>
        simp only [hkd] at hne ⊢
        by_cases hrc : n ∈ st.rcrefs
        · simp only [hrc, if_true]
        · simp only [hrc, if_false] at hne ⊢
          by_cases hp : e.tgt ∈ st.pending
          · simp only [hp, if_true]
          · simp only [hp, if_false] at hne ⊢
            cases hs : src e.tgt with
            | none => rfl
            | some node =>
              simp only [hs] at hne ⊢
              have hno : (mapSt (cloneRef f src) (node.kids .rc) (st.push e.tgt)).1 ≠ .oof := by
                intro h0; apply hne; simp only [h0]
              rw [hm _ _ hno]
    | none =>
      simp only [hlk] at hne ⊢
      by_cases hp : e.tgt ∈ st.pending
      · simp only [hp, if_true]
      · simp only [hp, if_false] at hne ⊢
        cases hs : src e.tgt with
        | none => rfl
        | some node =>
          simp only [hs] at hne ⊢
          have hno : (mapSt (cloneRef f src) (node.kids e.kind) (st.push e.tgt)).1 ≠ .oof := by
            intro h0; apply hne; simp only [h0]
          rw [hm _ _ hno]


theorem cloneRef_fuel_le (src : Src) (f f' : Nat) (hle : f ≤ f') (e : Edge) (st : St)
    (h : (cloneRef f src e st).1 ≠ .oof) : cloneRef f' src e st = cloneRef f src e st := by
  induction hle with
  | refl => rfl
  | step _ ih => rw [cloneRef_fuel_mono src _ e st (by rw [ih]; exact h), ih]

theorem cloneKids_fuel_mono (src : Src) (f : Nat) (l : List Edge) (st : St)
    (h : (cloneKids f src l st).1 ≠ .oof) : cloneKids (f + 1) src l st = cloneKids f src l st :=
  mapSt_congr_of_ne_oof (cloneRef f src) (cloneRef (f + 1) src) (fun a s hh => cloneRef_fuel_mono src f a s hh) l st h

theorem cloneOp_fuel_mono (src : Src) (f : Nat) (old : ResTable Entry) (op : OpM) (s : PSt)
    (h : (cloneOp f src old op s).1 ≠ .oof) : cloneOp (f + 1) src old op s = cloneOp f src old op s := by
  cases op with
  | other t => rfl
  | inline kids =>
    simp only [cloneOp] at h ⊢
    have hno : (cloneKids f src kids s.2).1 ≠ .oof := by intro h0; apply h; simp only [h0]
    rw [cloneKids_fuel_mono src f kids s.2 hno]
  | use k name =>
    simp only [cloneOp] at h ⊢
    by_cases hh : handled k = true
    · simp only [hh, if_true] at h ⊢
      cases hnew : resGet s.1 k name with
      | some v => rfl
      | none =>
        simp only [hnew] at h ⊢
        cases hold : resGet old k name with
        | none => rfl
        | some ent =>
          simp only [hold] at h ⊢
          have hno : (cloneKids f src ent.kids s.2).1 ≠ .oof := by intro h0; apply h; simp only [h0]
          rw [cloneKids_fuel_mono src f ent.kids s.2 hno]
    · simp [hh]

theorem clonePage_fuel_mono (src : Src) (f : Nat) (p : PageM) (st : St)
    (h : (clonePage f src p st).1 ≠ .oof) : clonePage (f + 1) src p st = clonePage f src p st := by
  simp only [clonePage] at h ⊢
  have hops : (cloneOps f src p.res p.ops st).1 ≠ .oof := by intro h0; apply h; simp only [h0]
  have e1 : cloneOps (f + 1) src p.res p.ops st = cloneOps f src p.res p.ops st :=
    mapSt_congr_of_ne_oof (cloneOp f src p.res) (cloneOp (f + 1) src p.res)
      (fun a s hh => cloneOp_fuel_mono src f p.res a s hh) p.ops ([], st) hops
  rw [e1]
  cases hr : (cloneOps f src p.res p.ops st).1 with
  | ok us =>
    simp only [hr] at h ⊢
    have hk : (cloneKids f src p.rest (cloneOps f src p.res p.ops st).2.2).1 ≠ .oof := by
      intro h0; apply h; simp only [h0]
    rw [cloneKids_fuel_mono src f p.rest _ hk]
  | err => rfl
  | panic => rfl
  | oof => exact absurd hr hops

/-! ### pages in the page tree -/

/-- what a successfully cloned page of the tree looks like: the page of `PageOK` over the *effective* resource
    dictionary, with the effective boxes as its own -/
structure PageTOK (pt : PageT) (out : PageOutT) (st' : St) : Prop where
  res : ∃ r, nearest pt.resChain = some r ∧ PageOK ⟨pt.ops, r, pt.rest⟩ ⟨out.res, out.rest⟩ st'
  media : nearest pt.media = some out.media
  crop : out.crop = (nearest pt.crop).getD out.media
  trim : out.trim = pt.trim
  rotate : out.rotate = pt.ownRotate

theorem clonePageT_spec (src : Src) (f : Nat) (pt : PageT) (st : St) (h : Inv src st) :
    Inv src (clonePageT f src pt st).2 ∧ Ext st (clonePageT f src pt st).2 ∧
      ∀ out, (clonePageT f src pt st).1 = .ok out → PageTOK pt out (clonePageT f src pt st).2 := by
  simp only [clonePageT]
  cases hres : nearest pt.resChain with
  | none => simp only; exact ⟨h, Ext.refl st, by intro _ hh; cases hh⟩
  | some res =>
    simp only
    have ho := cloneOps_spec src f res pt.ops st h
    have hk := kids_spec src (cloneRef f src) (cloneRef_spec src f) pt.rest (cloneOps f src res pt.ops st).2.2 ho.1.1
    cases hr : (cloneOps f src res pt.ops st).1 with
    | ok us =>
      simp only
      cases hm : nearest pt.media with
      | none => simp only; exact ⟨ho.1.1, ho.2.1, by intro _ hh; cases hh⟩
      | some m =>
        simp only
        cases hr2 : (cloneKids f src pt.rest (cloneOps f src res pt.ops st).2.2).1 with
        | ok ks =>
          simp only
          refine ⟨hk.1, ho.2.1.trans hk.2.1, ?_⟩
          intro out hout
          simp only [Out.ok.injEq] at hout
          subst hout
          refine ⟨⟨res, hres, ?_, ?_, hk.2.2 ks hr2⟩, hm, rfl, rfl, rfl⟩
          · intro k name hop hh ent hent
            obtain ⟨v, hv⟩ := ho.2.2 us hr _ hop k name rfl hh ent hent
            obtain ⟨pl, ks'⟩ := v
            obtain ⟨_, ent', h1, h2, h3⟩ := ho.1.2 k name pl ks' hv
            rw [hent] at h1; cases h1
            exact ⟨ks', by rw [hv, h2], mapped_mono _ _ hk.2.1.map_ext _ _ h3⟩
          · intro k name pl ks' hv
            obtain ⟨hh, ent', h1, h2, h3⟩ := ho.1.2 k name pl ks' hv
            exact ⟨hh, ent', h1, h2, mapped_mono _ _ hk.2.1.map_ext _ _ h3⟩
        | err => simp only; exact ⟨hk.1, ho.2.1.trans hk.2.1, by intro _ hh; cases hh⟩
        | panic => simp only; exact ⟨hk.1, ho.2.1.trans hk.2.1, by intro _ hh; cases hh⟩
        | oof => simp only; exact ⟨hk.1, ho.2.1.trans hk.2.1, by intro _ hh; cases hh⟩
    | err => simp only; exact ⟨ho.1.1, ho.2.1, by intro _ hh; cases hh⟩
    | panic => simp only; exact ⟨ho.1.1, ho.2.1, by intro _ hh; cases hh⟩
    | oof => simp only; exact ⟨ho.1.1, ho.2.1, by intro _ hh; cases hh⟩

theorem clonePagesT_spec (src : Src) (f : Nat) : ∀ (ps : List PageT) (st : St), Inv src st →
    Inv src (clonePagesT f src ps st).2 ∧ Ext st (clonePagesT f src ps st).2 := by
  intro ps
  induction ps with
  | nil => intro st h; exact ⟨h, Ext.refl st⟩
  | cons p ps ih =>
    intro st h
    simp only [clonePagesT]
    have h1 := clonePageT_spec src f p st h
    have h2 := ih _ h1.1
    exact ⟨h2.1, h1.2.1.trans h2.2⟩

theorem clonePageT_ne_panic (src : Src) (f : Nat) (pt : PageT) (st : St) : (clonePageT f src pt st).1 ≠ .panic := by
  simp only [clonePageT]
  split
  · simp
  · split
    · split
      · simp
      · split
        · simp
        · simp
        · rename_i hh; exact absurd hh (mapSt_ne_panic _ (cloneRef_ne_panic src f) _ _)
        · simp
    · simp
    · rename_i hh; exact absurd hh (mapSt_ne_panic _ (cloneOp_ne_panic src f _) _ _)
    · simp

theorem nearest_cons_some {α : Type} (v : α) (c : List (Option α)) : nearest (some v :: c) = some v := rfl
theorem nearest_cons_none {α : Type} (c : List (Option α)) : nearest (none :: c) = nearest c := rfl

/-- the value `nearest` returns is an entry of the chain, and every entry before it is absent -/
theorem nearest_spec {α : Type} : ∀ (c : List (Option α)) (v : α), nearest c = some v →
    ∃ i : Nat, c[i]? = some (some v) ∧ ∀ j : Nat, j < i → c[j]? = some none := by
  intro c
  induction c with
  | nil => intro v h; cases h
  | cons x c ih =>
    intro v h
    cases x with
    | some w =>
      simp only [nearest_cons_some, Option.some.injEq] at h
      subst h
      exact ⟨0, rfl, by intro j hj; omega⟩
    | none =>
      rw [nearest_cons_none] at h
      obtain ⟨i, hi, hlt⟩ := ih v h
      refine ⟨i + 1, by simpa using hi, ?_⟩
      intro j hj
      cases j with
      | zero => rfl
      | succ j => simpa using hlt j (by omega)

end Import
