import PdfModel.Spec.Import

/-! Invariants of the importer's state and the specification of `cloneRef` / `mapSt` they support. -/

namespace Import

@[simp] theorem lk_nil (a : Nat) : lk [] a = none := rfl
theorem lk_cons (k v : Nat) (m : List (Nat × Nat)) (a : Nat) :
    lk ((k, v) :: m) a = if a = k then some v else lk m a := rfl

theorem lk_none_not_mem : ∀ (m : List (Nat × Nat)) (a : Nat), lk m a = none → a ∉ m.map Prod.fst := by
  intro m
  induction m with
  | nil => intro a _; simp
  | cons p m ih =>
    intro a h
    obtain ⟨k, v⟩ := p
    rw [lk_cons] at h
    by_cases hk : a = k
    · simp [hk] at h
    · simp only [hk, if_false] at h
      simp only [List.map_cons, List.mem_cons, not_or]
      exact ⟨hk, ih a h⟩

theorem lk_some_mem : ∀ (m : List (Nat × Nat)) (a n : Nat), lk m a = some n → (a, n) ∈ m := by
  intro m
  induction m with
  | nil => intro a n h; simp at h
  | cons p m ih =>
    intro a n h
    obtain ⟨k, v⟩ := p
    rw [lk_cons] at h
    by_cases hk : a = k
    · simp only [hk, if_true, Option.some.injEq] at h; subst h; subst hk; simp
    · simp only [hk, if_false] at h
      exact List.mem_cons_of_mem _ (ih a n h)

/-! ### the generic traversal -/

theorem mapSt_nil {σ α β : Type} (g : α → σ → Out β × σ) (s : σ) : mapSt g [] s = (.ok [], s) := rfl

/-- Induction principle for `mapSt`: an invariant `I`, a pre-order `R` on states and a result property `Q`
    that is stable under `R` are carried through the traversal, whatever its outcome. -/
theorem mapSt_spec {σ α β : Type} (g : α → σ → Out β × σ) (I : σ → Prop) (R : σ → σ → Prop)
    (Q : α → β → σ → Prop) (QL : List α → List β → σ → Prop)
    (hrefl : ∀ s, R s s) (htrans : ∀ a b c, R a b → R b c → R a c)
    (hQLnil : ∀ s, QL [] [] s)
    (hQLcons : ∀ a b as bs s s', Q a b s → R s s' → QL as bs s' → QL (a :: as) (b :: bs) s')
    (l : List α)
    (hg : ∀ a ∈ l, ∀ s, I s → I (g a s).2 ∧ R s (g a s).2 ∧ ∀ b, (g a s).1 = .ok b → Q a b (g a s).2) :
    ∀ s, I s → I (mapSt g l s).2 ∧ R s (mapSt g l s).2 ∧
      ∀ bs, (mapSt g l s).1 = .ok bs → QL l bs (mapSt g l s).2 := by
  induction l with
  | nil =>
    intro s hs
    refine ⟨hs, hrefl s, ?_⟩
    intro bs h
    simp only [mapSt_nil, Out.ok.injEq] at h
    subst h
    exact hQLnil s
  | cons a as ih =>
    intro s hs
    have ha := hg a (by simp) s hs
    have ih' := ih (fun x hx => hg x (by simp [hx]))
    simp only [mapSt]
    cases h1 : (g a s).1 with
    | ok b =>
      simp only
      have hr := ih' (g a s).2 ha.1
      cases h2 : (mapSt g as (g a s).2).1 with
      | ok bs =>
        simp only
        refine ⟨hr.1, htrans _ _ _ ha.2.1 hr.2.1, ?_⟩
        intro bs' hbs'
        simp only [Out.ok.injEq] at hbs'
        subst hbs'
        exact hQLcons a b as bs _ _ (ha.2.2 b h1) hr.2.1 (hr.2.2 bs h2)
      | err => simp only; exact ⟨hr.1, htrans _ _ _ ha.2.1 hr.2.1, by intro bs' h; simp at h⟩
      | panic => simp only; exact ⟨hr.1, htrans _ _ _ ha.2.1 hr.2.1, by intro bs' h; simp at h⟩
      | oof => simp only; exact ⟨hr.1, htrans _ _ _ ha.2.1 hr.2.1, by intro bs' h; simp at h⟩
    | err => simp only; exact ⟨ha.1, ha.2.1, by intro bs' h; simp at h⟩
    | panic => simp only; exact ⟨ha.1, ha.2.1, by intro bs' h; simp at h⟩
    | oof => simp only; exact ⟨ha.1, ha.2.1, by intro bs' h; simp at h⟩


/-! ### the invariant -/

theorem mapped_mono (m m' : List (Nat × Nat)) (h : ∀ o n, lk m o = some n → lk m' o = some n) :
    ∀ (es : List Edge) (ks : List Nat), Mapped m es ks → Mapped m' es ks := by
  intro es
  induction es with
  | nil => intro ks hk; cases ks <;> simp_all [Mapped]
  | cons e es ih =>
    intro ks hk
    cases ks with
    | nil => simp [Mapped] at hk
    | cons k ks => exact ⟨h _ _ hk.1, ih ks hk.2⟩

theorem mapped_mem (m : List (Nat × Nat)) : ∀ (es : List Edge) (ks : List Nat), Mapped m es ks →
    ∀ k ∈ ks, ∃ e ∈ es, lk m e.tgt = some k := by
  intro es
  induction es with
  | nil => intro ks hk k hkm; cases ks <;> simp_all [Mapped]
  | cons e es ih =>
    intro ks hk k hkm
    cases ks with
    | nil => simp at hkm
    | cons k' ks =>
      simp only [List.mem_cons] at hkm
      rcases hkm with rfl | hkm
      · exact ⟨e, by simp, hk.1⟩
      · obtain ⟨e', he', hl⟩ := ih ks hk.2 k hkm
        exact ⟨e', by simp [he'], hl⟩

theorem mapped_length (m : List (Nat × Nat)) : ∀ (es : List Edge) (ks : List Nat), Mapped m es ks →
    ks.length = es.length := by
  intro es
  induction es with
  | nil => intro ks hk; cases ks <;> simp_all [Mapped]
  | cons e es ih =>
    intro ks hk
    cases ks with
    | nil => simp [Mapped] at hk
    | cons k ks => simp [ih ks hk.2]

/-- what holds of every state the importer can reach -/
structure Inv (src : Src) (st : St) : Prop where
  vals_lt : ∀ o n, lk st.map o = some n → n < st.next
  ids_lt : ∀ ob ∈ st.objs, ob.id < st.next
  inj : ∀ o o' n, lk st.map o = some n → lk st.map o' = some n → o = o'
  map_obj : ∀ o n, lk st.map o = some n → ∃ ob ∈ st.objs, ob.id = n
  obj_iso : ∀ ob ∈ st.objs, ∃ o node k, src o = some node ∧ lk st.map o = some ob.id ∧
      ob.payload = node.payload ∧ Mapped st.map (node.kids k) ob.kids
  keys_nodup : (st.map.map Prod.fst).Nodup
  ids_eq : st.objs.map (·.id) = st.map.map Prod.snd
  ids_nodup : (st.objs.map (·.id)).Nodup
  rc_sub : ∀ n ∈ st.rcrefs, ∃ o, lk st.map o = some n

/-- how a call changes the state -/
structure Ext (st st' : St) : Prop where
  map_ext : ∀ o n, lk st.map o = some n → lk st'.map o = some n
  pend_eq : st'.pending = st.pending
  pend_keep : ∀ o ∈ st.pending, lk st'.map o = lk st.map o
  next_le : st.next ≤ st'.next
  rc_ext : ∀ n ∈ st.rcrefs, n ∈ st'.rcrefs
  objs_ext : ∀ ob ∈ st.objs, ob ∈ st'.objs

theorem Ext.refl (st : St) : Ext st st :=
  ⟨fun _ _ h => h, rfl, fun _ _ => rfl, Nat.le_refl _, fun _ h => h, fun _ h => h⟩

theorem Ext.trans {a b c : St} (h1 : Ext a b) (h2 : Ext b c) : Ext a c where
  map_ext := fun o n h => h2.map_ext o n (h1.map_ext o n h)
  pend_eq := by rw [h2.pend_eq, h1.pend_eq]
  pend_keep := fun o ho => by
    rw [h2.pend_keep o (by rw [h1.pend_eq]; exact ho), h1.pend_keep o ho]
  next_le := Nat.le_trans h1.next_le h2.next_le
  rc_ext := fun n h => h2.rc_ext n (h1.rc_ext n h)
  objs_ext := fun ob h => h2.objs_ext ob (h1.objs_ext ob h)

theorem Inv.init (src : Src) (n : Nat) : Inv src (St.init n) where
  vals_lt := by intro o k h; simp [St.init] at h
  ids_lt := by intro ob h; simp [St.init] at h
  inj := by intro o o' k h; simp [St.init] at h
  map_obj := by intro o k h; simp [St.init] at h
  obj_iso := by intro ob h; simp [St.init] at h
  keys_nodup := by simp [St.init]
  ids_eq := by simp [St.init]
  ids_nodup := by simp [St.init]
  rc_sub := by intro k h; simp [St.init] at h

/-- the invariant does not mention `pending` -/
theorem Inv.push {src : Src} {st : St} (h : Inv src st) (o : Nat) : Inv src (st.push o) :=
  ⟨h.vals_lt, h.ids_lt, h.inj, h.map_obj, h.obj_iso, h.keys_nodup, h.ids_eq, h.ids_nodup, h.rc_sub⟩
theorem Inv.pop {src : Src} {st : St} (h : Inv src st) : Inv src st.pop :=
  ⟨h.vals_lt, h.ids_lt, h.inj, h.map_obj, h.obj_iso, h.keys_nodup, h.ids_eq, h.ids_nodup, h.rc_sub⟩

/-- push … (calls that keep `pending`) … pop is an extension of the state before the push -/
theorem Ext.push_pop {st st1 : St} (o : Nat) (h : Ext (st.push o) st1) : Ext st st1.pop where
  map_ext := h.map_ext
  pend_eq := by
    show st1.pending.tail = st.pending
    rw [h.pend_eq]; rfl
  pend_keep := fun x hx => h.pend_keep x (by show x ∈ o :: st.pending; simp [hx])
  next_le := h.next_le
  rc_ext := h.rc_ext
  objs_ext := h.objs_ext

/-- allocation of the copy of a source object that has no memo entry yet -/
theorem Inv.alloc {src : Src} {st : St} (h : Inv src st) (old : Nat) (node : Node) (k : Kind) (ks : List Nat)
    (rc : Bool) (hsrc : src old = some node) (hfresh : lk st.map old = none) (hpend : old ∉ st.pending)
    (hks : Mapped st.map (node.kids k) ks) :
    Inv src (st.alloc old node.payload ks rc) ∧ Ext st (st.alloc old node.payload ks rc) ∧
      lk (st.alloc old node.payload ks rc).map old = some st.next := by
  have hmono : ∀ o n, lk st.map o = some n → lk ((old, st.next) :: st.map) o = some n := by
    intro o n hl
    rw [lk_cons]
    by_cases ho : o = old
    · subst ho; rw [hfresh] at hl; cases hl
    · simp [ho, hl]
  refine ⟨?_, ?_, ?_⟩
  · constructor
    · intro o n hl
      simp only [St.alloc, lk_cons] at hl ⊢
      by_cases ho : o = old
      · simp only [ho, if_true, Option.some.injEq] at hl; omega
      · simp only [ho, if_false] at hl; have := h.vals_lt o n hl; omega
    · intro ob hob
      simp only [St.alloc, List.mem_cons] at hob ⊢
      rcases hob with rfl | hob
      · simp
      · have := h.ids_lt ob hob; omega
    · intro o o' n h1 h2
      simp only [St.alloc, lk_cons] at h1 h2
      by_cases ho : o = old <;> by_cases ho' : o' = old
      · rw [ho, ho']
      · simp only [ho, if_true, Option.some.injEq, ho', if_false] at h1 h2
        have := h.vals_lt o' n h2; omega
      · simp only [ho, if_false, ho', if_true, Option.some.injEq] at h1 h2
        have := h.vals_lt o n h1; omega
      · simp only [ho, ho', if_false] at h1 h2
        exact h.inj o o' n h1 h2
    · intro o n hl
      simp only [St.alloc, lk_cons] at hl ⊢
      by_cases ho : o = old
      · simp only [ho, if_true, Option.some.injEq] at hl
        exact ⟨⟨st.next, node.payload, ks⟩, by simp, hl⟩
      · simp only [ho, if_false] at hl
        obtain ⟨ob, hob, hid⟩ := h.map_obj o n hl
        exact ⟨ob, by simp [hob], hid⟩
    · intro ob hob
      simp only [St.alloc, List.mem_cons] at hob ⊢
      rcases hob with rfl | hob
      · refine ⟨old, node, k, hsrc, ?_, rfl, mapped_mono _ _ hmono _ _ hks⟩
        simp [lk_cons]
      · obtain ⟨o, nd, k', h1, h2, h3, h4⟩ := h.obj_iso ob hob
        exact ⟨o, nd, k', h1, hmono _ _ h2, h3, mapped_mono _ _ hmono _ _ h4⟩
    · simp only [St.alloc, List.map_cons, List.nodup_cons]
      exact ⟨lk_none_not_mem _ _ hfresh, h.keys_nodup⟩
    · simp only [St.alloc, List.map_cons, h.ids_eq]
    · simp only [St.alloc, List.map_cons, List.nodup_cons]
      refine ⟨?_, h.ids_nodup⟩
      intro hm
      obtain ⟨ob, hob, hid⟩ := List.mem_map.mp hm
      have := h.ids_lt ob hob; omega
    · intro n hn
      simp only [St.alloc] at hn ⊢
      have old_case : ∀ n ∈ st.rcrefs, ∃ o, lk ((old, st.next) :: st.map) o = some n := by
        intro n hn
        obtain ⟨o, ho⟩ := h.rc_sub n hn
        exact ⟨o, hmono _ _ ho⟩
      cases rc with
      | false => simp only [Bool.false_eq_true, if_false] at hn; exact old_case n hn
      | true =>
        simp only [if_true, List.mem_cons] at hn
        rcases hn with rfl | hn
        · exact ⟨old, by simp [lk_cons]⟩
        · exact old_case n hn
  · constructor
    · exact hmono
    · rfl
    · intro o ho
      simp only [St.alloc, lk_cons]
      by_cases hoo : o = old
      · subst hoo; exact absurd ho hpend
      · simp [hoo]
    · simp [St.alloc]
    · intro n hn; simp only [St.alloc]; split <;> simp [hn]
    · intro ob hob; simp [St.alloc, hob]
  · simp [St.alloc, lk_cons]


/-! ### specification of the cloner -/

/-- what one call guarantees, whatever its outcome -/
def RefSpec (src : Src) (g : Edge → St → Out Nat × St) : Prop :=
  ∀ (e : Edge) (st : St), Inv src st →
    Inv src (g e st).2 ∧ Ext st (g e st).2 ∧ ∀ n, (g e st).1 = .ok n → lk (g e st).2.map e.tgt = some n

/-- … and a traversal of a list of edges -/
theorem kids_spec (src : Src) (g : Edge → St → Out Nat × St) (hg : RefSpec src g) (es : List Edge) (st : St)
    (h : Inv src st) :
    Inv src (mapSt g es st).2 ∧ Ext st (mapSt g es st).2 ∧
      ∀ ks, (mapSt g es st).1 = .ok ks → Mapped (mapSt g es st).2.map es ks :=
  mapSt_spec g (Inv src) Ext (fun e k s => lk s.map e.tgt = some k) (fun es ks s => Mapped s.map es ks)
    Ext.refl (fun _ _ _ => Ext.trans) (fun _ => trivial)
    (fun _ _ _ _ _ _ hq hr hl => ⟨hr.map_ext _ _ hq, hl⟩) es (fun a _ s hs => hg a s hs) st h

theorem cloneRef_spec (src : Src) : ∀ (f : Nat), RefSpec src (cloneRef f src) := by
  intro f
  induction f with
  | zero =>
    intro e st h
    simp only [cloneRef]
    exact ⟨h, Ext.refl st, by intro n hn; simp at hn⟩
  | succ f ih =>
    intro e st h
    simp only [cloneRef]
    cases hlk : lk st.map e.tgt with
    | some n =>
      simp only
      cases hk : e.kind with
      | prim => simp only; exact ⟨h, Ext.refl st, by intro n' hn; simp at hn; rw [← hn]; exact hlk⟩
      | ref => simp only; exact ⟨h, Ext.refl st, by intro n' hn; simp at hn; rw [← hn]; exact hlk⟩
      | rc =>
        simp only
        by_cases hrc : n ∈ st.rcrefs
        · simp only [hrc, if_true]
          exact ⟨h, Ext.refl st, by intro n' hn; simp at hn; rw [← hn]; exact hlk⟩
        · simp only [hrc, if_false]
          by_cases hp : e.tgt ∈ st.pending
          · simp only [hp, if_true]
            exact ⟨h, Ext.refl st, by intro n' hn; simp at hn⟩
          · simp only [hp, if_false]
            cases hs : src e.tgt with
            | none => simp only; exact ⟨h, Ext.refl st, by intro n' hn; simp at hn⟩
            | some node =>
              simp only
              have hk := kids_spec src (cloneRef f src) ih (node.kids .rc) (st.push e.tgt) (h.push _)
              have hext := Ext.push_pop e.tgt hk.2.1
              have hinv := hk.1.pop
              cases hr : (mapSt (cloneRef f src) (node.kids .rc) (st.push e.tgt)).1 with
              | ok ks =>
                simp only
                refine ⟨?_, ?_, ?_⟩
                · exact ⟨hinv.vals_lt, hinv.ids_lt, hinv.inj, hinv.map_obj, hinv.obj_iso, hinv.keys_nodup,
                    hinv.ids_eq, hinv.ids_nodup, by
                      intro m hm
                      simp only [List.mem_cons] at hm
                      rcases hm with rfl | hm
                      · exact ⟨e.tgt, hext.map_ext _ _ hlk⟩
                      · exact hinv.rc_sub m hm⟩
                · exact ⟨hext.map_ext, hext.pend_eq, hext.pend_keep, hext.next_le,
                    fun m hm => by simp [hext.rc_ext m hm], hext.objs_ext⟩
                · intro n' hn
                  simp only [Out.ok.injEq] at hn
                  rw [← hn]
                  exact hext.map_ext _ _ hlk
              | err => simp only; exact ⟨hinv, hext, by intro n' hn; simp at hn⟩
              | panic => simp only; exact ⟨hinv, hext, by intro n' hn; simp at hn⟩
              | oof => simp only; exact ⟨hinv, hext, by intro n' hn; simp at hn⟩
    | none =>
      simp only
      by_cases hp : e.tgt ∈ st.pending
      · simp only [hp, if_true]
        exact ⟨h, Ext.refl st, by intro n' hn; simp at hn⟩
      · simp only [hp, if_false]
        cases hs : src e.tgt with
        | none => simp only; exact ⟨h, Ext.refl st, by intro n' hn; simp at hn⟩
        | some node =>
          simp only
          have hk := kids_spec src (cloneRef f src) ih (node.kids e.kind) (st.push e.tgt) (h.push _)
          have hext := Ext.push_pop e.tgt hk.2.1
          have hinv := hk.1.pop
          cases hr : (mapSt (cloneRef f src) (node.kids e.kind) (st.push e.tgt)).1 with
          | ok ks =>
            simp only
            have hfresh : lk (mapSt (cloneRef f src) (node.kids e.kind) (st.push e.tgt)).2.pop.map e.tgt = none := by
              have := hk.2.1.pend_keep e.tgt (by show e.tgt ∈ e.tgt :: st.pending; simp)
              show lk (mapSt (cloneRef f src) (node.kids e.kind) (st.push e.tgt)).2.map e.tgt = none
              rw [this]; exact hlk
            have hpend : e.tgt ∉ (mapSt (cloneRef f src) (node.kids e.kind) (st.push e.tgt)).2.pop.pending := by
              rw [hext.pend_eq]; exact hp
            have ha := hinv.alloc e.tgt node e.kind ks (decide (e.kind = .rc)) hs hfresh hpend (hk.2.2 ks hr)
            exact ⟨ha.1, hext.trans ha.2.1, by
              intro n' hn
              simp only [Out.ok.injEq] at hn
              rw [← hn]; exact ha.2.2⟩
          | err => simp only; exact ⟨hinv, hext, by intro n' hn; simp at hn⟩
          | panic => simp only; exact ⟨hinv, hext, by intro n' hn; simp at hn⟩
          | oof => simp only; exact ⟨hinv, hext, by intro n' hn; simp at hn⟩


/-! ### consequences of the invariant -/

theorem Inv.closed {src : Src} {st : St} (h : Inv src st) : Closed st := by
  intro ob hob k hk
  obtain ⟨o, node, kd, _, _, _, hm⟩ := h.obj_iso ob hob
  obtain ⟨e, _, hl⟩ := mapped_mem _ _ _ hm k hk
  exact h.map_obj _ _ hl

theorem Inv.once {src : Src} {st : St} (h : Inv src st) : Once st :=
  ⟨h.keys_nodup, h.ids_eq, h.ids_nodup⟩

theorem Inv.iso {src : Src} {st : St} (h : Inv src st) : Iso src st := by
  intro o n hl
  obtain ⟨ob, hob, hid⟩ := h.map_obj o n hl
  obtain ⟨o', node, k, h1, h2, h3, h4⟩ := h.obj_iso ob hob
  have : o' = o := h.inj o' o n (by rw [h2, hid]) hl
  subst this
  exact ⟨node, ob, k, h1, hob, hid, h3, h4⟩

/-! ### a sequence of requests -/

theorem cloneRoots_spec (src : Src) (f : Nat) : ∀ (es : List Edge) (st : St), Inv src st →
    Inv src (cloneRoots f src es st).2 ∧ Ext st (cloneRoots f src es st).2 := by
  intro es
  induction es with
  | nil => intro st h; exact ⟨h, Ext.refl st⟩
  | cons e es ih =>
    intro st h
    simp only [cloneRoots]
    have h1 := cloneRef_spec src f e st h
    have h2 := ih _ h1.1
    exact ⟨h2.1, h1.2.1.trans h2.2⟩

/-! ### outcomes: no panic, fuel, success on acyclic sources -/

theorem mapSt_ne_panic {σ α β : Type} (g : α → σ → Out β × σ) (hg : ∀ a s, (g a s).1 ≠ .panic) :
    ∀ (l : List α) (s : σ), (mapSt g l s).1 ≠ .panic := by
  intro l
  induction l with
  | nil => intro s; simp [mapSt]
  | cons a as ih =>
    intro s
    simp only [mapSt]
    cases h1 : (g a s).1 with
    | ok b =>
      simp only
      cases h2 : (mapSt g as (g a s).2).1 with
      | ok bs => simp
      | err => simp
      | panic => exact absurd h2 (ih _)
      | oof => simp
    | err => simp
    | panic => exact absurd h1 (hg a s)
    | oof => simp

theorem cloneRef_ne_panic (src : Src) : ∀ (f : Nat) (e : Edge) (st : St), (cloneRef f src e st).1 ≠ .panic := by
  intro f
  induction f with
  | zero => intro e st; simp [cloneRef]
  | succ f ih =>
    intro e st
    simp only [cloneRef]
    split
    · split
      · simp
      · simp
      · split
        · simp
        · split
          · simp
          · split
            · simp
            · split
              · simp
              · simp
              · rename_i hh; exact absurd hh (mapSt_ne_panic _ ih _ _)
              · simp
    · split
      · simp
      · split
        · simp
        · split
          · simp
          · simp
          · rename_i hh; exact absurd hh (mapSt_ne_panic _ ih _ _)
          · simp

/-- a projection of the state that every call leaves alone is left alone by a traversal -/
theorem mapSt_proj {σ α β γ : Type} (g : α → σ → Out β × σ) (π : σ → γ) (hg : ∀ a s, π (g a s).2 = π s) :
    ∀ (l : List α) (s : σ), π (mapSt g l s).2 = π s := by
  intro l
  induction l with
  | nil => intro s; rfl
  | cons a as ih =>
    intro s
    simp only [mapSt]
    cases h1 : (g a s).1 with
    | ok b =>
      simp only
      cases h2 : (mapSt g as (g a s).2).1 <;> simp only <;> rw [ih, hg]
    | err => simp only; exact hg a s
    | panic => simp only; exact hg a s
    | oof => simp only; exact hg a s

/-- `pending` is a stack: every call leaves it as it found it, whatever the outcome -/
theorem cloneRef_pending (src : Src) : ∀ (f : Nat) (e : Edge) (st : St),
    (cloneRef f src e st).2.pending = st.pending := by
  intro f
  induction f with
  | zero => intro e st; rfl
  | succ f ih =>
    intro e st
    have hk : ∀ (l : List Edge) (s : St), (mapSt (cloneRef f src) l (s.push e.tgt)).2.pop.pending = s.pending := by
      intro l s
      show (mapSt (cloneRef f src) l (s.push e.tgt)).2.pending.tail = s.pending
      rw [mapSt_proj (cloneRef f src) St.pending ih]; rfl
    simp only [cloneRef]
    split
    · split
      · rfl
      · rfl
      · split
        · rfl
        · split
          · rfl
          · split
            · rfl
            · split
              · exact hk _ _
              · exact hk _ _
              · exact hk _ _
              · exact hk _ _
    · split
      · rfl
      · split
        · rfl
        · split
          · show ((mapSt (cloneRef f src) _ (st.push e.tgt)).2.pop.alloc _ _ _ _).pending = st.pending
            simp only [St.alloc]; exact hk _ _
          · exact hk _ _
          · exact hk _ _
          · exact hk _ _


/-- pigeonhole: a duplicate-free list drawn from `s` is no longer than `s` -/
theorem nodup_subset_length : ∀ (l s : List Nat), l.Nodup → (∀ x ∈ l, x ∈ s) → l.length ≤ s.length := by
  intro l
  induction l with
  | nil => intro s _ _; simp
  | cons a l ih =>
    intro s hnd hsub
    rw [List.nodup_cons] at hnd
    have ha : a ∈ s := hsub a (by simp)
    have hsub' : ∀ x ∈ l, x ∈ s.erase a := by
      intro x hx
      have hne : x ≠ a := fun heq => hnd.1 (heq ▸ hx)
      exact (List.mem_erase_of_ne hne).mpr (hsub x (by simp [hx]))
    have := ih (s.erase a) hnd.2 hsub'
    rw [List.length_erase_of_mem ha] at this
    have hpos : 0 < s.length := List.length_pos_of_mem ha
    simp only [List.length_cons]
    omega

theorem mapSt_ne_oof {σ α β : Type} (g : α → σ → Out β × σ) (C : σ → Prop)
    (hC : ∀ a s, C s → C (g a s).2) :
    ∀ (l : List α), (∀ a ∈ l, ∀ s, C s → (g a s).1 ≠ .oof) → ∀ (s : σ), C s → (mapSt g l s).1 ≠ .oof := by
  intro l
  induction l with
  | nil => intro _ s _; simp [mapSt]
  | cons a as ih =>
    intro hg s hs
    simp only [mapSt]
    cases h1 : (g a s).1 with
    | ok b =>
      simp only
      cases h2 : (mapSt g as (g a s).2).1 with
      | ok bs => simp
      | err => simp
      | panic => simp
      | oof => exact absurd h2 (ih (fun x hx => hg x (by simp [hx])) _ (hC a s hs))
    | err => simp
    | panic => simp
    | oof => exact absurd h1 (hg a (by simp) s hs)

/-- **fuel**: with more fuel than the source has objects no call runs out of it — on any source graph,
    cyclic or not. (`pending` is duplicate-free and drawn from the existing objects, and it grows by one at
    every level of the recursion.) -/
theorem cloneRef_ne_oof (src : Src) (support : List Nat) (hsup : ∀ o, src o ≠ none → o ∈ support) :
    ∀ (f : Nat) (e : Edge) (st : St), st.pending.Nodup → (∀ o ∈ st.pending, o ∈ support) →
      support.length < f + st.pending.length → (cloneRef f src e st).1 ≠ .oof := by
  intro f
  induction f with
  | zero =>
    intro e st hnd hsub hlen
    have := nodup_subset_length _ _ hnd hsub
    omega
  | succ f ih =>
    intro e st hnd hsub hlen
    -- the traversal of the kids of `e.tgt`, entered with `e.tgt` pushed
    have hk : e.tgt ∉ st.pending → src e.tgt ≠ none → ∀ (l : List Edge),
        (mapSt (cloneRef f src) l (st.push e.tgt)).1 ≠ .oof := by
      intro hp hs l
      refine mapSt_ne_oof (cloneRef f src) (fun s => s.pending = e.tgt :: st.pending)
        (fun a s hs' => by rw [cloneRef_pending]; exact hs') l ?_ _ rfl
      intro a _ s hs'
      refine ih a s ?_ ?_ ?_
      · rw [hs', List.nodup_cons]; exact ⟨hp, hnd⟩
      · intro o ho
        rw [hs'] at ho
        simp only [List.mem_cons] at ho
        rcases ho with rfl | ho
        · exact hsup _ hs
        · exact hsub o ho
      · rw [hs']; simp only [List.length_cons]; omega
    simp only [cloneRef]
    split
    · split
      · simp
      · simp
      · split
        · simp
        · split
          · simp
          · rename_i hp
            split
            · simp
            · rename_i node hs
              split
              · simp
              · simp
              · simp
              · rename_i hh; exact absurd hh (hk hp (by rw [hs]; simp) _)
    · split
      · simp
      · rename_i hp
        split
        · simp
        · rename_i node hs
          split
          · simp
          · simp
          · simp
          · rename_i hh; exact absurd hh (hk hp (by rw [hs]; simp) _)

theorem mapSt_ok {σ α β : Type} (g : α → σ → Out β × σ) (C : σ → Prop)
    (hC : ∀ a s, C s → C (g a s).2) :
    ∀ (l : List α), (∀ a ∈ l, ∀ s, C s → ∃ b, (g a s).1 = .ok b) → ∀ (s : σ), C s →
      ∃ bs, (mapSt g l s).1 = .ok bs := by
  intro l
  induction l with
  | nil => intro _ s _; exact ⟨[], rfl⟩
  | cons a as ih =>
    intro hg s hs
    obtain ⟨b, hb⟩ := hg a (by simp) s hs
    obtain ⟨bs, hbs⟩ := ih (fun x hx => hg x (by simp [hx])) _ (hC a s hs)
    exact ⟨b :: bs, by simp only [mapSt, hb, hbs]⟩

/-- **success**: where the source is acyclic and has no dangling references below `e.tgt`, the call
    succeeds (the cycle guard and the error paths never fire), given fuel above the rank. -/
theorem cloneRef_ok_of_acyclic (src : Src) (rank : Nat → Nat) (hac : Acyclic src rank) :
    ∀ (f : Nat) (e : Edge) (st : St), src e.tgt ≠ none → rank e.tgt < f →
      (∀ o ∈ st.pending, rank e.tgt < rank o) → ∃ n, (cloneRef f src e st).1 = .ok n := by
  intro f
  induction f with
  | zero => intro e st _ hf; omega
  | succ f ih =>
    intro e st hsrc hf hpend
    have hnp : e.tgt ∉ st.pending := fun hm => by have := hpend _ hm; omega
    have hk : ∀ node k, src e.tgt = some node →
        ∃ ks, (mapSt (cloneRef f src) (node.kids k) (st.push e.tgt)).1 = .ok ks := by
      intro node k hs
      refine mapSt_ok (cloneRef f src) (fun s => s.pending = e.tgt :: st.pending)
        (fun a s hs' => by rw [cloneRef_pending]; exact hs') _ ?_ _ rfl
      intro a ha s hs'
      have hdown := hac.down _ _ _ _ hs ha
      refine ih a s (hac.total _ _ _ _ hs ha) (by omega) ?_
      intro o ho
      rw [hs'] at ho
      simp only [List.mem_cons] at ho
      rcases ho with rfl | ho
      · exact hdown
      · have := hpend o ho; omega
    simp only [cloneRef]
    cases hlk : lk st.map e.tgt with
    | some n =>
      simp only
      cases hkd : e.kind with
      | prim => exact ⟨n, rfl⟩
      | ref => exact ⟨n, rfl⟩
      | rc =>
        simp only
        by_cases hrc : n ∈ st.rcrefs
        · simp only [hrc, if_true]; exact ⟨n, rfl⟩
        · simp only [hrc, if_false, hnp]
          cases hs : src e.tgt with
          | none => exact absurd hs hsrc
          | some node =>
            simp only
            obtain ⟨ks, hks⟩ := hk node .rc hs
            rw [hks]
            exact ⟨n, rfl⟩
    | none =>
      simp only [hnp, if_false]
      cases hs : src e.tgt with
      | none => exact absurd hs hsrc
      | some node =>
        simp only
        obtain ⟨ks, hks⟩ := hk node e.kind hs
        rw [hks]
        exact ⟨_, rfl⟩

end Import
