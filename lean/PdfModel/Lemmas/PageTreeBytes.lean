import PdfModel.Spec.PageTreeBytes
import PdfModel.Lemmas.PageTree
import PdfModel.Lemmas.BuildBytes
import PdfModel.Lemmas.ContentBytesUtf8
import PdfModel.Props.C09

/-! C07 at byte level: what the spec writer writes is read back as the object table of the tree. -/

set_option linter.unusedSimpArgs false

namespace PageTreeB
open PdfLex PageTree BuildBytes SaveBytes Storage RepBytes OpenBytes Xref
open PdfSyntax (WF WFE WFL keysOf vdepth vdepthE vdepthL)

variable {R : Type}

/-! ### reading a written body -/

theorem refsOf_refs : ∀ (ks : List Nat), refsOf (ks.map fun k => (Prim.ref k 0 : Prim R)) = some ks
  | [] => rfl
  | k :: ks => by simp [refsOf, refsOf_refs ks]

theorem boxMarker_boxVal (m : Nat) : boxMarker (some (boxVal m : Prim R)) = some m := by
  simp [boxMarker, boxVal]

theorem resMarker_resVal (m : Nat) (hm : m ≤ 2147483647) : resMarker (some (resVal m : Prim R)) = some m := by
  have := parseUsize_natTok (fmtNat m) m (fmtNat_spec m) (by unfold OffLex.usizeMax; omega)
  simp [resMarker, resVal, dictGet, this]

theorem attrsOf_entries (pre : Dict R) (a : Attrs) (ha : attrsOK a = true)
    (h1 : dictGet pre kMediaBox = none) (h2 : dictGet pre kCropBox = none) (h3 : dictGet pre kResources = none) :
    attrsOf (pre ++ attrEntries a) = a := by
  have dg : ∀ (p q : Dict R) (k : List UInt8), dictGet p k = none → dictGet (p ++ q) k = dictGet q k := by
    intro p
    induction p with
    | nil => intro q k _; rfl
    | cons kv p ih =>
      intro q k h
      obtain ⟨k', v'⟩ := kv
      simp only [dictGet, List.cons_append] at h ⊢
      split at h
      · cases h
      · rename_i hk; simp only [hk, if_false]; exact ih q k h
  obtain ⟨m, c, r⟩ := a
  simp only [attrsOK, Bool.and_eq_true, decide_eq_true_eq] at ha
  simp only [attrsOf, dg pre _ _ h1, dg pre _ _ h2, dg pre _ _ h3]
  cases m <;> cases c <;> cases r <;>
    simp [attrEntries, dictGet, kMediaBox, kCropBox, kResources, boxMarker, boxVal, resMarker_resVal, boxMarker_boxVal] <;>
    first
      | rfl
      | (simp only [Option.getD_some] at ha; exact resMarker_resVal _ (by omega))

theorem dictGet_append_none (p q : Dict R) (k : List UInt8) (h : dictGet p k = none) :
    dictGet (p ++ q) k = dictGet q k := by
  induction p with
  | nil => rfl
  | cons kv p ih =>
    obtain ⟨k', v'⟩ := kv
    simp only [dictGet, List.cons_append] at h ⊢
    split at h
    · cases h
    · rename_i hk; simp only [hk, if_false]; exact ih h

theorem dictGet_append_some (p q : Dict R) (k : List UInt8) (v : Prim R) (h : dictGet p k = some v) :
    dictGet (p ++ q) k = some v := by
  induction p with
  | nil => simp [dictGet] at h
  | cons kv p ih =>
    obtain ⟨k', v'⟩ := kv
    simp only [dictGet, List.cons_append] at h ⊢
    split at h
    · rename_i hk; simp only [hk, if_true]; exact h
    · rename_i hk; simp only [hk, if_false]; exact ih h

theorem nodeOf_leafVal (p : Nat) (a : Attrs) (ha : attrsOK a = true) :
    nodeOf (leafVal p a : Prim R) = .page p a := by
  let pre : Dict R := [(SaveBytes.kType, .name kPage), (kParent, .ref p 0)]
  have hk : ∀ k, k = kMediaBox ∨ k = kCropBox ∨ k = kResources → dictGet pre k = none := by
    intro k hk
    rcases hk with rfl | rfl | rfl <;> simp [pre, dictGet, SaveBytes.kType, kParent, kMediaBox, kCropBox, kResources]
  have hat := attrsOf_entries pre a ha (hk _ (Or.inl rfl)) (hk _ (Or.inr (Or.inl rfl))) (hk _ (Or.inr (Or.inr rfl)))
  have h1 : dictGet (pre ++ attrEntries a) OpenBytes.kType = some (.name kPage) :=
    dictGet_append_some pre _ _ _ (by simp [pre, dictGet, SaveBytes.kType, OpenBytes.kType])
  have h2 : dictGet (pre ++ attrEntries a) kParent = some (.ref p 0) :=
    dictGet_append_some pre _ _ _ (by simp [pre, dictGet, SaveBytes.kType, kParent])
  show nodeOf (.dict (pre ++ attrEntries a)) = _
  simp only [nodeOf, h1, h2, hat, if_true]

theorem nodeOf_nodeVal (parent : Option Nat) (kids : List Nat) (count : Nat) (a : Attrs) (ha : attrsOK a = true) :
    nodeOf (nodeVal parent kids count a : Prim R) = .pages parent kids count a := by
  let pre : Dict R := [(SaveBytes.kType, .name kPagesT)] ++ (match parent with | some p => [(kParent, .ref p 0)] | none => []) ++
    [(kKids, .arr (kids.map fun k => .ref k 0)), (kCount, .int count)]
  have hk : ∀ k, k = kMediaBox ∨ k = kCropBox ∨ k = kResources → dictGet pre k = none := by
    intro k hk
    rcases hk with rfl | rfl | rfl <;> cases parent <;>
      simp [pre, dictGet, SaveBytes.kType, kParent, kKids, kCount, kMediaBox, kCropBox, kResources]
  have hat := attrsOf_entries pre a ha (hk _ (Or.inl rfl)) (hk _ (Or.inr (Or.inl rfl))) (hk _ (Or.inr (Or.inr rfl)))
  have h1 : dictGet (pre ++ attrEntries a) OpenBytes.kType = some (.name kPagesT) :=
    dictGet_append_some pre _ _ _ (by cases parent <;> simp [pre, dictGet, SaveBytes.kType, OpenBytes.kType])
  have h3 : dictGet (pre ++ attrEntries a) kKids = some (.arr (kids.map fun k => .ref k 0)) :=
    dictGet_append_some pre _ _ _ (by cases parent <;> simp [pre, dictGet, SaveBytes.kType, kParent, kKids])
  have h4 : dictGet (pre ++ attrEntries a) kCount = some (.int count) :=
    dictGet_append_some pre _ _ _ (by cases parent <;> simp [pre, dictGet, SaveBytes.kType, kParent, kKids, kCount])
  have hne : kPagesT ≠ kPage := by decide
  show nodeOf (.dict (pre ++ attrEntries a)) = _
  cases parent with
  | none =>
    have h2 : dictGet (pre ++ attrEntries a) kParent = none := by
      rw [dictGet_append_none pre _ _ (by simp [pre, dictGet, SaveBytes.kType, kParent, kKids, kCount])]
      obtain ⟨m, c, r⟩ := a
      cases m <;> cases c <;> cases r <;> simp [attrEntries, dictGet, kParent, kMediaBox, kCropBox, kResources]
    simp only [nodeOf, h1, h2, h3, h4, hat, hne, if_false, if_true, refsOf_refs]
    simp
  | some p =>
    have h2 : dictGet (pre ++ attrEntries a) kParent = some (.ref p 0) :=
      dictGet_append_some pre _ _ _ (by simp [pre, dictGet, SaveBytes.kType, kParent])
    simp only [nodeOf, h1, h2, h3, h4, hat, hne, if_false, if_true, refsOf_refs]
    simp

/-! ### the table of the written objects represents the tree -/

mutual
theorem represents_of_objs (tbl : Tbl) : ∀ (t : PTree) (parent : Option Nat), markersOK t = true →
    (∀ p ∈ (objsOf parent t : List (Nat × Prim R)), tbl p.1 = some (nodeOf p.2)) →
    (∀ q, parent = some q → True) → (match t with | .leaf _ _ => parent.isSome | _ => true) = true →
    represents tbl parent t = true
  | .leaf id a, parent, hm, h, _, hp => by
    cases parent with
    | none => simp at hp
    | some q =>
      have := h (id, leafVal q a) (by simp [objsOf])
      simp only [markersOK] at hm
      simp only [nodeOf_leafVal q a hm] at this
      simp [represents, this]
  | .node id a ks, parent, hm, h, _, _ => by
    simp only [markersOK, Bool.and_eq_true] at hm
    have := h (id, nodeVal parent (ks.map PTree.id) (nLeavesL ks) a) (by simp [objsOf])
    simp only [nodeOf_nodeVal _ _ _ a hm.1] at this
    simp only [represents, this, decide_true, Bool.true_and]
    exact representsL_of_objs tbl ks id hm.2 (fun p hp => h p (by simp [objsOf, hp]))
theorem representsL_of_objs (tbl : Tbl) : ∀ (ks : List PTree) (pid : Nat), markersOKL ks = true →
    (∀ p ∈ (objsOfL pid ks : List (Nat × Prim R)), tbl p.1 = some (nodeOf p.2)) → representsL tbl pid ks = true
  | [], _, _, _ => rfl
  | k :: ks, pid, hm, h => by
    simp only [markersOKL, Bool.and_eq_true] at hm
    simp only [representsL, Bool.and_eq_true]
    refine ⟨represents_of_objs tbl k (some pid) hm.1 (fun p hp => h p (by simp [objsOfL, hp])) (fun _ _ => trivial)
      (by cases k <;> rfl), representsL_of_objs tbl ks pid hm.2 (fun p hp => h p (by simp [objsOfL, hp]))⟩
end

/-! ### the bodies are within the limits of the round-trip theorems -/

theorem isDig_lt : ∀ b : UInt8, PdfSyntax.isDig b = true → b < 128 := by
  intro b h
  simp only [PdfSyntax.isDig, Bool.and_eq_true, decide_eq_true_eq] at h
  exact Nat.lt_of_le_of_lt h.2 (by decide)

theorem utf8Valid_digits : ∀ (ds : List UInt8), PdfSyntax.Digits ds → PdfLex.utf8Valid ds = true
  | [], _ => rfl
  | d :: ds, h => by
    rw [ContentBytes.utf8Valid_ascii d ds (isDig_lt d (h d (by simp)))]
    exact utf8Valid_digits ds (fun b hb => h b (by simp [hb]))

theorem utf8Valid_key (m : Nat) : PdfLex.utf8Valid (77 :: fmtNat m) = true := by
  rw [ContentBytes.utf8Valid_ascii 77 _ (by decide)]
  exact utf8Valid_digits _ (fmtNat_spec m).2.1

theorem okVal_attrs (fmt : R → List UInt8) (pr : List UInt8 → Option R) (a : Attrs) (ha : attrsOK a = true) :
    SerialisableE fmt pr (attrEntries a : Dict R) ∧ WFE (attrEntries a : Dict R) ∧ vdepthE (attrEntries a : Dict R) ≤ 4 := by
  obtain ⟨m, c, r⟩ := a
  simp only [attrsOK, Bool.and_eq_true, decide_eq_true_eq] at ha
  have hk := utf8Valid_key
  cases m <;> cases c <;> cases r <;>
    simp only [Option.getD_some, Option.getD_none] at ha <;>
    simp [attrEntries, boxVal, resVal, SerialisableE, Serialisable, SerialisableL, WFE, WF, WFL, keysOf, vdepthE, vdepth,
      vdepthL, hk, kMediaBox, kCropBox, kResources, kProperties] <;>
    (repeat' constructor) <;> first | omega | decide

theorem serL_refs (fmt : R → List UInt8) (pr : List UInt8 → Option R) : ∀ (ks : List Nat),
    (∀ k ∈ ks, k ≤ 18446744073709551615) →
    SerialisableL fmt pr (ks.map fun k => (Prim.ref k 0 : Prim R)) ∧ WFL (ks.map fun k => (Prim.ref k 0 : Prim R)) ∧
      vdepthL (ks.map fun k => (Prim.ref k 0 : Prim R)) = 0
  | [], _ => by simp [SerialisableL, WFL, vdepthL]
  | k :: ks, h => by
    obtain ⟨a, b, c⟩ := serL_refs fmt pr ks (fun x hx => h x (by simp [hx]))
    have := h k (by simp)
    simp [SerialisableL, Serialisable, WFL, WF, vdepthL, vdepth, a, b, c, this]

theorem wfe_append : ∀ (a b : Dict R), WFE a → WFE b → WFE (a ++ b)
  | [], _, _, hb => hb
  | (k, v) :: a, b, ha, hb => by
    simp only [WFE, List.cons_append] at ha ⊢
    exact ⟨ha.1, ha.2.1, wfe_append a b ha.2.2 hb⟩

theorem vdepthE_append : ∀ (a b : Dict R), vdepthE (a ++ b) = max (vdepthE a) (vdepthE b)
  | [], b => by simp [vdepthE]
  | (k, v) :: a, b => by
    simp only [vdepthE, List.cons_append, vdepthE_append a b]
    omega

theorem attrKeys_sublist (a : Attrs) : (keysOf (attrEntries a : Dict R)).Sublist [kMediaBox, kCropBox, kResources] := by
  obtain ⟨m, c, r⟩ := a
  cases m <;> cases c <;> cases r <;> simp [attrEntries, keysOf]

theorem okVal_of_parts (fmt : R → List UInt8) (pr : List UInt8 → Option R) (pre : Dict R) (a : Attrs)
    (ha : attrsOK a = true) (h1 : SerialisableE fmt pr pre) (h2 : WFE pre) (h3 : vdepthE pre ≤ 4)
    (h4 : (keysOf pre).Sublist [SaveBytes.kType, kParent, kKids, kCount]) :
    OKVal fmt pr (.dict (pre ++ attrEntries a) : Prim R) := by
  obtain ⟨a1, a2, a3⟩ := okVal_attrs fmt pr a ha
  refine .direct _ (serialisableE_append fmt pr _ _ h1 a1) ⟨wfe_append _ _ h2 a2, ?_⟩ ?_
  · have : (keysOf (pre ++ attrEntries a)).Sublist
        ([SaveBytes.kType, kParent, kKids, kCount] ++ [kMediaBox, kCropBox, kResources]) := by
      simp only [keysOf, List.map_append]
      exact List.Sublist.append h4 (attrKeys_sublist a)
    exact List.Nodup.sublist this (by decide)
  · simp only [vdepth, vdepthE_append, maxDepth]
    omega

theorem okVal_leafVal (fmt : R → List UInt8) (pr : List UInt8 → Option R) (p : Nat) (a : Attrs)
    (hp : p ≤ 18446744073709551615) (ha : attrsOK a = true) : OKVal fmt pr (leafVal p a : Prim R) := by
  refine okVal_of_parts fmt pr _ a ha ?_ ?_ ?_ ?_
  · simp [SerialisableE, Serialisable, hp]
  · simp only [WFE, WF, and_true]; decide
  · simp [vdepthE, vdepth]
  · simp [keysOf]

theorem okVal_nodeVal (fmt : R → List UInt8) (pr : List UInt8 → Option R) (parent : Option Nat) (kids : List Nat)
    (count : Nat) (a : Attrs) (hp : ∀ p, parent = some p → p ≤ 18446744073709551615)
    (hk : ∀ k ∈ kids, k ≤ 18446744073709551615) (hc : count ≤ 2147483647) (ha : attrsOK a = true) :
    OKVal fmt pr (nodeVal parent kids count a : Prim R) := by
  obtain ⟨s1, s2, s3⟩ := serL_refs fmt pr kids hk
  refine okVal_of_parts fmt pr _ a ha ?_ ?_ ?_ ?_
  · cases parent with
    | none => simp [SerialisableE, Serialisable, s1]; omega
    | some p => have := hp p rfl; simp [SerialisableE, Serialisable, s1, this]; omega
  · cases parent <;> simp only [WFE, WF, List.append_nil, List.cons_append, List.nil_append, List.singleton_append, s2, and_true, true_and] <;> decide
  · cases parent <;> simp [vdepthE, vdepth, s3]
  · cases parent <;> simp [keysOf]

/-! ### the empty storage with an arbitrary root is a base document -/

theorem baseOK_emptyDoc (root : Nat) : BaseOK (emptyDoc root : BDoc R).doc [] where
  start_le := by simp [emptyDoc]
  chain := by simp [emptyDoc, prevChain]
  pairs_entry := by simp [allPairs, pairsOK]
  pairs_dom := by intro p hp; simp [allPairs] at hp
  objs_lt := by intro o ho; simp [emptyDoc] at ho
  secs_lt := by intro s hs; simp [emptyDoc] at hs
  raw_lt := by
    intro j pos g h
    simp only [emptyDoc] at h
    cases j <;> simp at h
  stream_lt := by
    intro j sid idx h
    simp only [emptyDoc] at h
    cases j <;> simp at h
  no_prom := by intro e he; simp [emptyDoc] at he; subst he; simp
  changes_nil := rfl
  cache_nil := rfl

theorem rep_emptyDoc (P : Offsets.Parsers (Prim R) (Dict R)) (root : Nat) :
    Rep P (emptyDoc root : BDoc R).bytes (emptyDoc root : BDoc R).doc.st where
  len := rfl
  small := by simp [emptyDoc, headerBytes, fileMax]
  header := fun ext _ => locateStart_header ext
  xref := by intro h; exact absurd rfl h
  objs := by intro o ho; simp [emptyDoc] at ho
  secs := by intro s hs; simp [emptyDoc] at hs

theorem baseVals_emptyDoc (fmt : R → List UInt8) (pr : List UInt8 → Option R) (root : Nat)
    (hn : root ≤ 18446744073709551615) : BaseVals fmt pr (emptyDoc root : BDoc R).doc where
  info := by intro v hv; simp [emptyDoc] at hv
  prev := by intro p hp; simp [emptyDoc] at hp
  root := by simp only [emptyDoc]; omega
  fields := by
    intro e he
    simp only [emptyDoc, List.mem_singleton] at he
    subst he
    intro t a b hf
    simp only [Storage.fieldsOf, Option.some.injEq, Prod.mk.injEq] at hf
    obtain ⟨_, rfl, rfl⟩ := hf
    simp [Storage.U64]

/-! ### a run of `create`s -/

theorem run_creates (fmt : R → List UInt8) : ∀ (vs : List (Prim R)) (b : BDoc R),
    (runB fmt b (vs.map .create)).1.doc.tr = b.doc.tr ∧
    (runB fmt b (vs.map .create)).1.doc.st.refs.length = b.doc.st.refs.length + vs.length ∧
    ∀ j, chLookup (runB fmt b (vs.map .create)).1.doc.st.changes j =
      if b.doc.st.refs.length ≤ j ∧ j < b.doc.st.refs.length + vs.length
      then (vs[j - b.doc.st.refs.length]?).map (fun v => (v, 0)) else chLookup b.doc.st.changes j
  | [], b => ⟨rfl, by simp [runB], fun j => by simp [runB]; omega⟩
  | v :: vs, b => by
    obtain ⟨h1, h2, h3⟩ := run_creates fmt vs (stepB fmt b (.create v)).1
    have e : (stepB fmt b (.create v)).1.doc.st = (create b.doc.st v).1 := by
      simp [stepB, OpB.toOp, step]
    have et : (stepB fmt b (.create v)).1.doc.tr = b.doc.tr := by
      simp [stepB, OpB.toOp, step]
    have el : (create b.doc.st v).1.refs.length = b.doc.st.refs.length + 1 := by simp [create, alloc]
    have ec : ∀ j, chLookup (create b.doc.st v).1.changes j = if j = b.doc.st.refs.length then some (v, 0) else chLookup b.doc.st.changes j := by
      intro j; simp [create, alloc, chLookup_chInsert]
    simp only [List.map_cons, runB]
    refine ⟨by rw [h1, et], by rw [h2, e, el]; simp; omega, fun j => ?_⟩
    rw [h3 j, e, el, ec j]
    by_cases hj : j = b.doc.st.refs.length
    · subst hj
      have h0 : ¬ (b.doc.st.refs.length + 1 ≤ b.doc.st.refs.length ∧ b.doc.st.refs.length < b.doc.st.refs.length + 1 + vs.length) := by omega
      have h1' : b.doc.st.refs.length ≤ b.doc.st.refs.length ∧ b.doc.st.refs.length < b.doc.st.refs.length + (vs.length + 1) := by omega
      simp only [h0, if_false, if_true, List.length_cons, h1', and_self, Nat.sub_self, List.getElem?_cons_zero, Option.map_some]
    · by_cases hin : b.doc.st.refs.length + 1 ≤ j ∧ j < b.doc.st.refs.length + 1 + vs.length
      · have hin' : b.doc.st.refs.length ≤ j ∧ j < b.doc.st.refs.length + (vs.length + 1) := by omega
        have ei : j - b.doc.st.refs.length = (j - (b.doc.st.refs.length + 1)) + 1 := by omega
        simp only [hin, hin', and_self, if_true, List.length_cons, ei, List.getElem?_cons_succ]
      · have hin' : ¬ (b.doc.st.refs.length ≤ j ∧ j < b.doc.st.refs.length + (vs.length + 1)) := by omega
        simp only [hin, hin', if_false, hj, List.length_cons]

/-! ### the written file, opened and resolved at byte level -/

mutual
theorem ids_objs : ∀ (t : PTree) (parent : Option Nat), (objsOf parent t : List (Nat × Prim R)).map (·.1) = idsOf t
  | .leaf _ _, _ => rfl
  | .node _ _ ks, _ => by simp [objsOf, idsOf, idsL_objs ks]
theorem idsL_objs : ∀ (ks : List PTree) (pid : Nat), (objsOfL pid ks : List (Nat × Prim R)).map (·.1) = idsOfL ks
  | [], _ => rfl
  | k :: ks, pid => by simp [objsOfL, idsOfL, ids_objs k, idsL_objs ks]
end

mutual
theorem okVal_objs (fmt : R → List UInt8) (pr : List UInt8 → Option R) (n : Nat) (hn : n ≤ 18446744073709551615) :
    ∀ (t : PTree) (parent : Option Nat), markersOK t = true → (∀ x ∈ idsOf t, x ≤ n) → (∀ p, parent = some p → p ≤ n) →
    nLeaves t ≤ 2147483647 → ∀ q ∈ (objsOf parent t : List (Nat × Prim R)), OKVal fmt pr q.2
  | .leaf id a, parent, hm, _, hp, _, q, hq => by
    simp only [objsOf, List.mem_singleton] at hq
    subst hq
    simp only [markersOK] at hm
    refine okVal_leafVal fmt pr _ a ?_ hm
    cases parent with
    | none => simp
    | some p => have := hp p rfl; simp; omega
  | .node id a ks, parent, hm, hi, hp, hc, q, hq => by
    simp only [markersOK, Bool.and_eq_true] at hm
    simp only [objsOf, List.mem_cons] at hq
    simp only [nLeaves] at hc
    have hid : id ≤ n := hi id (by simp [idsOf])
    rcases hq with rfl | hq
    · refine okVal_nodeVal fmt pr parent _ _ a (fun p hp' => by have := hp p hp'; omega) ?_ hc hm.1
      intro k hk
      obtain ⟨c, hc', rfl⟩ := List.mem_map.mp hk
      have : c.id ∈ idsOfL ks := by
        clear hm hi hp hc hid hk
        induction ks with
        | nil => simp at hc'
        | cons x xs ih =>
          rcases List.mem_cons.mp hc' with rfl | h
          · cases c <;> simp [idsOfL, idsOf, PTree.id]
          · simp [idsOfL, ih h]
      have := hi c.id (by simp [idsOf, this])
      omega
    · exact okValL_objs fmt pr n hn ks id hm.2 (fun x hx => hi x (by simp [idsOf, hx])) hid hc q hq
theorem okValL_objs (fmt : R → List UInt8) (pr : List UInt8 → Option R) (n : Nat) (hn : n ≤ 18446744073709551615) :
    ∀ (ks : List PTree) (pid : Nat), markersOKL ks = true → (∀ x ∈ idsOfL ks, x ≤ n) → pid ≤ n →
    nLeavesL ks ≤ 2147483647 → ∀ q ∈ (objsOfL pid ks : List (Nat × Prim R)), OKVal fmt pr q.2
  | [], _, _, _, _, _, q, hq => by simp [objsOfL] at hq
  | k :: ks, pid, hm, hi, hp, hc, q, hq => by
    simp only [markersOKL, Bool.and_eq_true] at hm
    simp only [nLeavesL] at hc
    simp only [objsOfL, List.mem_append] at hq
    rcases hq with hq | hq
    · exact okVal_objs fmt pr n hn k (some pid) hm.1 (fun x hx => hi x (by simp [idsOfL, hx])) (fun p hp' => by cases hp'; exact hp)
        (by omega) q hq
    · exact okValL_objs fmt pr n hn ks pid hm.2 (fun x hx => hi x (by simp [idsOfL, hx])) hp (by omega) q hq
end

mutual
theorem objs_dict : ∀ (t : PTree) (parent : Option Nat), ∀ q ∈ (objsOf parent t : List (Nat × Prim R)), ∃ d, q.2 = .dict d
  | .leaf _ _, _, q, hq => by
    simp only [objsOf, List.mem_singleton] at hq
    subst hq
    exact ⟨_, rfl⟩
  | .node _ _ ks, _, q, hq => by
    simp only [objsOf, List.mem_cons] at hq
    rcases hq with rfl | hq
    · exact ⟨_, rfl⟩
    · exact objsL_dict ks _ q hq
theorem objsL_dict : ∀ (ks : List PTree) (pid : Nat), ∀ q ∈ (objsOfL pid ks : List (Nat × Prim R)), ∃ d, q.2 = .dict d
  | [], _, q, hq => by simp [objsOfL] at hq
  | k :: ks, pid, q, hq => by
    simp only [objsOfL, List.mem_append] at hq
    rcases hq with hq | hq
    · exact objs_dict k _ q hq
    · exact objsL_dict ks pid q hq
end

theorem find_of_mem_nodup : ∀ (l : List (Nat × Prim R)), (l.map (·.1)).Nodup → ∀ q ∈ l, l.find? (·.1 == q.1) = some q
  | [], _, q, hq => by simp at hq
  | x :: l, hn, q, hq => by
    simp only [List.map_cons, List.nodup_cons] at hn
    rcases List.mem_cons.mp hq with rfl | hq
    · simp
    · have hne : x.1 ≠ q.1 := fun h => hn.1 (by rw [h]; exact List.mem_map.mpr ⟨q, hq, rfl⟩)
      simp only [List.find?_cons, beq_iff_eq, hne, if_false]
      have : (x.1 == q.1) = false := by simpa using hne
      simp only [this]
      exact find_of_mem_nodup l hn.2 q hq

theorem okVal_bodyAt (fmt : R → List UInt8) (pr : List UInt8 → Option R) (objs : List (Nat × Prim R))
    (h : ∀ q ∈ objs, OKVal fmt pr q.2) (k : Nat) : OKVal fmt pr (bodyAt objs k) := by
  unfold bodyAt
  cases hf : objs.find? (·.1 == k) with
  | none => exact .direct _ (by simp [Serialisable]) (by simp [WF]) (by simp [vdepth])
  | some p => exact h p (List.mem_of_find?_eq_some hf)

/-- **the written document at byte level**: the file opens (header at 0, one revision), the trailer's /Root is the
    catalog `n + 1`, the catalog's body and the body of every node of the tree are what the byte-level resolver
    returns under their numbers. -/
theorem written_objects (fmt : R → List UInt8) (env : Env R) (hd : env.decrypt = none) (pfuel : Nat)
    (dec : Dict R → List UInt8 → Out (List UInt8)) (hdec : NoFilter dec) (t : PTree) (n : Nat) (hn : n ≤ 1000000)
    (hnd : (idsOf t).Nodup) (hrange : ∀ x ∈ idsOf t, 1 ≤ x ∧ x ≤ n) (hm : markersOK t = true)
    (hc : nLeaves t ≤ 2147483647)
    (b' : BDoc R) (i : SaveInfo) (hs : saveB fmt true (preparedDoc fmt t n) = (b', .ok i))
    (hsmall : b'.bytes.length ≤ fileMax) (hpf : 3 * b'.bytes.length ≤ pfuel) (rfuel : Nat) :
    ∃ tb T, openB env pfuel dec 2 b'.bytes = .ok (0, tb, T) ∧ dictGet T kRoot = some (.ref (n + 1) 0) ∧
      resolveB env pfuel dec (rfuel + 2) b'.bytes 0 tb (n + 1) = .ok (.plain (catalogVal t.id)) ∧
      ∀ q ∈ (objsOf none t : List (Nat × Prim R)), resolveB env pfuel dec (rfuel + 2) b'.bytes 0 tb q.1 = .ok (.plain q.2) := by
  have hmono : (preparedDoc fmt t n).bytes.length ≤ b'.bytes.length := by
    rw [(saveB_ok_iff fmt true _ _ i hs).2.2]; simp
  have hb0 : BaseOK (emptyDoc (n + 1) : BDoc R).doc [] := baseOK_emptyDoc _
  have hv0 : BaseVals fmt env.parseReal (emptyDoc (n + 1) : BDoc R).doc := baseVals_emptyDoc fmt _ _ (by omega)
  have hokobjs := okVal_objs fmt env.parseReal n (by omega) t none hm (fun x hx => (hrange x hx).2) (by simp) hc
  have hgood : GoodHist fmt env.parseReal (emptyDoc (n + 1)) (docOps t n) := by
    apply goodHist_of_vals
    intro op ho b
    simp only [docOps, List.mem_append, List.mem_map, List.mem_singleton] at ho
    rcases ho with ⟨k, _, rfl⟩ | rfl
    · exact okVal_bodyAt fmt _ _ hokobjs k
    · exact okVal_catalog fmt _ _ (by
        have : t.id ∈ idsOf t := by cases t <;> simp [idsOf, PTree.id]
        have := (hrange _ this).2; omega)
  have hnosave : ∀ op ∈ (docOps t n : List (OpB R)), ∀ ty, op ≠ .save ty := by
    intro op ho ty
    simp only [docOps, List.mem_append, List.mem_map, List.mem_singleton] at ho
    rcases ho with ⟨k, _, rfl⟩ | rfl <;> simp
  obtain ⟨⟨k1, k2, k3, k4, _⟩, kb⟩ := runB_nosave fmt (docOps t n) (emptyDoc (n + 1)) hnosave
  have h1 : HInv fmt env pfuel dec (emptyDoc (n + 1)) (preparedDoc fmt t n) :=
    hinv_runB fmt env hd pfuel dec hdec _ [] hb0 hv0 (docOps t n) _ (hinv_base fmt env pfuel dec _ [] hb0 (rep_emptyDoc _ _))
      hgood (by unfold preparedDoc at hmono; omega) (by unfold preparedDoc at hmono; omega)
  have bk := saveB_backend fmt _ [] _ b' i hb0 h1.inv h1.rep.len true (committedB_of_ok fmt true _ _ i hs)
  have hsecs : b'.doc.st.secs.length + 1 ≤ 2 := by
    rw [bk.secs]
    have : (preparedDoc fmt t n).doc.st.secs = [] := by
      have := k2; simp only [emptyDoc] at this; exact this
    rw [this]; simp
  obtain ⟨tb, T, hopen, _, hroot, hres⟩ := C09Bytes.reload_sees_pending_bytes fmt env hd pfuel dec hdec _ _ [] hb0 hv0 h1 b' i true hs
    hsmall hpf 2 hsecs rfuel
  have pf := prep_facts _ (preparedDoc fmt t n).doc [] hb0 h1.inv
  -- what is pending under which number
  have hops : (docOps t n : List (OpB R)) =
      (((List.range' 1 n).map (fun k => bodyAt (objsOf none t) k)) ++ [catalogVal t.id]).map .create := by
    simp [docOps]
  obtain ⟨_, _, hch⟩ := run_creates fmt (((List.range' 1 n).map (fun k => bodyAt (objsOf none t : List (Nat × Prim R)) k)) ++ [catalogVal t.id])
    (emptyDoc (n + 1))
  rw [← hops] at hch
  have hlen0 : (emptyDoc (n + 1) : BDoc R).doc.st.refs.length = 1 := rfl
  have plain_of : ∀ (id : Nat) (v : Prim R), (∀ info s, v ≠ .stream info s) →
      chLookup (preparedDoc fmt t n).doc.st.changes id = some (v, 0) →
      resolveB env pfuel dec (rfuel + 2) b'.bytes 0 tb id = .ok (.plain v) := by
    intro id v hv hc'
    obtain ⟨o, ho, hden⟩ := hres id v 0 (pf.ch_sup _ _ hc')
    cases hden with
    | plain _ _ => exact ho
    | stream info a data _ _ => exact absurd rfl (hv _ _)
  refine ⟨tb, T, hopen, hroot, ?_, ?_⟩
  · apply plain_of _ _ (by intro info s h; simp [catalogVal] at h)
    have := hch (n + 1)
    simp only [preparedDoc]
    rw [this, hlen0]
    have hin : 1 ≤ n + 1 ∧ n + 1 < 1 + (((List.range' 1 n).map (fun k => bodyAt (objsOf none t : List (Nat × Prim R)) k)) ++ [catalogVal t.id]).length := by
      simp
    simp only [hin, and_self, if_true]
    have : n + 1 - 1 = ((List.range' 1 n).map (fun k => bodyAt (objsOf none t : List (Nat × Prim R)) k)).length := by simp
    rw [this, List.getElem?_append_right (Nat.le_refl _)]
    simp
  · intro q hq
    have hqid : q.1 ∈ idsOf t := by rw [← ids_objs t none]; exact List.mem_map.mpr ⟨q, hq, rfl⟩
    obtain ⟨hq1, hq2⟩ := hrange _ hqid
    have hbody : bodyAt (objsOf none t : List (Nat × Prim R)) q.1 = q.2 := by
      simp only [bodyAt, find_of_mem_nodup _ (by rw [ids_objs]; exact hnd) q hq]
    have hns : ∀ info s, q.2 ≠ .stream info s := by
      intro info s h
      obtain ⟨d, hd'⟩ := objs_dict t none q hq
      rw [hd'] at h
      cases h
    apply plain_of _ _ hns
    have := hch q.1
    simp only [preparedDoc]
    rw [this, hlen0]
    have hin : 1 ≤ q.1 ∧ q.1 < 1 + (((List.range' 1 n).map (fun k => bodyAt (objsOf none t : List (Nat × Prim R)) k)) ++ [catalogVal t.id]).length := by
      simp; omega
    simp only [hin, and_self, if_true]
    rw [List.getElem?_append_left (by simp; omega)]
    simp only [List.getElem?_map, List.getElem?_range' , Option.map_map]
    have : q.1 - 1 < n := by omega
    simp [List.getElem?_range', this, hbody]
    rw [← hbody]
    congr 2
    omega

end PageTreeB
