import PdfModel.Spec.PageTreeBytes
import PdfModel.Lemmas.PageTree
import PdfModel.Lemmas.BuildBytes

/-! C07 at byte level: what the spec writer writes is read back as the object table of the tree. -/

set_option linter.unusedSimpArgs false

namespace PageTreeB
open PdfLex PageTree BuildBytes SaveBytes Storage RepBytes OpenBytes Xref
open PdfSyntax (WF WFE WFL keysOf vdepth vdepthE vdepthL)

variable {R : Type}

/-! ### reading a written body -/

theorem refsOf_refs : ∀ (ks : List Nat), refsOf (ks.map fun k => (Prim.ref k 0 : Prim R)) = some ks
  | [] => rfl
  | k :: ks => by simp [refsOf, refsOf_refs ks]

theorem boxMarker_boxVal (m : Nat) : boxMarker (some (boxVal m : Prim R)) = some m := by
  simp [boxMarker, boxVal]

theorem resMarker_resVal (m : Nat) (hm : m ≤ 2147483647) : resMarker (some (resVal m : Prim R)) = some m := by
  have := parseUsize_natTok (fmtNat m) m (fmtNat_spec m) (by unfold OffLex.usizeMax; omega)
  simp [resMarker, resVal, dictGet, this]

theorem attrsOf_entries (pre : Dict R) (a : Attrs) (ha : attrsOK a = true)
    (h1 : dictGet pre kMediaBox = none) (h2 : dictGet pre kCropBox = none) (h3 : dictGet pre kResources = none) :
    attrsOf (pre ++ attrEntries a) = a := by
  have dg : ∀ (p q : Dict R) (k : List UInt8), dictGet p k = none → dictGet (p ++ q) k = dictGet q k := by
    intro p
    induction p with
    | nil => intro q k _; rfl
    | cons kv p ih =>
      intro q k h
      obtain ⟨k', v'⟩ := kv
      simp only [dictGet, List.cons_append] at h ⊢
      split at h
      · cases h
      · rename_i hk; simp only [hk, if_false]; exact ih q k h
  obtain ⟨m, c, r⟩ := a
  simp only [attrsOK, Bool.and_eq_true, decide_eq_true_eq] at ha
  simp only [attrsOf, dg pre _ _ h1, dg pre _ _ h2, dg pre _ _ h3]
  cases m <;> cases c <;> cases r <;>
    simp [attrEntries, dictGet, kMediaBox, kCropBox, kResources, boxMarker, boxVal, resMarker_resVal, boxMarker_boxVal] <;>
    first
      | rfl
      | (simp only [Option.getD_some] at ha; exact resMarker_resVal _ (by omega))

theorem dictGet_append_none (p q : Dict R) (k : List UInt8) (h : dictGet p k = none) :
    dictGet (p ++ q) k = dictGet q k := by
  induction p with
  | nil => rfl
  | cons kv p ih =>
    obtain ⟨k', v'⟩ := kv
    simp only [dictGet, List.cons_append] at h ⊢
    split at h
    · cases h
    · rename_i hk; simp only [hk, if_false]; exact ih h

theorem dictGet_append_some (p q : Dict R) (k : List UInt8) (v : Prim R) (h : dictGet p k = some v) :
    dictGet (p ++ q) k = some v := by
  induction p with
  | nil => simp [dictGet] at h
  | cons kv p ih =>
    obtain ⟨k', v'⟩ := kv
    simp only [dictGet, List.cons_append] at h ⊢
    split at h
    · rename_i hk; simp only [hk, if_true]; exact h
    · rename_i hk; simp only [hk, if_false]; exact ih h

theorem nodeOf_leafVal (p : Nat) (a : Attrs) (ha : attrsOK a = true) :
    nodeOf (leafVal p a : Prim R) = .page p a := by
  let pre : Dict R := [(SaveBytes.kType, .name kPage), (kParent, .ref p 0)]
  have hk : ∀ k, k = kMediaBox ∨ k = kCropBox ∨ k = kResources → dictGet pre k = none := by
    intro k hk
    rcases hk with rfl | rfl | rfl <;> simp [pre, dictGet, SaveBytes.kType, kParent, kMediaBox, kCropBox, kResources]
  have hat := attrsOf_entries pre a ha (hk _ (Or.inl rfl)) (hk _ (Or.inr (Or.inl rfl))) (hk _ (Or.inr (Or.inr rfl)))
  have h1 : dictGet (pre ++ attrEntries a) OpenBytes.kType = some (.name kPage) :=
    dictGet_append_some pre _ _ _ (by simp [pre, dictGet, SaveBytes.kType, OpenBytes.kType])
  have h2 : dictGet (pre ++ attrEntries a) kParent = some (.ref p 0) :=
    dictGet_append_some pre _ _ _ (by simp [pre, dictGet, SaveBytes.kType, kParent])
  show nodeOf (.dict (pre ++ attrEntries a)) = _
  simp only [nodeOf, h1, h2, hat, if_true]

theorem nodeOf_nodeVal (parent : Option Nat) (kids : List Nat) (count : Nat) (a : Attrs) (ha : attrsOK a = true) :
    nodeOf (nodeVal parent kids count a : Prim R) = .pages parent kids count a := by
  let pre : Dict R := [(SaveBytes.kType, .name kPagesT)] ++ (match parent with | some p => [(kParent, .ref p 0)] | none => []) ++
    [(kKids, .arr (kids.map fun k => .ref k 0)), (kCount, .int count)]
  have hk : ∀ k, k = kMediaBox ∨ k = kCropBox ∨ k = kResources → dictGet pre k = none := by
    intro k hk
    rcases hk with rfl | rfl | rfl <;> cases parent <;>
      simp [pre, dictGet, SaveBytes.kType, kParent, kKids, kCount, kMediaBox, kCropBox, kResources]
  have hat := attrsOf_entries pre a ha (hk _ (Or.inl rfl)) (hk _ (Or.inr (Or.inl rfl))) (hk _ (Or.inr (Or.inr rfl)))
  have h1 : dictGet (pre ++ attrEntries a) OpenBytes.kType = some (.name kPagesT) :=
    dictGet_append_some pre _ _ _ (by cases parent <;> simp [pre, dictGet, SaveBytes.kType, OpenBytes.kType])
  have h3 : dictGet (pre ++ attrEntries a) kKids = some (.arr (kids.map fun k => .ref k 0)) :=
    dictGet_append_some pre _ _ _ (by cases parent <;> simp [pre, dictGet, SaveBytes.kType, kParent, kKids])
  have h4 : dictGet (pre ++ attrEntries a) kCount = some (.int count) :=
    dictGet_append_some pre _ _ _ (by cases parent <;> simp [pre, dictGet, SaveBytes.kType, kParent, kKids, kCount])
  have hne : kPagesT ≠ kPage := by decide
  show nodeOf (.dict (pre ++ attrEntries a)) = _
  cases parent with
  | none =>
    have h2 : dictGet (pre ++ attrEntries a) kParent = none := by
      rw [dictGet_append_none pre _ _ (by simp [pre, dictGet, SaveBytes.kType, kParent, kKids, kCount])]
      obtain ⟨m, c, r⟩ := a
      cases m <;> cases c <;> cases r <;> simp [attrEntries, dictGet, kParent, kMediaBox, kCropBox, kResources]
    simp only [nodeOf, h1, h2, h3, h4, hat, hne, if_false, if_true, refsOf_refs]
    simp
  | some p =>
    have h2 : dictGet (pre ++ attrEntries a) kParent = some (.ref p 0) :=
      dictGet_append_some pre _ _ _ (by simp [pre, dictGet, SaveBytes.kType, kParent])
    simp only [nodeOf, h1, h2, h3, h4, hat, hne, if_false, if_true, refsOf_refs]
    simp

/-! ### the table of the written objects represents the tree -/

mutual
theorem represents_of_objs (tbl : Tbl) : ∀ (t : PTree) (parent : Option Nat), markersOK t = true →
    (∀ p ∈ (objsOf parent t : List (Nat × Prim R)), tbl p.1 = some (nodeOf p.2)) →
    (∀ q, parent = some q → True) → (match t with | .leaf _ _ => parent.isSome | _ => true) = true →
    represents tbl parent t = true
  | .leaf id a, parent, hm, h, _, hp => by
    cases parent with
    | none => simp at hp
    | some q =>
      have := h (id, leafVal q a) (by simp [objsOf])
      simp only [markersOK] at hm
      simp only [nodeOf_leafVal q a hm] at this
      simp [represents, this]
  | .node id a ks, parent, hm, h, _, _ => by
    simp only [markersOK, Bool.and_eq_true] at hm
    have := h (id, nodeVal parent (ks.map PTree.id) (nLeavesL ks) a) (by simp [objsOf])
    simp only [nodeOf_nodeVal _ _ _ a hm.1] at this
    simp only [represents, this, decide_true, Bool.true_and]
    exact representsL_of_objs tbl ks id hm.2 (fun p hp => h p (by simp [objsOf, hp]))
theorem representsL_of_objs (tbl : Tbl) : ∀ (ks : List PTree) (pid : Nat), markersOKL ks = true →
    (∀ p ∈ (objsOfL pid ks : List (Nat × Prim R)), tbl p.1 = some (nodeOf p.2)) → representsL tbl pid ks = true
  | [], _, _, _ => rfl
  | k :: ks, pid, hm, h => by
    simp only [markersOKL, Bool.and_eq_true] at hm
    simp only [representsL, Bool.and_eq_true]
    refine ⟨represents_of_objs tbl k (some pid) hm.1 (fun p hp => h p (by simp [objsOfL, hp])) (fun _ _ => trivial)
      (by cases k <;> rfl), representsL_of_objs tbl ks pid hm.2 (fun p hp => h p (by simp [objsOfL, hp]))⟩
end

end PageTreeB
