import PdfModel.Lemmas.EncRL

set_option linter.unusedSimpArgs false

/-! PNG predictors: `unfilter` undoes every filter type of the PNG specification, for every pixel size. -/

namespace Enc
open Codecs

def tagOf : PredictorType → Nat
  | .noFilter => 0 | .sub => 1 | .up => 2 | .avg => 3 | .paeth => 4

theorem forFrom_inv (P : Nat → Bytes → Prop) (body : Nat → Bytes → Bytes) :
    ∀ (n lo : Nat) (out : Bytes), P lo out →
      (∀ i o, lo ≤ i → i < lo + n → P i o → P (i + 1) (body i o)) → P (lo + n) (forFrom body lo n out) := by
  intro n
  induction n with
  | zero => intro lo out h _; simpa [forFrom] using h
  | succ n ih =>
    intro lo out h step
    have h1 : P (lo + 1) (body lo out) := step lo out (Nat.le_refl _) (by omega) h
    have := ih (lo + 1) (body lo out) h1 (fun i o hi hlt hp => step i o (by omega) (by omega) hp)
    simpa [forFrom, Nat.add_assoc, Nat.add_comm 1 n] using this

theorem take_set_succ (o : Bytes) (i : Nat) (v : UInt8) (h : i < o.length) :
    (o.set i v).take (i + 1) = o.take i ++ [v] := by
  induction o generalizing i with
  | nil => simp at h
  | cons x xs ih =>
    cases i with
    | zero => simp
    | succ k =>
      simp at h
      simp [ih k h]

theorem take_succ_getD (row : Bytes) (i : Nat) (h : i < row.length) :
    row.take (i + 1) = row.take i ++ [row.getD i 0] := by
  induction row generalizing i with
  | nil => simp at h
  | cons x xs ih =>
    cases i with
    | zero => simp
    | succ k =>
      simp at h
      simp [ih k h]

theorem getD_of_take_eq {o r : Bytes} {i j : Nat} (h : o.take i = r.take i) (hj : j < i) :
    o.getD j 0 = r.getD j 0 := by
  have h1 : (o.take i).getD j 0 = (r.take i).getD j 0 := by rw [h]
  simpa [List.getD, List.getElem?_take, hj] using h1

theorem getD_filterRow (t bpp : Nat) (prev row : Bytes) (i : Nat) (h : i < row.length) :
    (pngFilterRow t bpp prev row).getD i 0 =
      row.getD i 0 - pngPredict t (if i < bpp then 0 else row.getD (i - bpp) 0) (prev.getD i 0)
        (if i < bpp then 0 else prev.getD (i - bpp) 0) := by
  simp [pngFilterRow, List.getD, h]

theorem length_filterRow (t bpp : Nat) (prev row : Bytes) : (pngFilterRow t bpp prev row).length = row.length := by
  simp [pngFilterRow]

theorem wrap16_id {x : Int} (h1 : -32768 ≤ x) (h2 : x < 32768) : wrap16 x = x := by
  unfold wrap16; omega

/-- the `i16` computation of `filter_paeth` never leaves the `i16` range (every `wrap16` is the identity),
    hence equals the PNG specification's Paeth function over the integers -/
theorem filterPaeth_eq_spec (a b c : UInt8) : filterPaeth a b c = paethSpec a b c := by
  have ha : a.toNat < 256 := by have := a.toNat_lt_size; simpa [UInt8.size] using this
  have hb : b.toNat < 256 := by have := b.toNat_lt_size; simpa [UInt8.size] using this
  have hc : c.toNat < 256 := by have := c.toNat_lt_size; simpa [UInt8.size] using this
  unfold filterPaeth paethSpec
  simp only
  have e1 : wrap16 ((a.toNat : Int) + b.toNat) = (a.toNat : Int) + b.toNat := wrap16_id (by omega) (by omega)
  rw [e1]
  have e2 : wrap16 ((a.toNat : Int) + b.toNat - c.toNat) = (a.toNat : Int) + b.toNat - c.toNat := wrap16_id (by omega) (by omega)
  rw [e2]
  have e3 : wrap16 ((a.toNat : Int) + b.toNat - c.toNat - a.toNat) = (a.toNat : Int) + b.toNat - c.toNat - a.toNat := wrap16_id (by omega) (by omega)
  have e4 : wrap16 ((a.toNat : Int) + b.toNat - c.toNat - b.toNat) = (a.toNat : Int) + b.toNat - c.toNat - b.toNat := wrap16_id (by omega) (by omega)
  have e5 : wrap16 ((a.toNat : Int) + b.toNat - c.toNat - c.toNat) = (a.toNat : Int) + b.toNat - c.toNat - c.toNat := wrap16_id (by omega) (by omega)
  rw [e3, e4, e5]
  have f1 : wrap16 (((a.toNat : Int) + b.toNat - c.toNat - a.toNat).natAbs : Int) = (((a.toNat : Int) + b.toNat - c.toNat - a.toNat).natAbs : Int) := wrap16_id (by omega) (by omega)
  have f2 : wrap16 (((a.toNat : Int) + b.toNat - c.toNat - b.toNat).natAbs : Int) = (((a.toNat : Int) + b.toNat - c.toNat - b.toNat).natAbs : Int) := wrap16_id (by omega) (by omega)
  have f3 : wrap16 (((a.toNat : Int) + b.toNat - c.toNat - c.toNat).natAbs : Int) = (((a.toNat : Int) + b.toNat - c.toNat - c.toNat).natAbs : Int) := wrap16_id (by omega) (by omega)
  rw [f1, f2, f3]
  simp only [Int.ofNat_le]

theorem half_eq : ∀ b : UInt8, b / 2 = UInt8.ofNat ((0 + b.toNat) / 2) := by decide +kernel

/-- the invariant of every `unfilter` loop: the part of the output row that is already written is the
    original row -/
def RowInv (row : Bytes) (i : Nat) (o : Bytes) : Prop := o.length = row.length ∧ o.take i = row.take i

theorem rowInv_step {row o : Bytes} {i : Nat} {v : UInt8} (hi : i < row.length) (h : RowInv row i o)
    (hv : v = row.getD i 0) : RowInv row (i + 1) (o.set i v) := by
  obtain ⟨hl, ht⟩ := h
  refine ⟨by simp [hl], ?_⟩
  rw [take_set_succ o i v (by omega), take_succ_getD row i hi, ht, hv]

theorem rowInv_done {row o : Bytes} (h : RowInv row row.length o) : o = row := by
  obtain ⟨hl, ht⟩ := h
  have h1 : o.take o.length = o := List.take_length
  have h2 : row.take row.length = row := List.take_length
  rw [← h1, hl, ht, h2]

/-- **`unfilter` inverts the PNG filter of the same type**, for every pixel distance `bpp` between 1 and
    the row length, whatever the output buffer held before -/
theorem unfilter_filter (t : PredictorType) (bpp : Nat) (prev row out0 : Bytes)
    (hb1 : 1 ≤ bpp) (hbl : bpp ≤ row.length) (hp : prev.length = row.length) (ho : out0.length = row.length) :
    unfilter t bpp prev (pngFilterRow (tagOf t) bpp prev row) out0 = .ok row := by
  have hlen := length_filterRow (tagOf t) bpp prev row
  unfold unfilter
  simp only [hlen, ho, hp, ne_eq, not_true_eq_false, if_false, show ¬ (bpp > row.length) by omega]
  cases t with
  | noFilter =>
    simp only [tagOf]
    congr 1
    apply List.ext_getElem
    · simp [pngFilterRow]
    · intro i h1 h2
      simp [pngFilterRow, pngPredict, List.getD]
      simp [pngFilterRow] at h1
      simp [h1]
  | sub =>
    simp only [tagOf]
    congr 1
    have hstart : RowInv row bpp ((pngFilterRow 1 bpp prev row).take bpp ++ out0.drop bpp) := by
      refine ⟨by simp [length_filterRow]; omega, ?_⟩
      rw [List.take_append_of_le_length (by simp [length_filterRow]; omega)]
      simp only [List.take_take, Nat.min_self]
      apply List.ext_getElem
      · simp [length_filterRow]
      · intro i h1 h2
        simp [length_filterRow] at h1
        have hi : i < row.length := by omega
        have hib : i < bpp := by omega
        have := getD_filterRow 1 bpp prev row i hi
        simp [hib, pngPredict, List.getD, hi, length_filterRow] at this
        simp [List.getElem_take, this]
    have := forFrom_inv (RowInv row)
      (fun i o => o.set i ((pngFilterRow 1 bpp prev row).getD i 0 + o.getD (i - bpp) 0)) (row.length - bpp) bpp _ hstart
      (by
        intro i o hlo hhi hinv
        have hi : i < row.length := by omega
        apply rowInv_step hi hinv
        rw [getD_filterRow 1 bpp prev row i hi, getD_of_take_eq hinv.2 (show i - bpp < i by omega)]
        simp [show ¬ i < bpp by omega, pngPredict, UInt8.sub_add_cancel])
    rw [show bpp + (row.length - bpp) = row.length by omega] at this
    exact rowInv_done this
  | up =>
    simp only [tagOf]
    congr 1
    have hstart : RowInv row 0 out0 := ⟨ho, by simp⟩
    have := forFrom_inv (RowInv row)
      (fun i o => o.set i ((pngFilterRow 2 bpp prev row).getD i 0 + prev.getD i 0)) row.length 0 _ hstart
      (by
        intro i o hlo hhi hinv
        have hi : i < row.length := by omega
        apply rowInv_step hi hinv
        rw [getD_filterRow 2 bpp prev row i hi]
        simp [pngPredict, UInt8.sub_add_cancel])
    rw [Nat.zero_add] at this
    exact rowInv_done this
  | avg =>
    simp only [tagOf]
    congr 1
    have hstart : RowInv row 0 out0 := ⟨ho, by simp⟩
    have h1 := forFrom_inv (RowInv row)
      (fun i o => o.set i ((pngFilterRow 3 bpp prev row).getD i 0 + prev.getD i 0 / 2)) bpp 0 _ hstart
      (by
        intro i o hlo hhi hinv
        have hi : i < row.length := by omega
        apply rowInv_step hi hinv
        rw [getD_filterRow 3 bpp prev row i hi]
        simp only [show i < bpp by omega, if_true, pngPredict, UInt8.toNat_zero]
        rw [half_eq, UInt8.sub_add_cancel])
    rw [Nat.zero_add] at h1
    have := forFrom_inv (RowInv row)
      (fun i o => o.set i ((pngFilterRow 3 bpp prev row).getD i 0 + avg2 (o.getD (i - bpp) 0) (prev.getD i 0)))
      (row.length - bpp) bpp _ h1
      (by
        intro i o hlo hhi hinv
        have hi : i < row.length := by omega
        apply rowInv_step hi hinv
        rw [getD_filterRow 3 bpp prev row i hi, getD_of_take_eq hinv.2 (show i - bpp < i by omega)]
        simp [show ¬ i < bpp by omega, pngPredict, avg2, UInt8.sub_add_cancel])
    rw [show bpp + (row.length - bpp) = row.length by omega] at this
    exact rowInv_done this
  | paeth =>
    simp only [tagOf]
    congr 1
    have hstart : RowInv row 0 out0 := ⟨ho, by simp⟩
    have h1 := forFrom_inv (RowInv row)
      (fun i o => o.set i ((pngFilterRow 4 bpp prev row).getD i 0 + filterPaeth 0 (prev.getD i 0) 0)) bpp 0 _ hstart
      (by
        intro i o hlo hhi hinv
        have hi : i < row.length := by omega
        apply rowInv_step hi hinv
        rw [getD_filterRow 4 bpp prev row i hi]
        simp only [show i < bpp by omega, if_true, pngPredict, filterPaeth_eq_spec]
        rw [UInt8.sub_add_cancel])
    rw [Nat.zero_add] at h1
    have := forFrom_inv (RowInv row)
      (fun i o => o.set i ((pngFilterRow 4 bpp prev row).getD i 0 +
        filterPaeth (o.getD (i - bpp) 0) (prev.getD i 0) (prev.getD (i - bpp) 0)))
      (row.length - bpp) bpp _ h1
      (by
        intro i o hlo hhi hinv
        have hi : i < row.length := by omega
        apply rowInv_step hi hinv
        rw [getD_filterRow 4 bpp prev row i hi, getD_of_take_eq hinv.2 (show i - bpp < i by omega)]
        simp [show ¬ i < bpp by omega, pngPredict, filterPaeth_eq_spec, UInt8.sub_add_cancel])
    rw [show bpp + (row.length - bpp) = row.length by omega] at this
    exact rowInv_done this

end Enc
