import PdfModel.Model.ContentInline

/-! The terminator search of inline images finds the `EI` that follows the data, whatever white-space byte
    precedes it, as long as the bytes before it contain no `E` `I` pair (C08, byte level of `BI … ID … EI`). -/

namespace ContentInline

/-- no `E` immediately followed by `I` -/
def noEI : List UInt8 → Bool
  | 69 :: 73 :: _ => false
  | _ :: rest => noEI rest
  | [] => true

theorem noEI_tail {b : UInt8} {bs : List UInt8} (h : noEI (b :: bs) = true) : noEI bs = true := by
  cases bs with
  | nil => rfl
  | cons c cs =>
    unfold noEI at h
    split at h
    · cases h
    · rename_i heq
      cases heq
      exact h
    · rename_i heq; cases heq

theorem ws_ne_EI (w : UInt8) (h : isWs w = true) : w ≠ 69 ∧ w ≠ 73 := by
  simp only [isWs, Bool.or_eq_true, beq_iff_eq] at h
  rcases h with ((((rfl | rfl) | rfl) | rfl) | rfl) | rfl <;> decide

theorem startsEI_pre {bs : List UInt8} (h : noEI bs = true) (w : UInt8) (hw : isWs w = true) (tail : List UInt8)
    (ht : endsToken tail = true) : startsEI (bs ++ w :: 69 :: 73 :: tail) = (bs == []) := by
  obtain ⟨w69, w73⟩ := ws_ne_EI w hw
  cases bs with
  | nil => simp [startsEI, hw, ht]
  | cons b cs =>
    cases cs with
    | nil =>
      simp only [List.cons_append, List.nil_append]
      unfold startsEI
      split
      · rename_i heq; simp at heq
      · rfl
    | cons c ds =>
      cases ds with
      | nil =>
        simp only [List.cons_append, List.nil_append]
        unfold startsEI
        split
        · rename_i heq; simp at heq; exact absurd heq.2.2.1 w73
        · rfl
      | cons d es =>
        simp only [List.cons_append]
        unfold startsEI
        split
        · rename_i heq
          simp only [List.cons.injEq] at heq
          obtain ⟨_, rfl, rfl, _⟩ := heq
          have := noEI_tail h
          simp [noEI] at this
        · rfl

theorem findEI_append (pre tail : List UInt8) (w : UInt8) (hw : isWs w = true) (ht : endsToken tail = true)
    (h : noEI pre = true) : findEI (pre ++ w :: 69 :: 73 :: tail) = some pre.length := by
  induction pre with
  | nil => simp [findEI, startsEI, hw, ht]
  | cons b pre ih =>
    have hs := startsEI_pre h w hw tail ht
    simp only [List.cons_append] at hs ⊢
    rw [findEI, hs, ih (noEI_tail h)]
    simp

end ContentInline
