import PdfModel.Model.ContentInline

/-! The terminator search of inline images finds the LF `E` `I` that the writer put after the data, as long
    as the bytes before it contain no `E` `I` pair (C08, byte level of the `BI … ID … EI` construct). -/

namespace ContentInline

/-- no `E` immediately followed by `I` -/
def noEI : List UInt8 → Bool
  | 69 :: 73 :: _ => false
  | _ :: rest => noEI rest
  | [] => true

theorem noEI_tail {b : UInt8} {bs : List UInt8} (h : noEI (b :: bs) = true) : noEI bs = true := by
  cases bs with
  | nil => rfl
  | cons c cs =>
    unfold noEI at h
    split at h
    · cases h
    · rename_i heq
      cases heq
      exact h
    · rename_i heq; cases heq

theorem startsLfEI_false_of_noEI {bs : List UInt8} (h : noEI bs = true) (tail : List UInt8) :
    startsLfEI (bs ++ 10 :: 69 :: 73 :: tail) = (bs == []) := by
  cases bs with
  | nil => rfl
  | cons b cs =>
    cases cs with
    | nil =>
      -- b, 10, 69, … : the second byte is LF, not `E`
      simp only [List.cons_append, List.nil_append]
      unfold startsLfEI
      split
      · rename_i heq; simp at heq
      · rfl
    | cons c ds =>
      cases ds with
      | nil =>
        -- b, c, 10, … : the third byte is LF, not `I`
        simp only [List.cons_append, List.nil_append]
        unfold startsLfEI
        split
        · rename_i heq; simp at heq
        · rfl
      | cons d es =>
        simp only [List.cons_append]
        unfold startsLfEI
        split
        · rename_i heq
          simp only [List.cons.injEq] at heq
          obtain ⟨_, rfl, rfl, _⟩ := heq
          have := noEI_tail h
          simp [noEI] at this
        · rfl

theorem findLfEI_append (pre tail : List UInt8) (h : noEI pre = true) :
    findLfEI (pre ++ 10 :: 69 :: 73 :: tail) = some pre.length := by
  induction pre with
  | nil => simp [findLfEI, startsLfEI]
  | cons b pre ih =>
    have hs := startsLfEI_false_of_noEI h tail
    simp only [List.cons_append] at hs ⊢
    rw [findLfEI, hs, ih (noEI_tail h)]
    simp

end ContentInline
