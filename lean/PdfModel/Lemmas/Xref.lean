import PdfModel.Model.Xref

/-! Helper lemmas for C02: the `Out`-valued merge of the model equals a pure fold over
    (object number, entry) pairs, and the pure fold keeps the first mention of every number. -/

namespace Xref

/-- entries a section reader can produce -/
def isEntry : XRef → Bool
  | .free .. | .raw .. | .stream .. => true
  | _ => false

def gen : XRef → Nat
  | .free _ g => g
  | .raw _ g => g
  | _ => 0

/-- pure mirror of `shouldUpdate` for proper entries and tables without `Promised` -/
def upd (dst inc : XRef) : Bool :=
  match dst with
  | .raw _ g | .free _ g => decide (gen inc > g)
  | .stream _ _ => false
  | .invalid => true
  | .promised => false

def mergeE (dst inc : XRef) : XRef := if upd dst inc then inc else dst

def noProm (t : Table) : Prop := ∀ e ∈ t, e ≠ .promised

theorem shouldUpdate_eq (dst inc : XRef) (hd : dst ≠ .promised) (hi : isEntry inc = true) :
    shouldUpdate dst inc = .ok (upd dst inc) := by
  cases dst <;> cases inc <;> simp_all [shouldUpdate, upd, XRef.genNr, gen, isEntry]

def setAt (t : Table) (i : Nat) (f : XRef → XRef) : Table :=
  match t, i with
  | [], _ => []
  | x :: xs, 0 => f x :: xs
  | x :: xs, i+1 => x :: setAt xs i f

theorem setAt_get (t : Table) (i j : Nat) (f) :
    (setAt t i f)[j]? = if i = j then t[j]?.map f else t[j]? := by
  induction t generalizing i j with
  | nil => simp [setAt]
  | cons x xs ih => cases i <;> cases j <;> simp [setAt, ih]

theorem setAt_length (t : Table) (i : Nat) (f) : (setAt t i f).length = t.length := by
  induction t generalizing i with
  | nil => simp [setAt]
  | cons x xs ih => cases i <;> simp [setAt, ih]

theorem setAt_mem (t : Table) (i : Nat) (f) (e) (h : e ∈ setAt t i f) : e ∈ t ∨ ∃ d ∈ t, e = f d := by
  induction t generalizing i with
  | nil => simp [setAt] at h
  | cons x xs ih =>
    cases i with
    | zero =>
      simp only [setAt, List.mem_cons] at h
      rcases h with h | h
      · exact Or.inr ⟨x, by simp, h⟩
      · exact Or.inl (by simp [h])
    | succ i =>
      simp only [setAt, List.mem_cons] at h
      rcases h with h | h
      · exact Or.inl (by simp [h])
      · rcases ih i h with h | ⟨d, hd, he⟩
        · exact Or.inl (by simp [h])
        · exact Or.inr ⟨d, by simp [hd], he⟩

theorem set_eq_setAt (t : Table) (i : Nat) (x : XRef) : t.set i x = setAt t i (fun _ => x) := by
  induction t generalizing i with
  | nil => simp [setAt]
  | cons y ys ih => cases i <;> simp [setAt, ih]

theorem setAt_id (t : Table) (i : Nat) (f : XRef → XRef) (h : ∀ d, t[i]? = some d → f d = d) :
    setAt t i f = t := by
  induction t generalizing i with
  | nil => simp [setAt]
  | cons y ys ih =>
    cases i with
    | zero => simp [setAt, h y (by simp)]
    | succ i => simp only [setAt]; rw [ih i (fun d hd => h d (by simpa using hd))]

theorem addEntry_eq (t : Table) (i : Nat) (inc : XRef) (ht : noProm t) (hi : isEntry inc = true) :
    addEntry t i inc = .ok (setAt t i (fun d => mergeE d inc)) := by
  unfold addEntry
  cases hg : t[i]? with
  | none =>
    simp only
    rw [setAt_id]; intro d hd; rw [hg] at hd; cases hd
  | some dst =>
    have hmem : dst ∈ t := List.mem_of_getElem? hg
    simp only [shouldUpdate_eq dst inc (ht dst hmem) hi]
    cases hu : upd dst inc with
    | true =>
      simp only
      congr 1
      rw [set_eq_setAt]
      -- both update slot i: one with const, one with mergeE
      apply List.ext_getElem?
      intro j
      rw [setAt_get, setAt_get]
      by_cases hij : i = j
      · subst hij; simp [hg, mergeE, hu]
      · simp [hij]
    | false =>
      simp only
      rw [setAt_id]; intro d hd; rw [hg] at hd; cases hd; simp [mergeE, hu]

theorem mergeE_noProm (d inc : XRef) (hd : d ≠ .promised) (hi : isEntry inc = true) :
    mergeE d inc ≠ .promised := by
  unfold mergeE; split
  · intro h; rw [h] at hi; simp [isEntry] at hi
  · exact hd

theorem setAt_noProm (t : Table) (i : Nat) (inc) (ht : noProm t) (hi : isEntry inc = true) :
    noProm (setAt t i (fun d => mergeE d inc)) := by
  intro e he
  rcases setAt_mem _ _ _ _ he with h | ⟨d, hd, rfl⟩
  · exact ht e h
  · exact mergeE_noProm d inc (ht d hd) hi

/-- (object number, entry) pairs of a run of entries starting at `i` -/
def pairsFrom (i : Nat) : List XRef → List (Nat × XRef)
  | [] => []
  | e :: es => (i, e) :: pairsFrom (i + 1) es

def subPairs (s : Sub) : List (Nat × XRef) := pairsFrom s.first s.entries
def secPairs (sec : List Sub) : List (Nat × XRef) := sec.flatMap subPairs
def allPairs (secs : List (List Sub)) : List (Nat × XRef) := secs.flatMap secPairs

def pureAdd (t : Table) (ps : List (Nat × XRef)) : Table :=
  ps.foldl (fun t p => setAt t p.1 (fun d => mergeE d p.2)) t

def pairsOK (ps : List (Nat × XRef)) : Prop := ∀ p ∈ ps, isEntry p.2 = true

theorem pureAdd_noProm (t : Table) (ps) (ht : noProm t) (hp : pairsOK ps) : noProm (pureAdd t ps) := by
  induction ps generalizing t with
  | nil => simpa [pureAdd]
  | cons p ps ih =>
    simp only [pureAdd, List.foldl_cons]
    exact ih _ (setAt_noProm t p.1 p.2 ht (hp p (by simp))) (fun q hq => hp q (by simp [hq]))

theorem pureAdd_append (t : Table) (a b) : pureAdd t (a ++ b) = pureAdd (pureAdd t a) b := by
  simp [pureAdd, List.foldl_append]

theorem addFrom_eq (t : Table) (i : Nat) (es : List XRef) (ht : noProm t) (he : pairsOK (pairsFrom i es)) :
    addFrom t i es = .ok (pureAdd t (pairsFrom i es)) := by
  induction es generalizing t i with
  | nil => simp [addFrom, pureAdd, pairsFrom]
  | cons e es ih =>
    have h1 : isEntry e = true := he (i, e) (by simp [pairsFrom])
    simp only [addFrom, addEntry_eq t i e ht h1]
    rw [ih _ _ (setAt_noProm t i e ht h1) (fun q hq => he q (by simp [pairsFrom, hq]))]
    simp [pureAdd, pairsFrom]

theorem addSubs_eq (t : Table) (sec : List Sub) (ht : noProm t) (he : pairsOK (secPairs sec)) :
    addSubs t sec = .ok (pureAdd t (secPairs sec)) := by
  induction sec generalizing t with
  | nil => simp [addSubs, pureAdd, secPairs]
  | cons s ss ih =>
    have hs : pairsOK (subPairs s) := fun q hq => he q (by simp [secPairs, hq])
    have hss : pairsOK (secPairs ss) := fun q hq => he q (by
      simp only [secPairs, List.flatMap_cons, List.mem_append]; exact Or.inr hq)
    simp only [addSubs, addSub, addFrom_eq t s.first s.entries ht hs]
    have := ih _ (pureAdd_noProm t _ ht hs) hss
    simp only [subPairs] at this
    rw [this]
    simp [secPairs, pureAdd_append, subPairs]

theorem mergeAll_eq (t : Table) (secs : List (List Sub)) (ht : noProm t) (he : pairsOK (allPairs secs)) :
    mergeAll t secs = .ok (pureAdd t (allPairs secs)) := by
  induction secs generalizing t with
  | nil => simp [mergeAll, pureAdd, allPairs]
  | cons s ss ih =>
    have hs : pairsOK (secPairs s) := fun q hq => he q (by simp [allPairs, hq])
    have hss : pairsOK (allPairs ss) := fun q hq => he q (by
      simp only [allPairs, List.flatMap_cons, List.mem_append]; exact Or.inr hq)
    simp only [mergeAll, addSubs_eq t s ht hs]
    rw [ih _ (pureAdd_noProm t _ ht hs) hss]
    simp [allPairs, pureAdd_append]

/-- mentions of object number `id` in processing order (newest first) -/
def mentions (ps : List (Nat × XRef)) (id : Nat) : List XRef :=
  (ps.filter (fun p => p.1 == id)).map (·.2)

def mergeList (d : XRef) (ms : List XRef) : XRef := ms.foldl mergeE d

theorem pureAdd_get (t : Table) (ps) (j : Nat) :
    (pureAdd t ps)[j]? = t[j]?.map (fun d => mergeList d (mentions ps j)) := by
  induction ps generalizing t with
  | nil => simp [pureAdd, mergeList, mentions]
  | cons p rest ih =>
    simp only [pureAdd, List.foldl_cons] at *
    rw [ih, setAt_get]
    by_cases h : p.1 = j
    · simp [h, mergeList, mentions]
      cases t[j]? <;> simp
    · have : (p.1 == j) = false := by simpa using h
      simp [h, mentions, this]

/-- once `e` is in place, later (older) mentions never replace it if `e` is compressed or no older
    mention carries a larger generation number -/
def keeps (e : XRef) (older : List XRef) : Prop :=
  (∃ s i, e = .stream s i) ∨ ∀ m ∈ older, gen m ≤ gen e

theorem mergeList_keep (e : XRef) (he : isEntry e = true) (ms : List XRef) (h : keeps e ms) :
    mergeList e ms = e := by
  induction ms with
  | nil => rfl
  | cons m rest ih =>
    have hstep : mergeE e m = e := by
      rcases h with ⟨s, i, rfl⟩ | h
      · simp [mergeE, upd]
      · have := h m (by simp)
        cases e <;> simp_all [mergeE, upd, gen, isEntry] <;> omega
    simp only [mergeList, List.foldl_cons, hstep]
    apply ih
    rcases h with h | h
    · exact Or.inl h
    · exact Or.inr (fun x hx => h x (by simp [hx]))

theorem mergeList_invalid (e : XRef) (ms : List XRef) :
    mergeList .invalid (e :: ms) = mergeList e ms := by
  simp [mergeList, mergeE, upd]

end Xref
