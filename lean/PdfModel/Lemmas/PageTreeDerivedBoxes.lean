import PdfModel.Lemmas.PageTreeDerived
set_option linter.unusedSimpArgs false
namespace PageTreeB
open PageTree PdfLex OpenBytes Derive
variable {R : Type}
theorem strOf_kMediaBox : strOf kMediaBox = "MediaBox" := by decide
theorem strOf_kCropBox : strOf kCropBox = "CropBox" := by decide

/-- a /Pages node with boxes (markers below 2²⁴), no /Resources -/
theorem read_tree_node_boxes (bitsOf : R → Nat) (env : Derive.Env) (parent : Option Nat) (kids : List Nat) (count : Nat)
    (mb cb : Option Nat) (hb1 : mb.getD 0 < 16777216) (hb2 : cb.getD 0 < 16777216) (k : Nat)
    (hp : ∀ p, parent = some p → ∃ pv, readPagesRc ⟨true⟩ Generated.generatedSchemas (semN ⟨true⟩ Generated.generatedSchemas k) env "Pages" (.ref p 0)
        = .ok (.indirect (.ref p 0) pv)) :
    ∃ val, readPagesNode ⟨true⟩ Generated.generatedSchemas (semN ⟨true⟩ Generated.generatedSchemas (k + 1)) env
        (toD bitsOf (nodeVal parent kids count ⟨mb, cb, none⟩ : PdfLex.Prim R)) = .ok (.pair (.leaf (.name "Pages")) val) ∧
      projectNode (.pair (.leaf (.name "Pages")) val) = .pages parent kids count ⟨mb, cb, none⟩ := by
  have hu := semN_leaf ⟨true⟩ Generated.generatedSchemas env "u32" (.int count) (by decide) (by decide) (by decide) (k + 1)
  have hcnt : baseSem.rd env (.leaf "u32") (.int count) = .ok (.leaf (.int count)) := by
    simp [baseSem, baseRdPrim, asU32, viaResolve, resolve1, resolveP]
  have hrect := fun m => rect_read env m (k + 1)
  cases parent with
  | none =>
    cases mb with
    | none =>
      cases cb with
      | none =>
        simp only [nodeVal, attrEntries, boxVal, toD, toDE, toDL, List.append_nil, List.cons_append, List.nil_append, strOf_kType, strOf_kParent, strOf_kPages, strOf_kPage, strOf_kKids, strOf_kCount, strOf_kMediaBox, strOf_kCropBox, readPagesNode, resolve1, resolveP, dget]
        simp [derase, find_PageTree, readStructD, Generated.s_PageTree, expect, expectAll, dget, readFields, readField, readPlain, readAbsent, readShape, Derive.Prim.isRef, hu, hcnt, hrect]
        rw [kids_read bitsOf _ (by intro k; simp)]
        simp [projectNode, kidsD_refs, boxMarkerD, resMarkerD]
      | some c =>
        have h2 : c < 16777216 := by simpa using hb2
        simp only [nodeVal, attrEntries, boxVal, toD, toDE, toDL, List.append_nil, List.cons_append, List.nil_append, strOf_kType, strOf_kParent, strOf_kPages, strOf_kPage, strOf_kKids, strOf_kCount, strOf_kMediaBox, strOf_kCropBox, readPagesNode, resolve1, resolveP, dget]
        simp [derase, find_PageTree, readStructD, Generated.s_PageTree, expect, expectAll, dget, readFields, readField, readPlain, readAbsent, readShape, Derive.Prim.isRef, hu, hcnt, hrect]
        rw [kids_read bitsOf _ (by intro k; simp)]
        simp [projectNode, kidsD_refs, boxMarkerD, resMarkerD, f32_roundtrip _ h2]
    | some m =>
      cases cb with
      | none =>
        have h1 : m < 16777216 := by simpa using hb1
        simp only [nodeVal, attrEntries, boxVal, toD, toDE, toDL, List.append_nil, List.cons_append, List.nil_append, strOf_kType, strOf_kParent, strOf_kPages, strOf_kPage, strOf_kKids, strOf_kCount, strOf_kMediaBox, strOf_kCropBox, readPagesNode, resolve1, resolveP, dget]
        simp [derase, find_PageTree, readStructD, Generated.s_PageTree, expect, expectAll, dget, readFields, readField, readPlain, readAbsent, readShape, Derive.Prim.isRef, hu, hcnt, hrect]
        rw [kids_read bitsOf _ (by intro k; simp)]
        simp [projectNode, kidsD_refs, boxMarkerD, resMarkerD, f32_roundtrip _ h1]
      | some c =>
        have h1 : m < 16777216 := by simpa using hb1
        have h2 : c < 16777216 := by simpa using hb2
        simp only [nodeVal, attrEntries, boxVal, toD, toDE, toDL, List.append_nil, List.cons_append, List.nil_append, strOf_kType, strOf_kParent, strOf_kPages, strOf_kPage, strOf_kKids, strOf_kCount, strOf_kMediaBox, strOf_kCropBox, readPagesNode, resolve1, resolveP, dget]
        simp [derase, find_PageTree, readStructD, Generated.s_PageTree, expect, expectAll, dget, readFields, readField, readPlain, readAbsent, readShape, Derive.Prim.isRef, hu, hcnt, hrect]
        rw [kids_read bitsOf _ (by intro k; simp)]
        simp [projectNode, kidsD_refs, boxMarkerD, resMarkerD, f32_roundtrip _ h1, f32_roundtrip _ h2]
  | some p =>
    obtain ⟨pv, hpv⟩ := hp p rfl
    have hrd : (semN ⟨true⟩ Generated.generatedSchemas (k + 1)).rd env (.leaf "PagesRc") (.ref p 0) = .ok (.indirect (.ref p 0) pv) := by
      simp only [semN, structSem]
      exact hpv
    cases mb with
    | none =>
      cases cb with
      | none =>
        simp only [nodeVal, attrEntries, boxVal, toD, toDE, toDL, List.append_nil, List.cons_append, List.nil_append, strOf_kType, strOf_kParent, strOf_kPages, strOf_kPage, strOf_kKids, strOf_kCount, strOf_kMediaBox, strOf_kCropBox, readPagesNode, resolve1, resolveP, dget]
        simp [derase, find_PageTree, readStructD, Generated.s_PageTree, expect, expectAll, dget, readFields, readField, readPlain, readAbsent, readShape, Derive.Prim.isRef, hu, hcnt, hrect, hrd]
        rw [kids_read bitsOf _ (by intro k; simp)]
        simp [projectNode, kidsD_refs, boxMarkerD, resMarkerD]
      | some c =>
        have h2 : c < 16777216 := by simpa using hb2
        simp only [nodeVal, attrEntries, boxVal, toD, toDE, toDL, List.append_nil, List.cons_append, List.nil_append, strOf_kType, strOf_kParent, strOf_kPages, strOf_kPage, strOf_kKids, strOf_kCount, strOf_kMediaBox, strOf_kCropBox, readPagesNode, resolve1, resolveP, dget]
        simp [derase, find_PageTree, readStructD, Generated.s_PageTree, expect, expectAll, dget, readFields, readField, readPlain, readAbsent, readShape, Derive.Prim.isRef, hu, hcnt, hrect, hrd]
        rw [kids_read bitsOf _ (by intro k; simp)]
        simp [projectNode, kidsD_refs, boxMarkerD, resMarkerD, f32_roundtrip _ h2]
    | some m =>
      cases cb with
      | none =>
        have h1 : m < 16777216 := by simpa using hb1
        simp only [nodeVal, attrEntries, boxVal, toD, toDE, toDL, List.append_nil, List.cons_append, List.nil_append, strOf_kType, strOf_kParent, strOf_kPages, strOf_kPage, strOf_kKids, strOf_kCount, strOf_kMediaBox, strOf_kCropBox, readPagesNode, resolve1, resolveP, dget]
        simp [derase, find_PageTree, readStructD, Generated.s_PageTree, expect, expectAll, dget, readFields, readField, readPlain, readAbsent, readShape, Derive.Prim.isRef, hu, hcnt, hrect, hrd]
        rw [kids_read bitsOf _ (by intro k; simp)]
        simp [projectNode, kidsD_refs, boxMarkerD, resMarkerD, f32_roundtrip _ h1]
      | some c =>
        have h1 : m < 16777216 := by simpa using hb1
        have h2 : c < 16777216 := by simpa using hb2
        simp only [nodeVal, attrEntries, boxVal, toD, toDE, toDL, List.append_nil, List.cons_append, List.nil_append, strOf_kType, strOf_kParent, strOf_kPages, strOf_kPage, strOf_kKids, strOf_kCount, strOf_kMediaBox, strOf_kCropBox, readPagesNode, resolve1, resolveP, dget]
        simp [derase, find_PageTree, readStructD, Generated.s_PageTree, expect, expectAll, dget, readFields, readField, readPlain, readAbsent, readShape, Derive.Prim.isRef, hu, hcnt, hrect, hrd]
        rw [kids_read bitsOf _ (by intro k; simp)]
        simp [projectNode, kidsD_refs, boxMarkerD, resMarkerD, f32_roundtrip _ h1, f32_roundtrip _ h2]

/-- a /Page leaf with boxes, no /Resources -/
theorem read_leaf_node_boxes (bitsOf : R → Nat) (env : Derive.Env) (p : Nat) (mb cb : Option Nat)
    (hb1 : mb.getD 0 < 16777216) (hb2 : cb.getD 0 < 16777216) (k : Nat)
    (hdf : ∀ acc, ∃ v, (semN ⟨true⟩ Generated.generatedSchemas (k + 1)).dflt "0" acc = .ok v)
    (hp : ∃ pv, readPagesRc ⟨true⟩ Generated.generatedSchemas (semN ⟨true⟩ Generated.generatedSchemas k) env "Pages" (.ref p 0)
        = .ok (.indirect (.ref p 0) pv)) :
    ∃ val, readPagesNode ⟨true⟩ Generated.generatedSchemas (semN ⟨true⟩ Generated.generatedSchemas (k + 1)) env
        (toD bitsOf (leafVal p ⟨mb, cb, none⟩ : PdfLex.Prim R)) = .ok (.pair (.leaf (.name "Page")) val) ∧
      projectNode (.pair (.leaf (.name "Page")) val) = .page p ⟨mb, cb, none⟩ := by
  obtain ⟨pv, hpv⟩ := hp
  have hrd : (semN ⟨true⟩ Generated.generatedSchemas (k + 1)).rd env (.leaf "PagesRc") (.ref p 0) = .ok (.indirect (.ref p 0) pv) := by
    simp only [semN, structSem]
    exact hpv
  have hrect := fun m => rect_read env m (k + 1)
  have hdv' : ∀ acc, ∃ dv, (semN ⟨true⟩ Generated.generatedSchemas (k + 1)).dflt "0" acc = .ok dv := hdf
  cases mb with
  | none =>
    cases cb with
    | none =>
      obtain ⟨dv, hdv⟩ := hdv' [.indirect (.ref p 0) pv, .none, .none, .none, .none, .none]
      simp only [leafVal, attrEntries, boxVal, toD, toDE, toDL, List.append_nil, List.cons_append, List.nil_append, strOf_kType, strOf_kParent, strOf_kPages, strOf_kPage, strOf_kKids, strOf_kCount, strOf_kMediaBox, strOf_kCropBox, readPagesNode, resolve1, resolveP, dget]
      simp [derase, find_Page, readStructD, Generated.s_Page, expect, expectAll, dget, readFields, readField, readPlain, readDefaulted, readAbsent, readShape, Derive.Prim.isRef, hrd, hdv, hrect]
      simp [projectNode, boxMarkerD, resMarkerD]
    | some c =>
      have h2 : c < 16777216 := by simpa using hb2
      obtain ⟨dv, hdv⟩ := hdv' [.indirect (.ref p 0) pv, .none, .none, .some (.leaf (.arr [.real 0, .real 0, .real (f32OfNat c), .real (f32OfNat 7)])), .none, .none]
      simp only [leafVal, attrEntries, boxVal, toD, toDE, toDL, List.append_nil, List.cons_append, List.nil_append, strOf_kType, strOf_kParent, strOf_kPages, strOf_kPage, strOf_kKids, strOf_kCount, strOf_kMediaBox, strOf_kCropBox, readPagesNode, resolve1, resolveP, dget]
      simp [derase, find_Page, readStructD, Generated.s_Page, expect, expectAll, dget, readFields, readField, readPlain, readDefaulted, readAbsent, readShape, Derive.Prim.isRef, hrd, hdv, hrect]
      simp [projectNode, boxMarkerD, resMarkerD, f32_roundtrip _ h2]
  | some m =>
    have h1 : m < 16777216 := by simpa using hb1
    cases cb with
    | none =>
      obtain ⟨dv, hdv⟩ := hdv' [.indirect (.ref p 0) pv, .none, .some (.leaf (.arr [.real 0, .real 0, .real (f32OfNat m), .real (f32OfNat 7)])), .none, .none, .none]
      simp only [leafVal, attrEntries, boxVal, toD, toDE, toDL, List.append_nil, List.cons_append, List.nil_append, strOf_kType, strOf_kParent, strOf_kPages, strOf_kPage, strOf_kKids, strOf_kCount, strOf_kMediaBox, strOf_kCropBox, readPagesNode, resolve1, resolveP, dget]
      simp [derase, find_Page, readStructD, Generated.s_Page, expect, expectAll, dget, readFields, readField, readPlain, readDefaulted, readAbsent, readShape, Derive.Prim.isRef, hrd, hdv, hrect]
      simp [projectNode, boxMarkerD, resMarkerD, f32_roundtrip _ h1]
    | some c =>
      have h2 : c < 16777216 := by simpa using hb2
      obtain ⟨dv, hdv⟩ := hdv' [.indirect (.ref p 0) pv, .none, .some (.leaf (.arr [.real 0, .real 0, .real (f32OfNat m), .real (f32OfNat 7)])), .some (.leaf (.arr [.real 0, .real 0, .real (f32OfNat c), .real (f32OfNat 7)])), .none, .none]
      simp only [leafVal, attrEntries, boxVal, toD, toDE, toDL, List.append_nil, List.cons_append, List.nil_append, strOf_kType, strOf_kParent, strOf_kPages, strOf_kPage, strOf_kKids, strOf_kCount, strOf_kMediaBox, strOf_kCropBox, readPagesNode, resolve1, resolveP, dget]
      simp [derase, find_Page, readStructD, Generated.s_Page, expect, expectAll, dget, readFields, readField, readPlain, readDefaulted, readAbsent, readShape, Derive.Prim.isRef, hrd, hdv, hrect]
      simp [projectNode, boxMarkerD, resMarkerD, f32_roundtrip _ h1, f32_roundtrip _ h2]

end PageTreeB
