import PdfModel.Lemmas.Parser

/-! Indirect objects `n g obj … endobj` and stream objects. -/

namespace PdfLex
open PdfSyntax (Gap Bnd NatTok Spells SpellsEntries needsBnd WF WFE vdepth vdepthE need needE keysOf)

variable {R : Type}

theorem kw_obj_regular : ∀ b ∈ kwObj, isRegular b = true := by decide +kernel
theorem kw_endobj_regular : ∀ b ∈ kwEndobj, isRegular b = true := by decide +kernel
theorem kw_endstream_regular : ∀ b ∈ kwEndstream, isRegular b = true := by decide +kernel
theorem kw_stream_regular : ∀ b ∈ kwStream, isRegular b = true := by decide +kernel

theorem nextExpect_regular {buf : Buf} (g t rest : List UInt8) (pos : Nat) (hg : Gap g)
    (h : Suffix buf pos (g ++ t ++ rest)) (hne : t ≠ []) (ht : ∀ b ∈ t, isRegular b = true) (hb : Bnd rest) :
    nextExpect buf pos t = .ok (pos + g.length + t.length) := by
  obtain ⟨hn, hsl⟩ := next_regular g t rest pos hg h hne ht hb
  simp [nextExpect, hn, hsl]

/-- the header `n g obj` -/
theorem parseObjHeader_spec {buf : Buf} (g0 a g1 b g2 rest : List UInt8) (id gen pos : Nat) (hg0 : Gap g0)
    (ha : NatTok a id) (hb : NatTok b gen) (hg1 : Gap g1) (hg1ne : g1 ≠ []) (hg2 : Gap g2) (hg2ne : g2 ≠ [])
    (hid : id ≤ 18446744073709551615) (hgen : gen ≤ 18446744073709551615)
    (h : Suffix buf pos (g0 ++ a ++ g1 ++ b ++ g2 ++ kwObj ++ rest)) (hbnd : Bnd rest) :
    parseObjHeader buf pos = .ok ((id, gen), pos + (g0 ++ a ++ g1 ++ b ++ g2 ++ kwObj).length) := by
  obtain ⟨a1, a2, a3, a4⟩ := natTok_spec a id ha hid
  obtain ⟨b1, b2, b3, b4⟩ := natTok_spec b gen hb hgen
  have h1 : Suffix buf pos (g0 ++ a ++ (g1 ++ b ++ g2 ++ kwObj ++ rest)) := by simpa using h
  obtain ⟨hn, hsl⟩ := next_regular g0 a _ pos hg0 h1 a3 a4 (by simpa using gap_bnd hg1 hg1ne _)
  have h2 : Suffix buf (pos + g0.length + a.length) (g1 ++ b ++ (g2 ++ kwObj ++ rest)) := by
    have := Suffix.drop (a := g0 ++ a) (by simpa using h1)
    simpa [Nat.add_assoc] using this
  obtain ⟨hn2, hsl2⟩ := next_regular g1 b _ _ hg1 h2 b3 b4 (by simpa using gap_bnd hg2 hg2ne _)
  have h3 : Suffix buf (pos + g0.length + a.length + g1.length + b.length) (g2 ++ kwObj ++ rest) := by
    have := Suffix.drop (a := g1 ++ b) (by simpa using h2)
    simpa [Nat.add_assoc] using this
  have h4 := nextExpect_regular g2 kwObj rest _ hg2 h3 (by decide) kw_obj_regular hbnd
  simp only [parseObjHeader, hn, Out.bind_ok, hsl, a2, hn2, hsl2, b2, h4]
  simp; omega

theorem ahead_endobj {buf : Buf} (g rest : List UInt8) (q : Nat) (hg : Gap g)
    (h : Suffix buf q (g ++ kwEndobj ++ rest)) (hb : Bnd rest) : Ahead buf q := by
  obtain ⟨hn, hsl⟩ := next_regular g kwEndobj rest q hg h (by decide) kw_endobj_regular hb
  exact ahead_of_lexeme _ kwEndobj hn hsl (by decide) (by decide) (fun hi => absurd hi (by decide))

/-- `n g obj <value> endobj`: the value, and the cursor right after `endobj` (both settings of
    `allow_missing_endobj`) -/
theorem parseIndirectObject_spells (env : Env R) (hd : env.decrypt = none) (v : Prim R) (txt : List UInt8)
    (hsp : Spells env.parseReal v txt) (hwf : WF v) {buf : Buf} (hsz : buf.size ≤ 2147483647)
    (g0 a g1 b g2 g3 g4 rest : List UInt8) (id gen pos fuel : Nat) (hg0 : Gap g0)
    (ha : NatTok a id) (hb : NatTok b gen) (hg1 : Gap g1) (hg1ne : g1 ≠ []) (hg2 : Gap g2) (hg2ne : g2 ≠ [])
    (hid : id ≤ 18446744073709551615) (hgen : gen ≤ 18446744073709551615) (hg3 : Gap g3) (hg4 : Gap g4)
    (h : Suffix buf pos (g0 ++ a ++ g1 ++ b ++ g2 ++ kwObj ++ g3 ++ txt ++ g4 ++ kwEndobj ++ rest))
    (hb3 : Bnd (g3 ++ txt)) (hb4 : needsBnd v = true → g4 ≠ []) (hbnd : Bnd rest)
    (hfuel : need v ≤ fuel) (hdepth : vdepth v ≤ maxDepth) (flags : Nat) (hfl : flags &&& flagOf v ≠ 0) :
    parseIndirectObject env buf fuel pos flags =
      .ok (((id, gen), v), pos + (g0 ++ a ++ g1 ++ b ++ g2 ++ kwObj ++ g3 ++ txt ++ g4 ++ kwEndobj).length) := by
  have hne : g3 ++ txt ≠ [] := by simp [spells_ne_nil env.parseReal v txt hsp]
  have hhead := parseObjHeader_spec g0 a g1 b g2 (g3 ++ txt ++ g4 ++ kwEndobj ++ rest) id gen pos hg0 ha hb hg1 hg1ne hg2
    hg2ne hid hgen (by simpa using h) (by simpa using bnd_append (t := g4 ++ kwEndobj ++ rest) hb3 hne)
  have h2 : Suffix buf (pos + (g0 ++ a ++ g1 ++ b ++ g2 ++ kwObj).length) (g3 ++ txt ++ (g4 ++ kwEndobj ++ rest)) := by
    have := Suffix.drop (a := g0 ++ a ++ g1 ++ b ++ g2 ++ kwObj) (s := g3 ++ txt ++ (g4 ++ kwEndobj ++ rest)) (by simpa using h)
    simpa using this
  have h3 : Suffix buf (pos + (g0 ++ a ++ g1 ++ b ++ g2 ++ kwObj).length + g3.length + txt.length) (g4 ++ kwEndobj ++ rest) := by
    have := Suffix.drop (a := g3 ++ txt) (by simpa using h2)
    simpa [Nat.add_assoc] using this
  have hv := parseCtx_spells env hd v txt hsp hwf hsz g3 (g4 ++ kwEndobj ++ rest) _ fuel (some (id, gen)) maxDepth flags hg3 hfl h2
    (fun hbv => by simpa using gap_bnd hg4 (hb4 hbv) (kwEndobj ++ rest))
    (ahead_endobj g4 rest _ hg4 h3 hbnd) hfuel hdepth
  have he := nextExpect_regular g4 kwEndobj rest _ hg4 h3 (by decide) kw_endobj_regular hbnd
  simp only [parseIndirectObject, hhead, Out.bind_ok, hv, he]
  cases env.allowMissingEndobj <;> simp <;> omega


/-! ### streams -/

/-- `/Length` of the dictionary is the length of the data: directly, or through the resolver -/
def LengthIs (env : Env R) (info : Dict R) (n : Nat) : Prop :=
  dictGet info kwLength = some (.int (n : Int)) ∨
  ∃ i g, dictGet info kwLength = some (.ref i g) ∧ env.resolveLen i g = .ok n

theorem nextStream_spec {buf : Buf} (g eol rest : List UInt8) (pos : Nat) (hg : Gap g)
    (heol : eol = [10] ∨ eol = [13, 10]) (h : Suffix buf pos (g ++ kwStream ++ eol ++ rest)) :
    nextStream buf pos = .ok (pos + g.length + kwStream.length + eol.length) := by
  have hb : Bnd (eol ++ rest) := by rcases heol with rfl | rfl <;> (simp [Bnd]; decide)
  have h1 : Suffix buf pos (g ++ kwStream ++ (eol ++ rest)) := by simpa using h
  obtain ⟨hn, _⟩ := next_regular g kwStream (eol ++ rest) pos hg h1 (by decide) kw_stream_regular hb
  have h2 : Suffix buf (pos + g.length + kwStream.length) (eol ++ rest) := by
    have := Suffix.drop (a := g ++ kwStream) (by simpa using h1)
    simpa [Nat.add_assoc] using this
  have hle : pos + g.length ≤ buf.size := by have := h.size_eq; simp at this; omega
  have hn' : nextWord buf pos = .ok (pos + g.length, pos + g.length + kwStream.length) := hn
  simp only [nextStream, hn', Out.bind_ok]
  have e1 : pos + g.length + kwStream.length - (pos + g.length + kwStream.length - (pos + g.length)) = pos + g.length := by
    omega
  rw [e1, if_neg (by omega)]
  have hk : kwStream.length = 6 := rfl
  rw [hk] at h2
  rcases heol with rfl | rfl
  · have := h2.get0 (b := 10) (s := rest)
    simp [this, hk]; omega
  · have h10 := Suffix.get0 (b := 13) (s := 10 :: rest) (by simpa using h2)
    have h11 := Suffix.get0 (b := 10) (s := rest) (Suffix.tail (b := 13) (by simpa using h2))
    simp [h10, h11, hk]; omega

theorem readN_inside {buf : Buf} (pos n : Nat) (h : pos + n < buf.size) (hsz : buf.size ≤ 2147483647) :
    readN buf pos n = .ok ((pos, pos + n), pos + n) := by
  unfold readN
  have hm : min (pos + n) usizeMax = pos + n := by unfold usizeMax; omega
  have h1 : ¬ (pos + n ≥ buf.size) := by omega
  have h2 : pos < buf.size := by omega
  simp only [hm, h1, h2, if_false, if_true]
  rw [newSubstr_ok (by omega) (by omega)]
  rfl

/-- `parse_stream_object` on `g stream EOL data g endstream` -/
theorem parseStreamObject_spec (env : Env R) {buf : Buf} (hsz : buf.size ≤ 2147483647) (info : Dict R)
    (g2 eol data g3 rest : List UInt8) (pos : Nat) (id : Nat × Nat) (hg2 : Gap g2) (heol : eol = [10] ∨ eol = [13, 10])
    (hg3 : Gap g3) (hlen : LengthIs env info data.length)
    (h : Suffix buf pos (g2 ++ kwStream ++ eol ++ data ++ g3 ++ kwEndstream ++ rest)) (hb : Bnd rest) :
    parseStreamObject env buf pos info id =
      .ok (.stream info (.inFile id.1 id.2 (env.fileOffset + (pos + g2.length + kwStream.length + eol.length))
            (env.fileOffset + (pos + g2.length + kwStream.length + eol.length) + data.length)),
          pos + (g2 ++ kwStream ++ eol ++ data ++ g3 ++ kwEndstream).length) := by
  have hns := nextStream_spec g2 eol (data ++ g3 ++ kwEndstream ++ rest) pos hg2 heol (by simpa using h)
  have h2 : Suffix buf (pos + g2.length + kwStream.length + eol.length) (data ++ (g3 ++ kwEndstream ++ rest)) := by
    have := Suffix.drop (a := g2 ++ kwStream ++ eol) (s := data ++ (g3 ++ kwEndstream ++ rest)) (by simpa using h)
    simpa [Nat.add_assoc] using this
  have h3 : Suffix buf (pos + g2.length + kwStream.length + eol.length + data.length) (g3 ++ kwEndstream ++ rest) := by
    have := Suffix.drop (a := data) h2
    simpa using this
  have hsize := h3.size_eq
  have hk : kwEndstream.length = 9 := rfl
  simp at hsize
  have hrd := readN_inside (buf := buf) (pos + g2.length + kwStream.length + eol.length) data.length (by omega) hsz
  have hne := nextExpect_regular g3 kwEndstream rest _ hg3 h3 (by decide) kw_endstream_regular hb
  rcases hlen with hl | ⟨i, g, hl, hr⟩
  · simp only [parseStreamObject, hns, Out.bind_ok, hl]
    have : ((data.length : Int) ≥ 0) := by omega
    simp only [this, if_true, Int.toNat_natCast, Out.bind_ok, hrd, hne]
    simp; omega
  · simp only [parseStreamObject, hns, Out.bind_ok, hl, hr, hrd, hne]
    simp; omega


open PdfSyntax (SpellsStream)

/-- the value the parser returns for a stream object whose data starts at `dataPos` -/
def streamAt (env : Env R) (info : Dict R) (id : Nat × Nat) (dataPos len : Nat) : Prim R :=
  .stream info (.inFile id.1 id.2 (env.fileOffset + dataPos) (env.fileOffset + dataPos + len))

/-- a stream object (dictionary, `stream`, data, `endstream`) read in the context of an indirect object -/
theorem parseCtx_stream (env : Env R) (hd : env.decrypt = none) (info : Dict R) (data txt : List UInt8)
    (hsp : SpellsStream env.parseReal info data txt) (hwf : WFE info) (hnd : (keysOf info).Nodup)
    (hlen : LengthIs env info data.length) {buf : Buf} (hsz : buf.size ≤ 2147483647)
    (g rest : List UInt8) (pos fuel : Nat) (id : Nat × Nat) (depth : Nat) (hg : Gap g)
    (h : Suffix buf pos (g ++ txt ++ rest)) (hb : Bnd rest) (hfuel : 2 + needE info ≤ fuel)
    (hdepth : 1 + vdepthE info ≤ depth) (flags : Nat) (hfl : flags &&& Flags.dict ≠ 0) :
    ∃ dataPos, parseCtx env buf fuel pos (some id) flags depth =
        .ok (streamAt env info id dataPos data.length, pos + g.length + txt.length) ∧
      slice buf dataPos (dataPos + data.length) = data := by
  obtain ⟨g1, ents, g2, eol, g3, rfl, hg1, hents, hg2, heol, hg3⟩ := hsp
  obtain ⟨f, rfl⟩ : ∃ f, fuel = f + 2 := ⟨fuel - 2, by omega⟩
  obtain ⟨hn, hsl⟩ := next_double g 60 (g1 ++ ents ++ g2 ++ kwStream ++ eol ++ data ++ g3 ++ kwEndstream ++ rest) pos hg
    (by simpa [PdfSyntax.kwStream, PdfSyntax.kwEndstream, kwStream, kwEndstream] using h) (Or.inl rfl)
  have hs2 : Suffix buf (pos + g.length + 2) (g1 ++ ents ++ (g2 ++ kwStream ++ eol ++ data ++ g3 ++ kwEndstream ++ rest)) := by
    have := Suffix.drop (a := g ++ [60, 60]) (s := g1 ++ ents ++ (g2 ++ kwStream ++ eol ++ data ++ g3 ++ kwEndstream ++ rest))
      (by simpa [PdfSyntax.kwStream, PdfSyntax.kwEndstream, kwStream, kwEndstream] using h)
    simpa [Nat.add_assoc] using this
  have hdict := parseDict_spells env hd info ents hents hwf hsz g1 _ (pos + g.length + 2) f (some id) (depth - 1) [] hg1 hs2
    hnd (by simp [keysOf]) (by omega) (by omega)
  have hs3 : Suffix buf (pos + g.length + 2 + g1.length + ents.length)
      (g2 ++ kwStream ++ eol ++ data ++ g3 ++ kwEndstream ++ rest) := by
    have := Suffix.drop (a := g1 ++ ents) (by simpa using hs2)
    simpa [Nat.add_assoc] using this
  have hbe : Bnd (eol ++ data ++ g3 ++ kwEndstream ++ rest) := by rcases heol with rfl | rfl <;> (simp [Bnd]; decide)
  obtain ⟨hn2, hsl2⟩ := next_regular g2 kwStream (eol ++ data ++ g3 ++ kwEndstream ++ rest) _ hg2 (by simpa using hs3)
    (by decide) kw_stream_regular hbe
  have hso := parseStreamObject_spec env hsz info g2 eol data g3 rest _ id hg2 heol hg3 hlen hs3 hb
  refine ⟨pos + g.length + 2 + g1.length + ents.length + g2.length + kwStream.length + eol.length, ?_, ?_⟩
  · have e1 : (([60, 60] : List UInt8) == [60, 60]) = true := by decide
    have c1 : check flags Flags.dict = .ok () := check_ok hfl
    have hd0 : (depth == 0) = false := by simp; omega
    simp only [parseCtx, parseInner, remainingStart_ok h.le, hn, Out.bind_ok, hsl, e1, if_true, c1, hd0,
      Bool.false_eq_true, if_false, hdict, List.nil_append, peek_ok hn2, hsl2, beq_self_eq_true, hso, streamAt]
    simp [PdfSyntax.kwStream, PdfSyntax.kwEndstream, kwStream, kwEndstream]; omega
  · have hs4 : Suffix buf (pos + g.length + 2 + g1.length + ents.length + g2.length + kwStream.length + eol.length)
        (data ++ (g3 ++ kwEndstream ++ rest)) := by
      have := Suffix.drop (a := g2 ++ kwStream ++ eol) (s := data ++ (g3 ++ kwEndstream ++ rest)) (by simpa using hs3)
      simpa [Nat.add_assoc] using this
    exact hs4.slice


/-- `n g obj <stream object> endobj` -/
theorem parseIndirectObject_stream (env : Env R) (hd : env.decrypt = none) (info : Dict R) (data txt : List UInt8)
    (hsp : SpellsStream env.parseReal info data txt) (hwf : WFE info) (hnd : (keysOf info).Nodup)
    (hlen : LengthIs env info data.length) {buf : Buf} (hsz : buf.size ≤ 2147483647)
    (g0 a g1 b g2 g3 g4 rest : List UInt8) (id gen pos fuel : Nat) (hg0 : Gap g0)
    (ha : NatTok a id) (hb : NatTok b gen) (hg1 : Gap g1) (hg1ne : g1 ≠ []) (hg2 : Gap g2) (hg2ne : g2 ≠ [])
    (hid : id ≤ 18446744073709551615) (hgen : gen ≤ 18446744073709551615) (hg3 : Gap g3) (hg4 : Gap g4) (hg4ne : g4 ≠ [])
    (h : Suffix buf pos (g0 ++ a ++ g1 ++ b ++ g2 ++ kwObj ++ g3 ++ txt ++ g4 ++ kwEndobj ++ rest))
    (hbnd : Bnd rest) (hfuel : 2 + needE info ≤ fuel) (hdepth : 1 + vdepthE info ≤ maxDepth)
    (flags : Nat) (hfl : flags &&& Flags.dict ≠ 0) :
    ∃ dataPos, parseIndirectObject env buf fuel pos flags =
        .ok (((id, gen), streamAt env info (id, gen) dataPos data.length),
          pos + (g0 ++ a ++ g1 ++ b ++ g2 ++ kwObj ++ g3 ++ txt ++ g4 ++ kwEndobj).length) ∧
      slice buf dataPos (dataPos + data.length) = data := by
  have htx : ∃ t', txt = 60 :: t' := by
    obtain ⟨g1', ents, g2', eol, g3', rfl, _⟩ := hsp
    exact ⟨_, rfl⟩
  obtain ⟨t', ht'⟩ := htx
  have hb3 : Bnd (g3 ++ txt ++ g4 ++ kwEndobj ++ rest) := by
    cases g3 with
    | nil => subst ht'; simp [Bnd]; decide
    | cons c g3' => simpa using gap_bnd hg3 (by simp) (txt ++ g4 ++ kwEndobj ++ rest)
  have hhead := parseObjHeader_spec g0 a g1 b g2 (g3 ++ txt ++ g4 ++ kwEndobj ++ rest) id gen pos hg0 ha hb hg1 hg1ne hg2
    hg2ne hid hgen (by simpa using h) hb3
  have h2 : Suffix buf (pos + (g0 ++ a ++ g1 ++ b ++ g2 ++ kwObj).length) (g3 ++ txt ++ (g4 ++ kwEndobj ++ rest)) := by
    have := Suffix.drop (a := g0 ++ a ++ g1 ++ b ++ g2 ++ kwObj) (s := g3 ++ txt ++ (g4 ++ kwEndobj ++ rest)) (by simpa using h)
    simpa using this
  have h3 : Suffix buf (pos + (g0 ++ a ++ g1 ++ b ++ g2 ++ kwObj).length + g3.length + txt.length) (g4 ++ kwEndobj ++ rest) := by
    have := Suffix.drop (a := g3 ++ txt) (by simpa using h2)
    simpa [Nat.add_assoc] using this
  obtain ⟨dataPos, hv, hdata⟩ := parseCtx_stream env hd info data txt hsp hwf hnd hlen hsz g3 (g4 ++ kwEndobj ++ rest) _ fuel
    (id, gen) maxDepth hg3 h2 (by simpa using gap_bnd hg4 hg4ne (kwEndobj ++ rest)) hfuel hdepth flags hfl
  have he := nextExpect_regular g4 kwEndobj rest _ hg4 h3 (by decide) kw_endobj_regular hbnd
  refine ⟨dataPos, ?_, hdata⟩
  simp only [parseIndirectObject, hhead, Out.bind_ok, hv, he]
  cases env.allowMissingEndobj <;> simp <;> omega

end PdfLex
