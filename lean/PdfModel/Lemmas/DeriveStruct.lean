import PdfModel.Lemmas.DeriveShape

/-! The field loops of the derived reader and writer (C15). -/

namespace Derive

def keyOf (f : Field) : String := f.key.getD ""

/-- keys of the fields the loops touch, in order -/
def fkeys : List Field → List String
  | [] => []
  | f :: fs => if f.skip || f.other then fkeys fs else keyOf f :: fkeys fs

/-- pointwise: the writer emits the same for `vs'` as for `vs` -/
def EmitsEq (sem : Sem) : List Field → List Val → List Val → Prop
  | [], _, _ => True
  | f :: fs, vs, vs' =>
    if f.skip || f.other then EmitsEq sem fs vs vs'
    else match vs, vs' with
      | v :: t, v' :: t' => emit sem f v' = emit sem f v ∧ EmitsEq sem fs t t'
      | _, _ => False

/-! ## `distinct` -/

theorem distinct_cons (x : String) (xs : List String) :
    distinct (x :: xs) = true ↔ x ∉ xs ∧ distinct xs = true := by
  simp [distinct]

theorem distinct_append {xs ys : List String} (h : distinct (xs ++ ys) = true) :
    distinct xs = true ∧ distinct ys = true ∧ ∀ x ∈ xs, x ∉ ys := by
  induction xs with
  | nil => simp [distinct] at *; exact h
  | cons x xs ih =>
    rw [List.cons_append, distinct_cons] at h
    obtain ⟨hx, hr⟩ := h
    obtain ⟨h1, h2, h3⟩ := ih hr
    refine ⟨(distinct_cons x xs).2 ⟨fun hm => hx (List.mem_append_left _ hm), h1⟩, h2, ?_⟩
    intro y hy
    cases List.mem_cons.1 hy with
    | inl e => subst e; exact fun hm => hx (List.mem_append_right _ hm)
    | inr hm => exact h3 y hm

/-! ## the writer loop -/

theorem writeFields_foreign (sem : Sem) (k : String) :
    ∀ (fs : List Field) (vs : List Val) (d D : Dict), writeFields sem fs vs d = .ok D → k ∉ fkeys fs →
      dget k D = dget k d := by
  intro fs
  induction fs with
  | nil => intro vs d D h _; simp [writeFields] at h; subst h; rfl
  | cons f fs ih =>
    intro vs d D h hk
    simp only [writeFields] at h
    cases hso : (f.skip || f.other) with
    | true => simp only [hso] at h; simp [fkeys, hso] at hk; exact ih vs d D h hk
    | false =>
      simp [hso] at h
      simp [fkeys, hso] at hk
      cases vs with
      | nil => simp at h
      | cons v vs' =>
        simp only at h
        cases he : emit sem f v with
        | error e => simp [he] at h
        | ok e =>
          cases e with
          | none => simp [he] at h; exact ih vs' d D h hk.2
          | some q =>
            simp [he] at h
            rw [ih vs' _ D h hk.2]
            exact dget_dinsert_ne (fun hh => hk.1 (by simp [keyOf] at hh ⊢; exact hh.symm)) q d

theorem writeFields_derase (sem : Sem) (k : String) :
    ∀ (fs : List Field) (vs : List Val) (d D : Dict), writeFields sem fs vs d = .ok D → k ∉ fkeys fs →
      writeFields sem fs vs (derase k d) = .ok (derase k D) := by
  intro fs
  induction fs with
  | nil => intro vs d D h _; simp [writeFields] at h; subst h; simp [writeFields]
  | cons f fs ih =>
    intro vs d D h hk
    simp only [writeFields] at h ⊢
    cases hso : (f.skip || f.other) with
    | true => simp only [hso] at h ⊢; simp [fkeys, hso] at hk; exact ih vs d D h hk
    | false =>
      simp [hso] at h ⊢
      simp [fkeys, hso] at hk
      cases vs with
      | nil => simp at h
      | cons v vs' =>
        simp only at h ⊢
        cases he : emit sem f v with
        | error e => simp [he] at h
        | ok e =>
          cases e with
          | none => simp [he] at h ⊢; exact ih vs' d D h hk.2
          | some q =>
            simp [he] at h ⊢
            have := ih vs' _ D h hk.2
            rw [derase_dinsert_comm (k := k) (k' := f.key.getD "") (fun hh => hk.1 (by simp [keyOf]; exact hh.symm)) q d] at this
            exact this

theorem writeFields_emitsEq (sem : Sem) :
    ∀ (fs : List Field) (vs vs' : List Val) (d : Dict), EmitsEq sem fs vs vs' →
      (∃ D, writeFields sem fs vs d = .ok D) → writeFields sem fs vs' d = writeFields sem fs vs d := by
  intro fs
  induction fs with
  | nil => intro vs vs' d _ _; simp [writeFields]
  | cons f fs ih =>
    intro vs vs' d he hD
    simp only [writeFields] at hD ⊢
    simp only [EmitsEq] at he
    cases hso : (f.skip || f.other) with
    | true => simp only [hso] at he hD ⊢; exact ih vs vs' d (by simpa using he) hD
    | false =>
      simp [hso] at he hD ⊢
      cases vs with
      | nil => simp at hD
      | cons v t =>
        cases vs' with
        | nil => simp at he
        | cons v' t' =>
          simp only at he hD ⊢
          rw [he.1]
          cases hem : emit sem f v with
          | error e => simp
          | ok e =>
            cases e with
            | none => simp [hem] at hD ⊢; exact ih t t' d he.2 hD
            | some q => simp [hem] at hD ⊢; exact ih t t' _ he.2 hD

/-! ## write, then read -/

theorem emit_some_not_null {sem : Sem} {f : Field} {v : Val} {q : Prim} (h : emit sem f v = .ok (some q)) :
    q.isNull = false := by
  simp only [emit] at h
  cases hw : writeShape sem f.shape v with
  | error e => simp [hw] at h
  | ok p =>
    simp only [hw] at h
    cases hp : p.isNull with
    | true => simp [hp] at h
    | false =>
      simp [hp] at h; subst h
      simp only [indirectOf]
      cases f.indirect with
      | false => simpa using hp
      | true =>
        cases hr : p.isRef with
        | true => simpa [hr] using hp
        | false => simp [Prim.isNull]

theorem lastIsOther_cons_other {f : Field} {fs : List Field} (h : lastIsOther (f :: fs) = true) (ho : f.other = true) :
    fs = [] := by
  cases fs with
  | nil => rfl
  | cons g gs => simp [lastIsOther, ho] at h

theorem lastIsOther_tail {f : Field} {fs : List Field} (h : lastIsOther (f :: fs) = true) :
    lastIsOther fs = true := by
  cases fs with
  | nil => simp [lastIsOther]
  | cons g gs => simp [lastIsOther] at h; exact h.2

/-- the heart of the struct law: what the writer loop produced over `d` is read back field by field,
    leaving `d`, by values for which the writer emits the same again -/
theorem read_written (cfg : Cfg) (sem : Sem) (env : Env) :
    ∀ (fs : List Field) (d : Dict) (vs : List Val) (D : Dict) (acc : List Val) (oth : Option Dict),
      (∀ f ∈ fs, f.skip = false) → lastIsOther fs = true → distinct (fkeys fs) = true →
      (∀ k ∈ fkeys fs, dget k d = none) →
      writeFields sem fs vs d = .ok D →
      FieldsOk (fun f v => FieldLaw cfg sem env f v ∧ DefaultedNonNull sem f v) fs vs →
      ∃ vs', readFields cfg sem env fs D acc oth
              = .ok (acc ++ vs', d, if fs.any (·.other) then some d else oth)
        ∧ EmitsEq sem fs vs vs' := by
  intro fs
  induction fs with
  | nil =>
    intro d vs D acc oth _ _ _ _ hw _
    simp [writeFields] at hw; subst hw
    exact ⟨[], by simp [readFields], by simp [EmitsEq]⟩
  | cons f fs ih =>
    intro d vs D acc oth hskip hlast hdist hfresh hw hok
    have hs : f.skip = false := hskip f (by simp)
    cases ho : f.other with
    | true =>
      have hnil := lastIsOther_cons_other hlast ho
      subst hnil
      simp [writeFields, hs, ho] at hw; subst hw
      exact ⟨[], by simp [readFields, hs, ho], by simp [EmitsEq, hs, ho]⟩
    | false =>
      have hso : (f.skip || f.other) = false := by simp [hs, ho]
      simp only [FieldsOk, hso] at hok
      simp [fkeys, hso] at hdist hfresh
      rw [distinct_cons] at hdist
      cases vs with
      | nil => simp at hok
      | cons v vs₀ =>
        simp only at hok
        obtain ⟨⟨hlaw, hnn⟩, hok'⟩ := hok
        simp only [writeFields, hso] at hw
        simp at hw
        cases hem : emit sem f v with
        | error e => simp [hem] at hw
        | ok e =>
          obtain ⟨v', hr, hem'⟩ := hlaw e hem
          have hskip' : ∀ g ∈ fs, g.skip = false := fun g hg => hskip g (by simp [hg])
          have hlast' := lastIsOther_tail hlast
          cases e with
          | none =>
            simp [hem] at hw
            have hent : dget (keyOf f) D = none := by
              rw [writeFields_foreign sem (keyOf f) fs vs₀ d D hw hdist.1]; exact hfresh.1
            have hdef : f.default = none := by
              cases hd : f.default with
              | none => rfl
              | some dx => exact absurd hem (hnn (by simp [hd]))
            obtain ⟨vs'', hrd, heq⟩ := ih d vs₀ D (acc ++ [v']) oth hskip' hlast' hdist.2 hfresh.2 hw hok'
            refine ⟨v' :: vs'', ?_, ?_⟩
            · simp only [readFields, hs, ho]
              have hk : f.key.getD "" = keyOf f := rfl
              simp only [hk, hent, readField, hdef, readPlain, readAbsent]
              simp at hr
              simp [hr, derase_fresh hent, hrd, ho]
            · simp [EmitsEq, hso, hem', hem, heq]
          | some q =>
            simp [hem] at hw
            have hent : dget (keyOf f) D = some q := by
              rw [writeFields_foreign sem (keyOf f) fs vs₀ _ D hw hdist.1]; simp [keyOf]
            have hqn := emit_some_not_null hem
            have hw2 := writeFields_derase sem (keyOf f) fs vs₀ _ D hw hdist.1
            have hke : derase (keyOf f) (dinsert (f.key.getD "") q d) = d := derase_dinsert_fresh q hfresh.1
            rw [hke] at hw2
            obtain ⟨vs'', hrd, heq⟩ := ih d vs₀ (derase (keyOf f) D) (acc ++ [v']) oth hskip' hlast' hdist.2 hfresh.2 hw2 hok'
            refine ⟨v' :: vs'', ?_, ?_⟩
            · simp only [readFields, hs, ho]
              have hk : f.key.getD "" = keyOf f := rfl
              simp only [hk, hent, readField]
              simp at hr
              cases hd : f.default with
              | none => simp [readPlain, hr, hrd, ho]
              | some dx => simp [readDefaulted, hqn, hr, hrd, ho]
            · simp [EmitsEq, hso, hem', hem, heq]

/-! ## the base dictionary: catch-all, `/Type`, checks -/

theorem dget_insertChecks_foreign (k : String) :
    ∀ (cs : List (String × String)) (d : Dict), k ∉ cs.map (·.1) → dget k (insertChecks cs d) = dget k d := by
  intro cs
  induction cs with
  | nil => intro d _; rfl
  | cons c cs ih =>
    obtain ⟨k0, v0⟩ := c
    intro d hk
    simp at hk
    simp only [insertChecks]
    rw [ih _ (by simpa using hk.2)]
    exact dget_dinsert_ne (fun h => hk.1 h.symm) _ d

theorem dget_insertChecks_mem :
    ∀ (cs : List (String × String)) (d : Dict), distinct (cs.map (·.1)) = true → ∀ k v, (k, v) ∈ cs →
      dget k (insertChecks cs d) = some (.name v) := by
  intro cs
  induction cs with
  | nil => intro d _ k v h; simp at h
  | cons c cs ih =>
    obtain ⟨k0, v0⟩ := c
    intro d hd k v hm
    simp only [List.map_cons, distinct_cons] at hd
    simp only [insertChecks]
    cases List.mem_cons.1 hm with
    | inl e =>
      cases e
      rw [dget_insertChecks_foreign k0 cs _ hd.1]; simp
    | inr hm' => exact ih _ hd.2 k v hm'

theorem insertChecks_idem :
    ∀ (cs : List (String × String)) (d : Dict), (∀ k v, (k, v) ∈ cs → dget k d = some (.name v)) →
      insertChecks cs d = d := by
  intro cs
  induction cs with
  | nil => intro d _; rfl
  | cons c cs ih =>
    obtain ⟨k0, v0⟩ := c
    intro d h
    simp only [insertChecks]
    rw [dinsert_idem (h k0 v0 (by simp))]
    exact ih d (fun k v hm => h k v (by simp [hm]))

theorem expectAll_ok (d : Dict) :
    ∀ cs : List (String × String), (∀ k v, (k, v) ∈ cs → dget k d = some (.name v)) → expectAll d cs = .ok () := by
  intro cs
  induction cs with
  | nil => intro _; rfl
  | cons c cs ih =>
    obtain ⟨k0, v0⟩ := c
    intro h
    simp only [expectAll, expect, h k0 v0 (by simp)]
    simp
    exact ih (fun k v hm => h k v (by simp [hm]))

end Derive
