import PdfModel.Lemmas.ContentBytesItems
import PdfModel.Lemmas.ContentBytesRead
import PdfModel.Lemmas.ContentBytesUtf8
import PdfModel.Lemmas.Serialize
import PdfModel.Lemmas.ContentInst

/-! C08 byte level, part 4: what `serialize_ops` writes is a conformant spelling (`SpellsToks`) of the token
    sequence of the token-level serializer. -/

namespace ContentBytes
open Content ContentSyntax
open PdfLex (Serialisable SerialisableL SerialisableE)
open PdfSyntax (Gap Bnd Spells SpellsElems IntTok RealTok NatTok needsBnd Digits)

variable {R : Type}

/-- What the proofs assume about `Display for f32` (`fmt`) and `f32::from_str` (`pr`), third-party code, in terms
    of the real-number interface of the token level: a finite non-integral value is printed as a real token that
    converts back to the same value; an integral value is printed as the integer `intDigits?` says (so with a
    `.` appended it is a real token that converts back to the value); `struct Real`'s test `big` is only true
    of integral values, and a value that is not `big` prints as a 32-bit integer.  Validated on Rust's `f32` by
    the oracle `c08.laws` and the stream `c04.f32`. -/
structure FmtLaws (ro : RealOps R) (fmt : R → List UInt8) (pr : List UInt8 → Option R) : Prop where
  frac : ∀ r, ro.special r = none → ro.intDigits? r = none → RealTok (fmt r) ∧ pr (fmt r) = some r
  integral : ∀ r n, ro.special r = none → ro.intDigits? r = some n →
    IntTok (fmt r) n ∧ RealTok (fmt r ++ [46]) ∧ pr (fmt r ++ [46]) = some r
  big_integral : ∀ r, ro.big r = true → ∃ n, ro.intDigits? r = some n
  small_i32 : ∀ r n, ro.special r = none → ro.intDigits? r = some n → ro.big r = false →
    -2147483648 ≤ n ∧ n ≤ 2147483647

section
variable (ro : RealOps R) (fmt : R → List UInt8) (pr : List UInt8 → Option R)

theorem realTok_contains {t : List UInt8} (h : RealTok t) : t.contains 46 = true := by
  obtain ⟨sign, ip, fp, rfl, _⟩ := h
  simp

theorem dig_ne_dot : ∀ b : UInt8, PdfSyntax.isDig b = true → b ≠ 46 := by decide +kernel

theorem intTok_no_dot {t : List UInt8} {i : Int} (h : IntTok t i) : t.contains 46 = false := by
  obtain ⟨ds, _, hd, h3⟩ := h
  have hds : ds.contains 46 = false := by
    simp only [List.contains_eq_mem, decide_eq_false_iff_not]
    intro hm
    exact dig_ne_dot 46 (hd 46 hm) rfl
  rcases h3 with ⟨rfl, _⟩ | ⟨rfl, _⟩ | ⟨rfl, _⟩
  · exact hds
  · simp only [List.contains_cons, hds, Bool.or_false]; decide
  · simp only [List.contains_cons, hds, Bool.or_false]; decide

/-- `Primitive::Number`: the text written (`serializeReal`) is a real token that converts back -/
theorem serialisable_real (fl : FmtLaws ro fmt pr) {r : R} (hf : finiteR ro r = true) :
    RealTok (PdfLex.serializeReal (fmt r)) ∧ pr (PdfLex.serializeReal (fmt r)) = some r := by
  have hs : ro.special r = none := by simpa [finiteR] using hf
  unfold PdfLex.serializeReal
  cases hi : ro.intDigits? r with
  | none =>
    obtain ⟨h1, h2⟩ := fl.frac r hs hi
    rw [if_pos (realTok_contains h1)]
    exact ⟨h1, h2⟩
  | some n =>
    obtain ⟨h1, h2, h3⟩ := fl.integral r n hs hi
    have : ¬ ((fmt r).contains 46 = true) := by rw [intTok_no_dot h1]; simp
    rw [if_neg this]
    exact ⟨h2, h3⟩

/-- `struct Real`: the text written spells the operand that the token level says the reader sees -/
theorem realB_spells (fl : FmtLaws ro fmt pr) {r : R} (hf : finiteR ro r = true) :
    Spells pr (toLex (numQ ro r)) (realB ro fmt r) := by
  have hs : ro.special r = none := by simpa [finiteR] using hf
  unfold realB
  cases hi : ro.intDigits? r with
  | none =>
    have hb : ro.big r = false := by
      cases hbig : ro.big r with
      | false => rfl
      | true => obtain ⟨n, hn⟩ := fl.big_integral r hbig; rw [hi] at hn; cases hn
    have hq : numQ ro r = .real r := by
      unfold numQ numPrim?; simp [hs, hi]
    rw [hq, hb]
    simp only [Bool.false_eq_true, if_false, toLex, Spells]
    exact fl.frac r hs hi
  | some n =>
    obtain ⟨h1, h2, h3⟩ := fl.integral r n hs hi
    cases hbig : ro.big r with
    | true =>
      have hq : numQ ro r = .real r := by
        unfold numQ numPrim?; simp [hs, hi, hbig]
      rw [hq]
      simp only [if_true, toLex, Spells]
      exact ⟨h2, h3⟩
    | false =>
      have hq : numQ ro r = .int n := by
        unfold numQ numPrim?; simp [hs, hi, hbig]
      rw [hq]
      simp only [Bool.false_eq_true, if_false, toLex, Spells]
      exact ⟨h1, fl.small_i32 r n hs hi hbig⟩


-- operands that are `Primitive`s

mutual
/-- a value of the Rust type `Primitive` (no stream) with finite reals: 32-bit integers, object numbers within
    `u64`, dictionaries with as many values as keys and distinct keys (names are strings, hence UTF-8:
    `utf8Valid_strBytes`) -/
def PrimV : Content.Prim R → Prop
  | .int i => -2147483648 ≤ i ∧ i ≤ 2147483647
  | .real r => finiteR ro r = true
  | .ref a b => a ≤ 18446744073709551615 ∧ b ≤ 18446744073709551615
  | .arr xs => PrimVL xs
  | .dict ks vs => ks.length = vs.length ∧ (ks.map strBytes).Nodup ∧ PrimVL vs
  | _ => True
def PrimVL : List (Content.Prim R) → Prop
  | [] => True
  | x :: xs => PrimV x ∧ PrimVL xs
end

theorem keysOf_toLexE : ∀ (ks : List String) (vs : List (Content.Prim R)), ks.length = vs.length →
    PdfSyntax.keysOf (toLexE ks vs) = ks.map strBytes
  | [], [], _ => rfl
  | k :: ks, v :: vs, h => by
    simp only [toLexE, PdfSyntax.keysOf, List.map_cons] at *
    have := keysOf_toLexE ks vs (by simpa using h)
    simp only [PdfSyntax.keysOf] at this
    rw [this]
  | [], _ :: _, h => by simp at h
  | _ :: _, [], h => by simp at h

mutual
theorem toLex_serialisable (fl : FmtLaws ro fmt pr) : (p : Content.Prim R) → PrimV ro p → Serialisable fmt pr (toLex p)
  | .null, _ => by simp [toLex, Serialisable]
  | .bool _, _ => by simp [toLex, Serialisable]
  | .int i, h => by simpa [toLex, Serialisable, PrimV] using h
  | .real r, h => by
    simp only [toLex, Serialisable]
    exact serialisable_real ro fmt pr fl (by simpa [PrimV] using h)
  | .str _, _ => by simp [toLex, Serialisable]
  | .name _, _ => by simp [toLex, Serialisable]
  | .ref a b, h => by simpa [toLex, Serialisable, PrimV] using h
  | .arr xs, h => by
    simp only [toLex, Serialisable]
    exact toLexL_serialisable fl xs (by simpa [PrimV] using h)
  | .dict ks vs, h => by
    simp only [toLex, Serialisable]
    simp only [PrimV] at h
    exact toLexE_serialisable fl ks vs h.2.2
theorem toLexL_serialisable (fl : FmtLaws ro fmt pr) : (xs : List (Content.Prim R)) → PrimVL ro xs →
    SerialisableL fmt pr (toLexL xs)
  | [], _ => by simp [toLexL, SerialisableL]
  | x :: xs, h => by
    simp only [PrimVL] at h
    simp only [toLexL, SerialisableL]
    exact ⟨toLex_serialisable fl x h.1, toLexL_serialisable fl xs h.2⟩
theorem toLexE_serialisable (fl : FmtLaws ro fmt pr) : (ks : List String) → (vs : List (Content.Prim R)) → PrimVL ro vs →
    SerialisableE fmt pr (toLexE ks vs)
  | [], _, _ => by simp [toLexE, SerialisableE]
  | _ :: _, [], _ => by simp [toLexE, SerialisableE]
  | k :: ks, v :: vs, h => by
    simp only [PrimVL] at h
    simp only [toLexE, SerialisableE]
    exact ⟨toLex_serialisable fl v h.1, toLexE_serialisable fl ks vs h.2⟩
end

mutual
theorem toLex_wf : (p : Content.Prim R) → PrimV ro p → PdfSyntax.WF (toLex p)
  | .null, _ => by simp [toLex, PdfSyntax.WF]
  | .bool _, _ => by simp [toLex, PdfSyntax.WF]
  | .int _, _ => by simp [toLex, PdfSyntax.WF]
  | .real _, _ => by simp [toLex, PdfSyntax.WF]
  | .str _, _ => by simp [toLex, PdfSyntax.WF]
  | .name s, _ => by simpa [toLex, PdfSyntax.WF] using utf8Valid_strBytes s
  | .ref _ _, _ => by simp [toLex, PdfSyntax.WF]
  | .arr xs, h => by
    simp only [toLex, PdfSyntax.WF]
    exact toLexL_wf xs (by simpa [PrimV] using h)
  | .dict ks vs, h => by
    simp only [PrimV] at h
    simp only [toLex, PdfSyntax.WF]
    refine ⟨toLexE_wf ks vs h.2.2, ?_⟩
    rw [keysOf_toLexE ks vs h.1]
    exact h.2.1
theorem toLexL_wf : (xs : List (Content.Prim R)) → PrimVL ro xs → PdfSyntax.WFL (toLexL xs)
  | [], _ => by simp [toLexL, PdfSyntax.WFL]
  | x :: xs, h => by
    simp only [PrimVL] at h
    simp only [toLexL, PdfSyntax.WFL]
    exact ⟨toLex_wf x h.1, toLexL_wf xs h.2⟩
theorem toLexE_wf : (ks : List String) → (vs : List (Content.Prim R)) → PrimVL ro vs → PdfSyntax.WFE (toLexE ks vs)
  | [], _, _ => by simp [toLexE, PdfSyntax.WFE]
  | _ :: _, [], _ => by simp [toLexE, PdfSyntax.WFE]
  | k :: ks, v :: vs, h => by
    simp only [PrimVL] at h
    simp only [toLexE, PdfSyntax.WFE]
    exact ⟨utf8Valid_strBytes k, toLex_wf v h.1, toLexE_wf ks vs h.2⟩
end

mutual
theorem ofLex_toLex : (p : Content.Prim R) → PrimV ro p → ofLex (toLex p) = some p
  | .null, _ => rfl
  | .bool _, _ => rfl
  | .int _, _ => rfl
  | .real _, _ => rfl
  | .str _, _ => rfl
  | .name s, _ => by simp [toLex, ofLex, bytesStr_strBytes]
  | .ref _ _, _ => rfl
  | .arr xs, h => by
    simp only [toLex, ofLex]
    rw [ofLexL_toLexL xs (by simpa [PrimV] using h)]
  | .dict ks vs, h => by
    simp only [PrimV] at h
    simp only [toLex, ofLex]
    rw [ofLexE_toLexE ks vs h.1 h.2.2]
theorem ofLexL_toLexL : (xs : List (Content.Prim R)) → PrimVL ro xs → ofLexL (toLexL xs) = some xs
  | [], _ => rfl
  | x :: xs, h => by
    simp only [PrimVL] at h
    simp only [toLexL, ofLexL]
    rw [ofLex_toLex x h.1, ofLexL_toLexL xs h.2]
theorem ofLexE_toLexE : (ks : List String) → (vs : List (Content.Prim R)) → ks.length = vs.length → PrimVL ro vs →
    ofLexE (toLexE ks vs) = some (ks, vs)
  | [], [], _, _ => rfl
  | [], _ :: _, h, _ => by simp at h
  | _ :: _, [], h, _ => by simp at h
  | k :: ks, v :: vs, hl, h => by
    simp only [PrimVL] at h
    simp only [toLexE, ofLexE]
    rw [bytesStr_strBytes, ofLex_toLex v h.1, ofLexE_toLexE ks vs (by simpa using hl) h.2]
end

mutual
theorem serPrim_dot : (p : Content.Prim R) → PrimV ro p → serPrim? ro ⟨true⟩ p = some p
  | .null, _ => rfl
  | .bool _, _ => rfl
  | .int _, _ => rfl
  | .real r, h => by
    have hs : ro.special r = none := by simpa [PrimV, finiteR] using h
    simp [serPrim?, primReal?, hs]
  | .str _, _ => rfl
  | .name _, _ => rfl
  | .ref _ _, _ => rfl
  | .arr xs, h => by
    simp only [serPrim?]
    rw [serPrims_dot xs (by simpa [PrimV] using h)]
  | .dict ks vs, h => by
    simp only [PrimV] at h
    simp only [serPrim?]
    rw [serPrims_dot vs h.2.2]
theorem serPrims_dot : (ps : List (Content.Prim R)) → PrimVL ro ps → serPrims? ro ⟨true⟩ ps = some ps
  | [], _ => rfl
  | p :: ps, h => by
    simp only [PrimVL] at h
    simp only [serPrims?]
    rw [serPrim_dot p h.1, serPrims_dot ps h.2]
end


-- arrays written element by element with one space between them

theorem toLexL_map (xs : List (Content.Prim R)) : toLexL xs = xs.map toLex := by
  induction xs with
  | nil => rfl
  | cons x xs ih => simp [toLexL, ih]

theorem primVL_map {α : Type} (f : α → Content.Prim R) (xs : List α) (h : ∀ x ∈ xs, PrimV ro (f x)) : PrimVL ro (xs.map f) := by
  induction xs with
  | nil => simp [PrimVL]
  | cons x xs ih =>
    simp only [List.map_cons, PrimVL]
    exact ⟨h x (by simp), ih (fun y hy => h y (by simp [hy]))⟩

theorem joinSp_spells {α : Type} (f : α → PdfLex.Prim R) (g : α → List UInt8) :
    ∀ (xs : List α), (∀ x ∈ xs, Spells pr (f x) (g x)) → SpellsElems pr (xs.map f) (joinSp (xs.map g) ++ [93])
  | [], _ => by simp [joinSp, SpellsElems]
  | [x], h => by
    simp only [List.map_cons, List.map_nil, joinSp, SpellsElems]
    exact ⟨g x, [], [93], by simp, h x (by simp), Gap.nil, rfl, fun _ => by simp [Bnd]; decide⟩
  | x :: y :: xs, h => by
    have ih := joinSp_spells f g (y :: xs) (fun z hz => h z (by simp [hz]))
    simp only [List.map_cons, joinSp] at ih ⊢
    simp only [SpellsElems]
    refine ⟨g x, [32], _, ?_, h x (by simp), Gap.ws 32 [] (by decide) Gap.nil, ih, fun _ => by simp [Bnd]; decide⟩
    simp

/-- what an operand item must satisfy: finite reals, values of the Rust types, nesting within `MAX_DEPTH` -/
def ItemV : Item R → Prop
  | .num r => finiteR ro r = true
  | .nat n => n ≤ 2147483647
  | .name _ => True
  | .str _ => True
  | .prim p => PrimV ro p ∧ PdfSyntax.vdepth (toLex p) ≤ PdfLex.maxDepth
  | .nums xs => xs.all (finiteR ro) = true
  | .tda xs => xs.all (finiteTDA ro) = true

theorem numQ_primV (fl : FmtLaws ro fmt pr) {r : R} (hf : finiteR ro r = true) : PrimV ro (numQ ro r) := by
  have hs : ro.special r = none := by simpa [finiteR] using hf
  rcases numQ_cases ro r with h | ⟨n, h, h2, h3⟩
  · rw [h]; simpa [PrimV] using hf
  · rw [h]; simp only [PrimV]; exact fl.small_i32 r n hs h2 h3

theorem numQ_depth (r : R) : PdfSyntax.vdepth (toLex (numQ ro r)) = 0 := by
  rcases numQ_cases ro r with h | ⟨n, h, _, _⟩ <;> rw [h] <;> rfl

theorem tdaQ_primV (fl : FmtLaws ro fmt pr) {x : TDA R} (hf : finiteTDA ro x = true) : PrimV ro (tdaQ ro x) := by
  cases x with
  | text bs => simp [tdaQ, PrimV]
  | spacing s => exact numQ_primV ro fmt pr fl hf

theorem string_spells (bs : List UInt8) : Spells pr (.str bs) (PdfLex.serializeString bs) := by
  simp only [Spells, PdfLex.serializeString]
  by_cases hh : (bs.any fun b => b ≥ 128) = true
  · rw [if_pos hh]; exact Or.inr ⟨_, rfl, PdfLex.serializeString_hex bs⟩
  · rw [if_neg hh]; exact Or.inl ⟨_, rfl, PdfLex.serializeString_lit bs⟩

theorem name_spells (s : List UInt8) : Spells pr (.name s) (PdfLex.serializeName s) := by
  simp only [Spells, PdfLex.serializeName]
  exact ⟨_, rfl, PdfLex.serializeName_body s⟩

theorem tdaQ_spells (fl : FmtLaws ro fmt pr) {x : TDA R} (hf : finiteTDA ro x = true) :
    Spells pr (toLex (tdaQ ro x)) (tdaText ro fmt x) := by
  cases x with
  | text bs =>
    simp only [tdaQ, tdaText, toLex]
    exact string_spells pr bs
  | spacing s => exact realB_spells ro fmt pr fl hf

theorem vdepthL_zero {α : Type} (f : α → PdfLex.Prim R) (xs : List α) (h : ∀ x ∈ xs, PdfSyntax.vdepth (f x) = 0) :
    PdfSyntax.vdepthL (xs.map f) = 0 := by
  induction xs with
  | nil => rfl
  | cons x xs ih =>
    simp only [List.map_cons, PdfSyntax.vdepthL]
    rw [h x (by simp), ih (fun y hy => h y (by simp [hy]))]
    rfl

theorem tdaQ_depth (x : TDA R) : PdfSyntax.vdepth (toLex (tdaQ ro x)) = 0 := by
  cases x with
  | text bs => rfl
  | spacing s => exact numQ_depth ro s

/-- **One operand.**  What the writer emits for an operand is a spelling (plus, after a dictionary, the line feed
    that `Dictionary::serialize` adds) of the operand that the token-level serializer says the reader sees. -/
theorem item_spells (fl : FmtLaws ro fmt pr) (it : Item R) (h : ItemV ro it) :
    ∃ q txt trail, itemTok ro ⟨true⟩ it = .prim q ∧ itemB ro fmt it = .ok (txt ++ trail) ∧
      Spells pr (toLex q) txt ∧ (trail = [] ∨ trail = [10]) ∧ (needsBnd (toLex q) = true → trail = []) ∧
      PrimV ro q ∧ PdfSyntax.vdepth (toLex q) ≤ PdfLex.maxDepth := by
  cases it with
  | num r =>
    simp only [ItemV] at h
    exact ⟨numQ ro r, realB ro fmt r, [], by simp [itemTok, numTok_fin ro h], by simp [itemB],
      realB_spells ro fmt pr fl h, Or.inl rfl, fun _ => rfl, numQ_primV ro fmt pr fl h, by rw [numQ_depth]; exact Nat.zero_le _⟩
  | nat n =>
    simp only [ItemV] at h
    refine ⟨.int n, PdfLex.fmtNat n, [], rfl, by simp [itemB], ?_, Or.inl rfl, fun _ => rfl, ?_, Nat.zero_le _⟩
    · simp only [toLex, Spells]
      have := PdfLex.fmtInt_spec (n : Int)
      have e : PdfLex.fmtInt (n : Int) = PdfLex.fmtNat n := by
        unfold PdfLex.fmtInt
        have : ¬ ((n : Int) < 0) := by omega
        simp [this]
      rw [e] at this
      exact ⟨this, by omega, by omega⟩
    · simp only [PrimV]; omega
  | name s =>
    exact ⟨.name s, PdfLex.serializeName (strBytes s), [], rfl, by simp [itemB], name_spells pr (strBytes s), Or.inl rfl,
      fun _ => rfl, by simp [PrimV], Nat.zero_le _⟩
  | str bs =>
    exact ⟨.str bs, PdfLex.serializeString bs, [], rfl, by simp [itemB], string_spells pr bs, Or.inl rfl, fun _ => rfl,
      by simp [PrimV], Nat.zero_le _⟩
  | prim p =>
    simp only [ItemV] at h
    obtain ⟨txt, trail, h1, h2, h3, h4⟩ := PdfLex.serialize_spells fmt pr (toLex p) (toLex_serialisable ro fmt pr fl p h.1)
    refine ⟨p, txt, trail, ?_, by simp [itemB, h1], h2, h3, h4, h.1, h.2⟩
    simp [itemTok, primTok, serPrim_dot ro p h.1]
  | nums xs =>
    simp only [ItemV] at h
    have hall : ∀ x ∈ xs, finiteR ro x = true := by simpa using h
    refine ⟨.arr (xs.map (numQ ro)), 91 :: joinSp (xs.map (realB ro fmt)) ++ [93], [], by simp [itemTok, numArrayTok_fin ro h],
      by simp [itemB], ?_, Or.inl rfl, fun hb => by simp [toLex, needsBnd] at hb, ?_, ?_⟩
    · simp only [toLex, Spells, toLexL_map, List.map_map]
      refine ⟨[], joinSp (xs.map (realB ro fmt)) ++ [93], by simp, Gap.nil, ?_⟩
      exact joinSp_spells pr (toLex ∘ numQ ro) (realB ro fmt) xs (fun x hx => realB_spells ro fmt pr fl (hall x hx))
    · simp only [PrimV]
      exact primVL_map ro (numQ ro) xs (fun x hx => numQ_primV ro fmt pr fl (hall x hx))
    · simp only [toLex, PdfSyntax.vdepth, toLexL_map, List.map_map]
      rw [vdepthL_zero (toLex ∘ numQ ro) xs (fun x _ => numQ_depth ro x)]
      decide
  | tda xs =>
    simp only [ItemV] at h
    have hall : ∀ x ∈ xs, finiteTDA ro x = true := by simpa using h
    refine ⟨.arr (xs.map (tdaQ ro)), 91 :: joinSp (xs.map (tdaText ro fmt)) ++ [93], [], by simp [itemTok, tdaArrayTok_fin ro h],
      by simp [itemB], ?_, Or.inl rfl, fun hb => by simp [toLex, needsBnd] at hb, ?_, ?_⟩
    · simp only [toLex, Spells, toLexL_map, List.map_map]
      refine ⟨[], joinSp (xs.map (tdaText ro fmt)) ++ [93], by simp, Gap.nil, ?_⟩
      exact joinSp_spells pr (toLex ∘ tdaQ ro) (tdaText ro fmt) xs (fun x hx => tdaQ_spells ro fmt pr fl (hall x hx))
    · simp only [PrimV]
      exact primVL_map ro (tdaQ ro) xs (fun x hx => tdaQ_primV ro fmt pr fl (hall x hx))
    · simp only [toLex, PdfSyntax.vdepth, toLexL_map, List.map_map]
      rw [vdepthL_zero (toLex ∘ tdaQ ro) xs (fun x _ => tdaQ_depth ro x)]
      decide


-- operations

def ColorV : Color R → Prop
  | .other args => ∀ p ∈ args, PrimV ro p ∧ PdfSyntax.vdepth (toLex p) ≤ PdfLex.maxDepth
  | _ => True

/-- an operation the serializer accepts, over values of the Rust types: finite reals, `Primitive` operands that
    are proper values nested within `MAX_DEPTH`, not an inline image -/
def OpV (op : Op R) : Prop :=
  finiteOp ro op = true ∧
  match op with
  | .beginMarkedContent _ (some p) => PrimV ro p ∧ PdfSyntax.vdepth (toLex p) ≤ PdfLex.maxDepth
  | .markedContentPoint _ (some p) => PrimV ro p ∧ PdfSyntax.vdepth (toLex p) ≤ PdfLex.maxDepth
  | .strokeColor c => ColorV ro c
  | .fillColor c => ColorV ro c
  | .inlineImage _ => False
  | _ => True

local macro "items_case" h:ident hv:ident : tactic => `(tactic|
  (simp [serItems] at $h:ident; subst $h:ident
   simp only [finiteOp, finitePt, finiteMatrix, finiteColor, Bool.and_eq_true] at $hv:ident
   refine ⟨?_, by dsimp only; decide⟩
   simp [ItemV, ptItems, matrixItems, *]))

/-- the operands of one iteration are writable items, the keyword is an operator keyword -/
theorem serItems_itemV (s : SState R) (op : Op R) (rest : List (Op R)) (x : SerItems R)
    (hv : OpV ro op) (hfr : ∀ o ∈ rest.take x.extra, finiteOp ro o = true) (h : serItems ro s op rest = some x) :
    (∀ it ∈ x.operands, ItemV ro it) ∧ kwOK (strBytes x.kw) = true := by
  obtain ⟨hf, hp⟩ := hv
  cases op
  case inlineImage img => simp [serItems] at h
  case beginMarkedContent tag p =>
    cases p with
    | none => simp [serItems] at h; subst h; exact ⟨by simp [ItemV], by dsimp only; decide⟩
    | some q => simp [serItems] at h; subst h; exact ⟨by simpa [ItemV] using hp, by dsimp only; decide⟩
  case markedContentPoint tag p =>
    cases p with
    | none => simp [serItems] at h; subst h; exact ⟨by simp [ItemV], by dsimp only; decide⟩
    | some q => simp [serItems] at h; subst h; exact ⟨by simpa [ItemV] using hp, by dsimp only; decide⟩
  case strokeColor c =>
    cases c with
    | other args =>
      simp [serItems, colorItems] at h; subst h
      exact ⟨by simpa [ItemV, ColorV] using hp, by dsimp only; decide⟩
    | _ =>
      simp [serItems, colorItems] at h; subst h
      simp only [finiteOp, finiteColor, Bool.and_eq_true] at hf
      exact ⟨by simp [ItemV, *], by dsimp only; decide⟩
  case fillColor c =>
    cases c with
    | other args =>
      simp [serItems, colorItems] at h; subst h
      exact ⟨by simpa [ItemV, ColorV] using hp, by dsimp only; decide⟩
    | _ =>
      simp [serItems, colorItems] at h; subst h
      simp only [finiteOp, finiteColor, Bool.and_eq_true] at hf
      exact ⟨by simp [ItemV, *], by dsimp only; decide⟩
  case fillAndStroke w => cases w <;> (simp [serItems] at h; subst h; exact ⟨by simp, by dsimp only; decide⟩)
  case fill w => cases w <;> (simp [serItems] at h; subst h; exact ⟨by simp, by dsimp only; decide⟩)
  case clip w => cases w <;> (simp [serItems] at h; subst h; exact ⟨by simp, by dsimp only; decide⟩)
  case close =>
    simp only [serItems] at h
    split at h <;> (simp at h; subst h; exact ⟨by simp, by dsimp only; decide⟩)
  case textNewline =>
    simp only [serItems] at h
    split at h <;> (simp at h; subst h; exact ⟨by simp [ItemV], by dsimp only; decide⟩)
  case wordSpacing ws =>
    simp only [serItems] at h
    split at h
    · rename_i cs text tl
      simp at h; subst h
      have hcs := hfr (.charSpacing cs) (by simp)
      simp only [finiteOp] at hf hcs
      exact ⟨by simp [ItemV, hf, hcs], by dsimp only; decide⟩
    · simp at h; subst h
      simp only [finiteOp] at hf
      exact ⟨by simp [ItemV, hf], by dsimp only; decide⟩
  case leading l =>
    simp only [serItems] at h
    split at h
    · rename_i t tl
      split at h
      · simp at h; subst h
        have ht := hfr (.moveTextPosition t) (by simp)
        simp only [finiteOp, finitePt, Bool.and_eq_true] at ht
        exact ⟨by simp [ItemV, ptItems, ht], by dsimp only; decide⟩
      · simp at h; subst h
        simp only [finiteOp] at hf
        exact ⟨by simp [ItemV, hf], by dsimp only; decide⟩
    · simp at h; subst h
      simp only [finiteOp] at hf
      exact ⟨by simp [ItemV, hf], by dsimp only; decide⟩
  case curveTo c1 c2 p =>
    simp only [serItems] at h
    simp only [finiteOp, finitePt, Bool.and_eq_true] at hf
    split at h
    · simp at h; subst h; exact ⟨by simp [ItemV, ptItems, hf], by dsimp only; decide⟩
    · split at h
      · simp at h; subst h; exact ⟨by simp [ItemV, ptItems, hf], by dsimp only; decide⟩
      · simp at h; subst h; exact ⟨by simp [ItemV, ptItems, hf], by dsimp only; decide⟩
  case lineJoin j =>
    simp [serItems] at h; subst h
    exact ⟨by simp [ItemV]; omega, by dsimp only; decide⟩
  case lineCap j =>
    simp [serItems] at h; subst h
    exact ⟨by simp [ItemV]; omega, by dsimp only; decide⟩
  case textRenderMode j =>
    simp [serItems] at h; subst h
    exact ⟨by simp [ItemV]; omega, by dsimp only; decide⟩
  case renderingIntent i =>
    simp [serItems] at h; subst h
    exact ⟨by simp [ItemV], by dsimp only; decide⟩
  case dash pat ph =>
    simp [serItems] at h; subst h
    simp only [finiteOp, Bool.and_eq_true] at hf
    refine ⟨?_, by dsimp only; decide⟩
    intro it hit
    simp only [List.mem_cons, List.mem_nil_iff, or_false] at hit
    rcases hit with rfl | rfl
    · exact hf.1
    · exact hf.2
  case textDrawAdjusted arr =>
    simp [serItems] at h; subst h
    simp only [finiteOp] at hf
    refine ⟨?_, by dsimp only; decide⟩
    intro it hit
    simp only [List.mem_cons, List.mem_nil_iff, or_false] at hit
    subst hit
    exact hf
  all_goals items_case h hf

end
end ContentBytes
