import PdfModel.Model.ContentLoopEI
import PdfModel.Lemmas.TotalContent

/-! Totality of `inlineImageEI` (the end-of-data search of repo commit 4386f8d), for every buffer, cursor and oracle. -/

namespace PdfLex

variable {R : Type}

theorem findEI_spec (buf : Buf) (fuel pos j : Nat) (h : findEI buf fuel pos = some j) :
    pos ≤ j ∧ j + 3 ≤ buf.size := by
  induction fuel generalizing pos with
  | zero => simp [findEI] at h
  | succ fuel ih =>
    unfold findEI at h
    cases hb : buf[pos]? with
    | none => rw [hb] at h; cases h
    | some b =>
      rw [hb] at h
      simp only at h
      split at h
      · rename_i hc
        cases h
        simp only [Bool.and_eq_true, beq_iff_eq] at hc
        have := getElem?_lt hc.1.2
        exact ⟨Nat.le_refl _, by omega⟩
      · have := ih (pos + 1) h
        omega

theorem inlineImageEI_spec (env : Env R) (henv : EnvOk env) (buf : Buf) (hs : RealSize buf) (o : Oracle)
    (pos : Nat) (h : pos ≤ buf.size) :
    ∃ b p d, inlineImageEI env buf o pos = .ok ((b, p), d) ∧ pos ≤ p ∧ p ≤ buf.size ∧
      (∀ s, d = some s → s.1 ≤ s.2 ∧ s.2 ≤ buf.size) := by
  unfold inlineImageEI
  obtain ⟨c, p, hp, h1, h2⟩ := inlineDictLoop_spec env henv buf hs o (buf.size + 1) pos h (by omega)
  rw [hp]; simp only [Out.bind_ok]
  cases c with
  | false => exact ⟨false, p, none, rfl, h1, h2, fun s hh => by cases hh⟩
  | true =>
    simp only [Bool.not_true, Bool.false_eq_true, if_false]
    rcases next_spec buf p h2 with he | ⟨w, hw, a1, a2, a3⟩
    · rw [he]; exact ⟨false, p, none, rfl, h1, h2, fun s hh => by cases hh⟩
    · rw [hw]; simp only []
      split
      · exact ⟨false, w.2, none, rfl, by omega, a3, fun s hh => by cases hh⟩
      · have hsz : buf.size ≤ usizeMax := by unfold RealSize at hs; unfold usizeMax; omega
        have hu : ¬ (w.2 + 1 > usizeMax) := by unfold RealSize at hs; unfold usizeMax; omega
        simp only [hu, if_false]
        rw [remainingStart_spec buf w.2 a3]; simp only [Out.bind_ok]
        cases hf : findEI buf (buf.size - w.2) w.2 with
        | none =>
          simp only []
          rw [offsetPos_exact buf w.2 (buf.size - w.2) a3 (by omega)]; simp only [Out.bind_ok]
          exact ⟨false, _, none, rfl, by omega, by omega, fun s hh => by cases hh⟩
        | some j =>
          obtain ⟨j1, j2⟩ := findEI_spec buf _ _ _ hf
          simp only []
          rw [offsetPos_exact buf w.2 (j - w.2 + 3) a3 (by omega)]; simp only [Out.bind_ok]
          have hq : min (w.2 + (j - w.2 + 3)) buf.size = j + 3 := by omega
          rw [hq]
          split
          · exact ⟨false, j + 3, none, rfl, by omega, j2, fun s hh => by cases hh⟩
          · rw [newSubstr_fwd (by omega) (by omega)]; simp only [Out.bind_ok]
            refine ⟨true, j + 3, some (w.2 + 1, max j (w.2 + 1)), rfl, by omega, j2, fun s hh => ?_⟩
            cases hh; exact ⟨by simp; omega, by simp; omega⟩

end PdfLex
