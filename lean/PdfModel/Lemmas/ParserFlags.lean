import PdfModel.Lemmas.Parser
import PdfModel.Lemmas.ParserCursor

/-! `ParseFlags`: a conformant spelling of `v` is rejected (`Err(PrimitiveNotAllowed)`) by every flag set that does
    not contain the bit of `v`'s kind (`flagOf`) — the converse of the reader theorems, which need that bit. -/

namespace PdfLex
open PdfSyntax (Gap Bnd NatTok IntTok RealTok NameBody LitBody HexBody Spells SpellsStream needsBnd)

variable {R : Type}

theorem check_err {flags x : Nat} (h : flags &&& x = 0) : check flags x = .err := by
  simp [check, h]

theorem parseCtx_of_inner_err (env : Env R) {buf : Buf} (f pos : Nat) (ctx : Option (Nat × Nat)) (flags depth : Nat)
    (hp : pos ≤ buf.size) (h : parseInner env buf f pos ctx flags depth = .err) :
    parseCtx env buf (f + 1) pos ctx flags depth = .err := by
  simp only [parseCtx, h]
  rw [setPos_ok hp hp]; rfl

/-- the first lexeme is a one-token value of regular characters that is neither integer, real nor name:
    only the `check` decides -/
theorem parseInner_reject (env : Env R) (v : Prim R) (txt : List UInt8) (hsp : Spells env.parseReal v txt) {buf : Buf}
    (g rest : List UInt8) (pos f : Nat) (ctx : Option (Nat × Nat)) (flags depth : Nat) (hg : Gap g)
    (hfl : flags &&& flagOf v = 0) (hs : Suffix buf pos (g ++ txt ++ rest)) (hb : needsBnd v = true → Bnd rest)
    (hah : Ahead buf (pos + g.length + txt.length)) :
    parseInner env buf (f + 1) pos ctx flags depth = .err := by
  have hend : pos + g.length + txt.length ≤ buf.size := by
    have := hs.size_eq; simp at this; omega
  cases v with
  | null =>
    simp only [Spells] at hsp; subst hsp
    simp only [flagOf] at hfl
    obtain ⟨hn, hsl⟩ := next_regular g kwNull rest pos hg hs (by decide) kw_null_spec.2.2 (hb rfl)
    simp only [parseInner, remainingStart_ok hs.le, hn, Out.bind_ok, hsl]
    have e := kw_null_spec; simp only [kwNull] at e
    simp [e.1, e.2.1, kwNull, kwTrue, kwFalse, check_err hfl]
  | bool b =>
    simp only [Spells] at hsp; subst hsp
    simp only [flagOf] at hfl
    cases b with
    | true =>
      simp only [if_true] at hs
      obtain ⟨hn, hsl⟩ := next_regular g kwTrue rest pos hg hs (by decide) kw_true_spec.2.2 (hb rfl)
      simp only [parseInner, remainingStart_ok hs.le, hn, Out.bind_ok, hsl]
      have e := kw_true_spec; simp only [kwTrue] at e
      simp [e.1, e.2.1, kwTrue, check_err hfl]
    | false =>
      simp only [Bool.false_eq_true, if_false] at hs
      obtain ⟨hn, hsl⟩ := next_regular g kwFalse rest pos hg hs (by decide) kw_false_spec.2.2 (hb rfl)
      simp only [parseInner, remainingStart_ok hs.le, hn, Out.bind_ok, hsl]
      have e := kw_false_spec; simp only [kwFalse] at e
      simp [e.1, e.2.1, kwFalse, kwTrue, check_err hfl]
  | real r =>
    simp only [Spells] at hsp
    simp only [flagOf] at hfl
    obtain ⟨h1, h2, h3, h4⟩ := realTok_spec txt hsp.1
    obtain ⟨hn, hsl⟩ := next_regular g txt rest pos hg hs h3 h4 (hb rfl)
    have hne2 : (txt == [60, 60]) = false := by
      apply beq_false_of_ne; intro e; subst e; have := h4 60 (by simp); revert this; decide
    simp only [parseInner, remainingStart_ok hs.le, hn, Out.bind_ok, hsl]
    simp [hne2, h1, h2, check_err hfl]
  | name s =>
    simp only [Spells] at hsp
    obtain ⟨body, rfl, hnb⟩ := hsp
    simp only [flagOf] at hfl
    obtain ⟨_, hreg⟩ := nameBody_spec body s hnb
    obtain ⟨hn, hsl⟩ := next_name g body rest pos hg hs hreg (hb rfl)
    simp only [parseInner, remainingStart_ok hs.le, hn, Out.bind_ok, hsl]
    have hint : isInteger (47 :: body) = false := by simp [isInteger, allDigits, isDigit]
    have hreal : realNumber (47 :: body) = none := realNumber_none_of_head 47 body (by decide) (by decide) (by decide) (by decide)
    simp [hint, hreal, check_err hfl]
  | str s =>
    simp only [Spells] at hsp
    simp only [flagOf] at hfl
    rcases hsp with ⟨body, rfl, hl⟩ | ⟨body, rfl, hl⟩
    · obtain ⟨hn, hsl⟩ := next_delim g 40 (body ++ rest) pos hg (by simpa using hs) (by decide) (by decide) (by decide) (by simp)
      simp only [parseInner, remainingStart_ok hs.le, hn, Out.bind_ok, hsl]
      have hint : isInteger [40] = false := by decide
      have hreal : realNumber [40] = none := by decide
      have e1 : (([40] : List UInt8) == [60, 60]) = false := by decide
      have e2 : ((([40] : List UInt8).head?) == some 47) = false := by decide
      have e3 : (([40] : List UInt8) == [91]) = false := by decide
      have e4 : (([40] : List UInt8) == [40]) = true := by decide
      simp only [e1, e2, e3, e4, hint, hreal, Bool.false_eq_true, if_false, if_true, check_err hfl, Out.bind_err]
    · have hhead : (body ++ rest).head? ≠ some 60 := by
        have := hexBody_head hl
        cases body with
        | nil => exact absurd rfl (hexBody_ne_nil hl)
        | cons c b => simpa using this
      obtain ⟨hn, hsl⟩ := next_delim g 60 (body ++ rest) pos hg (by simpa using hs) (by decide) (by decide) (by decide)
        (by simpa using hhead)
      simp only [parseInner, remainingStart_ok hs.le, hn, Out.bind_ok, hsl]
      have hint : isInteger [60] = false := by decide
      have hreal : realNumber [60] = none := by decide
      have e1 : (([60] : List UInt8) == [60, 60]) = false := by decide
      have e2 : ((([60] : List UInt8).head?) == some 47) = false := by decide
      have e3 : (([60] : List UInt8) == [91]) = false := by decide
      have e4 : (([60] : List UInt8) == [40]) = false := by decide
      have e5 : (([60] : List UInt8) == [60]) = true := by decide
      simp only [e1, e2, e3, e4, e5, hint, hreal, Bool.false_eq_true, if_false, if_true, check_err hfl, Out.bind_err]
  | arr xs =>
    simp only [Spells] at hsp
    obtain ⟨g0, r, rfl, _, _⟩ := hsp
    simp only [flagOf] at hfl
    obtain ⟨hn, hsl⟩ := next_delim g 91 (g0 ++ r ++ rest) pos hg (by simpa using hs) (by decide) (by decide) (by decide) (by simp)
    have hint : isInteger [91] = false := by decide
    have hreal : realNumber [91] = none := by decide
    have e1 : (([91] : List UInt8) == [60, 60]) = false := by decide
    have e2 : ((([91] : List UInt8).head?) == some 47) = false := by decide
    have e3 : (([91] : List UInt8) == [91]) = true := by decide
    simp only [parseInner, remainingStart_ok hs.le, hn, Out.bind_ok, hsl, e1, e2, e3, hint, hreal,
      Bool.false_eq_true, if_false, if_true, check_err hfl, Out.bind_err]
  | dict kvs =>
    simp only [Spells] at hsp
    obtain ⟨g0, r, rfl, _, _⟩ := hsp
    simp only [flagOf] at hfl
    obtain ⟨hn, hsl⟩ := next_double g 60 (g0 ++ r ++ rest) pos hg (by simpa using hs) (Or.inl rfl)
    have e1 : (([60, 60] : List UInt8) == [60, 60]) = true := by decide
    simp only [parseInner, remainingStart_ok hs.le, hn, Out.bind_ok, hsl, e1, if_true, check_err hfl, Out.bind_err]
  | stream info inner => simp [Spells] at hsp
  | int i =>
    simp only [Spells] at hsp
    simp only [flagOf] at hfl
    obtain ⟨h1, h2, h3, h4⟩ := intTok_spec txt i hsp.1 hsp.2.1 hsp.2.2
    obtain ⟨hn, hsl⟩ := next_regular g txt rest pos hg hs h3 h4 (hb rfl)
    have hne2 : (txt == [60, 60]) = false := by
      apply beq_false_of_ne; intro e; subst e; have := h4 60 (by simp); revert this; decide
    simp only [parseInner, remainingStart_ok hs.le, hn, Out.bind_ok, hsl]
    simp only [hne2, h1, Bool.false_eq_true, if_false, if_true, parseIntOrRef]
    by_cases hc : flags &&& (Flags.integer ||| Flags.ref) = 0
    · simp [check_err hc]
    · simp only [check_ok hc, Out.bind_ok]
      obtain ⟨la, cur, hla, hcur, hR⟩ := intFollowOK_of_ahead hend hah
      simp only [hla, Out.bind_ok, check_err hfl, Out.bind_err]
      cases la with
      | none => rfl
      | some ws =>
        obtain ⟨w2, w3⟩ := ws
        have := hR w2 w3 rfl
        simp [this]
  | ref id gen =>
    simp only [Spells] at hsp
    obtain ⟨a, g1, b, g2, rfl, ha, hbt, hg1, hg1ne, hg2, hg2ne, hid, hgen⟩ := hsp
    simp only [flagOf] at hfl
    obtain ⟨a1, a2, a3, a4⟩ := natTok_spec a id ha hid
    obtain ⟨b1, b2, b3, b4⟩ := natTok_spec b gen hbt hgen
    have h1 : Suffix buf pos (g ++ a ++ (g1 ++ b ++ g2 ++ [82] ++ rest)) := by simpa using hs
    obtain ⟨hn, hsl⟩ := next_regular g a _ pos hg h1 a3 a4 (by simpa using gap_bnd hg1 hg1ne _)
    have h2 : Suffix buf (pos + g.length + a.length) (g1 ++ b ++ (g2 ++ [82] ++ rest)) := by
      have := Suffix.drop (a := g ++ a) (by simpa using h1)
      simpa [Nat.add_assoc] using this
    obtain ⟨hn2, hsl2⟩ := next_regular g1 b _ _ hg1 h2 b3 b4 (by simpa using gap_bnd hg2 hg2ne _)
    have h3 : Suffix buf (pos + g.length + a.length + g1.length + b.length) (g2 ++ [82] ++ rest) := by
      have := Suffix.drop (a := g1 ++ b) (by simpa using h2)
      simpa [Nat.add_assoc] using this
    obtain ⟨hn3, hsl3⟩ := next_regular g2 [82] rest _ hg2 h3 (by simp) (by intro b hb; simp at hb; subst hb; decide) (hb rfl)
    have hne2 : (a == [60, 60]) = false := by
      apply beq_false_of_ne; intro e; subst e; have := a4 60 (by simp); revert this; decide
    simp only [parseInner, remainingStart_ok hs.le, hn, Out.bind_ok, hsl]
    simp only [hne2, a1, Bool.false_eq_true, if_false, if_true, parseIntOrRef]
    by_cases hc : flags &&& (Flags.integer ||| Flags.ref) = 0
    · simp [check_err hc]
    · simp only [check_ok hc, Out.bind_ok, refLookahead, hn2, hsl2, b1, hn3, hsl3, if_true, beq_self_eq_true,
        check_err hfl, Out.bind_err]

/-- **rejected**: `parse_with_lexer_ctx` on a conformant spelling of `v` under a flag set without `v`'s kind -/
theorem parseCtx_reject (env : Env R) (v : Prim R) (txt : List UInt8) (hsp : Spells env.parseReal v txt) {buf : Buf}
    (g rest : List UInt8) (pos fuel : Nat) (ctx : Option (Nat × Nat)) (flags depth : Nat) (hg : Gap g)
    (hfl : flags &&& flagOf v = 0) (hs : Suffix buf pos (g ++ txt ++ rest)) (hb : needsBnd v = true → Bnd rest)
    (hah : Ahead buf (pos + g.length + txt.length)) (hfuel : 2 ≤ fuel) :
    parseCtx env buf fuel pos ctx flags depth = .err := by
  obtain ⟨f, rfl⟩ : ∃ f, fuel = f + 2 := ⟨fuel - 2, by omega⟩
  exact parseCtx_of_inner_err env (f + 1) pos ctx flags depth hs.le
    (parseInner_reject env v txt hsp g rest pos f ctx flags depth hg hfl hs hb hah)

end PdfLex
