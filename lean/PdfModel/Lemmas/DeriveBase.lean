import PdfModel.Lemmas.DerivePreserve

/-! Laws of the hand-written leaves (`baseSem`), of the derived enums, and the lifting through nested derived
    models (`structSem`, `semN`). -/

namespace Derive

/-! ## hand-written leaves -/

theorem numbers_allReal : ∀ xs : List Prim, allReal xs = true → numbers xs = .ok xs := by
  intro xs
  induction xs with
  | nil => intro _; rfl
  | cons x xs ih =>
    intro h
    cases x <;> simp [allReal] at h
    simp [numbers, asNumber, ih h]

/-- values of the leaves `baseSem` implements -/
def baseOk (s : Shape) (v : Val) : Prop :=
  match s, v with
  | .leaf n, .leaf p => n ∈ baseLeaves ∧ baseValid n p = true
  | _, _ => False

theorem baseRd_valid (env : Env) (n : String) (p : Prim) (hn : n ∈ baseLeaves) (hv : baseValid n p = true) :
    baseRdPrim env n p = .ok p := by
  simp [baseLeaves] at hn
  rcases hn with rfl | rfl | rfl | rfl | rfl | rfl | rfl | rfl | rfl | rfl | rfl | rfl | rfl
  · cases p <;> simp [baseValid] at hv; simp [baseRdPrim, viaResolve, Prim.isRef, asInteger]
  · cases p <;> simp [baseValid] at hv; simp [baseRdPrim, viaResolve, Prim.isRef, asU32, hv]
  · cases p <;> simp [baseValid] at hv; simp [baseRdPrim, viaResolve, Prim.isRef, asU32, hv]
  · cases p <;> simp [baseValid] at hv; simp [baseRdPrim, viaResolve, Prim.isRef, asNumber]
  · cases p <;> simp [baseValid] at hv; simp [baseRdPrim, viaResolve, Prim.isRef, asBool]
  · cases p <;> simp [baseValid] at hv; simp [baseRdPrim, viaResolve, Prim.isRef, asName]
  · cases p <;> simp [baseValid] at hv; simp [baseRdPrim, viaResolve, Prim.isRef, asString]
  · simp [baseRdPrim]
  · cases p <;> simp [baseValid] at hv
    simp [baseRdPrim, asDict, chase_nonref env env.depth (p := .dict _) rfl]
  · cases p <;> simp [baseValid] at hv; simp [baseRdPrim]
  · cases p <;> simp [baseValid] at hv
    simp [baseRdPrim, resolve1, resolveP, hv.1, numbers_allReal _ hv.2]
  · cases p <;> simp [baseValid] at hv
    rename_i xs
    have : List.take 6 xs = xs := by rw [List.take_of_length_le]; omega
    simp [baseRdPrim, resolve1, resolveP, hv.1, this, numbers_allReal _ hv.2]
  · simp [baseValid] at hv; simp [baseRdPrim, hv]

theorem baseSem_law (env : Env) : baseSem.Law env baseOk := by
  intro s v _ hok p hw
  cases s with
  | leaf n =>
    cases v with
    | leaf q =>
      simp [baseOk] at hok
      simp [baseSem, hok.2] at hw
      subst hw
      exact ⟨.leaf q, by simp [baseSem, baseRd_valid env n q hok.1 hok.2], by simp [baseSem, hok.2]⟩
    | _ => simp [baseOk] at hok
  | _ => simp [baseOk] at hok

/-! ## derived enums: reading is the exact inverse of writing -/

theorem enum_write_readPrim (S : Schema) (v : Val) (p : Prim) (h : writeEnum S v = .ok p) :
    readEnumPrim S p = .ok v ∧ v = .leaf p ∧ p.isRef = false := by
  simp only [writeEnum] at h
  cases hv : enumValid S v with
  | false => simp [hv] at h
  | true =>
    simp only [hv, if_true] at h
    cases v with
    | leaf q =>
      simp at h; subst h
      refine ⟨?_, rfl, ?_⟩
      rotate_left
      · cases q <;> simp [enumValid] at hv <;> rfl
      cases q <;> simp [enumValid] at hv
      · rename_i i
        obtain ⟨hk, hf⟩ := hv
        simp only [readEnumPrim]
        have : S.kind = .intEnum := by simpa using hk
        simp only [this]
        cases hfd : findDisc i S.variants with
        | none => simp [hfd] at hf
        | some _ => simp
      · rename_i n
        obtain ⟨hk, hf⟩ := hv
        simp only [readEnumPrim]
        cases hkind : S.kind <;> simp [hkind] at hk ⊢ <;>
          (cases hfn : findName n S.variants with
           | some _ => simp
           | none => simp [hfn] at hf; simp [hf])
    | _ => simp [enumValid] at hv

theorem enum_write_read (env : Env) (S : Schema) (v : Val) (p : Prim) (h : writeEnum S v = .ok p) :
    readEnum env S p = .ok v ∧ v = .leaf p := by
  obtain ⟨h1, h2, h3⟩ := enum_write_readPrim S v p h
  refine ⟨?_, h2⟩
  cases p <;> simp [Prim.isRef] at h3 <;> simpa [readEnum, resolve1, resolveP] using h1

theorem enum_read_write (S : Schema) (p : Prim) (v : Val) (h : readEnumPrim S p = .ok v) :
    writeEnum S v = .ok p := by
  simp only [readEnumPrim] at h
  have nameCase : ∀ n, S.kind ≠ .intEnum →
      (match findName n S.variants with
        | some _ => (.ok (.leaf (.name n)) : R Val)
        | none => if S.variants.any (·.other) then .ok (.leaf (.name n)) else .error .other) = .ok v →
      writeEnum S v = .ok (.name n) := by
    intro n hk h
    cases hfn : findName n S.variants with
    | some w => simp [hfn] at h; subst h; simp [writeEnum, enumValid, hk, hfn]
    | none =>
      simp only [hfn] at h
      cases ho : S.variants.any (·.other) with
      | false => simp [ho] at h
      | true => simp [ho] at h; subst h; simp [writeEnum, enumValid, hk, hfn, ho]
  cases hkind : S.kind with
  | intEnum =>
    simp only [hkind] at h
    cases p with
    | int i =>
      simp only at h
      cases hfd : findDisc i S.variants with
      | none => simp [hfd] at h
      | some w => simp [hfd] at h; subst h; simp [writeEnum, enumValid, hkind, hfd]
    | _ => simp at h
  | struct =>
    simp only [hkind] at h
    cases p with
    | name n => exact nameCase n (by simp [hkind]) h
    | _ => simp at h
  | nameEnum =>
    simp only [hkind] at h
    cases p with
    | name n => exact nameCase n (by simp [hkind]) h
    | _ => simp at h
  | streamEnum =>
    simp only [hkind] at h
    cases p with
    | name n => exact nameCase n (by simp [hkind]) h
    | _ => simp at h
  | streamStruct =>
    simp only [hkind] at h
    cases p with
    | name n => exact nameCase n (by simp [hkind]) h
    | _ => simp at h

end Derive
