import PdfModel.Lemmas.Parser
import PdfModel.Model.Serialize

/-! The writer only produces conformant spellings: `serialize v = txt ++ trail` with `Spells v txt` and `trail`
    white-space.  Together with `parseCtx_spells` this is the round trip of C04. -/

namespace PdfLex
open PdfSyntax (Gap Bnd NatTok IntTok RealTok NameBody LitBody HexBody Spells SpellsElems SpellsEntries needsBnd
  WF WFL WFE hexVal)

variable {R : Type}

theorem hex2_spec : ∀ b : UInt8, hexVal (hexLower (b >>> 4)) = some (b >>> 4) ∧ hexVal (hexLower (b &&& 15)) = some (b &&& 15) ∧
    (b >>> 4) * 16 + (b &&& 15) = b := by decide +kernel

theorem nameVerbatim_spec : ∀ b : UInt8, nameVerbatim b = true → PdfSyntax.isReg b = true ∧ b ≠ 35 := by decide +kernel

theorem serializeName_body (s : List UInt8) : NameBody (s.flatMap nameEscape) s := by
  induction s with
  | nil => exact NameBody.nil
  | cons b s ih =>
    simp only [List.flatMap_cons, nameEscape]
    by_cases hb : nameVerbatim b = true
    · obtain ⟨h1, h2⟩ := nameVerbatim_spec b hb
      rw [if_pos hb]
      exact NameBody.raw b _ _ h1 h2 ih
    · obtain ⟨h1, h2, h3⟩ := hex2_spec b
      rw [if_neg hb]
      have := NameBody.esc _ _ _ _ _ _ h1 h2 ih
      rw [h3] at this
      simpa [hex2] using this

theorem serializeString_hex (data : List UInt8) : HexBody (data.flatMap hex2 ++ [62]) data := by
  induction data with
  | nil => exact HexBody.close [] (by intro b hb; simp at hb)
  | cons b s ih =>
    obtain ⟨h1, h2, h3⟩ := hex2_spec b
    have := HexBody.byte [] [] _ _ _ _ _ _ (by intro x hx; simp at hx) (by intro x hx; simp at hx) h1 h2 ih
    rw [h3] at this
    simpa [hex2] using this

theorem litEscape_spec (b : UInt8) (r s : List UInt8) (n : Nat) (ih : LitBody r n s) :
    LitBody (litEscape b ++ r) n (b :: s) := by
  unfold litEscape
  by_cases h1 : (b == 92 || b == 40 || b == 41) = true
  · rw [if_pos h1]
    apply LitBody.named b b _ _ _ _ ih
    simp at h1
    rcases h1 with (rfl | rfl) | rfl <;> decide
  · rw [if_neg h1]
    simp at h1
    by_cases h2 : b = 13
    · subst h2
      exact LitBody.named 114 13 _ _ _ (by decide) ih
    · have : (b == 13) = false := by simp [h2]
      rw [this]
      exact LitBody.plain b _ _ _ h1.1.2 h1.2 h1.1.1 h2 ih

theorem serializeString_lit (data : List UInt8) : LitBody (data.flatMap litEscape ++ [41]) 0 data := by
  induction data with
  | nil => exact LitBody.close
  | cons b s ih =>
    simp only [List.flatMap_cons, List.append_assoc]
    exact litEscape_spec b _ _ _ ih


/-! ### values -/

mutual
/-- the values of C04: 32-bit integers, reals whose text (`f32::to_string`, with a `.` appended when it has
    none) is a real token that converts back to the same real (hypothesis on third-party code, see the claim),
    object numbers within `u64`, no stream below the top level -/
def Serialisable (fmt : R → List UInt8) (pr : List UInt8 → Option R) : Prim R → Prop
  | .int i => -2147483648 ≤ i ∧ i ≤ 2147483647
  | .real r => RealTok (serializeReal (fmt r)) ∧ pr (serializeReal (fmt r)) = some r
  | .ref id gen => id ≤ 18446744073709551615 ∧ gen ≤ 18446744073709551615
  | .arr xs => SerialisableL fmt pr xs
  | .dict kvs => SerialisableE fmt pr kvs
  | .stream _ _ => False
  | _ => True
def SerialisableL (fmt : R → List UInt8) (pr : List UInt8 → Option R) : List (Prim R) → Prop
  | [] => True
  | x :: xs => Serialisable fmt pr x ∧ SerialisableL fmt pr xs
def SerialisableE (fmt : R → List UInt8) (pr : List UInt8 → Option R) : List (List UInt8 × Prim R) → Prop
  | [] => True
  | (_, v) :: rest => Serialisable fmt pr v ∧ SerialisableE fmt pr rest
end

theorem gap_trail {trail : List UInt8} (h : trail = [] ∨ trail = [10]) : Gap trail := by
  rcases h with rfl | rfl
  · exact Gap.nil
  · exact Gap.ws 10 [] (by decide) Gap.nil

mutual

theorem serialize_spells (fmt : R → List UInt8) (pr : List UInt8 → Option R) (v : Prim R) :
    Serialisable fmt pr v → ∃ txt trail, serialize fmt v = .ok (txt ++ trail) ∧ Spells pr v txt ∧
      (trail = [] ∨ trail = [10]) ∧ (needsBnd v = true → trail = []) := by
  intro h
  cases v with
  | null => exact ⟨kwNull, [], by simp [serialize], by simp [Spells, kwNull, PdfSyntax.kwNull], Or.inl rfl, fun _ => rfl⟩
  | bool b =>
    refine ⟨if b then kwTrue else kwFalse, [], by simp [serialize], ?_, Or.inl rfl, fun _ => rfl⟩
    cases b <;> simp [Spells, kwTrue, kwFalse, PdfSyntax.kwTrue, PdfSyntax.kwFalse]
  | int i =>
    simp only [Serialisable] at h
    exact ⟨fmtInt i, [], by simp [serialize], by simp only [Spells]; exact ⟨fmtInt_spec i, h.1, h.2⟩, Or.inl rfl, fun _ => rfl⟩
  | real r =>
    simp only [Serialisable] at h
    exact ⟨serializeReal (fmt r), [], by simp [serialize], by simp only [Spells]; exact h, Or.inl rfl, fun _ => rfl⟩
  | str s =>
    refine ⟨serializeString s, [], by simp [serialize], ?_, Or.inl rfl, fun _ => rfl⟩
    simp only [Spells, serializeString]
    by_cases hh : (s.any fun b => b ≥ 128) = true
    · rw [if_pos hh]; exact Or.inr ⟨_, rfl, serializeString_hex s⟩
    · rw [if_neg hh]; exact Or.inl ⟨_, rfl, serializeString_lit s⟩
  | name s =>
    refine ⟨serializeName s, [], by simp [serialize], ?_, Or.inl rfl, fun _ => rfl⟩
    simp only [Spells, serializeName]
    exact ⟨_, rfl, serializeName_body s⟩
  | ref id gen =>
    simp only [Serialisable] at h
    refine ⟨fmtNat id ++ [32] ++ fmtNat gen ++ [32] ++ [82], [], by simp [serialize], ?_, Or.inl rfl, fun _ => rfl⟩
    simp only [Spells]
    exact ⟨fmtNat id, [32], fmtNat gen, [32], rfl, fmtNat_spec id, fmtNat_spec gen, Gap.ws 32 [] (by decide) Gap.nil,
      by simp, Gap.ws 32 [] (by decide) Gap.nil, by simp, h.1, h.2⟩
  | stream info inner => simp [Serialisable] at h
  | arr xs =>
    simp only [Serialisable] at h
    obtain ⟨r, hr, hs⟩ := serializeList_spells fmt pr xs h true
    refine ⟨91 :: r, [], ?_, ?_, Or.inl rfl, by simp [needsBnd]⟩
    · simp [serialize, hs]
    · simp only [Spells]; exact ⟨[], r, rfl, Gap.nil, hr⟩
  | dict kvs =>
    simp only [Serialisable] at h
    obtain ⟨d, hd, hs⟩ := serializeEntries_spells fmt pr kvs h
    refine ⟨60 :: 60 :: ([10] ++ (d ++ [62, 62])), [10], ?_, ?_, Or.inr rfl, by simp [needsBnd]⟩
    · simp [serialize, hs]
    · simp only [Spells]; exact ⟨[10], d ++ [62, 62], rfl, Gap.ws 10 [] (by decide) Gap.nil, hd⟩

theorem serializeList_spells (fmt : R → List UInt8) (pr : List UInt8 → Option R) (xs : List (Prim R)) :
    SerialisableL fmt pr xs → ∀ (first : Bool), ∃ r, SpellsElems pr xs r ∧
      serializeList fmt xs first = .ok ((if first || xs.isEmpty then [] else [32]) ++ r) := by
  intro h first
  cases xs with
  | nil => exact ⟨[93], by simp [SpellsElems], by simp [serializeList]⟩
  | cons x xs =>
    simp only [SerialisableL] at h
    obtain ⟨tx, trail, h1, h2, h3, h4⟩ := serialize_spells fmt pr x h.1
    obtain ⟨r', hr', hs'⟩ := serializeList_spells fmt pr xs h.2 false
    refine ⟨tx ++ (trail ++ (if xs.isEmpty then [] else [32])) ++ r', ?_, ?_⟩
    · simp only [SpellsElems]
      refine ⟨tx, trail ++ (if xs.isEmpty then [] else [32]), r', rfl, h2, ?_, hr', ?_⟩
      · apply gap_append (gap_trail h3)
        split
        · exact Gap.nil
        · exact Gap.ws 32 [] (by decide) Gap.nil
      · intro hb
        rw [h4 hb]
        cases xs with
        | nil => simp only [SpellsElems] at hr'; subst hr'; simp [Bnd]; decide
        | cons y ys => simp [Bnd]; decide
    · simp only [serializeList, h1, Out.bind_ok, hs']
      cases first <;> simp

theorem serializeEntries_spells (fmt : R → List UInt8) (pr : List UInt8 → Option R) (kvs : List (List UInt8 × Prim R)) :
    SerialisableE fmt pr kvs → ∃ d, SpellsEntries pr kvs (d ++ [62, 62]) ∧ serializeEntries fmt kvs = .ok d := by
  intro h
  cases kvs with
  | nil => exact ⟨[], by simp [SpellsEntries], by simp [serializeEntries]⟩
  | cons kv kvs =>
    obtain ⟨k, v⟩ := kv
    simp only [SerialisableE] at h
    obtain ⟨tv, trail, h1, h2, h3, h4⟩ := serialize_spells fmt pr v h.1
    obtain ⟨d', hd', hs'⟩ := serializeEntries_spells fmt pr kvs h.2
    refine ⟨serializeName k ++ [32] ++ (tv ++ trail) ++ [10] ++ d', ?_, ?_⟩
    · simp only [SpellsEntries]
      refine ⟨k.flatMap nameEscape, [32], tv, trail ++ [10], d' ++ [62, 62], by simp [serializeName], serializeName_body k,
        Gap.ws 32 [] (by decide) Gap.nil, by simp [Bnd]; decide, h2, ?_, hd', ?_⟩
      · exact gap_append (gap_trail h3) (Gap.ws 10 [] (by decide) Gap.nil)
      · intro hb; rw [h4 hb]; simp [Bnd]; decide
    · simp only [serializeEntries, h1, Out.bind_ok, hs']

end


/-! ### totality of the writer -/

theorem returns_bind {α β : Type} {x : Out α} {f : α → Out β} (hx : x.Returns) (hf : ∀ a, (f a).Returns) :
    (x.bind f).Returns := by
  cases x with
  | ok a => exact hf a
  | err => simp [Out.bind, Out.Returns]
  | panic => exact absurd rfl hx.1
  | oof => exact absurd rfl hx.2

theorem returns_ok {α : Type} (a : α) : (Out.ok a).Returns := by simp [Out.Returns]
theorem returns_err {α : Type} : (Out.err : Out α).Returns := by simp [Out.Returns]

mutual
theorem serialize_returns (fmt : R → List UInt8) (v : Prim R) : (serialize fmt v).Returns := by
  cases v with
  | null => exact returns_ok _
  | int i => exact returns_ok _
  | real r => exact returns_ok _
  | bool b => exact returns_ok _
  | str s => exact returns_ok _
  | name s => exact returns_ok _
  | ref i g => exact returns_ok _
  | stream info inner =>
    simp only [serialize]
    apply returns_bind (serializeEntries_returns fmt info)
    intro d
    cases inner with
    | inFile a b c d => exact returns_err
    | pending data => exact returns_ok _
  | dict kvs =>
    simp only [serialize]
    exact returns_bind (serializeEntries_returns fmt kvs) (fun _ => returns_ok _)
  | arr xs =>
    simp only [serialize]
    exact returns_bind (serializeList_returns fmt xs true) (fun _ => returns_ok _)
theorem serializeList_returns (fmt : R → List UInt8) (xs : List (Prim R)) (first : Bool) :
    (serializeList fmt xs first).Returns := by
  cases xs with
  | nil => exact returns_ok _
  | cons x xs =>
    simp only [serializeList]
    exact returns_bind (serialize_returns fmt x) (fun _ =>
      returns_bind (serializeList_returns fmt xs false) (fun _ => returns_ok _))
theorem serializeEntries_returns (fmt : R → List UInt8) (kvs : List (List UInt8 × Prim R)) :
    (serializeEntries fmt kvs).Returns := by
  cases kvs with
  | nil => exact returns_ok _
  | cons kv kvs =>
    obtain ⟨k, v⟩ := kv
    simp only [serializeEntries]
    exact returns_bind (serialize_returns fmt v) (fun _ =>
      returns_bind (serializeEntries_returns fmt kvs) (fun _ => returns_ok _))
end

end PdfLex
