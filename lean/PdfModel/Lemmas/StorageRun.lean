import PdfModel.Lemmas.StorageReload
import PdfModel.Spec.Storage

/-! Histories: the invariant and the abstract map along `run`; when `save` succeeds. -/

namespace Storage
open Xref

variable {V : Type}

/-- every save of the history uses a layout with positive record lengths -/
def OpOK : Op V → Prop
  | .save L => L.Pos
  | _ => True

theorem step_inv (P : Params V) (d0 d : Doc V) (chain0) (hb : BaseOK d0 chain0) (hi : Inv d0 d) (op : Op V)
    (hop : OpOK op) : Inv d0 (step P d op).1 := by
  cases op with
  | create v => exact inv_create d0 d chain0 hb hi v
  | promise => exact inv_promise d0 d hi
  | update id v =>
    have := inv_update d0 d chain0 hb hi id v
    simp only [step]
    split <;> simp_all
  | fulfil id v =>
    have := inv_update d0 d chain0 hb hi id v
    simp only [step]
    split <;> simp_all
  | get id => exact inv_get d0 d hi id
  | resolve id => exact hi
  | save L =>
    have := (inv_save P L hop d0 d chain0 hb hi).1
    simp only [step]
    split <;> simp_all

theorem run_inv (P : Params V) (d0 : Doc V) (chain0) (hb : BaseOK d0 chain0) :
    ∀ (ops : List (Op V)) (d : Doc V), Inv d0 d → (∀ op ∈ ops, OpOK op) → Inv d0 (run P d ops).1 := by
  intro ops
  induction ops with
  | nil => intro d hi _; exact hi
  | cons op ops ih =>
    intro d hi hops
    simp only [run]
    exact ih _ (step_inv P d0 d chain0 hb hi op (hops op (by simp))) (fun o ho => hops o (by simp [ho]))

/-- `update` either records the value under the very number it was given, or changes nothing -/
theorem update_cases (st : St V) (id : Nat) (v : V) :
    (∃ g, update st id v = ({ st with changes := chInsert st.changes id (v, g), cache := [] }, .ok (id, g))) ∨
    (update st id v = (st, .err)) ∨ (update st id v = (st, .panic)) := by
  unfold update
  cases st.refs[id]? with
  | none => right; left; rfl
  | some e =>
    cases e with
    | free n g => right; right; rfl
    | invalid => right; right; rfl
    | raw pos g => left; exact ⟨g, rfl⟩
    | stream s i => left; exact ⟨0, rfl⟩
    | promised => left; exact ⟨0, rfl⟩

theorem step_update_cases (P : Params V) (d : Doc V) (id : Nat) (v : V) :
    (∃ g, step P d (.update id v) =
      (⟨{ d.st with changes := chInsert d.st.changes id (v, g), cache := [] }, d.tr⟩, .ref id g)) ∨
    (∃ o, step P d (.update id v) = (d, .failed o)) := by
  rcases update_cases d.st id v with ⟨g, h⟩ | h | h
  · left; exact ⟨g, by simp [step, h]⟩
  · right; exact ⟨.err, by simp [step, h]⟩
  · right; exact ⟨.panic, by simp [step, h]⟩

theorem step_fulfil_eq (P : Params V) (d : Doc V) (id : Nat) (v : V) :
    step P d (.fulfil id v) = step P d (.update id v) := rfl

/-! ### the abstract map and `changes` -/

/-- what ties the abstract map to the storage: a written reference has exactly its last value pending;
    a reference of the original table that was never written has nothing pending -/
structure LogInv (m : AMap V) (d0 d : Doc V) : Prop where
  written : ∀ (id : Nat) (v : V), m id = some v → ∃ g, chLookup d.st.changes id = some (v, g)
  untouched : ∀ id : Nat, m id = none → id < d0.st.refs.length → chLookup d.st.changes id = none

theorem logInv_base (d0 : Doc V) (chain0) (hb : BaseOK d0 chain0) : LogInv AMap.empty d0 d0 where
  written := by intro id v h; simp [AMap.empty] at h
  untouched := by intro id _ _; rw [hb.changes_nil]; rfl

/-- pending values of numbers that existed before the save are not touched by it -/
theorem save_changes_old (P : Params V) (L : Layout) (d0 d : Doc V) (chain0) (hb : BaseOK d0 chain0) (hi : Inv d0 d)
    (j : Nat) (hj : j < d.st.refs.length) :
    chLookup (save P L d).1.st.changes j = chLookup d.st.changes j := by
  have pf := prep_facts d0 d chain0 hb hi
  have hne : j ≠ (prep d).xid := by have := pf.xid_ge; omega
  by_cases hsz : d.st.refs.length + 2 ≤ MAX_ID
  case neg => rw [save_too_big P L d (by omega)]
  rcases save_cases P L d0 d chain0 hb hi hsz with ⟨w, _, hs⟩ | ⟨w, _, _, hs⟩ | ⟨w, rows, _, _, hs⟩
  · rw [hs]; exact pf.ch_sub j hj
  · rw [hs]; exact pf.ch_sub j hj
  · rcases hs with ⟨i, tr, hs⟩ | ⟨_, hs⟩ <;>
    · rw [hs]; simp only [commit, chLookup_chInsert, if_neg hne]; exact pf.ch_sub j hj

theorem step_log (P : Params V) (d0 d : Doc V) (chain0) (hb : BaseOK d0 chain0) (hi : Inv d0 d) (m : AMap V)
    (hm : LogInv m d0 d) (op : Op V) :
    LogInv (specStep m op (step P d op).2) d0 (step P d op).1 := by
  have put : ∀ (id : Nat) (v : V) (g : Nat) (d' : Doc V),
      d'.st.changes = chInsert d.st.changes id (v, g) → LogInv (m.set id v) d0 d' := by
    intro id v g d' hch
    constructor
    · intro j w hj
      simp only [AMap.set] at hj
      rw [hch, chLookup_chInsert]
      split at hj
      · simp only [Option.some.injEq] at hj; subst hj; subst_vars; exact ⟨g, by simp⟩
      · rename_i hne; rw [if_neg hne]; exact hm.written j w hj
    · intro j hj hlt
      simp only [AMap.set] at hj
      rw [hch, chLookup_chInsert]
      split at hj
      · simp at hj
      · rename_i hne; rw [if_neg hne]; exact hm.untouched j hj hlt
  cases op with
  | create v => exact put _ v 0 _ (by simp [step, create, alloc])
  | promise => exact ⟨hm.written, hm.untouched⟩
  | update id v =>
    rcases step_update_cases P d id v with ⟨g, h⟩ | ⟨o, h⟩
    · rw [h]; exact put id v g _ rfl
    · rw [h]; exact ⟨hm.written, hm.untouched⟩
  | fulfil id v =>
    rw [step_fulfil_eq]
    rcases step_update_cases P d id v with ⟨g, h⟩ | ⟨o, h⟩
    · rw [h]; exact put id v g _ rfl
    · rw [h]; exact ⟨hm.written, hm.untouched⟩
  | get id =>
    refine ⟨?_, ?_⟩
    · intro j w hj; simp only [step, get]; split <;> (try split) <;> exact hm.written j w hj
    · intro j hj hlt; simp only [step, get]; split <;> (try split) <;> exact hm.untouched j hj hlt
  | resolve id => exact ⟨hm.written, hm.untouched⟩
  | save L =>
    have key : ∀ j : Nat, j < d.st.refs.length →
        chLookup (step P d (.save L)).1.st.changes j = chLookup d.st.changes j := by
      intro j hj
      have := save_changes_old P L d0 d chain0 hb hi j hj
      simp only [step]
      split <;> simp_all
    have hsame : specStep m (.save L) (step P d (.save L)).2 = m := by
      simp only [step]; split <;> rfl
    rw [hsame]
    constructor
    · intro j w hj
      obtain ⟨g, hg⟩ := hm.written j w hj
      exact ⟨g, by rw [key j (hi.ch_lt j _ hg)]; exact hg⟩
    · intro j hj hlt
      rw [key j (by have := hi.refs_len; omega)]
      exact hm.untouched j hj hlt

theorem run_log (P : Params V) (d0 : Doc V) (chain0) (hb : BaseOK d0 chain0) :
    ∀ (ops : List (Op V)) (d : Doc V) (m : AMap V), Inv d0 d → LogInv m d0 d → (∀ op ∈ ops, OpOK op) →
      LogInv (specRun m ops (run P d ops).2) d0 (run P d ops).1 := by
  intro ops
  induction ops with
  | nil => intro d m _ hm _; exact hm
  | cons op ops ih =>
    intro d m hi hm hops
    simp only [run, specRun]
    exact ih _ _ (step_inv P d0 d chain0 hb hi op (hops op (by simp)))
      (step_log P d0 d chain0 hb hi m hm op) (fun o ho => hops o (by simp [ho]))

/-! ### when `save` succeeds -/

theorem allOk_chInsert (P : Params V) (l : List (Nat × V × Nat)) (id : Nat) (v : V) (g : Nat)
    (h : allOk P l = true) (hv : P.ok v = true) : allOk P (chInsert l id (v, g)) = true := by
  induction l with
  | nil => simp [chInsert, allOk, hv]
  | cons hd t ih =>
    obtain ⟨i, y⟩ := hd
    simp only [allOk, List.all_cons, Bool.and_eq_true] at h
    simp only [chInsert]
    split
    · simp [allOk, hv, h.1, h.2]
    · split
      · simp [allOk, hv, h.2]
      · have := ih h.2
        simp only [allOk] at this
        simp [allOk, h.1, this]

theorem resolveOld_congr (d0 : Doc V) (t1 t2 : Nat → Bool) (j : Nat)
    (h : ∀ sid idx, d0.st.refs[j]? = some (.stream sid idx) → t1 sid = t2 sid) :
    resolveOld d0 t1 j = resolveOld d0 t2 j := by
  unfold resolveOld
  split
  · rename_i sid idx he; rw [h sid idx he]
  · rfl

/-- the criterion under which a save goes through -/
structure Savable (P : Params V) (d : Doc V) : Prop where
  values_ok : allOk P d.st.changes = true
  info_ok : ∀ v, d.tr.info = some v → P.ok v = true
  no_open_promise : ∀ j : Nat, d.st.refs[j]? = some .promised → chLookup d.st.changes j ≠ none
  root_ok : ∃ v, resolve d.st d.tr.root.1 = .val v

theorem mem_take_get (l : List XRef) (n : Nat) (e : XRef) (h : e ∈ l.take n) : ∃ j : Nat, j < n ∧ l[j]? = some e := by
  obtain ⟨j, hj⟩ := List.getElem?_of_mem h
  rw [List.getElem?_take] at hj
  split at hj
  · exact ⟨j, ‹_›, hj⟩
  · simp at hj

theorem save_succeeds (P : Params V) (L : Layout) (hL : L.Pos) (ht : L.typed = true) (d0 d : Doc V) (chain0) (hb : BaseOK d0 chain0)
    (hi : Inv d0 d) (hs : Savable P d) (hsz : d.st.refs.length + 2 ≤ MAX_ID) :
    ∃ d' i, save P L d = (d', .ok i) := by
  have pf := prep_facts d0 d chain0 hb hi
  -- every pending value (the info dictionary included) can be serialised
  have hall : allOk P (prep d).st2.changes = true := by
    cases hir : (prep d).infoRef with
    | none => rw [(pf.info_none hir).2.1]; exact hs.values_ok
    | some ii =>
      obtain ⟨v, a, _, _, e, _⟩ := pf.info_some ii hir
      rw [e]; exact allOk_chInsert P _ _ _ _ hs.values_ok (hs.info_ok v a)
  rcases save_cases P L d0 d chain0 hb hi hsz with ⟨w, hw, _⟩ | ⟨w, hw, hr, _⟩ | ⟨w, rows, hw, hr, hs2⟩
  · -- the loop cannot fail
    have := writeChanges_outcome P L (prep d).st2.start (prep d).st2.changes
      ⟨(prep d).st2.refs, (prep d).st2.objs, (prep d).st2.len⟩ (keys_lt d0 _ pf.inv)
    rw [hw, if_pos hall] at this; cases this
  · -- no promised slot is left in the table
    exfalso
    obtain ⟨f1, f2, f3, _⟩ := writeChanges_frame P L _ _ _ _ _ hw pf.inv.sorted
    obtain ⟨_, _, _, k5⟩ := writeChanges_ok P L _ hL.1 _ _ _ hw pf.inv.sorted pf.inv.objs_lt
    simp only at f1 f2 f3 k5
    have hxlt : (prep d).xid < w.refs.length := by rw [f1, pf.len_eq]; omega
    obtain ⟨rows, hrows⟩ := rowsOf_isSome
      ((w.refs.set (prep d).xid (.raw (w.len - (prep d).st2.start) 0)).take ((prep d).xid + 1)) (by
        intro e he hprom
        subst hprom
        obtain ⟨j, hj, hg⟩ := mem_take_get _ _ _ he
        by_cases hx : j = (prep d).xid
        · subst hx; rw [set_get_self _ _ _ hxlt] at hg; cases hg
        · rw [set_get_ne _ _ _ _ (Ne.symm hx)] at hg
          rcases Option.eq_none_or_eq_some (chLookup (prep d).st2.changes j) with hc | ⟨⟨v, g⟩, hc⟩
          · rw [f2 j hc] at hg
            by_cases hjl : j < d.st.refs.length
            · rw [pf.refs_sub j hjl] at hg
              have := hs.no_open_promise j hg
              rw [← pf.ch_sub j hjl] at this
              exact this hc
            · exact pf.ch_mid j (by omega) (by omega) hc
          · obtain ⟨_, _, off, _, b, _⟩ := k5 j v g hc
            rw [b] at hg; cases hg)
    rw [hr] at hrows; cases hrows
  · rcases hs2 with ⟨i, tr, hs2⟩ | ⟨hl, _⟩
    · exact ⟨_, i, hs2⟩
    · -- the trailer loads: the root still resolves, the info dictionary is pending
      exfalso
      rcases hl with hl | hl
      case inr => rw [ht] at hl; cases hl
      have hi2 : Inv d0 ⟨commit P L d (prep d) w (w.refs.set (prep d).xid (.raw (w.len - (prep d).st2.start) 0)) rows, d.tr⟩ :=
        inv_of_commit P L hL d0 d _ chain0 hb hi w rows hw rfl rfl
      have hlook : ∀ j, chLookup (commit P L d (prep d) w (w.refs.set (prep d).xid (.raw (w.len - (prep d).st2.start) 0)) rows).changes j =
          if j = (prep d).xid then some (P.xrefVal (saveInfoOf (prep d) w (w.refs.set (prep d).xid (.raw (w.len - (prep d).st2.start) 0)) rows), 0) else chLookup (prep d).st2.changes j := by
        intro j; simp [commit, chLookup_chInsert]
      have hold : ∀ j : Nat, j < d.st.refs.length →
          chLookup (commit P L d (prep d) w (w.refs.set (prep d).xid (.raw (w.len - (prep d).st2.start) 0)) rows).changes j
            = chLookup d.st.changes j := by
        intro j hj
        rw [hlook, if_neg (by have := pf.xid_ge; omega)]; exact pf.ch_sub j hj
      obtain ⟨vr, hroot⟩ := hs.root_ok
      have hroot2 : resolve (commit P L d (prep d) w (w.refs.set (prep d).xid (.raw (w.len - (prep d).st2.start) 0)) rows)
          d.tr.root.1 = .val vr := by
        rcases Option.eq_none_or_eq_some (chLookup d.st.changes d.tr.root.1) with hc | ⟨⟨v, g⟩, hc⟩
        · have hlt : d.tr.root.1 < d0.st.refs.length := by
            apply Classical.byContradiction; intro hge
            rcases resolve_new_pending d0 d hi _ (by omega) hc with h1 | h1 <;> rw [h1] at hroot <;> cases hroot
          have hlt2 : d.tr.root.1 < d.st.refs.length := by have := hi.refs_len; omega
          have hc2 := hold _ hlt2
          rw [hc] at hc2
          rw [resolve_old d0 _ chain0 hb hi2 _ hlt hc2, ← hroot, resolve_old d0 d chain0 hb hi _ hlt hc]
          apply resolveOld_congr
          intro sid idx he
          have := hb.stream_lt _ sid idx he
          simp only
          rw [hold sid (by have := hi.refs_len; omega)]
        · have hlt2 := hi.ch_lt _ _ hc
          rw [resolve_changed d.st _ v g hc] at hroot
          cases hroot
          exact resolve_changed _ _ vr g (by rw [hold _ hlt2]; exact hc)
      cases hir : (prep d).infoRef with
      | none => simp [loadTrailer, hroot2, hir] at hl
      | some ii =>
        obtain ⟨v, _, b, _, _, _⟩ := pf.info_some ii hir
        have hne : ii ≠ (prep d).xid := by intro heq; rw [heq, pf.xid_free] at b; simp at b
        have : resolve (commit P L d (prep d) w (w.refs.set (prep d).xid (.raw (w.len - (prep d).st2.start) 0)) rows) ii
            = .val v := resolve_changed _ _ v 0 (by rw [hlook, if_neg hne]; exact b)
        simp [loadTrailer, hroot2, hir, this] at hl

/-- after a successful save the document is savable again (the cross-reference stream left pending is
    itself serialisable) -/
theorem savable_after_save (P : Params V) (L : Layout) (hL : L.Pos) (d0 d d' : Doc V) (chain0) (i : SaveInfo)
    (hb : BaseOK d0 chain0) (hi : Inv d0 d) (hx : ∀ i, P.ok (P.xrefVal i) = true) (hs : Savable P d)
    (h : save P L d = (d', .ok i)) : Savable P d' := by
  have pf := prep_facts d0 d chain0 hb hi
  obtain ⟨w, rows, hw, hr, hst, hl, _, _, _, _, _⟩ := save_ok_spec P L d d' i h
  obtain ⟨f1, _, _, _⟩ := writeChanges_frame P L _ _ _ _ _ hw pf.inv.sorted
  simp only at f1
  have htr := save_tr_eq P L d0 d d' chain0 i hb hi h
  have hall : allOk P (prep d).st2.changes = true := by
    cases hir : (prep d).infoRef with
    | none => rw [(pf.info_none hir).2.1]; exact hs.values_ok
    | some ii =>
      obtain ⟨v, a, _, _, e, _⟩ := pf.info_some ii hir
      rw [e]; exact allOk_chInsert P _ _ _ _ hs.values_ok (hs.info_ok v a)
  refine ⟨?_, ?_, ?_, ?_⟩
  · rw [hst]; exact allOk_chInsert P _ _ _ _ hall (hx _)
  · rw [htr]; exact hs.info_ok
  · intro j hj
    exfalso
    have hlen4 : (w.refs.set (prep d).xid (.raw (w.len - (prep d).st2.start) 0)).length = (prep d).xid + 1 := by
      rw [List.length_set, f1, pf.len_eq]
    rw [take_all _ _ (by omega)] at hr
    have hrefs : d'.st.refs = w.refs.set (prep d).xid (.raw (w.len - (prep d).st2.start) 0) := by rw [hst]; rfl
    rw [hrefs] at hj
    have := rowsOf_none_of_promised _ (List.mem_of_getElem? hj)
    rw [hr] at this; cases this
  · obtain ⟨_, _, hroot, _, _⟩ := loadTrailer_ok _ _ _ _ _ hl
    rw [htr]; exact hroot

/-- a save allocates at most two numbers (info dictionary, cross-reference stream) -/
theorem save_grows (P : Params V) (L : Layout) (d0 d d' : Doc V) (chain0) (i : SaveInfo)
    (hb : BaseOK d0 chain0) (hi : Inv d0 d) (h : save P L d = (d', .ok i)) :
    d'.st.refs.length ≤ d.st.refs.length + 2 := by
  have pf := prep_facts d0 d chain0 hb hi
  obtain ⟨w, rows, hw, hr, hst, hl, _, _, _, _, _⟩ := save_ok_spec P L d d' i h
  obtain ⟨f1, _, _, _⟩ := writeChanges_frame P L _ _ _ _ _ hw pf.inv.sorted
  simp only at f1
  rw [hst]; simp only [commit, List.length_set]; rw [f1, pf.len_eq]
  have := pf.xid_le; omega

end Storage
