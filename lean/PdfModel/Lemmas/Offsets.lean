import PdfModel.Model.Offsets

/-! Helper lemmas for Props/C17: the two searches under a prefix, and the offset algebra of every
    consumer under a prefix. -/

namespace Offsets
open OffLex

/-! ## forward search -/

theorem isPrefixOf_iff (pat l : Bytes) : pat.isPrefixOf l = true ↔ pat <+: l := List.isPrefixOf_iff_prefix

/-- no occurrence starts inside `p` ⇒ the first occurrence in `p ++ g` is the first one in `g` -/
theorem findFirst_append (pat p g : Bytes)
    (hno : ∀ j, j < p.length → ¬ pat <+: (p ++ g).drop j) :
    findFirst pat (p ++ g) = (findFirst pat g).map (· + p.length) := by
  induction p with
  | nil => simp
  | cons a p ih =>
    have h0 : ¬ pat <+: (a :: p ++ g) := by simpa using hno 0 (by simp)
    have h0' : pat.isPrefixOf (a :: (p ++ g)) = false := by
      cases h : pat.isPrefixOf (a :: (p ++ g)) with
      | false => rfl
      | true => exact absurd ((isPrefixOf_iff _ _).1 h) (by simpa using h0)
    have ih' := ih (by
      intro j hj
      have := hno (j + 1) (by simp; omega)
      simpa using this)
    simp only [List.cons_append, findFirst, h0', Bool.false_eq_true, if_false, ih', List.length_cons]
    cases findFirst pat g <;> simp [Nat.add_assoc]

theorem findFirst_some_prefix (pat : Bytes) : ∀ (l : Bytes) (s : Nat), findFirst pat l = some s → pat <+: l.drop s := by
  intro l
  induction l with
  | nil => intro s h; simp [findFirst] at h
  | cons a l ih =>
    intro s h
    simp only [findFirst] at h
    split at h
    · rename_i hp; cases h; simpa using (isPrefixOf_iff _ _).1 hp
    · cases hf : findFirst pat l with
      | none => simp [hf] at h
      | some i => simp [hf] at h; subst h; simpa using ih i hf

/-- cutting the buffer behind the first occurrence does not move it -/
theorem findFirst_take (pat : Bytes) (hpat : 0 < pat.length) : ∀ (l : Bytes) (n s : Nat),
    findFirst pat l = some s → s + pat.length ≤ n → findFirst pat (l.take n) = some s := by
  intro l
  induction l with
  | nil => intro n s h; simp [findFirst] at h
  | cons a l ih =>
    intro n s h hn
    simp only [findFirst] at h
    split at h
    · rename_i hp
      cases h
      have hp' := (isPrefixOf_iff _ _).1 hp
      cases n with
      | zero => omega
      | succ n =>
        have : pat.isPrefixOf ((a :: l).take (n + 1)) = true := by
          rw [isPrefixOf_iff]
          exact List.prefix_take_iff.2 ⟨hp', by omega⟩
        simp only [List.take_succ_cons] at this ⊢
        simp [findFirst, this]
    · rename_i hp
      cases hf : findFirst pat l with
      | none => simp [hf] at h
      | some i =>
        simp [hf] at h; subst h
        cases n with
        | zero => omega
        | succ n =>
          have hnp : pat.isPrefixOf (a :: l.take n) = false := by
            cases hq : pat.isPrefixOf (a :: l.take n) with
            | false => rfl
            | true =>
              have h1 : pat <+: (a :: l).take (n + 1) := by simpa using (isPrefixOf_iff _ _).1 hq
              have h2 := (List.prefix_take_iff.1 h1).1
              exact absurd ((isPrefixOf_iff _ _).2 h2) (by simpa using hp)
          simp only [List.take_succ_cons, findFirst, hnp, Bool.false_eq_true, if_false]
          rw [ih n i hf (by omega)]; rfl

theorem findFirst_le (pat : Bytes) : ∀ (l : Bytes) (j : Nat), pat <+: l.drop j → j < l.length →
    ∃ i, i ≤ j ∧ findFirst pat l = some i := by
  intro l
  induction l with
  | nil => intro j _ hj; simp at hj
  | cons a l ih =>
    intro j h hj
    by_cases hp : pat.isPrefixOf (a :: l) = true
    · exact ⟨0, by omega, by simp [findFirst, hp]⟩
    · cases j with
      | zero => exact absurd ((isPrefixOf_iff _ _).2 (by simpa using h)) hp
      | succ j =>
        obtain ⟨i, hi, hfi⟩ := ih j (by simpa using h) (by simpa using hj)
        exact ⟨i + 1, by omega, by simp [findFirst, hp, hfi]⟩

/-- `locate_start_offset` under a prefix, exact form: no occurrence of the marker starts inside the
    prefix, and the header found in `f` still ends inside the first kilobyte. -/
theorem locateStart_append (p f : Bytes) (s : Nat) (hs : locateStart f = .ok s)
    (hno : ∀ j, j < p.length → ¬ headerMarker <+: (p ++ f).drop j)
    (hl : p.length + s + 5 ≤ headerWindow) :
    locateStart (p ++ f) = .ok (p.length + s) := by
  unfold locateStart at hs ⊢
  cases hf : findFirst headerMarker (f.take (min headerWindow f.length)) with
  | none => simp [hf] at hs
  | some s' =>
    simp only [hf] at hs
    cases hs
    have hocc := findFirst_some_prefix _ _ _ hf
    have hlen5 : headerMarker.length = 5 := rfl
    have h5 : s + 5 ≤ min headerWindow f.length := by
      have := hocc.length_le
      simp only [List.length_drop, List.length_take, hlen5] at this
      omega
    -- the window of `p ++ f` is `p` followed by a (shorter) window of `f`
    have hW : (p ++ f).take (min headerWindow (p ++ f).length)
        = p ++ (f.take (min headerWindow f.length)).take (min headerWindow (p ++ f).length - p.length) := by
      rw [List.take_append, List.take_take]
      have h1 : p.take (min headerWindow (p ++ f).length) = p := by
        apply List.take_of_length_le; simp; omega
      rw [h1]
      congr 2
      simp; omega
    rw [hW]
    have hfw := findFirst_take headerMarker (by decide) _ (min headerWindow (p ++ f).length - p.length) s hf
      (by simp only [hlen5, List.length_append]; omega)
    rw [findFirst_append, hfw]
    · simp [Nat.add_comm]
    · intro j hj hpre
      apply hno j hj
      rw [← hW] at hpre
      rw [List.drop_take] at hpre
      exact hpre.trans (List.take_prefix _ _)

/-- An occurrence of the marker that *straddles* the boundary between a prefix and a file that itself
    begins with the marker is impossible: it would need one of `P D F -` to equal `%`. -/
theorem no_straddle (q f' : Bytes) (hq : 0 < q.length) (hq5 : q.length < 5) :
    ¬ headerMarker <+: q ++ (headerMarker ++ f') := by
  intro h
  have h' := (isPrefixOf_iff _ _).2 h
  match q, hq, hq5 with
  | [a], _, _ => simp [headerMarker, List.isPrefixOf] at h'
  | [a, b], _, _ => simp [headerMarker, List.isPrefixOf] at h'
  | [a, b, c], _, _ => simp [headerMarker, List.isPrefixOf] at h'
  | [a, b, c, d], _, _ => simp [headerMarker, List.isPrefixOf] at h'
  | _ :: _ :: _ :: _ :: _ :: _, _, h5 => simp at h5; omega

/-- the marker neither inside the prefix nor across its end -/
theorem no_occurrence_before (p f : Bytes) (hf : headerMarker <+: f) (hp : ¬ headerMarker <:+: p) :
    ∀ j, j < p.length → ¬ headerMarker <+: (p ++ f).drop j := by
  intro j hj h
  rw [List.drop_append_of_le_length (by omega)] at h
  obtain ⟨f', rfl⟩ := hf
  by_cases h5 : (p.drop j).length < 5
  · exact no_straddle (p.drop j) f' (by simp; omega) h5 h
  · have hpre : headerMarker <+: p.drop j :=
      List.prefix_of_prefix_length_le h (List.prefix_append _ _) (by simp [headerMarker] at h5 ⊢; omega)
    exact hp (hpre.isInfix.trans (List.drop_suffix j p).isInfix)

/-! ## backward search -/

theorem findLast_append (pat p g : Bytes) (s : Nat) (h : findLast pat g = some s) :
    findLast pat (p ++ g) = some (p.length + s) := by
  induction p with
  | nil => simpa using h
  | cons a p ih => simp only [List.cons_append, findLast, ih, List.length_cons]; congr 1; omega

theorem drop_prefix {α : Type} (p f : List α) (q : Nat) : (p ++ f).drop (p.length + q) = f.drop q := by
  rw [List.drop_append]
  have : List.drop (p.length + q) p = [] := List.drop_eq_nil_of_le (by omega)
  rw [this]; simp

/-- `locate_xref_offset` only looks at the last `startxref` and what follows it -/
theorem locateXref_append (p f : Bytes) (s : Nat)
    (h : findLast startxrefKw (f.take (f.length - 1)) = some s) :
    locateXref (p ++ f) = locateXref f := by
  have hne : f ≠ [] := by rintro rfl; simp [findLast] at h
  have hlen : 1 ≤ f.length := by cases f <;> simp_all
  have htake : (p ++ f).take ((p ++ f).length - 1) = p ++ f.take (f.length - 1) := by
    rw [List.take_append]
    have : p.take ((p ++ f).length - 1) = p := by apply List.take_of_length_le; simp; omega
    rw [this]; congr 2; simp; omega
  unfold locateXref
  rw [htake, findLast_append _ _ _ _ h, h]
  simp only
  have hdrop : (p ++ f).drop (p.length + s + startxrefKw.length) = f.drop (s + startxrefKw.length) := by
    rw [Nat.add_assoc, drop_prefix]
  rw [hdrop]

/-! ## offset algebra under a prefix -/

def shiftOut {V : Type} (k : Nat) : Out (Obj V) → Out (Obj V)
  | .ok o => .ok (o.shift k)
  | .err => .err | .panic => .panic | .oof => .oof

theorem readFrom_append (p f : Bytes) (q : Nat) :
    readFrom (p ++ f) (p.length + q) = readFrom f q := by
  unfold readFrom
  simp only [List.length_append, Nat.add_le_add_iff_left, drop_prefix]

theorem readRange_append (p f : Bytes) (a b : Nat) :
    readRange (p ++ f) (p.length + a) (p.length + b) = readRange f a b := by
  unfold readRange
  simp only [List.length_append, Nat.add_le_add_iff_left, drop_prefix]
  have : p.length + b - (p.length + a) = b - a := by omega
  rw [this]

/-- the prefixed file still fits the address space (every `Vec<u8>` does) -/
def Fits (p f : Bytes) : Prop := p.length + f.length ≤ usizeMax

theorem suffixAt_append (p f : Bytes) (s off : Nat) (hfit : Fits p f) :
    suffixAt (p ++ f) (p.length + s) off =
      match suffixAt f s off with
      | .ok (q, sfx) => .ok (p.length + q, sfx)
      | .err => .err | .panic => .panic | .oof => .oof := by
  unfold Fits at hfit
  unfold suffixAt checkedAdd
  by_cases h1 : s + off > usizeMax
  · have h2 : p.length + s + off > usizeMax := by omega
    simp [h1, h2]
  · by_cases h2 : p.length + s + off > usizeMax
    · -- only the prefixed sum overflows: then the unprefixed position is already beyond the file
      have : ¬ s + off ≤ f.length := by omega
      simp [h1, h2, readFrom, this]
    · simp only [h1, h2, if_false]
      rw [Nat.add_assoc, readFrom_append]
      cases readFrom f (s + off) <;> simp

theorem suffixAtStrict_append (p f : Bytes) (s off : Nat) (hfit : Fits p f) :
    suffixAtStrict (p ++ f) (p.length + s) off =
      match suffixAtStrict f s off with
      | .ok (q, sfx) => .ok (p.length + q, sfx)
      | .err => .err | .panic => .panic | .oof => .oof := by
  unfold Fits at hfit
  unfold suffixAtStrict checkedAdd
  by_cases h1 : s + off > usizeMax
  · have h2 : p.length + s + off > usizeMax := by omega
    simp [h1, h2]
  · by_cases h2 : p.length + s + off > usizeMax
    · have : s + off ≥ f.length := by omega
      simp [h1, h2, this]
    · simp only [h1, h2, if_false, List.length_append]
      by_cases h3 : s + off ≥ f.length
      · have : p.length + s + off ≥ p.length + f.length := by omega
        simp [h3, this]
      · have : ¬ p.length + s + off ≥ p.length + f.length := by omega
        simp only [h3, this, if_false]
        rw [Nat.add_assoc, drop_prefix]

variable {V T : Type}

theorem prevLoop_append (P : Parsers V T) (p f : Bytes) (s : Nat) (hfit : Fits p f) :
    ∀ (fuel : Nat) (seen : List Nat) (pv : Option Nat) (t : Xref.Table),
      prevLoop P (p ++ f) (p.length + s) fuel seen pv t = prevLoop P f s fuel seen pv t := by
  intro fuel
  induction fuel with
  | zero => intro seen pv t; cases pv <;> simp [prevLoop]
  | succ fuel ih =>
    intro seen pv t
    cases pv with
    | none => simp [prevLoop]
    | some pv =>
      simp only [prevLoop, suffixAt_append p f s pv hfit]
      split
      · rfl
      · cases suffixAt f s pv with
        | ok qs =>
          obtain ⟨q, sfx⟩ := qs
          simp only
          cases P.xrefAt sfx with
          | ok r =>
            obtain ⟨subs, tr⟩ := r
            simp only
            cases Xref.addSubs t subs with
            | ok t' =>
              simp only
              cases P.prevOf tr with
              | none => rfl
              | some o => cases o <;> simp [ih]
            | err => rfl
            | panic => rfl
            | oof => rfl
          | err => rfl
          | panic => rfl
          | oof => rfl
        | err => rfl
        | panic => rfl
        | oof => rfl

theorem loadTable_append (P : Parsers V T) (p f : Bytes) (s k fuel : Nat) (hfit : Fits p f)
    (hk : findLast startxrefKw (f.take (f.length - 1)) = some k) :
    loadTable P fuel (p ++ f) (p.length + s) = loadTable P fuel f s := by
  unfold loadTable
  rw [locateXref_append p f k hk]
  cases locateXref f with
  | ok x =>
    simp only [suffixAtStrict_append p f s x hfit]
    cases suffixAtStrict f s x with
    | ok qs =>
      obtain ⟨q, sfx⟩ := qs
      simp only
      cases P.xrefAt sfx with
      | ok r =>
        obtain ⟨subs, tr⟩ := r
        simp only
        cases P.sizeOf tr with
        | ok size =>
          simp only
          split
          · rfl
          · cases Xref.addSubs (Xref.newTable size) subs with
            | ok t =>
              simp only
              cases P.prevOf tr with
              | none => rfl
              | some o => cases o <;> simp [prevLoop_append P p f s hfit]
            | err => rfl
            | panic => rfl
            | oof => rfl
        | err => rfl
        | panic => rfl
        | oof => rfl
      | err => rfl
      | panic => rfl
      | oof => rfl
    | err => rfl
    | panic => rfl
    | oof => rfl
  | err => rfl
  | panic => rfl
  | oof => rfl

theorem finishStream_shift (P : Parsers V T) (sfx : Bytes) (k q : Nat) (info : V) (rel n : Nat) :
    finishStream P sfx (k + q) info rel n = shiftOut k (finishStream P sfx q info rel n) := by
  unfold finishStream
  split
  · rfl
  · cases P.streamEnd (sfx.drop (rel + n)) <;> simp [shiftOut, Obj.shift, Nat.add_assoc]

theorem streamWithLen_shift (P : Parsers V T) (k : Nat) (r r' : Nat → Out (Obj V))
    (hr : ∀ lid, r' lid = shiftOut k (r lid)) (sfx : Bytes) (q : Nat) (info : V) (rel : Nat) (ls : LenSpec) :
    streamWithLen P r' sfx (k + q) info rel ls = shiftOut k (streamWithLen P r sfx q info rel ls) := by
  cases ls with
  | direct n => simp only [streamWithLen, finishStream_shift]
  | indirect lid =>
    simp only [streamWithLen, hr lid]
    cases r lid with
    | ok o2 =>
      cases o2 with
      | plain v =>
        simp only [shiftOut, Obj.shift]
        cases P.asLen v with
        | ok n => simp only [finishStream_shift]; rfl
        | err => rfl
        | panic => rfl
        | oof => rfl
      | stream _ _ _ => simp [shiftOut, Obj.shift]
    | err => rfl
    | panic => rfl
    | oof => rfl
  | bad => rfl

theorem directBody_append (P : Parsers V T) (p f : Bytes) (s : Nat) (hfit : Fits p f)
    (r r' : Nat → Out (Obj V)) (hr : ∀ lid, r' lid = shiftOut p.length (r lid)) (flags : Flags) (pos : Nat) :
    directBody P r' (p ++ f) (p.length + s) flags pos = shiftOut p.length (directBody P r f s flags pos) := by
  unfold directBody
  rw [suffixAt_append p f s pos hfit]
  cases suffixAt f s pos with
  | ok qs =>
    obtain ⟨q, sfx⟩ := qs
    simp only
    cases P.objAt flags sfx with
    | ok o =>
      cases o with
      | plain v => simp [shiftOut, Obj.shift]
      | stream info rel ls => exact streamWithLen_shift P p.length r r' hr sfx q info rel ls
    | err => rfl
    | panic => rfl
    | oof => rfl
  | err => rfl
  | panic => rfl
  | oof => rfl

theorem compressedBody_append (P : Parsers V T) (p f : Bytes) (c : Out (Obj V)) (flags : Flags) (idx : Nat) :
    compressedBody P (shiftOut p.length c) (p ++ f) flags idx = shiftOut p.length (compressedBody P c f flags idx) := by
  unfold compressedBody
  cases c with
  | ok o =>
    cases o with
    | plain v => rfl
    | stream info a b =>
      simp only [shiftOut, Obj.shift, readRange_append]
      cases P.stmHead info with
      | ok nf =>
        obtain ⟨n, first⟩ := nf
        simp only
        cases readRange f a b with
        | ok raw =>
          simp only
          cases P.decode info raw with
          | ok data =>
            simp only
            cases ObjStm.parseHeader n data with
            | ok offsets =>
              simp only
              cases ObjStm.getObjectSlice offsets first (.ok data) idx with
              | ok dse =>
                obtain ⟨d, s, e⟩ := dse
                simp only
                cases ObjStm.memberSlice d s e with
                | ok slice =>
                  simp only
                  cases P.parseMember flags slice <;> rfl
                | err => rfl
                | panic => rfl
                | oof => rfl
              | err => rfl
              | panic => rfl
              | oof => rfl
            | err => rfl
            | panic => rfl
            | oof => rfl
          | err => rfl
          | panic => rfl
          | oof => rfl
        | err => rfl
        | panic => rfl
        | oof => rfl
      | err => rfl
      | panic => rfl
      | oof => rfl
  | err => rfl
  | panic => rfl
  | oof => rfl

theorem resolveRef_append (P : Parsers V T) (p f : Bytes) (s : Nat) (t : Xref.Table) (hfit : Fits p f) :
    ∀ (fuel : Nat) (chain : List Nat) (flags : Flags) (id : Nat),
      resolveRef P (p ++ f) (p.length + s) t fuel chain flags id
        = shiftOut p.length (resolveRef P f s t fuel chain flags id) := by
  intro fuel
  induction fuel with
  | zero => intro chain flags id; rfl
  | succ fuel ih =>
    intro chain flags id
    simp only [resolveRef]
    cases Xref.lookup t id with
    | direct pos =>
      simp only
      exact directBody_append P p f s hfit _ _ (fun lid => ih chain .integer lid) flags pos
    | compressed sid idx =>
      simp only
      split
      · rfl
      · rw [ih (sid :: chain) .any sid]
        exact compressedBody_append P p f _ flags idx
    | freeObject => rfl
    | nullRef => rfl
    | unspecified => rfl
    | unimplemented => rfl

theorem rawData_shift (p f : Bytes) (o : Obj V) : rawData (p ++ f) (o.shift p.length) = rawData f o := by
  cases o with
  | plain v => rfl
  | stream i a b => simp [rawData, Obj.shift, readRange_append]

theorem shift_shift (a b : Nat) (o : Obj V) : (o.shift b).shift a = o.shift (a + b) := by
  cases o <;> simp [Obj.shift, Nat.add_assoc]

theorem scan_append (P : Parsers V T) (p f : Bytes) (s k : Nat) (hfit : Fits p f)
    (hk : findLast startxrefKw (f.take (f.length - 1)) = some k) :
    scan P (p ++ f) (p.length + s) =
      match scan P f s with
      | .ok items => .ok (items.map (shiftOut p.length))
      | .err => .err | .panic => .panic | .oof => .oof := by
  unfold Fits at hfit
  unfold scan
  rw [locateXref_append p f k hk]
  cases locateXref f with
  | ok x =>
    simp only [checkedAdd]
    by_cases h1 : s + x > usizeMax
    · have h2 : p.length + s + x > usizeMax := by omega
      simp [h1, h2]
    · by_cases h2 : p.length + s + x > usizeMax
      · have : ¬ (s + x ≤ f.length) := by omega
        simp [h1, h2, readRange, this]
      · simp only [h1, h2, if_false]
        rw [Nat.add_assoc, readRange_append]
        cases readRange f s (s + x) with
        | ok slice =>
          simp only [List.map_map]
          congr 1
          apply List.map_congr_left
          intro it _
          cases it <;> simp [shiftOut, shift_shift]
        | err => rfl
        | panic => rfl
        | oof => rfl
  | err => rfl
  | panic => rfl
  | oof => rfl

end Offsets
