import PdfModel.Lemmas.Lexer
import PdfModel.Model.Serialize

/-! Number tokens: `IntTok` / `NatTok` / `RealTok` texts are classified and converted as they denote. -/

namespace PdfLex
open PdfSyntax (IntTok NatTok RealTok Digits digitsVal isDig)

theorem decVal_eq (ds : List UInt8) : decVal ds = digitsVal ds := rfl

theorem allDigits_of (ds : List UInt8) (h : Digits ds) : allDigits ds = true := by
  simp only [allDigits, List.all_eq_true]
  intro b hb; rw [isDigit_eq]; exact h b hb

theorem dig_regular : ∀ b : UInt8, isDig b = true → isRegular b = true := by decide +kernel
theorem dig_ne_sign : ∀ b : UInt8, isDig b = true → b ≠ 45 ∧ b ≠ 43 ∧ b ≠ 46 := by decide +kernel

theorem digits_regular (ds : List UInt8) (h : Digits ds) : ∀ b ∈ ds, isRegular b = true :=
  fun b hb => dig_regular b (h b hb)

theorem isInteger_digits (ds : List UInt8) (hne : ds ≠ []) (h : Digits ds) : isInteger ds = true := by
  cases ds with
  | nil => exact absurd rfl hne
  | cons d ds' =>
    have hd := dig_ne_sign d (h d (by simp))
    simp only [isInteger]
    have : (d == 45 || d == 43) = false := by simp [hd.1, hd.2.1]
    rw [this]; simp only [Bool.false_eq_true, if_false]
    exact allDigits_of _ h

theorem isInteger_signed (s : UInt8) (ds : List UInt8) (hs : s = 45 ∨ s = 43) (hne : ds ≠ []) (h : Digits ds) :
    isInteger (s :: ds) = true := by
  simp only [isInteger]
  have : (s == 45 || s == 43) = true := by rcases hs with rfl | rfl <;> simp
  rw [this]; simp only [if_true]
  have : ¬ (s :: ds).length < 2 := by
    cases ds with
    | nil => exact absurd rfl hne
    | cons => simp
  rw [if_neg this]
  exact allDigits_of _ h

theorem stripPlus_digit (d : UInt8) (ds : List UInt8) (hd : d ≠ 43) : stripPlus (d :: ds) = d :: ds := by
  unfold stripPlus
  split
  · rename_i heq; simp at heq; exact absurd heq.1 hd
  · rfl

theorem parseU64_digits (ds : List UInt8) (hne : ds ≠ []) (h : Digits ds) (hr : digitsVal ds ≤ 18446744073709551615) :
    parseU64 ds = some (digitsVal ds) := by
  cases ds with
  | nil => exact absurd rfl hne
  | cons d ds' =>
    have hd := dig_ne_sign d (h d (by simp))
    unfold parseU64
    rw [stripPlus_digit d ds' hd.2.1]; simp only [allDigits_of _ h]
    simp [decVal_eq]; omega

theorem parseI32_plain (ds : List UInt8) (hne : ds ≠ []) (h : Digits ds) (hr : digitsVal ds ≤ 2147483647) :
    parseI32 ds = some (digitsVal ds : Int) := by
  cases ds with
  | nil => exact absurd rfl hne
  | cons d ds' =>
    have hd := dig_ne_sign d (h d (by simp))
    unfold parseI32
    split
    · rename_i heq; simp at heq; exact absurd heq.1 hd.1
    · rw [stripPlus_digit d ds' hd.2.1]; simp only [allDigits_of _ h]
      simp [decVal_eq]; omega

theorem parseI32_plus (ds : List UInt8) (hne : ds ≠ []) (h : Digits ds) (hr : digitsVal ds ≤ 2147483647) :
    parseI32 (43 :: ds) = some (digitsVal ds : Int) := by
  unfold parseI32
  simp only [stripPlus]
  rw [allDigits_of _ h]
  cases ds with
  | nil => exact absurd rfl hne
  | cons d ds' => simp [decVal_eq]; omega

theorem parseI32_minus (ds : List UInt8) (hne : ds ≠ []) (h : Digits ds) (hr : digitsVal ds ≤ 2147483648) :
    parseI32 (45 :: ds) = some (-(digitsVal ds : Int)) := by
  unfold parseI32
  simp only []
  rw [allDigits_of _ h]
  cases ds with
  | nil => exact absurd rfl hne
  | cons d ds' => simp [decVal_eq]; omega

/-- an integer token: classified as integer, converted to the value it denotes, made of regular characters -/
theorem intTok_spec (t : List UInt8) (i : Int) (h : IntTok t i) (lo : -2147483648 ≤ i) (hi : i ≤ 2147483647) :
    isInteger t = true ∧ parseI32 t = some i ∧ t ≠ [] ∧ (∀ b ∈ t, isRegular b = true) := by
  obtain ⟨ds, hne, hd, h⟩ := h
  rcases h with ⟨rfl, rfl⟩ | ⟨rfl, rfl⟩ | ⟨rfl, rfl⟩
  · exact ⟨isInteger_digits _ hne hd, parseI32_plain _ hne hd (by omega), hne, digits_regular _ hd⟩
  · refine ⟨isInteger_signed _ _ (Or.inr rfl) hne hd, parseI32_plus _ hne hd (by omega), by simp, ?_⟩
    intro b hb; simp at hb; rcases hb with rfl | hb
    · decide
    · exact digits_regular _ hd b hb
  · refine ⟨isInteger_signed _ _ (Or.inl rfl) hne hd, parseI32_minus _ hne hd (by omega), by simp, ?_⟩
    intro b hb; simp at hb; rcases hb with rfl | hb
    · decide
    · exact digits_regular _ hd b hb

theorem natTok_spec (t : List UInt8) (n : Nat) (h : NatTok t n) (hr : n ≤ 18446744073709551615) :
    isInteger t = true ∧ parseU64 t = some n ∧ t ≠ [] ∧ (∀ b ∈ t, isRegular b = true) := by
  obtain ⟨hne, hd, rfl⟩ := h
  exact ⟨isInteger_digits _ hne hd, parseU64_digits _ hne hd hr, hne, digits_regular _ hd⟩


/-! ### reals -/

theorem allDigits_dot (ip fp : List UInt8) : allDigits (ip ++ 46 :: fp) = false := by
  simp [allDigits, isDigit]

theorem splitDot_digits (ip fp : List UInt8) (h : Digits ip) : splitDot (ip ++ 46 :: fp) = some (ip, fp) := by
  induction ip with
  | nil => simp [splitDot]
  | cons d ip ih =>
    have hd := dig_ne_sign d (h d (by simp))
    have := ih (fun b hb => h b (by simp [hb]))
    simp [splitDot, hd.2.2, this]

theorem nonDigitPos_digits (fp : List UInt8) (h : Digits fp) : nonDigitPos fp = none := by
  induction fp with
  | nil => rfl
  | cons d fp ih =>
    have hd : isDigit d = true := by rw [isDigit_eq]; exact h d (by simp)
    simp [nonDigitPos, hd, ih (fun b hb => h b (by simp [hb]))]

theorem realNumber_unsigned (ip fp : List UInt8) (hi : Digits ip) (hf : Digits fp) :
    realNumber (ip ++ 46 :: fp) = some (ip ++ 46 :: fp) := by
  have hne : ip ++ 46 :: fp ≠ [] := by simp
  have hhead : ∀ b r, ip ++ 46 :: fp = b :: r → (b == 45 || b == 43) = false := by
    intro b r hbr
    cases ip with
    | nil => simp at hbr; rw [← hbr.1]; decide
    | cons d ip' =>
      simp at hbr
      have hd := dig_ne_sign d (hi d (by simp))
      rw [← hbr.1]; simp [hd.1, hd.2.1]
  generalize hgen : ip ++ 46 :: fp = t at *
  cases t with
  | nil => exact absurd rfl hne
  | cons b r =>
    simp only [realNumber, hhead b r rfl, Bool.false_and, Bool.false_eq_true, if_false]
    rw [← hgen, splitDot_digits ip fp hi]
    simp only [allDigits_of ip hi, if_true, nonDigitPos_digits fp hf]

theorem realTok_spec (t : List UInt8) (h : RealTok t) :
    isInteger t = false ∧ realNumber t = some t ∧ t ≠ [] ∧ (∀ b ∈ t, isRegular b = true) := by
  obtain ⟨sign, ip, fp, rfl, hs, hi, hf, hne⟩ := h
  have hreg : ∀ b ∈ ip ++ 46 :: fp, isRegular b = true := by
    intro b hb
    simp at hb
    rcases hb with hb | rfl | hb
    · exact digits_regular _ hi b hb
    · decide
    · exact digits_regular _ hf b hb
  rcases hs with rfl | rfl | rfl
  · refine ⟨?_, by simpa using realNumber_unsigned ip fp hi hf, by simp, by simpa using hreg⟩
    simp only [List.nil_append]
    cases ip with
    | nil => simp [isInteger, allDigits, isDigit]
    | cons d ip' =>
      have hd := dig_ne_sign d (hi d (by simp))
      simp only [List.cons_append, isInteger]
      have : (d == 45 || d == 43) = false := by simp [hd.1, hd.2.1]
      rw [this]; simp only [Bool.false_eq_true, if_false]
      exact allDigits_dot (d :: ip') fp
  · refine ⟨?_, ?_, by simp, ?_⟩
    · simp only [List.cons_append, List.nil_append, isInteger]
      simp [allDigits_dot]
    · simp only [List.cons_append, List.nil_append, realNumber]
      simp only [show ((43 : UInt8) == 45 || (43 : UInt8) == 43) = true by decide, Bool.true_and]
      have hl : ¬ (43 :: (ip ++ 46 :: fp)).length < 2 := by simp; omega
      simp only [decide_eq_true_eq, hl, if_false, if_true]
      rw [splitDot_digits ip fp hi]
      simp only [allDigits_of ip hi, if_true, nonDigitPos_digits fp hf]
    · intro b hb; simp at hb
      rcases hb with rfl | hb
      · decide
      · exact hreg b (by simpa using hb)
  · refine ⟨?_, ?_, by simp, ?_⟩
    · simp only [List.cons_append, List.nil_append, isInteger]
      simp [allDigits_dot]
    · simp only [List.cons_append, List.nil_append, realNumber]
      simp only [show ((45 : UInt8) == 45 || (45 : UInt8) == 43) = true by decide, Bool.true_and]
      have hl : ¬ (45 :: (ip ++ 46 :: fp)).length < 2 := by simp; omega
      simp only [decide_eq_true_eq, hl, if_false, if_true]
      rw [splitDot_digits ip fp hi]
      simp only [allDigits_of ip hi, if_true, nonDigitPos_digits fp hf]
    · intro b hb; simp at hb
      rcases hb with rfl | hb
      · decide
      · exact hreg b (by simpa using hb)

/-! ### keywords -/

theorem kw_true_spec : isInteger kwTrue = false ∧ realNumber kwTrue = none ∧ (∀ b ∈ kwTrue, isRegular b = true) := by decide +kernel
theorem kw_false_spec : isInteger kwFalse = false ∧ realNumber kwFalse = none ∧ (∀ b ∈ kwFalse, isRegular b = true) := by decide +kernel
theorem kw_null_spec : isInteger kwNull = false ∧ realNumber kwNull = none ∧ (∀ b ∈ kwNull, isRegular b = true) := by decide +kernel


/-! ### the writer's decimal numbers -/

theorem digitsVal_snoc (ds : List UInt8) (d : UInt8) : digitsVal (ds ++ [d]) = digitsVal ds * 10 + (d.toNat - 48) := by
  simp [digitsVal, List.foldl_append]

theorem ofNat_digit (n : Nat) (h : n < 10) : isDig (digitByte n) = true ∧ (digitByte n).toNat - 48 = n := by
  have h10 : n = 0 ∨ n = 1 ∨ n = 2 ∨ n = 3 ∨ n = 4 ∨ n = 5 ∨ n = 6 ∨ n = 7 ∨ n = 8 ∨ n = 9 := by omega
  rcases h10 with rfl | rfl | rfl | rfl | rfl | rfl | rfl | rfl | rfl | rfl <;> decide

theorem natDigitsAux_spec (fuel n : Nat) (acc : List UInt8) (h : n < fuel) :
    ∃ ds, natDigitsAux fuel n acc = ds ++ acc ∧ ds ≠ [] ∧ Digits ds ∧ digitsVal ds = n := by
  induction fuel generalizing n acc with
  | zero => omega
  | succ f ih =>
    simp only [natDigitsAux]
    split
    · rename_i hlt
      have := ofNat_digit n hlt
      refine ⟨[digitByte n], by simp, by simp, ?_, ?_⟩
      · intro b hb; simp at hb; rw [hb]; exact this.1
      · simp [digitsVal, this.2]
    · rename_i hge
      obtain ⟨ds, h1, h2, h3, h4⟩ := ih (n / 10) (digitByte (n % 10) :: acc) (by omega)
      have := ofNat_digit (n % 10) (by omega)
      refine ⟨ds ++ [digitByte (n % 10)], by simp [h1], by simp, ?_, ?_⟩
      · intro b hb; simp at hb; rcases hb with hb | hb
        · exact h3 b hb
        · rw [hb]; exact this.1
      · rw [digitsVal_snoc, h4, this.2]; omega

theorem fmtNat_spec (n : Nat) : NatTok (fmtNat n) n := by
  obtain ⟨ds, h1, h2, h3, h4⟩ := natDigitsAux_spec (n + 1) n [] (by omega)
  simp only [fmtNat, h1, List.append_nil]
  exact ⟨h2, h3, h4⟩

theorem fmtInt_spec (i : Int) : IntTok (fmtInt i) i := by
  obtain ⟨hne, hd, hv⟩ := fmtNat_spec i.natAbs
  refine ⟨fmtNat i.natAbs, hne, hd, ?_⟩
  unfold fmtInt
  by_cases h : i < 0
  · rw [if_pos h]; right; right; refine ⟨rfl, ?_⟩; rw [hv]; omega
  · rw [if_neg h]; left; refine ⟨rfl, ?_⟩; rw [hv]; omega

end PdfLex
