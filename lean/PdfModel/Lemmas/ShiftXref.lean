import PdfModel.Model.XrefTable
import PdfModel.Lemmas.ShiftIndirect

/-!
  Shift lemmas for the classic cross-reference table reader and the dispatch between the two section formats
  (`Model/XrefTable.lean`): reading `p ++ b` from `p.size + k` is reading `b` from `k`.

  The table branch only looks forward.  The stream branch begins with `lexer.back()`, which looks
  *backwards*: it is shift-invariant exactly when the scan back from the first lexeme cannot run into the
  prefix — the prefix is empty or ends in white-space — which is why the Rust code hands the reader
  `read(pos ..)`, a buffer that begins at the section (`Model/XrefFile.lean` does the same).
-/

namespace PdfShift
open PdfLex Xref XrefTable

variable {R : Type}

def shU (k : Nat) (r : Nat × Nat) : Nat × Nat := (r.1, k + r.2)
def shE (k : Nat) (r : XRef × Nat) : XRef × Nat := (r.1, k + r.2)
def shEs (k : Nat) (r : List XRef × Nat) : List XRef × Nat := (r.1, k + r.2)
def shS (k : Nat) (r : Sub × Nat) : Sub × Nat := (r.1, k + r.2)
def shSs (k : Nat) (r : List Sub × Nat) : List Sub × Nat := (r.1, k + r.2)
def shD (k : Nat) (r : Dict R × Nat) : Dict R × Nat := (r.1, k + r.2)
def shT (k : Nat) (r : (List Sub × Dict R) × Nat) : (List Sub × Dict R) × Nat := (r.1, k + r.2)

theorem nextAsU32_shift (p b : Buf) (pos : Nat) :
    nextAsU32 (p ++ b) (p.size + pos) = omap (shU p.size) (nextAsU32 b pos) := by
  unfold nextAsU32
  rw [next_shift]
  cases next b pos with
  | ok w =>
    simp only [omap, sh2, slice_shift]
    cases parseU32 (slice b w.1 w.2) <;> rfl
  | err => rfl
  | panic => rfl
  | oof => rfl

theorem readEntry_shift (p b : Buf) (pos : Nat) :
    readEntry (p ++ b) (p.size + pos) = omap (shE p.size) (readEntry b pos) := by
  unfold readEntry
  rw [next_shift]
  cases next b pos with
  | ok w1 =>
    simp only [omap, sh2, slice_shift]
    split
    · rfl
    · rw [next_shift]
      cases next b w1.2 with
      | ok w2 =>
        simp only [omap, sh2, slice_shift]
        rw [next_shift]
        cases next b w2.2 with
        | ok w3 =>
          simp only [omap, sh2, slice_shift]
          cases entryOfTokens (slice b w1.1 w1.2) (slice b w2.1 w2.2) (slice b w3.1 w3.2) <;> rfl
        | err => rfl
        | panic => rfl
        | oof => rfl
      | err => rfl
      | panic => rfl
      | oof => rfl
  | err => rfl
  | panic => rfl
  | oof => rfl

theorem entryLoop_shift (p b : Buf) : ∀ (n pos : Nat) (acc : List XRef),
    entryLoop (p ++ b) n (p.size + pos) acc = omap (shEs p.size) (entryLoop b n pos acc) := by
  intro n
  induction n with
  | zero => intro pos acc; rfl
  | succ n ih =>
    intro pos acc
    simp only [entryLoop]
    rw [readEntry_shift]
    cases readEntry b pos with
    | ok r => obtain ⟨e, q⟩ := r; exact ih q (e :: acc)
    | err => rfl
    | panic => rfl
    | oof => rfl

theorem readSub_shift (p b : Buf) (pos : Nat) :
    readSub (p ++ b) (p.size + pos) = omap (shS p.size) (readSub b pos) := by
  unfold readSub
  rw [nextAsU32_shift]
  cases nextAsU32 b pos with
  | ok r1 =>
    obtain ⟨first, p1⟩ := r1
    simp only [omap, shU]
    rw [nextAsU32_shift]
    cases nextAsU32 b p1 with
    | ok r2 =>
      obtain ⟨num, p2⟩ := r2
      simp only [omap, shU]
      rw [entryLoop_shift]
      cases entryLoop b num p2 [] with
      | ok r3 => obtain ⟨es, p3⟩ := r3; rfl
      | err => rfl
      | panic => rfl
      | oof => rfl
    | err => rfl
    | panic => rfl
    | oof => rfl
  | err => rfl
  | panic => rfl
  | oof => rfl

theorem tableLoop_shift (p b : Buf) : ∀ (fuel pos : Nat) (acc : List Sub),
    tableLoop (p ++ b) fuel (p.size + pos) acc = omap (shSs p.size) (tableLoop b fuel pos acc) := by
  intro fuel
  induction fuel with
  | zero => intro pos acc; rfl
  | succ fuel ih =>
    intro pos acc
    simp only [tableLoop]
    rw [peek_shift]
    cases peek b pos with
    | ok w =>
      simp only [omap, sh2, slice_shift]
      split
      · rfl
      · rw [readSub_shift]
        cases readSub b pos with
        | ok r => obtain ⟨s, q⟩ := r; exact ih q (s :: acc)
        | err => rfl
        | panic => rfl
        | oof => rfl
    | err => rfl
    | panic => rfl
    | oof => rfl

theorem parseTable_shift (p b : Buf) (fuel pos : Nat) :
    parseTable (p ++ b) fuel (p.size + pos) = omap (shSs p.size) (parseTable b fuel pos) := by
  unfold parseTable
  rw [tableLoop_shift]
  cases tableLoop b fuel pos [] with
  | ok r =>
    obtain ⟨subs, q⟩ := r
    simp only [omap, shSs]
    rw [nextExpect_shift]
    cases nextExpect b q kwTrailer <;> rfl
  | err => rfl
  | panic => rfl
  | oof => rfl

theorem trailerDict_shift (env : Env R) (p b : Buf) (hsz : (p ++ b).size ≤ 2147483647) (hlen : LenBounded env)
    (pfuel pos : Nat) :
    trailerDict env (p ++ b) pfuel (p.size + pos) = omap (shD p.size) (trailerDict (env.shiftOffset p.size) b pfuel pos) := by
  unfold trailerDict parseWithLexer
  rw [parseCtx_shift env p b hsz hlen]
  cases parseCtx (env.shiftOffset p.size) b pfuel pos none Flags.dict maxDepth with
  | ok r =>
    obtain ⟨v, q⟩ := r
    cases v <;> rfl
  | err => rfl
  | panic => rfl
  | oof => rfl

/-- **The classic table reader under a prefix**: subsections and trailer dictionary are the same, the cursor
    rests `p.size` further on (any content; the table loop's fuel and the parser's fuel as given). -/
theorem parseXrefTableAndTrailer_shift (env : Env R) (p b : Buf) (hsz : (p ++ b).size ≤ 2147483647)
    (hlen : LenBounded env) (fuel pfuel pos : Nat) :
    parseXrefTableAndTrailer env (p ++ b) fuel pfuel (p.size + pos)
      = omap (shT p.size) (parseXrefTableAndTrailer (env.shiftOffset p.size) b fuel pfuel pos) := by
  unfold parseXrefTableAndTrailer
  rw [parseTable_shift]
  cases parseTable b fuel pos with
  | ok r =>
    obtain ⟨subs, q⟩ := r
    simp only [omap, shSs]
    rw [trailerDict_shift env p b hsz hlen]
    cases trailerDict (env.shiftOffset p.size) b pfuel q with
    | ok dq => obtain ⟨d, q2⟩ := dq; rfl
    | err => rfl
    | panic => rfl
    | oof => rfl
  | err => rfl
  | panic => rfl
  | oof => rfl

/-! ### `lexer.back()` -/

/-- the prefix cannot be run into from behind: it is empty or ends in white-space -/
def EndsWs (p : Buf) : Prop := p.size = 0 ∨ ∃ c, p[p.size - 1]? = some c ∧ isWhitespace c = true

theorem scanBack_shift_nonws (p b : Buf) (hp : EndsWs p) :
    ∀ (pos : Nat), pos ≤ b.size →
      scanBack (p ++ b) (fun c => !isWhitespace c) (p.size + pos) = p.size + scanBack b (fun c => !isWhitespace c) pos := by
  intro pos
  induction pos with
  | zero =>
    intro _
    simp only [Nat.add_zero, scanBack]
    rcases hp with h0 | ⟨c, hc, hw⟩
    · have : p = #[] := by apply Array.eq_empty_of_size_eq_zero; exact h0
      subst this; simp [scanBack]
    · have hpos : 0 < p.size := by have := get_some_lt p _ c hc; omega
      obtain ⟨m, hm⟩ : ∃ m, p.size = m + 1 := ⟨p.size - 1, by omega⟩
      rw [hm]
      simp only [scanBack]
      have : (p ++ b)[m]? = some c := by
        rw [Array.getElem?_append_left (by omega)]
        have : p.size - 1 = m := by omega
        rw [this] at hc; exact hc
      simp [this, hw]
  | succ pos ih =>
    intro hle
    have e : p.size + (pos + 1) = (p.size + pos) + 1 := by omega
    rw [e]
    simp only [scanBack, get_shift]
    cases b[pos]? with
    | none => rfl
    | some c =>
      simp only
      split
      · exact ih (by omega)
      · rfl

/-- `back` from a position whose preceding byte (in `b`) is not white-space -/
theorem back_shift (p b : Buf) (hp : EndsWs p) (q : Nat) (hq : q ≤ b.size) (c : UInt8) (hq0 : 0 < q)
    (hc : b[q - 1]? = some c) (hcw : isWhitespace c = false) :
    back (p ++ b) (p.size + q) = omap (sh2 p.size) (back b q) := by
  obtain ⟨m, hm⟩ : ∃ m, q = m + 1 := ⟨q - 1, by omega⟩
  subst hm
  have hc' : b[m]? = some c := by simpa using hc
  unfold back boundaryRev
  simp only [size_shift]
  have h1 : ¬ p.size + (m + 1) > p.size + b.size := by omega
  have h2 : ¬ m + 1 > b.size := by omega
  simp only [h1, h2, if_false, Out.bind_ok]
  have e1 : scanBack (p ++ b) isWhitespace (p.size + (m + 1)) = p.size + (m + 1) := by
    have : p.size + (m + 1) = (p.size + m) + 1 := by omega
    rw [this]; simp [scanBack, get_shift, hc', hcw]
  have e2 : scanBack b isWhitespace (m + 1) = m + 1 := by simp [scanBack, hc', hcw]
  rw [e1, e2]
  simp only [h1, h2, if_false, Out.bind_ok]
  rw [scanBack_shift_nonws p b hp (m + 1) hq]
  exact newSubstr_shift p b _ _

/-! ### a lexeme is non-empty and ends in a byte that is not white-space -/

theorem scanWhile_spec (b : Buf) (cond : UInt8 → Bool) : ∀ (fuel pos : Nat), fuel = b.size - pos → pos ≤ b.size →
    pos ≤ scanWhile b cond fuel pos ∧ scanWhile b cond fuel pos ≤ b.size ∧
    (∀ i, pos ≤ i → i < scanWhile b cond fuel pos → ∃ c, b[i]? = some c ∧ cond c = true) ∧
    (scanWhile b cond fuel pos < b.size → ∃ c, b[scanWhile b cond fuel pos]? = some c ∧ cond c = false) := by
  intro fuel
  induction fuel with
  | zero =>
    intro pos hf hp
    have : pos = b.size := by omega
    subst this
    simp only [scanWhile]
    refine ⟨Nat.le_refl _, Nat.le_refl _, ?_, ?_⟩
    · intro i h1 h2; omega
    · intro h; omega
  | succ fuel ih =>
    intro pos hf hp
    have hlt : pos < b.size := by omega
    have hb : b[pos]? = some b[pos] := by simp [hlt]
    simp only [scanWhile, hb]
    by_cases hc : cond b[pos] = true
    · simp only [hc, if_true]
      obtain ⟨h1, h2, h3, h4⟩ := ih (pos + 1) (by omega) (by omega)
      refine ⟨by omega, h2, ?_, h4⟩
      intro i hi1 hi2
      rcases Nat.eq_or_lt_of_le hi1 with rfl | hgt
      · exact ⟨b[pos], hb, hc⟩
      · exact h3 i (by omega) hi2
    · simp only [Bool.not_eq_true] at hc
      simp only [hc, Bool.false_eq_true, if_false]
      refine ⟨Nat.le_refl _, by omega, ?_, ?_⟩
      · intro i hi1 hi2; omega
      · intro _; exact ⟨b[pos], hb, hc⟩

def NonWsAt (b : Buf) (a : Nat) : Prop := ∃ c, b[a]? = some c ∧ isWhitespace c = false

theorem skipWhitespace_nonws (b : Buf) (q a : Nat) (h : skipWhitespace b q = .ok a) : NonWsAt b a := by
  unfold skipWhitespace boundary at h
  by_cases hp : q > b.size
  · simp [hp, Out.bind] at h
  · simp only [hp, if_false, Out.bind_ok] at h
    split at h
    · cases h
    · rename_i hlt
      cases h
      have := (scanWhile_spec b isWhitespace (b.size - q) q rfl (by omega)).2.2.2 (by omega)
      exact this

theorem skipComments_nonws (b : Buf) : ∀ (fuel s a : Nat), NonWsAt b s → skipComments b fuel s = .ok a → NonWsAt b a := by
  intro fuel
  induction fuel with
  | zero =>
    intro s a hs h
    rw [skipComments_zero] at h
    split at h <;> cases h
    exact hs
  | succ fuel ih =>
    intro s a hs h
    rw [skipComments_succ] at h
    split at h
    · split at h
      · cases h
      · obtain ⟨q, hq, h⟩ := bind_eq_ok h
        exact ih q a (skipWhitespace_nonws b _ q hq) h
    · cases h; exact hs

theorem tokenStart_nonws (b : Buf) (pos a : Nat) (h : tokenStart b pos = .ok a) : NonWsAt b a := by
  unfold tokenStart at h
  obtain ⟨q, hq, h⟩ := bind_eq_ok h
  exact skipComments_nonws b _ q a (skipWhitespace_nonws b pos q hq) h

theorem delim_not_ws' : ∀ d, isDelimiter d = true → isWhitespace d = false := by decide +kernel
theorem regular_not_ws : ∀ d, isRegular d = true → isWhitespace d = false := by decide +kernel
theorem nonws_nondelim_regular : ∀ d, isWhitespace d = false → isDelimiter d = false → isRegular d = true := by decide +kernel

theorem newSubstr_eq (b : Buf) (s t : Nat) (w : Nat × Nat) (hst : s ≤ t) (h : newSubstr b s t = .ok w) : w = (s, t) := by
  unfold newSubstr at h
  have : ¬ s > t := by omega
  simp only [this, if_false] at h
  split at h
  · cases h
  · cases h; rfl

/-- the run of regular bytes from `a`: its end, and that every byte in it is regular -/
theorem scanRegular_spec (b : Buf) (a : Nat) (ha : a ≤ b.size) :
    a ≤ scanRegular b a ∧ scanRegular b a ≤ b.size ∧
      (∀ i, a ≤ i → i < scanRegular b a → ∃ c, b[i]? = some c ∧ isRegular c = true) := by
  have := scanWhile_spec b isRegular (b.size - a) a rfl ha
  exact ⟨this.1, this.2.1, this.2.2.1⟩

theorem lexemeAt_last (b : Buf) (a : Nat) (w : Nat × Nat) (hn : NonWsAt b a) (h : lexemeAt b a = .ok w) :
    w.1 = a ∧ a < w.2 ∧ w.2 ≤ b.size ∧ NonWsAt b (w.2 - 1) := by
  obtain ⟨c0, hc0, hw0⟩ := hn
  have hlt : a < b.size := get_some_lt b a c0 hc0
  have hadv : advancePos b a = .ok (a + 1) := by simp [advancePos, hlt]
  unfold lexemeAt at h
  by_cases hd : isDelimAt b a = true
  · simp only [hd, if_true, hc0, hadv, Out.bind_ok] at h
    have hdel : isDelimiter c0 = true := by simpa [isDelimAt, hc0] using hd
    by_cases h47 : (c0 == 47) = true
    · simp only [h47, if_true] at h
      obtain ⟨h1, h2, h3⟩ := scanRegular_spec b (a + 1) (by omega)
      have := newSubstr_eq b a _ w (by omega) h
      subst this
      refine ⟨rfl, by simp; omega, h2, ?_⟩
      simp only
      rcases Nat.eq_or_lt_of_le h1 with heq | hgt
      · rw [← heq]; simp; exact ⟨c0, hc0, hw0⟩
      · obtain ⟨c, hc, hr⟩ := h3 (scanRegular b (a + 1) - 1) (by omega) (by omega)
        exact ⟨c, hc, regular_not_ws c hr⟩
    · simp only [h47, Bool.false_eq_true, if_false] at h
      by_cases hdb : isDouble b a = true
      · simp only [hdb, if_true, hadv, Out.bind_ok] at h
        -- `isDouble`: the byte at `a + 1` exists and is `<` or `>`
        unfold isDouble at hdb
        simp only [hc0] at hdb
        cases h1 : b[a + 1]? with
        | none => simp [h1] at hdb
        | some c1 =>
          have hlt1 := get_some_lt b (a + 1) c1 h1
          have hadv1 : advancePos b (a + 1) = .ok (a + 2) := by simp [advancePos, hlt1]
          simp only [hadv1, Out.bind_ok] at h
          have := newSubstr_eq b a _ w (by omega) h
          subst this
          refine ⟨rfl, by simp, by simp; omega, ?_⟩
          simp only [h1] at hdb
          have hc1 : isWhitespace c1 = false := by
            have : c1 = 60 ∨ c1 = 62 := by
              simp at hdb
              rcases hdb with ⟨_, h⟩ | ⟨_, h⟩ <;> simp [h]
            rcases this with rfl | rfl <;> decide
          exact ⟨c1, by simpa using h1, hc1⟩
      · simp only [hdb, Bool.false_eq_true, if_false, Out.bind_ok, hadv] at h
        have := newSubstr_eq b a _ w (by omega) h
        subst this
        exact ⟨rfl, by simp, by simp; omega, ⟨c0, by simpa using hc0, hw0⟩⟩
  · simp only [hd, Bool.false_eq_true, if_false] at h
    have hnd : isDelimiter c0 = false := by
      have : isDelimAt b a = false := by simpa using hd
      simpa [isDelimAt, hc0] using this
    have hreg0 : isRegular c0 = true := nonws_nondelim_regular c0 hw0 hnd
    obtain ⟨h1, h2, h3⟩ := scanRegular_spec b a (by omega)
    -- the run is not empty: the byte at `a` is regular
    have hgt : a < scanRegular b a := by
      rcases Nat.eq_or_lt_of_le h1 with heq | hgt
      · exfalso
        have hstop := (scanWhile_spec b isRegular (b.size - a) a rfl (by omega)).2.2.2
        have hs : scanWhile b isRegular (b.size - a) a = a := by simpa [scanRegular] using heq.symm
        rw [hs] at hstop
        obtain ⟨c, hc, hcr⟩ := hstop hlt
        rw [hc0] at hc; cases hc
        rw [hreg0] at hcr; cases hcr
      · exact hgt
    have := newSubstr_eq b a _ w (by omega) h
    subst this
    obtain ⟨c, hc, hr⟩ := h3 (scanRegular b a - 1) (by omega) (by omega)
    exact ⟨rfl, hgt, h2, ⟨c, hc, regular_not_ws c hr⟩⟩

theorem nextWord_last (b : Buf) (pos : Nat) (w : Nat × Nat) (h : nextWord b pos = .ok w) :
    w.1 < w.2 ∧ w.2 ≤ b.size ∧ NonWsAt b (w.2 - 1) := by
  unfold nextWord at h
  split at h
  · cases h
  · obtain ⟨a, ha, h⟩ := bind_eq_ok h
    obtain ⟨h1, h2, h3, h4⟩ := lexemeAt_last b a w (tokenStart_nonws b pos a ha) h
    exact ⟨by omega, h3, h4⟩

/-- **The section reader under a prefix.** The table branch unconditionally; the stream branch goes through
    `lexer.back()`, so the prefix must be empty or end in white-space (`EndsWs`), and the stream reader itself
    must be shift-compatible (`hstm`). -/
theorem readXrefAndTrailerAt_shift (env : Env R) (stm stm' : Buf → Nat → Out (List Sub × Dict R)) (p b : Buf)
    (hsz : (p ++ b).size ≤ 2147483647) (hlen : LenBounded env) (hp : EndsWs p)
    (hstm : ∀ q, stm (p ++ b) (p.size + q) = stm' b q) (fuel pfuel pos : Nat) :
    readXrefAndTrailerAt env stm (p ++ b) fuel pfuel (p.size + pos)
      = readXrefAndTrailerAt (env.shiftOffset p.size) stm' b fuel pfuel pos := by
  unfold readXrefAndTrailerAt
  rw [next_shift]
  cases hw : next b pos with
  | ok w =>
    simp only [omap, sh2, slice_shift]
    split
    · rw [parseXrefTableAndTrailer_shift env p b hsz hlen]
      cases parseXrefTableAndTrailer (env.shiftOffset p.size) b fuel pfuel w.2 with
      | ok r => rfl
      | err => rfl
      | panic => rfl
      | oof => rfl
    · obtain ⟨h1, h2, ⟨c, hc, hcw⟩⟩ := nextWord_last b pos w hw
      rw [back_shift p b hp w.2 h2 c (by omega) hc hcw]
      cases back b w.2 with
      | ok bk => simp only [omap, sh2]; exact hstm bk.1
      | err => rfl
      | panic => rfl
      | oof => rfl
  | err => rfl
  | panic => rfl
  | oof => rfl

end PdfShift
