import PdfModel.Lemmas.DeriveTotal

/-!
  Totality of the typed layer over a whole registry of derived models (C01): reading ANY primitive as ANY derived
  model, to ANY nesting budget, is a value or an error of the implementation — never `oof`.

  `semH cfg schemas hand n` is `Derive.semN` (n levels of derived models over the hand-written scalar leaves) with the
  two things `Model/Derive` leaves out supplied from outside:
    * `hand` reads the shapes whose `from_primitive` is written by hand or involves a stream (`isHand`: leaf types
      other than the 13 scalar leaves, `Stream<…>`-like applications, `is_stream` models such as `XObject`, names
      that no schema defines). They are a PARAMETER — "given leaf readers that return `Ok` or `Err`" — and the
      walker is what exercises the real ones (`notes/C01.md` lists them from `Generated/Dispatch.lean`).
    * a nesting budget that is used up is the refusal of the recursion guard (`StorageResolver::get`:
      "Recursive reference" / "references nested too deeply", an `Err`), not `oof`.
  Everything else — the container impls, the derived struct and enum readers, `PagesNode` / `PagesRc` / `PageRc`, the
  evaluation of `default = ".."` expressions — is `Model/Derive` itself, unchanged.
-/

namespace Derive

/-! ### scalar leaves -/

theorem viaResolve_clean {env : Env} (he : EnvOk env) (f : Prim → R Prim) (hf : ∀ q, Clean (f q)) (p : Prim)
    (hp : p.plain = true) : Clean (viaResolve env f p) := by
  unfold viaResolve
  split
  · obtain ⟨hc, _⟩ := resolveP_spec he p hp
    cases hr : resolveP env p with
    | ok q => exact hf q
    | error e => exact clean_err e (hc e hr)
  · exact hf p

theorem numbers_clean (xs : List Prim) : Clean (numbers xs) := by
  induction xs with
  | nil => exact clean_ok _
  | cons x xs ih =>
    simp only [numbers]
    cases hx : asNumber x with
    | error e =>
      refine clean_err e ?_
      cases x <;> simp [asNumber] at hx <;> (subst hx; rfl)
    | ok y =>
      simp only []
      cases hn : numbers xs with
      | error e => exact clean_err e (ih e hn)
      | ok ys => exact clean_ok _

theorem baseRdPrim_clean {env : Env} (he : EnvOk env) (n : String) (hn : n ∈ baseLeaves) (p : Prim)
    (hp : p.plain = true) : Clean (baseRdPrim env n p) := by
  have scalar : ∀ f : Prim → R Prim, (∀ q e, f q = .error e → e = .other) → Clean (viaResolve env f p) :=
    fun f hf => viaResolve_clean he f (fun q e h => by rw [hf q e h]; rfl) p hp
  simp only [baseLeaves, List.mem_cons, List.mem_nil_iff, or_false] at hn
  rcases hn with rfl | rfl | rfl | rfl | rfl | rfl | rfl | rfl | rfl | rfl | rfl | rfl | rfl
  · exact scalar _ (fun q e h => by cases q <;> simp [asInteger] at h <;> exact h.symm)
  · exact scalar _ (fun q e h => by
      cases q <;> simp [asU32] at h <;> first | exact h.symm | (split at h <;> simp at h <;> exact h.symm))
  · exact scalar _ (fun q e h => by
      cases q <;> simp [asU32] at h <;> first | exact h.symm | (split at h <;> simp at h <;> exact h.symm))
  · exact scalar _ (fun q e h => by cases q <;> simp [asNumber] at h <;> exact h.symm)
  · exact scalar _ (fun q e h => by cases q <;> simp [asBool] at h <;> exact h.symm)
  · exact scalar _ (fun q e h => by cases q <;> simp [asName] at h <;> exact h.symm)
  · exact scalar _ (fun q e h => by cases q <;> simp [asString] at h <;> exact h.symm)
  · exact clean_ok _
  · simp only [baseRdPrim]
    obtain ⟨hc, _⟩ := asDict_spec he p hp
    cases hd : asDict env p with
    | ok d => exact clean_ok _
    | error e => exact clean_err e (hc e hd)
  · exact clean_ok _
  · simp only [baseRdPrim, resolve1]
    obtain ⟨hc, _⟩ := resolveP_spec he p hp
    cases hr : resolveP env p with
    | error e => exact clean_err e (hc e hr)
    | ok q =>
      cases q <;> simp only [] <;> first
        | exact clean_err _ rfl
        | (split
           · have := numbers_clean ‹List Prim›
             split
             · exact clean_ok _
             · rename_i e he'; exact clean_err e (this e he')
           · exact clean_err _ rfl)
  · simp only [baseRdPrim, resolve1]
    obtain ⟨hc, _⟩ := resolveP_spec he p hp
    cases hr : resolveP env p with
    | error e => exact clean_err e (hc e hr)
    | ok q =>
      cases q <;> simp only [] <;> first
        | exact clean_err _ rfl
        | (split
           · have := numbers_clean (List.take 6 ‹List Prim›)
             split
             · exact clean_ok _
             · rename_i e he'; exact clean_err e (this e he')
           · exact clean_err _ rfl)
  · simp only [baseRdPrim]
    split
    · exact clean_ok _
    · exact clean_err _ rfl

/-! ### defaults -/

theorem semH_dflt (cfg : Cfg) (schemas : List Schema) (hand) (n : Nat) :
    (semH cfg schemas hand n).dflt = dfltH schemas := by
  cases n <;> rfl

/-- whether a `vec![..]` default evaluates depends on how many earlier fields have been read, nothing else -/
theorem all_isSome_congr (g g' : String → Option Val) (h : ∀ e, (g e).isSome = (g' e).isSome) (l : List String) :
    (if (l.map g).all Option.isSome then some (Val.list ((l.map g).filterMap id)) else none).isSome =
    (if (l.map g').all Option.isSome then some (Val.list ((l.map g').filterMap id)) else none).isSome := by
  have : (l.map g).all Option.isSome = (l.map g').all Option.isSome := by
    induction l with
    | nil => rfl
    | cons e l ih => simp only [List.map_cons, List.all_cons, h e, ih]
  rw [this]
  split <;> rfl

theorem getElem?_isSome_len {α : Type} (l l' : List α) (h : l.length = l'.length) (i : Nat) :
    l[i]?.isSome = l'[i]?.isSome := by
  by_cases hi : i < l.length
  · have hi' : i < l'.length := by omega
    simp [hi, hi']
  · have hi' : ¬ i < l'.length := by omega
    have h1 : l[i]? = none := by simp; omega
    have h2 : l'[i]? = none := by simp; omega
    rw [h1, h2]

theorem vecDefault_isSome_length (schemas : List Schema) (dx : String) (acc acc' : List Val)
    (h : acc.length = acc'.length) : (vecDefault schemas dx acc).isSome = (vecDefault schemas dx acc').isSome := by
  unfold vecDefault
  split
  · simp only []
    apply all_isSome_congr
    intro e
    cases e.toInt? with
    | some i => rfl
    | none =>
      simp only []
      split
      · split
        · exact getElem?_isSome_len acc acc' h _
        · rfl
      · rfl
  · rfl
theorem dfltOkFrom_at (schemas : List Schema) : ∀ (fs : List Field) (k : Nat), dfltOkFrom schemas fs k = true →
    ∀ (pre post : List Field) (f : Field), fs = pre ++ f :: post → f.skip = false → f.other = false →
      fieldDfltOk schemas f (k + keyedBefore pre) = true := by
  intro fs
  induction fs with
  | nil => intro k _ pre post f h; cases pre <;> simp at h
  | cons g fs ih =>
    intro k hk pre post f hfs hs ho
    cases pre with
    | nil =>
      simp only [List.nil_append, List.cons.injEq] at hfs
      obtain ⟨rfl, rfl⟩ := hfs
      simp only [dfltOkFrom, hs, ho, Bool.not_false, Bool.and_self, if_true, Bool.and_eq_true] at hk
      simpa [keyedBefore] using hk.1
    | cons g' pre' =>
      simp only [List.cons_append, List.cons.injEq] at hfs
      obtain ⟨rfl, hfs⟩ := hfs
      simp only [dfltOkFrom] at hk
      by_cases hc : (!g.skip && !g.other) = true
      · simp only [hc, if_true, Bool.and_eq_true] at hk
        have := ih (k + 1) hk.2 pre' post f hfs hs ho
        simp only [keyedBefore, List.filter_cons, hc, if_true, List.length_cons] at this ⊢
        rw [show k + ((pre'.filter fun g => !g.skip && !g.other).length + 1) = k + 1 + (pre'.filter fun g => !g.skip && !g.other).length by omega]
        exact this
      · simp only [hc, Bool.false_eq_true, if_false] at hk
        have := ih k hk pre' post f hfs hs ho
        simpa [keyedBefore, List.filter_cons, hc] using this

theorem dfltH_clean (schemas : List Schema) (f : Field) (k : Nat) (hok : fieldDfltOk schemas f k = true)
    (dx : String) (hd : f.default = some dx) (acc : List Val) (hl : acc.length = k) : Clean (dfltH schemas dx acc) := by
  unfold fieldDfltOk at hok
  rw [hd] at hok
  simp only [Bool.or_eq_true] at hok
  unfold dfltH
  cases hp : pathDefault schemas dx with
  | some v => exact clean_ok _
  | none =>
    simp only []
    cases hv : vecDefault schemas dx acc with
    | some v => exact clean_ok _
    | none =>
      simp only []
      rcases hok with (h1 | h2) | h3
      · simp [hp] at h1
      · have := vecDefault_isSome_length schemas dx acc (List.replicate k Val.none) (by simp [hl])
        rw [hv, h2] at this; simp at this
      · cases hlit : literalDefault dx with
        | ok v => exact clean_ok _
        | error e => rw [hlit] at h3; exact clean_err e (by simpa using h3)

/-! ### the tower -/

theorem inst_fields (S : Schema) (t : Shape) :
    ∃ g : Field → Field, (S.inst t).fields = S.fields.map g ∧
      ∀ f, (g f).skip = f.skip ∧ (g f).other = f.other ∧ (g f).default = f.default := by
  unfold Schema.inst
  split
  · rename_i x _
    exact ⟨fun f => { f with shape := Shape.subst x t f.shape }, rfl, fun f => ⟨rfl, rfl, rfl⟩⟩
  · exact ⟨id, by simp, fun f => ⟨rfl, rfl, rfl⟩⟩

theorem dfltOkFrom_map (schemas : List Schema) (g : Field → Field)
    (hg : ∀ f, (g f).skip = f.skip ∧ (g f).other = f.other ∧ (g f).default = f.default) :
    ∀ (fs : List Field) (k : Nat), dfltOkFrom schemas (fs.map g) k = dfltOkFrom schemas fs k := by
  intro fs
  induction fs with
  | nil => intro k; rfl
  | cons f fs ih =>
    intro k
    obtain ⟨h1, h2, h3⟩ := hg f
    simp only [List.map_cons, dfltOkFrom, h1, h2, fieldDfltOk, h3, ih]

/-- a struct of the registry is covered by readers `inner` that read every shape cleanly and evaluate defaults the
    registry's way -/
theorem schemaOk_of_inner (schemas : List Schema) (inner : Sem) (hdf : inner.dflt = dfltH schemas) (env : Env)
    (hall : ∀ s p, p.plain = true → Clean (inner.rd env s p))
    (S : Schema) (hd : dfltOkFrom schemas S.fields 0 = true) : SchemaOk inner env S := by
  intro pre post f hf hs ho acc hl
  refine ⟨?_, fun dx hdx => ?_⟩
  · -- every non-container shape below the containers of the field is read cleanly
    have : ∀ s, ShapeAll (RdClean inner env) s := by
      intro s
      induction s with
      | pair a b iha ihb => exact ⟨iha, ihb⟩
      | option a ih => exact ih
      | vec a ih => exact ih
      | hashMap a ih => exact ih
      | box a ih => exact ih
      | maybeRef a ih => exact ih
      | rcRef a ih => exact ih
      | ref a _ => trivial
      | lazy a _ => trivial
      | leaf n => exact fun p hp => hall _ p hp
      | leafApp n a _ => exact fun p hp => hall _ p hp
      | model n => exact fun p hp => hall _ p hp
      | modelApp n a _ => exact fun p hp => hall _ p hp
      | param n => exact fun p hp => hall _ p hp
    exact this f.shape
  · rw [hdf]
    have := dfltOkFrom_at schemas S.fields 0 hd pre post f hf hs ho
    exact dfltH_clean schemas f _ this dx hdx acc (by simpa using hl)

/-- a struct of the registry is covered at level `n` when every shape is read cleanly at level `n` -/
theorem schemaOk_of (cfg : Cfg) (schemas : List Schema) (hand) (n : Nat) (env : Env)
    (hall : ∀ s p, p.plain = true → Clean ((semH cfg schemas hand n).rd env s p))
    (S : Schema) (hd : dfltOkFrom schemas S.fields 0 = true) : SchemaOk (semH cfg schemas hand n) env S :=
  schemaOk_of_inner schemas _ (semH_dflt cfg schemas hand n) env hall S hd

/-- what the registry has to satisfy (decidable; evaluated on the generated data by the model driver, see
    `Props/C01.typed_registry_total`): every default evaluates, and the two models the hand-written `PagesNode` reader
    dispatches to exist -/
def RegistryOk (schemas : List Schema) : Prop := registryOkB schemas = true

theorem RegistryOk.dflt {schemas : List Schema} (h : RegistryOk schemas) : ∀ S ∈ schemas, S.dfltOk schemas = true := by
  unfold RegistryOk registryOkB at h
  simp only [Bool.and_eq_true, List.all_eq_true] at h
  exact h.1.1

theorem RegistryOk.page {schemas : List Schema} (h : RegistryOk schemas) : (findSchema "Page" schemas).isSome = true := by
  unfold RegistryOk registryOkB at h
  simp only [Bool.and_eq_true] at h
  exact h.1.2

theorem RegistryOk.pageTree {schemas : List Schema} (h : RegistryOk schemas) :
    (findSchema "PageTree" schemas).isSome = true := by
  unfold RegistryOk registryOkB at h
  simp only [Bool.and_eq_true] at h
  exact h.2

theorem findSchema_mem_c01 {name : String} {schemas : List Schema} {S : Schema} (h : findSchema name schemas = some S) :
    S ∈ schemas := by
  induction schemas with
  | nil => simp [findSchema] at h
  | cons T Ts ih =>
    simp only [findSchema] at h
    split at h
    · cases h; simp
    · exact List.mem_cons_of_mem _ (ih h)

theorem readPagesNode_clean (cfg : Cfg) (schemas : List Schema) (hreg : RegistryOk schemas) (inner : Sem) {env : Env}
    (he : EnvOk env) (hS : ∀ S ∈ schemas, SchemaOk inner env S) (q : Prim) (hq : q.plain = true) :
    Clean (readPagesNode cfg schemas inner env q) := by
  unfold readPagesNode resolve1
  obtain ⟨hc, hv⟩ := resolveP_spec he q hq
  cases hr : resolveP env q with
  | error e => exact clean_err e (hc e hr)
  | ok r =>
    have hrp := (hv r hr).1
    cases r with
    | dict d =>
      simp only []
      have hdp : plainKV d = true := by simpa [Prim.plain] using hrp
      cases hT : dget "Type" d with
      | none => exact clean_err _ rfl
      | some tv =>
        cases tv with
        | name t =>
          simp only []
          have hder := derase_plain hdp "Type"
          split
          · cases hP : findSchema "Page" schemas with
            | none => have := hreg.page; rw [hP] at this; cases this
            | some S =>
              simp only []
              have := readStructD_clean cfg inner he S (hS S (findSchema_mem_c01 hP)) _ hder
              cases hrd : readStructD cfg inner env S (derase "Type" d) with
              | ok v => exact clean_ok _
              | error e => exact clean_err _ (by simpa [Err.hasOof] using this e hrd)
          · split
            · cases hP : findSchema "PageTree" schemas with
              | none => have := hreg.pageTree; rw [hP] at this; cases this
              | some S =>
                simp only []
                have := readStructD_clean cfg inner he S (hS S (findSchema_mem_c01 hP)) _ hder
                cases hrd : readStructD cfg inner env S (derase "Type" d) with
                | ok v => exact clean_ok _
                | error e => exact clean_err _ (by simpa [Err.hasOof] using this e hrd)
            · exact clean_err _ rfl
        | _ => exact clean_err _ rfl
    | _ => exact clean_err _ rfl

theorem readPagesRc_clean (cfg : Cfg) (schemas : List Schema) (hreg : RegistryOk schemas) (inner : Sem) {env : Env}
    (he : EnvOk env) (hS : ∀ S ∈ schemas, SchemaOk inner env S) (want : String) (p : Prim) (hp : p.plain = true) :
    Clean (readPagesRc cfg schemas inner env want p) := by
  unfold readPagesRc
  split
  · have := getTyped_clean he (fun q => readPagesNode cfg schemas inner env q)
      (fun q hq => readPagesNode_clean cfg schemas hreg inner he hS q hq) p hp
    split
    · rename_i e heq; exact clean_err _ (by simpa [Err.hasOof] using this e heq)
    · split
      · exact clean_ok _
      · exact clean_err _ rfl
    · exact clean_err _ rfl
  · exact clean_err _ rfl

/-- one level of derived models on top of readers `inner` that are clean on every shape: clean on every shape that is
    not hand-written -/
theorem structSem_clean (cfg : Cfg) (schemas : List Schema) (hreg : RegistryOk schemas) (inner : Sem)
    (hdf : inner.dflt = dfltH schemas) {env : Env} (he : EnvOk env)
    (hall : ∀ s p, p.plain = true → Clean (inner.rd env s p))
    (s : Shape) (hnh : ¬ isHand schemas s = true) (p : Prim) (hp : p.plain = true) :
    Clean ((structSem cfg schemas inner).rd env s p) := by
  have hS : ∀ S ∈ schemas, SchemaOk inner env S :=
    fun S hmem => schemaOk_of_inner schemas inner hdf env hall S (hreg.dflt S hmem)
  cases s with
  | model nm =>
    show Clean (match findSchema nm schemas with
      | some S => match S.kind with
        | .struct => readStruct cfg inner env S p
        | .nameEnum | .intEnum => readEnum env S p
        | _ => .error .oof
      | none => .error .oof)
    cases hf : findSchema nm schemas with
    | none => simp [isHand, hf] at hnh
    | some S =>
      simp only []
      cases hk : S.kind with
      | struct => exact readStruct_clean cfg _ he S (hS S (findSchema_mem_c01 hf)) p hp
      | nameEnum => exact readEnum_clean he S p hp
      | intEnum => exact readEnum_clean he S p hp
      | streamEnum => simp [isHand, hf, hk] at hnh
      | streamStruct => simp [isHand, hf, hk] at hnh
  | modelApp nm t =>
    show Clean (match findSchema nm schemas with
      | some S => readStruct cfg inner env (S.inst t) p
      | none => .error .oof)
    cases hf : findSchema nm schemas with
    | none => simp [isHand, hf] at hnh
    | some S =>
      simp only []
      obtain ⟨g, hg, hgp⟩ := inst_fields S t
      have hd : dfltOkFrom schemas (S.inst t).fields 0 = true := by
        rw [hg, dfltOkFrom_map schemas g hgp]; exact hreg.dflt S (findSchema_mem_c01 hf)
      exact readStruct_clean cfg _ he _ (schemaOk_of_inner schemas inner hdf env hall _ hd) p hp
  | leaf nm =>
    by_cases h1 : nm = "PagesNode"
    · subst h1; exact readPagesNode_clean cfg schemas hreg _ he hS p hp
    · by_cases h2 : nm = "PagesRc"
      · subst h2; exact readPagesRc_clean cfg schemas hreg _ he hS "Pages" p hp
      · by_cases h3 : nm = "PageRc"
        · subst h3; exact readPagesRc_clean cfg schemas hreg _ he hS "Page" p hp
        · have : (structSem cfg schemas inner).rd env (.leaf nm) p
              = inner.rd env (.leaf nm) p := by
            simp only [structSem]
            split <;> simp_all
          rw [this]; exact hall _ p hp
  | leafApp nm a => simp [isHand] at hnh
  | param nm => simp [isHand] at hnh
  | option a => exact hall _ p hp
  | vec a => exact hall _ p hp
  | hashMap a => exact hall _ p hp
  | box a => exact hall _ p hp
  | maybeRef a => exact hall _ p hp
  | rcRef a => exact hall _ p hp
  | ref a => exact hall _ p hp
  | lazy a => exact hall _ p hp
  | pair a b => exact hall _ p hp


/-- **`derived_reader_total`, registry level.** At every nesting budget `n`, for every shape — in particular every
    derived model of the registry — every plain primitive, strict and tolerant, the repaired and the pinned `Option`
    reader: the typed reader returns a value or an error of the implementation, given hand-written leaf readers
    that do. -/
theorem semH_clean (cfg : Cfg) (schemas : List Schema) (hreg : RegistryOk schemas)
    (hand : Env → Shape → Prim → R Val)
    (hhand : ∀ env, EnvOk env → ∀ s p, p.plain = true → Clean (hand env s p)) :
    ∀ (n : Nat) (env : Env), EnvOk env → ∀ s p, p.plain = true → Clean ((semH cfg schemas hand n).rd env s p) := by
  intro n
  induction n with
  | zero =>
    intro env he s p hp
    show Clean (if isHand schemas s then hand env s p else _)
    split
    · exact hhand env he s p hp
    · cases s with
      | leaf nm =>
        show Clean (if baseLeaves.contains nm then baseSem.rd env (.leaf nm) p else .error .other)
        split
        · rename_i hc
          show Clean (match baseRdPrim env nm p with | .ok q => Except.ok (Val.leaf q) | .error e => .error e)
          have := baseRdPrim_clean he nm (by simpa using hc) p hp
          cases hb : baseRdPrim env nm p with
          | ok q => exact clean_ok _
          | error e => exact clean_err e (this e hb)
        · exact clean_err _ rfl
      | _ => exact clean_err _ rfl
  | succ n ih =>
    intro env he s p hp
    show Clean (if isHand schemas s then hand env s p else (structSem cfg schemas (semH cfg schemas hand n)).rd env s p)
    split
    · exact hhand env he s p hp
    · rename_i hnh
      exact structSem_clean cfg schemas hreg _ (semH_dflt cfg schemas hand n) he (fun s p hp => ih env he s p hp) s hnh p hp

end Derive
