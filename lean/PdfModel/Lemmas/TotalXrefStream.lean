import PdfModel.Model.XrefStream
import PdfModel.Lemmas.Xref

/-!
  Totality of the cross-reference *stream* row reader `Model/XrefStream` (`read_u64_from_stream`,
  `parse_xref_section_from_stream`, the `/Index` loop) on arbitrary widths, counts and data (C01):
  the two panic sites of `read_u64_from_stream` (`data[0]`, `result += …`) are unreachable behind its two
  guards (`width ≤ 8`, `width ≤ data.len()`), every row consumes its width, and only `Free` / `Raw` / `Stream`
  entries come out. The same facts over `List Nat` data are `C14.xref_section_total` (Model/Numeric); this file
  proves them for the byte-level model that `Props/C02` reads sections back with, so that the open path is
  composed over ONE row reader.
-/

namespace Xref

theorem pow8_succ (i : Nat) : 2 ^ (8 * (i + 1)) = 256 * 2 ^ (8 * i) := by
  rw [Nat.mul_add, Nat.pow_add]; simp [Nat.mul_comm]

/-- the byte loop never reaches its panics when the bytes are there and the value fits -/
theorem readLoop_ok : ∀ (i : Nat) (data : List UInt8) (acc : Nat), i ≤ data.length → acc + 2 ^ (8 * i) ≤ U64 →
    ∃ v rest, readLoop i data acc = .ok (v, rest) ∧ rest.length + i = data.length := by
  intro i
  induction i with
  | zero => intro data acc _ _; exact ⟨acc, data, rfl, by simp⟩
  | succ i ih =>
    intro data acc hlen hacc
    cases data with
    | nil => simp at hlen
    | cons c rest =>
      simp only [readLoop]
      have hc : c.toNat ≤ 255 := by have := c.toNat_lt; omega
      have hp := pow8_succ i
      have hpos : 0 < 2 ^ (8 * i) := Nat.pow_pos (by decide)
      have hmul : c.toNat * 2 ^ (8 * i) ≤ 255 * 2 ^ (8 * i) := Nat.mul_le_mul_right _ hc
      have hv : ¬ (acc + c.toNat * 2 ^ (8 * i) ≥ U64) := by omega
      simp only [hv, if_false]
      obtain ⟨v, r, hr, hl⟩ := ih rest (acc + c.toNat * 2 ^ (8 * i)) (by simp at hlen; omega) (by omega)
      exact ⟨v, r, hr, by simp; omega⟩

/-- `read_u64_from_stream`: `Err`, or the value and the data behind the `width` bytes read -/
theorem readU64_spec (width : Nat) (data : List UInt8) :
    readU64 width data = .err ∨ ∃ v rest, readU64 width data = .ok (v, rest) ∧ rest.length + width = data.length := by
  unfold readU64
  by_cases h1 : width > 8
  · left; simp [h1]
  · by_cases h2 : width > data.length
    · left; simp [h1, h2]
    · right
      simp only [h1, h2, if_false]
      apply readLoop_ok width data 0 (by omega)
      have : 2 ^ (8 * width) ≤ 2 ^ 64 := Nat.pow_le_pow_right (by decide) (by omega)
      simpa [U64] using this

theorem entryOfFields_spec (ty f1 f2 : Nat) :
    entryOfFields ty f1 f2 = .err ∨ ∃ e, entryOfFields ty f1 f2 = .ok e ∧ isEntry e = true := by
  unfold entryOfFields
  split
  · exact Or.inr ⟨_, rfl, rfl⟩
  · exact Or.inr ⟨_, rfl, rfl⟩
  · exact Or.inr ⟨_, rfl, rfl⟩
  · exact Or.inl rfl

/-- one row: `Err`, or an entry a section reader may produce and the data behind the row -/
theorem readEntry_spec (w0 w1 w2 : Nat) (data : List UInt8) :
    readEntry w0 w1 w2 data = .err ∨
    ∃ e rest, readEntry w0 w1 w2 data = .ok (e, rest) ∧ isEntry e = true ∧ rest.length + (w0 + w1 + w2) = data.length := by
  unfold readEntry
  have h0 : (if w0 = 0 then Out.ok (1, data) else readU64 w0 data) = .err ∨
      ∃ ty d1, (if w0 = 0 then Out.ok (1, data) else readU64 w0 data) = .ok (ty, d1) ∧ d1.length + w0 = data.length := by
    by_cases hz : w0 = 0
    · right; exact ⟨1, data, by simp [hz], by omega⟩
    · simp only [hz, if_false]; exact readU64_spec w0 data
  rcases h0 with he | ⟨ty, d1, h1, l1⟩
  · left; simp only [he]
  · simp only [h1]
    rcases readU64_spec w1 d1 with he | ⟨f1, d2, h2, l2⟩
    · left; simp only [he]
    · simp only [h2]
      rcases readU64_spec w2 d2 with he | ⟨f2, d3, h3, l3⟩
      · left; simp only [he]
      · simp only [h3]
        rcases entryOfFields_spec ty f1 f2 with he | ⟨e, hE, hi⟩
        · left; simp only [he]
        · right; simp only [hE]; exact ⟨e, d3, rfl, hi, by omega⟩

theorem readEntries_spec (w0 w1 w2 : Nat) : ∀ (n : Nat) (data : List UInt8) (acc : List XRef),
    (∀ e ∈ acc, isEntry e = true) →
    readEntries w0 w1 w2 n data acc = .err ∨
    ∃ es rest, readEntries w0 w1 w2 n data acc = .ok (es, rest) ∧ (∀ e ∈ es, isEntry e = true) ∧
      rest.length ≤ data.length ∧ es.length = acc.length + n := by
  intro n
  induction n with
  | zero =>
    intro data acc hacc
    right; exact ⟨acc.reverse, data, rfl, fun e he => hacc e (by simpa using he), Nat.le_refl _, by simp⟩
  | succ n ih =>
    intro data acc hacc
    simp only [readEntries]
    rcases readEntry_spec w0 w1 w2 data with he | ⟨e, rest, hr, hi, hl⟩
    · left; simp only [he]
    · simp only [hr]
      rcases ih rest (e :: acc) (fun x hx => by
          rcases List.mem_cons.1 hx with rfl | hx
          · exact hi
          · exact hacc x hx) with he | ⟨es, r2, h2, i2, l2, n2⟩
      · left; exact he
      · right; exact ⟨es, r2, h2, i2, by omega, by simp at n2; omega⟩

/-- `parse_xref_section_from_stream` for every `/W`, every count, every amount of data, strict and tolerant:
    `Err`, or a subsection of at most `data.len()` entries (memory in proportion to the decoded data) -/
theorem parseSection_spec (first n : Nat) (width : List Nat) (data : List UInt8) (allowErr : Bool) :
    parseSection first n width data allowErr = .err ∨
    ∃ s rest, parseSection first n width data allowErr = .ok (s, rest) ∧ (∀ e ∈ s.entries, isEntry e = true) ∧
      rest.length ≤ data.length ∧ s.entries.length ≤ data.length := by
  unfold parseSection
  split
  · rename_i w0 w1 w2
    simp only []
    by_cases h1 : w0 + w1 + w2 ≥ U64
    · left; simp [h1]
    · by_cases h2 : w0 + w1 + w2 = 0
      · left; simp [h2]
      · simp only [h1, h2, if_false]
        -- the number of rows actually read is at most `data.length / row ≤ data.length`
        have key : ∀ n', n' ≤ data.length / (w0 + w1 + w2) →
            (match readEntries w0 w1 w2 n' data [] with
              | .ok (es, rest) => Out.ok ((⟨first, es⟩ : Sub), rest)
              | .err => .err | .panic => .panic | .oof => .oof) = .err ∨
            ∃ s rest, (match readEntries w0 w1 w2 n' data [] with
              | .ok (es, rest) => Out.ok ((⟨first, es⟩ : Sub), rest)
              | .err => .err | .panic => .panic | .oof => .oof) = .ok (s, rest) ∧
              (∀ e ∈ s.entries, isEntry e = true) ∧ rest.length ≤ data.length ∧ s.entries.length ≤ data.length := by
          intro n' hn'
          rcases readEntries_spec w0 w1 w2 n' data [] (fun e he => by cases he) with he | ⟨es, rest, hr, hi, hl, hn⟩
          · left; simp only [he]
          · right; simp only [hr]
            have : data.length / (w0 + w1 + w2) ≤ data.length := Nat.div_le_self _ _
            exact ⟨_, _, rfl, hi, hl, by simp at hn ⊢; omega⟩
        by_cases h3 : n > data.length / (w0 + w1 + w2)
        · simp only [h3, if_true]
          cases allowErr with
          | true => simp only [if_true]; exact key _ (Nat.le_refl _)
          | false => left; simp
        · simp only [h3, if_false]; exact key n (by omega)
  · left; rfl

/-- the `/Index` loop: `Err` or sections whose entries are `Free` / `Raw` / `Stream` -/
theorem parseSections_spec (width : List Nat) (allowErr : Bool) :
    ∀ (pairs : List (Nat × Nat)) (data : List UInt8) (acc : List Sub),
      (∀ s ∈ acc, ∀ e ∈ s.entries, isEntry e = true) →
      parseSections width allowErr pairs data acc = .err ∨
      ∃ secs, parseSections width allowErr pairs data acc = .ok secs ∧ ∀ s ∈ secs, ∀ e ∈ s.entries, isEntry e = true := by
  intro pairs
  induction pairs with
  | nil =>
    intro data acc hacc
    right; exact ⟨acc.reverse, rfl, fun s hs => hacc s (by simpa using hs)⟩
  | cons p more ih =>
    intro data acc hacc
    obtain ⟨first, n⟩ := p
    simp only [parseSections]
    rcases parseSection_spec first n width data allowErr with he | ⟨s, rest, hr, hi, _, _⟩
    · left; simp only [he]
    · simp only [hr]
      exact ih rest (s :: acc) (fun x hx => by
        rcases List.mem_cons.1 hx with rfl | hx
        · exact hi
        · exact hacc x hx)

end Xref
