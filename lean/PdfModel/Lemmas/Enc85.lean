import PdfModel.Lemmas.EncHex

set_option linter.unusedSimpArgs false

/-! ASCII85: digit/byte conversions, the base-85 arithmetic (by `omega`), the group loop. -/

namespace Enc
open Codecs

theorem toNat_ofNat_mod (m : Nat) : (UInt8.ofNat m).toNat = m % 256 := by simp

theorem toNat_ofNat_lt {m : Nat} (h : m < 256) : (UInt8.ofNat m).toNat = m := by
  rw [toNat_ofNat_mod]; omega

theorem sym85_ofNat {d : Nat} (h : d < 85) : sym85 (UInt8.ofNat (d + 33)) = some d := by
  unfold sym85
  have h1 : (UInt8.ofNat (d + 33)).toNat = d + 33 := toNat_ofNat_lt (by omega)
  have h2 : (0x21 : UInt8) ≤ UInt8.ofNat (d + 33) := by
    rw [UInt8.le_iff_toNat_le, h1]; simp
  have h3 : UInt8.ofNat (d + 33) ≤ (0x75 : UInt8) := by
    rw [UInt8.le_iff_toNat_le, h1]; simp; omega
  rw [if_pos ⟨h2, h3⟩, h1]
  simp

theorem beBytes_be32 (b0 b1 b2 b3 : UInt8) : beBytes (Codecs.be32 b0 b1 b2 b3) = [b0, b1, b2, b3] := by
  have h0 := b0.toNat_lt_size; have h1 := b1.toNat_lt_size; have h2 := b2.toNat_lt_size; have h3 := b3.toNat_lt_size
  simp only [UInt8.size] at h0 h1 h2 h3
  unfold beBytes Codecs.be32
  have e0 : UInt8.ofNat ((((b0.toNat * 256 + b1.toNat) * 256 + b2.toNat) * 256 + b3.toNat) / 16777216) = b0 := by
    apply UInt8.toNat_inj.mp; rw [toNat_ofNat_mod]; omega
  have e1 : UInt8.ofNat ((((b0.toNat * 256 + b1.toNat) * 256 + b2.toNat) * 256 + b3.toNat) / 65536) = b1 := by
    apply UInt8.toNat_inj.mp; rw [toNat_ofNat_mod]; omega
  have e2 : UInt8.ofNat ((((b0.toNat * 256 + b1.toNat) * 256 + b2.toNat) * 256 + b3.toNat) / 256) = b2 := by
    apply UInt8.toNat_inj.mp; rw [toNat_ofNat_mod]; omega
  have e3 : UInt8.ofNat ((((b0.toNat * 256 + b1.toNat) * 256 + b2.toNat) * 256 + b3.toNat)) = b3 := by
    apply UInt8.toNat_inj.mp; rw [toNat_ofNat_mod]; omega
  rw [e0, e1, e2, e3]

theorem be32_lt (b0 b1 b2 b3 : UInt8) : Codecs.be32 b0 b1 b2 b3 < 4294967296 := by
  have h0 := b0.toNat_lt_size; have h1 := b1.toNat_lt_size; have h2 := b2.toNat_lt_size; have h3 := b3.toNat_lt_size
  simp only [UInt8.size] at h0 h1 h2 h3
  unfold Codecs.be32; omega

/-- the five digits of a 32-bit value decode to its four bytes -/
theorem word85_group (b0 b1 b2 b3 : UInt8) :
    word85 (digit85 (Codecs.be32 b0 b1 b2 b3) 4) (digit85 (Codecs.be32 b0 b1 b2 b3) 3) (digit85 (Codecs.be32 b0 b1 b2 b3) 2)
      (digit85 (Codecs.be32 b0 b1 b2 b3) 1) (digit85 (Codecs.be32 b0 b1 b2 b3) 0) = some [b0, b1, b2, b3] := by
  have hn := be32_lt b0 b1 b2 b3
  generalize hN : Codecs.be32 b0 b1 b2 b3 = n at hn
  unfold word85 digit85
  rw [sym85_ofNat (Nat.mod_lt _ (by decide)), sym85_ofNat (Nat.mod_lt _ (by decide)), sym85_ofNat (Nat.mod_lt _ (by decide)),
      sym85_ofNat (Nat.mod_lt _ (by decide)), sym85_ofNat (Nat.mod_lt _ (by decide))]
  have hq : (((n / 85 ^ 4 % 85 * 85 + n / 85 ^ 3 % 85) * 85 + n / 85 ^ 2 % 85) * 85 + n / 85 ^ 1 % 85) * 85 + n / 85 ^ 0 % 85 = n := by
    simp only [show (85:Nat)^4 = 52200625 from rfl, show (85:Nat)^3 = 614125 from rfl, show (85:Nat)^2 = 7225 from rfl, Nat.pow_one, Nat.pow_zero, Nat.div_one]
    omega
  simp only [hq, hn, if_true]
  rw [← hN, beBytes_be32]

theorem sym85_u : sym85 117 = some 84 := by decide

theorem word85_syms {a b c d e : UInt8} {sa sb sc sd se : Nat}
    (ha : sym85 a = some sa) (hb : sym85 b = some sb) (hc : sym85 c = some sc) (hd : sym85 d = some sd) (he : sym85 e = some se)
    (hlt : (((sa * 85 + sb) * 85 + sc) * 85 + sd) * 85 + se < 4294967296) :
    word85 a b c d e = some (beBytes ((((sa * 85 + sb) * 85 + sc) * 85 + sd) * 85 + se)) := by
  unfold word85
  rw [ha, hb, hc, hd, he]
  simp only [hlt, if_true]

theorem ofNat_eq_of_mod {q : Nat} {b : UInt8} (h : q % 256 = b.toNat) : UInt8.ofNat q = b := by
  apply UInt8.toNat_inj.mp; rw [toNat_ofNat_mod, h]

theorem div_pow85 (n : Nat) : n / 85 ^ 4 = n / 85 / 85 / 85 / 85 ∧ n / 85 ^ 3 = n / 85 / 85 / 85 ∧ n / 85 ^ 2 = n / 85 / 85 ∧
    n / 85 ^ 1 = n / 85 ∧ n / 85 ^ 0 = n := by
  simp [Nat.div_div_eq_div_mul]

/-! the arithmetic core (DESIGN.md A.5): padding a partial group with the digit 84 keeps its top bytes -/
theorem a85_tail3 (x n q : Nat) (hx : x < 16777216) (hn : n = x * 256)
    (hq : q = (((n/85/85/85/85*85 + n/85/85/85%85)*85 + n/85/85%85)*85 + n/85%85)*85 + 84) :
    q < 4294967296 ∧ q / 256 = x := by omega
theorem a85_tail2 (x n q : Nat) (hx : x < 65536) (hn : n = x * 65536)
    (hq : q = (((n/85/85/85/85*85 + n/85/85/85%85)*85 + n/85/85%85)*85 + 84)*85 + 84) :
    q < 4294967296 ∧ q / 65536 = x := by omega
theorem a85_tail1 (x n q : Nat) (hx : x < 256) (hn : n = x * 16777216)
    (hq : q = (((n/85/85/85/85*85 + n/85/85/85%85)*85 + 84)*85 + 84)*85 + 84) :
    q < 4294967296 ∧ q / 16777216 = x := by omega
theorem top_digit_mod (n : Nat) (h : n < 4294967296) : n / 85 / 85 / 85 / 85 % 85 = n / 85 / 85 / 85 / 85 := by omega

theorem split2 (q b0 b1 : Nat) (h0 : b0 < 256) (h1 : b1 < 256) (hd : q / 65536 = b0 * 256 + b1) :
    q / 16777216 % 256 = b0 ∧ q / 65536 % 256 = b1 := by omega
theorem split3 (q b0 b1 b2 : Nat) (h0 : b0 < 256) (h1 : b1 < 256) (h2 : b2 < 256) (hd : q / 256 = (b0 * 256 + b1) * 256 + b2) :
    q / 16777216 % 256 = b0 ∧ q / 65536 % 256 = b1 ∧ q / 256 % 256 = b2 := by omega

theorem tail85_1 (b0 : UInt8) :
    tail85 (digit85 (Codecs.be32 b0 0 0 0) 4) (digit85 (Codecs.be32 b0 0 0 0) 3) 117 117 117 1 = .ok [b0] := by
  have h0 := b0.toNat_lt_size; simp only [UInt8.size] at h0
  have hN : Codecs.be32 b0 0 0 0 = b0.toNat * 16777216 := by simp [Codecs.be32]; omega
  unfold tail85 digit85
  rw [hN]
  generalize hn : b0.toNat * 16777216 = n
  obtain ⟨p4, p3, p2, p1, p0⟩ := div_pow85 n
  rw [p4, p3]
  generalize hq : (((n / 85 / 85 / 85 / 85 % 85 * 85 + n / 85 / 85 / 85 % 85) * 85 + 84) * 85 + 84) * 85 + 84 = q
  have hq' := hq
  rw [top_digit_mod n (by omega)] at hq'
  obtain ⟨hlt, hd⟩ := a85_tail1 b0.toNat n q h0 hn.symm hq'.symm
  rw [word85_syms (sym85_ofNat (Nat.mod_lt _ (by decide))) (sym85_ofNat (Nat.mod_lt _ (by decide))) sym85_u sym85_u sym85_u (by rw [hq]; exact hlt), hq]
  simp only [beBytes, List.take]
  congr 2
  exact ofNat_eq_of_mod (by omega)

theorem tail85_2 (b0 b1 : UInt8) :
    tail85 (digit85 (Codecs.be32 b0 b1 0 0) 4) (digit85 (Codecs.be32 b0 b1 0 0) 3) (digit85 (Codecs.be32 b0 b1 0 0) 2) 117 117 2 = .ok [b0, b1] := by
  have h0 := b0.toNat_lt_size; simp only [UInt8.size] at h0
  have h1 := b1.toNat_lt_size; simp only [UInt8.size] at h1
  have hN : Codecs.be32 b0 b1 0 0 = (b0.toNat * 256 + b1.toNat) * 65536 := by simp [Codecs.be32]; omega
  unfold tail85 digit85
  rw [hN]
  generalize hn : (b0.toNat * 256 + b1.toNat) * 65536 = n
  obtain ⟨p4, p3, p2, p1, p0⟩ := div_pow85 n
  rw [p4, p3, p2]
  generalize hq : (((n / 85 / 85 / 85 / 85 % 85 * 85 + n / 85 / 85 / 85 % 85) * 85 + n / 85 / 85 % 85) * 85 + 84) * 85 + 84 = q
  have hq' := hq
  rw [top_digit_mod n (by omega)] at hq'
  obtain ⟨hlt, hd⟩ := a85_tail2 (b0.toNat * 256 + b1.toNat) n q (by omega) hn.symm hq'.symm
  rw [word85_syms (sym85_ofNat (Nat.mod_lt _ (by decide))) (sym85_ofNat (Nat.mod_lt _ (by decide))) (sym85_ofNat (Nat.mod_lt _ (by decide))) sym85_u sym85_u (by rw [hq]; exact hlt), hq]
  simp only [beBytes, List.take]
  obtain ⟨e0, e1⟩ := split2 q b0.toNat b1.toNat h0 h1 hd
  rw [ofNat_eq_of_mod e0, ofNat_eq_of_mod e1]

theorem tail85_3 (b0 b1 b2 : UInt8) :
    tail85 (digit85 (Codecs.be32 b0 b1 b2 0) 4) (digit85 (Codecs.be32 b0 b1 b2 0) 3) (digit85 (Codecs.be32 b0 b1 b2 0) 2)
      (digit85 (Codecs.be32 b0 b1 b2 0) 1) 117 3 = .ok [b0, b1, b2] := by
  have h0 := b0.toNat_lt_size; simp only [UInt8.size] at h0
  have h1 := b1.toNat_lt_size; simp only [UInt8.size] at h1
  have h2 := b2.toNat_lt_size; simp only [UInt8.size] at h2
  have hN : Codecs.be32 b0 b1 b2 0 = ((b0.toNat * 256 + b1.toNat) * 256 + b2.toNat) * 256 := by simp [Codecs.be32]
  unfold tail85 digit85
  rw [hN]
  generalize hn : ((b0.toNat * 256 + b1.toNat) * 256 + b2.toNat) * 256 = n
  obtain ⟨p4, p3, p2, p1, p0⟩ := div_pow85 n
  rw [p4, p3, p2, p1]
  generalize hq : (((n / 85 / 85 / 85 / 85 % 85 * 85 + n / 85 / 85 / 85 % 85) * 85 + n / 85 / 85 % 85) * 85 + n / 85 % 85) * 85 + 84 = q
  have hq' := hq
  rw [top_digit_mod n (by omega)] at hq'
  obtain ⟨hlt, hd⟩ := a85_tail3 ((b0.toNat * 256 + b1.toNat) * 256 + b2.toNat) n q (by omega) hn.symm hq'.symm
  rw [word85_syms (sym85_ofNat (Nat.mod_lt _ (by decide))) (sym85_ofNat (Nat.mod_lt _ (by decide))) (sym85_ofNat (Nat.mod_lt _ (by decide))) (sym85_ofNat (Nat.mod_lt _ (by decide))) sym85_u (by rw [hq]; exact hlt), hq]
  simp only [beBytes, List.take]
  obtain ⟨e0, e1, e2⟩ := split3 q b0.toNat b1.toNat b2.toNat h0 h1 h2 hd
  rw [ofNat_eq_of_mod e0, ofNat_eq_of_mod e1, ofNat_eq_of_mod e2]

theorem digit85_clean (n k : Nat) :
    isWs (digit85 n k) = false ∧ (digit85 n k != 126) = true ∧ digit85 n k ≠ 122 := by
  have hd : n / 85 ^ k % 85 < 85 := Nat.mod_lt _ (by decide)
  generalize hdd : n / 85 ^ k % 85 = d at hd
  unfold digit85; rw [hdd]
  have h1 : (UInt8.ofNat (d + 33)).toNat = d + 33 := toNat_ofNat_lt (by omega)
  have key : ∀ c : UInt8, 33 ≤ c → c ≤ 117 → isWs c = false ∧ (c != 126) = true ∧ c ≠ 122 := by decide +kernel
  exact key _ (by rw [UInt8.le_iff_toNat_le, h1]; simp) (by rw [UInt8.le_iff_toNat_le, h1]; simp; omega)

theorem group85_clean (n : Nat) : ∀ c ∈ group85 n, isWs c = false ∧ (c != 126) = true := by
  intro c hc
  simp only [group85, List.mem_cons, List.not_mem_nil, or_false] at hc
  rcases hc with rfl | rfl | rfl | rfl | rfl <;> exact ⟨(digit85_clean _ _).1, (digit85_clean _ _).2.1⟩

theorem a85Body_clean {bs body : Bytes} (h : A85Body bs body) :
    ∀ c ∈ body, isWs c = false ∧ (c != 126) = true := by
  induction h with
  | nil => intro c hc; simp at hc
  | z _ ih =>
    intro c hc
    rcases List.mem_cons.mp hc with rfl | hc
    · decide
    · exact ih c hc
  | group _ ih =>
    intro c hc
    rcases List.mem_append.mp hc with hc | hc
    · exact group85_clean _ c hc
    · exact ih c hc
  | tail1 => intro c hc; exact group85_clean _ c (List.mem_of_mem_take hc)
  | tail2 => intro c hc; exact group85_clean _ c (List.mem_of_mem_take hc)
  | tail3 => intro c hc; exact group85_clean _ c (List.mem_of_mem_take hc)

theorem decode85Groups_of_body {bs body : Bytes} (h : A85Body bs body) : decode85Groups body = .ok bs := by
  induction h with
  | nil => rfl
  | z _ ih => rw [decode85Groups.eq_def]; simp [ih]
  | @group b0 b1 b2 b3 bs t _ ih =>
    have hne := (digit85_clean (Codecs.be32 b0 b1 b2 b3) 4).2.2
    simp only [group85, List.cons_append, List.nil_append, decode85Groups, hne, if_false, word85_group, ih]
  | @tail1 b0 =>
    have hne := (digit85_clean (Codecs.be32 b0 0 0 0) 4).2.2
    simp only [group85, List.take, decode85Groups, hne, if_false]
    exact tail85_1 b0
  | @tail2 b0 b1 =>
    have hne := (digit85_clean (Codecs.be32 b0 b1 0 0) 4).2.2
    simp only [group85, List.take, decode85Groups, hne, if_false]
    exact tail85_2 b0 b1
  | @tail3 b0 b1 b2 =>
    have hne := (digit85_clean (Codecs.be32 b0 b1 b2 0) 4).2.2
    simp only [group85, List.take, decode85Groups, hne, if_false]
    exact tail85_3 b0 b1 b2

end Enc
