import PdfModel.Lemmas.ContentBytesLex
import PdfModel.Lemmas.Sequence
import PdfModel.Lemmas.Content

/-! C08 byte level, part 3: the loop of `OpBuilder::parse` on any conformant spelling of a token sequence
    (`ContentSyntax.SpellsToks`) does what the token-level loop (`Content.parseLoop`) does on the tokens. -/

namespace ContentBytes
open Content ContentSyntax
open PdfLex (Buf Env Suffix Ahead NotR)
open PdfSyntax (Gap Bnd Spells needsBnd WF vdepth need)

variable {R : Type}

theorem bytesStr_strBytes (s : String) : bytesStr (strBytes s) = some s := by
  unfold bytesStr strBytes
  have : ByteArray.mk s.toUTF8.data.toList.toArray = s.toUTF8 := by simp
  rw [this]
  unfold String.fromUTF8?
  have h : s.toUTF8.IsValidUTF8 := s.isValidUTF8
  simp
  exact ⟨h, rfl⟩

/-- what the theorems need to know about the `isEof` oracle: at the end of the data the error is `EOF`
    (`Lexer::next` fails with `EOF` only), at an operator keyword it is not (`UnknownType`) -/
structure EofFacts (o : Oracle) : Prop where
  end_is_eof : ∀ buf pos, PdfLex.next buf pos = .err → o.isEof buf pos = true
  keyword_not_eof : ∀ buf pos w, PdfLex.next buf pos = .ok w → kwOK (PdfLex.slice buf w.1 w.2) = true →
    o.isEof buf pos = false

/-- an operand that the object parser can read back: a value of the Rust types (names UTF-8, dictionary keys
    distinct), nested no deeper than `MAX_DEPTH`, and converted back to itself -/
def PrimRT (p : Content.Prim R) : Prop :=
  WF (toLex p) ∧ vdepth (toLex p) ≤ PdfLex.maxDepth ∧ ofLex (toLex p) = some p

def primsOf : List (Tok R) → List (Content.Prim R)
  | [] => []
  | .prim p :: ts => p :: primsOf ts
  | _ :: ts => primsOf ts

theorem spellsToks_empty_aux {pr : List UInt8 → Option R} {toks : List (Tok R)} {txt : List UInt8}
    (h : SpellsToks pr toks txt) : txt = [] → toks = [] := by
  intro he
  cases h with
  | nil g _ => rfl
  | prim g p txt rest toks hg hsp hb ht =>
    have := PdfLex.spells_ne_nil pr (toLex p) txt hsp
    simp at he
    exact absurd he.2.1 this
  | kw g s rest toks hg hk hb ht =>
    simp only [kwOK, Bool.and_eq_true, Bool.not_eq_true', List.isEmpty_eq_false_iff] at hk
    simp at he
    exact absurd he.2.1 hk.1.1.1.1.1.1.1.1.1

theorem spellsToks_empty {pr : List UInt8 → Option R} {toks : List (Tok R)} (h : SpellsToks pr toks []) : toks = [] :=
  spellsToks_empty_aux h rfl

/-- what follows a value in a content stream never merges with it into another object -/
theorem ahead_toks (pr : List UInt8 → Option R) : ∀ (toks : List (Tok R)) (rest : List UInt8),
    SpellsToks pr toks rest → ∀ {buf : Buf} (q : Nat), Suffix buf q rest → Ahead buf q := by
  intro toks rest h
  induction h with
  | nil g hg =>
    intro buf q hs
    exact Or.inl (PdfLex.next_gap_end g hg q hs)
  | prim g p txt rest toks hg hsp hb ht ih =>
    intro buf q hs
    obtain ⟨k, t, hk, hn, hsl, hf, hint⟩ := PdfLex.spells_first pr (toLex p) txt hsp g rest q hg hs hb
    refine PdfLex.ahead_of_lexeme _ t hn hsl hf.neR hf.neStream ?_
    intro hi
    rcases hint hi with ⟨hk', _⟩ | hnr
    · subst hk'
      have hs2 : Suffix buf (q + g.length + txt.length) rest := by
        have := Suffix.drop (a := g ++ txt) (s := rest) (by simpa using hs)
        simpa [Nat.add_assoc] using this
      exact (ih _ hs2).notR
    · exact hnr
  | kw g s rest toks hg hk hb ht ih =>
    intro buf q hs
    have hk' := hk
    simp only [kwOK, Bool.and_eq_true, Bool.not_eq_true', List.all_eq_true, bne_iff_ne, ne_eq,
      Option.isNone_iff_eq_none, List.isEmpty_eq_false_iff] at hk'
    obtain ⟨⟨⟨⟨⟨⟨⟨⟨⟨hne, hreg⟩, hint⟩, hreal⟩, hR⟩, hS⟩, hT⟩, hF⟩, hN⟩, hBI⟩ := hk'
    obtain ⟨hn, hsl⟩ := PdfLex.next_regular g (strBytes s) rest q hg hs hne hreg hb
    exact PdfLex.ahead_of_lexeme _ (strBytes s) hn hsl hR (by simpa [PdfLex.kwStream, PdfSyntax.kwStream] using hS)
      (fun hi => by rw [hint] at hi; simp at hi)


theorem suffix_after {buf : Buf} {pos : Nat} {a rest : List UInt8} (h : Suffix buf pos (a ++ rest)) :
    Suffix buf (pos + a.length) rest := h.drop

/-- **Reading a spelled content stream.**  On any conformant spelling of the token sequence `toks` (whatever
    the white-space, comments and omitted separators, whichever spelling of each operand), placed in a buffer
    from `pos` to its end, the byte-level loop computes what the token-level loop computes on `toks`. -/
theorem bytesLoop_spells (ro : RealOps R) (env : Env R) (hd : env.decrypt = none) (o : Oracle) (ho : EofFacts o)
    (allow : Bool) : ∀ (toks : List (Tok R)) (rest : List UInt8), SpellsToks env.parseReal toks rest →
    (∀ p ∈ primsOf toks, PrimRT p) →
    ∀ {buf : Buf}, buf.size ≤ 2147483647 → ∀ (pos : Nat) (c : PCfg R) (fuel : Nat), Suffix buf pos rest →
      toks.length + 1 ≤ fuel →
      bytesLoop ro env o allow buf fuel c pos = parseLoop ro allow c toks := by
  intro toks rest h
  induction h with
  | nil g hg =>
    intro _ buf hsz pos c fuel hs hf
    obtain ⟨f, rfl⟩ : ∃ f, fuel = f + 1 := ⟨fuel - 1, by omega⟩
    have h1 := PdfLex.parseWithLexer_gap_end env g hg pos hs (PdfLex.defaultFuel buf) PdfLex.Flags.any
      (by unfold PdfLex.defaultFuel; omega)
    have h2 := ho.end_is_eof buf pos (PdfLex.next_gap_end g hg pos hs)
    simp [bytesLoop, bytesStep, h1, h2, parseLoop]
  | prim g p txt rest toks hg hsp hb ht ih =>
    intro hp buf hsz pos c fuel hs hf
    obtain ⟨f, rfl⟩ : ∃ f, fuel = f + 1 := ⟨fuel - 1, by omega⟩
    obtain ⟨hwf, hdepth, hrt⟩ := hp p (by simp [primsOf])
    have hs2 : Suffix buf (pos + g.length + txt.length) rest := by
      have := suffix_after (a := g ++ txt) (rest := rest) (by simpa using hs)
      simpa [Nat.add_assoc] using this
    have hah := ahead_toks env.parseReal toks rest ht _ hs2
    have hneed : need (toLex p) ≤ PdfLex.defaultFuel buf := by
      have h1 := PdfLex.need_bound env.parseReal (toLex p) txt hsp
      have h2 := hs.size_eq
      simp at h2
      unfold PdfLex.defaultFuel
      omega
    have hparse := PdfLex.parseCtx_spells env hd (toLex p) txt hsp hwf hsz g rest pos (PdfLex.defaultFuel buf) none
      PdfLex.maxDepth PdfLex.Flags.any hg (PdfLex.any_allows _) hs hb hah hneed hdepth
    have hle : pos + g.length + txt.length ≤ buf.size := hs2.le
    have hstep : bytesStep ro env o allow buf c pos =
        .ok (some (⟨c.st, c.buf ++ [p]⟩, pos + g.length + txt.length)) := by
      simp [bytesStep, PdfLex.parseWithLexer, hparse, hrt]
    simp only [bytesLoop, hstep]
    have hnot : ¬ (pos + g.length + txt.length > buf.size) := by omega
    rw [if_neg hnot]
    have hploop : parseLoop ro allow c (.prim p :: toks) = parseLoop ro allow ⟨c.st, c.buf ++ [p]⟩ toks := by
      simp [parseLoop, step]
    rw [hploop]
    by_cases hlt : pos + g.length + txt.length < buf.size
    · rw [if_pos hlt]
      exact ih (fun q hq => hp q (by simp [primsOf, hq])) hsz _ _ f hs2 (by simp at hf; omega)
    · rw [if_neg hlt]
      have heq : pos + g.length + txt.length = buf.size := by omega
      have hrest : rest = [] := by
        have := hs2.size_sub
        rw [heq] at this
        simp at this
        exact List.eq_nil_of_length_eq_zero this.symm
      subst hrest
      rw [spellsToks_empty ht]
      rfl
  | kw g s rest toks hg hk hb ht ih =>
    intro hp buf hsz pos c fuel hs hf
    obtain ⟨f, rfl⟩ : ∃ f, fuel = f + 1 := ⟨fuel - 1, by omega⟩
    obtain ⟨h1, h2, h3⟩ := PdfLex.parseWithLexer_keyword env g (strBytes s) rest pos hg hs hk hb hsz
      (PdfLex.defaultFuel buf) (by unfold PdfLex.defaultFuel; omega)
    have h4 := ho.keyword_not_eof buf pos _ h2 (by rw [h3]; exact hk)
    have hs2 : Suffix buf (pos + g.length + (strBytes s).length) rest := by
      have := suffix_after (a := g ++ strBytes s) (rest := rest) (by simpa using hs)
      simpa [Nat.add_assoc] using this
    have hle : pos + g.length + (strBytes s).length ≤ buf.size := hs2.le
    have hnbi : (strBytes s == kwBI) = false := by
      simp only [kwOK, Bool.and_eq_true, bne_iff_ne, ne_eq] at hk
      simpa using hk.2
    cases hst : Content.step ro allow c (.kw s) with
    | ok c' =>
      have hstep : bytesStep ro env o allow buf c pos = .ok (some (c', pos + g.length + (strBytes s).length)) := by
        simp only [bytesStep, h1, h4, Bool.false_eq_true, if_false, PdfLex.setPos_ok hs.le hs.le, Out.bind_ok, h2, h3,
          bytesStr_strBytes, hnbi, hst]
      have hploop : parseLoop ro allow c (.kw s :: toks) = parseLoop ro allow c' toks := by
        simp [parseLoop, hst]
      simp only [bytesLoop, hstep, hploop]
      have hnot : ¬ (pos + g.length + (strBytes s).length > buf.size) := by omega
      rw [if_neg hnot]
      by_cases hlt : pos + g.length + (strBytes s).length < buf.size
      · rw [if_pos hlt]
        exact ih (fun q hq => hp q (by simp [primsOf, hq])) hsz _ _ f hs2 (by simp at hf; omega)
      · rw [if_neg hlt]
        have heq : pos + g.length + (strBytes s).length = buf.size := by omega
        have hrest : rest = [] := by
          have := hs2.size_sub
          rw [heq] at this
          simp at this
          exact List.eq_nil_of_length_eq_zero this.symm
        subst hrest
        rw [spellsToks_empty ht]
        rfl
    | err =>
      have hstep : bytesStep ro env o allow buf c pos = .err := by
        simp only [bytesStep, h1, h4, Bool.false_eq_true, if_false, PdfLex.setPos_ok hs.le hs.le, Out.bind_ok, h2, h3,
          bytesStr_strBytes, hnbi, hst]
      simp [bytesLoop, hstep, parseLoop, hst]
    | panic =>
      have hstep : bytesStep ro env o allow buf c pos = .panic := by
        simp only [bytesStep, h1, h4, Bool.false_eq_true, if_false, PdfLex.setPos_ok hs.le hs.le, Out.bind_ok, h2, h3,
          bytesStr_strBytes, hnbi, hst]
      simp [bytesLoop, hstep, parseLoop, hst]
    | oof =>
      have hstep : bytesStep ro env o allow buf c pos = .oof := by
        simp only [bytesStep, h1, h4, Bool.false_eq_true, if_false, PdfLex.setPos_ok hs.le hs.le, Out.bind_ok, h2, h3,
          bytesStr_strBytes, hnbi, hst]
      simp [bytesLoop, hstep, parseLoop, hst]


theorem regular_ne_40_60 : ∀ b : UInt8, PdfLex.isRegular b = true → b ≠ 40 ∧ b ≠ 60 := by decide +kernel

/-- the driver's oracle has the two properties the theorems use -/
theorem lexOracle_facts (img : Buf → Nat → Out (Option Nat × Nat)) : EofFacts (lexOracle img) where
  end_is_eof := by
    intro buf pos h
    simp [lexOracle, h]
  keyword_not_eof := by
    intro buf pos w h hk
    simp only [kwOK, Bool.and_eq_true, Bool.not_eq_true', List.all_eq_true, List.isEmpty_eq_false_iff] at hk
    obtain ⟨hne, hreg⟩ := hk.1.1.1.1.1.1.1.1
    simp only [lexOracle, h]
    generalize PdfLex.slice buf w.1 w.2 = t at *
    cases t with
    | nil => exact absurd rfl hne
    | cons b t' =>
      obtain ⟨h40, h60⟩ := regular_ne_40_60 b (hreg b (by simp))
      have c1 : ((b :: t') == [40]) = false := by
        simp only [beq_eq_false_iff_ne, ne_eq, List.cons.injEq, not_and]; intro e; exact absurd e h40
      have c2 : ((b :: t') == [60]) = false := by
        simp only [beq_eq_false_iff_ne, ne_eq, List.cons.injEq, not_and]; intro e; exact absurd e h60
      simp [c1, c2]

theorem spellsToks_length {pr : List UInt8 → Option R} {toks : List (Tok R)} {txt : List UInt8}
    (h : SpellsToks pr toks txt) : toks.length ≤ txt.length := by
  induction h with
  | nil g _ => simp
  | prim g p txt rest toks hg hsp hb ht ih =>
    have := PdfLex.spells_ne_nil pr (toLex p) txt hsp
    have : 0 < txt.length := List.length_pos_iff.mpr this
    simp; omega
  | kw g s rest toks hg hk hb ht ih =>
    simp only [kwOK, Bool.and_eq_true, Bool.not_eq_true', List.isEmpty_eq_false_iff] at hk
    have : 0 < (strBytes s).length := List.length_pos_iff.mpr hk.1.1.1.1.1.1.1.1.1
    simp; omega

end ContentBytes
