import PdfModel.Lemmas.ContentBytesCompose

/-! An instance of the byte-level hypotheses (`FmtLaws`) over the integer "reals" of `Lemmas/ContentInst.lean`:
    `Display` prints the integer, `from_str` reads `digits.` back.  Shows that the hypotheses of
    `parse_serialize_bytes` are satisfiable and serves its non-vacuity example. -/

namespace ContentBytes
open Content
open PdfSyntax (IntTok RealTok Digits digitsVal)

/-- `from_str` of the instance: `[-]digits.` ↦ the integer -/
def intPr (t : List UInt8) : Option Int :=
  if t.getLast? == some 46 then
    match t.dropLast with
    | 45 :: ds => some (-(digitsVal ds : Int))
    | ds => some (digitsVal ds : Int)
  else none

theorem dig_ne_minus : ∀ b : UInt8, PdfSyntax.isDig b = true → b ≠ 45 := by decide +kernel

theorem intPr_fmtInt (n : Int) : intPr (PdfLex.fmtInt n ++ [46]) = some n := by
  have hspec := PdfLex.fmtNat_spec n.natAbs
  obtain ⟨hne, hd, hv⟩ := hspec
  unfold intPr
  simp only [List.getLast?_append, List.getLast?_singleton, Option.some_or, beq_self_eq_true, if_true,
    List.dropLast_concat]
  unfold PdfLex.fmtInt
  by_cases h : n < 0
  · rw [if_pos h]
    simp only
    rw [hv]; congr 1; omega
  · rw [if_neg h]
    cases hf : PdfLex.fmtNat n.natAbs with
    | nil => exact absurd hf hne
    | cons b ds =>
      have hb : b ≠ 45 := dig_ne_minus b (hd b (by rw [hf]; simp))
      have : (match b :: ds with
        | 45 :: ds => some (-(digitsVal ds : Int))
        | ds => some (digitsVal ds : Int)) = some (digitsVal (b :: ds) : Int) := by
        split
        · rename_i heq; simp at heq; exact absurd heq.1 hb
        · rfl
      rw [this, ← hf, hv]; congr 1; omega

theorem intFmtLaws : FmtLaws intOps PdfLex.fmtInt intPr where
  frac := by intro r _ h; simp [intOps] at h
  integral := by
    intro r n _ h
    have : n = r := by simpa [intOps] using h.symm
    subst this
    refine ⟨PdfLex.fmtInt_spec n, ?_, intPr_fmtInt n⟩
    obtain ⟨hne, hd, hv⟩ := PdfLex.fmtNat_spec n.natAbs
    unfold PdfLex.fmtInt
    by_cases hneg : n < 0
    · rw [if_pos hneg]
      exact ⟨[45], PdfLex.fmtNat n.natAbs, [], by simp, Or.inr (Or.inr rfl), hd, by intro b hb; simp at hb, Or.inl hne⟩
    · rw [if_neg hneg]
      exact ⟨[], PdfLex.fmtNat n.natAbs, [], by simp, Or.inl rfl, hd, by intro b hb; simp at hb, Or.inl hne⟩
  big_integral := by intro r _; exact ⟨r, rfl⟩
  small_i32 := by
    intro r n _ h hb
    have : n = r := by simpa [intOps] using h.symm
    subst this
    simp only [intOps, decide_eq_false_iff_not] at hb
    omega

/-- the environment of the instance -/
def intEnv : PdfLex.Env Int :=
  { parseReal := intPr, resolveLen := fun _ _ => .err, allowMissingEndobj := false, decrypt := none, fileOffset := 0 }

end ContentBytes
