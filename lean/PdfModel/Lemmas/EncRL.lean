import PdfModel.Lemmas.Enc85

set_option linter.unusedSimpArgs false

/-! RunLength: the decoder follows any conforming segmentation; fuel and panic freedom. -/

namespace Enc
open Codecs

theorem runLengthLoop_of_body {bs body : Bytes} (h : RLBody bs body) :
    ∀ (rest : Bytes) (fuel : Nat), body.length < fuel → runLengthLoop fuel (body ++ rest) = .ok bs := by
  induction h with
  | eod =>
    intro rest fuel hf
    cases fuel with
    | zero => simp at hf
    | succ f => simp [runLengthLoop]
  | @literal lit bs t h1 h2 _ ih =>
    intro rest fuel hf
    cases fuel with
    | zero => simp at hf
    | succ f =>
      have hl : (UInt8.ofNat (lit.length - 1)).toNat = lit.length - 1 := toNat_ofNat_lt (by omega)
      have hlt : UInt8.ofNat (lit.length - 1) < 128 := by
        rw [UInt8.lt_iff_toNat_lt, hl]; have : (128 : UInt8).toNat = 128 := rfl
        rw [this]; omega
      have hn : (UInt8.ofNat (lit.length - 1)).toNat + 1 = lit.length := by rw [hl]; omega
      simp only [List.cons_append, runLengthLoop, hlt, if_true, hn]
      have hlen : ¬ ((lit ++ t ++ rest).length < lit.length) := by simp
      rw [if_neg hlen]
      have htake : (lit ++ t ++ rest).take lit.length = lit := by simp [List.take_append]
      have hdrop : (lit ++ t ++ rest).drop lit.length = t ++ rest := by simp [List.drop_append]
      rw [htake, hdrop, ih rest f (by simp at hf; omega)]
  | @«repeat» n b bs t h1 h2 _ ih =>
    intro rest fuel hf
    cases fuel with
    | zero => simp at hf
    | succ f =>
      have hl : (UInt8.ofNat (257 - n)).toNat = 257 - n := toNat_ofNat_lt (by omega)
      have hnlt : ¬ (UInt8.ofNat (257 - n) < 128) := by
        rw [UInt8.lt_iff_toNat_lt, hl]; have : (128 : UInt8).toNat = 128 := rfl
        rw [this]; omega
      have hge : UInt8.ofNat (257 - n) ≥ 129 := by
        show (129 : UInt8) ≤ _
        rw [UInt8.le_iff_toNat_le, hl]; have : (129 : UInt8).toNat = 129 := rfl
        rw [this]; omega
      have hrep : 257 - (257 - n) = n := by omega
      have hfuel : t.length < f := by simp at hf; omega
      simp only [List.cons_append, runLengthLoop, hnlt, if_false, hge, if_true, hl, hrep]
      rw [ih rest f hfuel]

/-- `run_length_decode` never runs out of the fuel it is given, and never panics -/
theorem runLengthLoop_returns : ∀ (fuel : Nat) (d : Bytes), d.length < fuel →
    runLengthLoop fuel d ≠ .panic ∧ runLengthLoop fuel d ≠ .oof := by
  intro fuel
  induction fuel with
  | zero => intro d h; simp at h
  | succ f ih =>
    intro d hf
    cases d with
    | nil => simp [runLengthLoop]
    | cons len rest =>
      simp only [runLengthLoop]
      split
      · split
        · simp
        · have := ih (rest.drop (len.toNat + 1)) (by simp at hf ⊢; omega)
          cases hr : runLengthLoop f (rest.drop (len.toNat + 1)) <;> simp_all
      · split
        · cases rest with
          | nil => simp
          | cons b rest' =>
            have := ih rest' (by simp at hf ⊢; omega)
            cases hr : runLengthLoop f rest' <;> simp_all
        · simp

end Enc
