import PdfModel.Model.Offsets
import PdfModel.Lemmas.OffLex
import Mathlib.Data.List.Perm.Subperm

/-! Fuel adequacy of the `/Prev` loop of `Model/Offsets.lean`: the `seen` list is duplicate-free and every
    member is an offset that could be read, so it cannot grow beyond `len - start + 1` entries; with
    `fuel ≥ len + 2` the model never answers `oof`. (Single Mathlib import: the pigeonhole step.) -/

namespace Offsets
open OffLex

theorem pigeon (l : List Nat) (B : Nat) (hn : l.Nodup) (hb : ∀ x ∈ l, x ≤ B) : l.length ≤ B + 1 := by
  have hsub : l ⊆ List.range (B + 1) := by
    intro x hx; simp [List.mem_range]; have := hb x hx; omega
  have := List.subperm_of_subset hn hsub
  simpa using this.length_le

theorem shouldUpdate_ne_oof (dst inc : Xref.XRef) : Xref.shouldUpdate dst inc ≠ .oof := by
  cases dst <;> cases inc <;> simp [Xref.shouldUpdate, Xref.XRef.genNr]

theorem addEntry_ne_oof (t : Xref.Table) (i : Nat) (e : Xref.XRef) : Xref.addEntry t i e ≠ .oof := by
  unfold Xref.addEntry
  cases t[i]? with
  | none => simp
  | some dst =>
    simp only
    have := shouldUpdate_ne_oof dst e
    cases h : Xref.shouldUpdate dst e with
    | ok b => cases b <;> simp
    | err => simp
    | panic => simp
    | oof => exact absurd h this

theorem addFrom_ne_oof : ∀ (es : List Xref.XRef) (t : Xref.Table) (i : Nat), Xref.addFrom t i es ≠ .oof := by
  intro es
  induction es with
  | nil => intro t i; simp [Xref.addFrom]
  | cons e es ih =>
    intro t i
    simp only [Xref.addFrom]
    have := addEntry_ne_oof t i e
    cases h : Xref.addEntry t i e with
    | ok t' => exact ih t' (i + 1)
    | err => simp
    | panic => simp
    | oof => exact absurd h this

theorem addSubs_ne_oof : ∀ (ss : List Xref.Sub) (t : Xref.Table), Xref.addSubs t ss ≠ .oof := by
  intro ss
  induction ss with
  | nil => intro t; simp [Xref.addSubs]
  | cons s ss ih =>
    intro t
    simp only [Xref.addSubs, Xref.addSub]
    have := addFrom_ne_oof s.entries t s.first
    cases h : Xref.addFrom t s.first s.entries with
    | ok t' => exact ih t'
    | err => simp
    | panic => simp
    | oof => exact absurd h this

variable {V T : Type}

/-- the parameters themselves never answer `oof` (they stand for Rust functions, which have no fuel) -/
def NoOof (P : Parsers V T) : Prop :=
  (∀ sfx, P.xrefAt sfx ≠ .oof) ∧ (∀ tr, P.sizeOf tr ≠ .oof) ∧ (∀ tr, P.prevOf tr ≠ some .oof)

theorem suffixAt_bound (buf : Bytes) (start off pos : Nat) (sfx : Bytes)
    (h : suffixAt buf start off = .ok (pos, sfx)) : start + off ≤ buf.length := by
  unfold suffixAt checkedAdd readFrom at h
  by_cases h1 : start + off > usizeMax
  · simp [h1] at h
  · by_cases h2 : start + off ≤ buf.length
    · exact h2
    · simp [h1, h2] at h

theorem suffixAt_ne_oof (buf : Bytes) (start off : Nat) : suffixAt buf start off ≠ .oof := by
  unfold suffixAt checkedAdd readFrom
  by_cases h1 : start + off > usizeMax
  · simp [h1]
  · by_cases h2 : start + off ≤ buf.length <;> simp [h1, h2]

theorem prevLoop_ne_oof (P : Parsers V T) (hP : NoOof P) (buf : Bytes) (start : Nat) :
    ∀ (fuel : Nat) (seen : List Nat) (pv : Option Nat) (t : Xref.Table),
      seen.Nodup → (∀ x ∈ seen, start + x ≤ buf.length) →
      buf.length - start + 2 ≤ fuel + seen.length →
      prevLoop P buf start fuel seen pv t ≠ .oof := by
  intro fuel
  induction fuel with
  | zero =>
    intro seen pv t hn hb hf
    have := pigeon seen (buf.length - start) hn (fun x hx => by have := hb x hx; omega)
    omega
  | succ fuel ih =>
    intro seen pv t hn hb hf
    cases pv with
    | none => simp [prevLoop]
    | some v =>
      simp only [prevLoop]
      split
      · simp
      · rename_i hnc
        cases hs : suffixAt buf start v with
        | ok qs =>
          obtain ⟨q, sfx⟩ := qs
          simp only
          have hx := hP.1 sfx
          cases hxr : P.xrefAt sfx with
          | ok r =>
            obtain ⟨subs, tr⟩ := r
            simp only
            have ha := addSubs_ne_oof subs t
            cases had : Xref.addSubs t subs with
            | ok t' =>
              simp only
              have hp := hP.2.2 tr
              cases hpv : P.prevOf tr with
              | none => simp
              | some o =>
                cases o with
                | ok v' =>
                  simp only
                  apply ih
                  · simp only [List.nodup_cons]
                    refine ⟨?_, hn⟩
                    intro hmem
                    apply hnc
                    simpa using hmem
                  · intro x hxm
                    simp only [List.mem_cons] at hxm
                    rcases hxm with rfl | hxm
                    · exact suffixAt_bound buf start _ q sfx hs
                    · exact hb x hxm
                  · simp only [List.length_cons]; omega
                | err => simp
                | panic => simp
                | oof => exact absurd hpv hp
            | err => simp
            | panic => simp
            | oof => exact absurd had ha
          | err => simp
          | panic => simp
          | oof => exact absurd hxr hx
        | err => simp
        | panic => simp
        | oof => exact absurd hs (suffixAt_ne_oof buf start v)

theorem locateXref_ne_oof (buf : Bytes) : locateXref buf ≠ .oof := by
  unfold locateXref
  split
  · simp
  · rename_i s _
    have h1 := nextWord_returns (buf.drop (s + startxrefKw.length))
    cases hw : nextWord (buf.drop (s + startxrefKw.length)) with
    | ok r => exact (parseUsize_returns r.1).1
    | err => simp
    | panic => simp
    | oof => exact absurd hw h1.1

/-- with `fuel ≥ len + 2` loading never runs out of fuel -/
theorem loadTable_ne_oof (P : Parsers V T) (hP : NoOof P) (buf : Bytes) (start fuel : Nat)
    (hf : buf.length + 2 ≤ fuel) : loadTable P fuel buf start ≠ .oof := by
  unfold loadTable
  have h0 := locateXref_ne_oof buf
  cases hx : locateXref buf with
  | ok x =>
    simp only
    unfold suffixAtStrict checkedAdd
    by_cases h1 : start + x > usizeMax
    · simp [h1]
    · simp only [h1, if_false]
      by_cases h2 : start + x ≥ buf.length
      · simp [h2]
      · simp only [h2, if_false]
        have hxa := hP.1 (buf.drop (start + x))
        cases hxr : P.xrefAt (buf.drop (start + x)) with
        | ok r =>
          obtain ⟨subs, tr⟩ := r
          simp only
          have hs := hP.2.1 tr
          cases hsz : P.sizeOf tr with
          | ok size =>
            simp only
            split
            · simp
            · have ha := addSubs_ne_oof subs (Xref.newTable size)
              cases had : Xref.addSubs (Xref.newTable size) subs with
              | ok t =>
                simp only
                have hp := hP.2.2 tr
                cases hpv : P.prevOf tr with
                | none => simp
                | some o =>
                  cases o with
                  | ok pv =>
                    simp only
                    have := prevLoop_ne_oof P hP buf start fuel [] (some pv) t (by simp) (by simp) (by simp; omega)
                    cases hl : prevLoop P buf start fuel [] (some pv) t with
                    | ok t' => simp
                    | err => simp
                    | panic => simp
                    | oof => exact absurd hl this
                  | err => simp
                  | panic => simp
                  | oof => exact absurd hpv hp
              | err => simp
              | panic => simp
              | oof => exact absurd had ha
          | err => simp
          | panic => simp
          | oof => exact absurd hsz hs
        | err => simp
        | panic => simp
        | oof => exact absurd hxr hxa
  | err => simp
  | panic => simp
  | oof => exact absurd hx h0

/-- more fuel never changes an answer other than `oof` -/
theorem prevLoop_fuel_irrelevant (P : Parsers V T) (buf : Bytes) (start : Nat) :
    ∀ (fuel fuel' : Nat) (seen : List Nat) (pv : Option Nat) (t : Xref.Table),
      prevLoop P buf start fuel seen pv t ≠ .oof → fuel ≤ fuel' →
      prevLoop P buf start fuel' seen pv t = prevLoop P buf start fuel seen pv t := by
  intro fuel
  induction fuel with
  | zero =>
    intro fuel' seen pv t h _
    cases pv with
    | none => cases fuel' <;> simp [prevLoop]
    | some v => simp [prevLoop] at h
  | succ fuel ih =>
    intro fuel' seen pv t h hle
    cases pv with
    | none => cases fuel' <;> simp [prevLoop]
    | some v =>
      cases fuel' with
      | zero => omega
      | succ fuel' =>
        simp only [prevLoop] at h ⊢
        split
        · rfl
        · rename_i hnc
          simp only [hnc, if_false] at h
          cases hs : suffixAt buf start v with
          | ok qs =>
            obtain ⟨q, sfx⟩ := qs
            simp only [hs] at h ⊢
            cases hxr : P.xrefAt sfx with
            | ok r =>
              obtain ⟨subs, tr⟩ := r
              simp only [hxr] at h ⊢
              cases had : Xref.addSubs t subs with
              | ok t' =>
                simp only [had] at h ⊢
                cases hpv : P.prevOf tr with
                | none => rfl
                | some o =>
                  cases o with
                  | ok v' =>
                    simp only [hpv] at h ⊢
                    exact ih fuel' _ _ _ h (by omega)
                  | err => rfl
                  | panic => rfl
                  | oof => rfl
              | err => rfl
              | panic => rfl
              | oof => rfl
            | err => rfl
            | panic => rfl
            | oof => rfl
          | err => rfl
          | panic => rfl
          | oof => rfl

theorem loadTable_fuel_irrelevant (P : Parsers V T) (buf : Bytes) (start fuel fuel' : Nat)
    (h : loadTable P fuel buf start ≠ .oof) (hle : fuel ≤ fuel') :
    loadTable P fuel' buf start = loadTable P fuel buf start := by
  unfold loadTable at h ⊢
  cases hx : locateXref buf with
  | ok x =>
    simp only [hx] at h ⊢
    cases hs : suffixAtStrict buf start x with
    | ok qs =>
      obtain ⟨q, sfx⟩ := qs
      simp only [hs] at h ⊢
      cases hxr : P.xrefAt sfx with
      | ok r =>
        obtain ⟨subs, tr⟩ := r
        simp only [hxr] at h ⊢
        cases hsz : P.sizeOf tr with
        | ok size =>
          simp only [hsz] at h ⊢
          split
          · rfl
          · rename_i hsize
            simp only [hsize, if_false] at h
            cases had : Xref.addSubs (Xref.newTable size) subs with
            | ok t =>
              simp only [had] at h ⊢
              cases hpv : P.prevOf tr with
              | none => rfl
              | some o =>
                cases o with
                | ok pv =>
                  simp only [hpv] at h ⊢
                  have hne : prevLoop P buf start fuel [] (some pv) t ≠ .oof := by
                    intro hc; simp [hc] at h
                  rw [prevLoop_fuel_irrelevant P buf start fuel fuel' [] (some pv) t hne hle]
                | err => rfl
                | panic => rfl
                | oof => rfl
            | err => rfl
            | panic => rfl
            | oof => rfl
        | err => rfl
        | panic => rfl
        | oof => rfl
      | err => rfl
      | panic => rfl
      | oof => rfl
    | err => rfl
    | panic => rfl
    | oof => rfl
  | err => rfl
  | panic => rfl
  | oof => rfl

end Offsets
