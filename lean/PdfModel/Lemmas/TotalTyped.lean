import PdfModel.Model.Handwritten2
import PdfModel.Lemmas.DeriveTotal

/-!
  Totality of the hand-written typed readers modelled by other packages (`Model/Handwritten.lean`,
  `Model/Handwritten2.lean`, C15) — C01.

  As in `Lemmas/DeriveTotal`: these models have no panic outcome; `Clean r` says the outcome is a value or an error of
  the implementation, never `oof` ("outside the model / out of budget"). Every reader is `Clean` on EVERY input
  primitive, given that `Resolve::resolve` is (`EnvOk.clean`) and that the readers it is parameterised with are.
  The only `oof` answers left are spelled out where they occur: a stream with filters handed to `unitStreamData`
  (`Stream::<()>::data` runs the decoders of C05 there), and `readEncoding` out of fuel on a chain of references,
  which does not happen for an environment that returns values (`EnvOk.value`) and fuel ≥ 1.
-/

namespace Derive

theorem resolve1_clean {env : Env} (hc : ∀ id, Clean (env.resolve id)) (p : Prim) : Clean (resolve1 env p) := by
  cases p <;> simp [resolve1, resolveP, Clean] <;> first | exact hc _ | skip

/-- `Clean` as a rewriting rule for `grind`/`simp` -/
theorem clean_def {α : Type} (r : R α) : Clean r ↔ ∀ e, r = .error e → e.hasOof = false := Iff.rfl

@[simp, grind =] theorem hasOof_tryE (e : Err) : (Err.tryE e).hasOof = e.hasOof := rfl
@[simp, grind =] theorem hasOof_shared (e : Err) : (Err.shared e).hasOof = e.hasOof := rfl
@[simp, grind =] theorem hasOof_fromPrimitive (f : String) (e : Err) : (Err.fromPrimitive f e).hasOof = e.hasOof := rfl

/-! ## Dest, MaybeNamedDest, Action -/

theorem optCoord_clean (o : Option Prim) : Clean (optCoord o) := by
  unfold optCoord; split <;> simp [Clean, Err.hasOof]

theorem coord_clean (o : Option Prim) : Clean (coord o) := by
  unfold coord; split <;> simp [Clean, Err.hasOof]

theorem zoomOf_clean (o : Option Prim) : Clean (zoomOf o) := by
  unfold zoomOf; split <;> simp [Clean, Err.hasOof]

theorem destPage_clean (t : Bool) (o : Option Prim) : Clean (destPage t o) := by
  unfold destPage; split <;> (try split) <;> simp [Clean, Err.hasOof]

theorem readDestArr_clean (t : Bool) (xs : List Prim) : Clean (readDestArr t xs) := by
  have h0 := destPage_clean t xs[0]?
  have h2 := coord_clean xs[2]?
  unfold readDestArr
  simp only [Clean] at *
  intro e
  repeat' split
  all_goals (intro h; first | (cases h; first | rfl | (apply h0; assumption) | (apply h2; assumption)) | skip)
  all_goals grind [Err.hasOof]

theorem readDest_clean {env : Env} (hc : ∀ id, Clean (env.resolve id)) (p : Prim) : Clean (readDest env p) := by
  have h1 := resolve1_clean hc p
  have h2 := fun xs => readDestArr_clean env.tolerant xs
  simp only [Clean] at *
  intro e h
  unfold readDest at h
  grind [Err.hasOof]

theorem map_clean {α β : Type} (f : α → β) (r : R α) (h : Clean r) : Clean (r.map f) := by
  cases r <;> simp_all [Clean, Except.map]

theorem readNamedDestV_clean {env : Env} (hc : ∀ id, Clean (env.resolve id)) (p : Prim) :
    Clean (readNamedDestV env p) := by
  have h1 := resolve1_clean hc p
  have h2 := fun xs => map_clean NamedDest.direct _ (readDestArr_clean env.tolerant xs)
  simp only [Clean] at *
  intro e h
  unfold readNamedDestV at h
  grind [Err.hasOof]

theorem readNamedDest_clean {env : Env} (hc : ∀ id, Clean (env.resolve id)) (rdDest : Prim → R Val)
    (hd : ∀ q, Clean (rdDest q)) (p : Prim) : Clean (readNamedDest rdDest env p) := by
  have h1 := resolve1_clean hc p
  simp only [Clean] at *
  intro e h
  unfold readNamedDest at h
  grind [Err.hasOof]

theorem readAction_clean {env : Env} (hc : ∀ id, Clean (env.resolve id)) (rdDest : Prim → R Val)
    (hd : ∀ q, Clean (rdDest q)) (p : Prim) : Clean (readAction rdDest env p) := by
  have h1 := resolve1_clean hc p
  have h2 := readNamedDest_clean hc rdDest hd
  simp only [Clean] at *
  unfold readAction
  intro e
  repeat' split
  all_goals
    intro h; cases h <;>
    first | rfl | (apply h1; assumption) | (simp only [hasOof_tryE]; apply h2; assumption)

/-! ## Number trees and name trees -/

theorem asRefs_clean : ∀ xs, Clean (asRefs xs) := by
  intro xs
  fun_induction asRefs xs <;> simp_all [Clean, Err.hasOof] <;> grind [Err.hasOof]

theorem readNums_clean (rdT : Prim → R Val) (h : ∀ v, Clean (rdT v)) : ∀ xs, Clean (readNums rdT xs) := by
  intro xs
  fun_induction readNums rdT xs <;> simp_all [Clean, Err.hasOof] <;> grind [Err.hasOof]

theorem readNames_clean {env : Env} (hc : ∀ id, Clean (env.resolve id)) (rdT : Prim → R Val) (h : ∀ v, Clean (rdT v)) :
    ∀ xs, Clean (readNames rdT env xs) := by
  intro xs
  have h1 := resolve1_clean hc
  fun_induction readNames rdT env xs <;> simp_all [Clean, Err.hasOof] <;> grind [Err.hasOof]

theorem readNumTree_clean {env : Env} (hc : ∀ id, Clean (env.resolve id)) (rdT : Prim → R Val) (h : ∀ v, Clean (rdT v))
    (p : Prim) : Clean (readNumTree rdT env p) := by
  have h1 := resolve1_clean hc
  have h2 := asRefs_clean
  have h3 := readNums_clean rdT h
  unfold readNumTree
  simp only [Clean] at *
  intro e
  repeat' split
  all_goals (intro hh; first | (cases hh; first | rfl | (apply h1; assumption) | (apply h2; assumption) | (apply h3; assumption)) | skip)
  all_goals grind [Err.hasOof]

theorem readNameTree_clean {env : Env} (hc : ∀ id, Clean (env.resolve id)) (rdT : Prim → R Val) (h : ∀ v, Clean (rdT v))
    (p : Prim) : Clean (readNameTree rdT env p) := by
  have h1 := resolve1_clean hc
  have h2 := asRefs_clean
  have h3 := readNames_clean hc rdT h
  unfold readNameTree
  simp only [Clean] at *
  intro e
  repeat' split
  all_goals (intro hh; first | (cases hh; first | rfl | (apply h1; assumption) | (apply h2; assumption) | (apply h3; assumption)) | skip)
  all_goals grind [Err.hasOof]

/-! ## Streams without filters, CidToGidMap, Pattern, XObject -/

/-- the streams `unitStreamData` models: `/Length` absent or a direct integer, no filter. (With filters the data goes
    through `Enc.decodeChain`, whose totality is `C01.stream_decoders_total`.) -/
def UnfilteredStream (info : Dict) : Prop :=
  (dget "Length" info = none ∨ ∃ n, dget "Length" info = some (.int n)) ∧
  (dget "Filter" info = none ∨ dget "Filter" info = some .null ∨ dget "Filter" info = some (.arr []))

theorem unitStreamData_clean (info : Dict) (data : List UInt8) (h : UnfilteredStream info) :
    Clean (unitStreamData info data) := by
  obtain ⟨hl, hf⟩ := h
  unfold unitStreamData
  rcases hl with hl | ⟨n, hl⟩
  · simp [hl, Clean, Err.hasOof]
  · rcases hf with hf | hf | hf <;> simp [hl, hf, Clean] <;> split <;> simp [Err.hasOof]

/-- a `TPrim` whose stream (if it is one) is inside `unitStreamData`'s model -/
def TPrim.unfiltered : TPrim → Prop
  | .plain _ => True
  | .stream info _ => UnfilteredStream info

theorem readCidMap_clean (t : TPrim) (h : t.unfiltered) : Clean (readCidMap t) := by
  unfold readCidMap
  split
  · split <;> simp [Clean, Err.hasOof]
  · rename_i info data
    have := unitStreamData_clean info data h
    simp only [Clean] at *
    intro e
    split <;> intro hh <;> cases hh
    apply this; assumption
  · simp [Clean, Err.hasOof]

theorem readPattern_clean (rdDict : Dict → R Val) (parseOps : List UInt8 → R (List UInt8))
    (hd : ∀ d, Clean (rdDict d)) (hp : ∀ b, Clean (parseOps b)) (t : TPrim) (h : t.unfiltered) :
    Clean (readPattern rdDict parseOps t) := by
  unfold readPattern
  simp only [Clean] at *
  intro e
  split
  · split <;> intro hh <;> cases hh
    apply hd; assumption
  · rename_i info data
    have := unitStreamData_clean info data h
    simp only [Clean] at this
    repeat' split
    all_goals
      intro hh; cases hh <;>
      first | (apply this; assumption) | (apply hd; assumption) | (simp only [hasOof_tryE]; apply hp; assumption)
  · intro hh; cases hh; rfl

theorem readXObject_clean (variants : List Variant) (rdInner : String → Dict → List UInt8 → R Val)
    (hi : ∀ s d b, Clean (rdInner s d b)) (t : TPrim) : Clean (readXObject variants rdInner t) := by
  unfold readXObject
  simp only [Clean] at *
  intro e
  repeat' split
  all_goals
    intro hh; cases hh <;>
    first | rfl | (apply hi; assumption)

/-! ## Appearance entries: the nesting budget -/

theorem readStates_clean (f : APrim → R ASE) (kvs : List (String × APrim)) (h : ∀ kv ∈ kvs, Clean (f kv.2)) :
    Clean (readStates f kvs) := by
  induction kvs with
  | nil => simp [readStates, Clean]
  | cons kv r ih =>
    obtain ⟨k, v⟩ := kv
    have h1 := h (k, v) (List.mem_cons_self)
    have h2 := ih (fun kv hkv => h kv (List.mem_cons_of_mem _ hkv))
    unfold readStates
    simp only [Clean] at *
    intro e
    repeat' split
    all_goals
      intro hh; cases hh <;>
      first | (apply h1; assumption) | (apply h2; assumption)

/-- `AppearanceStreamEntry::from_primitive_depth`: for EVERY budget and every entry an answer — running out of
    budget is the error "nested too deeply", not `oof` -/
theorem readASE_clean (rdForm : Dict → List UInt8 → R Val) (hf : ∀ d b, Clean (rdForm d b)) :
    ∀ (n : Nat) (a : APrim), Clean (readASE rdForm n a) := by
  intro n
  induction n with
  | zero =>
    intro a
    cases a with
    | stream info data =>
      have := hf info data
      unfold readASE; simp only [Clean] at *; intro e
      split <;> intro hh <;> cases hh; apply this; assumption
    | dict kvs => simp [readASE, Clean, Err.hasOof]
    | other => simp [readASE, Clean, Err.hasOof]
  | succ d ih =>
    intro a
    cases a with
    | stream info data =>
      have := hf info data
      unfold readASE; simp only [Clean] at *; intro e
      split <;> intro hh <;> cases hh; apply this; assumption
    | dict kvs =>
      have := readStates_clean (fun v => readASE rdForm d v) kvs (fun kv _ => ih kv.2)
      unfold readASE; simp only [Clean] at *; intro e
      split <;> intro hh <;> cases hh; apply this; assumption
    | other => simp [readASE, Clean, Err.hasOof]

/-! ## Encoding -/

theorem readDiffs_returns {ν : Type} : ∀ (gid : Nat) (xs : List (FontEncoding.DP ν)) (m : FontEncoding.DMap ν),
    (FontEncoding.readDiffs gid xs m).Returns := by
  intro gid xs m
  fun_induction FontEncoding.readDiffs gid xs m <;> simp_all [Out.Returns]

theorem ofOut_clean {α : Type} (o : Out α) (h : o.Returns) : Clean (ofOut o) := by
  cases o <;> simp_all [ofOut, Clean, Err.hasOof, Out.Returns]

/-- the dictionary / name cases of `Encoding::from_primitive`: no reference is followed at the top -/
theorem readEncoding_nonref {env : Env} (hc : ∀ id, Clean (env.resolve id)) (n : Nat) (p : Prim)
    (hp : p.isRef = false) : Clean (readEncoding env n p) := by
  have h1 := resolve1_clean hc
  have h2 := fun xs => ofOut_clean _ (readDiffs_returns (ν := String) 0 (List.map dpOf xs) [])
  simp only [Clean] at *
  cases p with
  | ref i g => simp [Prim.isRef] at hp
  | name s => cases n <;> simp [readEncoding]
  | dict d =>
    have : ∀ e, readEncoding env n (.dict d) = .error e → e.hasOof = false := by
      cases n <;>
      · unfold readEncoding
        intro e
        repeat' split
        all_goals
          intro hh; cases hh <;>
          first | rfl | (apply h1; assumption) | (apply h2; assumption) | grind [Err.hasOof]
    exact this
  | _ => cases n <;> simp [readEncoding, Err.hasOof]

/-- `Encoding::from_primitive` on EVERY primitive: with one unit of fuel for the reference (the resolver returns
    values, `EnvOk.value`) the model never answers `oof` -/
theorem readEncoding_clean {env : Env} (he : EnvOk env) (n : Nat) (p : Prim) : Clean (readEncoding env (n + 1) p) := by
  by_cases hp : p.isRef = true
  · cases p with
    | ref id g =>
      unfold readEncoding
      cases hr : env.resolve id with
      | error e => exact clean_err e (he.clean id e hr)
      | ok q => exact readEncoding_nonref he.clean n q (he.value id q hr).1
    | created q => simp [readEncoding, Clean, Err.hasOof]
    | _ => simp [Prim.isRef] at hp
  · exact readEncoding_nonref he.clean (n + 1) p (by simpa using hp)

end Derive
