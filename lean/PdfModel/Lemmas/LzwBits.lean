import PdfModel.Model.Lzw
import PdfModel.Spec.Lzw

set_option linter.unusedSimpArgs false

/-! Bit-level facts shared by the LZW proofs: codes as `w` bits, most significant first. -/

namespace Lzw

theorem bitsOfNat_eq_spec : ∀ (w n : Nat), bitsOfNat w n = LzwSpec.bitsOfNat w n
  | 0, _ => rfl
  | w + 1, n => by simp [bitsOfNat, LzwSpec.bitsOfNat, bitsOfNat_eq_spec w n]

theorem bitsOfBytes_eq_spec (d : Bytes) : bitsOfBytes d = LzwSpec.bitsOfBytes d := by
  unfold bitsOfBytes LzwSpec.bitsOfBytes
  congr 1
  try (funext b; exact bitsOfNat_eq_spec 8 _)

theorem natOfBits_eq_spec (bs : List Bool) : natOfBits bs = LzwSpec.natOfBits bs := rfl

theorem bitsOfNat_length : ∀ (w n : Nat), (bitsOfNat w n).length = w
  | 0, _ => rfl
  | w + 1, n => by simp [bitsOfNat, bitsOfNat_length w n]

theorem foldl_bits (acc : Nat) : ∀ (bs : List Bool),
    bs.foldl (fun acc b => 2 * acc + (if b then 1 else 0)) acc = acc * 2 ^ bs.length + natOfBits bs
  | [] => by simp [natOfBits]
  | b :: bs => by
    simp only [List.foldl_cons, List.length_cons, natOfBits]
    rw [foldl_bits (2 * acc + (if b then 1 else 0)) bs, foldl_bits (2 * 0 + (if b then 1 else 0)) bs]
    simp only [Nat.mul_zero, Nat.zero_add, Nat.add_mul, Nat.pow_succ]
    rw [Nat.mul_comm 2 acc, Nat.mul_assoc, Nat.mul_comm 2 (2 ^ bs.length)]
    omega

theorem natOfBits_cons (b : Bool) (bs : List Bool) :
    natOfBits (b :: bs) = (if b then 1 else 0) * 2 ^ bs.length + natOfBits bs := by
  have := foldl_bits (2 * 0 + (if b then 1 else 0)) bs
  simpa [natOfBits] using this

theorem natOfBits_lt : ∀ (bs : List Bool), natOfBits bs < 2 ^ bs.length
  | [] => by simp [natOfBits]
  | b :: bs => by
    rw [natOfBits_cons, List.length_cons, Nat.pow_succ]
    have := natOfBits_lt bs
    cases b <;> simp <;> omega

theorem natOfBits_bitsOfNat : ∀ (w n : Nat), natOfBits (bitsOfNat w n) = n % 2 ^ w
  | 0, n => by simp [bitsOfNat, natOfBits, Nat.mod_one]
  | w + 1, n => by
    rw [bitsOfNat, natOfBits_cons, bitsOfNat_length, natOfBits_bitsOfNat w n]
    have h2 : n / 2 ^ w % 2 < 2 := Nat.mod_lt _ (by decide)
    have key : n % 2 ^ (w + 1) = (n / 2 ^ w % 2) * 2 ^ w + n % 2 ^ w := by
      rw [Nat.pow_succ, Nat.mod_mul, Nat.mul_comm (2 ^ w), Nat.add_comm]
    rw [key]
    have hbit : (if (n / 2 ^ w % 2 == 1) = true then 1 else 0) = n / 2 ^ w % 2 := by
      generalize n / 2 ^ w % 2 = x at h2
      have : x = 0 ∨ x = 1 := by omega
      rcases this with rfl | rfl <;> simp
    rw [hbit]

theorem natOfBits_bitsOfNat_of_lt {w n : Nat} (h : n < 2 ^ w) : natOfBits (bitsOfNat w n) = n := by
  rw [natOfBits_bitsOfNat, Nat.mod_eq_of_lt h]

/-- a `w`-bit string is the `w`-bit code of its value -/
theorem bitsOfNat_natOfBits : ∀ (bs : List Bool), bitsOfNat bs.length (natOfBits bs) = bs
  | [] => rfl
  | b :: bs => by
    have hlt := natOfBits_lt bs
    rw [List.length_cons, bitsOfNat, natOfBits_cons]
    have hdiv : ((if b = true then 1 else 0) * 2 ^ bs.length + natOfBits bs) / 2 ^ bs.length = (if b = true then 1 else 0) := by
      rw [Nat.mul_comm, Nat.mul_add_div (Nat.pow_pos (by decide)), Nat.div_eq_of_lt hlt, Nat.add_zero]
    have htail : bitsOfNat bs.length ((if b = true then 1 else 0) * 2 ^ bs.length + natOfBits bs) = bs := by
      have e : ∀ (w m k : Nat), bitsOfNat w (k * 2 ^ w + m) = bitsOfNat w m := by
        intro w
        induction w with
        | zero => intro m k; rfl
        | succ w ih =>
          intro m k
          simp only [bitsOfNat]
          have e1 : k * 2 ^ (w + 1) = 2 ^ w * (k * 2) := by
            rw [Nat.pow_succ, Nat.mul_comm (2 ^ w) (k * 2), Nat.mul_assoc, Nat.mul_comm 2 (2 ^ w)]
          have h1 : (k * 2 ^ (w + 1) + m) / 2 ^ w % 2 = m / 2 ^ w % 2 := by
            rw [e1, Nat.mul_add_div (Nat.pow_pos (by decide)), Nat.mul_add_mod_self_right]
          have h2 : bitsOfNat w (k * 2 ^ (w + 1) + m) = bitsOfNat w m := by
            rw [e1, Nat.mul_comm]; exact ih m (k * 2)
          rw [h1, h2]
      rw [e, bitsOfNat_natOfBits bs]
    rw [hdiv, htail]
    cases b <;> simp

end Lzw
