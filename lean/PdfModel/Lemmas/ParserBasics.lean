import PdfModel.Lemmas.Lexer
import PdfModel.Lemmas.Numbers
import PdfModel.Lemmas.Names
import PdfModel.Lemmas.Strings
import PdfModel.Model.Parser

/-! Building blocks for the parser theorems: bounds of lexemes, `set_pos`, flags, gaps as boundaries,
    the integer / reference branch. -/

namespace PdfLex
open PdfSyntax (Gap Bnd NatTok IntTok)

theorem newSubstr_bounds {buf : Buf} {a b : Nat} {w : Nat × Nat} (h : newSubstr buf a b = .ok w) :
    w.1 ≤ w.2 ∧ w.2 ≤ buf.size := by
  unfold newSubstr at h
  simp only [] at h
  split at h <;> rename_i hab <;> split at h <;> rename_i hc <;> simp at h <;> subst h <;> simp at hc <;> simp <;> omega

theorem lexemeAt_bounds {buf : Buf} {p : Nat} {w : Nat × Nat} (h : lexemeAt buf p = .ok w) :
    w.1 ≤ w.2 ∧ w.2 ≤ buf.size := by
  unfold lexemeAt at h
  split at h
  · split at h
    · simp at h
    · split at h
      · cases h1 : advancePos buf p with
        | ok q => rw [h1] at h; simp at h; exact newSubstr_bounds h
        | err => rw [h1] at h; simp at h
        | panic => rw [h1] at h; simp at h
        | oof => rw [h1] at h; simp at h
      · generalize hq : (if isDouble buf p = true then advancePos buf p else Out.ok p) = q1 at h
        cases q1 with
        | ok q =>
          simp at h
          cases h2 : advancePos buf q with
          | ok q2 => rw [h2] at h; simp at h; exact newSubstr_bounds h
          | err => rw [h2] at h; simp at h
          | panic => rw [h2] at h; simp at h
          | oof => rw [h2] at h; simp at h
        | err => simp at h
        | panic => simp at h
        | oof => simp at h
  · exact newSubstr_bounds h

theorem nextWord_bounds {buf : Buf} {p : Nat} {w : Nat × Nat} (h : nextWord buf p = .ok w) :
    w.1 ≤ w.2 ∧ w.2 ≤ buf.size := by
  unfold nextWord at h
  split at h
  · simp at h
  · cases h1 : tokenStart buf p with
    | ok q => rw [h1] at h; simp at h; exact lexemeAt_bounds h
    | err => rw [h1] at h; simp at h
    | panic => rw [h1] at h; simp at h
    | oof => rw [h1] at h; simp at h

theorem setPos_ok {buf : Buf} {cur p : Nat} (h1 : cur ≤ buf.size) (h2 : p ≤ buf.size) : setPos buf cur p = .ok p := by
  unfold setPos
  have hm : min p buf.size = p := by omega
  simp only [hm]
  split
  · rw [newSubstr_ok (by omega) h2]; rfl
  · rw [newSubstr_ok (by omega) h1]; rfl

theorem offsetPos_ok {buf : Buf} {pos k : Nat} (h : pos + k ≤ buf.size) (hs : buf.size ≤ 2147483647) :
    offsetPos buf pos k = .ok (pos + k) := by
  unfold offsetPos
  have : (pos + k) % (usizeMax + 1) = pos + k := by
    apply Nat.mod_eq_of_lt; unfold usizeMax; omega
  rw [this]
  exact setPos_ok (by omega) h

theorem check_any (x : Nat) (h : Flags.any &&& x ≠ 0) : check Flags.any x = .ok () := by
  simp [check, h]

theorem remainingStart_ok {buf : Buf} {pos : Nat} (h : pos ≤ buf.size) : remainingStart buf pos = .ok pos := by
  simp [remainingStart]; omega

/-! ### gaps and boundaries -/

theorem gap_head {g : List UInt8} (hg : Gap g) (hne : g ≠ []) : ∃ b r, g = b :: r ∧ (PdfSyntax.isWs b = true ∨ b = 37) := by
  cases hg with
  | nil => exact absurd rfl hne
  | ws b g hb _ => exact ⟨b, g, rfl, Or.inl hb⟩
  | comment body e g _ _ _ => exact ⟨37, _, rfl, Or.inr rfl⟩

theorem ws_not_reg : ∀ b, PdfSyntax.isWs b = true → PdfSyntax.isReg b = false := by decide +kernel

theorem gap_bnd {g : List UInt8} (hg : Gap g) (hne : g ≠ []) (s : List UInt8) : Bnd (g ++ s) := by
  obtain ⟨b, r, rfl, hb⟩ := gap_head hg hne
  simp only [List.cons_append, Bnd]
  rcases hb with hb | rfl
  · exact ws_not_reg b hb
  · decide

theorem regular_startsTok : ∀ b, isRegular b = true → isWhitespace b = false ∧ b ≠ 37 := by decide +kernel

theorem startsTok_of_regular (b : UInt8) (r : List UInt8) (h : isRegular b = true) : StartsTok (b :: r) :=
  ⟨b, r, rfl, (regular_startsTok b h).1, (regular_startsTok b h).2⟩

theorem gap_append {g1 g2 : List UInt8} (h1 : Gap g1) (h2 : Gap g2) : Gap (g1 ++ g2) := by
  induction h1 with
  | nil => simpa using h2
  | ws b g hb _ ih => simpa using Gap.ws b _ hb ih
  | comment body e g hb he _ ih =>
    have := Gap.comment body e _ hb he ih
    simpa using this

/-- lexeme after a gap -/
theorem next_gap {buf : Buf} (g s : List UInt8) (hg : Gap g) (hs : StartsTok s) (pos : Nat)
    (h : Suffix buf pos (g ++ s)) : next buf pos = lexemeAt buf (pos + g.length) :=
  nextWord_gap g s hg hs pos h

theorem peek_ok {buf : Buf} {pos : Nat} {w : Nat × Nat} (h : nextWord buf pos = .ok w) : peek buf pos = .ok w := by
  simp [peek, h]

end PdfLex
