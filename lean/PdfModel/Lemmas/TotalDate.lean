import PdfModel.Model.DateRead
import PdfModel.Lemmas.Lexer
import PdfModel.Lemmas.TotalParser   -- also: both files split on `utf8Valid`; the generated matcher lemmas must not be made twice

/-!
  `Date::from_primitive` never panics (C01): the three slicing expressions that would panic off a character boundary
  are only reached with the index of an ASCII byte of a validated UTF-8 string, and both sides of an ASCII byte are
  boundaries.
-/

namespace DateRead
open PdfLex

theorem sign_ascii : ∀ b : UInt8, isSign b = true → b < 128 := by decide +kernel

theorem ascii_not_cont : ∀ b : UInt8, b < 128 → isCont b = false := by decide +kernel

theorem lead2_not_ascii : ∀ b : UInt8, (194 ≤ b && b ≤ 223) = true → ¬ b < 128 := by decide +kernel
theorem lead3_not_ascii : ∀ b : UInt8, (224 ≤ b && b ≤ 239) = true → ¬ b < 128 := by decide +kernel
theorem lead4_not_ascii : ∀ b : UInt8, (240 ≤ b && b ≤ 244) = true → ¬ b < 128 := by decide +kernel
theorem cont_not_ascii : ∀ b : UInt8, isCont b = true → ¬ b < 128 := by decide +kernel
theorem lead2_not_cont : ∀ b : UInt8, (194 ≤ b && b ≤ 223) = true → isCont b = false := by decide +kernel
theorem lead3_not_cont : ∀ b : UInt8, (224 ≤ b && b ≤ 239) = true → isCont b = false := by decide +kernel
theorem lead4_not_cont : ∀ b : UInt8, (240 ≤ b && b ≤ 244) = true → isCont b = false := by decide +kernel
theorem r1_cont : ∀ b : UInt8, (160 ≤ b && b ≤ 191) = true → isCont b = true := by decide +kernel
theorem r2_cont : ∀ b : UInt8, (128 ≤ b && b ≤ 159) = true → isCont b = true := by decide +kernel
theorem r3_cont : ∀ b : UInt8, (144 ≤ b && b ≤ 191) = true → isCont b = true := by decide +kernel
theorem r4_cont : ∀ b : UInt8, (128 ≤ b && b ≤ 143) = true → isCont b = true := by decide +kernel

/-- a well-formed string does not start with a continuation byte -/
theorem utf8_head (b : UInt8) (r : Bytes) (h : utf8Valid (b :: r) = true) : isCont b = false := by
  unfold utf8Valid at h
  split at h
  · exact ascii_not_cont b ‹_›
  · split at h
    · exact lead2_not_cont b ‹_›
    · split at h
      · exact lead3_not_cont b ‹_›
      · split at h
        · exact lead4_not_cont b ‹_›
        · cases h

/-- in a well-formed string the byte after an ASCII byte is not a continuation byte -/
theorem after_ascii : ∀ (s : Bytes), utf8Valid s = true → ∀ (p : Nat) (b b' : UInt8), s[p]? = some b → b < 128 →
    s[p + 1]? = some b' → isCont b' = false := by
  intro s
  fun_induction utf8Valid s with
  | case1 => intro _ p b b' h; simp at h
  | case2 b0 rest h0 ih =>
    intro hv p b b' hp hb hp'
    cases p with
    | zero =>
      cases rest with
      | nil => simp at hp'
      | cons c r => simp at hp'; subst hp'; exact utf8_head c r hv
    | succ p => exact ih hv p b b' (by simpa using hp) hb (by simpa using hp')
  | case3 b0 h0 h1 b1 r ih =>
    intro hv p b b' hp hb hp'
    simp only [Bool.and_eq_true] at hv
    match p with
    | 0 => simp at hp; subst hp; exact absurd hb (lead2_not_ascii _ h1)
    | 1 => simp at hp; subst hp; exact absurd hb (cont_not_ascii _ hv.1)
    | p + 2 => exact ih hv.2 p b b' (by simpa using hp) hb (by simpa using hp')
  | case4 => intro hv; cases hv
  | case5 b0 h0 h1 h2 b1 b2 r ih =>
    intro hv p b b' hp hb hp'
    simp only [Bool.and_eq_true] at hv
    have c1 : isCont b1 = true := by
      obtain ⟨⟨hh, _⟩, _⟩ := hv
      split at hh
      · exact r1_cont _ hh
      · split at hh
        · exact r2_cont _ hh
        · exact hh
    match p with
    | 0 => simp at hp; subst hp; exact absurd hb (lead3_not_ascii _ h2)
    | 1 => simp at hp; subst hp; exact absurd hb (cont_not_ascii _ c1)
    | 2 => simp at hp; subst hp; exact absurd hb (cont_not_ascii _ hv.1.2)
    | p + 3 => exact ih hv.2 p b b' (by simpa using hp) hb (by simpa using hp')
  | case6 => intro hv; cases hv
  | case7 b0 h0 h1 h2 h3 b1 b2 b3 r ih =>
    intro hv p b b' hp hb hp'
    simp only [Bool.and_eq_true] at hv
    have c1 : isCont b1 = true := by
      obtain ⟨⟨⟨hh, _⟩, _⟩, _⟩ := hv
      split at hh
      · exact r3_cont _ hh
      · split at hh
        · exact r4_cont _ hh
        · exact hh
    match p with
    | 0 => simp at hp; subst hp; exact absurd hb (lead4_not_ascii _ h3)
    | 1 => simp at hp; subst hp; exact absurd hb (cont_not_ascii _ c1)
    | 2 => simp at hp; subst hp; exact absurd hb (cont_not_ascii _ hv.1.1.2)
    | 3 => simp at hp; subst hp; exact absurd hb (cont_not_ascii _ hv.1.2)
    | p + 4 => exact ih hv.2 p b b' (by simpa using hp) hb (by simpa using hp')
  | case8 => intro hv; cases hv
  | case9 => intro hv; cases hv

theorem findSign_spec : ∀ (s : Bytes) (p : Nat), findSign s = some p → ∃ b, s[p]? = some b ∧ isSign b = true := by
  intro s
  induction s with
  | nil => intro p h; simp [findSign] at h
  | cons c r ih =>
    intro p h
    unfold findSign at h
    split at h
    · cases h; exact ⟨c, by simp, ‹_›⟩
    · cases hr : findSign r with
      | none => simp [hr] at h
      | some q =>
        simp [hr] at h; subst h
        obtain ⟨b, hb, hs⟩ := ih q hr
        exact ⟨b, by simpa using hb, hs⟩

theorem sign_rel : ∀ b : UInt8, isSign b = true → ([b] == [45] || [b] == [43] || [b] == [90]) = true := by
  decide +kernel

theorem isBoundary_zero (s : Bytes) : isBoundary s 0 = true := by simp [isBoundary]

theorem isBoundary_len (s : Bytes) : isBoundary s s.length = true := by simp [isBoundary]

/-- both sides of an ASCII byte of a well-formed string are character boundaries -/
theorem boundary_around_ascii (s : Bytes) (hv : utf8Valid s = true) (p : Nat) (b : UInt8) (hp : s[p]? = some b)
    (hb : b < 128) : isBoundary s p = true ∧ isBoundary s (p + 1) = true := by
  constructor
  · simp [isBoundary, hp, ascii_not_cont b hb]
  · cases hq : s[p + 1]? with
    | none =>
      have h1 : p < s.length := by
        rcases Nat.lt_or_ge p s.length with h | h
        · exact h
        · rw [List.getElem?_eq_none h] at hp; cases hp
      have h2 : s.length ≤ p + 1 := by
        rcases Nat.lt_or_ge (p + 1) s.length with h | h
        · rw [List.getElem?_eq_getElem h] at hq; cases hq
        · exact h
      have : p + 1 = s.length := by omega
      rw [this]; exact isBoundary_len s
    | some b' => simp [isBoundary, hq, after_ascii s hv p b b' hp hb hq]

/-- `Date::from_primitive` on EVERY byte string: no slicing panic, the `unreachable!()` is unreachable -/
theorem readDate_total (data : Bytes) : (readDate data).Returns := by
  unfold readDate
  split
  · simp [Out.Returns]
  · rename_i hv
    have hv : utf8Valid data = true := by simpa using hv
    split
    · simp [Out.Returns]
    · split
      · simp [Out.Returns]
      · split
        · simp [Out.Returns]
        · split
          · simp [Out.Returns]
          · rename_i p hp
            obtain ⟨b, hb, hs⟩ := findSign_spec data p hp
            obtain ⟨b1, b2⟩ := boundary_around_ascii data hv p b hb (sign_ascii b hs)
            have hlt : p < data.length := by
              rcases Nat.lt_or_ge p data.length with h | h
              · exact h
              · rw [List.getElem?_eq_none h] at hb; cases hb
            have hc : strIndex data p (p + 1) = .ok [b] := by
              have : List.take 1 (List.drop p data) = [b] := by
                rw [List.getElem?_eq_getElem hlt] at hb
                cases hb
                rw [List.drop_eq_getElem_cons hlt]; simp [List.take]
              simp [strIndex, strGet, b1, b2, this]
            have ht : strIndex data 0 p = .ok (data.take p) := by
              simp [strIndex, strGet, b1, isBoundary_zero]
            have hz : strIndex data (p + 1) data.length = .ok (data.drop (p + 1)) := by
              have : p + 1 ≤ data.length := hlt
              have h2 : List.take (List.length data - (p + 1)) (List.drop (p + 1) data) = List.drop (p + 1) data :=
                List.take_of_length_le (by simp)
              simp [strIndex, strGet, b2, isBoundary_len, this, h2]
            rw [hc, ht, hz]
            have hr := sign_rel b hs
            simp only [Bool.or_eq_true] at hr
            unfold relOf
            rcases hr with (hr | hr) | hr
            · simp [hr, Out.Returns]
            · by_cases h1 : ([b] == [45]) = true <;> simp [h1, hr, Out.Returns]
            · by_cases h1 : ([b] == [45]) = true <;> by_cases h2 : ([b] == [43]) = true <;>
                simp [h1, h2, hr, Out.Returns]

theorem digitsVal_le (max : Nat) : ∀ (s : Bytes) (acc v : Nat), acc ≤ max → digitsVal? max s acc = some v → v ≤ max := by
  intro s
  induction s with
  | nil => intro acc v h hv; simp [digitsVal?] at hv; omega
  | cons c r ih =>
    intro acc v h hv
    unfold digitsVal? at hv
    split at hv
    · simp only [] at hv
      split at hv
      · cases hv
      · exact ih _ v (by omega) hv
    · cases hv

/-- what `parse::<uN>` returns fits the type -/
theorem parseUnsigned_le (max : Nat) (s : Bytes) (v : Nat) (h : parseUnsigned max s = some v) : v ≤ max := by
  unfold parseUnsigned at h
  split at h
  · cases h
  · split at h
    · cases h
    · exact digitsVal_le max _ 0 v (Nat.zero_le _) h
  · split at h <;> exact digitsVal_le max _ 0 v (Nat.zero_le _) h

theorem parseOr_le (s : Bytes) (a b d : Nat) (hd : d ≤ 255) : parseOr s a b d ≤ 255 := by
  unfold parseOr
  split
  · rename_i t _
    cases hp : parseUnsigned 255 t with
    | none => simpa using hd
    | some v => simpa using parseUnsigned_le 255 t v hp
  · exact hd

theorem relOf_le (c : Bytes) (r : Nat) (h : relOf c = .ok r) : r ≤ 2 := by
  unfold relOf at h
  repeat' split at h
  all_goals cases h
  all_goals omega

/-- what a successful read is made of -/
theorem readDate_ok_form (data : Bytes) (d : Derive.Date) (h : readDate data = .ok d) :
    ∃ (y : Bytes) (year : Nat) (time : Bytes) (rel : Nat) (zone : Bytes),
      parseUnsigned 65535 y = some year ∧ rel ≤ 2 ∧ d = finish year time rel zone := by
  unfold readDate at h
  split at h
  · cases h
  · split at h
    · cases h
    · split at h
      · cases h
      · rename_i y _
        split at h
        · cases h
        · rename_i year hy
          split at h
          · cases h; exact ⟨y, year, data, 2, [], hy, by omega, rfl⟩
          · split at h
            · rename_i c _
              split at h
              · rename_i rel hrel
                split at h
                · rename_i time zone _ _
                  cases h
                  exact ⟨y, year, time, rel, zone, hy, relOf_le c rel hrel, rfl⟩
                · cases h
              · cases h
            · cases h

/-- the fields of a date that was read fit their types (`u16`, `u8`; `TimeRel` has three values) -/
theorem readDate_bounds (data : Bytes) (d : Derive.Date) (h : readDate data = .ok d) :
    d.year ≤ 65535 ∧ d.month ≤ 255 ∧ d.day ≤ 255 ∧ d.hour ≤ 255 ∧ d.minute ≤ 255 ∧ d.second ≤ 255 ∧
    d.rel ≤ 2 ∧ d.tzHour ≤ 255 ∧ d.tzMinute ≤ 255 := by
  obtain ⟨y, year, time, rel, zone, hy, hr, rfl⟩ := readDate_ok_form data d h
  simp only [finish]
  exact ⟨parseUnsigned_le 65535 y year hy, parseOr_le _ _ _ _ (by decide), parseOr_le _ _ _ _ (by decide),
    parseOr_le _ _ _ _ (by decide), parseOr_le _ _ _ _ (by decide), parseOr_le _ _ _ _ (by decide), hr,
    parseOr_le _ _ _ _ (by decide), parseOr_le _ _ _ _ (by decide)⟩

end DateRead
