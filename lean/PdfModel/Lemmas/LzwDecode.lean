import PdfModel.Lemmas.LzwBits

set_option linter.unusedSimpArgs false
set_option linter.unusedVariables false

/-! The LZW decoder inverts every conforming encoding: simulation between the encoder's table (which is one
    entry ahead while `fresh`) and the decoder's table. -/

namespace Lzw
open LzwSpec (EncSt encInit widthFor codeWidth IsCodeOf advance Codes bitsOfCodes EncodesToLzw)

theorem widthFor_ge (early : Bool) (n : Nat) : 9 ≤ widthFor early n ∧ widthFor early n ≤ 12 := by
  unfold widthFor; dsimp only; (repeat' split) <;> omega

/-- a code up to `n` fits into the width used while the next free code is `n` -/
theorem lt_pow_widthFor (early : Bool) {c n : Nat} (hc : c ≤ n) (hn : n ≤ 4095) : c < 2 ^ widthFor early n := by
  unfold widthFor; dsimp only
  cases early <;> simp only [Bool.false_eq_true, if_false, if_true, Nat.add_zero] <;>
    (repeat' split) <;> simp only [Nat.reducePow] <;> omega

theorem widthFor_full (early : Bool) : widthFor early 4096 = 12 := by cases early <;> decide

/-- weezl's stateful `bump_code_size` rule computes the closed form -/
theorem bump_eq (early : Bool) (n : Nat) (h1 : 258 ≤ n) (h2 : n < 4096) :
    (if n ≥ 2 ^ widthFor early n - 1 - (if early then 1 else 0) ∧ widthFor early n < 12 then widthFor early n + 1
      else widthFor early n) = widthFor early (n + 1) := by
  unfold widthFor; dsimp only
  cases early <;> simp only [Bool.false_eq_true, if_false, if_true, Nat.add_zero] <;>
    (repeat' split) <;> simp only [Nat.reducePow] at * <;> omega

/-- the simulation invariant between the encoder state `e`, the decoder state `d` and the bytes `bs`
    that are still to be encoded -/
structure Sim (early : Bool) (e : EncSt) (d : St) (bs : Bytes) : Prop where
  width : d.width = widthFor early (nextCode d)
  size : d.table.length ≤ 3838
  nonempty : ∀ p, d.prev = some p → p ≠ []
  rel : (e.fresh = true ∧ ∃ p c bs', d.prev = some p ∧ bs = c :: bs' ∧ e.table = d.table ++ [p ++ [c]] ∧
            d.table.length < 3838)
        ∨ (e.fresh = false ∧ e.table = d.table ∧ (d.prev = none ∨ d.table.length = 3838 ∨ bs = []))

theorem sim_init (early : Bool) (bs : Bytes) : Sim early encInit initSt bs := by
  refine ⟨?_, by simp [initSt], by simp [initSt], Or.inr ⟨rfl, rfl, Or.inl rfl⟩⟩
  cases early <;> decide

theorem sim_codeWidth {early : Bool} {e : EncSt} {d : St} {bs : Bytes} (h : Sim early e d bs) :
    codeWidth early e = d.width := by
  rw [h.width]
  unfold codeWidth nextCode
  rcases h.rel with ⟨hf, p, c, bs', _, _, he, _⟩ | ⟨hf, he, _⟩
  · simp [hf, he]
  · simp [hf, he]

theorem entry_single (T : List Bytes) (b : UInt8) : entry T b.toNat = some [b] := by
  have : b.toNat < 256 := by have := b.toNat_lt_size; simpa [UInt8.size] using this
  simp [entry, this]

theorem entry_index (T : List Bytes) (i : Nat) : entry T (258 + i) = T[i]? := by
  unfold entry
  rw [if_neg (by omega), if_neg (by omega)]
  have : 258 + i - 258 = i := by omega
  rw [this]


theorem take_len_append {α : Type} (l m : List α) : (l ++ m).take l.length = l := by simp
theorem drop_len_append {α : Type} (l m : List α) : (l ++ m).drop l.length = m := by simp

theorem take_bits_append (w c : Nat) (more : List Bool) : (bitsOfNat w c ++ more).take w = bitsOfNat w c := by
  have := take_len_append (bitsOfNat w c) more
  rwa [bitsOfNat_length] at this

theorem drop_bits_append (w c : Nat) (more : List Bool) : (bitsOfNat w c ++ more).drop w = more := by
  have := drop_len_append (bitsOfNat w c) more
  rwa [bitsOfNat_length] at this

theorem bitsOfCodes_cons (w c : Nat) (cs : List (Nat × Nat)) :
    bitsOfCodes ((w, c) :: cs) = bitsOfNat w c ++ bitsOfCodes cs := by
  simp [bitsOfCodes, bitsOfNat_eq_spec]

/-- one iteration of the loop on a well-formed code -/
theorem loop_step (early : Bool) (fuel : Nat) (d : St) (c : Nat) (more : List Bool) (hc : c < 2 ^ d.width) :
    loop early (fuel + 1) d (bitsOfNat d.width c ++ more) =
      match stepCode early d c with
      | .done => .ok []
      | .invalid => .err
      | .cont st' out =>
        match loop early fuel st' more with
        | .ok rest => .ok (out ++ rest)
        | o => o := by
  rw [loop]
  simp only [take_bits_append, drop_bits_append, bitsOfNat_length, Nat.lt_irrefl, if_false,
    natOfBits_bitsOfNat_of_lt hc]
  rfl

theorem headD_append_ne {p : Bytes} (hp : p ≠ []) (x : Bytes) : (p ++ x).headD 0 = p.headD 0 := by
  cases p with
  | nil => exact absurd rfl hp
  | cons a t => rfl

/-- what the simulation invariant says about the code the encoder emits for the phrase `s` -/
theorem code_facts {early : Bool} {e : EncSt} {d : St} {s rest : Bytes} {c : Nat}
    (hs : Sim early e d (s ++ rest)) (hne : s ≠ []) (hcode : IsCodeOf e.table s c) :
    c ≠ 256 ∧ c ≠ 257 ∧ c ≤ nextCode d ∧ (c < nextCode d ∨ nextCode d ≤ 4095) ∧
    (c < nextCode d → entry d.table c = some s) ∧
    (c = nextCode d → ∃ p, d.prev = some p ∧ s = p ++ [p.headD 0] ∧ d.table.length < 3838) := by
  rcases hcode with ⟨b, rfl, rfl⟩ | ⟨i, hi, rfl⟩
  · have hb : b.toNat < 256 := by have := b.toNat_lt_size; simpa [UInt8.size] using this
    refine ⟨by omega, by omega, by unfold nextCode; omega, Or.inl (by unfold nextCode; omega), fun _ => entry_single _ b, ?_⟩
    intro h; unfold nextCode at h; omega
  · rcases hs.rel with ⟨hf1, p, c0, bs', hprev, hbs, hE, hlt⟩ | ⟨hf0, hE, hcase⟩
    · rw [hE] at hi
      have hpne := hs.nonempty p hprev
      by_cases hlt' : i < d.table.length
      · rw [List.getElem?_append_left hlt'] at hi
        refine ⟨by omega, by omega, by unfold nextCode; omega, Or.inl (by unfold nextCode; omega), fun _ => by rw [entry_index]; exact hi, ?_⟩
        intro h; unfold nextCode at h; omega
      · have hi' : i = d.table.length := by
          by_cases hgt : i = d.table.length
          · exact hgt
          · have : (d.table ++ [p ++ [c0]])[i]? = none := by
              apply List.getElem?_eq_none; simp; omega
            rw [this] at hi; cases hi
        subst hi'
        simp at hi
        have hs0 : s.headD 0 = c0 := by
          cases s with
          | nil => exact absurd rfl hne
          | cons a t => simp at hbs; simp [hbs.1]
        have hc0 : c0 = p.headD 0 := by
          rw [← hs0, ← hi, headD_append_ne hpne]
        refine ⟨by omega, by omega, by unfold nextCode; omega, Or.inr (by unfold nextCode; omega), fun h => by unfold nextCode at h; omega, ?_⟩
        intro _
        exact ⟨p, hprev, by rw [← hi, hc0], hlt⟩
    · rw [hE] at hi
      have hlt' : i < d.table.length := by
        by_cases h : i < d.table.length
        · exact h
        · rw [List.getElem?_eq_none (by omega)] at hi; cases hi
      refine ⟨by omega, by omega, by unfold nextCode; omega, Or.inl (by unfold nextCode; omega), fun _ => by rw [entry_index]; exact hi, ?_⟩
      intro h; unfold nextCode at h; omega

theorem code_lt_pow {early : Bool} {d : St} {c : Nat} (hw : d.width = widthFor early (nextCode d))
    (hsz : d.table.length ≤ 3838) (h1 : c ≤ nextCode d) (h2 : c < nextCode d ∨ nextCode d ≤ 4095) : c < 2 ^ d.width := by
  rw [hw]
  by_cases h : nextCode d ≤ 4095
  · exact lt_pow_widthFor early h1 h
  · have : nextCode d = 4096 := by unfold nextCode at *; omega
    rw [this, widthFor_full]
    rcases h2 with h2 | h2
    · rw [this] at h2; simpa using h2
    · omega

theorem headD_of_append_eq {s rest bs' : Bytes} {c0 : UInt8} (hne : s ≠ []) (h : s ++ rest = c0 :: bs') : s.headD 0 = c0 := by
  cases s with
  | nil => exact absurd rfl hne
  | cons a t => simp at h; simp [h.1]

/-- the simulation invariant is re-established after a phrase when the decoder did not add an entry -/
theorem sim_advance_same {early : Bool} {e : EncSt} {d : St} {s rest : Bytes} (hne : s ≠ [])
    (hw : d.width = widthFor early (nextCode d)) (hsz : d.table.length ≤ 3838) (hE : e.table = d.table)
    (hfull : d.prev = none ∨ d.table.length = 3838) (hprevfull : d.prev ≠ none → d.table.length = 3838) :
    Sim early (advance e s rest) { d with prev := some s } rest := by
  refine ⟨hw, hsz, by intro p hp; simp at hp; subst hp; exact hne, ?_⟩
  cases rest with
  | nil => exact Or.inr ⟨rfl, hE, Or.inr (Or.inr rfl)⟩
  | cons c1 rest' =>
    unfold advance
    by_cases hroom : 258 + e.table.length < 4096
    · simp only [hroom, if_true]
      refine Or.inl ⟨by simp, s, c1, rest', rfl, rfl, by simp [hE], by rw [hE] at hroom; omega⟩
    · simp only [hroom, if_false]
      exact Or.inr ⟨by simp, hE, Or.inr (Or.inl (by rw [hE] at hroom; omega))⟩

/-- … and when it added the entry the encoder had created one code earlier -/
theorem sim_advance_added {early : Bool} {e : EncSt} {d : St} {s rest p : Bytes} {c0 : UInt8} (hne : s ≠ [])
    (hw : d.width = widthFor early (nextCode d)) (hlt : d.table.length < 3838) (hE : e.table = d.table ++ [p ++ [c0]]) :
    Sim early (advance e s rest)
      { table := d.table ++ [p ++ [c0]],
        width := if nextCode d ≥ 2 ^ d.width - 1 - (if early then 1 else 0) ∧ d.width < 12 then d.width + 1 else d.width,
        prev := some s } rest := by
  refine ⟨?_, by simp; omega, by intro q hq; simp at hq; subst hq; exact hne, ?_⟩
  · have := bump_eq early (nextCode d) (by unfold nextCode; omega) (by unfold nextCode; omega)
    rw [← hw] at this
    simp only [nextCode] at this ⊢
    rw [this]; simp [Nat.add_assoc]
  · cases rest with
    | nil => exact Or.inr ⟨rfl, hE, Or.inr (Or.inr rfl)⟩
    | cons c1 rest' =>
      unfold advance
      by_cases hroom : 258 + e.table.length < 4096
      · simp only [hroom, if_true]
        refine Or.inl ⟨by simp, s, c1, rest', rfl, rfl, by simp [hE], ?_⟩
        rw [hE] at hroom; simp at hroom ⊢; omega
      · simp only [hroom, if_false]
        refine Or.inr ⟨by simp, hE, Or.inr (Or.inl ?_)⟩
        rw [hE] at hroom; simp at hroom ⊢; omega

/-- **simulation**: from related states the decoder loop returns exactly the bytes the encoder consumed -/
theorem loop_of_codes (early : Bool) {e : EncSt} {bs : Bytes} {cs : List (Nat × Nat)} (h : Codes early e bs cs) :
    ∀ (d : St) (fuel : Nat) (tail : List Bool), Sim early e d bs → cs.length ≤ fuel →
      loop early fuel d (bitsOfCodes cs ++ tail) = .ok bs := by
  induction h with
  | @eod e =>
    intro d fuel tail hs hf
    cases fuel with
    | zero => simp at hf
    | succ f =>
      rw [sim_codeWidth hs, bitsOfCodes_cons, List.append_assoc]
      have hw := widthFor_ge early (nextCode d)
      have hc : 257 < 2 ^ d.width := by
        rw [hs.width]
        calc 257 < 2 ^ 9 := by decide
          _ ≤ 2 ^ widthFor early (nextCode d) := Nat.pow_le_pow_right (by decide) hw.1
      rw [loop_step early f d 257 _ hc]
      unfold stepCode
      cases hp : d.prev with
      | none => simp [nextCode, show ¬ (258 + d.table.length ≤ 257) by omega]
      | some p => simp
  | @clear e bs cs hcs ih =>
    intro d fuel tail hs hf
    cases fuel with
    | zero => simp at hf
    | succ f =>
      rw [sim_codeWidth hs, bitsOfCodes_cons, List.append_assoc]
      have hw := widthFor_ge early (nextCode d)
      have hc : 256 < 2 ^ d.width := by
        rw [hs.width]
        calc 256 < 2 ^ 9 := by decide
          _ ≤ 2 ^ widthFor early (nextCode d) := Nat.pow_le_pow_right (by decide) hw.1
      rw [loop_step early f d 256 _ hc]
      have hstep : stepCode early d 256 = .cont initSt [] := by
        unfold stepCode
        cases hp : d.prev with
        | none => simp [nextCode]; omega
        | some p => simp
      rw [hstep]
      simp only
      rw [ih initSt f tail (sim_init early bs) (by simp at hf; omega)]
      simp
  | @phrase e s rest c cs hne hcode hcs ih =>
    intro d fuel tail hs hf
    cases fuel with
    | zero => simp at hf
    | succ f =>
      rw [sim_codeWidth hs, bitsOfCodes_cons, List.append_assoc]
      obtain ⟨hn256, hn257, hle, hlt4095, hentry, hkw⟩ := code_facts hs hne hcode
      have hc := code_lt_pow hs.width hs.size hle hlt4095
      rw [loop_step early f d c _ hc]
      have hstep : ∃ d', stepCode early d c = .cont d' s ∧ Sim early (advance e s rest) d' rest := by
        rcases hs.rel with ⟨hf1, p, c0, bs', hprev, hbs, hE, hlt⟩ | ⟨hf0, hE, hcase⟩
        · -- the encoder is one entry ahead
          have hpne := hs.nonempty p hprev
          have hs0 := headD_of_append_eq hne hbs
          have hword : (if c = nextCode d then some (p ++ [p.headD 0]) else entry d.table c) = some s := by
            by_cases hcn : c = nextCode d
            · obtain ⟨p', hp', hs', _⟩ := hkw hcn
              rw [hprev] at hp'; cases hp'
              simp [hcn, hs']
            · simp only [hcn, if_false]
              exact hentry (by omega)
          refine ⟨_, ?_, sim_advance_added (s := s) (rest := rest) hne hs.width hlt hE⟩
          unfold stepCode
          simp only [hprev, hn256, hn257, if_false, show ¬ c > nextCode d by omega, hword,
            show nextCode d < 4096 by unfold nextCode; omega, if_true, hs0]
        · have hbsne : s ++ rest ≠ [] := by simp [hne]
          cases hp : d.prev with
          | none =>
            have hlt : c < nextCode d := by
              rcases Nat.lt_or_ge c (nextCode d) with h | h
              · exact h
              · obtain ⟨p', hp', _⟩ := hkw (by omega)
                rw [hp] at hp'; cases hp'
            refine ⟨_, ?_, sim_advance_same (s := s) (rest := rest) hne hs.width hs.size hE (Or.inl hp) (by intro h; exact absurd hp h)⟩
            unfold stepCode
            simp only [hp, show ¬ c ≥ nextCode d by omega, hn256, hn257, if_false, hentry hlt]
          | some p =>
            have hfull : d.table.length = 3838 := by
              rcases hcase with h | h | h
              · rw [hp] at h; cases h
              · exact h
              · exact absurd h hbsne
            have hlt : c < nextCode d := by
              rcases Nat.lt_or_ge c (nextCode d) with h | h
              · exact h
              · obtain ⟨p', _, _, hl⟩ := hkw (by omega)
                omega
            refine ⟨_, ?_, sim_advance_same (s := s) (rest := rest) hne hs.width hs.size hE (Or.inr hfull) (fun _ => hfull)⟩
            unfold stepCode
            simp only [hp, hn256, hn257, if_false, show ¬ c > nextCode d by omega, show ¬ c = nextCode d by omega,
              hentry hlt, show ¬ nextCode d < 4096 by unfold nextCode; omega]
      obtain ⟨d', hst, hsim'⟩ := hstep
      rw [hst]
      simp only
      rw [ih d' f tail hsim' (by simp at hf; omega)]

theorem codes_bits_length {early : Bool} {e : EncSt} {bs : Bytes} {cs : List (Nat × Nat)} (h : Codes early e bs cs) :
    cs.length ≤ (bitsOfCodes cs).length := by
  induction h with
  | @eod e =>
    rw [bitsOfCodes_cons, List.length_append, bitsOfNat_length]
    have := (widthFor_ge early (258 + e.table.length - (if e.fresh then 1 else 0))).1
    simp only [codeWidth, List.length_cons, List.length_nil]; omega
  | @clear e bs cs _ ih =>
    rw [bitsOfCodes_cons, List.length_append, bitsOfNat_length]
    have := (widthFor_ge early (258 + e.table.length - (if e.fresh then 1 else 0))).1
    simp only [codeWidth, List.length_cons] at *; omega
  | @phrase e s rest c cs _ _ _ ih =>
    rw [bitsOfCodes_cons, List.length_append, bitsOfNat_length]
    have := (widthFor_ge early (258 + e.table.length - (if e.fresh then 1 else 0))).1
    simp only [codeWidth, List.length_cons] at *; omega

theorem bitsOfBytes_length (d : Bytes) : (bitsOfBytes d).length = 8 * d.length := by
  induction d with
  | nil => rfl
  | cons b t ih =>
    simp only [bitsOfBytes, List.flatMap_cons, List.length_append, bitsOfNat_length, List.length_cons] at *
    omega

/-- **the decoder inverts every conforming LZW encoding**, for both EarlyChange values, any choice of
    phrases and of clear-table codes, whatever follows the EOD code -/
theorem decode_of_encodesToLzw (early : Bool) {bs text : Bytes} (h : EncodesToLzw early bs text) :
    decode early text = .ok bs := by
  obtain ⟨cs, tail, hc, hb⟩ := h
  unfold decode
  rw [bitsOfBytes_eq_spec, hb]
  apply loop_of_codes early hc initSt _ tail (sim_init early bs)
  have h1 := codes_bits_length hc
  have h2 : (bitsOfCodes cs ++ tail).length = 8 * text.length := by
    rw [← hb, ← bitsOfBytes_eq_spec, bitsOfBytes_length]
  rw [List.length_append] at h2
  omega

theorem stepCode_width {early : Bool} {st st' : St} {c : Nat} {out : Bytes} (h : stepCode early st c = .cont st' out)
    (hw : 1 ≤ st.width) : 1 ≤ st'.width := by
  unfold stepCode at h
  split at h
  · split at h
    · cases h
    · split at h
      · cases h; simp [initSt]
      · split at h
        · cases h
        · split at h
          · cases h; exact hw
          · cases h
  · split at h
    · cases h; simp [initSt]
    · split at h
      · cases h
      · split at h
        · cases h
        · dsimp only at h
          split at h
          · cases h
          · split at h
            · cases h
              have : ∀ (P : Prop) [Decidable P], 1 ≤ (if P then st.width + 1 else st.width) := by
                intro P _; split <;> omega
              exact this _
            · cases h; exact hw

/-- the code loop never panics and never runs out of the fuel `decode` hands it -/
theorem loop_returns (early : Bool) : ∀ (fuel : Nat) (st : St) (bits : List Bool), bits.length < fuel → 1 ≤ st.width →
    loop early fuel st bits ≠ .panic ∧ loop early fuel st bits ≠ .oof := by
  intro fuel
  induction fuel with
  | zero => intro st bits h; omega
  | succ f ih =>
    intro st bits hf hw
    rw [loop]
    split
    · simp
    · rename_i hlen
      cases hstep : stepCode early st (natOfBits (bits.take st.width)) with
      | done => simp
      | invalid => simp
      | cont st' out =>
        simp only
        have hw' := stepCode_width hstep hw
        have hlen' : st.width ≤ bits.length := by
          have := hlen; simp only [List.length_take] at this; omega
        have := ih st' (bits.drop st.width) (by simp; omega) hw'
        cases hl : loop early f st' (bits.drop st.width) <;> simp_all

theorem decode_returns (early : Bool) (data : Bytes) : decode early data ≠ .panic ∧ decode early data ≠ .oof := by
  unfold decode
  exact loop_returns early _ initSt _ (by rw [bitsOfBytes_length]; omega) (by simp [initSt])

end Lzw
