import PdfModel.Lemmas.ContentBytesWrite

/-! C08 byte level, part 5: the whole output of `serialize_ops` is a spelling of the token sequence of the
    token-level serializer (by induction over the writer's loop), hence is read back by the byte-level loop as the
    token-level loop reads the tokens. -/

namespace ContentBytes
open Content ContentSyntax
open PdfSyntax (Gap Bnd Spells needsBnd)

variable {R : Type}

section
variable (ro : RealOps R) (fmt : R → List UInt8) (pr : List UInt8 → Option R)

/-- `more` spells `toks` after any gap (the gap is what the previous statement leaves behind) -/
def SpellsAfter (toks : List (Tok R)) (more : List UInt8) : Prop := ∀ g, Gap g → SpellsToks pr toks (g ++ more)

theorem primsOf_append (a b : List (Tok R)) : primsOf (a ++ b) = primsOf a ++ primsOf b := by
  induction a with
  | nil => rfl
  | cons t a ih => cases t <;> simp [primsOf, ih]

theorem primRT_of (q : Content.Prim R) (h1 : PrimV ro q) (h2 : PdfSyntax.vdepth (toLex q) ≤ PdfLex.maxDepth) : PrimRT q :=
  ⟨toLex_wf ro q h1, h2, ofLex_toLex ro q h1⟩

theorem gap_trail_sp {trail : List UInt8} (h : trail = [] ∨ trail = [10]) : Gap (trail ++ [32]) := by
  rcases h with rfl | rfl
  · exact Gap.ws 32 [] (by decide) Gap.nil
  · exact Gap.ws 10 _ (by decide) (Gap.ws 32 [] (by decide) Gap.nil)

/-- one statement: operands, keyword, line feed -/
theorem operands_spell (fl : FmtLaws ro fmt pr) : ∀ (its : List (Item R)), (∀ it ∈ its, ItemV ro it) →
    ∀ (kw : String) (toks : List (Tok R)) (more : List UInt8), kwOK (strBytes kw) = true → SpellsAfter pr toks more →
    ∃ ob, operandsB ro fmt its = .ok ob ∧
      SpellsAfter pr (its.map (itemTok ro ⟨true⟩) ++ .kw kw :: toks) (ob ++ strBytes kw ++ 10 :: more) ∧
      (∀ p ∈ primsOf (its.map (itemTok ro ⟨true⟩)), PrimRT p) := by
  intro its
  induction its with
  | nil =>
    intro _ kw toks more hk hm
    refine ⟨[], rfl, ?_, by simp [primsOf]⟩
    intro g hg
    have := SpellsToks.kw g kw (10 :: more) toks hg hk (by simp [Bnd]; decide) (by simpa using hm [10] (Gap.ws 10 [] (by decide) Gap.nil))
    simpa using this
  | cons it its ih =>
    intro hv kw toks more hk hm
    obtain ⟨q, txt, trail, h1, h2, h3, h4, h5, h6, h7⟩ := item_spells ro fmt pr fl it (hv it (by simp))
    obtain ⟨ob', h8, h9, h10⟩ := ih (fun x hx => hv x (by simp [hx])) kw toks more hk hm
    refine ⟨txt ++ trail ++ 32 :: ob', by simp [operandsB, h2, h8], ?_, ?_⟩
    · intro g hg
      have hrest := h9 (trail ++ [32]) (gap_trail_sp h4)
      have := SpellsToks.prim g q txt _ _ hg h3 (fun hb => by
        rw [h5 hb]; simp [Bnd]; decide) hrest
      simp only [List.map_cons, h1, List.cons_append]
      simpa [List.append_assoc] using this
    · intro p hp
      simp only [List.map_cons, h1, primsOf, List.mem_cons] at hp
      rcases hp with rfl | hp
      · exact primRT_of ro p h6 h7
      · exact h10 p hp


theorem opV_accepted {op : Op R} (h : OpV ro op) : acceptedOp ro ⟨true⟩ op = true := by
  apply accepted_of_finite ro op h.1
  cases op <;> first | rfl | exact absurd h.2 (by simp)

/-- **The writer emits a spelling of its tokens**: by induction over the loop of `serialize_ops`, in step with the
    token-level serializer (same look-ahead, same `advance`, same state). -/
theorem serBytes_spells (fl : FmtLaws ro fmt pr) : ∀ (fuel : Nat) (ops : List (Op R)) (s : SState R),
    ops.length ≤ fuel → (∀ o ∈ ops, OpV ro o) →
    ∃ toks bytes, serLoop ro ⟨true⟩ fuel s ops = .ok toks ∧ serBytesLoop ro fmt fuel s ops = .ok bytes ∧
      SpellsAfter pr toks bytes ∧ (∀ p ∈ primsOf toks, PrimRT p) := by
  intro fuel
  induction fuel with
  | zero =>
    intro ops s hl _
    have : ops = [] := List.eq_nil_of_length_eq_zero (Nat.le_zero.mp hl)
    subst this
    exact ⟨[], [], rfl, rfl, fun g hg => by simpa using SpellsToks.nil g hg, by simp [primsOf]⟩
  | succ fuel ih =>
    intro ops s hl hv
    cases ops with
    | nil => exact ⟨[], [], rfl, rfl, fun g hg => by simpa using SpellsToks.nil g hg, by simp [primsOf]⟩
    | cons op rest =>
      have hop := hv op (by simp)
      obtain ⟨r, hr⟩ := serOne_some_of_accepted ro ⟨true⟩ s op rest (opV_accepted ro hop)
      have hitems := serOne_items ro ⟨true⟩ s op rest
      rw [hr] at hitems
      cases hx : serItems ro s op rest with
      | none => rw [hx] at hitems; simp at hitems
      | some x =>
        rw [hx] at hitems
        simp only [Option.map_some, Option.some.injEq] at hitems
        subst hitems
        have hdrop : ∀ o ∈ rest.drop x.extra, o ∈ op :: rest := fun o ho => List.mem_cons_of_mem _ (List.mem_of_mem_drop ho)
        have htake : ∀ o ∈ rest.take x.extra, o ∈ op :: rest := fun o ho => List.mem_cons_of_mem _ (List.mem_of_mem_take ho)
        have hlen : (rest.drop x.extra).length ≤ fuel := by
          simp only [List.length_drop, List.length_cons] at *
          omega
        obtain ⟨hiv, hkw⟩ := serItems_itemV ro s op rest x hop (fun o ho => (hv o (htake o ho)).1) hx
        obtain ⟨toks2, bytes2, hs2, hb2, hsp2, hrt2⟩ := ih (rest.drop x.extra) x.st hlen (fun o ho => hv o (hdrop o ho))
        obtain ⟨ob, hob, hsp, hrt⟩ := operands_spell ro fmt pr fl x.operands hiv x.kw toks2 bytes2 hkw hsp2
        refine ⟨(x.operands.map (itemTok ro ⟨true⟩) ++ [.kw x.kw]) ++ toks2, ob ++ strBytes x.kw ++ [10] ++ bytes2, ?_, ?_, ?_, ?_⟩
        · simp [serLoop, hr, hs2]
        · simp [serBytesLoop, hx, stmtB, hob, hb2]
        · intro g hg
          have := hsp g hg
          simpa [List.append_assoc] using this
        · intro p hp
          rw [primsOf_append, primsOf_append] at hp
          simp only [List.mem_append, primsOf] at hp
          rcases hp with (hp | hp) | hp
          · exact hrt p hp
          · simp at hp
          · exact hrt2 p hp

end
end ContentBytes
