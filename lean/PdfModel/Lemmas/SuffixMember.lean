import PdfModel.Lemmas.Indirect
import PdfModel.Lemmas.Render
import PdfModel.Lemmas.ObjStm

/-!
  What C11 assumed of the value parser, proved for `Model/Parser.lean`: a conformant spelling followed by
  nothing but white-space up to the end of the buffer (a member slice of an object stream) parses to the
  value it denotes — this is where D6 (integer at the end of the buffer) lived — and so does the same
  spelling inside `n g obj … endobj`.
-/

namespace PdfShift
open PdfLex
open PdfSyntax (Gap Bnd Spells needsBnd KeysDistinct namesUtf8 vdepth need wf_of)

variable {R : Type}

def AllWs (ws : List UInt8) : Prop := ∀ b ∈ ws, isWhitespace b = true

theorem offlex_isWs_eq : ∀ b, OffLex.isWs b = isWhitespace b := by decide +kernel

theorem skipWhitespace_allws {buf : Buf} : ∀ (ws : List UInt8) (pos : Nat), AllWs ws → Suffix buf pos ws →
    skipWhitespace buf pos = .err := by
  intro ws
  induction ws with
  | nil => intro pos _ h; exact skipWhitespace_nil h
  | cons b s ih =>
    intro pos hw h
    rw [skipWhitespace_ws h (hw b (by simp))]
    exact ih (pos + 1) (fun c hc => hw c (by simp [hc])) h.tail

/-- behind the spelling there is only white-space up to the end of the buffer: the look-ahead finds nothing -/
theorem nextWord_allws {buf : Buf} (ws : List UInt8) (pos : Nat) (hw : AllWs ws) (h : Suffix buf pos ws) :
    nextWord buf pos = .err := by
  unfold nextWord
  split
  · rfl
  · unfold tokenStart
    rw [skipWhitespace_allws ws pos hw h]
    rfl

theorem bnd_of_allws (ws : List UInt8) (hw : AllWs ws) : Bnd ws := by
  cases ws with
  | nil => simp [Bnd]
  | cons b s =>
    simp only [Bnd]
    have := hw b (by simp)
    rw [← isRegular_eq]
    simp [isRegular, this]

/-- **A member slice parses to the member's value.** `text` spells `v`, `sep` is white-space (or nothing):
    `parse(text ++ sep)` is `v`, whatever the white-space, and the cursor rests right behind `text`. -/
theorem parse_member_slice (env : Env R) (hd : env.decrypt = none) (v : Prim R) (text : List UInt8)
    (hsp : Spells env.parseReal v text) (hk : KeysDistinct v) (hu : namesUtf8 v = true) (hdepth : vdepth v ≤ maxDepth)
    (sep : List UInt8) (hsep : AllWs sep) (hsz : (text ++ sep).length ≤ 2147483647)
    (flags : Nat) (hfl : flags &&& flagOf v ≠ 0) :
    parse env (text ++ sep).toArray flags = .ok (v, text.length) := by
  have hs : Suffix (text ++ sep).toArray text.length sep := suffix_append text sep
  have hah0 : Ahead (text ++ sep).toArray text.length := Or.inl (nextWord_allws sep _ hsep hs)
  have hah : Ahead (text ++ sep).toArray (0 + ([] : List UInt8).length + text.length) := by
    have e : 0 + ([] : List UInt8).length + text.length = text.length := by simp
    rw [e]; exact hah0
  have hs0 : Suffix (text ++ sep).toArray 0 ([] ++ text ++ sep) := by simpa using suffix_zero (text ++ sep)
  have hn := need_bound env.parseReal v text hsp
  have := parseCtx_spells env hd v text hsp (wf_of v hk hu) (buf := (text ++ sep).toArray) (by simpa using hsz) [] sep 0
    (defaultFuel (text ++ sep).toArray) none maxDepth flags Gap.nil hfl hs0 (fun _ => bnd_of_allws sep hsep) hah
    (by simp [defaultFuel]; omega) hdepth
  simpa [parse, parseWithLexer] using this

end PdfShift
