import PdfModel.Model.ScanLoop
import PdfModel.Lemmas.SuffixConcrete

/-! The item loop of `Storage::scan` (`Model/ScanLoop.lean`) under a change of the lexer's file offset, and
    `scanC` under a prefix. -/

namespace ScanLoop
open PdfLex PdfShift XrefTable Offsets

variable {R : Type}

/-- move every `file_range` inside an item by `k` -/
def shiftItem (k : Nat) : Item R → Item R
  | .obj id gen v => .obj id gen (shiftR k v)
  | .trailer d => .trailer (shiftRE k d)
  | .error => .error

def mapStep (k : Nat) (r : Option (Item R) × Nat) : Option (Item R) × Nat := (r.1.map (shiftItem k), r.2)

theorem trailerDict_offset (env : Env R) (k : Nat) (buf : Buf) (pfuel pos : Nat) :
    trailerDict (env.shiftOffset k) buf pfuel pos = omap (mapD k) (trailerDict env buf pfuel pos) := by
  unfold trailerDict parseWithLexer
  rw [parseCtx_offset]
  cases parseCtx env buf pfuel pos none Flags.dict maxDepth with
  | ok r =>
    obtain ⟨v, q⟩ := r
    cases v with
    | dict d => simp [omap, mapV, mapD, shiftR]
    | stream info inner => cases inner <;> simp [omap, mapV, shiftR]
    | _ => simp [omap, mapV, shiftR]
  | err => rfl
  | panic => rfl
  | oof => rfl

theorem step_offset (env : Env R) (k : Nat) (buf : Buf) (pfuel : Nat) : ∀ (fuel pos : Nat),
    step (env.shiftOffset k) buf pfuel fuel pos = omap (mapStep k) (step env buf pfuel fuel pos) := by
  intro fuel
  induction fuel with
  | zero => intro pos; rfl
  | succ fuel ih =>
    intro pos
    simp only [step]
    rw [parseIndirectObject_offset]
    cases parseIndirectObject env buf pfuel pos 1023 with
    | ok r =>
      obtain ⟨⟨⟨id, gen⟩, v⟩, q⟩ := r
      rfl
    | panic => rfl
    | oof => rfl
    | err =>
      simp only [omap]
      split
      · rfl
      · cases next buf pos with
        | ok w =>
          simp only
          split
          · cases skipXref buf (buf.size + 1) w.2 with
            | ok q =>
              simp only
              rw [trailerDict_offset]
              cases trailerDict env buf pfuel q with
              | ok dq => obtain ⟨d, q2⟩ := dq; rfl
              | err => rfl
              | panic => rfl
              | oof => rfl
            | err => rfl
            | panic => rfl
            | oof => rfl
          · split
            · cases next buf w.2 with
              | ok w2 => exact ih w2.2
              | err => rfl
              | panic => rfl
              | oof => rfl
            · rfl
        | err => rfl
        | panic => rfl
        | oof => rfl

theorem items_offset (env : Env R) (k : Nat) (buf : Buf) (pfuel : Nat) : ∀ (fuel pos : Nat),
    items (env.shiftOffset k) buf pfuel fuel pos = omap (List.map (shiftItem k)) (items env buf pfuel fuel pos) := by
  intro fuel
  induction fuel with
  | zero => intro pos; rfl
  | succ fuel ih =>
    intro pos
    simp only [items]
    rw [step_offset]
    cases step env buf pfuel (buf.size + 2) pos with
    | ok r =>
      obtain ⟨it, q⟩ := r
      cases it with
      | none => rfl
      | some it =>
        simp only [omap, mapStep, Option.map_some]
        rw [ih q]
        cases items env buf pfuel fuel q <;> rfl
    | err => rfl
    | panic => rfl
    | oof => rfl

/-- **`scan` under a prefix, concrete.** The same slice is scanned; the lexer offset is the header position,
    so every stream range the items carry is `p.length` further on and nothing else changes. -/
theorem scanC_append (env : Env R) (p f : List UInt8) (s k : Nat) (hfit : Fits p f)
    (hk : OffLex.findLast startxrefKw (f.take (f.length - 1)) = some k) :
    scanC env (p ++ f) (p.length + s) = omap (List.map (shiftItem p.length)) (scanC env f s) := by
  unfold Fits at hfit
  unfold scanC
  rw [locateXrefC_append p f k hk]
  cases locateXrefC f with
  | ok x =>
    simp only [checkedAdd]
    by_cases h1 : s + x > OffLex.usizeMax
    · have h2 : p.length + s + x > OffLex.usizeMax := by omega
      simp [h1, h2, omap]
    · by_cases h2 : p.length + s + x > OffLex.usizeMax
      · have : ¬ (s + x ≤ f.length) := by omega
        simp [h1, h2, readRange, this, omap]
      · simp only [h1, h2, if_false]
        rw [Nat.add_assoc, readRange_append]
        cases readRange f s (s + x) with
        | ok sl =>
          simp only
          have e : ({ env with fileOffset := p.length + s } : Env R) = ({ env with fileOffset := s } : Env R).shiftOffset p.length := by
            simp [Env.shiftOffset, Nat.add_comm]
          rw [e, items_offset]
        | err => rfl
        | panic => rfl
        | oof => rfl
  | err => rfl
  | panic => rfl
  | oof => rfl

end ScanLoop
