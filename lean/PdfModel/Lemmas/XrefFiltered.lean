import PdfModel.Props.C05
import PdfModel.Lemmas.XrefStream
import PdfModel.Model.XrefStreamFilters

/-! Filtered cross-reference streams: the spec-side writer (rows → PNG prediction with the row width as row
    size → Flate → optionally an ASCII filter) as an instance of the encoder relations of C05, and the
    dictionary side (`/Filter`, `/DecodeParms` → the filter list the reader builds). -/

namespace XrefFiltered
open Enc Xref
open Codecs (EncodesToHex EncodesTo85)

/-- the rows of a section as a conforming writer lays them out: one per entry -/
def rowsOf (w0 w1 w2 : Nat) (subs : List Sub) : List Bytes :=
  subs.flatMap fun s => s.entries.map (encodeEntry w0 w1 w2)

/-- the unfiltered stream data (what `stream_sections_read_back` is about) -/
def rowData (w0 w1 w2 : Nat) (subs : List Sub) : Bytes :=
  subs.flatMap fun s => encodeRows w0 w1 w2 s.entries

/-- a PNG filter type for every row: the writer's free choice (`up` when the list is too short) -/
def tagRows : List PredictorType → List Bytes → Rows
  | _, [] => []
  | [], r :: rs => (.up, r) :: tagRows [] rs
  | t :: ts, r :: rs => (t, r) :: tagRows ts rs

theorem flat_tagRows : ∀ (ts : List PredictorType) (rows : List Bytes), flat (tagRows ts rows) = rows.flatten := by
  intro ts rows
  induction rows generalizing ts with
  | nil => cases ts <;> simp [tagRows, flat]
  | cons r rs ih =>
    cases ts with
    | nil => have := ih []; simp [tagRows, flat] at this ⊢; exact this
    | cons t ts => have := ih ts; simp [tagRows, flat] at this ⊢; exact this

theorem tagRows_mem : ∀ (ts : List PredictorType) (rows : List Bytes) (r : PredictorType × Bytes),
    r ∈ tagRows ts rows → r.2 ∈ rows := by
  intro ts rows
  induction rows generalizing ts with
  | nil => intro r h; cases ts <;> simp [tagRows] at h
  | cons x xs ih =>
    intro r h
    cases ts with
    | nil =>
      simp only [tagRows, List.mem_cons] at h
      rcases h with rfl | h
      · simp
      · exact List.mem_cons_of_mem _ (ih [] r h)
    | cons t ts =>
      simp only [tagRows, List.mem_cons] at h
      rcases h with rfl | h
      · simp
      · exact List.mem_cons_of_mem _ (ih ts r h)

theorem rowData_eq (w0 w1 w2 : Nat) (subs : List Sub) : rowData w0 w1 w2 subs = (rowsOf w0 w1 w2 subs).flatten := by
  induction subs with
  | nil => rfl
  | cons s ss ih =>
    simp only [rowData, rowsOf, List.flatMap_cons, List.flatten_append] at ih ⊢
    rw [ih]
    simp [encodeRows, List.flatMap_def]

theorem rowsOf_length (w0 w1 w2 : Nat) (subs : List Sub) (hf : ∀ s ∈ subs, ∀ e ∈ s.entries, Fits w0 w1 w2 e) :
    ∀ r ∈ rowsOf w0 w1 w2 subs, r.length = w0 + w1 + w2 := by
  intro r hr
  simp only [rowsOf, List.mem_flatMap, List.mem_map] at hr
  obtain ⟨s, hs, e, he, rfl⟩ := hr
  exact encodeEntry_length w0 w1 w2 e (hf s hs e he)

/-- what the writer hands to the compressor: every row preceded by its filter-type byte and filtered
    against the row above (ISO 32000-1 §7.4.4.4, PNG predictors) -/
def predicted (bpp : Nat) (types : List PredictorType) (w0 w1 w2 : Nat) (subs : List Sub) : Bytes :=
  encRows bpp (List.replicate (w0 + w1 + w2) 0) (tagRows types (rowsOf w0 w1 w2 subs))

/-- any parameters whose geometry gives the row width as row size, any filter type per row -/
theorem predicts_rows (p : Params) (bpp : Nat) (w0 w1 w2 : Nat) (subs : List Sub) (types : List PredictorType)
    (hp : p.predictor ≥ 10) (hg : predictorGeometry p = .ok (bpp, w0 + w1 + w2))
    (hf : ∀ s ∈ subs, ∀ e ∈ s.entries, Fits w0 w1 w2 e) :
    Predicts p (rowData w0 w1 w2 subs) (predicted bpp types w0 w1 w2 subs) := by
  have := Predicts.png (p := p) (rs := tagRows types (rowsOf w0 w1 w2 subs)) hp hg
    (fun r hr => rowsOf_length w0 w1 w2 subs hf r.2 (tagRows_mem _ _ r hr))
  rw [flat_tagRows, ← rowData_eq] at this
  exact this

/-- `/Predictor k /Columns S` (Colors 1, 8 bits): bytes per pixel 1, row size `S` -/
theorem columns_geometry (k : Int) (S : Nat) (hS : 1 ≤ S) (hb : S < 2305843009213693952) (early : Int) :
    predictorGeometry { predictor := k, colors := 1, bpc := 8, columns := (S : Int), earlyChange := early } = .ok (1, S) := by
  have hS' : ¬ ((S : Int) < 1) := by omega
  have e3 : (8 * S + 7) / 8 = S := by omega
  have e4 : S < 18446744073709551616 := by omega
  simp [predictorGeometry, hS', e3, e4]

/-- `y` is the data of a cross-reference stream as a conforming writer stores it under the filter list `fs` -/
def FilteredData (X : Ext) (fs : List Filter) (w0 w1 w2 : Nat) (subs : List Sub) (y : Bytes) : Prop :=
  EncodesChain X fs (rowData w0 w1 w2 subs) y

/-- the shapes real writers use: Flate over PNG-predicted rows (zlib framing; what the third-party inflate returns
    for the compressed bytes is the hypothesis), bare or inside ASCIIHex / ASCII85 -/
inductive PngFlate (X : Ext) (w0 w1 w2 : Nat) (subs : List Sub) : List Filter → Bytes → Prop where
  | bare (p : Params) (bpp : Nat) (types : List PredictorType) (z : Bytes) : p.predictor ≥ 10 →
      predictorGeometry p = .ok (bpp, w0 + w1 + w2) → X.inflateZlib z = some (predicted bpp types w0 w1 w2 subs) →
      PngFlate X w0 w1 w2 subs [.flate p] z
  | hex (p : Params) (z y : Bytes) : PngFlate X w0 w1 w2 subs [.flate p] z → EncodesToHex z y →
      PngFlate X w0 w1 w2 subs [.asciiHex, .flate p] y
  | a85 (p : Params) (z y : Bytes) : PngFlate X w0 w1 w2 subs [.flate p] z → EncodesTo85 z y →
      PngFlate X w0 w1 w2 subs [.ascii85, .flate p] y

theorem pngFlate_filtered (X : Ext) (w0 w1 w2 : Nat) (subs : List Sub)
    (hf : ∀ s ∈ subs, ∀ e ∈ s.entries, Fits w0 w1 w2 e) {fs : List Filter} {y : Bytes}
    (h : PngFlate X w0 w1 w2 subs fs y) : FilteredData X fs w0 w1 w2 subs y := by
  induction h with
  | bare p bpp types z hp hg hz =>
    exact EncodesChain.cons EncodesChain.nil (EncodesStep.flateZlib (predicts_rows p bpp w0 w1 w2 subs types hp hg hf) hz)
  | hex p z y _ hy ih => exact EncodesChain.cons ih (EncodesStep.hex hy)
  | a85 p z y _ hy ih => exact EncodesChain.cons ih (EncodesStep.a85 hy)

end XrefFiltered
