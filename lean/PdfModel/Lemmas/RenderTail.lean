import PdfModel.Spec.Tail
import PdfModel.Spec.Render
import PdfModel.Lemmas.Parser
import PdfModel.Lemmas.ShiftLexer

/-! `safeTail` (`Spec/Tail`) is sufficient for `Ahead`, and every tail of `Spec/Render.tails` is safe. -/

namespace PdfLex
open PdfSyntax (Gap)
open PdfSpec (dropComment stripGap notRB aheadB safeTail)
open PdfShift (omap sh2 nextWord_shift slice_shift size_shift)

theorem dropComment_spec (r r' : List UInt8) (h : dropComment r = some r') :
    ∃ body e, r = body ++ e :: r' ∧ (∀ b ∈ body, b ≠ 10 ∧ b ≠ 13) ∧ (e = 10 ∨ e = 13) := by
  induction r with
  | nil => simp [dropComment] at h
  | cons b r ih =>
    simp only [dropComment] at h
    by_cases hb : (b == 10 || b == 13) = true
    · simp only [hb, if_true] at h
      cases h
      refine ⟨[], b, rfl, by simp, ?_⟩
      simpa using hb
    · simp only [hb, Bool.false_eq_true, if_false] at h
      obtain ⟨body, e, h1, h2, h3⟩ := ih h
      refine ⟨b :: body, e, by simp [h1], ?_, h3⟩
      intro x hx
      simp at hx
      rcases hx with rfl | hx
      · simpa using hb
      · exact h2 x hx

theorem stripGap_spec : ∀ (fuel : Nat) (s : List UInt8), ∃ g, Gap g ∧ s = g ++ stripGap fuel s := by
  intro fuel
  induction fuel with
  | zero => intro s; exact ⟨[], Gap.nil, by simp [stripGap]⟩
  | succ fuel ih =>
    intro s
    cases s with
    | nil => exact ⟨[], Gap.nil, by simp [stripGap]⟩
    | cons b r =>
      simp only [stripGap]
      by_cases hw : isWhitespace b = true
      · simp only [hw, if_true]
        obtain ⟨g, hg, e⟩ := ih r
        exact ⟨b :: g, Gap.ws b g (by rw [← isWhitespace_eq]; exact hw) hg, by simp [← e]⟩
      · simp only [hw, Bool.false_eq_true, if_false]
        by_cases h37 : (b == 37) = true
        · simp only [h37, if_true]
          have hb : b = 37 := by simpa using h37
          subst hb
          cases hd : dropComment r with
          | none => exact ⟨[], Gap.nil, by simp⟩
          | some r' =>
            simp only []
            obtain ⟨body, e, h1, h2, h3⟩ := dropComment_spec r r' hd
            obtain ⟨g, hg, eg⟩ := ih r'
            refine ⟨37 :: body ++ e :: g, Gap.comment body e g h2 h3 hg, ?_⟩
            rw [h1]; simp; exact eg
        · simp only [h37, Bool.false_eq_true, if_false]
          exact ⟨[], Gap.nil, by simp⟩

/-- white-space and comments up to the end of the data: no further lexeme -/
theorem skip_gap_eof {buf : Buf} (g : List UInt8) (hg : Gap g) :
    ∀ (pos fuel : Nat), Suffix buf pos g → g.length ≤ fuel →
    (skipWhitespace buf pos).bind (fun p0 => skipComments buf fuel p0) = .err := by
  induction hg with
  | nil =>
    intro pos fuel h _
    rw [skipWhitespace_nil h]; rfl
  | ws b g hb hg ih =>
    intro pos fuel h hf
    rw [skipWhitespace_ws h (by rw [isWhitespace_eq]; exact hb)]
    exact ih (pos + 1) fuel h.tail (by simp at hf; omega)
  | comment body e g hbody he hg ih =>
    intro pos fuel h hf
    have h' : Suffix buf pos (37 :: (body ++ e :: g)) := by simpa using h
    rw [skipWhitespace_stop h' (by decide)]
    simp only [Out.bind_ok]
    cases fuel with
    | zero => simp at hf
    | succ fuel =>
      have hlt := h'.lt
      simp only [skipComments, h'.get0, beq_self_eq_true, if_true]
      rw [if_neg (by omega)]
      rw [findEol_body body e g (pos + 1) h'.tail hbody he]
      simp only []
      have h2 : Suffix buf (pos + 1 + body.length + 1) g := by
        have := Suffix.drop (buf := buf) (pos := pos + 1) (a := body ++ [e]) (s := g) (by simpa using h'.tail)
        simpa [Nat.add_assoc] using this
      exact ih (pos + 1 + body.length + 1) fuel h2 (by simp at hf; omega)

theorem nextWord_gap_eof {buf : Buf} (g : List UInt8) (hg : Gap g) (pos : Nat) (h : Suffix buf pos g) :
    nextWord buf pos = .err := by
  unfold nextWord
  by_cases he : (pos == buf.size) = true
  · simp [he]
  · simp only [he, Bool.false_eq_true, if_false, tokenStart]
    rw [skip_gap_eof g hg pos buf.size h (by have := h.size_eq; omega)]
    rfl

theorem notR_of_notRB {buf : Buf} {q : Nat} (h : notRB buf q = true) : NotR buf q := by
  unfold notRB at h
  cases hn : nextWord buf q with
  | err => exact Or.inl hn
  | ok w => rw [hn] at h; exact Or.inr ⟨w, hn, by simpa using h⟩
  | panic => rw [hn] at h; simp at h
  | oof => rw [hn] at h; simp at h

theorem ahead_of_aheadB {buf : Buf} {q : Nat} (h : aheadB buf q = true) : Ahead buf q := by
  unfold aheadB at h
  cases hn : nextWord buf q with
  | err => exact Or.inl hn
  | ok w =>
    rw [hn] at h
    simp only [Bool.and_eq_true, Bool.or_eq_true, bne_iff_ne, ne_eq, Bool.not_eq_true'] at h
    refine Or.inr ⟨w, hn, h.1.1, h.1.2, fun hi => ?_⟩
    rcases h.2 with h2 | h2
    · rw [hi] at h2; simp at h2
    · exact notR_of_notRB h2
  | panic => rw [hn] at h; simp at h
  | oof => rw [hn] at h; simp at h

theorem notR_shift (p b : Buf) (pos : Nat) (h : NotR b pos) : NotR (p ++ b) (p.size + pos) := by
  rcases h with h | ⟨w, h1, h2⟩
  · left; rw [nextWord_shift, h]; rfl
  · right
    refine ⟨sh2 p.size w, by rw [nextWord_shift, h1]; rfl, ?_⟩
    simp only [sh2]; rw [slice_shift]; exact h2

theorem ahead_shift (p b : Buf) (pos : Nat) (h : Ahead b pos) : Ahead (p ++ b) (p.size + pos) := by
  rcases h with h | ⟨w, h1, h2, h3, h4⟩
  · left; rw [nextWord_shift, h]; rfl
  · right
    refine ⟨sh2 p.size w, by rw [nextWord_shift, h1]; rfl, ?_, ?_, ?_⟩
    · simp only [sh2]; rw [slice_shift]; exact h2
    · simp only [sh2]; rw [slice_shift]; exact h3
    · simp only [sh2]; rw [slice_shift]; intro hi; exact notR_shift p b w.2 (h4 hi)

theorem suffix_split {buf : Buf} {q : Nat} {s : List UInt8} (h : Suffix buf q s) :
    buf = (buf.toList.take q).toArray ++ s.toArray ∧ (buf.toList.take q).toArray.size = q := by
  obtain ⟨h1, h2⟩ := h
  constructor
  · apply Array.ext'
    simp [← h1]
  · simp; omega

/-- **a safe tail never merges with the object before it**: whatever gap precedes it -/
theorem ahead_of_safeTail {buf : Buf} (tail g : List UInt8) (q : Nat) (hs : safeTail tail = true) (hg : Gap g)
    (h : Suffix buf q (g ++ tail)) : Ahead buf q := by
  obtain ⟨gt, hgt, et⟩ := stripGap_spec tail.length tail
  unfold safeTail at hs
  generalize hcore : stripGap tail.length tail = core at hs et
  have hgap : Gap (g ++ gt) := gap_append hg hgt
  have h' : Suffix buf q ((g ++ gt) ++ core) := by rw [et] at h; simpa using h
  cases core with
  | nil => exact Or.inl (nextWord_gap_eof (g ++ gt) hgap q (by simpa using h'))
  | cons b r =>
    simp only [Bool.and_eq_true, Bool.not_eq_true', bne_iff_ne, ne_eq] at hs
    obtain ⟨⟨hws, h37⟩, hah⟩ := hs
    have hst : StartsTok (b :: r) := ⟨b, r, rfl, hws, h37⟩
    have h2 : Suffix buf (q + (g ++ gt).length) (b :: r) := h'.drop
    -- the lexemes from here on are those of the tail taken alone
    obtain ⟨e1, e2⟩ := suffix_split h2
    have hA : Ahead buf (q + (g ++ gt).length) := by
      have := ahead_shift (buf.toList.take (q + (g ++ gt).length)).toArray (b :: r).toArray 0 (ahead_of_aheadB hah)
      rw [← e1, e2] at this
      simpa using this
    -- and the gap in front is skipped
    have hnw : nextWord buf q = nextWord buf (q + (g ++ gt).length) := by
      rw [nextWord_gap (g ++ gt) (b :: r) hgap hst q h']
      have h0 : Suffix buf (q + (g ++ gt).length) ([] ++ (b :: r)) := by simpa using h2
      have := nextWord_gap [] (b :: r) Gap.nil hst _ h0
      simpa using this.symm
    rcases hA with hA | ⟨w, a1, a2, a3, a4⟩
    · exact Or.inl (by rw [hnw]; exact hA)
    · exact Or.inr ⟨w, by rw [hnw]; exact a1, a2, a3, a4⟩

/-- every tail the harness appends (`Spec/Render.tails`) is safe -/
theorem tails_safe : ∀ t ∈ PdfSpec.tails, safeTail t = true := by decide +kernel

end PdfLex
