import PdfModel.Model.Concurrent
import PdfModel.Lemmas.Cache

/-! Invariants of the transition system `Model/Concurrent.lean` (helper lemmas for `Props/C13`). -/

namespace Conc
open Cache
variable {V E : Type}

/-! ## Part 1: the per-thread guard holds exactly the thread's own unfinished loads -/

/-- the load the thread is in the middle of (guard pushed, frame not yet / no longer on the stack) -/
def ctlKeys : Ctl V E → List Nat
  | .pushed _ r _ => [r]
  | .waiting _ r _ => [r]
  | .popping _ r _ _ => [r]
  | _ => []

def keys (st : List (Frame V E)) : List Nat := st.map (·.r)

def Ctl.isPanicked : Ctl V E → Bool
  | .panicked => true
  | _ => false

/-- the guard of a thread is the list of the references of that thread's own unfinished loads,
    innermost first, and the thread has not panicked -/
def ChainOK (t : Thread V E) : Prop :=
  t.chain = ctlKeys t.ctl ++ keys t.stack ∧ t.ctl.isPanicked = false

theorem finish_chainOK (t : Thread V E) (res : Res V E) (h : t.chain = keys t.stack) : ChainOK (finish t res) := by
  unfold finish
  cases hst : t.stack with
  | nil => simp [ChainOK, ctlKeys, keys, Ctl.isPanicked, hst] at h ⊢; exact h
  | cons f rest =>
    simp only
    split
    · simp [ChainOK, ctlKeys, Ctl.isPanicked, hst] at h ⊢; exact h
    · simp [ChainOK, ctlKeys, keys, Ctl.isPanicked, hst] at h ⊢; exact h

theorem applyAdv_chainOK (cfg : Cfg) (t : Thread V E) (a : Adv V E) (h : t.chain = keys t.stack) : ChainOK (applyAdv cfg t a) := by
  cases a with
  | enter T r k =>
    simp only [applyAdv]
    split <;> (simp [ChainOK, ctlKeys, Ctl.isPanicked]; exact h)
  | fin res => exact finish_chainOK t res h

theorem runTo_chainOK (d : Doc V E) (cfg : Cfg) (sh : Shared V E) (t : Thread V E) (p : Prog V E)
    (h : t.chain = keys t.stack) : ChainOK (runTo d cfg sh t p).2 :=
  applyAdv_chainOK cfg t _ h

theorem startLoad_chainOK (d : Doc V E) (cfg : Cfg) (sh : Shared V E) (t : Thread V E) (r : Nat) (p : Prog V E)
    (h : t.chain = keys t.stack) : ChainOK (startLoad d cfg sh t r p).2 := by
  unfold startLoad
  split
  · simp [ChainOK, ctlKeys, Ctl.isPanicked]; exact h
  · exact runTo_chainOK d cfg sh t p h

theorem afterLookup_chainOK (d : Doc V E) (cfg : Cfg) (sh : Shared V E) (t : Thread V E) (T r : Nat)
    (k : Res V E → Prog V E) (T' : Nat) (res : Res V E) (h : t.chain = r :: keys t.stack) :
    ChainOK (afterLookup d cfg sh t T r k T' res).2 := by
  unfold afterLookup
  cases res with
  | ok v =>
    simp only
    split
    · simp [ChainOK, ctlKeys, Ctl.isPanicked]; exact h
    · exact startLoad_chainOK d cfg sh _ _ _ (by simpa [keys] using h)
  | err e => exact startLoad_chainOK d cfg sh _ _ _ (by simpa [keys] using h)
  | oof => exact startLoad_chainOK d cfg sh _ _ _ (by simpa [keys] using h)

/-- Every transition of a thread with its own guard stack keeps `ChainOK`: in particular the pop
    assertion holds whenever it is evaluated. -/
theorem stepT_chainOK {d : Doc V E} {cfg : Cfg} (hg : cfg.sharedGuard = false) {i : Nat} {sh sh' : Shared V E}
    {t t' : Thread V E} (h : ChainOK t) (hs : stepT d cfg i sh t = some (sh', t')) : ChainOK t' := by
  obtain ⟨ctl, stack, chain, todo, out⟩ := t
  obtain ⟨hch, _⟩ := h
  simp only at hch
  cases ctl with
  | done => simp [stepT] at hs
  | panicked => simp [stepT] at hs
  | start =>
    simp only [ctlKeys, List.nil_append] at hch
    cases todo with
    | nil =>
      simp only [stepT, Option.some.injEq, Prod.mk.injEq] at hs
      rw [← hs.2]
      exact ⟨by simpa [ctlKeys] using hch, rfl⟩
    | cons p ps =>
      simp only [stepT, Option.some.injEq] at hs
      rw [show t' = _ from (congrArg Prod.snd hs).symm]
      exact runTo_chainOK d cfg sh _ p hch
  | enter T r k =>
    simp only [ctlKeys, List.nil_append] at hch
    simp only [stepT, hg, Bool.false_eq_true, if_false] at hs
    split at hs
    · simp only [Option.some.injEq] at hs
      rw [show t' = _ from (congrArg Prod.snd hs).symm]
      exact runTo_chainOK d cfg sh _ _ hch
    · split at hs
      · simp only [Option.some.injEq] at hs
        rw [show t' = _ from (congrArg Prod.snd hs).symm]
        exact runTo_chainOK d cfg sh _ _ hch
      · simp only [Option.some.injEq, Prod.mk.injEq] at hs
        rw [← hs.2]
        exact ⟨by simp [ctlKeys, hch], rfl⟩
  | pushed T r k =>
    simp only [ctlKeys, List.singleton_append] at hch
    simp only [stepT] at hs
    split at hs
    · split at hs
      · simp only [Option.some.injEq] at hs
        rw [show t' = _ from (congrArg Prod.snd hs).symm]
        exact startLoad_chainOK d cfg _ _ _ _ (by simpa [keys] using hch)
      · simp only [Option.some.injEq, Prod.mk.injEq] at hs
        rw [← hs.2]
        exact ⟨by simp [ctlKeys, hch], rfl⟩
      · simp only [Option.some.injEq] at hs
        rw [show t' = _ from (congrArg Prod.snd hs).symm]
        exact afterLookup_chainOK d cfg sh _ T r k _ _ hch
    · simp only [Option.some.injEq] at hs
      rw [show t' = _ from (congrArg Prod.snd hs).symm]
      exact startLoad_chainOK d cfg _ _ _ _ (by simpa [keys] using hch)
  | waiting T r k =>
    simp only [ctlKeys, List.singleton_append] at hch
    simp only [stepT] at hs
    split at hs
    · simp only [Option.some.injEq] at hs
      rw [show t' = _ from (congrArg Prod.snd hs).symm]
      exact afterLookup_chainOK d cfg sh _ T r k _ _ hch
    · simp at hs
  | logging T r k =>
    simp only [ctlKeys, List.nil_append] at hch
    simp only [stepT, Option.some.injEq, Prod.mk.injEq] at hs
    rw [← hs.2]
    exact ⟨by simpa [ctlKeys] using hch, rfl⟩
  | loading r p =>
    simp only [ctlKeys, List.nil_append] at hch
    simp only [stepT, Option.some.injEq] at hs
    rw [show t' = _ from (congrArg Prod.snd hs).symm]
    exact runTo_chainOK d cfg sh _ p hch
  | storing res =>
    simp only [ctlKeys, List.nil_append] at hch
    cases stack with
    | nil => simp [stepT] at hs
    | cons f rest =>
      simp only [stepT, Option.some.injEq, Prod.mk.injEq] at hs
      rw [← hs.2]
      exact ⟨by simpa [ctlKeys, keys] using hch, rfl⟩
  | popping T r k res =>
    simp only [ctlKeys, List.singleton_append] at hch
    simp only [stepT, hg, Bool.false_eq_true, if_false] at hs
    subst hch
    simp only [if_true, Option.some.injEq] at hs
    rw [show t' = _ from (congrArg Prod.snd hs).symm]
    exact runTo_chainOK d cfg sh _ _ rfl

end Conc
