import PdfModel.Lemmas.ConcurrentLazy
import PdfModel.Lemmas.ConcurrentLive

/-! Progress for the once-cell layer: on documents with well-founded typed loads a state in which some thread is
not finished always has an enabled thread. A thread that wants a cell under initialisation waits for the
initialising thread, which is running its initialiser; a running thread only ever waits (inside a nested `get`)
for an in-process cache slot, whose owner is running too and waits for a reference of smaller rank. -/

namespace Conc
open Cache
variable {V E : Type}

/-! ## an inner thread that has been handed a program is neither idle nor `done` until the program returns -/

theorem finish_todo (t : Thread V E) (res : Res V E) : (finish t res).todo = t.todo ∧ (finish t res).ctl ≠ .done := by
  unfold finish
  split
  · split <;> simp
  · simp

theorem runTo_todo (d : Doc V E) (cfg : Cfg) (sh : Shared V E) (t : Thread V E) (p : Prog V E) :
    (runTo d cfg sh t p).2.todo = t.todo ∧ (runTo d cfg sh t p).2.ctl ≠ .done := by
  unfold runTo
  simp only
  cases (advP d cfg sh p).1 with
  | enter T r k => simp only [applyAdv]; split <;> simp
  | fin res => exact finish_todo t res

theorem startLoad_todo (d : Doc V E) (cfg : Cfg) (sh : Shared V E) (t : Thread V E) (r : Nat) (p : Prog V E) :
    (startLoad d cfg sh t r p).2.todo = t.todo ∧ (startLoad d cfg sh t r p).2.ctl ≠ .done := by
  unfold startLoad
  split
  · simp
  · exact runTo_todo d cfg sh t p

theorem afterLookup_todo (d : Doc V E) (cfg : Cfg) (sh : Shared V E) (t : Thread V E) (T r : Nat) (k : Res V E → Prog V E)
    (T' : Nat) (res : Res V E) :
    (afterLookup d cfg sh t T r k T' res).2.todo = t.todo ∧ (afterLookup d cfg sh t T r k T' res).2.ctl ≠ .done := by
  unfold afterLookup
  cases res with
  | ok v =>
    simp only
    split
    · simp
    · exact startLoad_todo d cfg sh _ _ _
  | err e => exact startLoad_todo d cfg sh _ _ _
  | oof => exact startLoad_todo d cfg sh _ _ _

theorem stepT_busy {d : Doc V E} {cfg : Cfg} {i : Nat} {sh sh' : Shared V E} {t t' : Thread V E}
    (hs : stepT d cfg i sh t = some (sh', t')) (hc : t.ctl ≠ .start) : t'.todo = t.todo ∧ t'.ctl ≠ .done := by
  obtain ⟨ctl, stack, chain, todo, out⟩ := t
  simp only at hc
  have fin : ∀ (x : Shared V E × Thread V E), some x = some (sh', t') → (x.2.todo = todo ∧ x.2.ctl ≠ .done) →
      t'.todo = todo ∧ t'.ctl ≠ .done := by
    intro x hx h
    simp only [Option.some.injEq] at hx
    subst hx
    exact h
  cases ctl with
  | start => exact absurd rfl hc
  | done => simp [stepT] at hs
  | panicked => simp [stepT] at hs
  | enter T r k =>
    simp only [stepT] at hs
    split at hs
    · split at hs
      · exact fin _ hs (by simp)
      · split at hs
        · exact fin _ hs (runTo_todo d cfg sh _ _)
        · split at hs
          · exact fin _ hs (runTo_todo d cfg sh _ _)
          · exact fin _ hs (by simp)
    · split at hs
      · exact fin _ hs (runTo_todo d cfg sh _ _)
      · split at hs
        · exact fin _ hs (runTo_todo d cfg sh _ _)
        · exact fin _ hs (by simp)
  | pushed T r k =>
    simp only [stepT] at hs
    split at hs
    · split at hs
      · exact fin _ hs (startLoad_todo d cfg _ _ _ _)
      · exact fin _ hs (by simp)
      · exact fin _ hs (afterLookup_todo d cfg sh _ T r k _ _)
    · exact fin _ hs (startLoad_todo d cfg sh _ _ _)
  | logging T r k =>
    simp only [stepT] at hs
    exact fin _ hs (by simp)
  | loading r p =>
    simp only [stepT] at hs
    exact fin _ hs (runTo_todo d cfg sh _ _)
  | waiting T r k =>
    simp only [stepT] at hs
    split at hs
    · exact fin _ hs (afterLookup_todo d cfg sh _ T r k _ _)
    · simp at hs
  | storing res =>
    simp only [stepT] at hs
    split at hs
    · exact fin _ hs (by simp)
    · simp at hs
  | popping T r k res =>
    simp only [stepT] at hs
    split at hs
    · split at hs
      · exact fin _ hs (by simp)
      · split at hs
        · split at hs
          · exact fin _ hs (runTo_todo d cfg _ _ _)
          · exact fin _ hs (by simp)
        · exact fin _ hs (by simp)
    · split at hs
      · split at hs
        · exact fin _ hs (runTo_todo d cfg sh _ _)
        · exact fin _ hs (by simp)
      · exact fin _ hs (by simp)

theorem stepT_start {d : Doc V E} {cfg : Cfg} {i : Nat} {sh sh' : Shared V E} {t t' : Thread V E} {p : Prog V E}
    (hs : stepT d cfg i sh t = some (sh', t')) (hc : t.ctl = .start) (ht : t.todo = [p]) :
    t'.todo = [] ∧ t'.ctl ≠ .done := by
  obtain ⟨ctl, stack, chain, todo, out⟩ := t
  simp only at hc ht
  subst hc; subst ht
  simp only [stepT, Option.some.injEq] at hs
  have := runTo_todo d cfg sh ⟨.start, stack, chain, [], out⟩ p
  rw [hs] at this
  exact this

end Conc

namespace Conc
open Cache
variable {V E : Type}

theorem step_thread {d : Doc V E} {cfg : Cfg} {s s' : State V E} {i : Nat} {t : Thread V E}
    (hs : step d cfg s i = some s') (ht : s.threads[i]? = some t) (hc : t.ctl ≠ .start) :
    ∃ t', s'.threads[i]? = some t' ∧ t'.todo = t.todo ∧ t'.ctl ≠ .done := by
  unfold step at hs
  simp only [ht] at hs
  cases hst : stepT d cfg i s.sh t with
  | none => simp [hst] at hs
  | some x =>
    obtain ⟨sh', t'⟩ := x
    simp only [hst, Option.some.injEq] at hs
    subst hs
    exact ⟨t', by simp [(List.getElem?_eq_some_iff.mp ht).1], stepT_busy hst hc⟩

theorem launch_thread {d : Doc V E} {cfg : Cfg} {s s' : State V E} {i : Nat} {p : Prog V E}
    (hl : launch d cfg s i p = some s') (hidle : innerIdle s i = true) :
    ∃ t', s'.threads[i]? = some t' ∧ t'.todo = [] ∧ t'.ctl ≠ .done := by
  obtain ⟨t, ht, hctl, _⟩ := innerIdle_iff.mp hidle
  unfold launch at hl
  simp only [ht] at hl
  unfold step at hl
  have hlt : i < s.threads.length := (List.getElem?_eq_some_iff.mp ht).1
  simp only [List.getElem?_set, hlt, if_true] at hl
  cases hst : stepT d cfg i s.sh { t with todo := [p] } with
  | none => simp [hst] at hl
  | some x =>
    obtain ⟨sh', t'⟩ := x
    simp only [hst, Option.some.injEq] at hl
    subst hl
    exact ⟨t', by simp [hlt], stepT_start hst hctl rfl⟩

theorem launch_isSome (d : Doc V E) (cfg : Cfg) (s : State V E) (i : Nat) (p : Prog V E) (hidle : innerIdle s i = true) :
    (launch d cfg s i p).isSome = true := by
  obtain ⟨t, ht, hctl, _⟩ := innerIdle_iff.mp hidle
  obtain ⟨ctl, stack, chain, todo, out⟩ := t
  simp only at hctl
  subst hctl
  have hlt : i < s.threads.length := (List.getElem?_eq_some_iff.mp ht).1
  unfold launch
  simp only [ht]
  unfold step
  simp only [List.getElem?_set, hlt, if_true]
  simp [stepT]

theorem notIdle_ctl {s : State V E} {i : Nat} {t : Thread V E} (h : innerIdle s i = false) (ht : s.threads[i]? = some t)
    (htodo : t.todo = []) : t.ctl ≠ .start := by
  intro hc
  have : innerIdle s i = true := innerIdle_iff.mpr ⟨t, ht, hc, htodo⟩
  rw [h] at this
  cases this

theorem launch_ownWait {d : Doc V E} {cfg : Cfg} {s s' : State V E} {i : Nat} {p : Prog V E}
    (h : OwnInv s ∧ WaitInv s) (hl : launch d cfg s i p = some s') : OwnInv s' ∧ WaitInv s' := by
  obtain ⟨ho, hw⟩ := h
  unfold launch at hl
  cases ht : s.threads[i]? with
  | none => simp [ht] at hl
  | some t =>
    simp only [ht] at hl
    have hlt : i < s.threads.length := (List.getElem?_eq_some_iff.mp ht).1
    refine step_ownWait ⟨?_, ?_⟩ hl
    · intro r j hj
      obtain ⟨u, hu, f, hf, hfr, hfs⟩ := ho r j hj
      by_cases e : j = i
      · subst e
        rw [ht] at hu
        simp only [Option.some.injEq] at hu
        subst hu
        exact ⟨{ t with todo := [p] }, by simp [hlt], f, hf, hfr, hfs⟩
      · exact ⟨u, by simp [List.getElem?_set, Ne.symm e, hu], f, hf, hfr, hfs⟩
    · intro j u T r k hu hc
      simp only [List.getElem?_set] at hu
      split at hu
      · rename_i e
        subst e
        simp only [hlt, if_true, Option.some.injEq] at hu
        subst hu
        exact hw i t T r k ht hc
      · exact hw j u T r k hu hc

theorem step_length {d : Doc V E} {cfg : Cfg} {s s' : State V E} {i : Nat} (hs : step d cfg s i = some s') :
    s'.threads.length = s.threads.length := by
  unfold step at hs
  cases ht : s.threads[i]? with
  | none => simp [ht] at hs
  | some t =>
    simp only [ht] at hs
    cases hst : stepT d cfg i s.sh t with
    | none => simp [hst] at hs
    | some x =>
      simp only [hst, Option.some.injEq] at hs
      subst hs
      simp

theorem launch_length {d : Doc V E} {cfg : Cfg} {s s' : State V E} {i : Nat} {p : Prog V E} (hl : launch d cfg s i p = some s') :
    s'.threads.length = s.threads.length := by
  unfold launch at hl
  cases ht : s.threads[i]? with
  | none => simp [ht] at hl
  | some t =>
    simp only [ht] at hl
    rw [step_length hl]
    simp

/-- the part of the state the progress argument needs -/
structure LLive (s : LState V E) : Prop where
  len : s.lthreads.length = s.inner.threads.length
  own : OwnInv s.inner
  wait : WaitInv s.inner
  cell : ∀ (c j : Nat), cellOf s.cells c = .loading j → ∃ lt, s.lthreads[j]? = some lt ∧ Claims lt.lctl c
  busy : ∀ (i : Nat) (lt : LThread V E) (c : Option Nat) (p : Prog V E), s.lthreads[i]? = some lt → lt.lctl = .running c p →
    ∃ t, s.inner.threads[i]? = some t ∧ t.todo = [] ∧ t.ctl ≠ .start ∧ t.ctl ≠ .done

theorem LLive.update {s : LState V E} (hl : LLive s) {i : Nat} {lt lt' : LThread V E} (hlt : s.lthreads[i]? = some lt)
    {inner' : State V E} {cells' : List (Nat × Cell V)} (hlen : inner'.threads.length = s.inner.threads.length)
    (hown : OwnInv inner') (hwait : WaitInv inner')
    (hcell : ∀ (c j : Nat), cellOf cells' c = .loading j → (j = i ∧ Claims lt'.lctl c) ∨ (j ≠ i ∧ cellOf s.cells c = .loading j))
    (hbo : ∀ (j : Nat), j ≠ i → inner'.threads[j]? = s.inner.threads[j]?)
    (hbm : ∀ c p, lt'.lctl = .running c p → ∃ t, inner'.threads[i]? = some t ∧ t.todo = [] ∧ t.ctl ≠ .start ∧ t.ctl ≠ .done) :
    LLive ⟨inner', cells', s.lthreads.set i lt'⟩ := by
  have hi : i < s.lthreads.length := (List.getElem?_eq_some_iff.mp hlt).1
  refine ⟨by simp [hl.len, hlen], hown, hwait, ?_, ?_⟩
  · intro c j hc
    rcases hcell c j hc with ⟨rfl, hcl⟩ | ⟨hj, hold⟩
    · exact ⟨lt', by simp [hi], hcl⟩
    · obtain ⟨ltj, hltj, hcl⟩ := hl.cell c j hold
      exact ⟨ltj, by simp [List.getElem?_set, Ne.symm hj, hltj], hcl⟩
  · intro j ltj c p hj hc
    simp only [List.getElem?_set] at hj
    split at hj
    · rename_i e
      subst e
      simp only [hi, if_true, Option.some.injEq] at hj
      subst hj
      exact hbm c p hc
    · rename_i e
      rw [hbo j (fun e' => e e'.symm)]
      exact hl.busy j ltj c p hj hc

end Conc

namespace Conc
open Cache
variable {V E : Type}

theorem LLive.cell_same {s : LState V E} (hl : LLive s) {i : Nat} {lt : LThread V E} (hlt : s.lthreads[i]? = some lt)
    {c' : LCtl V E} (hcl : ∀ c, Claims lt.lctl c → Claims c' c) :
    ∀ (c j : Nat), cellOf s.cells c = .loading j → (j = i ∧ Claims c' c) ∨ (j ≠ i ∧ cellOf s.cells c = .loading j) := by
  intro c j hc
  by_cases e : j = i
  · subst e
    obtain ⟨lt0, h0, hc0⟩ := hl.cell c j hc
    rw [hlt] at h0
    simp only [Option.some.injEq] at h0
    subst h0
    exact .inl ⟨rfl, hcl c hc0⟩
  · exact .inr ⟨e, hc⟩

section LiveStep
variable {d : Doc V E} {filt : Nat → List Nat} {rank : Nat → Nat} {N : Nat} {init : Nat → Prog V E}

theorem lstep_LLive {lc : LCfg} (hr : lc.racy = false) {items0 : List (List (Item V E))} {s s' : LState V E} {i : Nat}
    (h : LInv d filt rank N init items0 s) (hl : LLive s) (hs : lstep d init lc s i = some s') : LLive s' := by
  unfold lstep at hs
  cases hlt : s.lthreads[i]? with
  | none => simp [hlt] at hs
  | some lt =>
  simp only [hlt] at hs
  obtain ⟨css, _, _, hL⟩ := h.inner
  have hlink := hL i lt hlt
  have hown := h.own i lt hlt
  have hcellI := fun c => hl.cell c i
  obtain ⟨ctl, items, past, out⟩ := lt
  simp only at hs hlink hown
  cases ctl with
  | finished => simp at hs
  | panicked => simp at hs
  | idle =>
    simp only at hs
    cases items with
    | nil =>
      simp only [Option.some.injEq] at hs
      subst hs
      exact hl.update hlt rfl hl.own hl.wait (hl.cell_same hlt fun c hc => False.elim hc) (fun _ _ => rfl) (by intro c p e; cases e)
    | cons it rest =>
      cases it with
      | call p =>
        simp only [Option.map_eq_some_iff] at hs
        obtain ⟨inner', hla, rfl⟩ := hs
        obtain ⟨ho', hw'⟩ := launch_ownWait ⟨hl.own, hl.wait⟩ hla
        obtain ⟨t', ht', htodo', hdone'⟩ := launch_thread hla hlink
        cases hid : innerIdle inner' i with
        | true =>
          rw [settle_idle _ _ _ _ _ _ hid]
          exact hl.update hlt (launch_length hla) ho' hw' (hl.cell_same hlt fun c hc => False.elim hc) (fun j hj => launch_other hla j hj) (by intro c p e; cases e)
        | false =>
          rw [settle_busy _ _ _ _ _ _ hid]
          refine hl.update hlt (launch_length hla) ho' hw' (hl.cell_same hlt fun c hc => False.elim hc) (fun j hj => launch_other hla j hj) ?_
          intro c p _
          exact ⟨t', ht', htodo', notIdle_ctl hid ht' htodo', hdone'⟩
      | lazy c =>
        simp only [Option.some.injEq] at hs
        subst hs
        exact hl.update hlt rfl hl.own hl.wait (hl.cell_same hlt fun c hc => False.elim hc) (fun _ _ => rfl) (by intro c p e; cases e)
      | peek c =>
        simp only [Option.some.injEq] at hs
        subst hs
        exact hl.update hlt rfl hl.own hl.wait (hl.cell_same hlt fun c hc => False.elim hc) (fun _ _ => rfl) (by intro c p e; cases e)
  | entering c =>
    simp only at hs
    cases hcell : cellOf s.cells c with
    | full v =>
      simp only [hcell, Option.some.injEq] at hs
      subst hs
      exact hl.update hlt rfl hl.own hl.wait (hl.cell_same hlt fun c hc => False.elim hc) (fun _ _ => rfl) (by intro c p e; cases e)
    | loading j => simp [hcell, hr] at hs
    | empty =>
      simp only [hcell, hr, Option.map_eq_some_iff] at hs
      obtain ⟨inner', hla, rfl⟩ := hs
      obtain ⟨ho', hw'⟩ := launch_ownWait ⟨hl.own, hl.wait⟩ hla
      obtain ⟨t', ht', htodo', hdone'⟩ := launch_thread hla hlink
      have hcell' : ∀ (x : LCtl V E), (∀ c', c' = c → Claims x c') → ∀ (c' j : Nat), cellOf ((c, Cell.loading i) :: s.cells) c' = .loading j →
          (j = i ∧ Claims x c') ∨ (j ≠ i ∧ cellOf s.cells c' = .loading j) := by
        intro x hx c' j hc'
        rw [cellOf_cons] at hc'
        split at hc'
        · rename_i e
          cases hc'
          exact .inl ⟨rfl, hx c' e⟩
        · by_cases e : j = i
          · subst e
            obtain ⟨lt0, h0, hc0⟩ := hcellI c' hc'
            rw [hlt] at h0
            simp only [Option.some.injEq] at h0
            subst h0
            exact False.elim hc0
          · exact .inr ⟨e, hc'⟩
      cases hid : innerIdle inner' i with
      | true =>
        rw [settle_idle _ _ _ _ _ _ hid]
        exact hl.update hlt (launch_length hla) ho' hw' (hcell' _ fun c' e => e) (fun j hj => launch_other hla j hj) (by intro c p e; cases e)
      | false =>
        rw [settle_busy _ _ _ _ _ _ hid]
        refine hl.update hlt (launch_length hla) ho' hw' (hcell' _ fun c' e => e) (fun j hj => launch_other hla j hj) ?_
        intro c p _
        exact ⟨t', ht', htodo', notIdle_ctl hid ht' htodo', hdone'⟩
  | running c p =>
    simp only [Option.map_eq_some_iff] at hs
    obtain ⟨inner', hst, rfl⟩ := hs
    obtain ⟨ho', hw'⟩ := step_ownWait ⟨hl.own, hl.wait⟩ hst
    obtain ⟨t, ht, htodo, hstart, _⟩ := hl.busy i _ c p hlt rfl
    obtain ⟨t', ht', htodo', hdone'⟩ := step_thread hst ht hstart
    rw [htodo] at htodo'
    cases hid : innerIdle inner' i with
    | true =>
      rw [settle_idle _ _ _ _ _ _ hid]
      cases c with
      | some c =>
        exact hl.update hlt (step_length hst) ho' hw' (hl.cell_same hlt fun c' hc' => hc') (fun j hj => step_other hst j hj) (by intro c p e; cases e)
      | none =>
        exact hl.update hlt (step_length hst) ho' hw' (hl.cell_same hlt fun c' hc' => False.elim hc') (fun j hj => step_other hst j hj) (by intro c p e; cases e)
    | false =>
      rw [settle_busy _ _ _ _ _ _ hid]
      refine hl.update hlt (step_length hst) ho' hw' (hl.cell_same hlt fun c' hc' => hc') (fun j hj => step_other hst j hj) ?_
      intro c p _
      exact ⟨t', ht', htodo', notIdle_ctl hid ht' htodo', hdone'⟩
  | storing c res =>
    have hmine : cellOf s.cells c = .loading i := hown c rfl
    simp only [hr, hmine, Bool.false_eq_true, reduceIte] at hs
    have hcell' : ∀ (x : Cell V), (∀ j, x ≠ .loading j) → ∀ (c' j : Nat), cellOf ((c, x) :: s.cells) c' = .loading j →
        (j = i ∧ Claims (LCtl.idle : LCtl V E) c') ∨ (j ≠ i ∧ cellOf s.cells c' = .loading j) := by
      intro x hx c' j hc'
      rw [cellOf_cons] at hc'
      split at hc'
      · exact absurd hc' (hx j)
      · rename_i hne
        by_cases e : j = i
        · subst e
          obtain ⟨lt0, h0, hc0⟩ := hcellI c' hc'
          rw [hlt] at h0
          simp only [Option.some.injEq] at h0
          subst h0
          exact absurd hc0 hne
        · exact .inr ⟨e, hc'⟩
    cases res with
    | ok v =>
      simp only [Option.some.injEq] at hs
      subst hs
      exact hl.update hlt rfl hl.own hl.wait (hcell' _ (by intro j e; cases e)) (fun _ _ => rfl) (by intro c p e; cases e)
    | err e =>
      simp only [Option.some.injEq] at hs
      subst hs
      exact hl.update hlt rfl hl.own hl.wait (hcell' _ (by intro j e; cases e)) (fun _ _ => rfl) (by intro c p e; cases e)
    | oof =>
      simp only [Option.some.injEq] at hs
      subst hs
      exact hl.update hlt rfl hl.own hl.wait (hcell' _ (by intro j e; cases e)) (fun _ _ => rfl) (by intro c p e; cases e)

theorem init_LLive (stm : List (Nat × Res V E)) (items : List (List (Item V E))) :
    LLive (LState.init ([] : List (Nat × Slot V E)) stm items) := by
  obtain ⟨ho, hw⟩ := init_ownWait stm (items.map fun _ => ([] : List (Prog V E)))
  refine ⟨by simp [LState.init, State.init], ho, hw, ?_, ?_⟩
  · intro c j hc
    simp [LState.init, cellOf] at hc
  · intro i lt c p hlt hc
    simp only [LState.init, List.getElem?_map, Option.map_eq_some_iff] at hlt
    obtain ⟨its, _, rfl⟩ := hlt
    cases hc

end LiveStep
end Conc

namespace Conc
open Cache
variable {V E : Type}

section Enabled
variable (d : Doc V E) (init : Nat → Prog V E) (lc : LCfg)

theorem lstep_running {s : LState V E} {i : Nat} {lt : LThread V E} {c : Option Nat} {p : Prog V E}
    (hlt : s.lthreads[i]? = some lt) (hc : lt.lctl = .running c p) :
    lstep d init lc s i = (step d lc.cfg s.inner i).map fun inner' => settle s i lt c p inner' := by
  obtain ⟨ctl, items, past, out⟩ := lt
  simp only at hc
  subst hc
  unfold lstep
  simp only [hlt]

theorem lstep_idle_enabled {s : LState V E} {i : Nat} {lt : LThread V E} (hlt : s.lthreads[i]? = some lt)
    (hc : lt.lctl = .idle) (hidle : innerIdle s.inner i = true) : (lstep d init lc s i).isSome = true := by
  obtain ⟨ctl, items, past, out⟩ := lt
  simp only at hc
  subst hc
  unfold lstep
  simp only [hlt]
  cases items with
  | nil => rfl
  | cons it rest =>
    cases it with
    | call p =>
      simp only [Option.isSome_map]
      exact launch_isSome d lc.cfg s.inner i p hidle
    | lazy c => rfl
    | peek c => rfl

theorem lstep_storing_enabled (hr : lc.racy = false) {s : LState V E} {i : Nat} {lt : LThread V E} {c : Nat} {res : Res V E}
    (hlt : s.lthreads[i]? = some lt) (hc : lt.lctl = .storing c res) : (lstep d init lc s i).isSome = true := by
  obtain ⟨ctl, items, past, out⟩ := lt
  simp only at hc
  subst hc
  unfold lstep
  simp only [hlt, hr, Bool.false_eq_true, reduceIte]
  split
  · split
    · cases res <;> rfl
    · rfl
  · rfl

theorem lstep_entering_enabled {s : LState V E} {i : Nat} {lt : LThread V E} {c : Nat}
    (hlt : s.lthreads[i]? = some lt) (hc : lt.lctl = .entering c) (hidle : innerIdle s.inner i = true)
    (hfree : ∀ j, cellOf s.cells c ≠ .loading j) : (lstep d init lc s i).isSome = true := by
  obtain ⟨ctl, items, past, out⟩ := lt
  simp only at hc
  subst hc
  unfold lstep
  simp only [hlt]
  cases hcell : cellOf s.cells c with
  | full v => rfl
  | loading j => exact absurd hcell (hfree j)
  | empty =>
    simp only [Option.isSome_map]
    exact launch_isSome d lc.cfg s.inner i (init c) hidle

end Enabled

section Progress
variable {d : Doc V E} {filt : Nat → List Nat} {rank : Nat → Nat} {N : Nat} {init : Nat → Prog V E}

/-- **No deadlock in the once-cell layer** (from the invariants). -/
theorem LInv.not_deadlocked (hN : ∀ r, rank r < N) {lc : LCfg} (hr : lc.racy = false)
    {items0 : List (List (Item V E))} {s : LState V E}
    (h : LInv d filt rank N init items0 s) (hl : LLive s) : s.deadlocked d init lc = false := by
  obtain ⟨css, ⟨_, hlen, hth⟩, _, hL⟩ := h.inner
  -- facts about one inner thread
  have thr : ∀ (i : Nat) (t : Thread V E), s.inner.threads[i]? = some t → ∃ cs, css[i]? = some cs ∧ ChainOK t ∧
      TInv d filt rank N (ans d rank) cs t := by
    intro i t ht
    have hi : i < css.length := by rw [← hlen]; exact (List.getElem?_eq_some_iff.mp ht).1
    exact ⟨css[i], List.getElem?_eq_getElem hi, hth i t css[i] ht (List.getElem?_eq_getElem hi)⟩
  -- an inner thread that cannot move is waiting for a slot somebody has in process
  have stuck : ∀ (i : Nat) (t : Thread V E), s.inner.threads[i]? = some t → t.ctl.isFinal = false → step d lc.cfg s.inner i = none →
      ∃ T r k j, t.ctl = .waiting T r k ∧ s.inner.sh.slots.lookup r = some (.inProcess j) := by
    intro i t ht hfin hen
    obtain ⟨cs, _, _, done, _, hm⟩ := thr i t ht
    have hnone : stepT d lc.cfg i s.inner.sh t = none := by
      simp only [step, ht] at hen
      cases hst : stepT d lc.cfg i s.inner.sh t with
      | none => rfl
      | some p => simp [hst] at hen
    have hstore : ∀ res, t.ctl = .storing res → t.stack ≠ [] := by
      intro res hc
      rw [hc] at hm
      simp only [resid] at hm
      obtain ⟨cur, _, _, _, h4⟩ := hm
      obtain ⟨f, rest, h5, _⟩ := h4 res rfl
      rw [h5]; simp
    cases hc : t.ctl with
    | waiting T r k =>
      cases hlk : s.inner.sh.slots.lookup r with
      | none => exact absurd hlk (hl.wait i t T r k ht hc)
      | some sl =>
        cases sl with
        | inProcess j => exact ⟨T, r, k, j, rfl, hlk⟩
        | computed T' res =>
          exfalso
          have := stepT_enabled d lc.cfg i s.inner.sh t hfin hstore
            (fun T1 r1 k1 h1 => by rw [hc] at h1; cases h1; exact ⟨T', res, hlk⟩)
          rw [hnone] at this; simp at this
    | _ =>
      exfalso
      have := stepT_enabled d lc.cfg i s.inner.sh t hfin hstore (fun T1 r1 k1 h1 => by rw [hc] at h1; cases h1)
      rw [hnone] at this; simp at this
  cases hdl : s.deadlocked d init lc with
  | false => rfl
  | true =>
    exfalso
    simp only [LState.deadlocked, Bool.and_eq_true, Bool.not_eq_true', List.all_eq_true, List.mem_range] at hdl
    obtain ⟨hnd, hnone⟩ := hdl
    have blocked : ∀ (i : Nat) (lt : LThread V E), s.lthreads[i]? = some lt → lstep d init lc s i = none := by
      intro i lt hlt
      have := hnone i (List.getElem?_eq_some_iff.mp hlt).1
      simp only [LState.enabled] at this
      cases hst : lstep d init lc s i with
      | none => rfl
      | some x => simp [hst] at this
    -- a running thread that cannot move: its inner thread is not final and cannot move
    have runBlocked : ∀ (i : Nat) (lt : LThread V E) (c : Option Nat) (p : Prog V E), s.lthreads[i]? = some lt → lt.lctl = .running c p →
        ∃ t, s.inner.threads[i]? = some t ∧ t.ctl.isFinal = false ∧ step d lc.cfg s.inner i = none := by
      intro i lt c p hlt hc
      obtain ⟨t, ht, _, hstart, hdone⟩ := hl.busy i lt c p hlt hc
      obtain ⟨_, _, hch, _⟩ := thr i t ht
      refine ⟨t, ht, ?_, ?_⟩
      · have := hch.2
        cases hct : t.ctl <;> simp_all [Ctl.isFinal, Ctl.isPanicked]
      · have := blocked i lt hlt
        rw [lstep_running d init lc hlt hc] at this
        simpa using this
    -- no running thread waits for a slot of rank m, by induction on m
    have key : ∀ (m : Nat) (i : Nat) (lt : LThread V E) (c : Option Nat) (p : Prog V E) (t : Thread V E) (T r : Nat) (k : Res V E → Prog V E),
        s.lthreads[i]? = some lt → lt.lctl = .running c p → s.inner.threads[i]? = some t → t.ctl = .waiting T r k → rank r = m → False := by
      intro m
      induction m using Nat.strongRecOn with
      | _ m ih =>
        intro i lt c p t T r k hlt hc ht hct hm
        obtain ⟨t0, ht0, hfin, hstep⟩ := runBlocked i lt c p hlt hc
        rw [ht] at ht0
        simp only [Option.some.injEq] at ht0
        subst ht0
        obtain ⟨T1, r1, k1, j, hc1, hslot⟩ := stuck i t ht hfin hstep
        rw [hct] at hc1
        simp only [Ctl.waiting.injEq] at hc1
        obtain ⟨_, rfl, _⟩ := hc1
        -- the owner j of the slot has a frame for r; its thread is running an initialiser or a call and is stuck too
        obtain ⟨u, hu, f, hf, hfr, _⟩ := hl.own r j hslot
        have hj : j < s.lthreads.length := by rw [hl.len]; exact (List.getElem?_eq_some_iff.mp hu).1
        have hltj : s.lthreads[j]? = some s.lthreads[j] := List.getElem?_eq_getElem hj
        obtain ⟨cs, _, _, done, _, hmu⟩ := thr j u hu
        have hrun : ∃ c2 p2, s.lthreads[j].lctl = .running c2 p2 := by
          have hlk := hL j _ hltj
          cases hcj : s.lthreads[j].lctl with
          | running c2 p2 => exact ⟨c2, p2, rfl⟩
          | _ =>
            exfalso
            rw [hcj] at hlk
            simp only [Link] at hlk
            obtain ⟨u', hu', hcu', _⟩ := innerIdle_iff.mp hlk
            rw [hu] at hu'
            simp only [Option.some.injEq] at hu'
            subst hu'
            rw [hcu'] at hmu
            simp only [resid] at hmu
            rw [hmu.1] at hf
            simp at hf
        obtain ⟨c2, p2, hc2⟩ := hrun
        obtain ⟨u0, hu0, hufin, hustep⟩ := runBlocked j _ c2 p2 hltj hc2
        rw [hu] at hu0
        simp only [Option.some.injEq] at hu0
        subst hu0
        obtain ⟨T2, r2, k2, j2, hcw, _⟩ := stuck j u hu hufin hustep
        rw [hcw] at hmu
        simp only [resid] at hmu
        obtain ⟨cur, _, hp, hst, _⟩ := hmu
        have h1 := stack_ranks hN u.stack _ cur hst f hf
        have h2 := hp.get_inv.1
        exact ih (rank r2) (by rw [← hm, ← hfr]; omega) j _ c2 p2 u T2 r2 k2 hltj hc2 hu hcw rfl
    -- a running thread that cannot move at all
    have noRun : ∀ (i : Nat) (lt : LThread V E) (c : Option Nat) (p : Prog V E), s.lthreads[i]? = some lt → lt.lctl = .running c p → False := by
      intro i lt c p hlt hc
      obtain ⟨t, ht, hfin, hstep⟩ := runBlocked i lt c p hlt hc
      obtain ⟨T, r, k, j, hcw, _⟩ := stuck i t ht hfin hstep
      exact key (rank r) i lt c p t T r k hlt hc ht hcw rfl
    -- an unfinished thread exists
    simp [LState.allDone] at hnd
    obtain ⟨lt, hmem, hnf⟩ := hnd
    obtain ⟨i, hi, rfl⟩ := List.getElem_of_mem hmem
    have hlt : s.lthreads[i]? = some s.lthreads[i] := List.getElem?_eq_getElem hi
    have hb := blocked i _ hlt
    have hlk := hL i _ hlt
    cases hc : s.lthreads[i].lctl with
    | finished => rw [hc] at hnf; cases hnf
    | panicked => rw [hc] at hnf; cases hnf
    | idle =>
      rw [hc] at hlk
      have := lstep_idle_enabled d init lc hlt hc hlk
      rw [hb] at this; cases this
    | storing c res =>
      have := lstep_storing_enabled d init lc hr hlt hc
      rw [hb] at this; cases this
    | running c p => exact noRun i _ c p hlt hc
    | entering c =>
      rw [hc] at hlk
      by_cases hfree : ∀ j, cellOf s.cells c ≠ .loading j
      · have := lstep_entering_enabled d init lc hlt hc hlk hfree
        rw [hb] at this; cases this
      · have : ∃ j, cellOf s.cells c = .loading j := by
          cases hcell : cellOf s.cells c with
          | loading j => exact ⟨j, rfl⟩
          | empty => exact absurd (fun j e => by rw [hcell] at e; cases e) hfree
          | full v => exact absurd (fun j e => by rw [hcell] at e; cases e) hfree
        obtain ⟨j, hcell⟩ := this
        obtain ⟨ltj, hltj, hclaim⟩ := hl.cell c j hcell
        cases hcj : ltj.lctl with
        | running c2 p2 => exact noRun j ltj c2 p2 hltj hcj
        | storing c2 res =>
          have := lstep_storing_enabled d init lc hr hltj hcj
          rw [blocked j ltj hltj] at this; cases this
        | idle => rw [hcj] at hclaim; exact hclaim
        | entering c2 => rw [hcj] at hclaim; exact hclaim
        | finished => rw [hcj] at hclaim; exact hclaim
        | panicked => rw [hcj] at hclaim; exact hclaim

end Progress
end Conc

namespace Conc
open Cache
variable {V E : Type} {d : Doc V E} {filt : Nat → List Nat} {rank : Nat → Nat} {N : Nat} {init : Nat → Prog V E}

theorem reachable_LInv_LLive (wf : WF d filt rank) (hN : ∀ r, rank r < N) (hD : N ≤ maxNestedGets) {lc : LCfg}
    (hg : lc.cfg.sharedGuard = false) (hr : lc.racy = false)
    (hinit : ∀ c, Fine filt (fun r' => rank r' < N) (init c))
    {items0 : List (List (Item V E))} {s0 s : LState V E}
    (h0 : LInv d filt rank N init items0 s0) (hl0 : LLive s0) (hreach : LReachable d init lc s0 s) :
    LInv d filt rank N init items0 s ∧ LLive s := by
  induction hreach with
  | init => exact ⟨h0, hl0⟩
  | step i _ hs ih => exact ⟨lstep_LInv wf hN hD hg hr hinit ih.1 hs, lstep_LLive hr ih.1 ih.2 hs⟩

end Conc
