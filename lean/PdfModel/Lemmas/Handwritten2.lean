import PdfModel.Model.Handwritten2
import PdfModel.Lemmas.Derive
import PdfModel.Lemmas.FontEncoding

/-! Round-trip lemmas for the hand-written pairs of `Model/Handwritten2.lean` (C15). -/

namespace Derive

/-! ## destinations -/

theorem readDestArr_writeDest (tol : Bool) (d : DestV) :
    ∃ xs, writeDest d = .arr xs ∧ readDestArr tol xs = .ok d := by
  obtain ⟨page, view⟩ := d
  cases page with
  | none =>
    cases view with
    | xyz l t z => cases l <;> cases t <;> exact ⟨_, rfl, by simp [readDestArr, destPage, optCoord, optNumber, zoomOf]⟩
    | _ => exact ⟨_, rfl, by simp [readDestArr, destPage, coord]⟩
  | some pg =>
    obtain ⟨i, g⟩ := pg
    cases view with
    | xyz l t z => cases l <;> cases t <;> exact ⟨_, rfl, by simp [readDestArr, destPage, optCoord, optNumber, zoomOf]⟩
    | _ => exact ⟨_, rfl, by simp [readDestArr, destPage, coord]⟩

theorem namedDest_read_write (env : Env) (d : NamedDest) : readNamedDestV env (writeNamedDestV d) = .ok d := by
  cases d with
  | named s => simp [writeNamedDestV, readNamedDestV, resolve1, resolveP]
  | direct d =>
    obtain ⟨xs, hw, hr⟩ := readDestArr_writeDest env.tolerant d
    simp [writeNamedDestV, hw, readNamedDestV, resolve1, resolveP, hr, Except.map]

/-! ## number trees -/

theorem readNums_writeNums (rdT : Prim → R Val) (wrT : Val → R Prim) :
    ∀ (items : List (Int × Val)) (ps : List Prim),
      (∀ kv ∈ items, ∀ q, wrT kv.2 = .ok q → ∃ v', rdT q = .ok v' ∧ wrT v' = .ok q) →
      writeNums wrT items = .ok ps →
      ∃ items', readNums rdT ps = .ok items' ∧ writeNums wrT items' = .ok ps := by
  intro items
  induction items with
  | nil => intro ps _ h; simp [writeNums] at h; subst h; exact ⟨[], by simp [readNums], by simp [writeNums]⟩
  | cons kv r ih =>
    obtain ⟨k, v⟩ := kv
    intro ps hl h
    simp only [writeNums] at h
    cases hv : wrT v with
    | error e => simp [hv] at h
    | ok p =>
      simp only [hv] at h
      cases hr : writeNums wrT r with
      | error e => simp [hr] at h
      | ok t =>
        simp [hr] at h; subst h
        obtain ⟨v', hrd, hwr⟩ := hl (k, v) (by simp) p hv
        obtain ⟨r', hr1, hr2⟩ := ih t (fun x hx => hl x (by simp [hx])) hr
        exact ⟨(k, v') :: r', by simp [readNums, hrd, hr1], by simp [writeNums, hwr, hr2]⟩

theorem asRefs_map (kids : List (Nat × Nat)) : asRefs (kids.map fun k => Prim.ref k.1 k.2) = .ok kids := by
  induction kids with
  | nil => rfl
  | cons k r ih => obtain ⟨a, b⟩ := k; simp [asRefs, ih]

theorem numTree_round_trips (rdT : Prim → R Val) (wrT : Val → R Prim) (env : Env) (t : NumTree)
    (hl : ∀ items, t.node = .leaf items → ∀ kv ∈ items, ∀ q, wrT kv.2 = .ok q → ∃ v', rdT q = .ok v' ∧ wrT v' = .ok q)
    (p : Prim) (hw : writeNumTree wrT t = .ok p) :
    ∃ t', readNumTree rdT env p = .ok t' ∧ writeNumTree wrT t' = .ok p := by
  obtain ⟨limits, node⟩ := t
  cases node with
  | inter kids =>
    simp only [writeNumTree] at hw
    cases limits with
    | none =>
      simp at hw; subst hw
      exact ⟨⟨none, .inter kids⟩, by simp [readNumTree, resolve1, resolveP, dinsert, dget, asRefs_map], by simp [writeNumTree]⟩
    | some ab =>
      obtain ⟨a, b⟩ := ab
      simp at hw; subst hw
      exact ⟨⟨some (a, b), .inter kids⟩, by simp [readNumTree, resolve1, resolveP, dinsert, dget, asRefs_map], by simp [writeNumTree]⟩
  | leaf items =>
    simp only [writeNumTree] at hw
    cases hn : writeNums wrT items with
    | error e => simp [hn] at hw
    | ok ps =>
      obtain ⟨items', h1, h2⟩ := readNums_writeNums rdT wrT items ps (hl items rfl) hn
      cases limits with
      | none =>
        simp [hn] at hw; subst hw
        exact ⟨⟨none, .leaf items'⟩, by simp [readNumTree, resolve1, resolveP, dinsert, dget, h1], by simp [writeNumTree, h2]⟩
      | some ab =>
        obtain ⟨a, b⟩ := ab
        simp [hn] at hw; subst hw
        exact ⟨⟨some (a, b), .leaf items'⟩, by simp [readNumTree, resolve1, resolveP, dinsert, dget, h1], by simp [writeNumTree, h2]⟩

/-! ## CidToGidMap -/

theorem pairsBE_bytesBE : ∀ t : List Nat, (∀ v ∈ t, v < 65536) → pairsBE (bytesBE t) = t := by
  intro t
  induction t with
  | nil => intro _; rfl
  | cons v r ih =>
    intro h
    have hv := h v (by simp)
    have := ih (fun x hx => h x (by simp [hx]))
    simp only [bytesBE, List.flatMap_cons, List.cons_append, List.nil_append, pairsBE] at this ⊢
    rw [this]
    simp only [UInt8.toNat_ofNat']
    congr 1
    omega

theorem cidMap_read_write (m : CidMap) (hm : ∀ t, m = .table t → ∀ v ∈ t, v < 65536) :
    readCidMap (writeCidMap m) = .ok m := by
  cases m with
  | identity => simp [writeCidMap, readCidMap]
  | table t =>
    have hn : ¬ ((2 : Int) * (t.length : Int) < 0) := by omega
    simp only [writeCidMap, readCidMap, unitStreamData, dget]
    simp [hn, pairsBE_bytesBE t (hm t rfl)]

/-! ## appearance entries -/

theorem ase_round_trips (rdForm : Dict → List UInt8 → R Val) (wrForm : Val → R (Dict × List UInt8))
    (hform : ∀ v info data, wrForm v = .ok (info, data) → ∃ v', rdForm info data = .ok v' ∧ wrForm v' = .ok (info, data)) :
    ∀ (d n : Nat) (t : ASE) (a : APrim), ASE.depth d t = true → writeASE wrForm n t = .ok a →
      ∃ t', readASE rdForm d a = .ok t' ∧ writeASE wrForm n t' = .ok a := by
  intro d
  induction d with
  | zero =>
    intro n t a hd hw
    cases t with
    | single v =>
      cases n <;> simp only [writeASE] at hw <;>
        (cases hf : wrForm v with
         | error e => simp [hf] at hw
         | ok r =>
           obtain ⟨info, data⟩ := r
           simp [hf] at hw; subst hw
           obtain ⟨v', h1, h2⟩ := hform v info data hf
           exact ⟨.single v', by simp [readASE, h1], by simp [writeASE, h2]⟩)
    | dict st => simp [ASE.depth] at hd
  | succ d ih =>
    intro n t a hd hw
    cases t with
    | single v =>
      cases n <;> simp only [writeASE] at hw <;>
        (cases hf : wrForm v with
         | error e => simp [hf] at hw
         | ok r =>
           obtain ⟨info, data⟩ := r
           simp [hf] at hw; subst hw
           obtain ⟨v', h1, h2⟩ := hform v info data hf
           exact ⟨.single v', by simp [readASE, h1], by simp [writeASE, h2]⟩)
    | dict st =>
      cases n with
      | zero => simp [writeASE] at hw
      | succ n =>
        simp only [writeASE] at hw
        simp only [ASE.depth] at hd
        have key : ∀ (st : List (String × ASE)) (kvs : List (String × APrim)),
            (st.all fun kv => ASE.depth d kv.2) = true →
            writeStates (fun v => writeASE wrForm n v) st = .ok kvs →
            ∃ st', readStates (fun v => readASE rdForm d v) kvs = .ok st' ∧
              writeStates (fun v => writeASE wrForm n v) st' = .ok kvs := by
          intro st
          induction st with
          | nil => intro kvs _ h; simp [writeStates] at h; subst h; exact ⟨[], by simp [readStates], by simp [writeStates]⟩
          | cons kv r ihl =>
            obtain ⟨k, v⟩ := kv
            intro kvs hall h
            simp only [List.all_cons, Bool.and_eq_true] at hall
            simp only [writeStates] at h
            cases hv : writeASE wrForm n v with
            | error e => simp [hv] at h
            | ok x =>
              simp only [hv] at h
              cases hr : writeStates (fun v => writeASE wrForm n v) r with
              | error e => simp [hr] at h
              | ok t =>
                simp [hr] at h; subst h
                obtain ⟨v', h1, h2⟩ := ih n v x hall.1 hv
                obtain ⟨r', h3, h4⟩ := ihl t hall.2 hr
                exact ⟨(k, v') :: r', by simp [readStates, h1, h3], by simp [writeStates, h2, h4]⟩
        cases hs : writeStates (fun v => writeASE wrForm n v) st with
        | error e => simp [hs] at hw
        | ok kvs =>
          simp [hs] at hw; subst hw
          obtain ⟨st', h1, h2⟩ := key st kvs hd hs
          exact ⟨.dict st', by simp [readASE, h1], by simp [writeASE, h2]⟩

/-! ## Pattern -/

theorem pattern_round_trips (rdDict : Dict → R Val) (wrDict : Val → R Dict)
    (parseOps serOps : List UInt8 → R (List UInt8))
    (hd : ∀ v d, wrDict v = .ok d → ∃ v', rdDict d = .ok v' ∧ wrDict v' = .ok d)
    (hops : ∀ ops data, serOps ops = .ok data → ∃ ops', parseOps data = .ok ops' ∧ serOps ops' = .ok data)
    (hfree : ∀ v d, wrDict v = .ok d → dget "Length" d = none ∧ dget "Filter" d = none)
    (x : PatternV) (p : TPrim) (hw : writePattern wrDict serOps x = .ok p) :
    ∃ x', readPattern rdDict parseOps p = .ok x' ∧ writePattern wrDict serOps x' = .ok p := by
  cases x with
  | dict v =>
    simp only [writePattern] at hw
    cases hv : wrDict v with
    | error e => simp [hv] at hw
    | ok d =>
      simp [hv] at hw; subst hw
      obtain ⟨v', h1, h2⟩ := hd v d hv
      exact ⟨.dict v', by simp [readPattern, h1], by simp [writePattern, h2]⟩
  | stream v ops =>
    simp only [writePattern] at hw
    cases hs : serOps ops with
    | error e => simp [hs] at hw
    | ok data =>
      simp only [hs] at hw
      cases hv : wrDict v with
      | error e => simp [hv] at hw
      | ok d =>
        simp [hv] at hw; subst hw
        obtain ⟨v', h1, h2⟩ := hd v d hv
        obtain ⟨ops', h3, h4⟩ := hops ops data hs
        obtain ⟨hl, hf⟩ := hfree v d hv
        have e1 : derase "Length" (dinsert "Length" (.int data.length) d) = d := derase_dinsert_fresh _ hl
        have e2 : derase "Filter" d = d := derase_fresh hf
        have hfl : dget "Filter" (dinsert "Length" (.int (data.length : Int)) d) = none := by
          rw [dget_dinsert_ne (by decide)]; exact hf
        refine ⟨.stream v' ops', ?_, by simp [writePattern, h4, h2]⟩
        have hn : ¬ ((data.length : Int) < 0) := by omega
        simp [readPattern, unitStreamData, hfl, e1, e2, h1, h3, hn]

/-! ## XObject -/

theorem xobject_round_trips (variants : List Variant) (tagOf : String → Option String)
    (rdInner : String → Dict → List UInt8 → R Val) (wrInner : String → Val → R (Dict × List UInt8))
    (ident tag : String) (v : Variant) (htag : tagOf ident = some tag)
    (hfind : findName tag variants = some v) (hid : v.ident = ident)
    (hinner : ∀ x info data, wrInner ident x = .ok (info, data) →
      ∃ x', rdInner ident (dinsert "Type" (.name "XObject") (dinsert "Subtype" (.name tag) info)) data = .ok x' ∧
        wrInner ident x' = .ok (info, data))
    (x : Val) (p : TPrim) (hw : writeXObject tagOf wrInner (ident, x) = .ok p) :
    ∃ x', readXObject variants rdInner p = .ok (ident, x') ∧ writeXObject tagOf wrInner (ident, x') = .ok p := by
  simp only [writeXObject, htag] at hw
  cases hi : wrInner ident x with
  | error e => simp [hi] at hw
  | ok r =>
    obtain ⟨info, data⟩ := r
    simp [hi] at hw; subst hw
    obtain ⟨x', h1, h2⟩ := hinner x info data hi
    refine ⟨x', ?_, by simp [writeXObject, htag, h2]⟩
    have hs : dget "Subtype" (dinsert "Type" (.name "XObject") (dinsert "Subtype" (.name tag) info)) = some (.name tag) := by
      rw [dget_dinsert_ne (by decide)]; simp
    simp [readXObject, hs, hfind, hid, h1]

/-! ## Encoding -/

theorem map_dpOf_primOfDP : ∀ items : List (FontEncoding.DP String),
    (∀ i ∈ items, i ≠ .other) → (items.map primOfDP).map dpOf = items := by
  intro items
  induction items with
  | nil => intro _; rfl
  | cons i r ih =>
    intro h
    have hi := h i (by simp)
    cases i <;> simp_all [primOfDP, dpOf]

theorem writeDiffs_no_other : ∀ (l : List (Nat × String)) (last : Option Nat) (items : List (FontEncoding.DP String)),
    FontEncoding.writeDiffs last l = .ok items → ∀ i ∈ items, i ≠ .other := by
  intro l
  induction l with
  | nil => intro last items h; simp [FontEncoding.writeDiffs] at h; subst h; simp
  | cons gn r ih =>
    obtain ⟨g, n⟩ := gn
    intro last items h
    simp only [FontEncoding.writeDiffs] at h
    cases hr : FontEncoding.writeDiffs (some g) r with
    | ok rest =>
      have hrest := ih (some g) rest hr
      simp only [hr] at h
      cases last with
      | none =>
        simp at h; subst h
        intro i hi
        simp at hi
        rcases hi with rfl | rfl | hi
        · simp
        · simp
        · exact hrest i hi
      | some l0 =>
        simp only at h
        split at h
        · simp at h
        · split at h <;> (simp at h; subst h; intro i hi; simp at hi)
          · rcases hi with rfl | hi
            · simp
            · exact hrest i hi
          · rcases hi with rfl | rfl | hi
            · simp
            · simp
            · exact hrest i hi
    | err => simp [hr] at h
    | panic => simp [hr] at h
    | oof => simp [hr] at h

/-- `Encoding`: what the writer emits for a base name and a differences map (entries sorted by code, codes below
    2^32 − 1) is read back as the same base and a map with the same binding for every code -/
theorem encoding_read_write (env : Env) (n : Nat) (e : EncodingV) (hs : FontEncoding.sortedFrom 0 e.diffs) :
    ∃ p, writeEncoding e = .ok p ∧ ∃ m, readEncoding env n p = .ok (e.base, m) ∧
      ∀ code, FontEncoding.DMap.get m code = (e.diffs.find? (·.1 == code)).map (·.2) := by
  obtain ⟨base, diffs⟩ := e
  cases diffs with
  | nil =>
    refine ⟨.name base, by simp [writeEncoding], [], ?_, by intro c; simp [FontEncoding.DMap.get]⟩
    cases n <;> simp [readEncoding]
  | cons d r =>
    obtain ⟨items, h1, h2⟩ := FontEncoding.write_read (d :: r) none 0 [] hs (fun p hp => by cases hp)
    have hno := writeDiffs_no_other (d :: r) none items h1
    refine ⟨.dict (dinsert "Differences" (.arr (items.map primOfDP)) (dinsert "BaseEncoding" (.name base) [])),
      by simp [writeEncoding, h1, ofOut], (d :: r).reverse, ?_, ?_⟩
    · have hmap := map_dpOf_primOfDP items hno
      cases n <;>
        simp [readEncoding, dinsert, dget, resolve1, resolveP, hmap, h2, ofOut]
    · intro code
      simp only [FontEncoding.DMap.get]
      rw [FontEncoding.find_reverse_sorted code (d :: r) 0 hs]

/-! ## name trees: the reader on the form a writer would have to produce (the library's writer is `todo!()`) -/

theorem readNames_specNames (rdT : Prim → R Val) (wrT : Val → R Prim) (env : Env) :
    ∀ (items : List (List UInt8 × Val)) (ps : List Prim),
      (∀ kv ∈ items, ∀ q, wrT kv.2 = .ok q → ∃ v', rdT q = .ok v' ∧ wrT v' = .ok q) →
      specNames wrT items = .ok ps →
      ∃ items', readNames rdT env ps = .ok items' ∧ specNames wrT items' = .ok ps := by
  intro items
  induction items with
  | nil => intro ps _ h; simp [specNames] at h; subst h; exact ⟨[], by simp [readNames], by simp [specNames]⟩
  | cons kv r ih =>
    obtain ⟨k, v⟩ := kv
    intro ps hl h
    simp only [specNames] at h
    cases hv : wrT v with
    | error e => simp [hv] at h
    | ok p =>
      simp only [hv] at h
      cases hr : specNames wrT r with
      | error e => simp [hr] at h
      | ok t =>
        simp [hr] at h; subst h
        obtain ⟨v', hrd, hwr⟩ := hl (k, v) (by simp) p hv
        obtain ⟨r', hr1, hr2⟩ := ih t (fun x hx => hl x (by simp [hx])) hr
        exact ⟨(k, v') :: r', by simp [readNames, resolve1, resolveP, hrd, hr1], by simp [specNames, hwr, hr2]⟩

theorem nameTree_reads_spec_form (rdT : Prim → R Val) (wrT : Val → R Prim) (env : Env) (t : NameTreeV)
    (hl : ∀ items, t.node = .leaf items → ∀ kv ∈ items, ∀ q, wrT kv.2 = .ok q → ∃ v', rdT q = .ok v' ∧ wrT v' = .ok q)
    (p : Prim) (hw : specNameTree wrT t = .ok p) :
    ∃ t', readNameTree rdT env p = .ok t' ∧ specNameTree wrT t' = .ok p := by
  obtain ⟨limits, node⟩ := t
  cases node with
  | inter kids =>
    simp only [specNameTree] at hw
    cases limits with
    | none =>
      simp at hw; subst hw
      exact ⟨⟨none, .inter kids⟩, by simp [readNameTree, resolve1, resolveP, dinsert, dget, asRefs_map], by simp [specNameTree]⟩
    | some ab =>
      obtain ⟨a, b⟩ := ab
      simp at hw; subst hw
      exact ⟨⟨some (a, b), .inter kids⟩, by simp [readNameTree, resolve1, resolveP, dinsert, dget, asRefs_map], by simp [specNameTree]⟩
  | leaf items =>
    simp only [specNameTree] at hw
    cases hn : specNames wrT items with
    | error e => simp [hn] at hw
    | ok ps =>
      obtain ⟨items', h1, h2⟩ := readNames_specNames rdT wrT env items ps (hl items rfl) hn
      cases limits with
      | none =>
        simp [hn] at hw; subst hw
        exact ⟨⟨none, .leaf items'⟩, by simp [readNameTree, resolve1, resolveP, dinsert, dget, h1], by simp [specNameTree, h2]⟩
      | some ab =>
        obtain ⟨a, b⟩ := ab
        simp [hn] at hw; subst hw
        exact ⟨⟨some (a, b), .leaf items'⟩, by simp [readNameTree, resolve1, resolveP, dinsert, dget, h1], by simp [specNameTree, h2]⟩

end Derive
