import PdfModel.Lemmas.StorageSave

/-! What a reload of the bytes of a successful save reads. -/

namespace Storage
open Xref

variable {V : Type}

/-- equal, or "free" where the original said "undefined" (an undefined number below /Size is written
    as a free entry; both read as null) -/
def sameRd (a b : Rd V) : Prop := a = b ∨ (a = .free ∧ b = .null)

theorem sameRd_val (a : Rd V) (v : V) (h : sameRd a (.val v)) : a = .val v := by
  rcases h with h | ⟨_, h⟩
  · exact h
  · cases h

/-- the state a reload of `d'` builds, once the table `t` is known -/
def reloaded (st : St V) (t : List XRef) (c : Bool) : St V :=
  { st with refs := t, changes := [], cache := [], cached := c }

theorem take_all (l : List XRef) (n : Nat) (h : l.length ≤ n) : l.take n = l := List.take_of_length_le h

structure ReloadFacts (P : Params V) (d0 d d' : Doc V) (i : SaveInfo) (t : List XRef) : Prop where
  len : t.length = (prep d).size + 1
  pending : ∀ (j : Nat) (v : V) (g : Nat), chLookup (prep d).st2.changes j = some (v, g) →
      ∀ c, resolve (reloaded d'.st t c) j = .val v
  xref : ∀ c, resolve (reloaded d'.st t c) (prep d).xid = .val (P.xrefRec d.tr (prep d).infoRef i)
  old : ∀ j : Nat, j < d0.st.refs.length → chLookup (prep d).st2.changes j = none →
      (∀ sid idx, d0.st.refs[j]? = some (.stream sid idx) → chLookup (prep d).st2.changes sid = none) →
      ∀ c, sameRd (resolve (reloaded d'.st t c) j) (resolve d0.st j)

/-- the table rebuilt from the saved bytes and what it makes every number read as -/
theorem reload_table_facts_c (P : Params V) (L : Layout) (hL : L.Pos) (d0 d d' : Doc V) (chain0) (i : SaveInfo)
    (hb : BaseOK d0 chain0) (hi : Inv d0 d) (h : Committed P L d d'.st i) (htr : d'.tr = d.tr) :
    ∃ t, mergeAll (newTable (prep d).size) ([⟨0, i.rows⟩] :: chain0) = .ok t ∧ ReloadFacts P d0 d d' i t := by
  have pf := prep_facts d0 d chain0 hb hi
  have hi' := inv_committed P L hL d0 d d' chain0 i hb hi h htr
  obtain ⟨w, rows, hw, hr, hst, hl, _, _, _, hrows, hsize⟩ := h.spec'
  have hinfo := (h.info w rows hw hr).symm
  subst hrows
  obtain ⟨f1, f2, f3, _⟩ := writeChanges_frame P L _ _ _ _ _ hw pf.inv.sorted
  obtain ⟨k1, ⟨ext, k2, k3⟩, k4, k5⟩ := writeChanges_ok P L _ hL.1 _ _ _ hw pf.inv.sorted pf.inv.objs_lt
  simp only at f1 f2 f3 k1 k2 k3 k4 k5
  have hxlt : (prep d).xid < w.refs.length := by rw [f1, pf.len_eq]; omega
  have hn0 : d0.st.refs.length ≤ (prep d).xid := Nat.le_trans hi.refs_len pf.xid_ge
  have hstart : (prep d).st2.start ≤ (prep d).st2.len := by
    have := hb.start_le; have := pf.inv.start_eq; have := pf.inv.len_ge
    simp only at *; omega
  -- the table at the time of the save, and its rows
  have hlen4 : (w.refs.set (prep d).xid (.raw (w.len - (prep d).st2.start) 0)).length = (prep d).xid + 1 := by
    rw [List.length_set, f1, pf.len_eq]
  rw [take_all _ _ (by omega)] at hr
  obtain ⟨r1, r2⟩ := rowsOf_spec _ _ hr
  have hents := rows_all_entries _ _ hr
  have hrowlen : i.rows.length = (prep d).xid + 1 := by rw [r1, hlen4]
  -- row of a number with a pending value
  have hrow_pending : ∀ (j : Nat) (v : V) (g : Nat), chLookup (prep d).st2.changes j = some (v, g) →
      ∃ off, (prep d).st2.len ≤ off ∧ i.rows[j]? = some (.raw (off - (prep d).st2.start) g) ∧
        objAt w.objs off = some ⟨off, j, g, v, []⟩ := by
    intro j v g hc
    obtain ⟨_, _, off, a, b, c⟩ := k5 j v g hc
    have hne : (prep d).xid ≠ j := by intro heq; rw [← heq, pf.xid_free] at hc; simp at hc
    obtain ⟨r, ra, rb⟩ := r2 j _ (by rw [set_get_ne _ _ _ _ hne]; exact b)
    simp only [rowOf, Option.some.injEq] at ra; subst ra
    exact ⟨off, a, rb, c⟩
  -- row of a number of the original table without a pending value
  have hrow_old : ∀ j : Nat, j < d0.st.refs.length → chLookup (prep d).st2.changes j = none →
      ∃ e r, d0.st.refs[j]? = some e ∧ rowOf e = some r ∧ i.rows[j]? = some r := by
    intro j hj hc
    have hne : (prep d).xid ≠ j := by omega
    have h0 : d0.st.refs[j]? = some d0.st.refs[j] := by simp [hj]
    have : (w.refs.set (prep d).xid (.raw (w.len - (prep d).st2.start) 0))[j]? = some d0.st.refs[j] := by
      rw [set_get_ne _ _ _ _ hne, f2 j hc, pf.inv.refs_old j hj hc, h0]
    obtain ⟨r, ra, rb⟩ := r2 j _ this
    exact ⟨_, r, h0, ra, rb⟩
  -- older sections are dominated by the rows
  have hdom : ∀ p ∈ allPairs chain0, ∃ r, i.rows[p.1]? = some r ∧ gen p.2 ≤ gen r := by
    intro p hp
    obtain ⟨e, a, b, c⟩ := hb.pairs_dom p hp
    have hp1 : p.1 < d0.st.refs.length := (List.getElem?_eq_some_iff.mp a).1
    rcases Option.eq_none_or_eq_some (chLookup (prep d).st2.changes p.1) with hc | ⟨⟨v, g⟩, hc⟩
    · obtain ⟨e', r, a', ra, rb⟩ := hrow_old p.1 hp1 hc
      rw [a] at a'; simp only [Option.some.injEq] at a'; subst a'
      refine ⟨r, rb, ?_⟩
      cases e <;> simp_all [rowOf, isEntry]
    · obtain ⟨off, _, rb, _⟩ := hrow_pending p.1 v g hc
      obtain ⟨e0, a0, _, c0, _⟩ := pf.inv.ch_old p.1 v g hc hp1
      rw [a] at a0; simp only [Option.some.injEq] at a0; subst a0
      refine ⟨_, rb, ?_⟩
      show gen p.2 ≤ g
      rw [c0]; exact c
  obtain ⟨t, ht, tlen, tget, _⟩ := reload_table (prep d).size i.rows chain0 hents
    (by rw [hrowlen]; exact pf.size_ge) hb.pairs_entry hdom
  refine ⟨t, ht, ?_⟩
  -- reads in the reloaded state
  have hobjs : d'.st.objs = w.objs ++ [⟨w.len, (prep d).xid, 0, P.xrefRec d.tr (prep d).infoRef i, []⟩] := by
    rw [hst]; simp only [commit]; rw [hinfo]
  have hst' : d'.st.start = (prep d).st2.start := by rw [hst]; rfl
  have hstart0 : d'.st.start = d0.st.start := hi'.start_eq
  have hread_pending : ∀ (j : Nat) (v : V) (g : Nat), chLookup (prep d).st2.changes j = some (v, g) →
      ∀ c, resolve (reloaded d'.st t c) j = .val v := by
    intro j v g hc c
    obtain ⟨off, a, rb, oc⟩ := hrow_pending j v g hc
    simp only [resolve, reloaded, chLookup, tget j _ rb, readAt, hst']
    have : (prep d).st2.start + (off - (prep d).st2.start) = off := by omega
    rw [this, hobjs, objAt_append_left _ _ _ _ oc]
  refine ⟨tlen, hread_pending, ?_, ?_⟩
  · intro c
    obtain ⟨r, ra, rb⟩ := r2 (prep d).xid _ (set_get_self _ _ _ hxlt)
    simp only [rowOf, Option.some.injEq] at ra; subst ra
    simp only [resolve, reloaded, chLookup, tget _ _ rb, readAt, hst']
    have : (prep d).st2.start + (w.len - (prep d).st2.start) = w.len := by omega
    rw [this, hobjs, objAt_append_right]
    · simp [objAt]
    · intro o ho; have := k4 o ho; omega
  · intro j hj hc hcont c
    obtain ⟨e, r, he, ra, rb⟩ := hrow_old j hj hc
    have h0 : ∀ k, chLookup d0.st.changes k = none := by intro k; rw [hb.changes_nil]; rfl
    simp only [resolve, reloaded, chLookup, tget j _ rb, h0, he]
    cases e with
    | raw pos g =>
      simp only [rowOf, Option.some.injEq] at ra; subst ra
      left
      simp only [readAt, hstart0]
      rw [objAt_base d0 d' chain0 hb hi' _ (hb.raw_lt j pos g he)]
    | stream sid idx =>
      simp only [rowOf, Option.some.injEq] at ra; subst ra
      have hsid := hb.stream_lt j sid idx he
      have hcs := hcont sid idx he
      obtain ⟨e2, r2', he2, ra2, rb2⟩ := hrow_old sid hsid hcs
      simp only [readCompressed, chLookup, tget sid _ rb2, h0, he2]
      cases e2 with
      | raw pos g =>
        simp only [rowOf, Option.some.injEq] at ra2; subst ra2
        left
        simp only [hstart0]
        rw [objAt_base d0 d' chain0 hb hi' _ (hb.raw_lt sid pos g he2)]
      | stream s2 i2 => simp only [rowOf, Option.some.injEq] at ra2; subst ra2; left; rfl
      | free n g => simp only [rowOf, Option.some.injEq] at ra2; subst ra2; left; rfl
      | invalid => simp only [rowOf, Option.some.injEq] at ra2; subst ra2; right; exact ⟨rfl, rfl⟩
      | promised => simp [rowOf] at ra2
    | free n g => simp only [rowOf, Option.some.injEq] at ra; subst ra; left; rfl
    | invalid => simp only [rowOf, Option.some.injEq] at ra; subst ra; right; exact ⟨rfl, rfl⟩
    | promised => simp [rowOf] at ra

theorem trailer_ext (a b : Trailer V) (h1 : a.root = b.root) (h2 : a.info = b.info) (h3 : a.prev = b.prev) : a = b := by
  cases a; cases b; simp_all

theorem reload_table_facts (P : Params V) (L : Layout) (hL : L.Pos) (d0 d d' : Doc V) (chain0) (i : SaveInfo)
    (hb : BaseOK d0 chain0) (hi : Inv d0 d) (h : save P L d = (d', .ok i)) :
    ∃ t, mergeAll (newTable (prep d).size) ([⟨0, i.rows⟩] :: chain0) = .ok t ∧ ReloadFacts P d0 d d' i t :=
  reload_table_facts_c P L hL d0 d d' chain0 i hb hi (committed_of_ok P L d d' i h) (save_tr_eq P L d0 d d' chain0 i hb hi h)

/-- **the saved bytes load again**, with the table of `reload_table_facts` and the same trailer -/
theorem reload_after_save (P : Params V) (L : Layout) (hL : L.Pos) (d0 d d' : Doc V) (chain0) (i : SaveInfo)
    (hb : BaseOK d0 chain0) (hi : Inv d0 d) (h : save P L d = (d', .ok i)) (c : Bool) :
    ∃ t, reload d'.st c = .ok ⟨reloaded d'.st t c, d.tr⟩ ∧ ReloadFacts P d0 d d' i t := by
  have pf := prep_facts d0 d chain0 hb hi
  have hi' := inv_save_ok P L hL d0 d d' chain0 i hb hi h
  obtain ⟨t, ht, facts⟩ := reload_table_facts P L hL d0 d d' chain0 i hb hi h
  refine ⟨t, ?_, facts⟩
  obtain ⟨w, rows, hw, hr, hst, hl, _, _, _, hrows, hsize⟩ := save_ok_spec P L d d' i h
  have hinfo := (save_ok_info P L d d' i h w rows hw hr).symm
  subst hrows
  obtain ⟨k1, _, _, _⟩ := writeChanges_ok P L _ hL.1 _ _ _ hw pf.inv.sorted pf.inv.objs_lt
  simp only at k1
  have hstart : (prep d).st2.start ≤ (prep d).st2.len := by
    have := hb.start_le; have := pf.inv.start_eq; have := pf.inv.len_ge
    simp only at *; omega
  have hpos : d'.st.start + d'.st.startxref = w.len := by rw [hst]; simp only [commit]; omega
  have hlen : d'.st.len = w.len + L.xrefLen i + L.tailLen i := by rw [hst]; simp only [commit]; rw [hinfo]
  have hsecs : d'.st.secs = (prep d).st2.secs ++ [⟨w.len, [⟨0, i.rows⟩], (prep d).size, d.tr.prev, d.tr.root, (prep d).infoRef⟩] := by
    rw [hst]; rfl
  have hsec : secAt d'.st.secs w.len = some ⟨w.len, [⟨0, i.rows⟩], (prep d).size, d.tr.prev, d.tr.root, (prep d).infoRef⟩ := by
    rw [hsecs, secAt_append_right]
    · simp [secAt]
    · intro s hs; have := pf.inv.secs_lt s hs; simp only at this; omega
  -- the /Prev walk is the one of the original document
  have hchain : prevChain d'.st.secs d'.st.start (d'.st.secs.length + 1) d.tr.prev [] = .ok chain0 := by
    obtain ⟨e0, a, _⟩ := hi'.secs_ext
    rw [a, hi'.start_eq, hi.tr_eq]
    exact prevChain_mono _ _ _ _ _ _ _ _ hb.chain (by simp only [List.length_append]; omega)
  -- the trailer
  obtain ⟨_, _, ⟨vr, hroot⟩, _, _⟩ := loadTrailer_ok _ _ _ _ _ hl
  have hlook : ∀ j, chLookup d'.st.changes j =
      if j = (prep d).xid then some (P.xrefVal i, 0) else chLookup (prep d).st2.changes j := by
    intro j; rw [hst]; simp only [commit]; rw [hinfo]; simp [chLookup_chInsert]
  have hroot' : ∃ v, resolve (reloaded d'.st t c) d.tr.root.1 = .val v := by
    by_cases hx : d.tr.root.1 = (prep d).xid
    · exact ⟨_, by rw [hx]; exact facts.xref c⟩
    · rcases Option.eq_none_or_eq_some (chLookup (prep d).st2.changes d.tr.root.1) with hc | ⟨⟨v, g⟩, hc⟩
      · have hc' : chLookup d'.st.changes d.tr.root.1 = none := by rw [hlook, if_neg hx]; exact hc
        have hlt : d.tr.root.1 < d0.st.refs.length := by
          apply Classical.byContradiction; intro hge
          rcases resolve_new_pending d0 d' hi' _ (by omega) hc' with h1 | h1 <;> rw [h1] at hroot <;> cases hroot
        -- the container (if any) has no pending value, otherwise the root would not have resolved
        have hcont : ∀ sid idx, d0.st.refs[d.tr.root.1]? = some (.stream sid idx) → chLookup d'.st.changes sid = none := by
          intro sid idx he
          rcases Option.eq_none_or_eq_some (chLookup d'.st.changes sid) with hs | ⟨x, hs⟩
          · exact hs
          · exfalso
            rw [resolve_old d0 d' chain0 hb hi' _ hlt hc'] at hroot
            simp [resolveOld, he, hs] at hroot
        have hcont2 : ∀ sid idx, d0.st.refs[d.tr.root.1]? = some (.stream sid idx) →
            chLookup (prep d).st2.changes sid = none := by
          intro sid idx he
          have := hcont sid idx he
          rw [hlook] at this
          split at this
          · simp at this
          · exact this
        have h1 := resolve_untouched d0 d' chain0 hb hi' _ hlt hc' hcont
        have h2 := facts.old _ hlt hc hcont2 c
        rw [← h1, hroot] at h2
        exact ⟨vr, sameRd_val _ _ h2⟩
      · exact ⟨v, facts.pending _ v g hc c⟩
  obtain ⟨vr', hroot'⟩ := hroot'
  have htrailer : loadTrailer (reloaded d'.st t c) d.tr.root (prep d).infoRef d.tr.prev = .ok d.tr := by
    cases hir : (prep d).infoRef with
    | none =>
      simp only [loadTrailer, hroot']
      congr 1
      exact trailer_ext _ _ rfl (pf.info_none hir).1.symm rfl
    | some ii =>
      obtain ⟨v, a, b, _, _, _⟩ := pf.info_some ii hir
      simp only [loadTrailer, hroot', facts.pending ii v 0 b c]
      congr 1
      exact trailer_ext _ _ rfl a.symm rfl
  have hsz : ¬ ((prep d).size > MAX_ID) := by rw [pf.size_eq]; omega
  have hge : ¬ (d'.st.start + d'.st.startxref ≥ d'.st.len) := by rw [hpos, hlen]; have := hL.2 i; omega
  have hsec' := hsec
  rw [← hpos] at hsec'
  unfold reload
  simp only [hge, if_false, hsec', hsz, hchain, ht]
  simp only [reloaded] at htrailer ⊢
  rw [htrailer]

end Storage
