import PdfModel.Lemmas.ContentSim

/-! Facts used by the statements of C08: a simple instance of the real-number interface (integers) showing
    that `RealLaws` is satisfiable and serving the non-vacuity examples and the counter-example; the domain
    of the serializer (`acceptedOp`) made explicit. -/

namespace Content

/-- the integers as "reals": every value is integral and prints as itself -/
def intOps : RealOps Int where
  beq a b := a == b
  neg a := -a
  ofInt n := n
  intDigits? r := some r
  big r := decide (r.natAbs ≥ 2147483648)
  special _ := none

theorem intLaws : RealLaws intOps where
  beq_refl := by intro r _; simp [intOps]
  beq_symm := by intro a b h; simp [intOps] at *; exact h.symm
  beq_trans := by intro a b c h1 h2; simp [intOps] at *; exact h1.trans h2
  neg_congr := by intro a b h; simp [intOps] at *; exact h
  digits_small := by intro r n _ h _; simp [intOps] at *; exact h.symm
  digits_i32 := by intro r n _ h _; simp [intOps] at *; exact h.symm

/-- integers with a second zero (`none` plays `-0`): `beq` identifies the two zeros, so numeric equality is
    strictly coarser than equality; the laws still hold -/
def zOps : RealOps (Option Int) where
  beq a b := a.getD 0 == b.getD 0
  neg a := match a with
    | none => some 0
    | some 0 => none
    | some n => some (-n)
  ofInt n := some n
  intDigits? r := some (r.getD 0)
  big r := decide ((r.getD 0).natAbs ≥ 2147483648)
  special _ := none

theorem zLaws : RealLaws zOps where
  beq_refl := by intro r _; simp [zOps]
  beq_symm := by intro a b h; simp [zOps] at *; exact h.symm
  beq_trans := by intro a b c h1 h2; simp [zOps] at *; exact h1.trans h2
  neg_congr := by
    intro a b h
    simp only [zOps, beq_iff_eq] at *
    cases a with
    | none => cases b with
      | none => rfl
      | some m =>
        have : m = 0 := by simpa using h.symm
        subst this; rfl
    | some n => cases b with
      | none =>
        have : n = 0 := by simpa using h
        subst this; rfl
      | some m =>
        have : n = m := by simpa using h
        subst this
        by_cases hn : n = 0
        · subst hn; rfl
        · simp [hn]
  digits_small := by intro r n _ h _; simp [zOps] at *; exact h.symm
  digits_i32 := by intro r n _ h _; simp [zOps] at *; exact h.symm

section
variable {R : Type} (ro : RealOps R)

mutual
theorem primWritable_of_finite : (p : Prim R) → finitePrim ro p = true → (serPrim? ro ⟨true⟩ p).isSome = true
  | .null, _ => rfl
  | .bool _, _ => rfl
  | .int _, _ => rfl
  | .real r, h => by
    have hs : ro.special r = none := by simpa [finitePrim, finiteR] using h
    simp [serPrim?, primReal?, hs]
  | .str _, _ => rfl
  | .name _, _ => rfl
  | .ref _ _, _ => rfl
  | .arr xs, h => by
    have := primsWritable_of_finite xs (by simpa [finitePrim] using h)
    simp only [serPrim?]
    cases hx : serPrims? ro ⟨true⟩ xs with
    | none => simp [hx] at this
    | some ys => rfl
  | .dict ks xs, h => by
    have := primsWritable_of_finite xs (by simpa [finitePrim] using h)
    simp only [serPrim?]
    cases hx : serPrims? ro ⟨true⟩ xs with
    | none => simp [hx] at this
    | some ys => rfl
theorem primsWritable_of_finite : (ps : List (Prim R)) → finitePrims ro ps = true →
    (serPrims? ro ⟨true⟩ ps).isSome = true
  | [], _ => rfl
  | p :: ps, h => by
    have h' : finitePrim ro p = true ∧ finitePrims ro ps = true := by simpa [finitePrims] using h
    have h1 := primWritable_of_finite p h'.1
    have h2 := primsWritable_of_finite ps h'.2
    simp only [serPrims?]
    cases hp : serPrim? ro ⟨true⟩ p with
    | none => simp [hp] at h1
    | some q =>
      cases hps : serPrims? ro ⟨true⟩ ps with
      | none => simp [hps] at h2
      | some qs => rfl
end

theorem all_writable_of_finite : (ps : List (Prim R)) → finitePrims ro ps = true →
    ps.all (primWritable ro ⟨true⟩) = true
  | [], _ => rfl
  | p :: ps, h => by
    have h' : finitePrim ro p = true ∧ finitePrims ro ps = true := by simpa [finitePrims] using h
    simp [primWritable, primWritable_of_finite ro p h'.1]
    simpa [primWritable] using all_writable_of_finite ps h'.2

def isInlineImage : Op R → Bool
  | .inlineImage _ => true
  | _ => false

/-- with D9 repaired in primitive.rs the serializer accepts every finite operation except inline images -/
theorem accepted_of_finite (op : Op R) (hf : finiteOp ro op = true) (hi : isInlineImage op = false) :
    acceptedOp ro ⟨true⟩ op = true := by
  cases op
  case inlineImage => simp [isInlineImage] at hi
  case beginMarkedContent tag p =>
    cases p with
    | none => rfl
    | some p => exact primWritable_of_finite ro p (by simpa [finiteOp, finiteProps] using hf)
  case markedContentPoint tag p =>
    cases p with
    | none => rfl
    | some p => exact primWritable_of_finite ro p (by simpa [finiteOp, finiteProps] using hf)
  case strokeColor c =>
    cases c with
    | other xs => exact all_writable_of_finite ro xs (by simpa [finiteOp, finiteColor] using hf)
    | _ => rfl
  case fillColor c =>
    cases c with
    | other xs => exact all_writable_of_finite ro xs (by simpa [finiteOp, finiteColor] using hf)
    | _ => rfl
  all_goals rfl

/-- one iteration: succeeds unless the operation is an inline image; the operations consumed by the
    look-ahead are never inline images -/
theorem serOne_spec (cfg : Cfg) (s : SState R) (op : Op R) (rest : List (Op R)) :
    (isInlineImage op = true → serOne ro cfg s op rest = none) ∧
    (isInlineImage op = false → ∃ r, serOne ro cfg s op rest = some r ∧
      (rest.take r.extra).any isInlineImage = false) := by
  cases op
  case inlineImage => exact ⟨fun _ => rfl, fun h => by simp [isInlineImage] at h⟩
  case beginMarkedContent tag p => cases p <;> simp [serOne, isInlineImage]
  case markedContentPoint tag p => cases p <;> simp [serOne, isInlineImage]
  case fillAndStroke w => cases w <;> simp [serOne, isInlineImage]
  case fill w => cases w <;> simp [serOne, isInlineImage]
  case clip w => cases w <;> simp [serOne, isInlineImage]
  case close => simp only [serOne]; split <;> simp [isInlineImage]
  case textNewline => simp only [serOne]; split <;> simp [isInlineImage]
  case wordSpacing ws => simp only [serOne]; split <;> simp [isInlineImage]
  case leading l => simp only [serOne]; split <;> (try split) <;> simp [isInlineImage]
  case curveTo c1 c2 p => simp only [serOne]; split <;> (try split) <;> simp [isInlineImage]
  all_goals simp [serOne, isInlineImage]

/-- the serializer: `Ok` unless it meets an inline image, then `Err`; never a panic, never out of fuel -/
theorem serLoop_total (cfg : Cfg) : ∀ (fuel : Nat) (ops : List (Op R)) (s : SState R), ops.length ≤ fuel →
    (ops.any isInlineImage = false → ∃ toks, serLoop ro cfg fuel s ops = .ok toks) ∧
    (ops.any isInlineImage = true → serLoop ro cfg fuel s ops = .err) := by
  intro fuel
  induction fuel with
  | zero =>
    intro ops s hl
    have : ops = [] := List.eq_nil_of_length_eq_zero (Nat.le_zero.mp hl)
    subst this
    exact ⟨fun _ => ⟨[], rfl⟩, fun h => by simp at h⟩
  | succ fuel ih =>
    intro ops s hl
    cases ops with
    | nil => exact ⟨fun _ => ⟨[], rfl⟩, fun h => by simp at h⟩
    | cons op rest =>
      obtain ⟨h1, h2⟩ := serOne_spec ro cfg s op rest
      by_cases hi : isInlineImage op = true
      · exact ⟨fun h => by simp [hi] at h, fun _ => by simp [serLoop, h1 hi]⟩
      · have hi' : isInlineImage op = false := by simpa using hi
        obtain ⟨r, hr, htake⟩ := h2 hi'
        have hlen : (rest.drop r.extra).length ≤ fuel := by
          simp only [List.length_drop, List.length_cons] at *
          omega
        obtain ⟨ih1, ih2⟩ := ih (rest.drop r.extra) r.st hlen
        have hsplit : rest.any isInlineImage = (rest.drop r.extra).any isInlineImage := by
          have := congrArg (fun l => l.any isInlineImage) (List.take_append_drop r.extra rest)
          simp only [List.any_append, htake, Bool.false_or] at this
          exact this.symm
        constructor
        · intro h
          have : (rest.drop r.extra).any isInlineImage = false := by
            rw [← hsplit]; simpa [hi'] using h
          obtain ⟨toks, ht⟩ := ih1 this
          exact ⟨r.toks ++ toks, by simp [serLoop, hr, ht]⟩
        · intro h
          have : (rest.drop r.extra).any isInlineImage = true := by
            rw [← hsplit]; simpa [hi'] using h
          simp [serLoop, hr, ih2 this]
end

end Content
