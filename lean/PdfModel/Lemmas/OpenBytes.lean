import PdfModel.Model.OpenBytes
import PdfModel.Lemmas.Indirect
import PdfModel.Lemmas.XrefStream
import PdfModel.Lemmas.Sequence
import PdfModel.Lemmas.SaveBytes
import PdfModel.Lemmas.XrefWidths

/-! The cross-reference stream reader of the byte-level open path on a conformant stream object. -/

namespace OpenBytes
open PdfLex Xref
open PdfSyntax (Gap Bnd SpellsStream WFE keysOf vdepthE needE)

variable {R : Type}

/-- `parse_stream_with_lexer` on a conformant stream object -/
theorem parseStream_spec (env : Env R) (hd : env.decrypt = none) (info : Dict R) (data txt : List UInt8)
    (hsp : SpellsStream env.parseReal info data txt) (hwf : WFE info) (hnd : (keysOf info).Nodup)
    (hlen : LengthIs env info data.length) {buf : Buf} (hsz : buf.size ≤ 2147483647)
    (g rest : List UInt8) (pos fuel : Nat) (id : Nat × Nat) (hg : Gap g)
    (h : Suffix buf pos (g ++ txt ++ rest)) (hb : Bnd rest) (hfuel : needE info ≤ fuel)
    (hdepth : vdepthE info ≤ maxDepth) :
    ∃ dataPos, parseStream env buf fuel pos id =
        .ok (streamAt env info id dataPos data.length, pos + g.length + txt.length) ∧
      slice buf dataPos (dataPos + data.length) = data := by
  obtain ⟨g1, ents, g2, eol, g3, rfl, hg1, hents, hg2, heol, hg3⟩ := hsp
  obtain ⟨hn, hsl⟩ := next_double g 60 (g1 ++ ents ++ g2 ++ kwStream ++ eol ++ data ++ g3 ++ kwEndstream ++ rest) pos hg
    (by simpa [PdfSyntax.kwStream, PdfSyntax.kwEndstream, kwStream, kwEndstream] using h) (Or.inl rfl)
  have hs2 : Suffix buf (pos + g.length + 2) (g1 ++ ents ++ (g2 ++ kwStream ++ eol ++ data ++ g3 ++ kwEndstream ++ rest)) := by
    have := Suffix.drop (a := g ++ [60, 60]) (s := g1 ++ ents ++ (g2 ++ kwStream ++ eol ++ data ++ g3 ++ kwEndstream ++ rest))
      (by simpa [PdfSyntax.kwStream, PdfSyntax.kwEndstream, kwStream, kwEndstream] using h)
    simpa [Nat.add_assoc] using this
  have hdict := parseDict_spells env hd info ents hents hwf hsz g1 _ (pos + g.length + 2) fuel none maxDepth [] hg1 hs2
    hnd (by simp [keysOf]) hfuel hdepth
  have hs3 : Suffix buf (pos + g.length + 2 + g1.length + ents.length)
      (g2 ++ kwStream ++ eol ++ data ++ g3 ++ kwEndstream ++ rest) := by
    have := Suffix.drop (a := g1 ++ ents) (by simpa using hs2)
    simpa [Nat.add_assoc] using this
  have hbe : Bnd (eol ++ data ++ g3 ++ kwEndstream ++ rest) := by rcases heol with rfl | rfl <;> (simp [Bnd]; decide)
  obtain ⟨hn2, hsl2⟩ := next_regular g2 kwStream (eol ++ data ++ g3 ++ kwEndstream ++ rest) _ hg2 (by simpa using hs3)
    (by decide) kw_stream_regular hbe
  have hso := parseStreamObject_spec env hsz info g2 eol data g3 rest _ id hg2 heol hg3 hlen hs3 hb
  refine ⟨pos + g.length + 2 + g1.length + ents.length + g2.length + kwStream.length + eol.length, ?_, ?_⟩
  · have e1 : (([60, 60] : List UInt8) == [60, 60]) = true := by decide
    simp only [parseStream, hn, Out.bind_ok, hsl, e1, if_true, hdict, List.nil_append, peek_ok hn2, hsl2,
      beq_self_eq_true, hso, streamAt]
    simp [PdfSyntax.kwStream, PdfSyntax.kwEndstream, kwStream, kwEndstream]; omega
  · have hs4 : Suffix buf (pos + g.length + 2 + g1.length + ents.length + g2.length + kwStream.length + eol.length)
        (data ++ (g3 ++ kwEndstream ++ rest)) := by
      have := Suffix.drop (a := g2 ++ kwStream ++ eol) (s := data ++ (g3 ++ kwEndstream ++ rest)) (by simpa using hs3)
      simpa [Nat.add_assoc] using this
    exact hs4.slice

/-- `parseCtx_stream` (Lemmas/Indirect) with the place of the data made explicit: the data stands at
    `dataPos`, followed by at least `endstream` -/
theorem parseCtx_stream_at (env : Env R) (hd : env.decrypt = none) (info : Dict R) (data txt : List UInt8)
    (hsp : SpellsStream env.parseReal info data txt) (hwf : WFE info) (hnd : (keysOf info).Nodup)
    (hlen : LengthIs env info data.length) {buf : Buf} (hsz : buf.size ≤ 2147483647)
    (g rest : List UInt8) (pos fuel : Nat) (id : Nat × Nat) (depth : Nat) (hg : Gap g)
    (h : Suffix buf pos (g ++ txt ++ rest)) (hb : Bnd rest) (hfuel : 2 + needE info ≤ fuel)
    (hdepth : 1 + vdepthE info ≤ depth) (flags : Nat) (hfl : flags &&& Flags.dict ≠ 0) :
    ∃ dataPos more, parseCtx env buf fuel pos (some id) flags depth =
        .ok (streamAt env info id dataPos data.length, pos + g.length + txt.length) ∧
      Suffix buf dataPos (data ++ more) ∧ more ≠ [] := by
  obtain ⟨g1, ents, g2, eol, g3, rfl, hg1, hents, hg2, heol, hg3⟩ := hsp
  obtain ⟨f, rfl⟩ : ∃ f, fuel = f + 2 := ⟨fuel - 2, by omega⟩
  obtain ⟨hn, hsl⟩ := next_double g 60 (g1 ++ ents ++ g2 ++ kwStream ++ eol ++ data ++ g3 ++ kwEndstream ++ rest) pos hg
    (by simpa [PdfSyntax.kwStream, PdfSyntax.kwEndstream, kwStream, kwEndstream] using h) (Or.inl rfl)
  have hs2 : Suffix buf (pos + g.length + 2) (g1 ++ ents ++ (g2 ++ kwStream ++ eol ++ data ++ g3 ++ kwEndstream ++ rest)) := by
    have := Suffix.drop (a := g ++ [60, 60]) (s := g1 ++ ents ++ (g2 ++ kwStream ++ eol ++ data ++ g3 ++ kwEndstream ++ rest))
      (by simpa [PdfSyntax.kwStream, PdfSyntax.kwEndstream, kwStream, kwEndstream] using h)
    simpa [Nat.add_assoc] using this
  have hdict := parseDict_spells env hd info ents hents hwf hsz g1 _ (pos + g.length + 2) f (some id) (depth - 1) [] hg1 hs2
    hnd (by simp [keysOf]) (by omega) (by omega)
  have hs3 : Suffix buf (pos + g.length + 2 + g1.length + ents.length)
      (g2 ++ kwStream ++ eol ++ data ++ g3 ++ kwEndstream ++ rest) := by
    have := Suffix.drop (a := g1 ++ ents) (by simpa using hs2)
    simpa [Nat.add_assoc] using this
  have hbe : Bnd (eol ++ data ++ g3 ++ kwEndstream ++ rest) := by rcases heol with rfl | rfl <;> (simp [Bnd]; decide)
  obtain ⟨hn2, hsl2⟩ := next_regular g2 kwStream (eol ++ data ++ g3 ++ kwEndstream ++ rest) _ hg2 (by simpa using hs3)
    (by decide) kw_stream_regular hbe
  have hso := parseStreamObject_spec env hsz info g2 eol data g3 rest _ id hg2 heol hg3 hlen hs3 hb
  refine ⟨pos + g.length + 2 + g1.length + ents.length + g2.length + kwStream.length + eol.length,
    g3 ++ kwEndstream ++ rest, ?_, ?_, by simp [kwEndstream]⟩
  · have e1 : (([60, 60] : List UInt8) == [60, 60]) = true := by decide
    have c1 : check flags Flags.dict = .ok () := check_ok hfl
    have hd0 : (depth == 0) = false := by simp; omega
    simp only [parseCtx, parseInner, remainingStart_ok h.le, hn, Out.bind_ok, hsl, e1, if_true, c1, hd0,
      Bool.false_eq_true, if_false, hdict, List.nil_append, peek_ok hn2, hsl2, beq_self_eq_true, hso, streamAt]
    simp [PdfSyntax.kwStream, PdfSyntax.kwEndstream, kwStream, kwEndstream]; omega
  · have := Suffix.drop (a := g2 ++ kwStream ++ eol) (s := data ++ (g3 ++ kwEndstream ++ rest)) (by simpa using hs3)
    simpa [Nat.add_assoc] using this

/-- `parseIndirectObject_stream` (Lemmas/Indirect) with the place of the data made explicit -/
theorem parseIndirectObject_stream_at (env : Env R) (hd : env.decrypt = none) (info : Dict R) (data txt : List UInt8)
    (hsp : SpellsStream env.parseReal info data txt) (hwf : WFE info) (hnd : (keysOf info).Nodup)
    (hlen : LengthIs env info data.length) {buf : Buf} (hsz : buf.size ≤ 2147483647)
    (g0 a g1 b g2 g3 g4 rest : List UInt8) (id gen pos fuel : Nat) (hg0 : Gap g0)
    (ha : PdfSyntax.NatTok a id) (hb : PdfSyntax.NatTok b gen) (hg1 : Gap g1) (hg1ne : g1 ≠ []) (hg2 : Gap g2) (hg2ne : g2 ≠ [])
    (hid : id ≤ 18446744073709551615) (hgen : gen ≤ 18446744073709551615) (hg3 : Gap g3) (hg4 : Gap g4) (hg4ne : g4 ≠ [])
    (h : Suffix buf pos (g0 ++ a ++ g1 ++ b ++ g2 ++ kwObj ++ g3 ++ txt ++ g4 ++ kwEndobj ++ rest))
    (hbnd : Bnd rest) (hfuel : 2 + needE info ≤ fuel) (hdepth : 1 + vdepthE info ≤ maxDepth)
    (flags : Nat) (hfl : flags &&& Flags.dict ≠ 0) :
    ∃ dataPos more, parseIndirectObject env buf fuel pos flags =
        .ok (((id, gen), streamAt env info (id, gen) dataPos data.length),
          pos + (g0 ++ a ++ g1 ++ b ++ g2 ++ kwObj ++ g3 ++ txt ++ g4 ++ kwEndobj).length) ∧
      Suffix buf dataPos (data ++ more) ∧ more ≠ [] := by
  have htx : ∃ t', txt = 60 :: t' := by
    obtain ⟨g1', ents, g2', eol, g3', rfl, _⟩ := hsp
    exact ⟨_, rfl⟩
  obtain ⟨t', ht'⟩ := htx
  have hb3 : Bnd (g3 ++ txt ++ g4 ++ kwEndobj ++ rest) := by
    cases g3 with
    | nil => subst ht'; simp [Bnd]; decide
    | cons c g3' => simpa using gap_bnd hg3 (by simp) (txt ++ g4 ++ kwEndobj ++ rest)
  have hhead := parseObjHeader_spec g0 a g1 b g2 (g3 ++ txt ++ g4 ++ kwEndobj ++ rest) id gen pos hg0 ha hb hg1 hg1ne hg2
    hg2ne hid hgen (by simpa using h) hb3
  have h2 : Suffix buf (pos + (g0 ++ a ++ g1 ++ b ++ g2 ++ kwObj).length) (g3 ++ txt ++ (g4 ++ kwEndobj ++ rest)) := by
    have := Suffix.drop (a := g0 ++ a ++ g1 ++ b ++ g2 ++ kwObj) (s := g3 ++ txt ++ (g4 ++ kwEndobj ++ rest)) (by simpa using h)
    simpa using this
  have h3 : Suffix buf (pos + (g0 ++ a ++ g1 ++ b ++ g2 ++ kwObj).length + g3.length + txt.length) (g4 ++ kwEndobj ++ rest) := by
    have := Suffix.drop (a := g3 ++ txt) (by simpa using h2)
    simpa [Nat.add_assoc] using this
  obtain ⟨dataPos, more, hv, hdata, hmore⟩ := parseCtx_stream_at env hd info data txt hsp hwf hnd hlen hsz g3 (g4 ++ kwEndobj ++ rest) _ fuel
    (id, gen) maxDepth hg3 h2 (by simpa using gap_bnd hg4 hg4ne (kwEndobj ++ rest)) hfuel hdepth flags hfl
  have he := nextExpect_regular g4 kwEndobj rest _ hg4 h3 (by decide) kw_endobj_regular hbnd
  refine ⟨dataPos, more, ?_, hdata, hmore⟩
  simp only [parseIndirectObject, hhead, Out.bind_ok, hv, he]
  cases env.allowMissingEndobj <;> simp <;> omega

/-- `n 0 obj <stream object> endobj` as `save` writes its cross-reference stream, read by
    `parse_indirect_stream`, followed by the `startxref` trailer: what `xrefStreamHead` returns -/
theorem xrefStreamHead_spec (env : Env R) (hd : env.decrypt = none) (info : Dict R) (data txt : List UInt8)
    (hsp : SpellsStream env.parseReal info data txt) (hwf : WFE info) (hnd : (keysOf info).Nodup)
    (hlen : LengthIs env info data.length) (hdepth : vdepthE info ≤ maxDepth) {buf : Buf} (hsz : buf.size ≤ 2147483647)
    (id pos : Nat) (hid : id ≤ 18446744073709551615) (tailw rest : List UInt8)
    (htw : tailw ≠ []) (htr : ∀ b ∈ tailw, isRegular b = true) (hnt : tailw ≠ kwTrailer) (hbr : Bnd rest)
    (h : Suffix buf pos (fmtNat id ++ [32, 48, 32] ++ kwObj ++ [10] ++ (txt ++ [10]) ++ kwEndobj ++ [10] ++ ([10] ++ tailw ++ rest)))
    (hfuel : needE info ≤ defaultFuel buf) :
    ∃ dataPos p, xrefStreamHead env buf pos = .ok ((streamAt env info (id, 0) dataPos data.length, info), p) ∧
      slice buf dataPos (dataPos + data.length) = data := by
  have hsp1 : Gap [32] := Gap.ws 32 [] (by decide) Gap.nil
  have hnl : Gap [10] := Gap.ws 10 [] (by decide) Gap.nil
  have h0 : PdfSyntax.NatTok ([48] : List UInt8) 0 := by have := fmtNat_spec 0; simpa [fmtNat, natDigitsAux, digitByte] using this
  -- header
  have hs1 : Suffix buf pos ([] ++ fmtNat id ++ [32] ++ [48] ++ [32] ++ kwObj ++
      ([10] ++ txt ++ ([10] ++ kwEndobj ++ [10] ++ ([10] ++ tailw ++ rest)))) := by simpa using h
  have hhead := parseObjHeader_spec [] (fmtNat id) [32] [48] [32] _ id 0 pos Gap.nil (fmtNat_spec id) h0 hsp1 (by simp) hsp1
    (by simp) hid (by decide) hs1 (by simp [Bnd]; decide)
  -- stream object
  have hs2 : Suffix buf (pos + ([] ++ fmtNat id ++ [32] ++ [48] ++ [32] ++ kwObj).length)
      ([10] ++ txt ++ ([10] ++ kwEndobj ++ [10] ++ ([10] ++ tailw ++ rest))) := by
    have := Suffix.drop (a := [] ++ fmtNat id ++ [32] ++ [48] ++ [32] ++ kwObj) hs1
    simpa using this
  obtain ⟨dataPos, hps, hdata⟩ := parseStream_spec env hd info data txt hsp hwf hnd hlen hsz [10] _ _ (defaultFuel buf) (id, 0) hnl hs2
    (by simp [Bnd]; decide) hfuel hdepth
  -- endobj
  have hs3 : Suffix buf (pos + ([] ++ fmtNat id ++ [32] ++ [48] ++ [32] ++ kwObj).length + ([10] : List UInt8).length + txt.length)
      ([10] ++ kwEndobj ++ ([10] ++ ([10] ++ tailw ++ rest))) := by
    have := Suffix.drop (a := [10] ++ txt) hs2
    have e : ∀ P : Nat, P + (([10] : List UInt8) ++ txt).length = P + ([10] : List UInt8).length + txt.length := by
      intro P; simp; omega
    rw [e] at this; simpa only [List.append_assoc] using this
  have hend := nextExpect_regular [10] kwEndobj _ _ hnl hs3 (by decide) kw_endobj_regular (by simp [Bnd]; decide)
  -- the lexeme behind it is not `trailer`
  have hs4 : Suffix buf (pos + ([] ++ fmtNat id ++ [32] ++ [48] ++ [32] ++ kwObj).length + ([10] : List UInt8).length + txt.length
      + ([10] : List UInt8).length + kwEndobj.length) ([10, 10] ++ tailw ++ rest) := by
    have := Suffix.drop (a := [10] ++ kwEndobj) hs3
    have e : ∀ P : Nat, P + (([10] : List UInt8) ++ kwEndobj).length = P + ([10] : List UInt8).length + kwEndobj.length := by
      intro P; simp; omega
    rw [e] at this; simpa only [List.append_assoc, List.cons_append, List.nil_append] using this
  have hg2 : Gap [10, 10] := Gap.ws 10 [10] (by decide) hnl
  obtain ⟨hn, hsl⟩ := next_regular [10, 10] tailw rest _ hg2 hs4 htw htr hbr
  refine ⟨dataPos, pos + ([] ++ fmtNat id ++ [32] ++ [48] ++ [32] ++ kwObj).length + ([10] : List UInt8).length + txt.length
      + ([10] : List UInt8).length + kwEndobj.length + ([10, 10] : List UInt8).length + tailw.length, ?_, hdata⟩
  have hne : (tailw == kwTrailer) = false := by simpa using hnt
  simp only [xrefStreamHead, parseIndirectStream, hhead, Out.bind_ok, hps, hend, hn, hsl, hne, Bool.false_eq_true, if_false,
    streamAt]

/-! ### the rows: `write_stream`'s bytes are the spec-side encoding, and the reader reads them back -/

theorem toBE_snoc : ∀ (w n : Nat), Xref.toBE (w + 1) n = Xref.toBE w (n / 256) ++ [UInt8.ofNat (n % 256)] := by
  intro w
  induction w with
  | zero => intro n; simp [Xref.toBE]
  | succ w ih =>
    intro n
    have e : n / 256 ^ (w + 1) = n / 256 / 256 ^ w := by
      rw [Nat.div_div_eq_div_mul, Nat.pow_succ, Nat.mul_comm]
    rw [Xref.toBE, ih n, Xref.toBE, e]; simp

theorem map_beBytes : ∀ (w n : Nat), (Storage.beBytes w n).map UInt8.ofNat = Xref.toBE w n := by
  intro w
  induction w with
  | zero => intro n; rfl
  | succ w ih => intro n; rw [Storage.beBytes, List.map_append, ih, toBE_snoc]; rfl

/-- a row as a reader sees it: free, in use, or compressed -/
def IsRow : Xref.XRef → Prop
  | .free _ _ => True
  | .raw _ _ => True
  | .stream _ _ => True
  | _ => False

theorem rowBytes_encode (aw bw : Nat) (r : Xref.XRef) (h : IsRow r) :
    (Storage.rowBytes aw bw r).map UInt8.ofNat = Xref.encodeEntry 1 aw bw r := by
  cases r <;> simp [IsRow] at h <;>
    simp [Storage.rowBytes, Storage.fieldsOf, Xref.encodeEntry, Xref.fieldsOf, map_beBytes, Xref.toBE]

theorem rowsData_encode (i : Storage.SaveInfo) (h : ∀ r ∈ i.rows, IsRow r) :
    SaveBytes.rowsData i = Xref.encodeRows 1 i.aw i.bw i.rows := by
  unfold SaveBytes.rowsData Xref.encodeRows
  generalize i.rows = rows at h
  induction rows with
  | nil => rfl
  | cons r rs ih =>
    simp only [List.flatMap_cons, List.map_append]
    rw [rowBytes_encode _ _ _ (h r (by simp)), ih (fun x hx => h x (by simp [hx]))]

theorem fits_of_fields (aw bw : Nat) (r : Xref.XRef) (h : IsRow r)
    (hf : ∀ ty a b, Storage.fieldsOf r = some (ty, a, b) → a < 256 ^ aw ∧ b < 256 ^ bw) : Xref.Fits 1 aw bw r := by
  cases r <;> simp [IsRow] at h <;> simp [Xref.Fits, Xref.fieldsOf] <;>
    (have := hf _ _ _ rfl; exact this)

/-- the one-section `/Index [0 n]` loop on the encoded rows -/
theorem parseSections_rows (aw bw : Nat) (rows : List Xref.XRef) (haw : aw ≤ 8) (hbw : bw ≤ 8)
    (hf : ∀ r ∈ rows, Xref.Fits 1 aw bw r) :
    Xref.parseSections [1, aw, bw] false [(0, rows.length)] (Xref.encodeRows 1 aw bw rows) [] = .ok [⟨0, rows⟩] := by
  have hlen := Xref.encodeRows_length 1 aw bw rows hf
  have hdiv : rows.length * (1 + aw + bw) / (1 + aw + bw) = rows.length := Nat.mul_div_cancel _ (by omega)
  have hre := Xref.readEntries_encode 1 aw bw rows [] [] (by decide) haw hbw hf
  simp only [List.append_nil, List.reverse_nil, List.nil_append] at hre
  have h1 : ¬ (1 + aw + bw ≥ Xref.U64) := by unfold Xref.U64; omega
  have h2 : ¬ (1 + aw + bw = 0) := by omega
  simp only [Xref.parseSections, Xref.parseSection, h1, h2, if_false, hlen, hdiv, Nat.lt_irrefl, gt_iff_lt, hre,
    List.reverse_cons, List.reverse_nil, List.nil_append]

/-! ### the cross-reference stream object `save` writes, read by `parse_xref_stream_and_trailer` -/

open SaveBytes in
theorem kFilter_not_trailer (tr : Storage.Trailer (Prim R)) (infoRef : Option Nat) (ids : List (List UInt8)) (size : Nat) :
    kFilter ∉ keysOf (trailerDict size tr infoRef ids) := by
  cases hp : tr.prev <;> cases hi : infoRef <;> simp only [trailerDict, hp] <;>
    (simp only [keysOf, List.map_cons, List.map_nil, List.append_nil, List.cons_append, List.nil_append]; decide)

open SaveBytes in
theorem xrefDict_nofilter (tr : Storage.Trailer (Prim R)) (infoRef : Option Nat) (ids : List (List UInt8)) (i : Storage.SaveInfo) :
    dictGet (xrefDict tr ids infoRef i) kFilter = none := by
  unfold xrefDict
  rw [dictGet_mergeDict_other _ _ _ (kFilter_not_trailer tr infoRef ids i.size)]
  simp [xrefInfoDict, dictGet, SaveBytes.kType, SaveBytes.kSize, SaveBytes.kIndex, SaveBytes.kW, kwLength, kFilter]

open SaveBytes in
theorem xrefInfoOf_xrefDict (fmt : R → List UInt8) (pr : List UInt8 → Option R) (tr : Storage.Trailer (Prim R))
    (i : Storage.SaveInfo) (D : Dict R) (hf : XrefDictFacts fmt pr tr i D) (hsz : i.size ≤ 1000000) :
    xrefInfoOf D = .ok (i.size, [(0, i.rows.length)], [1, i.aw, i.bw]) := by
  have e1 : OpenBytes.kType = SaveBytes.kType := rfl
  have e2 : OpenBytes.kSize = SaveBytes.kSize := rfl
  have e3 : OpenBytes.kIndex = SaveBytes.kIndex := rfl
  have e4 : OpenBytes.kW = SaveBytes.kW := rfl
  have e5 : OpenBytes.kXRef = SaveBytes.kXRef := rfl
  have hs : (0 : Int) ≤ (i.size : Int) ∧ (i.size : Int) ≤ 4294967295 := by omega
  simp only [xrefInfoOf, e1, e2, e3, e4, e5, hf.type, hf.size, hf.w, hf.index, if_true, hs, and_self, natsOf, Out.bind,
    pairsOf, Int.toNat_natCast, ge_iff_le, Int.natCast_nonneg, (by decide : (0 : Int) ≤ 1), (by decide : (0 : Int) ≤ 0)]
  rfl

open SaveBytes in
/-- **the xref stream reads back**: `parse_xref_stream_and_trailer` on the object `save` wrote returns the one
    section `0 ..` with exactly the rows written, and the stream dictionary as trailer -/
theorem stmC_saved (fmt : R → List UInt8) (env : Env R) (hd : env.decrypt = none)
    (dec : Dict R → List UInt8 → Out (List UInt8)) (hdec : NoFilter dec)
    (tr : Storage.Trailer (Prim R)) (infoRef : Option Nat) (ids : List (List UInt8)) (i : Storage.SaveInfo)
    (hb : Bounds tr infoRef i) (hxid : i.xid ≤ 18446744073709551615)
    (hrows : ∀ r ∈ i.rows, IsRow r) (hfits : ∀ r ∈ i.rows, Xref.Fits 1 i.aw i.bw r)
    (body : List UInt8) (hbody : serialize fmt (.stream (xrefDict tr ids infoRef i) (.pending (rowsData i))) = .ok body)
    {buf : Buf} (hsz : buf.size ≤ 2147483647) (pos : Nat) (ext : List UInt8)
    (h : Suffix buf pos ((fmtNat i.xid ++ [32, 48, 32] ++ kwObj ++ [10] ++ body ++ kwEndobj ++ [10]) ++ tailBytes i ++ ext)) :
    stmC env dec buf pos = .ok ([⟨0, i.rows⟩], xrefDict tr ids infoRef i) := by
  have hf := xrefDict_facts fmt env.parseReal tr infoRef ids i hb
  obtain ⟨txt, hser, hsp⟩ := serialize_stream_ok fmt env.parseReal (xrefDict tr ids infoRef i) (rowsData i) hf.ser
  rw [hbody] at hser
  simp only [Out.ok.injEq] at hser
  subst hser
  have hs : Suffix buf pos (fmtNat i.xid ++ [32, 48, 32] ++ kwObj ++ [10] ++ (txt ++ [10]) ++ kwEndobj ++ [10] ++
      ([10] ++ kwStartxref ++ ([10] ++ fmtNat i.xpos ++ [10] ++ kwEOF ++ ext))) := by
    simpa [tailBytes] using h
  have hfuel : needE (xrefDict tr ids infoRef i) ≤ defaultFuel buf := by
    obtain ⟨g1, ents, g2, eol, g3, htxt, _, hents, _⟩ := hsp
    have h1 := PdfLex.needE_bound env.parseReal _ ents hents
    have h2 := hs.size_eq
    have h3 : ents.length ≤ txt.length := by rw [htxt]; simp; omega
    simp only [List.length_append] at h2
    unfold defaultFuel; omega
  obtain ⟨dataPos, p, hhead, hdata⟩ := xrefStreamHead_spec env hd _ (rowsData i) txt hsp hf.wf hf.nodup (Or.inl hf.length)
    (Nat.le_trans hf.depth (by decide)) hsz i.xid pos hxid kwStartxref _ (by decide) (by decide +kernel) (by decide)
    (by simp [Bnd]; decide) hs hfuel
  have hinfo := xrefInfoOf_xrefDict fmt env.parseReal tr i _ hf hb.size
  have hnf := hdec _ (rowsData i) (xrefDict_nofilter tr infoRef ids i)
  have hps := parseSections_rows i.aw i.bw i.rows hb.aw hb.bw hfits
  rw [← rowsData_encode i hrows] at hps
  have e : env.fileOffset + dataPos + (rowsData i).length - env.fileOffset = dataPos + (rowsData i).length := by omega
  simp only [stmC, hhead, streamAt, hinfo, Nat.add_sub_cancel_left, e, hdata, hnf, hps]

end OpenBytes
