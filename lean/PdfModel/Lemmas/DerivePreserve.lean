import PdfModel.Lemmas.DeriveLaw

/-! Read, then write: what becomes of the entries of the input dictionary (second law of C15). -/

namespace Derive

theorem readFields_other (cfg : Cfg) (sem : Sem) (env : Env) :
    ∀ (fs : List Field) (d : Dict) (acc : List Val) (oth0 : Option Dict) res dfin oth',
      (∀ f ∈ fs, f.skip = false) → lastIsOther fs = true →
      readFields cfg sem env fs d acc oth0 = .ok (res, dfin, oth') →
      oth' = if fs.any (·.other) then some dfin else oth0 := by
  intro fs
  induction fs with
  | nil => intro d acc oth0 res dfin oth' _ _ h; simp [readFields] at h; simp [h.2.2]
  | cons f fs ih =>
    intro d acc oth0 res dfin oth' hskip hlast h
    have hs : f.skip = false := hskip f (by simp)
    cases ho : f.other with
    | true =>
      have hnil := lastIsOther_cons_other hlast ho
      subst hnil
      simp [readFields, hs, ho] at h
      obtain ⟨_, h2, h3⟩ := h
      subst h2
      simp [ho, ← h3]
    | false =>
      simp only [readFields, hs, ho] at h
      cases hr : readField cfg sem env f acc (dget (f.key.getD "") d) with
      | error e => simp [hr] at h
      | ok v =>
        simp [hr] at h
        have := ih _ _ oth0 res dfin oth' (fun g hg => hskip g (by simp [hg])) (lastIsOther_tail hlast) h
        simp [ho, this]

theorem mem_fkeys : ∀ (fs : List Field) (g : Field), g ∈ fs → g.skip = false → g.other = false →
    keyOf g ∈ fkeys fs := by
  intro fs
  induction fs with
  | nil => intro g hg; simp at hg
  | cons x xs ih =>
    intro g hg hs ho
    cases List.mem_cons.1 hg with
    | inl e => subst e; simp [fkeys, hs, ho]
    | inr hm =>
      have := ih g hm hs ho
      simp only [fkeys]
      cases hxs : (x.skip || x.other) <;> simp [this]

theorem read_then_write (cfg : Cfg) (sem : Sem) (env : Env) :
    ∀ (fs : List Field) (d : Dict) (acc : List Val) (oth0 : Option Dict) res dfin oth',
      (∀ f ∈ fs, f.skip = false) → distinct (fkeys fs) = true →
      readFields cfg sem env fs d acc oth0 = .ok (res, dfin, oth') →
      ∃ vs, res = acc ++ vs ∧ (∀ k, k ∉ fkeys fs → dget k dfin = dget k d) ∧ (∀ k ∈ fkeys fs, dget k dfin = none) ∧
        ∀ b out, (∀ k ∈ fkeys fs, dget k b = none) → writeFields sem fs vs b = .ok out →
          ∀ f ∈ fs, f.other = false →
            ∃ acc' fv e, readField cfg sem env f acc' (dget (keyOf f) d) = .ok fv ∧ emit sem f fv = .ok e ∧
              dget (keyOf f) out = e := by
  intro fs
  induction fs with
  | nil =>
    intro d acc oth0 res dfin oth' _ _ h
    simp [readFields] at h
    exact ⟨[], by simp [h.1], by simp [h.2.1], by simp [fkeys], by intro b out _ _ f hf; simp at hf⟩
  | cons f fs ih =>
    intro d acc oth0 res dfin oth' hskip hdist h
    have hs : f.skip = false := hskip f (by simp)
    have hskip' : ∀ g ∈ fs, g.skip = false := fun g hg => hskip g (by simp [hg])
    cases ho : f.other with
    | true =>
      have hso : (f.skip || f.other) = true := by simp [ho]
      simp only [readFields, hs, ho] at h
      have hfk : fkeys (f :: fs) = fkeys fs := by simp [fkeys, hso]
      rw [hfk] at hdist ⊢
      obtain ⟨vs, h1, h2, h3, h4⟩ := ih d acc (some d) res dfin oth' hskip' hdist (by simpa using h)
      refine ⟨vs, h1, h2, h3, ?_⟩
      intro b out hb hw
      simp only [writeFields, hso] at hw
      intro g hg hgo
      cases List.mem_cons.1 hg with
      | inl e => subst e; simp [ho] at hgo
      | inr hm => exact h4 b out hb (by simpa using hw) g hm hgo
    | false =>
      have hso : (f.skip || f.other) = false := by simp [hs, ho]
      simp only [readFields, hs, ho] at h
      have hfk : fkeys (f :: fs) = keyOf f :: fkeys fs := by simp [fkeys, hso]
      rw [hfk] at hdist ⊢
      rw [distinct_cons] at hdist
      cases hr : readField cfg sem env f acc (dget (f.key.getD "") d) with
      | error e => simp [hr] at h
      | ok v =>
        simp [hr] at h
        obtain ⟨vs, h1, h2, h3, h4⟩ := ih _ (acc ++ [v]) oth0 res dfin oth' hskip' hdist.2 h
        have hkf : f.key.getD "" = keyOf f := rfl
        refine ⟨v :: vs, by simp [h1], ?_, ?_, ?_⟩
        · intro k hk
          have hk1 : k ≠ keyOf f := fun e => hk (by simp [e])
          have hk2 : k ∉ fkeys fs := fun m => hk (by simp [m])
          rw [h2 k hk2, hkf]; exact dget_derase_ne (fun e => hk1 e.symm) d
        · intro k hk
          cases List.mem_cons.1 hk with
          | inl e => subst e; rw [h2 _ hdist.1, hkf]; simp
          | inr hm => exact h3 k hm
        · intro b out hb hw
          have hb1 : dget (keyOf f) b = none := hb _ (by simp)
          have hb2 : ∀ k ∈ fkeys fs, dget k b = none := fun k hk => hb k (by simp [hk])
          simp only [writeFields, hso] at hw
          simp at hw
          cases hem : emit sem f v with
          | error e => simp [hem] at hw
          | ok e =>
            intro g hg hgo
            cases List.mem_cons.1 hg with
            | inl eg =>
              subst eg
              refine ⟨acc, v, e, by rw [← hkf]; exact hr, hem, ?_⟩
              cases e with
              | none =>
                simp [hem] at hw
                rw [writeFields_foreign sem _ fs vs b out hw hdist.1]; exact hb1
              | some q =>
                simp [hem] at hw
                rw [writeFields_foreign sem _ fs vs _ out hw hdist.1, hkf]; simp
            | inr hm =>
              have hgk : keyOf g ∈ fkeys fs := mem_fkeys fs g hm (hskip' g hm) hgo
              have hne : keyOf f ≠ keyOf g := fun e => hdist.1 (e ▸ hgk)
              cases e with
              | none =>
                simp [hem] at hw
                obtain ⟨acc', fv, e', hrd, hem', hget⟩ := h4 b out hb2 hw g hm hgo
                refine ⟨acc', fv, e', ?_, hem', hget⟩
                rw [← hrd, hkf, dget_derase_ne (k := keyOf g) (k' := keyOf f) hne d]
              | some q =>
                simp [hem] at hw
                have hb' : ∀ k ∈ fkeys fs, dget k (dinsert (f.key.getD "") q b) = none := by
                  intro k hk
                  rw [dget_dinsert_ne (fun e2 => hdist.1 (by rw [hkf] at e2; exact e2 ▸ hk)) q b]
                  exact hb2 k hk
                obtain ⟨acc', fv, e', hrd, hem', hget⟩ := h4 _ out hb' hw g hm hgo
                refine ⟨acc', fv, e', ?_, hem', hget⟩
                rw [← hrd, hkf, dget_derase_ne (k := keyOf g) (k' := keyOf f) hne d]

theorem expect_ok_get {d : Dict} {key value : String} {req : Bool} {v : Prim}
    (h : expect d key value req = .ok ()) (hg : dget key d = some v) : v = .name value := by
  simp only [expect, hg] at h
  cases v <;> simp at h
  rename_i n
  by_cases hn : n = value
  · simp [hn]
  · simp [hn] at h

theorem expectAll_ok_get {d : Dict} :
    ∀ (cs : List (String × String)), expectAll d cs = .ok () → ∀ k c v, (k, c) ∈ cs → dget k d = some v →
      v = .name c := by
  intro cs
  induction cs with
  | nil => intro _ k c v hm; simp at hm
  | cons x xs ih =>
    obtain ⟨k0, c0⟩ := x
    intro h k c v hm hg
    simp only [expectAll] at h
    cases he : expect d k0 c0 true with
    | error e => simp [he] at h
    | ok u =>
      cases u
      simp [he] at h
      cases List.mem_cons.1 hm with
      | inl e => cases e; exact expect_ok_get he hg
      | inr hm' => exact ih h k c v hm' hg

theorem readStructD_ok {cfg : Cfg} {sem : Sem} {env : Env} {S : Schema} {d : Dict} {x : Val}
    (h : readStructD cfg sem env S d = .ok x) :
    (∀ t, S.typeName = some t → expect d "Type" t S.typeRequired = .ok ()) ∧ expectAll d S.checks = .ok () ∧
      ∃ vals dfin oth, readFields cfg sem env S.fields d [] none = .ok (vals, dfin, oth) ∧ x = .struct vals (oth.getD []) := by
  unfold readStructD at h
  have key : ∀ (h' : (match expectAll d S.checks with
        | .error e => .error e
        | .ok () =>
          match readFields cfg sem env S.fields d [] none with
          | .error e => .error e
          | .ok (vals, _, oth) => .ok (.struct vals (oth.getD []))) = (.ok x : R Val)),
      expectAll d S.checks = .ok () ∧
      ∃ vals dfin oth, readFields cfg sem env S.fields d [] none = .ok (vals, dfin, oth) ∧ x = .struct vals (oth.getD []) := by
    intro h'
    cases hch : expectAll d S.checks with
    | error e => simp [hch] at h'
    | ok u =>
      cases u
      simp only [hch] at h'
      cases hrf : readFields cfg sem env S.fields d [] none with
      | error e => simp [hrf] at h'
      | ok t =>
        obtain ⟨vals, dfin, oth⟩ := t
        simp [hrf] at h'
        exact ⟨rfl, vals, dfin, oth, rfl, h'.symm⟩
  cases htn : S.typeName with
  | none =>
    simp only [htn] at h
    exact ⟨fun t ht => by simp at ht, key h⟩
  | some t =>
    simp only [htn] at h
    cases he : expect d "Type" t S.typeRequired with
    | error e => simp [he] at h
    | ok u =>
      cases u
      simp only [he] at h
      exact ⟨fun t' ht => by cases ht; exact he, key h⟩

/-- the second law for one derived struct with a catch-all -/
theorem struct_preserves (cfg : Cfg) (sem : Sem) (env : Env) (S : Schema)
    (hk : S.kind = .struct) (hrd : S.derivesRead = true) (wf : S.WF) (ho : S.hasOther = true)
    (d : Dict) (x : Val) (hr : readStructD cfg sem env S d = .ok x)
    (out : Dict) (hw : writeStruct sem S x = .ok (.dict out)) :
    ∀ k v, dget k d = some v →
      (k ∉ S.fieldKeys → dget k out = some v) ∧
      (∀ f ∈ S.fields, f.other = false → keyOf f = k →
        ∃ acc fv e, readField cfg sem env f acc (some v) = .ok fv ∧ emit sem f fv = .ok e ∧ dget k out = e) := by
  intro k v hkv
  have F := structFacts hk hrd wf
  obtain ⟨hty, hch, vals, dfin, oth', hrf, hx⟩ := readStructD_ok hr
  subst hx
  have hoth := readFields_other cfg sem env S.fields d [] none vals dfin oth' F.noSkip F.last hrf
  have hany : (S.fields.any fun f => f.other) = true := ho
  simp only [hany, if_true] at hoth
  subst hoth
  obtain ⟨vs, h1, h2, h3, h4⟩ := read_then_write cfg sem env S.fields d [] none vals dfin _ F.noSkip F.distinctKeys hrf
  simp at h1; subst h1
  simp only [writeStruct, Option.getD] at hw
  cases hD : writeFields sem S.fields vals (writeBase S dfin) with
  | error e => simp [hD] at hw
  | ok D =>
    simp [hD] at hw; subst hw
    have hfresh : ∀ k ∈ fkeys S.fields, dget k (writeBase S dfin) = none := by
      intro k' hk'
      rw [dget_writeBase_foreign S dfin k' (fun h => F.disjoint k' h hk')]
      simp [ho]; exact h3 k' hk'
    refine ⟨?_, ?_⟩
    · intro hnk
      rw [F.keysEq] at hnk
      rw [writeFields_foreign sem k S.fields vals _ D hD hnk]
      by_cases htag : k ∈ S.tagKeys
      · simp only [Schema.tagKeys, List.mem_append] at htag
        cases htag with
        | inl ht =>
          cases htn : S.typeName with
          | none => simp [htn] at ht
          | some t =>
            simp [htn] at ht; subst ht
            rw [writeBase_type S dfin F.distinctTags t htn, expect_ok_get (hty t htn) hkv]
        | inr hc =>
          obtain ⟨⟨k0, c⟩, hm, hkk⟩ := List.mem_map.1 hc
          simp at hkk; subst hkk
          rw [writeBase_checks S dfin F.distinctTags k0 c hm, expectAll_ok_get S.checks hch k0 c v hm hkv]
      · rw [dget_writeBase_foreign S dfin k htag]
        simp [ho]; rw [h2 k hnk]; exact hkv
    · intro f hf hfo hkf
      obtain ⟨acc', fv, e, hrd', hem, hget⟩ := h4 _ D hfresh hD f hf hfo
      rw [hkf, hkv] at hrd'
      exact ⟨acc', fv, e, hrd', hem, by rw [← hkf]; exact hget⟩

end Derive
