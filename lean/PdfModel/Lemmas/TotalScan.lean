import PdfModel.Model.ScanLoop
import PdfModel.Lemmas.TotalXrefTable
import PdfModel.Lemmas.TotalGlue

/-!
  The item loop of `Storage::scan` on the concrete lexer / parser (`Model/ScanLoop.lean`, C17) is total — C01.

  Every call of the iterator's closure (`ScanLoop.step`) answers `None` at the same cursor or an item at a cursor
  strictly further inside the slice; it never answers `Err` itself (errors are items), never panics, and the fuel
  `len + 2` for its `startxref … continue` recursion never runs out. Hence the iterator ends after at most `len`
  items (`ScanLoop.items` with fuel `len + 2`). `scanItemsOf` turns the loop into the `scanItems` parameter of
  `Offsets.Parsers` WITHOUT hiding a failure of the loop: a `panic` / `oof` of `items` would be an item that does not
  return — so `ParamsOk.scan` for it is a consequence of the totality proved here, not of the shape of a map.
-/

namespace ScanLoop
open PdfLex XrefTable Offsets

variable {R : Type}

theorem skipXref_spec (buf : Buf) : ∀ (fuel pos : Nat), pos ≤ buf.size → buf.size - pos < fuel →
    skipXref buf fuel pos = .err ∨ ∃ q, skipXref buf fuel pos = .ok q ∧ pos < q ∧ q ≤ buf.size := by
  intro fuel
  induction fuel with
  | zero => intro pos _ hf; omega
  | succ fuel ih =>
    intro pos h hf
    unfold skipXref
    rcases next_spec buf pos h with he | ⟨w, hw, a1, a2, a3⟩
    · left; simp [he]
    · rw [hw]; simp only []
      split
      · right; exact ⟨w.2, rfl, by omega, a3⟩
      · rcases ih w.2 a3 (by omega) with he | ⟨q, hq, q1, q2⟩
        · left; exact he
        · right; exact ⟨q, hq, by omega, q2⟩

/-- one call of the closure: the end of the iteration, or an item and a cursor strictly further inside the slice -/
theorem step_spec (env : Env R) (henv : EnvOk env) (buf : Buf) (hs : RealSize buf) :
    ∀ (fuel pos : Nat), pos ≤ buf.size → buf.size - pos < fuel →
    (∃ p, step env buf (PdfLex.defaultFuel buf) fuel pos = .ok (none, p)) ∨
    ∃ it q, step env buf (PdfLex.defaultFuel buf) fuel pos = .ok (some it, q) ∧ pos < q ∧ q ≤ buf.size := by
  intro fuel
  induction fuel with
  | zero => intro pos _ hf; omega
  | succ fuel ih =>
    intro pos h hf
    unfold step
    rcases parseIndirectObject_good env henv buf hs (PdfLex.defaultFuel buf) pos 1023 h
        (by unfold PdfLex.defaultFuel; omega) with he | ⟨v, q, hq, q1, q2⟩
    · rw [he]; simp only []
      split
      · left; exact ⟨pos, rfl⟩
      · rename_i hne
        rcases next_spec buf pos h with hn | ⟨w, hw, a1, a2, a3⟩
        · exfalso; apply hne; unfold eofInHeader; rw [hn]
        · rw [hw]; simp only []
          split
          · rcases skipXref_spec buf (buf.size + 1) w.2 a3 (by omega) with hk | ⟨k, hk, k1, k2⟩
            · rw [hk]; right; exact ⟨_, w.2, rfl, by omega, a3⟩
            · rw [hk]; simp only []
              rcases trailerDict_good env henv buf hs k k2 with ht | ⟨d, q2, ht, t1, t2⟩
              · rw [ht]; right; exact ⟨_, k, rfl, by omega, k2⟩
              · rw [ht]; right; exact ⟨_, q2, rfl, by omega, t2⟩
          · split
            · rcases next_spec buf w.2 a3 with hn2 | ⟨w2, hw2, b1, b2, b3⟩
              · rw [hn2]; right; exact ⟨_, w.2, rfl, by omega, a3⟩
              · rw [hw2]; simp only []
                rcases ih w2.2 b3 (by omega) with ⟨p, hr⟩ | ⟨it, q, hr, r1, r2⟩
                · left; exact ⟨p, hr⟩
                · right; exact ⟨it, q, hr, by omega, r2⟩
            · right; exact ⟨_, w.2, rfl, by omega, a3⟩
    · rcases v with ⟨⟨id, gen⟩, v⟩
      rw [hq]; right; exact ⟨_, q, rfl, q1, q2⟩

/-- the iterator: it ends, with at most one item per byte of the slice -/
theorem items_spec (env : Env R) (henv : EnvOk env) (buf : Buf) (hs : RealSize buf) :
    ∀ (fuel pos : Nat), pos ≤ buf.size → buf.size - pos < fuel →
    ∃ l, items env buf (PdfLex.defaultFuel buf) fuel pos = .ok l ∧ l.length ≤ buf.size - pos := by
  intro fuel
  induction fuel with
  | zero => intro pos _ hf; omega
  | succ fuel ih =>
    intro pos h hf
    unfold items
    rcases step_spec env henv buf hs (buf.size + 2) pos h (by omega) with ⟨p, hp⟩ | ⟨it, q, hq, q1, q2⟩
    · rw [hp]; exact ⟨[], rfl, Nat.zero_le _⟩
    · rw [hq]; simp only []
      obtain ⟨l, hl, hlen⟩ := ih q q2 (by omega)
      rw [hl]; exact ⟨it :: l, rfl, by simp; omega⟩

/-- what an item is for `Offsets.Parsers.scanItems`: an object, a trailer dictionary, or an error -/
def itemOut : Item R → Out (Obj (Prim R))
  | .obj _ _ v => .ok (.plain v)
  | .trailer d => .ok (.plain (.dict d))
  | .error => .err

/-- the item loop as the `scanItems` parameter of the open path (the file ranges of stream objects are dropped: only
    totality is asked of this parameter). A `panic` / `oof` of the loop is NOT hidden: it would be an item that does
    not return. A slice longer than `isize::MAX` does not exist in Rust. -/
def scanItemsOf (env : Env R) (sl : OffLex.Bytes) : List (Out (Obj (Prim R))) :=
  if sl.length ≤ isizeMax then
    match items { env with fileOffset := 0 } sl.toArray (PdfLex.defaultFuel sl.toArray) (sl.length + 2) 0 with
    | .ok l => l.map itemOut
    | .err => [.err]
    | .panic => [.panic]
    | .oof => [.oof]
  else []

theorem itemOut_returns (it : Item R) : (itemOut it).Returns := by
  cases it <;> simp [itemOut, Out.Returns]

/-- **every item of the recovery scan returns, and there are at most `len` of them** -/
theorem scanItemsOf_spec (env : Env R) (henv : EnvOk env) (sl : OffLex.Bytes) :
    (∀ it ∈ scanItemsOf env sl, it.Returns) ∧ (scanItemsOf env sl).length ≤ sl.length := by
  unfold scanItemsOf
  split
  · rename_i hlen
    have henv' : EnvOk { env with fileOffset := 0 } := ⟨henv.1, henv.2⟩
    obtain ⟨l, hl, hn⟩ := items_spec _ henv' sl.toArray (realSize_of_len (by simpa using hlen))
      (sl.length + 2) 0 (Nat.zero_le _) (by simp)
    rw [hl]
    refine ⟨fun it hit => ?_, by simpa using hn⟩
    obtain ⟨x, _, rfl⟩ := List.mem_map.1 hit
    exact itemOut_returns x
  · exact ⟨fun it hit => (by cases hit), Nat.zero_le _⟩

/-- the parameters of `coreParsers` with the scan loop made concrete: nothing is assumed about the scan -/
theorem paramsOk_scan (env : Env R) (typed : Dict R → Out XrefTable.XInfo)
    (sdata : Dict R → StreamInner → Out (List UInt8)) (dec : Dict R → OffLex.Bytes → Out OffLex.Bytes)
    (henv : EnvOk env) (htyped : ∀ d, Ret (typed d)) (hsdata : ∀ d i, Ret (sdata d i))
    (hdec : ∀ d raw, Ret (dec d raw) ∧ ∀ out, dec d raw = .ok out → out.length ≤ isizeMax) :
    ParamsOk env typed sdata dec (scanItemsOf env) :=
  ⟨henv, htyped, hsdata, hdec, fun s => (scanItemsOf_spec env henv s).1⟩

end ScanLoop
