import PdfModel.Lemmas.OpenBytes
import PdfModel.Lemmas.XrefWalk
import PdfModel.Lemmas.Offsets
import PdfModel.Lemmas.TotalLexer
import PdfModel.Lemmas.ObjStm
import PdfModel.Lemmas.StorageRun
import PdfModel.Props.C04

/-!
  The bytes of a file *represent* an abstract storage state (`Rep`): every object record and every
  cross-reference section of the abstract backend is what the byte-level parsers read at its offset, whatever
  is appended behind.  Three facts discharge the abstraction of `Model/Storage.lean`:

  * `open_of_rep` / `resolve_of_rep`: on bytes that represent `st`, the byte-level open path
    (`OpenBytes.openB`: header, `startxref`, section reader, `/Prev` walk, merge) builds the table of the
    abstract `reload`, and `OpenBytes.resolveB` returns what the abstract `resolve` returns;
  * `rep_saveB`: `SaveBytes.saveB` keeps the relation (the new records are read back by
    `C04.parse_serialize_indirect` / `parse_serialize_stream`, the new section by `OpenBytes.stmC_saved`);
  * operations other than a successful save do not touch the backend.
-/

namespace RepBytes
open OffLex

/-! ### the lexer of the offset code on digits; the backward search -/

theorem findLast_none_of_head (a : UInt8) (pt : Bytes) : ∀ l : Bytes, (∀ b ∈ l, b ≠ a) → findLast (a :: pt) l = none := by
  intro l
  induction l with
  | nil => intro _; rfl
  | cons b bs ih =>
    intro h
    have hb : b ≠ a := h b (by simp)
    have hne : (a == b) = false := by simpa using fun e => hb e.symm
    simp [findLast, ih (fun x hx => h x (by simp [hx])), List.isPrefixOf, hne]

theorem findLast_unique (a : UInt8) (pt pre tail : Bytes) (h : ∀ b ∈ pt ++ tail, b ≠ a) :
    findLast (a :: pt) (pre ++ (a :: pt) ++ tail) = some pre.length := by
  have h0 : findLast (a :: pt) ((a :: pt) ++ tail) = some 0 := by
    simp only [List.cons_append, findLast, findLast_none_of_head a pt _ h]
    have : (a :: pt).isPrefixOf (a :: (pt ++ tail)) = true := by
      rw [List.isPrefixOf_iff_prefix]; exact ⟨tail, by simp⟩
    simp [this]
  have := Offsets.findLast_append (a :: pt) pre _ 0 h0
  simpa [List.append_assoc] using this

theorem digitsVal_eq : ∀ (ds : Bytes) (acc : Nat), (∀ b ∈ ds, isDigit b = true) →
    OffLex.digitsVal ds acc = some (ds.foldl (fun a d => a * 10 + (d.toNat - 48)) acc) := by
  intro ds
  induction ds with
  | nil => intro acc _; rfl
  | cons d ds ih =>
    intro acc h
    have hd := h d (by simp)
    simp only [OffLex.digitsVal, hd, if_true, List.foldl_cons]
    exact ih _ (fun b hb => h b (by simp [hb]))

theorem parseUsize_natTok (t : Bytes) (n : Nat) (h : PdfSyntax.NatTok t n) (hn : n ≤ usizeMax) : parseUsize t = .ok n := by
  obtain ⟨hne, hdig, hv⟩ := h
  have hdig' : ∀ b ∈ t, isDigit b = true := hdig
  unfold parseUsize
  cases ht : t with
  | nil => exact absurd ht hne
  | cons b tl =>
    have hb : isDigit b = true := hdig' b (by simp [ht])
    have h43 : b ≠ 43 := (ObjStmSpec.digit_facts b hb).2.2.2.2
    have : ¬ ((b :: tl).head? = some 43) := by simp; exact h43
    simp only [this, if_false]
    have := digitsVal_eq t 0 hdig'
    rw [ht] at this
    have hv' : (b :: tl).foldl (fun a d => a * 10 + (d.toNat - 48)) 0 = n := by rw [← ht]; exact hv
    simp [this, hv', hn]

/-- `next()` on white-space, digits, a line feed: the digits -/
theorem nextWord_digits (ws ds t : Bytes) (hws : ∀ b ∈ ws, isWs b = true) (hne : ds ≠ [])
    (hds : ∀ b ∈ ds, isDigit b = true) : nextWord (ws ++ ds ++ 10 :: t) = .ok (ds, 10 :: t) := by
  cases hd : ds with
  | nil => exact absurd hd hne
  | cons d ds' =>
    subst hd
    have hd0 := ObjStmSpec.digit_facts d (hds d (by simp))
    have hne' : ws ++ (d :: ds') ++ 10 :: t ≠ [] := by simp
    unfold nextWord
    cases hr : ws ++ (d :: ds') ++ 10 :: t with
    | nil => exact absurd hr hne'
    | cons r0 rs =>
      simp only
      rw [← hr]
      have hskip : skipWs (ws ++ (d :: ds') ++ 10 :: t) = .ok (d :: (ds' ++ 10 :: t)) := by
        unfold skipWs
        rw [List.append_assoc, ObjStmSpec.dropWhile_append_all isWs ws _ hws]
        simp [hd0.2.1]
      rw [hskip]
      simp only
      have hcom : skipComments (d :: (ds' ++ 10 :: t)) = .ok (d :: (ds' ++ 10 :: t)) := by
        simp [skipComments, skipCommentsF, hd0.2.2.2.1]
      rw [hcom]
      simp only [hd0.2.2.1, Bool.false_eq_true, if_false]
      have hreg : ∀ b ∈ d :: ds', isRegular b = true := fun b hb => (ObjStmSpec.digit_facts b (hds b hb)).1
      have := ObjStmSpec.takeWhile_append_stop isRegular (d :: ds') 10 t hreg (by decide)
      simp only [List.cons_append] at this
      rw [this.1, this.2]

end RepBytes

namespace RepBytes
open Storage PdfLex Xref OpenBytes SaveBytes
open PdfSyntax (Gap Bnd SpellsStream WF WFE keysOf vdepth vdepthE need needE)

variable {R : Type}

/-! ### the section reader on the section `save` wrote -/

theorem scanBack_stop (buf : Buf) (cond : UInt8 → Bool) (pos : Nat) (b : UInt8) (hb : buf[pos]? = some b)
    (hc : cond b = false) : scanBack buf cond (pos + 1) = pos + 1 := by
  simp [scanBack, hb, hc]

theorem scanBack_all (buf : Buf) (cond : UInt8 → Bool) : ∀ (pos : Nat),
    (∀ j, j < pos → ∃ b, buf[j]? = some b ∧ cond b = true) → scanBack buf cond pos = 0 := by
  intro pos
  induction pos with
  | zero => intro _; rfl
  | succ pos ih =>
    intro h
    obtain ⟨b, hb, hc⟩ := h pos (by omega)
    simp only [scanBack, hb, hc, if_true]
    exact ih (fun j hj => h j (by omega))

/-- `Lexer::back` right behind a lexeme that begins the buffer -/
theorem back_first_token {buf : Buf} (t rest : List UInt8) (h : Suffix buf 0 (t ++ rest)) (hne : t ≠ [])
    (hnw : ∀ b ∈ t, isWhitespace b = false) : back buf t.length = .ok (0, t.length) := by
  have hsz := h.size_eq
  simp only [List.length_append, Nat.zero_add] at hsz
  have hget : ∀ j, j < t.length → buf[j]? = t[j]? := by
    intro j hj
    have := h.get j
    simp only [Nat.zero_add] at this
    rw [this, List.getElem?_append_left hj]
  obtain ⟨n, hn⟩ : ∃ n, t.length = n + 1 := by
    cases t with
    | nil => exact absurd rfl hne
    | cons a t => exact ⟨t.length, by simp⟩
  have hlast : ∃ b, buf[n]? = some b ∧ isWhitespace b = false := by
    have hj : n < t.length := by omega
    refine ⟨t[n], ?_, hnw _ (List.getElem_mem hj)⟩
    rw [hget n hj]; simp [hj]
  obtain ⟨b, hb, hbw⟩ := hlast
  have e1 : scanBack buf isWhitespace t.length = t.length := by
    rw [hn]; exact scanBack_stop buf _ n b hb hbw
  have e2 : scanBack buf (fun b => !isWhitespace b) t.length = 0 := by
    apply scanBack_all
    intro j hj
    refine ⟨t[j], ?_, ?_⟩
    · rw [hget j hj]; simp [hj]
    · simp [hnw _ (List.getElem_mem hj)]
  have hle : ¬ t.length > buf.size := by omega
  simp only [back, boundaryRev, hle, if_false, Out.bind_ok, e1, e2]
  exact newSubstr_fwd (Nat.zero_le _) (by omega)

theorem digits_not_ws : ∀ b : UInt8, PdfSyntax.isDig b = true → isWhitespace b = false ∧ isRegular b = true := by
  decide +kernel

/-- **the section `save` wrote is read back by `read_xref_and_trailer_at`** (handed the file from the
    section's offset on, whatever follows the `%%EOF`) -/
theorem xrefAt_saved (fmt : R → List UInt8) (env : Env R) (hd : env.decrypt = none)
    (dec : Dict R → List UInt8 → Out (List UInt8)) (hdec : NoFilter dec)
    (tr : Trailer (Prim R)) (infoRef : Option Nat) (ids : List (List UInt8)) (i : SaveInfo)
    (hb : Bounds tr infoRef i) (hxid : i.xid ≤ 18446744073709551615)
    (hrows : ∀ r ∈ i.rows, IsRow r) (hfits : ∀ r ∈ i.rows, Xref.Fits 1 i.aw i.bw r)
    (body : List UInt8) (hbody : serialize fmt (.stream (xrefDict tr ids infoRef i) (.pending (rowsData i))) = .ok body)
    (ext : List UInt8)
    (hsz : ((fmtNat i.xid ++ [32, 48, 32] ++ kwObj ++ [10] ++ body ++ kwEndobj ++ [10]) ++ tailBytes i ++ ext).length ≤ 2147483647) :
    XrefTable.xrefAt env (stmC env dec)
      ((fmtNat i.xid ++ [32, 48, 32] ++ kwObj ++ [10] ++ body ++ kwEndobj ++ [10]) ++ tailBytes i ++ ext)
      = .ok ([⟨0, i.rows⟩], xrefDict tr ids infoRef i) := by
  generalize hS : (fmtNat i.xid ++ [32, 48, 32] ++ kwObj ++ [10] ++ body ++ kwEndobj ++ [10]) ++ tailBytes i ++ ext = S at hsz
  have h0 : Suffix S.toArray 0 S := suffix_zero S
  have hstm := stmC_saved fmt env hd dec hdec tr infoRef ids i hb hxid hrows hfits body hbody (buf := S.toArray)
    (by simpa using hsz) 0 ext (by rw [hS]; exact h0)
  obtain ⟨hne, hdig, _⟩ := fmtNat_spec i.xid
  have hreg : ∀ b ∈ fmtNat i.xid, isRegular b = true := fun b hb => (digits_not_ws b (hdig b hb)).2
  have hnw : ∀ b ∈ fmtNat i.xid, isWhitespace b = false := fun b hb => (digits_not_ws b (hdig b hb)).1
  have hs1 : Suffix S.toArray 0 ([] ++ fmtNat i.xid ++ ([32, 48, 32] ++ kwObj ++ [10] ++ body ++ kwEndobj ++ [10] ++ tailBytes i ++ ext)) := by
    rw [← hS] at h0 ⊢; simpa using h0
  obtain ⟨hn, hsl⟩ := next_regular [] (fmtNat i.xid) _ 0 Gap.nil hs1 hne hreg (by simp [Bnd]; decide)
  simp only [List.length_nil, Nat.add_zero, Nat.zero_add] at hn hsl
  have hnx : (fmtNat i.xid == XrefTable.kwXref) = false := by
    cases hf : fmtNat i.xid with
    | nil => exact absurd hf hne
    | cons a t =>
      have := hdig a (by simp [hf])
      have ha : a ≠ 120 := by intro h; subst h; simp [PdfSyntax.isDig] at this
      simp [XrefTable.kwXref, ha]
  have hback := back_first_token (fmtNat i.xid) _ (by simpa using hs1) hne hnw
  simp only [XrefTable.xrefAt, XrefTable.readXrefAndTrailerAt, hn, hsl, hnx, Bool.false_eq_true, if_false, hback, hstm]

/-! ### `locate_xref_offset` on a file that ends with the trailer `save` writes -/

/-- the number after the last `startxref` of `… startxref\n<xpos>\n%%EOF` is `xpos` -/
theorem locateXref_tail (pre : List UInt8) (i : SaveInfo) (hx : i.xpos ≤ 18446744073709551615) :
    Offsets.locateXref (pre ++ tailBytes i) = .ok i.xpos := by
  obtain ⟨hne, hdig, hv⟩ := fmtNat_spec i.xpos
  have hdig' : ∀ b ∈ fmtNat i.xpos, OffLex.isDigit b = true := hdig
  have hbuf : pre ++ tailBytes i = (pre ++ [10]) ++ Offsets.startxrefKw ++ ([10] ++ fmtNat i.xpos ++ [10] ++ kwEOF) := by
    simp [tailBytes, kwStartxref, Offsets.startxrefKw]
  have htake : (pre ++ tailBytes i).take ((pre ++ tailBytes i).length - 1)
      = (pre ++ [10]) ++ Offsets.startxrefKw ++ ([10] ++ fmtNat i.xpos ++ [10, 37, 37, 69, 79]) := by
    have e : pre ++ tailBytes i = ((pre ++ [10]) ++ Offsets.startxrefKw ++ ([10] ++ fmtNat i.xpos ++ [10, 37, 37, 69, 79])) ++ [70] := by
      simp [tailBytes, kwStartxref, Offsets.startxrefKw, kwEOF]
    have hl : ∀ (l : List UInt8) (x : UInt8), (l ++ [x]).take ((l ++ [x]).length - 1) = l := by intro l x; simp
    rw [e]; exact hl _ _
  have hfl : OffLex.findLast Offsets.startxrefKw ((pre ++ [10]) ++ Offsets.startxrefKw ++ ([10] ++ fmtNat i.xpos ++ [10, 37, 37, 69, 79]))
      = some (pre ++ [10]).length := by
    apply findLast_unique 115 [116, 97, 114, 116, 120, 114, 101, 102]
    intro b hb
    simp only [List.mem_append, List.mem_cons, List.not_mem_nil, or_false] at hb
    rcases hb with hb | hb
    · rcases hb with rfl | rfl | rfl | rfl | rfl | rfl | rfl | rfl <;> decide
    · rcases hb with (rfl | hb) | hb
      · decide
      · intro e; subst e; have := hdig' _ hb; simp [OffLex.isDigit] at this
      · rcases hb with rfl | rfl | rfl | rfl | rfl <;> decide
  have hdrop : (pre ++ tailBytes i).drop ((pre ++ [10]).length + Offsets.startxrefKw.length)
      = [10] ++ fmtNat i.xpos ++ 10 :: kwEOF := by
    rw [hbuf, ← List.length_append, List.drop_left']
    · simp
    · rfl
  unfold Offsets.locateXref
  rw [htake, hfl]
  simp only
  rw [hdrop, nextWord_digits [10] (fmtNat i.xpos) kwEOF (by simp; decide) hne hdig']
  simp only
  exact parseUsize_natTok _ _ (fmtNat_spec i.xpos) hx

/-! ### bytes that represent an abstract storage state -/

/-- what the byte-level resolver's answer denotes: a stream's data is read from the bytes through its
    `file_range` -/
inductive Denotes (bytes : List UInt8) : Offsets.Obj (Prim R) → Prim R → Prop
  | plain (v : Prim R) (h : ∀ info s, v ≠ .stream info s) : Denotes bytes (.plain v) v
  | stream (info : Dict R) (a : Nat) (data : List UInt8) (hle : a + data.length ≤ bytes.length)
      (hd : (bytes.drop a).take data.length = data) :
      Denotes bytes (.stream (.dict info) a (a + data.length)) (.stream info (.pending data))

theorem Denotes.mono {bytes : List UInt8} {o : Offsets.Obj (Prim R)} {v : Prim R} (h : Denotes bytes o v)
    (ext : List UInt8) : Denotes (bytes ++ ext) o v := by
  cases h with
  | plain v h => exact .plain v h
  | stream info a data hle hd =>
    refine .stream info a data (by simp; omega) ?_
    rw [List.drop_append_of_le_length (by omega), List.take_append_of_le_length (by simp; omega)]
    exact hd

/-- an object record of the abstract backend is what `resolve_ref`'s direct branch reads at its offset,
    whatever is appended to the file; its members (if it is an object stream) are what the compressed branch
    reads out of it -/
def ObjRep (P : Offsets.Parsers (Prim R) (Dict R)) (bytes : List UInt8) (o : Storage.Obj (Prim R)) : Prop :=
  ∀ (ext : List UInt8) (rl : Nat → Out (Offsets.Obj (Prim R))),
    (∃ r, Offsets.directBody P rl (bytes ++ ext) 0 .any o.off = .ok r ∧ Denotes bytes r o.val) ∧
    (∀ idx v, o.members[idx]? = some v →
      Offsets.compressedBody P (Offsets.directBody P rl (bytes ++ ext) 0 .any o.off) (bytes ++ ext) .any idx = .ok (.plain v) ∧
      ∀ info s, v ≠ .stream info s)

/-- a cross-reference section of the abstract backend is what `read_xref_and_trailer_at` reads at its offset -/
def SecRep (P : Offsets.Parsers (Prim R) (Dict R)) (bytes : List UInt8) (s : Sec) : Prop :=
  s.off ≤ bytes.length ∧
  ∀ ext : List UInt8, ∃ T, P.xrefAt ((bytes ++ ext).drop s.off) = .ok (s.subs, T) ∧ P.sizeOf T = .ok s.size ∧
    P.prevOf T = s.prev.map Out.ok

structure Rep (P : Offsets.Parsers (Prim R) (Dict R)) (bytes : List UInt8) (st : St (Prim R)) : Prop where
  len : bytes.length = st.len
  fits : st.len ≤ OffLex.usizeMax
  header : ∀ ext : List UInt8, Offsets.locateStart (bytes ++ ext) = .ok st.start
  xref : Offsets.locateXref bytes = .ok st.startxref
  objs : ∀ o ∈ st.objs, ObjRep P bytes o
  secs : ∀ s ∈ st.secs, SecRep P bytes s

theorem secAt_some {secs : List Sec} {off : Nat} {s : Sec} (h : secAt secs off = some s) : s ∈ secs ∧ s.off = off := by
  unfold secAt at h
  exact ⟨List.mem_of_find?_eq_some h, by simpa using List.find?_some h⟩

theorem objAt_some {objs : List (Storage.Obj (Prim R))} {off : Nat} {o : Storage.Obj (Prim R)} (h : objAt objs off = some o) :
    o ∈ objs ∧ o.off = off := by
  unfold objAt at h
  exact ⟨List.mem_of_find?_eq_some h, by simpa using List.find?_some h⟩

/-- the abstract `/Prev` walk, as a chain of sections the byte-level walk reads -/
theorem prevChain_revs (P : Offsets.Parsers (Prim R) (Dict R)) (bytes : List UInt8) (st : St (Prim R))
    (hrep : Rep P bytes st) :
    ∀ (fuel : Nat) (prev : Option Nat) (seen : List Nat) (chain : List (List Sub)),
      prevChain st.secs st.start fuel prev seen = .ok chain →
      ∃ older : List (Offsets.Rev (Dict R)), older.map (·.subs) = chain ∧
        (∀ r ∈ older, Offsets.ReadsAt P bytes st.start r) ∧ Offsets.Linked P older ∧
        prev = older.head?.map (·.off) ∧ (older.map (·.off)).Nodup ∧ (∀ r ∈ older, r.off ∉ seen) ∧
        older.length ≤ fuel := by
  intro fuel
  induction fuel with
  | zero =>
    intro prev seen chain h
    cases prev with
    | none => simp [prevChain] at h; subst h; exact ⟨[], rfl, by simp, trivial, rfl, by simp, by simp, by simp⟩
    | some p => simp [prevChain] at h
  | succ fuel ih =>
    intro prev seen chain h
    cases prev with
    | none => simp [prevChain] at h; subst h; exact ⟨[], rfl, by simp, trivial, rfl, by simp, by simp, by simp⟩
    | some p =>
      simp only [prevChain] at h
      by_cases hs : p ∈ seen
      · simp [hs] at h
      · have hs' : seen.contains p = false := by simpa using hs
        simp only [hs', Bool.false_eq_true, if_false] at h
        cases hsa : secAt st.secs (st.start + p) with
        | none => simp [hsa] at h
        | some s =>
          simp only [hsa] at h
          cases hpc : prevChain st.secs st.start fuel s.prev (p :: seen) with
          | ok rest =>
            simp only [hpc, Out.ok.injEq] at h
            subst h
            obtain ⟨hmem, hoff⟩ := secAt_some hsa
            obtain ⟨older, h1, h2, h3, h4, h5, h6, h7⟩ := ih s.prev (p :: seen) rest hpc
            obtain ⟨hle, hx⟩ := hrep.secs s hmem
            obtain ⟨T, hT, _, hprev⟩ := hx []
            simp only [List.append_nil] at hT
            have hread : Offsets.ReadsAt P bytes st.start ⟨p, s.subs, T⟩ := by
              have := hrep.len; have := hrep.fits
              refine ⟨by simp only; omega, by simp only; omega, ?_⟩
              simp only; rw [← hoff]; exact hT
            refine ⟨⟨p, s.subs, T⟩ :: older, by simp [h1], ?_, ?_, by simp, ?_, ?_, by simp; omega⟩
            · intro r hr
              simp only [List.mem_cons] at hr
              rcases hr with rfl | hr
              · exact hread
              · exact h2 r hr
            · cases older with
              | nil => simp only [Offsets.Linked]; rw [hprev, h4]; rfl
              | cons r' rest' =>
                refine ⟨?_, h3⟩
                simp only; rw [hprev, h4]; rfl
            · simp only [List.map_cons, List.nodup_cons]
              refine ⟨?_, h5⟩
              intro hin
              obtain ⟨r, hr, hro⟩ := List.mem_map.mp hin
              exact h6 r hr (by simp [hro])
            · intro r hr
              simp only [List.mem_cons] at hr
              rcases hr with rfl | hr
              · exact hs
              · intro hin; exact h6 r hr (by simp [hin])
          | err => simp [hpc] at h
          | panic => simp [hpc] at h
          | oof => simp [hpc] at h

/-- `reloaded`'s table and trailer offsets: what a successful abstract `reload` did -/
theorem reload_ok_spec {V : Type} (st : St V) (c : Bool) (dr : Doc V) (h : reload st c = .ok dr) :
    ∃ s chain, st.start + st.startxref < st.len ∧ secAt st.secs (st.start + st.startxref) = some s ∧ s.size ≤ MAX_ID ∧
      prevChain st.secs st.start (st.secs.length + 1) s.prev [] = .ok chain ∧
      mergeAll (newTable s.size) (s.subs :: chain) = .ok dr.st.refs ∧
      dr.st = { st with refs := dr.st.refs, changes := [], cache := [], cached := c } := by
  unfold reload at h
  simp only at h
  by_cases h1 : st.start + st.startxref ≥ st.len
  · simp [h1] at h
  · simp only [h1, if_false] at h
    cases hs : secAt st.secs (st.start + st.startxref) with
    | none => simp [hs] at h
    | some s =>
      simp only [hs] at h
      by_cases h2 : s.size > MAX_ID
      · simp [h2] at h
      · simp only [h2, if_false] at h
        cases hc : prevChain st.secs st.start (st.secs.length + 1) s.prev [] with
        | ok chain =>
          simp only [hc] at h
          cases hm : mergeAll (newTable s.size) (s.subs :: chain) with
          | ok t =>
            simp only [hm] at h
            cases hl : loadTrailer ({ st with refs := t, changes := [], cache := [], cached := c } : St V) s.root s.info s.prev with
            | ok tr =>
              simp only [hl, Out.ok.injEq] at h
              subst h
              exact ⟨s, chain, by omega, rfl, by omega, hc, hm, rfl⟩
            | err => simp [hl] at h
            | panic => simp [hl] at h
            | oof => simp [hl] at h
          | err => simp [hm] at h
          | panic => simp [hm] at h
          | oof => simp [hm] at h
        | err => simp [hc] at h
        | panic => simp [hc] at h
        | oof => simp [hc] at h

/-- **the byte-level open path builds the table of the abstract `reload`** -/
theorem open_of_rep (P : Offsets.Parsers (Prim R) (Dict R)) (bytes : List UInt8) (st : St (Prim R))
    (hrep : Rep P bytes st) (c : Bool) (dr : Doc (Prim R)) (hr : reload st c = .ok dr) (fuel : Nat)
    (hfuel : st.secs.length + 1 ≤ fuel) :
    ∃ T, Offsets.openFile P fuel bytes = .ok (st.start, dr.st.refs, T) := by
  obtain ⟨s, chain, hlt, hsa, hsz, hpc, hm, _⟩ := reload_ok_spec st c dr hr
  obtain ⟨hmem, hoff⟩ := secAt_some hsa
  obtain ⟨older, h1, h2, h3, h4, h5, _, h7⟩ := prevChain_revs P bytes st hrep _ _ _ _ hpc
  obtain ⟨hle, hx⟩ := hrep.secs s hmem
  obtain ⟨T, hT, hsize, hprev⟩ := hx []
  simp only [List.append_nil] at hT
  have hlen := hrep.len
  have hfits := hrep.fits
  have hlink : Offsets.Linked P ((⟨st.startxref, s.subs, T⟩ : Offsets.Rev (Dict R)) :: older) := by
    cases older with
    | nil => simp only [Offsets.Linked]; rw [hprev, h4]; rfl
    | cons r' rest' => exact ⟨by simp only; rw [hprev, h4]; rfl, h3⟩
  have := Offsets.loadTable_chain P bytes st.start fuel ⟨st.startxref, s.subs, T⟩ older s.size hrep.xref
    (by simp only; omega) (by simp only; omega) (by simp only; rw [← hoff]; exact hT) hsize
    (by unfold Offsets.maxId; unfold MAX_ID at hsz; exact hsz) h2 hlink h5 (by omega)
  simp only [List.map_cons, h1, hm, Offsets.withTrailer] at this
  have hh := hrep.header []
  simp only [List.append_nil] at hh
  exact ⟨T, by simp only [Offsets.openFile, hh, this]⟩

theorem directBody_zero (P : Offsets.Parsers (Prim R) (Dict R)) (rl : Nat → Out (Offsets.Obj (Prim R))) (buf : List UInt8)
    (start pos : Nat) (fl : Offsets.Flags) :
    Offsets.directBody P rl buf start fl pos = Offsets.directBody P rl buf 0 fl (start + pos) := by
  simp [Offsets.directBody, Offsets.suffixAt, Offsets.checkedAdd]

/-- **the byte-level resolver returns what the abstract `resolve` returns** on a freshly loaded table
    (nothing pending): direct entries and members of object streams -/
theorem resolve_of_rep (P : Offsets.Parsers (Prim R) (Dict R)) (bytes : List UInt8) (st : St (Prim R))
    (hrep : Rep P bytes st) (t : List XRef) (c : Bool) (id : Nat) (v : Prim R)
    (h : resolve ({ st with refs := t, changes := [], cache := [], cached := c } : St (Prim R)) id = .val v) (fuel : Nat) :
    ∃ o, Offsets.resolveRef P bytes st.start t (fuel + 2) [] .any id = .ok o ∧ Denotes bytes o v := by
  simp only [resolve, chLookup] at h
  cases ht : t[id]? with
  | none => simp [ht] at h
  | some e =>
    simp only [ht] at h
    cases e with
    | free n g => simp at h
    | promised => simp at h
    | invalid => simp at h
    | raw pos g =>
      simp only [readAt] at h
      cases ho : objAt st.objs (st.start + pos) with
      | none => simp [ho] at h
      | some o =>
        simp only [ho, Rd.val.injEq] at h
        obtain ⟨hmem, hoff⟩ := objAt_some ho
        obtain ⟨⟨r, hr, hden⟩, _⟩ := hrep.objs o hmem []
          (fun lid => Offsets.resolveRef P bytes st.start t (fuel + 1) [] .integer lid)
        simp only [List.append_nil] at hr
        refine ⟨r, ?_, h ▸ hden⟩
        simp only [Offsets.resolveRef, Xref.lookup, ht]
        rw [directBody_zero, ← hoff]; exact hr
    | stream sid idx =>
      simp only [readCompressed, chLookup] at h
      cases hs : t[sid]? with
      | none => simp [hs] at h
      | some e2 =>
        simp only [hs] at h
        cases e2 with
        | free n g => simp at h
        | promised => simp at h
        | invalid => simp at h
        | stream a b => simp at h
        | raw pos g =>
          simp only at h
          cases ho : objAt st.objs (st.start + pos) with
          | none => simp [ho] at h
          | some o =>
            simp only [ho] at h
            cases hm : o.members[idx]? with
            | none => simp [hm] at h
            | some v' =>
              simp only [hm, Rd.val.injEq] at h
              subst h
              obtain ⟨hmem, hoff⟩ := objAt_some ho
              obtain ⟨_, hmemb⟩ := hrep.objs o hmem []
                (fun lid => Offsets.resolveRef P bytes st.start t fuel [sid] .integer lid)
              obtain ⟨hcb, hns⟩ := hmemb idx v' hm
              simp only [List.append_nil] at hcb
              refine ⟨.plain v', ?_, .plain v' hns⟩
              have hnc : ([] : List Nat).contains sid = false := by simp
              simp only [Offsets.resolveRef, Xref.lookup, ht, hs, hnc, Bool.false_eq_true, if_false]
              rw [directBody_zero, ← hoff]; exact hcb

end RepBytes
