import PdfModel.Lemmas.OpenBytes
import PdfModel.Lemmas.XrefWalk
import PdfModel.Lemmas.Offsets
import PdfModel.Lemmas.TotalLexer
import PdfModel.Lemmas.ObjStm
import PdfModel.Lemmas.StorageRun
import PdfModel.Props.C04

/-!
  The bytes of a file *represent* an abstract storage state (`Rep`): every object record and every
  cross-reference section of the abstract backend is what the byte-level parsers read at its offset, whatever
  is appended behind.  Three facts discharge the abstraction of `Model/Storage.lean`:

  * `open_of_rep` / `resolve_of_rep`: on bytes that represent `st`, the byte-level open path
    (`OpenBytes.openB`: header, `startxref`, section reader, `/Prev` walk, merge) builds the table of the
    abstract `reload`, and `OpenBytes.resolveB` returns what the abstract `resolve` returns;
  * `rep_saveB`: `SaveBytes.saveB` keeps the relation (the new records are read back by
    `C04.parse_serialize_indirect` / `parse_serialize_stream`, the new section by `OpenBytes.stmC_saved`);
  * operations other than a successful save do not touch the backend.
-/

namespace RepBytes
open OffLex

/-! ### the lexer of the offset code on digits; the backward search -/

theorem findLast_none_of_head (a : UInt8) (pt : Bytes) : ∀ l : Bytes, (∀ b ∈ l, b ≠ a) → findLast (a :: pt) l = none := by
  intro l
  induction l with
  | nil => intro _; rfl
  | cons b bs ih =>
    intro h
    have hb : b ≠ a := h b (by simp)
    have hne : (a == b) = false := by simpa using fun e => hb e.symm
    simp [findLast, ih (fun x hx => h x (by simp [hx])), List.isPrefixOf, hne]

theorem findLast_unique (a : UInt8) (pt pre tail : Bytes) (h : ∀ b ∈ pt ++ tail, b ≠ a) :
    findLast (a :: pt) (pre ++ (a :: pt) ++ tail) = some pre.length := by
  have h0 : findLast (a :: pt) ((a :: pt) ++ tail) = some 0 := by
    simp only [List.cons_append, findLast, findLast_none_of_head a pt _ h]
    have : (a :: pt).isPrefixOf (a :: (pt ++ tail)) = true := by
      rw [List.isPrefixOf_iff_prefix]; exact ⟨tail, by simp⟩
    simp [this]
  have := Offsets.findLast_append (a :: pt) pre _ 0 h0
  simpa [List.append_assoc] using this

theorem digitsVal_eq : ∀ (ds : Bytes) (acc : Nat), (∀ b ∈ ds, isDigit b = true) →
    OffLex.digitsVal ds acc = some (ds.foldl (fun a d => a * 10 + (d.toNat - 48)) acc) := by
  intro ds
  induction ds with
  | nil => intro acc _; rfl
  | cons d ds ih =>
    intro acc h
    have hd := h d (by simp)
    simp only [OffLex.digitsVal, hd, if_true, List.foldl_cons]
    exact ih _ (fun b hb => h b (by simp [hb]))

theorem parseUsize_natTok (t : Bytes) (n : Nat) (h : PdfSyntax.NatTok t n) (hn : n ≤ usizeMax) : parseUsize t = .ok n := by
  obtain ⟨hne, hdig, hv⟩ := h
  have hdig' : ∀ b ∈ t, isDigit b = true := hdig
  unfold parseUsize
  cases ht : t with
  | nil => exact absurd ht hne
  | cons b tl =>
    have hb : isDigit b = true := hdig' b (by simp [ht])
    have h43 : b ≠ 43 := (ObjStmSpec.digit_facts b hb).2.2.2.2
    have : ¬ ((b :: tl).head? = some 43) := by simp; exact h43
    simp only [this, if_false]
    have := digitsVal_eq t 0 hdig'
    rw [ht] at this
    have hv' : (b :: tl).foldl (fun a d => a * 10 + (d.toNat - 48)) 0 = n := by rw [← ht]; exact hv
    simp [this, hv', hn]

/-- `next()` on white-space, digits, a line feed: the digits -/
theorem nextWord_digits (ws ds t : Bytes) (hws : ∀ b ∈ ws, isWs b = true) (hne : ds ≠ [])
    (hds : ∀ b ∈ ds, isDigit b = true) : nextWord (ws ++ ds ++ 10 :: t) = .ok (ds, 10 :: t) := by
  cases hd : ds with
  | nil => exact absurd hd hne
  | cons d ds' =>
    subst hd
    have hd0 := ObjStmSpec.digit_facts d (hds d (by simp))
    have hne' : ws ++ (d :: ds') ++ 10 :: t ≠ [] := by simp
    unfold nextWord
    cases hr : ws ++ (d :: ds') ++ 10 :: t with
    | nil => exact absurd hr hne'
    | cons r0 rs =>
      simp only
      rw [← hr]
      have hskip : skipWs (ws ++ (d :: ds') ++ 10 :: t) = .ok (d :: (ds' ++ 10 :: t)) := by
        unfold skipWs
        rw [List.append_assoc, ObjStmSpec.dropWhile_append_all isWs ws _ hws]
        simp [hd0.2.1]
      rw [hskip]
      simp only
      have hcom : skipComments (d :: (ds' ++ 10 :: t)) = .ok (d :: (ds' ++ 10 :: t)) := by
        simp [skipComments, skipCommentsF, hd0.2.2.2.1]
      rw [hcom]
      simp only [hd0.2.2.1, Bool.false_eq_true, if_false]
      have hreg : ∀ b ∈ d :: ds', isRegular b = true := fun b hb => (ObjStmSpec.digit_facts b (hds b hb)).1
      have := ObjStmSpec.takeWhile_append_stop isRegular (d :: ds') 10 t hreg (by decide)
      simp only [List.cons_append] at this
      rw [this.1, this.2]

end RepBytes

namespace RepBytes
open Storage PdfLex Xref OpenBytes SaveBytes
open PdfSyntax (Gap Bnd SpellsStream WF WFE keysOf vdepth vdepthE need needE)

variable {R : Type}

/-! ### the section reader on the section `save` wrote -/

theorem scanBack_stop (buf : Buf) (cond : UInt8 → Bool) (pos : Nat) (b : UInt8) (hb : buf[pos]? = some b)
    (hc : cond b = false) : scanBack buf cond (pos + 1) = pos + 1 := by
  simp [scanBack, hb, hc]

theorem scanBack_all (buf : Buf) (cond : UInt8 → Bool) : ∀ (pos : Nat),
    (∀ j, j < pos → ∃ b, buf[j]? = some b ∧ cond b = true) → scanBack buf cond pos = 0 := by
  intro pos
  induction pos with
  | zero => intro _; rfl
  | succ pos ih =>
    intro h
    obtain ⟨b, hb, hc⟩ := h pos (by omega)
    simp only [scanBack, hb, hc, if_true]
    exact ih (fun j hj => h j (by omega))

/-- `Lexer::back` right behind a lexeme that begins the buffer -/
theorem back_first_token {buf : Buf} (t rest : List UInt8) (h : Suffix buf 0 (t ++ rest)) (hne : t ≠ [])
    (hnw : ∀ b ∈ t, isWhitespace b = false) : back buf t.length = .ok (0, t.length) := by
  have hsz := h.size_eq
  simp only [List.length_append, Nat.zero_add] at hsz
  have hget : ∀ j, j < t.length → buf[j]? = t[j]? := by
    intro j hj
    have := h.get j
    simp only [Nat.zero_add] at this
    rw [this, List.getElem?_append_left hj]
  obtain ⟨n, hn⟩ : ∃ n, t.length = n + 1 := by
    cases t with
    | nil => exact absurd rfl hne
    | cons a t => exact ⟨t.length, by simp⟩
  have hlast : ∃ b, buf[n]? = some b ∧ isWhitespace b = false := by
    have hj : n < t.length := by omega
    refine ⟨t[n], ?_, hnw _ (List.getElem_mem hj)⟩
    rw [hget n hj]; simp [hj]
  obtain ⟨b, hb, hbw⟩ := hlast
  have e1 : scanBack buf isWhitespace t.length = t.length := by
    rw [hn]; exact scanBack_stop buf _ n b hb hbw
  have e2 : scanBack buf (fun b => !isWhitespace b) t.length = 0 := by
    apply scanBack_all
    intro j hj
    refine ⟨t[j], ?_, ?_⟩
    · rw [hget j hj]; simp [hj]
    · simp [hnw _ (List.getElem_mem hj)]
  have hle : ¬ t.length > buf.size := by omega
  simp only [back, boundaryRev, hle, if_false, Out.bind_ok, e1, e2]
  exact newSubstr_fwd (Nat.zero_le _) (by omega)

theorem digits_not_ws : ∀ b : UInt8, PdfSyntax.isDig b = true → isWhitespace b = false ∧ isRegular b = true := by
  decide +kernel

/-- **the section `save` wrote is read back by `read_xref_and_trailer_at`** (handed the file from the
    section's offset on, whatever follows the `%%EOF`) -/
theorem xrefAt_saved (fmt : R → List UInt8) (env : Env R) (hd : env.decrypt = none)
    (dec : Dict R → List UInt8 → Out (List UInt8)) (hdec : NoFilter dec)
    (tr : Trailer (Prim R)) (infoRef : Option Nat) (ids : List (List UInt8)) (i : SaveInfo)
    (hb : Bounds tr infoRef i) (hxid : i.xid ≤ 18446744073709551615)
    (hrows : ∀ r ∈ i.rows, IsRow r) (hfits : ∀ r ∈ i.rows, Xref.Fits 1 i.aw i.bw r)
    (body : List UInt8) (hbody : serialize fmt (.stream (xrefDict tr ids infoRef i) (.pending (rowsData i))) = .ok body)
    (ext : List UInt8)
    (hsz : ((fmtNat i.xid ++ [32, 48, 32] ++ kwObj ++ [10] ++ body ++ kwEndobj ++ [10]) ++ tailBytes i ++ ext).length ≤ 2147483647) :
    XrefTable.xrefAt env (stmC env dec)
      ((fmtNat i.xid ++ [32, 48, 32] ++ kwObj ++ [10] ++ body ++ kwEndobj ++ [10]) ++ tailBytes i ++ ext)
      = .ok ([⟨0, i.rows⟩], xrefDict tr ids infoRef i) := by
  generalize hS : (fmtNat i.xid ++ [32, 48, 32] ++ kwObj ++ [10] ++ body ++ kwEndobj ++ [10]) ++ tailBytes i ++ ext = S at hsz
  have h0 : Suffix S.toArray 0 S := suffix_zero S
  have hstm := stmC_saved fmt env hd dec hdec tr infoRef ids i hb hxid hrows hfits body hbody (buf := S.toArray)
    (by simpa using hsz) 0 ext (by rw [hS]; exact h0)
  obtain ⟨hne, hdig, _⟩ := fmtNat_spec i.xid
  have hreg : ∀ b ∈ fmtNat i.xid, isRegular b = true := fun b hb => (digits_not_ws b (hdig b hb)).2
  have hnw : ∀ b ∈ fmtNat i.xid, isWhitespace b = false := fun b hb => (digits_not_ws b (hdig b hb)).1
  have hs1 : Suffix S.toArray 0 ([] ++ fmtNat i.xid ++ ([32, 48, 32] ++ kwObj ++ [10] ++ body ++ kwEndobj ++ [10] ++ tailBytes i ++ ext)) := by
    rw [← hS] at h0 ⊢; simpa using h0
  obtain ⟨hn, hsl⟩ := next_regular [] (fmtNat i.xid) _ 0 Gap.nil hs1 hne hreg (by simp [Bnd]; decide)
  simp only [List.length_nil, Nat.add_zero, Nat.zero_add] at hn hsl
  have hnx : (fmtNat i.xid == XrefTable.kwXref) = false := by
    cases hf : fmtNat i.xid with
    | nil => exact absurd hf hne
    | cons a t =>
      have := hdig a (by simp [hf])
      have ha : a ≠ 120 := by intro h; subst h; simp [PdfSyntax.isDig] at this
      simp [XrefTable.kwXref, ha]
  have hback := back_first_token (fmtNat i.xid) _ (by simpa using hs1) hne hnw
  simp only [XrefTable.xrefAt, XrefTable.readXrefAndTrailerAt, hn, hsl, hnx, Bool.false_eq_true, if_false, hback, hstm]

/-! ### `locate_xref_offset` on a file that ends with the trailer `save` writes -/

/-- the number after the last `startxref` of `… startxref\n<xpos>\n%%EOF` is `xpos` -/
theorem locateXref_tail (pre : List UInt8) (i : SaveInfo) (hx : i.xpos ≤ 18446744073709551615) :
    Offsets.locateXref (pre ++ tailBytes i) = .ok i.xpos := by
  obtain ⟨hne, hdig, hv⟩ := fmtNat_spec i.xpos
  have hdig' : ∀ b ∈ fmtNat i.xpos, OffLex.isDigit b = true := hdig
  have hbuf : pre ++ tailBytes i = (pre ++ [10]) ++ Offsets.startxrefKw ++ ([10] ++ fmtNat i.xpos ++ [10] ++ kwEOF) := by
    simp [tailBytes, kwStartxref, Offsets.startxrefKw]
  have htake : (pre ++ tailBytes i).take ((pre ++ tailBytes i).length - 1)
      = (pre ++ [10]) ++ Offsets.startxrefKw ++ ([10] ++ fmtNat i.xpos ++ [10, 37, 37, 69, 79]) := by
    have e : pre ++ tailBytes i = ((pre ++ [10]) ++ Offsets.startxrefKw ++ ([10] ++ fmtNat i.xpos ++ [10, 37, 37, 69, 79])) ++ [70] := by
      simp [tailBytes, kwStartxref, Offsets.startxrefKw, kwEOF]
    have hl : ∀ (l : List UInt8) (x : UInt8), (l ++ [x]).take ((l ++ [x]).length - 1) = l := by intro l x; simp
    rw [e]; exact hl _ _
  have hfl : OffLex.findLast Offsets.startxrefKw ((pre ++ [10]) ++ Offsets.startxrefKw ++ ([10] ++ fmtNat i.xpos ++ [10, 37, 37, 69, 79]))
      = some (pre ++ [10]).length := by
    apply findLast_unique 115 [116, 97, 114, 116, 120, 114, 101, 102]
    intro b hb
    simp only [List.mem_append, List.mem_cons, List.not_mem_nil, or_false] at hb
    rcases hb with hb | hb
    · rcases hb with rfl | rfl | rfl | rfl | rfl | rfl | rfl | rfl <;> decide
    · rcases hb with (rfl | hb) | hb
      · decide
      · intro e; subst e; have := hdig' _ hb; simp [OffLex.isDigit] at this
      · rcases hb with rfl | rfl | rfl | rfl | rfl <;> decide
  have hdrop : (pre ++ tailBytes i).drop ((pre ++ [10]).length + Offsets.startxrefKw.length)
      = [10] ++ fmtNat i.xpos ++ 10 :: kwEOF := by
    rw [hbuf, ← List.length_append, List.drop_left']
    · simp
    · rfl
  unfold Offsets.locateXref
  rw [htake, hfl]
  simp only
  rw [hdrop, nextWord_digits [10] (fmtNat i.xpos) kwEOF (by simp; decide) hne hdig']
  simp only
  exact parseUsize_natTok _ _ (fmtNat_spec i.xpos) hx

/-! ### bytes that represent an abstract storage state -/

/-- what the byte-level resolver's answer denotes: a stream's data is read from the bytes through its
    `file_range` -/
inductive Denotes (bytes : List UInt8) : Offsets.Obj (Prim R) → Prim R → Prop
  | plain (v : Prim R) (h : ∀ info s, v ≠ .stream info s) : Denotes bytes (.plain v) v
  | stream (info : Dict R) (a : Nat) (data : List UInt8) (hle : a + data.length ≤ bytes.length)
      (hd : (bytes.drop a).take data.length = data) :
      Denotes bytes (.stream (.dict info) a (a + data.length)) (.stream info (.pending data))

theorem Denotes.mono {bytes : List UInt8} {o : Offsets.Obj (Prim R)} {v : Prim R} (h : Denotes bytes o v)
    (ext : List UInt8) : Denotes (bytes ++ ext) o v := by
  cases h with
  | plain v h => exact .plain v h
  | stream info a data hle hd =>
    refine .stream info a data (by simp; omega) ?_
    rw [List.drop_append_of_le_length (by omega), List.take_append_of_le_length (by simp; omega)]
    exact hd

/-- the lexer's positions are 31-bit: the theorems of the byte-level parsers hold for files up to this size -/
def fileMax : Nat := 2147483647

/-- an object record of the abstract backend is what `resolve_ref`'s direct branch reads at its offset,
    whatever is appended to the file; its members (if it is an object stream) are what the compressed branch
    reads out of it -/
def ObjRep (P : Offsets.Parsers (Prim R) (Dict R)) (bytes : List UInt8) (o : Storage.Obj (Prim R)) : Prop :=
  ∀ (ext : List UInt8) (rl : Nat → Out (Offsets.Obj (Prim R))), (bytes ++ ext).length ≤ fileMax →
    (∃ r, Offsets.directBody P rl (bytes ++ ext) 0 .any o.off = .ok r ∧ Denotes (bytes ++ ext) r o.val) ∧
    (∀ idx v, o.members[idx]? = some v →
      Offsets.compressedBody P (Offsets.directBody P rl (bytes ++ ext) 0 .any o.off) (bytes ++ ext) .any idx = .ok (.plain v) ∧
      ∀ info s, v ≠ .stream info s)

/-- a cross-reference section of the abstract backend is what `read_xref_and_trailer_at` reads at its offset -/
def SecRep (P : Offsets.Parsers (Prim R) (Dict R)) (bytes : List UInt8) (s : Sec) : Prop :=
  s.off ≤ bytes.length ∧
  ∀ ext : List UInt8, (bytes ++ ext).length ≤ fileMax → ∃ T, P.xrefAt ((bytes ++ ext).drop s.off) = .ok (s.subs, T) ∧ P.sizeOf T = .ok s.size ∧
    P.prevOf T = s.prev.map Out.ok ∧ dictGet T SaveBytes.kRoot = some (.ref s.root.1 s.root.2)

structure Rep (P : Offsets.Parsers (Prim R) (Dict R)) (bytes : List UInt8) (st : St (Prim R)) : Prop where
  len : bytes.length = st.len
  small : bytes.length ≤ fileMax
  header : ∀ ext : List UInt8, (bytes ++ ext).length ≤ fileMax → Offsets.locateStart (bytes ++ ext) = .ok st.start
  /-- (a file that has no cross-reference section yet — the bare header a builder starts from — has no `startxref`) -/
  xref : st.secs ≠ [] → Offsets.locateXref bytes = .ok st.startxref
  objs : ∀ o ∈ st.objs, ObjRep P bytes o
  secs : ∀ s ∈ st.secs, SecRep P bytes s

theorem secAt_some {secs : List Sec} {off : Nat} {s : Sec} (h : secAt secs off = some s) : s ∈ secs ∧ s.off = off := by
  unfold secAt at h
  exact ⟨List.mem_of_find?_eq_some h, by simpa using List.find?_some h⟩

theorem objAt_some {objs : List (Storage.Obj (Prim R))} {off : Nat} {o : Storage.Obj (Prim R)} (h : objAt objs off = some o) :
    o ∈ objs ∧ o.off = off := by
  unfold objAt at h
  exact ⟨List.mem_of_find?_eq_some h, by simpa using List.find?_some h⟩

/-- the abstract `/Prev` walk, as a chain of sections the byte-level walk reads -/
theorem prevChain_revs (P : Offsets.Parsers (Prim R) (Dict R)) (bytes : List UInt8) (st : St (Prim R))
    (hrep : Rep P bytes st) :
    ∀ (fuel : Nat) (prev : Option Nat) (seen : List Nat) (chain : List (List Sub)),
      prevChain st.secs st.start fuel prev seen = .ok chain →
      ∃ older : List (Offsets.Rev (Dict R)), older.map (·.subs) = chain ∧
        (∀ r ∈ older, Offsets.ReadsAt P bytes st.start r) ∧ Offsets.Linked P older ∧
        prev = older.head?.map (·.off) ∧ (older.map (·.off)).Nodup ∧ (∀ r ∈ older, r.off ∉ seen) ∧
        older.length ≤ fuel := by
  intro fuel
  induction fuel with
  | zero =>
    intro prev seen chain h
    cases prev with
    | none => simp [prevChain] at h; subst h; exact ⟨[], rfl, by simp, trivial, rfl, by simp, by simp, by simp⟩
    | some p => simp [prevChain] at h
  | succ fuel ih =>
    intro prev seen chain h
    cases prev with
    | none => simp [prevChain] at h; subst h; exact ⟨[], rfl, by simp, trivial, rfl, by simp, by simp, by simp⟩
    | some p =>
      simp only [prevChain] at h
      by_cases hs : p ∈ seen
      · simp [hs] at h
      · have hs' : seen.contains p = false := by simpa using hs
        simp only [hs', Bool.false_eq_true, if_false] at h
        cases hsa : secAt st.secs (st.start + p) with
        | none => simp [hsa] at h
        | some s =>
          simp only [hsa] at h
          cases hpc : prevChain st.secs st.start fuel s.prev (p :: seen) with
          | ok rest =>
            simp only [hpc, Out.ok.injEq] at h
            subst h
            obtain ⟨hmem, hoff⟩ := secAt_some hsa
            obtain ⟨older, h1, h2, h3, h4, h5, h6, h7⟩ := ih s.prev (p :: seen) rest hpc
            obtain ⟨hle, hx⟩ := hrep.secs s hmem
            obtain ⟨T, hT, _, hprev, _⟩ := hx [] (by simpa using hrep.small)
            simp only [List.append_nil] at hT
            have hread : Offsets.ReadsAt P bytes st.start ⟨p, s.subs, T⟩ := by
              have := hrep.len; have := hrep.small
              refine ⟨by simp only [OffLex.usizeMax]; unfold fileMax at *; omega, by simp only; omega, ?_⟩
              simp only; rw [← hoff]; exact hT
            refine ⟨⟨p, s.subs, T⟩ :: older, by simp [h1], ?_, ?_, by simp, ?_, ?_, by simp; omega⟩
            · intro r hr
              simp only [List.mem_cons] at hr
              rcases hr with rfl | hr
              · exact hread
              · exact h2 r hr
            · cases older with
              | nil => simp only [Offsets.Linked]; rw [hprev, h4]; rfl
              | cons r' rest' =>
                refine ⟨?_, h3⟩
                simp only; rw [hprev, h4]; rfl
            · simp only [List.map_cons, List.nodup_cons]
              refine ⟨?_, h5⟩
              intro hin
              obtain ⟨r, hr, hro⟩ := List.mem_map.mp hin
              exact h6 r hr (by simp [hro])
            · intro r hr
              simp only [List.mem_cons] at hr
              rcases hr with rfl | hr
              · exact hs
              · intro hin; exact h6 r hr (by simp [hin])
          | err => simp [hpc] at h
          | panic => simp [hpc] at h
          | oof => simp [hpc] at h

/-- `reloaded`'s table and trailer offsets: what a successful abstract `reload` did -/
theorem reload_ok_spec {V : Type} (st : St V) (c : Bool) (dr : Doc V) (h : reload st c = .ok dr) :
    ∃ s chain, st.start + st.startxref < st.len ∧ secAt st.secs (st.start + st.startxref) = some s ∧ s.size ≤ MAX_ID ∧
      prevChain st.secs st.start (st.secs.length + 1) s.prev [] = .ok chain ∧
      mergeAll (newTable s.size) (s.subs :: chain) = .ok dr.st.refs ∧
      dr.st = { st with refs := dr.st.refs, changes := [], cache := [], cached := c } ∧ dr.tr.root = s.root := by
  unfold reload at h
  simp only at h
  by_cases h1 : st.start + st.startxref ≥ st.len
  · simp [h1] at h
  · simp only [h1, if_false] at h
    cases hs : secAt st.secs (st.start + st.startxref) with
    | none => simp [hs] at h
    | some s =>
      simp only [hs] at h
      by_cases h2 : s.size > MAX_ID
      · simp [h2] at h
      · simp only [h2, if_false] at h
        cases hc : prevChain st.secs st.start (st.secs.length + 1) s.prev [] with
        | ok chain =>
          simp only [hc] at h
          cases hm : mergeAll (newTable s.size) (s.subs :: chain) with
          | ok t =>
            simp only [hm] at h
            cases hl : loadTrailer ({ st with refs := t, changes := [], cache := [], cached := c } : St V) s.root s.info s.prev with
            | ok tr =>
              simp only [hl, Out.ok.injEq] at h
              subst h
              exact ⟨s, chain, by omega, rfl, by omega, hc, hm, rfl, (loadTrailer_ok _ _ _ _ _ hl).1⟩
            | err => simp [hl] at h
            | panic => simp [hl] at h
            | oof => simp [hl] at h
          | err => simp [hm] at h
          | panic => simp [hm] at h
          | oof => simp [hm] at h
        | err => simp [hc] at h
        | panic => simp [hc] at h
        | oof => simp [hc] at h

/-- **the byte-level open path builds the table of the abstract `reload`** -/
theorem open_of_rep (P : Offsets.Parsers (Prim R) (Dict R)) (bytes : List UInt8) (st : St (Prim R))
    (hrep : Rep P bytes st) (c : Bool) (dr : Doc (Prim R)) (hr : reload st c = .ok dr) (fuel : Nat)
    (hfuel : st.secs.length + 1 ≤ fuel) :
    ∃ T, Offsets.openFile P fuel bytes = .ok (st.start, dr.st.refs, T) ∧
      dictGet T SaveBytes.kRoot = some (.ref dr.tr.root.1 dr.tr.root.2) := by
  obtain ⟨s, chain, hlt, hsa, hsz, hpc, hm, _, hroot⟩ := reload_ok_spec st c dr hr
  obtain ⟨hmem, hoff⟩ := secAt_some hsa
  obtain ⟨older, h1, h2, h3, h4, h5, _, h7⟩ := prevChain_revs P bytes st hrep _ _ _ _ hpc
  obtain ⟨hle, hx⟩ := hrep.secs s hmem
  obtain ⟨T, hT, hsize, hprev, hTroot⟩ := hx [] (by simpa using hrep.small)
  simp only [List.append_nil] at hT
  have hlen := hrep.len
  have hfits : bytes.length ≤ OffLex.usizeMax := by have := hrep.small; unfold fileMax at this; unfold OffLex.usizeMax; omega
  have hlink : Offsets.Linked P ((⟨st.startxref, s.subs, T⟩ : Offsets.Rev (Dict R)) :: older) := by
    cases older with
    | nil => simp only [Offsets.Linked]; rw [hprev, h4]; rfl
    | cons r' rest' => exact ⟨by simp only; rw [hprev, h4]; rfl, h3⟩
  have := Offsets.loadTable_chain P bytes st.start fuel ⟨st.startxref, s.subs, T⟩ older s.size (hrep.xref (List.ne_nil_of_mem hmem))
    (by simp only; omega) (by simp only; omega) (by simp only; rw [← hoff]; exact hT) hsize
    (by unfold Offsets.maxId; unfold MAX_ID at hsz; exact hsz) h2 hlink h5 (by omega)
  simp only [List.map_cons, h1, hm, Offsets.withTrailer] at this
  have hh := hrep.header [] (by simpa using hrep.small)
  simp only [List.append_nil] at hh
  exact ⟨T, by simp only [Offsets.openFile, hh, this], by rw [hroot]; exact hTroot⟩

theorem directBody_zero (P : Offsets.Parsers (Prim R) (Dict R)) (rl : Nat → Out (Offsets.Obj (Prim R))) (buf : List UInt8)
    (start pos : Nat) (fl : Offsets.Flags) :
    Offsets.directBody P rl buf start fl pos = Offsets.directBody P rl buf 0 fl (start + pos) := by
  simp [Offsets.directBody, Offsets.suffixAt, Offsets.checkedAdd]

/-- **the byte-level resolver returns what the abstract `resolve` returns** on a freshly loaded table
    (nothing pending): direct entries and members of object streams -/
theorem resolve_of_rep (P : Offsets.Parsers (Prim R) (Dict R)) (bytes : List UInt8) (st : St (Prim R))
    (hrep : Rep P bytes st) (t : List XRef) (c : Bool) (id : Nat) (v : Prim R)
    (h : resolve ({ st with refs := t, changes := [], cache := [], cached := c } : St (Prim R)) id = .val v) (fuel : Nat) :
    ∃ o, Offsets.resolveRef P bytes st.start t (fuel + 2) [] .any id = .ok o ∧ Denotes bytes o v := by
  simp only [resolve, chLookup] at h
  cases ht : t[id]? with
  | none => simp [ht] at h
  | some e =>
    simp only [ht] at h
    cases e with
    | free n g => simp at h
    | promised => simp at h
    | invalid => simp at h
    | raw pos g =>
      simp only [readAt] at h
      cases ho : objAt st.objs (st.start + pos) with
      | none => simp [ho] at h
      | some o =>
        simp only [ho, Rd.val.injEq] at h
        obtain ⟨hmem, hoff⟩ := objAt_some ho
        obtain ⟨⟨r, hr, hden⟩, _⟩ := hrep.objs o hmem []
          (fun lid => Offsets.resolveRef P bytes st.start t (fuel + 1) [] .integer lid) (by simpa using hrep.small)
        simp only [List.append_nil] at hr
        simp only [List.append_nil] at hden
        refine ⟨r, ?_, h ▸ hden⟩
        simp only [Offsets.resolveRef, Xref.lookup, ht]
        rw [directBody_zero, ← hoff]; exact hr
    | stream sid idx =>
      simp only [readCompressed, chLookup] at h
      cases hs : t[sid]? with
      | none => simp [hs] at h
      | some e2 =>
        simp only [hs] at h
        cases e2 with
        | free n g => simp at h
        | promised => simp at h
        | invalid => simp at h
        | stream a b => simp at h
        | raw pos g =>
          simp only at h
          cases ho : objAt st.objs (st.start + pos) with
          | none => simp [ho] at h
          | some o =>
            simp only [ho] at h
            cases hm : o.members[idx]? with
            | none => simp [hm] at h
            | some v' =>
              simp only [hm, Rd.val.injEq] at h
              subst h
              obtain ⟨hmem, hoff⟩ := objAt_some ho
              obtain ⟨_, hmemb⟩ := hrep.objs o hmem []
                (fun lid => Offsets.resolveRef P bytes st.start t fuel [sid] .integer lid) (by simpa using hrep.small)
              obtain ⟨hcb, hns⟩ := hmemb idx v' hm
              simp only [List.append_nil] at hcb
              refine ⟨.plain v', ?_, .plain v' hns⟩
              have hnc : ([] : List Nat).contains sid = false := by simp
              simp only [Offsets.resolveRef, Xref.lookup, ht, hs, hnc, Bool.false_eq_true, if_false]
              rw [directBody_zero, ← hoff]; exact hcb

/-! ### the records `save` writes are read back -/

/-- a value for which the byte-level round trip is proved: a direct object within the limits of
    `C04.parse_serialize_indirect`, or a stream with pending data whose `/Length` is the integer `data.length` -/
inductive OKVal (fmt : R → List UInt8) (pr : List UInt8 → Option R) : Prim R → Prop
  | direct (v : Prim R) (hs : Serialisable fmt pr v) (hw : WF v) (hd : vdepth v ≤ maxDepth) : OKVal fmt pr v
  | stream (info : Dict R) (data : List UInt8) (hs : SerialisableE fmt pr info) (hw : WFE info)
      (hn : (keysOf info).Nodup) (hl : dictGet info kwLength = some (.int (data.length : Int)))
      (hd : 1 + vdepthE info ≤ maxDepth) : OKVal fmt pr (.stream info (.pending data))

theorem suffixAt_zero (buf : List UInt8) (off : Nat) (h : off ≤ buf.length) (hm : buf.length ≤ fileMax) :
    Offsets.suffixAt buf 0 off = .ok (off, buf.drop off) := by
  have : ¬ off > OffLex.usizeMax := by unfold fileMax at hm; unfold OffLex.usizeMax; omega
  simp [Offsets.suffixAt, Offsets.checkedAdd, Offsets.readFrom, this, h]

theorem toObjParse_plain (v : Prim R) (id : Nat × Nat) (p : Nat) (h : ∀ info s, v ≠ .stream info s) :
    Offsets.toObjParse (.ok ((id, v), p)) = .ok (.plain v) := by
  cases v <;> first | rfl | exact absurd rfl (h _ _)

/-- a direct object framed by `save` at `off` -/
theorem objRep_direct (fmt : R → List UInt8) (env : Env R) (hd : env.decrypt = none) (pfuel : Nat)
    (dec : Dict R → List UInt8 → Out (List UInt8)) (bytes : List UInt8) (o : Storage.Obj (Prim R))
    (hs : Serialisable fmt env.parseReal o.val) (hw : WF o.val) (hdep : vdepth o.val ≤ maxDepth)
    (hid : o.id ≤ 18446744073709551615) (hgen : o.gen ≤ 18446744073709551615) (hm : o.members = [])
    (body rest : List UInt8) (hser : serialize fmt o.val = .ok body)
    (hbytes : bytes.drop o.off = objFrame o.id o.gen body ++ rest) (hpf : 3 * bytes.length ≤ pfuel) :
    ObjRep (parsers env pfuel dec) bytes o := by
  intro ext rl hsmall
  have hns : ∀ info s, o.val ≠ .stream info s := by
    intro info s he; rw [he] at hs; exact hs
  have hlen : (objFrame o.id o.gen body ++ rest).length = bytes.length - o.off := by rw [← hbytes]; simp
  have hpos : 0 < (objFrame o.id o.gen body).length := objFrame_length_pos _ _ _
  have hoff : o.off ≤ bytes.length := by simp only [List.length_append] at hlen; omega
  refine ⟨?_, by intro idx v hv; rw [hm] at hv; simp at hv⟩
  have hsfx : (bytes ++ ext).drop o.off = objFrame o.id o.gen body ++ (rest ++ ext) := by
    rw [List.drop_append_of_le_length hoff, hbytes, List.append_assoc]
  obtain ⟨txt, trail, h1, h2, _, _⟩ := serialize_spells fmt env.parseReal o.val hs
  have hnb := need_bound env.parseReal o.val txt h2
  obtain ⟨body', hb', hparse⟩ := C04.parse_serialize_indirect { env with fileOffset := 0 } hd fmt o.val hs hw hdep o.id o.gen hid hgen
  rw [hser] at hb' h1
  simp only [Out.ok.injEq] at hb' h1
  subst hb'
  have hbl : body.length ≤ bytes.length := by
    simp only [objFrame, List.length_append] at hlen; omega
  have hneed : need o.val ≤ pfuel := by
    have : txt.length ≤ body.length := by rw [h1]; simp
    omega
  have hp := hparse (buf := ((bytes ++ ext).drop o.off).toArray)
    (by have : ((bytes ++ ext).drop o.off).length ≤ (bytes ++ ext).length := by simp
        unfold fileMax at hsmall; simpa using Nat.le_trans this hsmall)
    [] (rest ++ ext) pfuel (by simp [hsfx]) hneed
  refine ⟨.plain o.val, ?_, .plain o.val hns⟩
  have hsa := suffixAt_zero (bytes ++ ext) o.off (by simp only [List.length_append]; omega) hsmall
  simp only [Offsets.directBody, hsa]
  simp only [List.length_nil] at hp
  have hobj : (parsers env pfuel dec).objAt .any ((bytes ++ ext).drop o.off) = .ok (.plain o.val) := by
    show Offsets.toObjParse (parseIndirectObject { env with fileOffset := 0 } ((bytes ++ ext).drop o.off).toArray pfuel 0
      (Offsets.flagsNat .any)) = _
    rw [show Offsets.flagsNat .any = Flags.any from rfl, hp, toObjParse_plain _ _ _ hns]
  rw [hobj]

/-- a stream object with pending data written at `off`: `id gen obj\n<stream>` `g4` `endobj\n` (two line feeds
    before `endobj` in an ordinary record, one in the cross-reference stream object) -/
theorem objRep_stream (env : Env R) (hd : env.decrypt = none) (pfuel : Nat)
    (dec : Dict R → List UInt8 → Out (List UInt8)) (bytes : List UInt8) (o : Storage.Obj (Prim R))
    (info : Dict R) (data : List UInt8) (hval : o.val = .stream info (.pending data))
    (hw : WFE info) (hn : (keysOf info).Nodup) (hl : dictGet info kwLength = some (.int (data.length : Int)))
    (hdep : 1 + vdepthE info ≤ maxDepth)
    (hid : o.id ≤ 18446744073709551615) (hgen : o.gen ≤ 18446744073709551615) (hm : o.members = [])
    (txt g4 rest : List UInt8) (hsp : SpellsStream env.parseReal info data txt) (hg4 : Gap g4) (hg4ne : g4 ≠ [])
    (hbytes : bytes.drop o.off =
      (fmtNat o.id ++ [32] ++ fmtNat o.gen ++ [32] ++ kwObj ++ [10] ++ txt ++ g4 ++ kwEndobj ++ [10]) ++ rest)
    (hpf : 3 * bytes.length ≤ pfuel) :
    ObjRep (parsers env pfuel dec) bytes o := by
  intro ext rl hsmall
  refine ⟨?_, by intro idx v hv; rw [hm] at hv; simp at hv⟩
  have hlen := congrArg List.length hbytes
  simp only [List.length_drop, List.length_append] at hlen
  have hk : kwObj.length = 3 := rfl
  have hoff : o.off ≤ bytes.length := by omega
  have hsa := suffixAt_zero (bytes ++ ext) o.off (by simp only [List.length_append]; omega) hsmall
  have hsfx : (bytes ++ ext).drop o.off =
      [] ++ fmtNat o.id ++ [32] ++ fmtNat o.gen ++ [32] ++ kwObj ++ [10] ++ txt ++ g4 ++ kwEndobj ++ ([10] ++ rest ++ ext) := by
    rw [List.drop_append_of_le_length hoff, hbytes]; simp
  have hsl : ((bytes ++ ext).drop o.off).length = (bytes ++ ext).length - o.off := by simp
  have hsz : ((bytes ++ ext).drop o.off).toArray.size ≤ 2147483647 := by
    unfold fileMax at hsmall; simp only [List.size_toArray, hsl]; omega
  have hsuf : Suffix ((bytes ++ ext).drop o.off).toArray 0
      ([] ++ fmtNat o.id ++ [32] ++ fmtNat o.gen ++ [32] ++ kwObj ++ [10] ++ txt ++ g4 ++ kwEndobj ++ ([10] ++ rest ++ ext)) := by
    rw [← hsfx]; exact suffix_zero _
  have hfuel : 2 + needE info ≤ pfuel := by
    obtain ⟨g1, ents, g2, eol, g3, htxt, _, hents, _⟩ := hsp
    have h1 := needE_bound env.parseReal _ ents hents
    have h3 : ents.length + 2 ≤ txt.length := by rw [htxt]; simp; omega
    omega
  have hsp1 : Gap [32] := Gap.ws 32 [] (by decide) Gap.nil
  have hnl : Gap [10] := Gap.ws 10 [] (by decide) Gap.nil
  obtain ⟨dataPos, more, hp, hdata, hmore⟩ := parseIndirectObject_stream_at { env with fileOffset := 0 } hd info data txt hsp hw hn
    (Or.inl hl) hsz [] (fmtNat o.id) [32] (fmtNat o.gen) [32] [10] g4 ([10] ++ rest ++ ext) o.id o.gen 0 pfuel Gap.nil
    (fmtNat_spec o.id) (fmtNat_spec o.gen) hsp1 (by simp) hsp1 (by simp) hid hgen hnl hg4 hg4ne hsuf (by simp [Bnd]; decide)
    hfuel hdep Flags.any (by decide)
  have hsize := hdata.size_eq
  simp only [List.size_toArray, hsl, List.length_append] at hsize
  have hmp : 0 < more.length := by cases more with | nil => exact absurd rfl hmore | cons => simp
  have hobj : (parsers env pfuel dec).objAt .any ((bytes ++ ext).drop o.off)
      = .ok (.stream (.dict info) dataPos (.direct data.length)) := by
    show Offsets.toObjParse (parseIndirectObject { env with fileOffset := 0 } ((bytes ++ ext).drop o.off).toArray pfuel 0
      (Offsets.flagsNat .any)) = _
    rw [show Offsets.flagsNat .any = Flags.any from rfl, hp]
    simp [Offsets.toObjParse, streamAt]
  have hfin : ¬ (dataPos + data.length ≥ ((bytes ++ ext).drop o.off).length) := by
    rw [hsl]; simp only [List.length_append]; omega
  refine ⟨.stream (.dict info) (o.off + dataPos) (o.off + dataPos + data.length), ?_, ?_⟩
  · simp only [Offsets.directBody, hsa, hobj, Offsets.streamWithLen, Offsets.finishStream, hfin, if_false]
    rfl
  · rw [hval]
    refine .stream info (o.off + dataPos) data (by simp only [List.length_append] at hsize ⊢; omega) ?_
    have h1 := hdata.1
    simp only [List.drop_drop] at h1
    rw [h1, List.take_left']
    rfl

/-! ### `saveB` keeps the representation -/

theorem ObjRep.extend {P : Offsets.Parsers (Prim R) (Dict R)} {bytes : List UInt8} {o : Storage.Obj (Prim R)}
    (h : ObjRep P bytes o) (more : List UInt8) : ObjRep P (bytes ++ more) o := by
  intro ext rl hx
  have := h (more ++ ext) rl (by simpa [List.append_assoc] using hx)
  simpa [List.append_assoc] using this

theorem SecRep.extend {P : Offsets.Parsers (Prim R) (Dict R)} {bytes : List UInt8} {s : Sec}
    (h : SecRep P bytes s) (more : List UInt8) : SecRep P (bytes ++ more) s := by
  refine ⟨by have := h.1; simp; omega, ?_⟩
  intro ext hx
  have := h.2 (more ++ ext) (by simpa [List.append_assoc] using hx)
  simpa [List.append_assoc] using this

theorem isRow_of_rowOf (e r : XRef) (h : rowOf e = some r) : IsRow r := by
  cases e <;> simp [rowOf] at h <;> subst h <;> trivial

/-- every row of a successful save is a free, in-use or compressed entry whose fields fit the widths -/
theorem rows_fit (P : Params (Prim R)) (L : Layout) (hL : L.Pos) (d0 d d' : Doc (Prim R)) (chain0) (i : SaveInfo)
    (hb : BaseOK d0 chain0) (hi : Inv d0 d) (h : Committed P L d d'.st i) :
    (∀ r ∈ i.rows, IsRow r) ∧ (∀ r ∈ i.rows, Xref.Fits 1 i.aw i.bw r) := by
  have sh := save_shape_c P L hL d0 d d' chain0 i hb hi h
  obtain ⟨_, _, hw⟩ := width_fits_c P L hL d0 d d' chain0 i hb hi h
  have hrow : ∀ r ∈ i.rows, IsRow r := by
    intro r hr
    obtain ⟨j, hj⟩ := List.getElem?_of_mem hr
    have hjl : j < i.rows.length := (List.getElem?_eq_some_iff.mp hj).1
    have hjt : j < d'.st.refs.length := by rw [sh.table_len]; have := sh.rows_len.1; omega
    obtain ⟨r', a1, a2⟩ := sh.rows_of_table j d'.st.refs[j] (by simp [hjt])
    rw [hj] at a2; simp only [Option.some.injEq] at a2; subst a2
    exact isRow_of_rowOf _ _ a1
  refine ⟨hrow, fun r hr => fits_of_fields _ _ r (hrow r hr) (fun ty a b hf => ?_)⟩
  obtain ⟨h1, h2, _⟩ := hw r hr ty a b hf
  exact ⟨h1, h2⟩

theorem fmtNat_zero : fmtNat 0 = [48] := by decide

/-- **`saveB` keeps the bytes a representation of the abstract state**: every record and the new section are
    read back by the byte-level parsers at the offsets the abstract model says — as soon as the revision was written,
    whether the save then succeeds or fails in the typed reload of the trailer -/
theorem rep_saveB (fmt : R → List UInt8) (env : Env R) (hd : env.decrypt = none) (pfuel : Nat)
    (dec : Dict R → List UInt8 → Out (List UInt8)) (hdec : NoFilter dec) (d0 : Doc (Prim R)) (chain0)
    (b b' : BDoc R) (i : SaveInfo) (hb : BaseOK d0 chain0) (hi : Inv d0 b.doc)
    (hrep : Rep (parsers env pfuel dec) b.bytes b.doc.st) (typed : Bool) (h : CommittedB fmt typed b b' i)
    (hbd : Bounds b.doc.tr (prep b.doc).infoRef i)
    (hvals : ∀ c ∈ (prep b.doc).st2.changes, OKVal fmt env.parseReal c.2.1 ∧ c.1 ≤ 18446744073709551615 ∧
      c.2.2 ≤ 18446744073709551615)
    (hsmall : b'.bytes.length ≤ fileMax) (hpf : 3 * b'.bytes.length ≤ pfuel) :
    Rep (parsers env pfuel dec) b'.bytes b'.doc.st := by
  have hlen := hrep.len
  have sb := saveB_spec fmt env.parseReal d0 chain0 b b' i hb hi hlen typed h hbd
  have bk := saveB_backend fmt d0 chain0 b b' i hb hi hlen typed h
  have sh := save_shape_c _ _ (layoutOf_pos fmt typed b) d0 b.doc b'.doc chain0 i hb hi sb.doc
  obtain ⟨hrows, hfits⟩ := rows_fit _ _ (layoutOf_pos fmt typed b) d0 b.doc b'.doc chain0 i hb hi sb.doc
  have hxid : i.xid ≤ 18446744073709551615 := by have := sh.rows_len.2; have := hbd.size; omega
  have hf := xrefDict_facts fmt env.parseReal b.doc.tr (prep b.doc).infoRef b.ids i hbd
  obtain ⟨body, hbody, hxdrop⟩ := sb.xbody
  obtain ⟨txt, hser, hsp⟩ := serialize_stream_ok fmt env.parseReal (xrefDict b.doc.tr b.ids (prep b.doc).infoRef i) (rowsData i) hf.ser
  rw [hbody] at hser
  simp only [Out.ok.injEq] at hser
  have hxlt : b.doc.st.start + i.xpos < b'.bytes.length := by
    have := congrArg List.length hxdrop
    simp only [List.length_drop, List.length_append, tailBytes] at this
    have hk : kwEOF.length = 5 := rfl
    omega
  have hnl : Gap [10] := Gap.ws 10 [] (by decide) Gap.nil
  refine ⟨sb.len, hsmall, ?_, ?_, ?_, ?_⟩
  · intro ext hx
    rw [bk.start]
    have := hrep.header (revisionBytes fmt b i ++ ext) (by rw [← List.append_assoc, ← sb.bytes]; exact hx)
    rw [← List.append_assoc, ← sb.bytes] at this
    exact this
  · intro _
    rw [bk.startxref, sb.bytes]
    simp only [revisionBytes, ← List.append_assoc]
    exact locateXref_tail _ i (by unfold fileMax at hsmall; omega)
  · intro o ho
    obtain ⟨ext, e1, e2⟩ := bk.objs
    rw [e1] at ho
    simp only [List.mem_append, List.mem_singleton] at ho
    rcases ho with (ho | ho) | rfl
    · rw [sb.bytes]; exact (hrep.objs o ho).extend _
    · obtain ⟨hm, hmem, body', rest, hser', hdrop⟩ := e2 o ho
      obtain ⟨hv, hid, hgen⟩ := hvals _ hmem
      simp only at hv hid hgen
      generalize hov : o.val = ov at hv
      cases hv with
      | direct v hs hw hdp =>
        exact objRep_direct fmt env hd pfuel dec b'.bytes o (hov ▸ hs) (hov ▸ hw) (hov ▸ hdp) hid hgen hm body' rest hser' hdrop hpf
      | stream info data hs hw hn hl hdp =>
        obtain ⟨txt', hser2, hsp'⟩ := serialize_stream_ok fmt env.parseReal info data hs
        rw [hov, hser2] at hser'
        simp only [Out.ok.injEq] at hser'
        subst hser'
        exact objRep_stream env hd pfuel dec b'.bytes o info data hov hw hn hl hdp hid hgen hm txt' [10, 10] rest hsp'
          (Gap.ws 10 [10] (by decide) hnl) (by simp) (by rw [hdrop]; simp [objFrame]) hpf
    · subst hser
      refine objRep_stream env hd pfuel dec b'.bytes _ (xrefDict b.doc.tr b.ids (prep b.doc).infoRef i) (rowsData i) rfl hf.wf hf.nodup
        hf.length (by have := hf.depth; unfold maxDepth; omega) hxid (by show (0 : Nat) ≤ 18446744073709551615; omega) rfl txt [10] (tailBytes i) hsp hnl (by simp)
        ?_ hpf
      show b'.bytes.drop (b.doc.st.start + i.xpos) = _
      rw [hxdrop, fmtNat_zero]; simp
  · intro s hs
    rw [bk.secs] at hs
    simp only [List.mem_append, List.mem_singleton] at hs
    rcases hs with hs | rfl
    · rw [sb.bytes]; exact (hrep.secs s hs).extend _
    · refine ⟨by simp only; omega, ?_⟩
      intro ext hx
      have hdrop : (b'.bytes ++ ext).drop (b.doc.st.start + i.xpos) =
          (fmtNat i.xid ++ [32, 48, 32] ++ kwObj ++ [10] ++ body ++ kwEndobj ++ [10]) ++ tailBytes i ++ ext := by
        rw [List.drop_append_of_le_length (by omega), hxdrop]
      have hx2 : ((fmtNat i.xid ++ [32, 48, 32] ++ kwObj ++ [10] ++ body ++ kwEndobj ++ [10]) ++ tailBytes i ++ ext).length ≤ 2147483647 := by
        rw [← hdrop]; unfold fileMax at hx; simp only [List.length_drop]; omega
      have hxa := xrefAt_saved fmt { env with fileOffset := 0 } hd dec hdec b.doc.tr (prep b.doc).infoRef b.ids i hbd hxid
        hrows hfits body hbody ext hx2
      refine ⟨xrefDict b.doc.tr b.ids (prep b.doc).infoRef i, ?_, ?_, ?_, hf.root⟩
      · show XrefTable.xrefAt { env with fileOffset := 0 } (stmC { env with fileOffset := 0 } dec)
          ((b'.bytes ++ ext).drop (b.doc.st.start + i.xpos)) = _
        rw [hdrop]; exact hxa
      · show (match dictGet (xrefDict b.doc.tr b.ids (prep b.doc).infoRef i) Offsets.kwSize with
          | some v => Offsets.asNat v | none => .err) = _
        rw [show Offsets.kwSize = SaveBytes.kSize from rfl, hf.size]
        simp [Offsets.asNat]
      · show (dictGet (xrefDict b.doc.tr b.ids (prep b.doc).infoRef i) Offsets.kwPrev).map Offsets.asNat = _
        rw [show Offsets.kwPrev = kPrev from rfl, hf.prev]
        cases b.doc.tr.prev <;> simp [Offsets.asNat]

end RepBytes
