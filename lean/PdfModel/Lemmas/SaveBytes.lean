import PdfModel.Model.SaveBytes
import PdfModel.Lemmas.SaveShape
import PdfModel.Lemmas.Serialize
import PdfModel.Lemmas.Indirect
import PdfModel.Lemmas.XrefWidths

/-! Where the records of a save lie in the bytes `SaveBytes.saveB` produces. -/

namespace SaveBytes
open Storage PdfLex Xref

variable {R : Type}

theorem chLookup_mem {V : Type} : ∀ (ch : List (Nat × V × Nat)) (j : Nat) (x : V × Nat), chLookup ch j = some x → (j, x) ∈ ch := by
  intro ch
  induction ch with
  | nil => intro j x h; simp [chLookup] at h
  | cons c rest ih =>
    obtain ⟨i, y⟩ := c
    intro j x h
    simp only [chLookup] at h
    split at h
    · rename_i heq; subst heq; simp only [Option.some.injEq] at h; subst h; simp
    · exact List.mem_cons_of_mem _ (ih j x h)

theorem chLookup_of_mem_sorted : ∀ (ch : List (Nat × Prim R × Nat)), Sorted ch → ∀ c ∈ ch, chLookup ch c.1 = some c.2 := by
  intro ch
  induction ch with
  | nil => intro _ c hc; cases hc
  | cons hd rest ih =>
    obtain ⟨i, y⟩ := hd
    intro hs c hc
    simp only [List.mem_cons] at hc
    rcases hc with rfl | hc
    · simp [chLookup]
    · have hk : c.1 ∈ keys rest := List.mem_map_of_mem hc
      have := hs.1 c.1 hk
      rw [chLookup_cons, if_neg (by omega)]
      exact ih hs.2 c hc

/-- the loop over the changes, with the bytes it writes: the backend grows by the frames, and the row of
    every change is the offset at which its frame begins -/
theorem writeChanges_bytes (fmt : R → List UInt8) (ids : List (List UInt8)) (L : Layout) (start : Nat) :
    ∀ (ch : List (Nat × Prim R × Nat)) (w w' : Written (Prim R)),
      writeChanges (params fmt ids) L start ch w = (w', .ok ()) → Sorted ch →
      (∀ c ∈ ch, L.recLen c.1 = (frameOf fmt c).length) →
      ∀ pre : List UInt8, pre.length = w.len →
        (pre ++ framesOf fmt ch).length = w'.len ∧
        ∀ id v g, chLookup ch id = some (v, g) →
          ∃ off rest, w.len ≤ off ∧ w'.refs[id]? = some (.raw (off - start) g) ∧
            (pre ++ framesOf fmt ch).drop off = frameOf fmt (id, v, g) ++ rest := by
  intro ch
  induction ch with
  | nil =>
    intro w w' h _ _ pre hpre
    simp only [writeChanges, Prod.mk.injEq] at h
    obtain ⟨rfl, _⟩ := h
    refine ⟨by simpa [framesOf] using hpre, ?_⟩
    intro id v g hc; simp [chLookup] at hc
  | cons hd rest ih =>
    obtain ⟨i, v0, g0⟩ := hd
    intro w w' h hs hL pre hpre
    have hnone : chLookup rest i = none := chLookup_head_of_sorted i (v0, g0) rest hs
    simp only [writeChanges] at h
    split at h
    · rename_i hlt
      split at h
      · have hl0 := hL (i, v0, g0) (by simp)
        simp only at hl0
        have hpre1 : (pre ++ frameOf fmt (i, v0, g0)).length = w.len + L.recLen i := by
          simp [hpre, hl0]
        obtain ⟨a1, a2⟩ := ih _ _ h hs.2 (fun c hc => hL c (by simp [hc])) (pre ++ frameOf fmt (i, v0, g0)) hpre1
        obtain ⟨f1, f2, _, _⟩ := writeChanges_frame (params fmt ids) L start _ _ _ _ h hs.2
        simp only at f1 f2
        have hfr : pre ++ framesOf fmt ((i, v0, g0) :: rest) = pre ++ frameOf fmt (i, v0, g0) ++ framesOf fmt rest := by
          simp [framesOf]
        refine ⟨by rw [hfr]; exact a1, ?_⟩
        intro id v g hc
        rw [chLookup_cons] at hc
        split at hc
        · rename_i heq; subst heq
          simp only [Option.some.injEq, Prod.mk.injEq] at hc
          obtain ⟨rfl, rfl⟩ := hc
          refine ⟨w.len, framesOf fmt rest, Nat.le_refl _, ?_, ?_⟩
          · rw [f2 i hnone]; simp [hlt]
          · rw [hfr, List.append_assoc, ← hpre, List.drop_left]
        · obtain ⟨off, r, b1, b2, b3⟩ := a2 id v g hc
          simp only at b1
          exact ⟨off, r, by omega, b2, by rw [hfr]; exact b3⟩
      · simp at h
    · simp at h

/-- the records the loop appends to the abstract backend, and the bytes that stand at their offsets -/
theorem writeChanges_objs (fmt : R → List UInt8) (ids : List (List UInt8)) (L : Layout) (start : Nat) :
    ∀ (ch : List (Nat × Prim R × Nat)) (w w' : Written (Prim R)),
      writeChanges (params fmt ids) L start ch w = (w', .ok ()) →
      (∀ c ∈ ch, L.recLen c.1 = (frameOf fmt c).length) →
      ∀ pre : List UInt8, pre.length = w.len →
        ∃ ext, w'.objs = w.objs ++ ext ∧
          ∀ o ∈ ext, o.members = [] ∧ w.len ≤ o.off ∧ (params fmt ids).ok o.val = true ∧ (o.id, o.val, o.gen) ∈ ch ∧
            ∃ rest, (pre ++ framesOf fmt ch).drop o.off = frameOf fmt (o.id, o.val, o.gen) ++ rest := by
  intro ch
  induction ch with
  | nil =>
    intro w w' h _ pre _
    simp only [writeChanges, Prod.mk.injEq] at h
    obtain ⟨rfl, _⟩ := h
    exact ⟨[], by simp, by simp⟩
  | cons hd rest ih =>
    obtain ⟨i, v0, g0⟩ := hd
    intro w w' h hL pre hpre
    simp only [writeChanges] at h
    split at h
    · split at h
      · rename_i hok
        have hl0 := hL (i, v0, g0) (by simp)
        simp only at hl0
        have hpre1 : (pre ++ frameOf fmt (i, v0, g0)).length = w.len + L.recLen i := by
          simp [hpre, hl0]
        obtain ⟨ext, e1, e2⟩ := ih _ _ h (fun c hc => hL c (by simp [hc])) (pre ++ frameOf fmt (i, v0, g0)) hpre1
        simp only at e1 e2
        have hfr : pre ++ framesOf fmt ((i, v0, g0) :: rest) = pre ++ frameOf fmt (i, v0, g0) ++ framesOf fmt rest := by
          simp [framesOf]
        refine ⟨⟨w.len, i, g0, v0, []⟩ :: ext, by rw [e1]; simp, ?_⟩
        intro o ho
        simp only [List.mem_cons] at ho
        rcases ho with rfl | ho
        · refine ⟨rfl, Nat.le_refl _, hok, by simp, framesOf fmt rest, ?_⟩
          simp only
          rw [hfr, List.append_assoc, ← hpre, List.drop_left]
        · obtain ⟨a1, a2, a3, a4, r, a5⟩ := e2 o ho
          exact ⟨a1, by omega, a3, by simp [a4], r, by rw [hfr]; exact a5⟩
      · simp at h
    · simp at h

/-! ### dictionaries built by `dictInsert` -/

open PdfSyntax (WF WFE WFL keysOf vdepth vdepthE vdepthL need needE needL)

theorem dictGet_dictInsert (d : Dict R) (k k' : List UInt8) (v : Prim R) :
    dictGet (dictInsert d k v) k' = if k' = k then some v else dictGet d k' := by
  induction d with
  | nil => simp only [dictInsert, dictGet]; split <;> simp_all [eq_comm]
  | cons hd t ih =>
    obtain ⟨a, b⟩ := hd
    simp only [dictInsert]
    split
    · rename_i h; subst h
      simp only [dictGet]; split <;> simp_all [eq_comm]
    · rename_i h
      simp only [dictGet, ih]
      split
      · rename_i h2; subst h2; rw [if_neg (fun e => h e)]
      · rfl

theorem keysOf_dictInsert (d : Dict R) (k : List UInt8) (v : Prim R) :
    keysOf (dictInsert d k v) = if k ∈ keysOf d then keysOf d else keysOf d ++ [k] := by
  induction d with
  | nil => simp [dictInsert, keysOf]
  | cons hd t ih =>
    obtain ⟨a, b⟩ := hd
    simp only [dictInsert]
    split
    · rename_i h; subst h; simp [keysOf]
    · rename_i h
      simp only [keysOf, List.map_cons, List.mem_cons] at ih ⊢
      rw [ih]
      by_cases hk : k ∈ List.map (fun x => x.fst) t
      · simp [hk]
      · have : ¬ (k = a ∨ k ∈ List.map (fun x => x.fst) t) := by
          intro h'; rcases h' with h' | h'
          · exact h h'.symm
          · exact hk h'
        simp [hk]
        exact fun e => h e.symm

theorem nodup_dictInsert (d : Dict R) (k : List UInt8) (v : Prim R) (h : (keysOf d).Nodup) :
    (keysOf (dictInsert d k v)).Nodup := by
  rw [keysOf_dictInsert]
  split
  · exact h
  · rename_i hk
    rw [List.nodup_append]
    exact ⟨h, by simp, by intro a ha b hb; simp at hb; subst hb; intro e; subst e; exact hk ha⟩

theorem wfe_dictInsert (d : Dict R) (k : List UInt8) (v : Prim R) (h : WFE d) (hk : utf8Valid k = true) (hv : WF v) :
    WFE (dictInsert d k v) := by
  induction d with
  | nil => simp [dictInsert, WFE, hk, hv]
  | cons hd t ih =>
    obtain ⟨a, b⟩ := hd
    simp only [WFE] at h
    simp only [dictInsert]
    split
    · exact ⟨h.1, hv, h.2.2⟩
    · exact ⟨h.1, h.2.1, ih h.2.2⟩

theorem serialisableE_dictInsert (fmt : R → List UInt8) (pr : List UInt8 → Option R) (d : Dict R) (k : List UInt8)
    (v : Prim R) (h : SerialisableE fmt pr d) (hv : Serialisable fmt pr v) : SerialisableE fmt pr (dictInsert d k v) := by
  induction d with
  | nil => simp [dictInsert, SerialisableE, hv]
  | cons hd t ih =>
    obtain ⟨a, b⟩ := hd
    simp only [SerialisableE] at h
    simp only [dictInsert]
    split
    · exact ⟨hv, h.2⟩
    · exact ⟨h.1, ih h.2⟩

theorem vdepthE_dictInsert (d : Dict R) (k : List UInt8) (v : Prim R) :
    vdepthE (dictInsert d k v) ≤ max (vdepthE d) (vdepth v) := by
  induction d with
  | nil => simp [dictInsert, vdepthE]
  | cons hd t ih =>
    obtain ⟨a, b⟩ := hd
    simp only [dictInsert]
    split
    · simp only [vdepthE]; omega
    · simp only [vdepthE]; omega

/-- what is said of a dictionary survives every `insert` of `mergeDict` -/
theorem mergeDict_props (fmt : R → List UInt8) (pr : List UInt8 → Option R) (n : Nat) :
    ∀ (extra d : Dict R), SerialisableE fmt pr d → WFE d → (keysOf d).Nodup → vdepthE d ≤ n →
      SerialisableE fmt pr extra → WFE extra → vdepthE extra ≤ n →
      SerialisableE fmt pr (mergeDict d extra) ∧ WFE (mergeDict d extra) ∧ (keysOf (mergeDict d extra)).Nodup ∧
        vdepthE (mergeDict d extra) ≤ n := by
  intro extra
  induction extra with
  | nil => intro d h1 h2 h3 h4 _ _ _; exact ⟨h1, h2, h3, h4⟩
  | cons kv rest ih =>
    obtain ⟨k, v⟩ := kv
    intro d h1 h2 h3 h4 e1 e2 e3
    simp only [SerialisableE] at e1
    simp only [WFE] at e2
    simp only [vdepthE] at e3
    simp only [mergeDict, List.foldl_cons]
    exact ih (dictInsert d k v) (serialisableE_dictInsert fmt pr d k v h1 e1.1) (wfe_dictInsert d k v h2 e2.1 e2.2.1)
      (nodup_dictInsert d k v h3) (Nat.le_trans (vdepthE_dictInsert d k v) (by omega)) e1.2 e2.2.2 (by omega)

theorem dictGet_mergeDict_other (k : List UInt8) : ∀ (extra d : Dict R), k ∉ keysOf extra →
    dictGet (mergeDict d extra) k = dictGet d k := by
  intro extra
  induction extra with
  | nil => intro d _; rfl
  | cons kv rest ih =>
    obtain ⟨k', v⟩ := kv
    intro d hk
    simp only [keysOf, List.map_cons, List.mem_cons, not_or] at hk
    simp only [mergeDict, List.foldl_cons]
    have := ih (dictInsert d k' v) (by simpa [keysOf] using hk.2)
    simp only [mergeDict] at this
    rw [this, dictGet_dictInsert, if_neg hk.1]

theorem dictGet_mergeDict_mem (k : List UInt8) (v : Prim R) : ∀ (extra d : Dict R), (keysOf extra).Nodup →
    dictGet extra k = some v → dictGet (mergeDict d extra) k = some v := by
  intro extra
  induction extra with
  | nil => intro d _ h; simp [dictGet] at h
  | cons kv rest ih =>
    obtain ⟨k', v'⟩ := kv
    intro d hnd hg
    simp only [keysOf, List.map_cons, List.nodup_cons] at hnd
    simp only [dictGet] at hg
    simp only [mergeDict, List.foldl_cons]
    split at hg
    · rename_i heq; subst heq
      simp only [Option.some.injEq] at hg; subst hg
      have := dictGet_mergeDict_other k' rest (dictInsert d k' v') (by simpa [keysOf] using hnd.1)
      simp only [mergeDict] at this
      rw [this, dictGet_dictInsert, if_pos rfl]
    · exact ih (dictInsert d k' v') (by simpa [keysOf] using hnd.2) hg

/-! ### the dictionary of the cross-reference stream object -/

/-- machine-integer bounds under which the numbers of a revision are 32-bit integers / 64-bit object numbers -/
structure Bounds (tr : Trailer (Prim R)) (infoRef : Option Nat) (i : SaveInfo) : Prop where
  aw : i.aw ≤ 8
  bw : i.bw ≤ 8
  rows : i.rows.length ≤ 1000000
  size : i.size ≤ 1000000
  prev : ∀ p, tr.prev = some p → p ≤ 2147483647
  root : tr.root.1 ≤ 18446744073709551615 ∧ tr.root.2 ≤ 18446744073709551615
  info : ∀ j, infoRef = some j → j ≤ 18446744073709551615

theorem beBytes_length' : ∀ (w n : Nat), (beBytes w n).length = w := by
  intro w
  induction w with
  | zero => intro n; rfl
  | succ w ih => intro n; simp [beBytes, ih]

theorem rowsData_length_le (i : SaveInfo) : (rowsData i).length ≤ i.rows.length * (1 + i.aw + i.bw) := by
  have key : ∀ rows : List XRef, (rows.flatMap (rowBytes i.aw i.bw)).length ≤ rows.length * (1 + i.aw + i.bw) := by
    intro rows
    induction rows with
    | nil => simp
    | cons e es ih =>
      have h1 : (rowBytes i.aw i.bw e).length ≤ 1 + i.aw + i.bw := by
        unfold rowBytes
        split
        · simp [beBytes_length']; omega
        · simp
      simp only [List.flatMap_cons, List.length_append, List.length_cons]
      have : (es.length + 1) * (1 + i.aw + i.bw) = es.length * (1 + i.aw + i.bw) + (1 + i.aw + i.bw) := Nat.succ_mul _ _
      omega
  simpa [rowsData] using key i.rows

theorem strs_props (fmt : R → List UInt8) (pr : List UInt8 → Option R) (ids : List (List UInt8)) :
    SerialisableL fmt pr (ids.map Prim.str) ∧ WFL (ids.map (Prim.str (R := R))) ∧ vdepthL (ids.map (Prim.str (R := R))) = 0 := by
  induction ids with
  | nil => simp [SerialisableL, WFL, vdepthL]
  | cons x xs ih => simp [SerialisableL, Serialisable, WFL, WF, vdepthL, vdepth, ih]

theorem trailerDict_props (fmt : R → List UInt8) (pr : List UInt8 → Option R) (tr : Trailer (Prim R)) (infoRef : Option Nat)
    (ids : List (List UInt8)) (i : SaveInfo) (hb : Bounds tr infoRef i) :
    SerialisableE fmt pr (trailerDict i.size tr infoRef ids) ∧ WFE (trailerDict i.size tr infoRef ids) ∧
    (keysOf (trailerDict i.size tr infoRef ids)).Nodup ∧ vdepthE (trailerDict i.size tr infoRef ids) ≤ 1 ∧
    dictGet (trailerDict i.size tr infoRef ids) kSize = some (.int i.size) ∧
    dictGet (trailerDict i.size tr infoRef ids) kPrev = tr.prev.map (fun p => Prim.int p) ∧
    dictGet (trailerDict i.size tr infoRef ids) kRoot = some (.ref tr.root.1 tr.root.2) ∧
    kwLength ∉ keysOf (trailerDict i.size tr infoRef ids) ∧ kType ∉ keysOf (trailerDict i.size tr infoRef ids) ∧
    kW ∉ keysOf (trailerDict i.size tr infoRef ids) ∧ kIndex ∉ keysOf (trailerDict i.size tr infoRef ids) := by
  obtain ⟨s1, s2, s3⟩ := strs_props fmt pr ids
  have hsz := hb.size
  have hr := hb.root
  cases hp : tr.prev with
  | none =>
    cases hi : infoRef with
    | none =>
      simp only [trailerDict, hp, hi]
      refine ⟨?_, ?_, (by simp only [keysOf, List.map_cons, List.map_nil, List.append_nil, List.cons_append, List.nil_append]; decide), ?_, by simp [dictGet, kSize], by simp [dictGet, kSize, kPrev, kRoot, kID], ?_, (by simp only [keysOf, List.map_cons, List.map_nil, List.append_nil, List.cons_append, List.nil_append]; decide), (by simp only [keysOf, List.map_cons, List.map_nil, List.append_nil, List.cons_append, List.nil_append]; decide), (by simp only [keysOf, List.map_cons, List.map_nil, List.append_nil, List.cons_append, List.nil_append]; decide), (by simp only [keysOf, List.map_cons, List.map_nil, List.append_nil, List.cons_append, List.nil_append]; decide)⟩
      · simp [SerialisableE, Serialisable, s1, hr.1, hr.2]; omega
      · simp [WFE, WF, s2]; decide
      · simp [vdepthE, vdepth, s3]
      · simp [dictGet, kSize, kRoot]
    | some j =>
      have hj := hb.info j hi
      simp only [trailerDict, hp, hi]
      refine ⟨?_, ?_, (by simp only [keysOf, List.map_cons, List.map_nil, List.append_nil, List.cons_append, List.nil_append]; decide), ?_, by simp [dictGet, kSize], by simp [dictGet, kSize, kPrev, kRoot, kID, kInfo], ?_, (by simp only [keysOf, List.map_cons, List.map_nil, List.append_nil, List.cons_append, List.nil_append]; decide), (by simp only [keysOf, List.map_cons, List.map_nil, List.append_nil, List.cons_append, List.nil_append]; decide), (by simp only [keysOf, List.map_cons, List.map_nil, List.append_nil, List.cons_append, List.nil_append]; decide), (by simp only [keysOf, List.map_cons, List.map_nil, List.append_nil, List.cons_append, List.nil_append]; decide)⟩
      · simp [SerialisableE, Serialisable, s1, hr.1, hr.2, hj]; omega
      · simp [WFE, WF, s2]; decide
      · simp [vdepthE, vdepth, s3]
      · simp [dictGet, kSize, kRoot]
  | some p =>
    have hpb := hb.prev p hp
    cases hi : infoRef with
    | none =>
      simp only [trailerDict, hp, hi]
      refine ⟨?_, ?_, (by simp only [keysOf, List.map_cons, List.map_nil, List.append_nil, List.cons_append, List.nil_append]; decide), ?_, by simp [dictGet, kSize], by simp [dictGet, kSize, kPrev], ?_, (by simp only [keysOf, List.map_cons, List.map_nil, List.append_nil, List.cons_append, List.nil_append]; decide), (by simp only [keysOf, List.map_cons, List.map_nil, List.append_nil, List.cons_append, List.nil_append]; decide), (by simp only [keysOf, List.map_cons, List.map_nil, List.append_nil, List.cons_append, List.nil_append]; decide), (by simp only [keysOf, List.map_cons, List.map_nil, List.append_nil, List.cons_append, List.nil_append]; decide)⟩
      · simp [SerialisableE, Serialisable, s1, hr.1, hr.2]; omega
      · simp [WFE, WF, s2]; decide
      · simp [vdepthE, vdepth, s3]
      · simp [dictGet, kSize, kRoot, kPrev]
    | some j =>
      have hj := hb.info j hi
      simp only [trailerDict, hp, hi]
      refine ⟨?_, ?_, (by simp only [keysOf, List.map_cons, List.map_nil, List.append_nil, List.cons_append, List.nil_append]; decide), ?_, by simp [dictGet, kSize], by simp [dictGet, kSize, kPrev], ?_, (by simp only [keysOf, List.map_cons, List.map_nil, List.append_nil, List.cons_append, List.nil_append]; decide), (by simp only [keysOf, List.map_cons, List.map_nil, List.append_nil, List.cons_append, List.nil_append]; decide), (by simp only [keysOf, List.map_cons, List.map_nil, List.append_nil, List.cons_append, List.nil_append]; decide), (by simp only [keysOf, List.map_cons, List.map_nil, List.append_nil, List.cons_append, List.nil_append]; decide)⟩
      · simp [SerialisableE, Serialisable, s1, hr.1, hr.2, hj]; omega
      · simp [WFE, WF, s2]; decide
      · simp [vdepthE, vdepth, s3]
      · simp [dictGet, kSize, kRoot, kPrev]

theorem xrefInfoDict_props (fmt : R → List UInt8) (pr : List UInt8 → Option R) (tr : Trailer (Prim R)) (infoRef : Option Nat)
    (i : SaveInfo) (hb : Bounds tr infoRef i) :
    SerialisableE fmt pr (xrefInfoDict (R := R) i) ∧ WFE (xrefInfoDict (R := R) i) ∧ (keysOf (xrefInfoDict (R := R) i)).Nodup ∧
    vdepthE (xrefInfoDict (R := R) i) ≤ 1 := by
  have h1 := hb.aw
  have h2 := hb.bw
  have h3 := hb.rows
  have h4 := rowsData_length_le i
  have h5 : i.rows.length * (1 + i.aw + i.bw) ≤ 1000000 * 17 := Nat.mul_le_mul h3 (by omega)
  refine ⟨?_, ?_, ?_, ?_⟩
  · simp [xrefInfoDict, SerialisableE, Serialisable, SerialisableL]; omega
  · simp [xrefInfoDict, WFE, WF, WFL]; decide
  · simp only [xrefInfoDict, keysOf, List.map_cons, List.map_nil]; decide
  · simp [xrefInfoDict, vdepthE, vdepth, vdepthL]

structure XrefDictFacts (fmt : R → List UInt8) (pr : List UInt8 → Option R) (tr : Trailer (Prim R)) (i : SaveInfo)
    (D : Dict R) : Prop where
  ser : SerialisableE fmt pr D
  wf : WFE D
  nodup : (keysOf D).Nodup
  depth : vdepthE D ≤ 1
  length : dictGet D kwLength = some (.int (rowsData i).length)
  size : dictGet D kSize = some (.int i.size)
  prev : dictGet D kPrev = tr.prev.map (fun p => Prim.int p)
  type : dictGet D kType = some (.name kXRef)
  w : dictGet D kW = some (.arr [.int 1, .int i.aw, .int i.bw])
  index : dictGet D kIndex = some (.arr [.int 0, .int i.rows.length])
  root : dictGet D kRoot = some (.ref tr.root.1 tr.root.2)

theorem xrefDict_facts (fmt : R → List UInt8) (pr : List UInt8 → Option R) (tr : Trailer (Prim R)) (infoRef : Option Nat)
    (ids : List (List UInt8)) (i : SaveInfo) (hb : Bounds tr infoRef i) :
    XrefDictFacts fmt pr tr i (xrefDict tr ids infoRef i) := by
  obtain ⟨a1, a2, a3, a4⟩ := xrefInfoDict_props fmt pr tr infoRef i hb
  obtain ⟨t1, t2, t3, t4, t5, t6, t7, n1, n2, n3, n4⟩ := trailerDict_props fmt pr tr infoRef ids i hb
  obtain ⟨m1, m2, m3, m4⟩ := mergeDict_props fmt pr 1 (trailerDict i.size tr infoRef ids) (xrefInfoDict i) a1 a2 a3 a4 t1 t2 t4
  refine ⟨m1, m2, m3, m4, ?_, ?_, ?_, ?_, ?_, ?_, ?_⟩
  · unfold xrefDict; rw [dictGet_mergeDict_other _ _ _ n1]; simp [xrefInfoDict, dictGet, kType, kSize, kIndex, kW, kwLength]
  · exact dictGet_mergeDict_mem _ _ _ _ t3 t5
  · cases hp : tr.prev with
    | none =>
      rw [hp] at t6
      unfold xrefDict
      rw [dictGet_mergeDict_other]
      · simp [xrefInfoDict, dictGet, kType, kSize, kIndex, kW, kwLength, kPrev]
      · intro hmem
        -- a key of the trailer dictionary has a value
        have : ∀ (d : Dict R) (k : List UInt8), k ∈ keysOf d → dictGet d k ≠ none := by
          intro d
          induction d with
          | nil => intro k hk; simp [keysOf] at hk
          | cons kv rest ih =>
            obtain ⟨k0, v0⟩ := kv
            intro k hk
            simp only [keysOf, List.map_cons, List.mem_cons] at hk
            simp only [dictGet]
            split
            · simp
            · rename_i hne
              rcases hk with hk | hk
              · exact absurd hk.symm hne
              · exact ih k (by simpa [keysOf] using hk)
        exact this _ _ hmem (by simpa using t6)
    | some p =>
      rw [hp] at t6
      exact dictGet_mergeDict_mem _ _ _ _ t3 (by simpa using t6)
  · unfold xrefDict; rw [dictGet_mergeDict_other _ _ _ n2]; simp [xrefInfoDict, dictGet]
  · unfold xrefDict; rw [dictGet_mergeDict_other _ _ _ n3]; simp [xrefInfoDict, dictGet, kType, kSize, kIndex, kW]
  · unfold xrefDict; rw [dictGet_mergeDict_other _ _ _ n4]; simp [xrefInfoDict, dictGet, kType, kSize, kIndex]
  · exact dictGet_mergeDict_mem _ _ _ _ t3 t7

/-! ### the revision in the bytes -/

theorem objFrame_length_pos (id gen : Nat) (body : List UInt8) : 0 < (objFrame id gen body).length := by
  simp [objFrame, kwObj, kwEndobj]; omega

theorem frameOf_of_ok (fmt : R → List UInt8) (ids : List (List UInt8)) (id g : Nat) (v : Prim R) (h : (params fmt ids).ok v = true) :
    ∃ body, serialize fmt v = .ok body ∧ frameOf fmt (id, v, g) = objFrame id g body := by
  simp only [params, Out.isOk] at h
  cases hs : serialize fmt v with
  | ok body => exact ⟨body, rfl, by simp [frameOf, hs]⟩
  | err => rw [hs] at h; cases h
  | panic => rw [hs] at h; cases h
  | oof => rw [hs] at h; cases h

theorem layoutOf_pos (fmt : R → List UInt8) (typed : Bool) (b : BDoc R) : (layoutOf fmt typed b).Pos := by
  refine ⟨?_, ?_⟩
  · intro id; simp only [layoutOf]; split <;> omega
  · intro i; simp only [layoutOf]; omega

/-- `PdfStream::serialize` of a pending stream whose dictionary can be written (as in Props/C04) -/
theorem serialize_stream_ok (fmt : R → List UInt8) (pr : List UInt8 → Option R) (info : Dict R) (data : List UInt8)
    (h : SerialisableE fmt pr info) :
    ∃ txt, serialize fmt (.stream info (.pending data)) = .ok (txt ++ [10]) ∧ PdfSyntax.SpellsStream pr info data txt := by
  obtain ⟨d, hd, hs⟩ := serializeEntries_spells fmt pr info h
  refine ⟨60 :: 60 :: ([10] ++ (d ++ [62, 62]) ++ [10] ++ PdfSyntax.kwStream ++ [10] ++ data ++ [10] ++ PdfSyntax.kwEndstream), ?_, ?_⟩
  · simp [serialize, hs, PdfSyntax.kwStream, PdfSyntax.kwEndstream, kwStream, kwEndstream]
  · have hnl : PdfSyntax.Gap [10] := PdfSyntax.Gap.ws 10 [] (by decide) PdfSyntax.Gap.nil
    exact ⟨[10], d ++ [62, 62], [10], [10], [10], rfl, hnl, hd, hnl, Or.inl rfl, hnl⟩

/-- `saveB` appended the revision `i` (its `write_revision` part succeeded; the save as a whole may still have failed in
    the typed reload of the trailer) -/
structure CommittedB (fmt : R → List UInt8) (typed : Bool) (b b' : BDoc R) (i : SaveInfo) : Prop where
  doc : Committed (params fmt b.ids) (layoutOf fmt typed b) b.doc b'.doc.st i
  ids : b'.ids = b.ids
  bytes : b'.bytes = b.bytes ++ revisionBytes fmt b i

/-- what a `saveB` that appended its revision did, in terms of the bytes -/
structure SavedBytes (fmt : R → List UInt8) (typed : Bool) (b b' : BDoc R) (i : SaveInfo) : Prop where
  doc : Committed (params fmt b.ids) (layoutOf fmt typed b) b.doc b'.doc.st i
  ids : b'.ids = b.ids
  bytes : b'.bytes = b.bytes ++ revisionBytes fmt b i
  len : b'.bytes.length = b'.doc.st.len
  /-- every pending value (the info dictionary included) lies framed at the offset its row names -/
  frames : ∀ id v g, chLookup (prep b.doc).st2.changes id = some (v, g) →
      ∃ off rest body, b.doc.st.len ≤ off ∧ i.rows[id]? = some (.raw (off - b.doc.st.start) g) ∧
        serialize fmt v = .ok body ∧ b'.bytes.drop off = objFrame id g body ++ rest
  /-- the cross-reference stream object starts where `startxref` says, its row says so too, and the file ends
      behind the `startxref` trailer -/
  xrow : i.rows[i.xid]? = some (.raw i.xpos 0)
  xbody : ∃ body, serialize fmt (.stream (xrefDict b.doc.tr b.ids (prep b.doc).infoRef i) (.pending (rowsData i))) = .ok body ∧
      b'.bytes.drop (b.doc.st.start + i.xpos) =
        (fmtNat i.xid ++ [32, 48, 32] ++ kwObj ++ [10] ++ body ++ kwEndobj ++ [10]) ++ tailBytes i

theorem commitInfo_of_committed {V : Type} (P : Params V) (L : Layout) (d : Doc V) (st' : St V) (i : SaveInfo)
    (h : Committed P L d st' i) : commitInfo P L d = some i := by
  obtain ⟨w, rows, hw, hr, _, hi, hmax⟩ := h
  have hnb : ¬ (d.st.refs.length + 2 > MAX_ID) := by omega
  unfold commitInfo
  simp only [hnb, if_false, hw, hr, hi]

/-- `saveB` is `save` on the document; the bytes grow by the revision exactly when the revision was written -/
theorem saveB_cases (fmt : R → List UInt8) (typed : Bool) (b b' : BDoc R) (o : Out SaveInfo) (h : saveB fmt typed b = (b', o)) :
    save (params fmt b.ids) (layoutOf fmt typed b) b.doc = (b'.doc, o) ∧ b'.ids = b.ids ∧
      ((∃ i, commitInfo (params fmt b.ids) (layoutOf fmt typed b) b.doc = some i ∧ b'.bytes = b.bytes ++ revisionBytes fmt b i) ∨
       (commitInfo (params fmt b.ids) (layoutOf fmt typed b) b.doc = none ∧ b'.bytes = b.bytes)) := by
  unfold saveB at h
  simp only at h
  cases hc : commitInfo (params fmt b.ids) (layoutOf fmt typed b) b.doc with
  | none =>
    rw [hc] at h; simp only [Prod.mk.injEq] at h
    obtain ⟨rfl, rfl⟩ := h
    exact ⟨rfl, rfl, Or.inr ⟨rfl, rfl⟩⟩
  | some i =>
    rw [hc] at h; simp only [Prod.mk.injEq] at h
    obtain ⟨rfl, rfl⟩ := h
    exact ⟨rfl, rfl, Or.inl ⟨i, rfl, rfl⟩⟩

theorem saveB_ok_iff (fmt : R → List UInt8) (typed : Bool) (b b' : BDoc R) (i : SaveInfo) (h : saveB fmt typed b = (b', .ok i)) :
    save (params fmt b.ids) (layoutOf fmt typed b) b.doc = (b'.doc, .ok i) ∧ b'.ids = b.ids ∧
      b'.bytes = b.bytes ++ revisionBytes fmt b i := by
  obtain ⟨h1, h2, h3⟩ := saveB_cases fmt typed b b' _ h
  have hc := commitInfo_of_committed _ _ _ _ _ (committed_of_ok _ _ _ _ _ h1)
  rcases h3 with ⟨i', hi', hb⟩ | ⟨hn, _⟩
  · rw [hc] at hi'; cases hi'; exact ⟨h1, h2, hb⟩
  · rw [hc] at hn; cases hn

theorem committedB_of_ok (fmt : R → List UInt8) (typed : Bool) (b b' : BDoc R) (i : SaveInfo) (h : saveB fmt typed b = (b', .ok i)) :
    CommittedB fmt typed b b' i := by
  obtain ⟨h1, h2, h3⟩ := saveB_ok_iff fmt typed b b' i h
  exact ⟨committed_of_ok _ _ _ _ _ h1, h2, h3⟩

theorem saveB_spec (fmt : R → List UInt8) (pr : List UInt8 → Option R) (d0 : Doc (Prim R)) (chain0) (b b' : BDoc R)
    (i : SaveInfo) (hb : BaseOK d0 chain0) (hi : Inv d0 b.doc) (hlen : b.bytes.length = b.doc.st.len)
    (typed : Bool) (h : CommittedB fmt typed b b' i) (hbd : Bounds b.doc.tr (prep b.doc).infoRef i) : SavedBytes fmt typed b b' i := by
  obtain ⟨hs, hids, hbytes⟩ := h
  have hL := layoutOf_pos fmt typed b
  have pf := prep_facts d0 b.doc chain0 hb hi
  obtain ⟨w, rows, hw, hr, hst, hl, hxid, hxpos, hsize, hrows, _⟩ := hs.spec'
  have hinfo := (hs.info w rows hw hr).symm
  subst hrows
  obtain ⟨f1, f2, f3, _⟩ := writeChanges_frame _ _ _ _ _ _ _ hw pf.inv.sorted
  obtain ⟨k1, _, k4, k5⟩ := writeChanges_ok _ _ _ hL.1 _ _ _ hw pf.inv.sorted pf.inv.objs_lt
  simp only at f1 f2 f3 k1 k4 k5
  have hxlt : (prep b.doc).xid < w.refs.length := by rw [f1, pf.len_eq]; omega
  have hstart : (prep b.doc).st2.start ≤ (prep b.doc).st2.len := by
    have := hb.start_le; have := pf.inv.start_eq; have := pf.inv.len_ge
    simp only at *; omega
  have hlen4 : (w.refs.set (prep b.doc).xid (.raw (w.len - (prep b.doc).st2.start) 0)).length = (prep b.doc).xid + 1 := by
    rw [List.length_set, f1, pf.len_eq]
  rw [take_all _ _ (by omega)] at hr
  obtain ⟨r1, r2⟩ := rowsOf_spec _ _ hr
  -- the layout gives every frame its true length
  have hLrec : ∀ c ∈ (prep b.doc).st2.changes, (layoutOf fmt typed b).recLen c.1 = (frameOf fmt c).length := by
    intro c hc
    obtain ⟨id, v, g⟩ := c
    have hlook := chLookup_of_mem_sorted _ pf.inv.sorted _ hc
    simp only at hlook
    obtain ⟨_, hok, _⟩ := k5 id v g hlook
    obtain ⟨body, _, hfr⟩ := frameOf_of_ok fmt b.ids id g v hok
    simp only [layoutOf, hlook, hfr]
    have := objFrame_length_pos id g body; omega
  obtain ⟨b1, b2⟩ := writeChanges_bytes fmt b.ids _ _ _ _ _ hw pf.inv.sorted hLrec b.bytes (by rw [hlen, pf.len_same])
  -- the cross-reference stream object can be written
  have hxf := xrefDict_facts fmt pr b.doc.tr (prep b.doc).infoRef b.ids i hbd
  obtain ⟨txt, hxs, _⟩ := serialize_stream_ok fmt pr (xrefDict b.doc.tr b.ids (prep b.doc).infoRef i) (rowsData i) hxf.ser
  have hxob : xrefObjBytes fmt b.doc.tr b.ids (prep b.doc).infoRef i =
      fmtNat i.xid ++ [32, 48, 32] ++ kwObj ++ [10] ++ (txt ++ [10]) ++ kwEndobj ++ [10] := by
    simp [xrefObjBytes, hxs]
  have hxpos' : i.xpos = w.len - (prep b.doc).st2.start := hxpos
  have hpre : (b.bytes ++ framesOf fmt (prep b.doc).st2.changes).length = w.len := b1
  refine ⟨hs, hids, hbytes, ?_, ?_, ?_, ?_⟩
  · -- total length
    rw [hbytes, hst]
    simp only [commit, revisionBytes]
    rw [hinfo]
    have hx1 : (layoutOf fmt typed b).xrefLen i = (xrefObjBytes fmt b.doc.tr b.ids (prep b.doc).infoRef i).length := by
      simp only [layoutOf]
      have : 0 < (xrefObjBytes fmt b.doc.tr b.ids (prep b.doc).infoRef i).length := by
        rw [hxob]; simp [kwObj]; omega
      omega
    have hx2 : (layoutOf fmt typed b).tailLen i = (tailBytes i).length := rfl
    rw [hx1, hx2]
    simp only [List.length_append] at hpre ⊢
    omega
  · intro id v g hc
    obtain ⟨off, rest, c1, c2, c3⟩ := b2 id v g hc
    obtain ⟨_, hok, _⟩ := k5 id v g hc
    obtain ⟨body, hbody, hfr⟩ := frameOf_of_ok fmt b.ids id g v hok
    have hne : (prep b.doc).xid ≠ id := by intro heq; rw [← heq, pf.xid_free] at hc; simp at hc
    obtain ⟨r, ra, rb⟩ := r2 id _ (by rw [set_get_ne _ _ _ _ hne]; exact c2)
    simp only [rowOf, Option.some.injEq] at ra; subst ra
    refine ⟨off, rest ++ (xrefObjBytes fmt b.doc.tr b.ids (prep b.doc).infoRef i ++ tailBytes i), body, ?_, ?_, hbody, ?_⟩
    · simp only at c1; rw [pf.len_same] at c1; exact c1
    · rw [← pf.start_same]; exact rb
    · rw [hbytes]
      simp only [revisionBytes]
      have hoff : off ≤ (b.bytes ++ framesOf fmt (prep b.doc).st2.changes).length := by
        -- the frame begins inside the region written by the loop
        have := congrArg List.length c3
        simp only [List.length_drop, List.length_append] at this
        have hp := objFrame_length_pos id g body
        rw [hfr] at this
        simp only [List.length_append] at hp ⊢
        omega
      have : b.bytes ++ (framesOf fmt (prep b.doc).st2.changes ++ xrefObjBytes fmt b.doc.tr b.ids (prep b.doc).infoRef i ++ tailBytes i)
          = (b.bytes ++ framesOf fmt (prep b.doc).st2.changes) ++ (xrefObjBytes fmt b.doc.tr b.ids (prep b.doc).infoRef i ++ tailBytes i) := by
        simp
      rw [this, List.drop_append_of_le_length hoff, c3, hfr]
      simp
  · obtain ⟨r, ra, rb⟩ := r2 (prep b.doc).xid _ (set_get_self _ _ _ hxlt)
    simp only [rowOf, Option.some.injEq] at ra; subst ra
    rw [hxid, hxpos']; exact rb
  · refine ⟨txt ++ [10], hxs, ?_⟩
    rw [hbytes]
    simp only [revisionBytes]
    have hpos : b.doc.st.start + i.xpos = (b.bytes ++ framesOf fmt (prep b.doc).st2.changes).length := by
      rw [hpre, hxpos', ← pf.start_same]; omega
    have : b.bytes ++ (framesOf fmt (prep b.doc).st2.changes ++ xrefObjBytes fmt b.doc.tr b.ids (prep b.doc).infoRef i ++ tailBytes i)
        = (b.bytes ++ framesOf fmt (prep b.doc).st2.changes) ++ (xrefObjBytes fmt b.doc.tr b.ids (prep b.doc).infoRef i ++ tailBytes i) := by
      simp
    rw [this, hpos, List.drop_left, hxob]

/-- what a successful `saveB` appended to the abstract backend, in terms of the bytes -/
structure SavedBackend (fmt : R → List UInt8) (b b' : BDoc R) (i : SaveInfo) : Prop where
  start : b'.doc.st.start = b.doc.st.start
  startxref : b'.doc.st.startxref = i.xpos
  xpos_ge : b.doc.st.len ≤ b.doc.st.start + i.xpos
  xpos_le : b.doc.st.start + i.xpos ≤ b'.bytes.length
  secs : b'.doc.st.secs = b.doc.st.secs ++
      [⟨b.doc.st.start + i.xpos, [⟨0, i.rows⟩], i.size, b.doc.tr.prev, b.doc.tr.root, (prep b.doc).infoRef⟩]
  objs : ∃ ext, b'.doc.st.objs = b.doc.st.objs ++ ext ++
        [⟨b.doc.st.start + i.xpos, i.xid, 0, xrefRecVal b.ids b.doc.tr (prep b.doc).infoRef i, []⟩] ∧
      ∀ o ∈ ext, o.members = [] ∧ (o.id, o.val, o.gen) ∈ (prep b.doc).st2.changes ∧
        ∃ body rest, serialize fmt o.val = .ok body ∧ b'.bytes.drop o.off = objFrame o.id o.gen body ++ rest

theorem saveB_backend (fmt : R → List UInt8) (d0 : Doc (Prim R)) (chain0) (b b' : BDoc R)
    (i : SaveInfo) (hb : BaseOK d0 chain0) (hi : Inv d0 b.doc) (hlen : b.bytes.length = b.doc.st.len)
    (typed : Bool) (h : CommittedB fmt typed b b' i) : SavedBackend fmt b b' i := by
  obtain ⟨hs, hids, hbytes⟩ := h
  have hL := layoutOf_pos fmt typed b
  have pf := prep_facts d0 b.doc chain0 hb hi
  obtain ⟨w, rows, hw, hr, hst, hl, hxid, hxpos, hsize, hrows, _⟩ := hs.spec'
  have hinfo := (hs.info w rows hw hr).symm
  subst hrows
  obtain ⟨k1, _, k4, k5⟩ := writeChanges_ok _ _ _ hL.1 _ _ _ hw pf.inv.sorted pf.inv.objs_lt
  simp only at k1 k4 k5
  have hstart : (prep b.doc).st2.start ≤ (prep b.doc).st2.len := by
    have := hb.start_le; have := pf.inv.start_eq; have := pf.inv.len_ge
    simp only at *; omega
  have hLrec : ∀ c ∈ (prep b.doc).st2.changes, (layoutOf fmt typed b).recLen c.1 = (frameOf fmt c).length := by
    intro c hc
    obtain ⟨id, v, g⟩ := c
    have hlook := chLookup_of_mem_sorted _ pf.inv.sorted _ hc
    simp only at hlook
    obtain ⟨_, hok, _⟩ := k5 id v g hlook
    obtain ⟨body, _, hfr⟩ := frameOf_of_ok fmt b.ids id g v hok
    simp only [layoutOf, hlook, hfr]
    have := objFrame_length_pos id g body; omega
  obtain ⟨b1, _⟩ := writeChanges_bytes fmt b.ids _ _ _ _ _ hw pf.inv.sorted hLrec b.bytes (by rw [hlen, pf.len_same])
  obtain ⟨ext, e1, e2⟩ := writeChanges_objs fmt b.ids _ _ _ _ _ hw hLrec b.bytes (by rw [hlen, pf.len_same])
  simp only at e1 e2
  have hwl : w.len = b.doc.st.start + i.xpos := by
    have hx : i.xpos = w.len - (prep b.doc).st2.start := hxpos
    rw [hx, ← pf.start_same]; omega
  have hge : b.doc.st.len ≤ w.len := by rw [← pf.len_same]; exact k1
  refine ⟨by rw [hst]; exact pf.start_same, by rw [hst]; exact hxpos.symm, by omega, ?_, ?_, ?_⟩
  · rw [hbytes, ← hwl, ← b1]; simp only [revisionBytes, List.length_append]; omega
  · rw [hst]; simp only [commit]; rw [pf.secs_eq, hwl, hsize]
  · refine ⟨ext, ?_, ?_⟩
    · rw [hst]; simp only [commit]; rw [hinfo, e1, pf.objs_eq, hwl, hxid]; rfl
    · intro o ho
      obtain ⟨a1, a2, a3, a4, r, a5⟩ := e2 o ho
      obtain ⟨body, hbody, hfr⟩ := frameOf_of_ok fmt b.ids o.id o.gen o.val a3
      refine ⟨a1, a4, body, r ++ (xrefObjBytes fmt b.doc.tr b.ids (prep b.doc).infoRef i ++ tailBytes i), hbody, ?_⟩
      rw [hbytes]
      simp only [revisionBytes]
      have hoff : o.off ≤ (b.bytes ++ framesOf fmt (prep b.doc).st2.changes).length := by
        have := congrArg List.length a5
        simp only [List.length_drop, List.length_append] at this
        have hp := objFrame_length_pos o.id o.gen body
        rw [hfr] at this
        simp only [List.length_append] at hp ⊢
        omega
      have : b.bytes ++ (framesOf fmt (prep b.doc).st2.changes ++ xrefObjBytes fmt b.doc.tr b.ids (prep b.doc).infoRef i ++ tailBytes i)
          = (b.bytes ++ framesOf fmt (prep b.doc).st2.changes) ++ (xrefObjBytes fmt b.doc.tr b.ids (prep b.doc).infoRef i ++ tailBytes i) := by
        simp
      rw [this, List.drop_append_of_le_length hoff, a5, hfr]
      simp

end SaveBytes
