import PdfModel.Model.Parser
import PdfModel.Lemmas.TotalLexer
import PdfModel.Lemmas.TotalStr

/-!
  Totality of `Model/Parser` on ARBITRARY buffers (C01).

  `Good buf pos r`: the outcome `r` of a parser entry point started at cursor `pos` is `err`, or `ok (v, p)`
  with the cursor strictly further (`pos < p`) and inside the buffer (`p ≤ buf.size`).  In particular it is
  neither `panic` nor `oof`.

  The fuel argument (`parse_total_aux`): an activation started at `pos` with `m = buf.size - pos` bytes ahead
  needs at most
        parseCtx    3 m + 3        parseInner  3 m + 2        parseArray  3 m + 4        parseDict  3 m + 1
  levels of fuel, because every recursive call happens behind at least one consumed byte, or (the element
  parse of the array loop, which starts where the loop stands) is followed by a loop round that starts behind
  what the element consumed — and a successful parse consumes at least one byte (that is the `pos < p` half of
  `Good`).  The nesting budget `depth` is not needed for termination at all; it bounds the native stack
  (`Props/C01.parse_nesting_bounded`).

  Hypotheses, all about things outside the model:
    `RealSize buf`  the buffer is a Rust slice: `buf.size ≤ isize::MAX` (so `wrapping_add` does not wrap and
                    the nesting counter of the string lexer has room);
    `EnvOk env`     the resolver behind an indirect `/Length` and the decryption of a string return `Ok` or
                    `Err` (they are parameters: `Resolve::resolve_flags`, `Decoder::decrypt`).
-/

namespace PdfLex

variable {R : Type}

/-- a Rust slice never has more than `isize::MAX` bytes -/
def RealSize (buf : Buf) : Prop := buf.size ≤ 9223372036854775807

/-- `x` is `Ok` or `Err` -/
def Ret {α : Type} (x : Out α) : Prop := x = .err ∨ ∃ a, x = .ok a

theorem Ret.ne_panic {α : Type} {x : Out α} (h : Ret x) : x ≠ .panic := by
  rcases h with h | ⟨a, h⟩ <;> simp [h]

theorem Ret.ne_oof {α : Type} {x : Out α} (h : Ret x) : x ≠ .oof := by
  rcases h with h | ⟨a, h⟩ <;> simp [h]

theorem Ret.returns {α : Type} {x : Out α} (h : Ret x) : x.Returns := ⟨h.ne_panic, h.ne_oof⟩

/-- the parameters of the parser return `Ok` or `Err` -/
def EnvOk (env : Env R) : Prop :=
  (∀ i g, Ret (env.resolveLen i g)) ∧ (∀ f, env.decrypt = some f → ∀ i g s, Ret (f i g s))

/-- `err`, or `ok` with the cursor strictly further and inside the buffer -/
def Good {α : Type} (buf : Buf) (pos : Nat) (r : Out (α × Nat)) : Prop :=
  r = .err ∨ ∃ v p, r = .ok (v, p) ∧ pos < p ∧ p ≤ buf.size

theorem Good.ret {α : Type} {buf : Buf} {pos : Nat} {r : Out (α × Nat)} (h : Good buf pos r) : Ret r := by
  rcases h with h | ⟨v, p, h, _⟩
  · exact Or.inl h
  · exact Or.inr ⟨_, h⟩

theorem Good.mono {α : Type} {buf : Buf} {pos pos' : Nat} {r : Out (α × Nat)} (h : Good buf pos' r) (hle : pos ≤ pos') :
    Good buf pos r := by
  rcases h with h | ⟨v, p, h, h1, h2⟩
  · exact Or.inl h
  · exact Or.inr ⟨v, p, h, by omega, h2⟩

theorem good_err {α : Type} (buf : Buf) (pos : Nat) : Good (α := α) buf pos .err := Or.inl rfl

theorem good_ok {α : Type} {buf : Buf} {pos p : Nat} (v : α) (h1 : pos < p) (h2 : p ≤ buf.size) :
    Good buf pos (.ok (v, p)) := Or.inr ⟨v, p, rfl, h1, h2⟩

/-- `Good` with a fact about the value -/
def GoodQ {α : Type} (Q : α → Prop) (buf : Buf) (pos : Nat) (r : Out (α × Nat)) : Prop :=
  r = .err ∨ ∃ v p, r = .ok (v, p) ∧ pos < p ∧ p ≤ buf.size ∧ Q v

theorem GoodQ.good {α : Type} {Q : α → Prop} {buf : Buf} {pos : Nat} {r : Out (α × Nat)} (h : GoodQ Q buf pos r) :
    Good buf pos r := by
  rcases h with h | ⟨v, p, h, h1, h2, _⟩
  · exact Or.inl h
  · exact Or.inr ⟨v, p, h, h1, h2⟩

theorem GoodQ.mono {α : Type} {Q Q' : α → Prop} {buf : Buf} {pos pos' : Nat} {r : Out (α × Nat)}
    (h : GoodQ Q buf pos' r) (hle : pos ≤ pos') (hq : ∀ v, Q v → Q' v) : GoodQ Q' buf pos r := by
  rcases h with h | ⟨v, p, h, h1, h2, h3⟩
  · exact Or.inl h
  · exact Or.inr ⟨v, p, h, by omega, h2, hq v h3⟩

theorem goodq_err {α : Type} (Q : α → Prop) (buf : Buf) (pos : Nat) : GoodQ Q buf pos .err := Or.inl rfl

theorem goodq_ok {α : Type} {Q : α → Prop} {buf : Buf} {pos p : Nat} (v : α) (h1 : pos < p) (h2 : p ≤ buf.size)
    (hq : Q v) : GoodQ Q buf pos (.ok (v, p)) := Or.inr ⟨v, p, rfl, h1, h2, hq⟩

/-! ### how deep a value nests arrays and dictionaries -/

mutual
/-- nesting depth of containers in a value (a scalar is 0, `[]` is 1, `[[]]` is 2, …) -/
def nest : Prim R → Nat
  | .arr xs => nestList xs + 1
  | .dict kvs => nestEntries kvs + 1
  | .stream info _ => nestEntries info + 1
  | .null => 0
  | .int _ => 0
  | .real _ => 0
  | .bool _ => 0
  | .str _ => 0
  | .ref _ _ => 0
  | .name _ => 0
def nestList : List (Prim R) → Nat
  | [] => 0
  | x :: xs => max (nest x) (nestList xs)
def nestEntries : List (List UInt8 × Prim R) → Nat
  | [] => 0
  | kv :: r => max (nest kv.2) (nestEntries r)
end

theorem nestList_le {xs : List (Prim R)} {n : Nat} (h : ∀ x ∈ xs, nest x ≤ n) : nestList xs ≤ n := by
  induction xs with
  | nil => simp [nestList]
  | cons x xs ih =>
    simp only [nestList]
    have h1 := h x (by simp)
    have h2 := ih (fun y hy => h y (by simp [hy]))
    omega

theorem nestEntries_le {d : Dict R} {n : Nat} (h : ∀ kv ∈ d, nest kv.2 ≤ n) : nestEntries d ≤ n := by
  induction d with
  | nil => simp [nestEntries]
  | cons kv d ih =>
    simp only [nestEntries]
    have h1 := h kv (by simp)
    have h2 := ih (fun y hy => h y (by simp [hy]))
    omega

theorem dictInsert_mem (d : Dict R) (k : List UInt8) (v : Prim R) :
    ∀ kv ∈ dictInsert d k v, kv.2 = v ∨ kv ∈ d := by
  induction d with
  | nil => intro kv h; simp [dictInsert] at h; left; rw [h]
  | cons e d ih =>
    intro kv h
    obtain ⟨k', v'⟩ := e
    simp only [dictInsert] at h
    split at h
    · rcases List.mem_cons.1 h with rfl | h
      · left; rfl
      · right; simp [h]
    · rcases List.mem_cons.1 h with rfl | h
      · right; simp
      · rcases ih kv h with h1 | h1
        · left; exact h1
        · right; simp [h1]

/-! ### small pieces -/

theorem check_cases (flags allowed : Nat) : check flags allowed = .err ∨ check flags allowed = .ok () := by
  unfold check; split <;> simp

theorem ret_bind {α β : Type} {x : Out α} {f : α → Out β} (hx : Ret x) (hf : ∀ a, x = .ok a → Ret (f a)) :
    Ret (x.bind f) := by
  rcases hx with he | ⟨a, ha⟩
  · left; simp [he]
  · rw [ha]; simp only [Out.bind_ok]; exact hf a ha

theorem good_bind {α β : Type} {buf : Buf} {pos : Nat} {x : Out α} {f : α → Out (β × Nat)} (hx : Ret x)
    (hf : ∀ a, x = .ok a → Good buf pos (f a)) : Good buf pos (x.bind f) := by
  rcases hx with he | ⟨a, ha⟩
  · left; simp [he]
  · rw [ha]; simp only [Out.bind_ok]; exact hf a ha

theorem goodq_bind {α β : Type} {Q : β → Prop} {buf : Buf} {pos : Nat} {x : Out α} {f : α → Out (β × Nat)} (hx : Ret x)
    (hf : ∀ a, x = .ok a → GoodQ Q buf pos (f a)) : GoodQ Q buf pos (x.bind f) := by
  rcases hx with he | ⟨a, ha⟩
  · left; simp [he]
  · rw [ha]; simp only [Out.bind_ok]; exact hf a ha

theorem unescapeName_ret (t : List UInt8) : Ret (unescapeName t) := by
  fun_induction unescapeName t
  all_goals first
    | exact Or.inr ⟨_, rfl⟩
    | exact Or.inl rfl
    | (apply ret_bind (by assumption); intro r _; exact Or.inr ⟨_, rfl⟩)

theorem decodeName_ret (t : List UInt8) : Ret (decodeName t) := by
  unfold decodeName
  rcases unescapeName_ret t with he | ⟨s, hs⟩
  · left; simp [he]
  · rw [hs]; simp only [Out.bind_ok]
    split
    · exact Or.inr ⟨_, rfl⟩
    · exact Or.inl rfl

theorem decryptStr_ret (env : Env R) (henv : EnvOk env) (ctx : Option (Nat × Nat)) (s : List UInt8) :
    Ret (decryptStr env ctx s) := by
  unfold decryptStr
  cases ctx with
  | none => exact Or.inr ⟨_, rfl⟩
  | some id =>
    cases hd : env.decrypt with
    | none => exact Or.inr ⟨_, rfl⟩
    | some f => exact henv.2 f hd id.1 id.2 s

/-- `parse_stream_object`: `next_stream`, the length (direct or through the resolver), `read_n`, `endstream` -/
theorem parseStreamObject_goodq (env : Env R) (henv : EnvOk env) (buf : Buf) (hs : RealSize buf) (pos : Nat)
    (dict : Dict R) (id : Nat × Nat) (h : pos ≤ buf.size) :
    GoodQ (fun v => ∃ inner, v = .stream dict inner) buf pos (parseStreamObject env buf pos dict id) := by
  unfold parseStreamObject
  rcases nextStream_cases buf pos h with he | ⟨p1, hp1, h1, h2⟩
  · left; simp [he]
  · rw [hp1]; simp only [Out.bind_ok]
    apply goodq_bind
    · split
      · split
        · exact Or.inr ⟨_, rfl⟩
        · exact Or.inl rfl
      · exact henv.1 _ _
      · exact Or.inl rfl
      · exact Or.inl rfl
    · intro n _
      have hsz : buf.size ≤ usizeMax := by unfold RealSize at hs; unfold usizeMax; omega
      obtain ⟨s, p2, hr, _, _, h5, h6, _⟩ := readN_spec buf p1 n h2 hsz
      rw [hr]; simp only [Out.bind_ok]
      split
      · exact Or.inl rfl
      · rcases nextExpect_spec buf p2 kwEndstream h5 with he | ⟨p3, hp3, h7, h8⟩
        · left; simp [he]
        · rw [hp3]; simp only [Out.bind_ok]
          exact goodq_ok _ (by omega) h8 ⟨_, rfl⟩

theorem parseStreamObject_good (env : Env R) (henv : EnvOk env) (buf : Buf) (hs : RealSize buf) (pos : Nat)
    (dict : Dict R) (id : Nat × Nat) (h : pos ≤ buf.size) :
    Good buf pos (parseStreamObject env buf pos dict id) :=
  (parseStreamObject_goodq env henv buf hs pos dict id h).good

/-- the look-ahead for `gen R` never fails; the lexer ends at or behind `posBk` -/
theorem refLookahead_spec (buf : Buf) (posBk : Nat) (h : posBk ≤ buf.size) :
    ∃ la cur, refLookahead buf posBk = .ok (la, cur) ∧ posBk ≤ cur ∧ cur ≤ buf.size ∧
      (∀ w2 w3, la = some (w2, w3) → w3.2 = cur ∧ posBk < cur) := by
  unfold refLookahead
  rcases next_spec buf posBk h with he | ⟨w2, hw2, a1, a2, a3⟩
  · rw [he]; exact ⟨none, posBk, rfl, Nat.le_refl _, h, fun _ _ hh => by cases hh⟩
  · rw [hw2]; simp only []
    split
    · rcases next_spec buf w2.2 a3 with he | ⟨w3, hw3, b1, b2, b3⟩
      · rw [he]; exact ⟨none, w2.2, rfl, by omega, a3, fun _ _ hh => by cases hh⟩
      · rw [hw3]
        refine ⟨some (w2, w3), w3.2, rfl, by omega, b3, fun x y hh => ?_⟩
        cases hh; exact ⟨rfl, by omega⟩
    · exact ⟨none, w2.2, rfl, by omega, a3, fun _ _ hh => by cases hh⟩

/-- the integer / reference branch: `err`, or a scalar with the cursor at or behind `posBk` -/
theorem parseIntOrRef_spec (buf : Buf) (posBk : Nat) (first : List UInt8) (flags : Nat) (h : posBk ≤ buf.size) :
    GoodQ (fun v => nest v = 0) buf (posBk - 1) (parseIntOrRef (R := R) buf posBk first flags) ∨
    ∃ v, parseIntOrRef (R := R) buf posBk first flags = .ok (v, posBk) ∧ nest v = 0 := by
  unfold parseIntOrRef
  rcases check_cases flags (Flags.integer ||| Flags.ref) with hc | hc
  · left; left; simp [hc]
  · rw [hc]; simp only [Out.bind_ok]
    obtain ⟨la, cur, hla, c1, c2, c3⟩ := refLookahead_spec buf posBk h
    rw [hla]; simp only [Out.bind_ok]
    -- the integer branch, whichever way it is reached
    have asInt : ∀ x : Out (Prim R × Nat),
        x = ((check flags Flags.integer).bind fun _ => (setPos buf cur posBk).bind fun p =>
              match parseI32 first with
              | some i => Out.ok ((.int i : Prim R), p)
              | none => .err) →
        GoodQ (fun v => nest v = 0) buf (posBk - 1) x ∨ ∃ v, x = .ok (v, posBk) ∧ nest v = 0 := by
      intro x hx
      rcases check_cases flags Flags.integer with hc | hc
      · left; left; rw [hx]; simp [hc]
      · rw [hc] at hx; simp only [Out.bind_ok] at hx
        rw [setPos_spec buf cur posBk c2] at hx; simp only [Out.bind_ok] at hx
        have hmin : min posBk buf.size = posBk := by omega
        rw [hmin] at hx
        cases hp : parseI32 first with
        | none => left; left; rw [hx, hp]
        | some i => right; exact ⟨.int i, by rw [hx, hp], by simp [nest]⟩
    cases la with
    | none => exact asInt _ rfl
    | some ww =>
      obtain ⟨w2, w3⟩ := ww
      simp only []
      split
      · left
        rcases check_cases flags Flags.ref with hc | hc
        · left; simp [hc]
        · rw [hc]; simp only [Out.bind_ok]
          cases parseU64 first with
          | none => left; rfl
          | some i =>
            simp only []
            cases parseU64 (slice buf w2.1 w2.2) with
            | none => left; rfl
            | some g =>
              have := c3 w2 w3 rfl
              exact goodq_ok _ (by omega) (by omega) (by simp [nest])
      · exact asInt _ rfl

/-! ### the mutual recursion -/

/-- the four statements, for one amount of fuel; the value facts are the nesting bounds -/
def TotalAt (env : Env R) (buf : Buf) (fuel : Nat) : Prop :=
  (∀ pos ctx flags depth, pos ≤ buf.size → 3 * (buf.size - pos) + 3 ≤ fuel →
      GoodQ (fun v => nest v ≤ depth) buf pos (parseCtx env buf fuel pos ctx flags depth)) ∧
  (∀ pos ctx flags depth, pos ≤ buf.size → 3 * (buf.size - pos) + 2 ≤ fuel →
      GoodQ (fun v => nest v ≤ depth) buf pos (parseInner env buf fuel pos ctx flags depth)) ∧
  (∀ pos ctx depth acc, pos ≤ buf.size → 3 * (buf.size - pos) + 4 ≤ fuel → (∀ e ∈ acc, nest e ≤ depth) →
      GoodQ (fun v => nest v ≤ depth + 1) buf pos (parseArray env buf fuel pos ctx depth acc)) ∧
  (∀ pos ctx depth acc, pos ≤ buf.size → 3 * (buf.size - pos) + 1 ≤ fuel → (∀ kv ∈ acc, nest kv.2 ≤ depth) →
      GoodQ (fun d => ∀ kv ∈ d, nest kv.2 ≤ depth) buf pos (parseDict env buf fuel pos ctx depth acc))

theorem parseCtx_step (env : Env R) (buf : Buf) (fuel : Nat) (ih : TotalAt env buf fuel)
    (pos : Nat) (ctx : Option (Nat × Nat)) (flags depth : Nat) (h : pos ≤ buf.size)
    (hf : 3 * (buf.size - pos) + 3 ≤ fuel + 1) :
    GoodQ (fun v => nest v ≤ depth) buf pos (parseCtx env buf (fuel + 1) pos ctx flags depth) := by
  unfold parseCtx
  rcases ih.2.1 pos ctx flags depth h (by omega) with he | ⟨v, p, hp, h1, h2, h3⟩
  · rw [he]; simp only []
    rw [setPos_spec buf pos pos h]; exact Or.inl rfl
  · rw [hp]; exact goodq_ok v h1 h2 h3

theorem parseArray_step (env : Env R) (buf : Buf) (fuel : Nat) (ih : TotalAt env buf fuel)
    (pos : Nat) (ctx : Option (Nat × Nat)) (depth : Nat) (acc : List (Prim R)) (h : pos ≤ buf.size)
    (hf : 3 * (buf.size - pos) + 4 ≤ fuel + 1) (hacc : ∀ e ∈ acc, nest e ≤ depth) :
    GoodQ (fun v => nest v ≤ depth + 1) buf pos (parseArray env buf (fuel + 1) pos ctx depth acc) := by
  unfold parseArray
  obtain ⟨pk, hpk, _, _, _⟩ := peek_spec buf pos h
  rw [hpk]; simp only [Out.bind_ok]
  split
  · rcases next_spec buf pos h with he | ⟨w, hw, a1, a2, a3⟩
    · left; simp [he]
    · rw [hw]; simp only [Out.bind_ok]
      refine goodq_ok _ (by omega) a3 ?_
      simp only [nest]
      have := nestList_le (xs := acc.reverse) (n := depth) (fun x hx => hacc x (by simpa using hx))
      omega
  · rcases ih.1 pos ctx Flags.any depth h (by omega) with he | ⟨v, p, hp, h1, h2, h3⟩
    · left; simp [he]
    · rw [hp]; simp only [Out.bind_ok]
      exact (ih.2.2.1 p ctx depth (v :: acc) h2 (by omega)
        (fun e he => by
          rcases List.mem_cons.1 he with rfl | he
          · exact h3
          · exact hacc e he)).mono (by omega) (fun _ hq => hq)

theorem parseDict_step (env : Env R) (buf : Buf) (fuel : Nat) (ih : TotalAt env buf fuel)
    (pos : Nat) (ctx : Option (Nat × Nat)) (depth : Nat) (acc : Dict R) (h : pos ≤ buf.size)
    (hf : 3 * (buf.size - pos) + 1 ≤ fuel + 1) (hacc : ∀ kv ∈ acc, nest kv.2 ≤ depth) :
    GoodQ (fun d => ∀ kv ∈ d, nest kv.2 ≤ depth) buf pos (parseDict env buf (fuel + 1) pos ctx depth acc) := by
  unfold parseDict
  rcases next_spec buf pos h with he | ⟨w, hw, a1, a2, a3⟩
  · left; simp [he]
  · rw [hw]; simp only [Out.bind_ok]
    split
    · apply goodq_bind (decodeName_ret _)
      intro key _
      rcases ih.1 w.2 ctx Flags.any depth a3 (by omega) with he | ⟨v, p, hp, h1, h2, h3⟩
      · left; simp [he]
      · rw [hp]; simp only [Out.bind_ok]
        exact (ih.2.2.2 p ctx depth (dictInsert acc key v) h2 (by omega)
          (fun kv hkv => by
            rcases dictInsert_mem acc key v kv hkv with hv | hm
            · rw [hv]; exact h3
            · exact hacc kv hm)).mono (by omega) (fun _ hq => hq)
    · split
      · exact goodq_ok _ (by omega) a3 hacc
      · exact goodq_err _ _ _

theorem parseInner_step (env : Env R) (henv : EnvOk env) (buf : Buf) (hs : RealSize buf) (fuel : Nat)
    (ih : TotalAt env buf fuel)
    (pos : Nat) (ctx : Option (Nat × Nat)) (flags depth : Nat) (h : pos ≤ buf.size)
    (hf : 3 * (buf.size - pos) + 2 ≤ fuel + 1) :
    GoodQ (fun v => nest v ≤ depth) buf pos (parseInner env buf (fuel + 1) pos ctx flags depth) := by
  unfold parseInner
  rw [remainingStart_spec buf pos h]; simp only [Out.bind_ok]
  rcases next_spec buf pos h with he | ⟨w, hw, a1, a2, a3⟩
  · left; simp [he]
  · rw [hw]; simp only [Out.bind_ok]
    have hsz : buf.size ≤ usizeMax := by unfold RealSize at hs; unfold usizeMax; omega
    split
    · -- `<<`
      rcases check_cases flags Flags.dict with hc | hc
      · left; simp [hc]
      · rw [hc]; simp only [Out.bind_ok]
        split
        · exact goodq_err _ _ _
        · rename_i hd0
          have hdpos : depth - 1 + 1 = depth := by
            have : depth ≠ 0 := by simpa using hd0
            omega
          rcases ih.2.2.2 w.2 ctx (depth - 1) [] a3 (by omega) (fun kv hkv => by cases hkv)
            with he | ⟨d, p, hp, h1, h2, h3⟩
          · left; simp [he]
          · rw [hp]; simp only [Out.bind_ok]
            obtain ⟨pk, hpk, _, _, _⟩ := peek_spec buf p h2
            rw [hpk]; simp only [Out.bind_ok]
            have hnd : nestEntries d + 1 ≤ depth := by have := nestEntries_le h3; omega
            split
            · split
              · exact goodq_err _ _ _
              · refine (parseStreamObject_goodq env henv buf hs p d _ h2).mono (by omega) ?_
                rintro v ⟨inner, rfl⟩
                simpa [nest] using hnd
            · exact goodq_ok _ (by omega) h2 (by simpa [nest] using hnd)
    · split
      · -- integer or reference
        rcases parseIntOrRef_spec (R := R) buf w.2 (slice buf w.1 w.2) flags a3 with hg | ⟨v, hv, hn⟩
        · exact hg.mono (by omega) (fun v hv => by omega)
        · rw [hv]; exact goodq_ok _ (by omega) a3 (by omega)
      · split
        · -- real number
          rcases check_cases flags Flags.number with hc | hc
          · left; simp [hc]
          · rw [hc]; simp only [Out.bind_ok]
            split
            · exact goodq_ok _ (by omega) a3 (by simp [nest])
            · exact goodq_err _ _ _
        · split
          · -- name
            rcases check_cases flags Flags.name with hc | hc
            · left; simp [hc]
            · rw [hc]; simp only [Out.bind_ok]
              apply goodq_bind (decodeName_ret _)
              intro s _
              exact goodq_ok _ (by omega) a3 (by simp [nest])
          · split
            · -- array
              rcases check_cases flags Flags.array with hc | hc
              · left; simp [hc]
              · rw [hc]; simp only [Out.bind_ok]
                split
                · exact goodq_err _ _ _
                · rename_i hd0
                  have hdpos : depth - 1 + 1 = depth := by
                    have : depth ≠ 0 := by simpa using hd0
                    omega
                  exact (ih.2.2.1 w.2 ctx (depth - 1) [] a3 (by omega) (fun e he => by cases he)).mono (by omega)
                    (fun v hv => by omega)
            · split
              · -- literal string
                rcases check_cases flags Flags.string with hc | hc
                · left; simp [hc]
                · rw [hc]; simp only [Out.bind_ok]
                  rw [remainingStart_spec buf w.2 a3]; simp only [Out.bind_ok]
                  have hm : (0 : Int) + ((buf.size - w.2 : Nat) : Int) ≤ i64Max := by
                    unfold RealSize at hs; unfold i64Max; omega
                  rcases collectString_spec buf (buf.size - w.2 + 2) w.2 0 [] a3 (Int.le_refl 0) hm (by omega)
                    with he | ⟨s, p, hp, h1, h2⟩
                  · left; simp [he]
                  · rw [hp]; simp only [Out.bind_ok]
                    rw [offsetPos_exact buf w.2 (p - w.2) a3 (by omega)]
                    simp only [Out.bind_ok]
                    rcases decryptStr_ret env henv ctx s with he | ⟨s', hs'⟩
                    · left; simp [he]
                    · rw [hs']; simp only [Out.bind_ok]
                      exact goodq_ok _ (by omega) (by omega) (by simp [nest])
              · split
                · -- hexadecimal string
                  rcases check_cases flags Flags.string with hc | hc
                  · left; simp [hc]
                  · rw [hc]; simp only [Out.bind_ok]
                    rw [remainingStart_spec buf w.2 a3]; simp only [Out.bind_ok]
                    rcases collectHex_spec buf w.2 (buf.size - w.2 + 2) w.2 [] (Nat.le_refl _) a3 (by omega)
                      with he | ⟨s, p, hp, h1, h2⟩
                    · left; simp [he]
                    · rw [hp]; simp only [Out.bind_ok]
                      rw [offsetPos_exact buf w.2 (p - w.2) a3 (by omega)]
                      simp only [Out.bind_ok]
                      rcases decryptStr_ret env henv ctx s with he | ⟨s', hs'⟩
                      · left; simp [he]
                      · rw [hs']; simp only [Out.bind_ok]
                        exact goodq_ok _ (by omega) (by omega) (by simp [nest])
                · split
                  · rcases check_cases flags Flags.bool with hc | hc
                    · left; simp [hc]
                    · rw [hc]; simp only [Out.bind_ok]; exact goodq_ok _ (by omega) a3 (by simp [nest])
                  · split
                    · rcases check_cases flags Flags.bool with hc | hc
                      · left; simp [hc]
                      · rw [hc]; simp only [Out.bind_ok]; exact goodq_ok _ (by omega) a3 (by simp [nest])
                    · split
                      · rcases check_cases flags Flags.null with hc | hc
                        · left; simp [hc]
                        · rw [hc]; simp only [Out.bind_ok]; exact goodq_ok _ (by omega) a3 (by simp [nest])
                      · -- unknown token: `read_n(50)` for the error message
                        obtain ⟨s, p, hr, _⟩ := readN_total buf w.2 50 a3
                        left; rw [hr]; rfl

/-- the fuel argument: all four entry points at once, by induction on the fuel -/
theorem parse_total_aux (env : Env R) (henv : EnvOk env) (buf : Buf) (hs : RealSize buf) :
    ∀ fuel, TotalAt env buf fuel := by
  intro fuel
  induction fuel with
  | zero =>
    refine ⟨?_, ?_, ?_, ?_⟩
    · intro _ _ _ _ _ hf; omega
    · intro _ _ _ _ _ hf; omega
    · intro _ _ _ _ _ hf; omega
    · intro _ _ _ _ _ hf; omega
  | succ fuel ih =>
    exact ⟨fun pos ctx flags depth h hf => parseCtx_step env buf fuel ih pos ctx flags depth h hf,
      fun pos ctx flags depth h hf => parseInner_step env henv buf hs fuel ih pos ctx flags depth h hf,
      fun pos ctx depth acc h hf hacc => parseArray_step env buf fuel ih pos ctx depth acc h hf hacc,
      fun pos ctx depth acc h hf hacc => parseDict_step env buf fuel ih pos ctx depth acc h hf hacc⟩

/-! ### the entry points -/

theorem defaultFuel_enough (buf : Buf) (pos : Nat) : 3 * (buf.size - pos) + 4 ≤ defaultFuel buf := by
  unfold defaultFuel; omega

theorem parseWithLexer_goodq (env : Env R) (henv : EnvOk env) (buf : Buf) (hs : RealSize buf) (fuel pos flags : Nat)
    (h : pos ≤ buf.size) (hf : 3 * (buf.size - pos) + 3 ≤ fuel) :
    GoodQ (fun v => nest v ≤ maxDepth) buf pos (parseWithLexer env buf fuel pos flags) :=
  (parse_total_aux env henv buf hs fuel).1 pos none flags maxDepth h hf

theorem parseWithLexer_good (env : Env R) (henv : EnvOk env) (buf : Buf) (hs : RealSize buf) (fuel pos flags : Nat)
    (h : pos ≤ buf.size) (hf : 3 * (buf.size - pos) + 3 ≤ fuel) :
    Good buf pos (parseWithLexer env buf fuel pos flags) :=
  (parseWithLexer_goodq env henv buf hs fuel pos flags h hf).good

theorem parseObjHeader_good (buf : Buf) (pos : Nat) (h : pos ≤ buf.size) : Good buf pos (parseObjHeader buf pos) := by
  unfold parseObjHeader
  rcases next_spec buf pos h with he | ⟨w1, hw1, a1, a2, a3⟩
  · left; simp [he]
  · rw [hw1]; simp only [Out.bind_ok]
    split
    · exact good_err _ _
    · rcases next_spec buf w1.2 a3 with he | ⟨w2, hw2, b1, b2, b3⟩
      · left; simp [he]
      · rw [hw2]; simp only [Out.bind_ok]
        split
        · exact good_err _ _
        · rcases nextExpect_spec buf w2.2 kwObj b3 with he | ⟨p, hp, c1, c2⟩
          · left; simp [he]
          · rw [hp]; simp only [Out.bind_ok]; exact good_ok _ (by omega) c2

theorem parseIndirectObject_good (env : Env R) (henv : EnvOk env) (buf : Buf) (hs : RealSize buf)
    (fuel pos flags : Nat) (h : pos ≤ buf.size) (hf : 3 * buf.size + 3 ≤ fuel) :
    Good buf pos (parseIndirectObject env buf fuel pos flags) := by
  unfold parseIndirectObject
  rcases parseObjHeader_good buf pos h with he | ⟨id, p, hp, h1, h2⟩
  · left; simp [he]
  · rw [hp]; simp only [Out.bind_ok]
    rcases ((parse_total_aux env henv buf hs fuel).1 p (some id) flags maxDepth h2 (by omega)).good
      with he | ⟨v, q, hq, q1, q2⟩
    · left; simp [he]
    · rw [hq]; simp only [Out.bind_ok]
      split
      · rcases nextExpect_spec buf q kwEndobj q2 with he | ⟨r, hr, r1, r2⟩
        · rw [he]; simp only []
          rw [setPos_spec buf q q q2]; simp only [Out.bind_ok]
          exact good_ok _ (by omega) (by omega)
        · rw [hr]; exact good_ok _ (by omega) r2
      · rcases nextExpect_spec buf q kwEndobj q2 with he | ⟨r, hr, r1, r2⟩
        · left; simp [he]
        · rw [hr]; simp only [Out.bind_ok]; exact good_ok _ (by omega) r2

theorem parseStream_good (env : Env R) (henv : EnvOk env) (buf : Buf) (hs : RealSize buf)
    (fuel pos : Nat) (id : Nat × Nat) (h : pos ≤ buf.size) (hf : 3 * buf.size + 3 ≤ fuel) :
    Good buf pos (parseStream env buf fuel pos id) := by
  unfold parseStream
  rcases next_spec buf pos h with he | ⟨w, hw, a1, a2, a3⟩
  · left; simp [he]
  · rw [hw]; simp only [Out.bind_ok]
    split
    · rcases ((parse_total_aux env henv buf hs fuel).2.2.2 w.2 none maxDepth [] a3 (by omega)
          (fun kv hkv => by cases hkv)).good with he | ⟨d, p, hp, h1, h2⟩
      · left; simp [he]
      · rw [hp]; simp only [Out.bind_ok]
        obtain ⟨pk, hpk, _, _, _⟩ := peek_spec buf p h2
        rw [hpk]; simp only [Out.bind_ok]
        split
        · exact (parseStreamObject_good env henv buf hs p d id h2).mono (by omega)
        · exact good_err _ _
    · exact good_err _ _

theorem parseIndirectStream_good (env : Env R) (henv : EnvOk env) (buf : Buf) (hs : RealSize buf)
    (fuel pos : Nat) (h : pos ≤ buf.size) (hf : 3 * buf.size + 3 ≤ fuel) :
    Good buf pos (parseIndirectStream env buf fuel pos) := by
  unfold parseIndirectStream
  rcases parseObjHeader_good buf pos h with he | ⟨id, p, hp, h1, h2⟩
  · left; simp [he]
  · rw [hp]; simp only [Out.bind_ok]
    rcases parseStream_good env henv buf hs fuel p id h2 hf with he | ⟨v, q, hq, q1, q2⟩
    · left; simp [he]
    · rw [hq]; simp only [Out.bind_ok]
      rcases nextExpect_spec buf q kwEndobj q2 with he | ⟨r, hr, r1, r2⟩
      · left; simp [he]
      · rw [hr]; simp only [Out.bind_ok]; exact good_ok _ (by omega) r2

end PdfLex

/-! ### a request restricted to `ParseFlags::INTEGER` never yields a stream

`Storage::resolve_ref` asks for an indirect `/Length` with `ParseFlags::INTEGER`; `check(flags, DICT)` fails before a
dictionary — let alone a stream — is read, so the length resolver cannot recurse through another stream. -/

namespace PdfLex

variable {R : Type}

theorem bind_eq_ok {α β : Type} {x : Out α} {f : α → Out β} {r : β} (h : x.bind f = .ok r) :
    ∃ a, x = .ok a ∧ f a = .ok r := by
  cases x with
  | ok a => exact ⟨a, rfl, h⟩
  | err => cases h
  | panic => cases h
  | oof => cases h

def NotStream : Prim R → Prop
  | .stream _ _ => False
  | _ => True

theorem notStream_of_nest {v : Prim R} (h : nest v = 0) : NotStream v := by
  cases v <;> simp [NotStream, nest] at h ⊢

theorem parseArray_notStream (env : Env R) (buf : Buf) : ∀ (fuel pos : Nat) (ctx : Option (Nat × Nat)) (depth : Nat)
    (acc : List (Prim R)) (v : Prim R) (p : Nat), parseArray env buf fuel pos ctx depth acc = .ok (v, p) → NotStream v := by
  intro fuel
  induction fuel with
  | zero => intro pos ctx depth acc v p h; simp [parseArray] at h
  | succ fuel ih =>
    intro pos ctx depth acc v p h
    unfold parseArray at h
    obtain ⟨pk, _, h⟩ := bind_eq_ok h
    split at h
    · obtain ⟨w, _, h⟩ := bind_eq_ok h
      cases h; trivial
    · obtain ⟨e, _, h⟩ := bind_eq_ok h
      exact ih _ _ _ _ _ _ h

theorem check_integer_dict : check Flags.integer Flags.dict = .err := by decide
theorem check_integer_number : check Flags.integer Flags.number = .err := by decide

/-- `_parse_with_lexer_ctx` under `ParseFlags::INTEGER`: whatever is returned is not a stream -/
theorem parseInner_integer_notStream (env : Env R) (buf : Buf) (fuel pos : Nat) (ctx : Option (Nat × Nat)) (depth : Nat)
    (hpos : pos ≤ buf.size) (v : Prim R) (p : Nat)
    (h : parseInner env buf fuel pos ctx Flags.integer depth = .ok (v, p)) : NotStream v := by
  cases fuel with
  | zero => simp [parseInner] at h
  | succ fuel =>
    unfold parseInner at h
    obtain ⟨_, _, h⟩ := bind_eq_ok h
    obtain ⟨w, hw, h⟩ := bind_eq_ok h
    have hw2 : w.2 ≤ buf.size := by
      rcases next_spec buf pos hpos with he | ⟨w', hw', _, _, a3⟩
      · rw [he] at hw; cases hw
      · rw [hw'] at hw; cases hw; exact a3
    simp only [] at h
    split at h
    · rw [check_integer_dict] at h; cases h
    · split at h
      · rcases parseIntOrRef_spec (R := R) buf w.2 (slice buf w.1 w.2) Flags.integer hw2 with hg | ⟨v', hv', hn⟩
        · rcases hg with he | ⟨v', p', hp', _, _, hn⟩
          · rw [he] at h; cases h
          · rw [hp'] at h; cases h; exact notStream_of_nest hn
        · rw [hv'] at h; cases h; exact notStream_of_nest hn
      · split at h
        · rw [check_integer_number] at h; cases h
        · split at h
          · obtain ⟨_, _, h⟩ := bind_eq_ok h
            obtain ⟨s, _, h⟩ := bind_eq_ok h
            cases h; trivial
          · split at h
            · obtain ⟨_, _, h⟩ := bind_eq_ok h
              split at h
              · cases h
              · exact parseArray_notStream env buf _ _ _ _ _ _ _ h
            · split at h
              · obtain ⟨_, _, h⟩ := bind_eq_ok h
                obtain ⟨_, _, h⟩ := bind_eq_ok h
                obtain ⟨_, _, h⟩ := bind_eq_ok h
                obtain ⟨_, _, h⟩ := bind_eq_ok h
                obtain ⟨_, _, h⟩ := bind_eq_ok h
                cases h; trivial
              · split at h
                · obtain ⟨_, _, h⟩ := bind_eq_ok h
                  obtain ⟨_, _, h⟩ := bind_eq_ok h
                  obtain ⟨_, _, h⟩ := bind_eq_ok h
                  obtain ⟨_, _, h⟩ := bind_eq_ok h
                  obtain ⟨_, _, h⟩ := bind_eq_ok h
                  cases h; trivial
                · split at h
                  · obtain ⟨_, _, h⟩ := bind_eq_ok h; cases h; trivial
                  · split at h
                    · obtain ⟨_, _, h⟩ := bind_eq_ok h; cases h; trivial
                    · split at h
                      · obtain ⟨_, _, h⟩ := bind_eq_ok h; cases h; trivial
                      · obtain ⟨_, _, h⟩ := bind_eq_ok h; cases h

theorem parseCtx_integer_notStream (env : Env R) (buf : Buf) (fuel pos : Nat) (ctx : Option (Nat × Nat)) (depth : Nat)
    (hpos : pos ≤ buf.size) (v : Prim R) (p : Nat)
    (h : parseCtx env buf fuel pos ctx Flags.integer depth = .ok (v, p)) : NotStream v := by
  cases fuel with
  | zero => simp [parseCtx] at h
  | succ fuel =>
    unfold parseCtx at h
    split at h
    · rename_i r hr
      cases h
      exact parseInner_integer_notStream env buf fuel pos ctx depth hpos _ _ hr
    · obtain ⟨_, _, h⟩ := bind_eq_ok h; cases h
    · cases h
    · cases h

/-- `parse_indirect_object(…, ParseFlags::INTEGER)` never returns a stream -/
theorem parseIndirectObject_integer_notStream (env : Env R) (buf : Buf) (fuel pos : Nat) (hpos : pos ≤ buf.size)
    (id : Nat × Nat) (v : Prim R) (p : Nat)
    (h : parseIndirectObject env buf fuel pos Flags.integer = .ok ((id, v), p)) : NotStream v := by
  unfold parseIndirectObject at h
  obtain ⟨hd, hhd, h⟩ := bind_eq_ok h
  obtain ⟨id', q⟩ := hd
  have hq : q ≤ buf.size := by
    rcases parseObjHeader_good buf pos hpos with he | ⟨_, q', hq', _, h2⟩
    · rw [he] at hhd; cases hhd
    · rw [hq'] at hhd; cases hhd; exact h2
  obtain ⟨r, hr, h⟩ := bind_eq_ok h
  obtain ⟨v', q'⟩ := r
  have hns := parseCtx_integer_notStream env buf fuel q (some id') maxDepth hq v' q' hr
  simp only [] at h
  split at h
  · split at h
    · cases h; exact hns
    · obtain ⟨_, _, h⟩ := bind_eq_ok h; cases h; exact hns
    · cases h
    · cases h
  · obtain ⟨_, _, h⟩ := bind_eq_ok h; cases h; exact hns

end PdfLex
